From Coq Require Import List Arith Bool Lia Permutation.
Import ListNotations.
From PV Require Import C27.Model.

(* ---------- basic facts ---------- *)
Lemma memb_In x l : memb x l = true <-> In x l.
Proof.
  unfold memb. rewrite existsb_exists. split.
  - intros [y [Hy E]]. apply Nat.eqb_eq in E. subst. exact Hy.
  - intros H. exists x. split; [exact H | apply Nat.eqb_refl].
Qed.

Lemma keys_prune m : keys (prune m) = keys m.
Proof. unfold keys, prune. rewrite map_map. apply map_ext. intros [k ds]. reflexivity. Qed.

Lemma length_prune m : length (prune m) = length m.
Proof. unfold prune. apply map_length. Qed.

Definition neqk (k x : nat) : bool := negb (x =? k).

Lemma keys_remove_mod k m : keys (remove_mod k m) = filter (neqk k) (keys m).
Proof.
  unfold keys, remove_mod. rewrite map_map. cbn [fst].
  induction m as [|[a ds] m IH]; cbn [filter map fst]; [reflexivity|].
  unfold neqk at 1. destruct (negb (a =? k)); cbn [map fst]; rewrite IH; reflexivity.
Qed.

Lemma filter_neq_perm k l : NoDup l -> In k l -> Permutation (k :: filter (neqk k) l) l.
Proof.
  induction l as [|x l IH]; intros Hnd Hin; [destruct Hin|].
  inversion Hnd as [|? ? Hx Hnd']; subst. cbn [filter]. unfold neqk at 1.
  destruct (Nat.eqb_spec x k) as [E|NE]; cbn [negb].
  - subst x. apply perm_skip.
    assert (F : filter (neqk k) l = l).
    { clear IH Hnd Hin Hnd'. induction l as [|y l IHl]; [reflexivity|]. cbn [filter]. unfold neqk at 1.
      destruct (Nat.eqb_spec y k) as [E|NE]; cbn [negb].
      - subst. exfalso. apply Hx. left; reflexivity.
      - f_equal. apply IHl. intro H. apply Hx. right; exact H. }
    rewrite F. apply Permutation_refl.
  - destruct Hin as [E|Hin]; [congruence|].
    eapply perm_trans; [apply perm_swap|]. apply perm_skip. apply IH; assumption.
Qed.

Lemma NoDup_filter {A} (f : A -> bool) l : NoDup l -> NoDup (filter f l).
Proof.
  induction 1 as [|x l Hx Hnd IH]; cbn [filter]; [constructor|].
  destruct (f x); [constructor; [|exact IH]|exact IH].
  intro H. apply filter_In in H. apply Hx, H.
Qed.

Lemma first_empty_some m k : first_empty m = Some k -> In (k, []) m.
Proof.
  induction m as [|[a ds] m IH]; cbn [first_empty]; [discriminate|].
  destruct ds as [|d ds].
  - intros E. inversion E; subst. left; reflexivity.
  - intros E. right. apply IH, E.
Qed.

Lemma first_empty_none m : first_empty m = None -> forall a ds, In (a, ds) m -> ds <> [].
Proof.
  induction m as [|[a0 ds0] m IH]; cbn [first_empty]; intros E a ds Hin; [destruct Hin|].
  destruct ds0 as [|d ds0]; [discriminate|].
  destruct Hin as [H|H]; [inversion H; subst; discriminate | eapply IH; eassumption].
Qed.

Lemma min_len_in m best : In (min_len m best) (fst best :: keys m).
Proof.
  revert best. induction m as [|[k ds] m IH]; intros best; cbn [min_len keys map fst].
  - left; reflexivity.
  - destruct (length ds <? snd best).
    + specialize (IH (k, length ds)). cbn [fst] in IH. destruct IH as [H|H]; [right; left; exact H | right; right; exact H].
    + specialize (IH best). destruct IH as [H|H]; [left; exact H | right; right; exact H].
Qed.

Lemma pick_in m : m <> [] -> In (pick m) (keys m).
Proof.
  intros Hne. unfold pick. destruct (first_empty m) as [k|] eqn:E.
  - apply first_empty_some in E. unfold keys. change k with (fst (k, @nil nat)). apply in_map, E.
  - destruct m as [|[k ds] m]; [congruence|]. cbn [keys map fst].
    pose proof (min_len_in m (k, length ds)) as H. exact H.
Qed.

(* ---------- each module exactly once ---------- *)
Lemma loop_perm : forall fuel m, NoDup (keys m) -> length m <= fuel -> Permutation (loop fuel m) (keys m).
Proof.
  induction fuel as [|f IH]; intros m Hnd Hlen.
  - destruct m; [apply perm_nil | cbn in Hlen; lia].
  - destruct m as [|e m']; [apply perm_nil|].
    set (m := e :: m') in *. cbn [loop]. fold m.
    assert (Hin : In (pick m) (keys m)) by (apply pick_in; discriminate).
    pose proof (filter_neq_perm (pick m) (keys m) Hnd Hin) as HP.
    eapply perm_trans; [|exact HP]. apply perm_skip.
    rewrite <- keys_remove_mod. apply IH.
    + rewrite keys_remove_mod. apply NoDup_filter, Hnd.
    + apply Permutation_length in HP. cbn [length] in HP. rewrite <- keys_remove_mod in HP.
      unfold keys in HP. rewrite !map_length in HP. lia.
Qed.

Lemma sort_perm_ m : NoDup (keys m) -> Permutation (sort_modules m) (keys m).
Proof.
  intros H. unfold sort_modules. rewrite <- (keys_prune m). apply loop_perm.
  - rewrite keys_prune; exact H.
  - rewrite length_prune; lia.
Qed.

(* ---------- dependencies first ---------- *)
Definition closed (m : modmap) := forall a ds b, In (a, ds) m -> In b ds -> In b (keys m).
Definition ranked (r : nat -> nat) (m : modmap) := forall a ds b, In (a, ds) m -> In b ds -> r b < r a.
Definition before (b a : nat) (l : list nat) := exists l1 l2, l = l1 ++ a :: l2 /\ In b l1.

Lemma min_rank (r : nat -> nat) (m : modmap) : m <> [] ->
  exists a ds, In (a, ds) m /\ forall a' ds', In (a', ds') m -> r a <= r a'.
Proof.
  induction m as [|[a ds] m IH]; [congruence|]. intros _.
  destruct m as [|e m'].
  - exists a, ds. split; [left; reflexivity|]. intros a' ds' [H|[]]. inversion H; subst; lia.
  - destruct IH as [a1 [ds1 [Hin Hmin]]]; [discriminate|].
    destruct (le_lt_dec (r a) (r a1)) as [L|L].
    + exists a, ds. split; [left; reflexivity|]. intros a' ds' [H|H].
      * inversion H; subst; lia.
      * specialize (Hmin _ _ H). lia.
    + exists a1, ds1. split; [right; exact Hin|]. intros a' ds' [H|H].
      * inversion H; subst; lia.
      * apply (Hmin _ _ H).
Qed.

Lemma in_keys_entry m b : In b (keys m) -> exists ds, In (b, ds) m.
Proof.
  unfold keys. intros H. apply in_map_iff in H as [[k ds] [E Hin]]. cbn in E. subst. exists ds. exact Hin.
Qed.

Lemma ranked_has_empty r m : m <> [] -> closed m -> ranked r m -> exists k, first_empty m = Some k.
Proof.
  intros Hne Hc Hr. destruct (first_empty m) as [k|] eqn:E; [exists k; reflexivity|]. exfalso.
  destruct (min_rank r m Hne) as [a [ds [Hin Hmin]]].
  pose proof (first_empty_none m E a ds Hin) as Hds.
  destruct ds as [|b ds]; [congruence|].
  assert (Hb : In b (b :: ds)) by (left; reflexivity).
  pose proof (Hc _ _ _ Hin Hb) as Hk. apply in_keys_entry in Hk as [ds' Hin'].
  pose proof (Hr _ _ _ Hin Hb). pose proof (Hmin _ _ Hin'). lia.
Qed.

Lemma entry_unique m a ds ds' : NoDup (keys m) -> In (a, ds) m -> In (a, ds') m -> ds = ds'.
Proof.
  induction m as [|[k d] m IH]; intros Hnd H1 H2; [destruct H1|].
  cbn [keys map fst] in Hnd. inversion Hnd as [|? ? Hk Hnd']; subst.
  destruct H1 as [H1|H1], H2 as [H2|H2].
  - congruence.
  - inversion H1; subst. exfalso. apply Hk. change a with (fst (a, ds')). apply in_map, H2.
  - inversion H2; subst. exfalso. apply Hk. change a with (fst (a, ds)). apply in_map, H1.
  - apply IH; assumption.
Qed.

Lemma in_remove_mod k m a ds : In (a, ds) m -> a <> k -> In (a, remove Nat.eq_dec k ds) (remove_mod k m).
Proof.
  intros Hin Hne. unfold remove_mod. apply in_map_iff. exists (a, ds). split; [reflexivity|].
  apply filter_In. split; [exact Hin|]. cbn [fst]. apply negb_true_iff, Nat.eqb_neq, Hne.
Qed.

Lemma in_remove_mod_inv k m a ds' : In (a, ds') (remove_mod k m) ->
  exists ds, In (a, ds) m /\ a <> k /\ ds' = remove Nat.eq_dec k ds.
Proof.
  unfold remove_mod. intros H. apply in_map_iff in H as [[a0 ds0] [E Hin]]. cbn [fst snd] in E.
  inversion E; subst. apply filter_In in Hin as [Hin Hf]. cbn [fst] in Hf.
  apply negb_true_iff, Nat.eqb_neq in Hf. exists ds0. auto.
Qed.

Lemma loop_respects r : forall fuel m, NoDup (keys m) -> closed m -> ranked r m -> length m <= fuel ->
  forall a ds b, In (a, ds) m -> In b ds -> before b a (loop fuel m).
Proof.
  induction fuel as [|f IH]; intros m Hnd Hc Hr Hlen a ds b Hin Hb.
  - destruct m; [destruct Hin | cbn in Hlen; lia].
  - destruct m as [|e m']; [destruct Hin|]. set (m := e :: m') in *.
    cbn [loop]. fold m.
    destruct (ranked_has_empty r m) as [k Hk]; [discriminate|exact Hc|exact Hr|].
    assert (Hpick : pick m = k) by (unfold pick; rewrite Hk; reflexivity).
    rewrite Hpick. pose proof (first_empty_some _ _ Hk) as Hkin.
    assert (Hak : a <> k).
    { intro; subst a. pose proof (entry_unique _ _ _ _ Hnd Hin Hkin). subst ds. destruct Hb. }
    assert (HinK : In k (keys m)) by (rewrite <- Hpick; apply pick_in; discriminate).
    pose proof (filter_neq_perm k (keys m) Hnd HinK) as HP.
    assert (Hnd' : NoDup (keys (remove_mod k m))) by (rewrite keys_remove_mod; apply NoDup_filter, Hnd).
    assert (Hlen' : length (remove_mod k m) <= f).
    { apply Permutation_length in HP. cbn [length] in HP. rewrite <- keys_remove_mod in HP.
      unfold keys in HP. rewrite !map_length in HP. lia. }
    assert (Hc' : closed (remove_mod k m)).
    { intros a1 ds1 b1 H1 H2. apply in_remove_mod_inv in H1 as [ds0 [H0 [Hne E]]]. subst ds1.
      apply in_remove in H2 as [H2 Hbk]. rewrite keys_remove_mod. apply filter_In. split.
      - eapply Hc; eassumption.
      - unfold neqk. apply negb_true_iff, Nat.eqb_neq, Hbk. }
    assert (Hr' : ranked r (remove_mod k m)).
    { intros a1 ds1 b1 H1 H2. apply in_remove_mod_inv in H1 as [ds0 [H0 [Hne E]]]. subst ds1.
      apply in_remove in H2 as [H2 _]. eapply Hr; eassumption. }
    pose proof (in_remove_mod k m a ds Hin Hak) as Hin'.
    destruct (Nat.eq_dec b k) as [Ebk|Nbk].
    + subst b.
      assert (Ha : In a (loop f (remove_mod k m))).
      { eapply Permutation_in; [apply Permutation_sym, loop_perm; assumption|].
        unfold keys. change a with (fst (a, remove Nat.eq_dec k ds)). apply in_map, Hin'. }
      apply in_split in Ha as [l1 [l2 E]]. exists (k :: l1), l2. split; [rewrite E; reflexivity | left; reflexivity].
    + assert (Hb' : In b (remove Nat.eq_dec k ds)) by (apply in_in_remove; assumption).
      destruct (IH _ Hnd' Hc' Hr' Hlen' _ _ _ Hin' Hb') as [l1 [l2 [E Hl1]]].
      exists (k :: l1), l2. split; [rewrite E; reflexivity | right; exact Hl1].
Qed.

(* "no cycle among the known dependencies" is stated through a rank (topological numbering):
   every known dependency has a strictly smaller rank than the module that needs it. *)
Definition acyclic_known (m : modmap) :=
  exists r : nat -> nat, forall a ds b, In (a, ds) m -> In b ds -> In b (keys m) -> r b < r a.

Lemma sort_respects_ m : NoDup (keys m) -> acyclic_known m ->
  forall a ds b, In (a, ds) m -> In b ds -> In b (keys m) -> before b a (sort_modules m).
Proof.
  intros Hnd [r Hr] a ds b Hin Hb Hk. unfold sort_modules.
  assert (Hin' : In (a, filter (fun d => memb d (keys m)) (nodup Nat.eq_dec ds)) (prune m)).
  { unfold prune. apply in_map_iff. exists (a, ds). split; [reflexivity | exact Hin]. }
  assert (Hb' : In b (filter (fun d => memb d (keys m)) (nodup Nat.eq_dec ds))).
  { apply filter_In. split; [apply nodup_In, Hb | apply memb_In, Hk]. }
  eapply (loop_respects r); [ | | | | exact Hin' | exact Hb'].
  - rewrite keys_prune; exact Hnd.
  - intros a1 ds1 b1 H1 H2. rewrite keys_prune. unfold prune in H1. apply in_map_iff in H1 as [[a0 ds0] [E H0]].
    cbn [fst snd] in E. inversion E; subst. apply filter_In in H2 as [_ H2]. apply memb_In, H2.
  - intros a1 ds1 b1 H1 H2. unfold prune in H1. apply in_map_iff in H1 as [[a0 ds0] [E H0]].
    cbn [fst snd] in E. inversion E; subst. apply filter_In in H2 as [H2 H3].
    apply nodup_In in H2. apply memb_In in H3. eapply Hr; eassumption.
  - rewrite length_prune; lia.
Qed.

(* ---------- unknown dependencies are ignored ---------- *)
Lemma filter_idem {A} (f : A -> bool) l : filter f (filter f l) = filter f l.
Proof.
  induction l as [|x l IH]; cbn [filter]; [reflexivity|]. destruct (f x) eqn:E; cbn [filter]; rewrite ?E, IH; reflexivity.
Qed.

Lemma prune_idem m : prune (prune m) = prune m.
Proof.
  unfold prune at 1. rewrite keys_prune. unfold prune. rewrite map_map. apply map_ext. intros [k ds]. cbn [fst snd].
  f_equal. rewrite nodup_fixed_point; [apply filter_idem|]. apply NoDup_filter, NoDup_nodup.
Qed.

Lemma unknown_ignored_ m : sort_modules (prune m) = sort_modules m.
Proof. unfold sort_modules. rewrite prune_idem, length_prune. reflexivity. Qed.

(* adding dependencies on names that are not keys does not change the result *)
Lemma unknown_added_ m m' : prune m = prune m' -> sort_modules m = sort_modules m'.
Proof.
  intros E. unfold sort_modules. rewrite <- (length_prune m), <- (length_prune m'), E. reflexivity.
Qed.

(* a rank exists for the concrete diamond a<-b, a<-c, b<-d, c<-d: the premise is satisfiable *)
Example acyclic_nonvacuous :
  let m := [(3, [1; 2; 9]); (1, [0]); (2, [0; 7]); (0, [])] in
  NoDup (keys m) /\ acyclic_known m /\ sort_modules m = [0; 1; 2; 3].
Proof.
  cbn zeta. split; [|split].
  - repeat constructor; cbn; intuition congruence.
  - exists (fun x => x). intros a ds b Hin Hb Hk. cbn in Hin, Hk.
    repeat (destruct Hin as [Hin|Hin]; [inversion Hin; subst; cbn in Hb; intuition (subst; try lia) |]); try contradiction.
    all: cbn in Hk; intuition (try lia; try discriminate).
  - vm_compute. reflexivity.
Qed.
