(* C27 — the rank-based premise [acyclic_known] of [sort_respects_] follows from (and is in fact
   equivalent to) the natural path-based statement "there is no cycle among known dependencies".
   Rank of a := length of the longest chain of known dependencies starting at a, computed by a
   fuelled function; in a cycle-free map every chain is duplicate-free, hence (pigeonhole) shorter
   than [length m], so the function has stabilised at fuel [length m].  No axioms. *)
From Coq Require Import List Arith Bool Lia Permutation Relations.
Import ListNotations.
From PV Require Import C27.Model C27.Proofs.

Definition kdep (m : modmap) (a b : nat) : Prop :=
  exists ds, In (a, ds) m /\ In b ds /\ In b (keys m).
Definition path (m : modmap) : nat -> nat -> Prop := clos_trans_1n nat (kdep m).
Definition no_cycle (m : modmap) : Prop := forall a, ~ path m a a.

(* ---------- computable known dependencies ---------- *)
Definition deps (m : modmap) (a : nat) : list nat :=
  flat_map (fun e => if fst e =? a then filter (fun d => memb d (keys m)) (snd e) else []) m.

Lemma deps_kdep m a b : In b (deps m a) <-> kdep m a b.
Proof.
  unfold deps, kdep. rewrite in_flat_map. split.
  - intros [[a' ds] [Hin Hb]]. cbn [fst snd] in Hb. destruct (a' =? a) eqn:E; [|destruct Hb].
    apply Nat.eqb_eq in E. subst a'. apply filter_In in Hb as [Hb Hk]. apply memb_In in Hk.
    exists ds. auto.
  - intros [ds [Hin [Hb Hk]]]. exists (a, ds). split; [exact Hin|]. cbn [fst snd].
    rewrite Nat.eqb_refl. apply filter_In. split; [exact Hb|apply memb_In, Hk].
Qed.

(* ---------- height ---------- *)
Fixpoint height (m : modmap) (fuel : nat) (a : nat) : nat :=
  match fuel with
  | 0 => 0
  | S f => list_max (map (fun b => S (height m f b)) (deps m a))
  end.

Lemma list_max_in_or_nil l : l = [] \/ In (list_max l) l.
Proof.
  induction l as [|x l IH]; [left; reflexivity|right].
  cbn [list_max fold_right]. change (fold_right Nat.max 0 l) with (list_max l).
  destruct (Nat.max_dec x (list_max l)) as [E|E]; rewrite E.
  - left; reflexivity.
  - destruct IH as [->|IH]; [cbn in E |right; exact IH].
    left. cbn. lia.
Qed.

Lemma list_max_ge l x : In x l -> x <= list_max l.
Proof.
  intro H. assert (L : list_max l <= list_max l) by lia.
  apply list_max_le in L. rewrite Forall_forall in L. apply L, H.
Qed.

Lemma height_step m f a b : kdep m a b -> S (height m f b) <= height m (S f) a.
Proof.
  intro H. apply deps_kdep in H. cbn [height]. apply list_max_ge.
  apply in_map_iff. exists b. auto.
Qed.

(* if the fuel was not exhausted, one more unit changes nothing *)
Lemma height_stable m : forall f a, height m f a < f -> height m (S f) a = height m f a.
Proof.
  induction f as [|f IH]; intros a H; [lia|].
  cbn [height] in *. f_equal. apply map_ext_in. intros b Hb. f_equal.
  change (list_max (map (fun b0 => S (height m f b0)) (deps m b))) with (height m (S f) b).
  apply IH.
  assert (S (height m f b) <= list_max (map (fun b0 => S (height m f b0)) (deps m a))).
  { apply list_max_ge. apply in_map_iff. exists b. auto. }
  lia.
Qed.

(* ---------- chains ---------- *)
Inductive chain (m : modmap) : nat -> list nat -> Prop :=
| chain_nil a : chain m a []
| chain_cons a b l : kdep m a b -> chain m b l -> chain m a (b :: l).

Lemma height_chain m : forall f a, exists l, length l = height m f a /\ chain m a l.
Proof.
  induction f as [|f IH]; intro a.
  - exists []. split; [reflexivity|constructor].
  - cbn [height].
    destruct (list_max_in_or_nil (map (fun b => S (height m f b)) (deps m a))) as [E|Hin].
    + rewrite E. exists []. split; [reflexivity|constructor].
    + apply in_map_iff in Hin as [b [Eb Hb]]. destruct (IH b) as [l [Hl Hc]].
      exists (b :: l). split.
      * cbn [length]. rewrite Hl. exact Eb.
      * constructor; [apply deps_kdep, Hb|exact Hc].
Qed.

Lemma chain_path m a l : chain m a l -> forall x, In x l -> path m a x.
Proof.
  induction 1 as [a|a b l Hk Hc IH]; intros x Hx; [destruct Hx|].
  destruct Hx as [<-|Hx].
  - apply Relation_Operators.t1n_step, Hk.
  - eapply Relation_Operators.t1n_trans; [exact Hk|apply IH, Hx].
Qed.

Lemma chain_NoDup m a l : no_cycle m -> chain m a l -> NoDup (a :: l).
Proof.
  intros Hn. induction 1 as [a|a b l Hk Hc IH].
  - constructor; [intros []|constructor].
  - constructor; [|exact IH].
    intro Hin. apply (Hn a). apply (chain_path m a (b :: l)); [constructor; assumption|exact Hin].
Qed.

Lemma chain_keys m a l : chain m a l -> incl l (keys m).
Proof.
  induction 1 as [a|a b l Hk Hc IH]; intros x Hx; [destruct Hx|].
  destruct Hx as [<-|Hx]; [|apply IH, Hx]. destruct Hk as [ds [_ [_ Hb]]]. exact Hb.
Qed.

Lemma kdep_key m a b : kdep m a b -> In a (keys m).
Proof. intros [ds [Hin _]]. unfold keys. apply in_map_iff. exists (a, ds). auto. Qed.

(* pigeonhole: a non-trivial chain has fewer nodes than there are keys *)
Lemma height_bound m f a : no_cycle m -> height m f a = 0 \/ S (height m f a) <= length m.
Proof.
  intro Hn. destruct (height_chain m f a) as [l [Hl Hc]].
  destruct l as [|b l]; [left; symmetry; exact Hl|right].
  assert (ND := chain_NoDup m a _ Hn Hc).
  assert (IN : incl (a :: b :: l) (keys m)).
  { intros x [<-|Hx]; [|apply (chain_keys m a _ Hc), Hx].
    inversion Hc; subst. eapply kdep_key; eassumption. }
  apply (NoDup_incl_length ND) in IN. unfold keys in IN. rewrite map_length in IN.
  rewrite <- Hl. exact IN.
Qed.

(* ---------- main results ---------- *)
Theorem no_cycle_acyclic_known : forall m, NoDup (keys m) -> no_cycle m -> acyclic_known m.
Proof.
  intros m _ Hn. exists (height m (length m)). intros a ds b Hin Hb Hk.
  assert (K : kdep m a b) by (exists ds; auto).
  assert (Hpos : 1 <= length m) by (destruct m; [destruct Hin|cbn [length]; lia]).
  assert (Hlt : height m (length m) a < length m)
    by (destruct (height_bound m (length m) a Hn); lia).
  rewrite <- (height_stable m _ _ Hlt).
  apply (height_step m (length m) a b K).
Qed.

(* the converse: a rank excludes cycles, so the two formulations are equivalent *)
Lemma rank_path m (r : nat -> nat) :
  (forall a ds b, In (a, ds) m -> In b ds -> In b (keys m) -> r b < r a) ->
  forall a b, path m a b -> r b < r a.
Proof.
  intros Hr a b P. induction P as [a b [ds [H1 [H2 H3]]]|a b c [ds [H1 [H2 H3]]] P IH].
  - eapply Hr; eassumption.
  - specialize (Hr a ds b H1 H2 H3). lia.
Qed.

Theorem acyclic_known_no_cycle : forall m, acyclic_known m -> no_cycle m.
Proof. intros m [r Hr] a P. apply (rank_path m r Hr) in P. lia. Qed.

Corollary no_cycle_iff_acyclic_known m : NoDup (keys m) -> (no_cycle m <-> acyclic_known m).
Proof. intro ND. split; [apply no_cycle_acyclic_known, ND|apply acyclic_known_no_cycle]. Qed.

Corollary sort_respects_no_cycle : forall m, NoDup (keys m) -> no_cycle m ->
  forall a ds b, In (a, ds) m -> In b ds -> In b (keys m) -> before b a (sort_modules m).
Proof. intros m ND Hn. apply sort_respects_; [exact ND|apply no_cycle_acyclic_known; assumption]. Qed.

(* non-vacuity: the diamond of Proofs.v is cycle-free, and a 2-cycle is rejected *)
Example no_cycle_nonvacuous :
  let m := [(3, [1; 2; 9]); (1, [0]); (2, [0; 7]); (0, [])] in
  NoDup (keys m) /\ no_cycle m /\ before 1 3 (sort_modules m).
Proof.
  cbv zeta. pose proof acyclic_nonvacuous as H. cbv zeta in H. destruct H as [ND [AK _]].
  assert (NC := acyclic_known_no_cycle _ AK).
  split; [exact ND|]. split; [exact NC|].
  apply (sort_respects_no_cycle _ ND NC 3 [1; 2; 9] 1); cbn; auto.
Qed.

Example cycle_detected : ~ no_cycle [(0, [1]); (1, [0])].
Proof.
  intro H. apply (H 0). eapply Relation_Operators.t1n_trans; [|apply Relation_Operators.t1n_step].
  - exists [1]. cbn. auto.
  - exists [0]. cbn. auto.
Qed.

Print Assumptions sort_respects_no_cycle.
Print Assumptions no_cycle_iff_acyclic_known.
