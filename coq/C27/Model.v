(* C27 — model of ModuleManager.sort_modules (src/psyclone/parse/module_manager.py).
   A Python dict (insertion ordered, unique keys) is an association list; a set of
   dependencies is a duplicate-free list (the model de-duplicates, so it is total). *)
From Coq Require Import List Arith Bool Lia.
Import ListNotations.

Definition modmap := list (nat * list nat).
Definition keys (m : modmap) : list nat := map fst m.

Definition memb (x : nat) (l : list nat) : bool := existsb (Nat.eqb x) l.

(* the consistency loop: drop dependencies that are not keys *)
Definition prune (m : modmap) : modmap :=
  map (fun e => (fst e, filter (fun d => memb d (keys m)) (nodup Nat.eq_dec (snd e)))) m.

(* `for mod, dep in todo.items(): if not dep: break` *)
Fixpoint first_empty (m : modmap) : option nat :=
  match m with
  | [] => None
  | (k, []) :: _ => Some k
  | _ :: r => first_empty r
  end.

(* `sorted(todo.keys(), key=lambda x: len(todo[x]))[0]`: sorted is stable, so this is the
   first key whose dependency set has minimal size *)
Fixpoint min_len (m : modmap) (best : nat * nat) : nat :=
  match m with
  | [] => fst best
  | (k, ds) :: r => if length ds <? snd best then min_len r (k, length ds) else min_len r best
  end.

Definition pick (m : modmap) : nat :=
  match first_empty m with
  | Some k => k
  | None => match m with
            | [] => 0
            | (k, ds) :: r => min_len r (k, length ds)
            end
  end.

(* `del todo[mod]` and `dep.remove(mod)` for every remaining dependency set *)
Definition remove_mod (k : nat) (m : modmap) : modmap :=
  map (fun e => (fst e, remove Nat.eq_dec k (snd e)))
      (filter (fun e => negb (fst e =? k)) m).

Fixpoint loop (fuel : nat) (m : modmap) : list nat :=
  match fuel with
  | 0 => []
  | S f => match m with
           | [] => []
           | _ => let k := pick m in k :: loop f (remove_mod k m)
           end
  end.

Definition sort_modules (m : modmap) : list nat := loop (length m) (prune m).

(* executable check used by the correspondence harness *)
Fixpoint list_eqb (a b : list nat) : bool :=
  match a, b with
  | [], [] => true
  | x :: a', y :: b' => (x =? y) && list_eqb a' b'
  | _, _ => false
  end.
Definition agrees (c : modmap * list nat) : bool := list_eqb (sort_modules (fst c)) (snd c).
