(* C20 — the generated obligations (GenObl.table_ok) composed with the generic theorems. *)
From Coq Require Import List ZArith Bool String Permutation.
Import ListNotations.
From PV Require Import C20.Model C20.Proofs C20.GenDoc C20.GenCode C20.GenObl.
Open Scope Z_scope.

Lemma table_instance_ok i d : In (i, d) table -> instance_ok i d.
Proof. intro Hin. exact (proj1 (Forall_forall _ _) table_ok (i, d) Hin). Qed.

Lemma all_builtins_correct : forall i d, In (i, d) table ->
  forall O bind L sch s, valid_schedule i d L sch ->
  doc_post O bind L (i_dm i) (i_annexed i) (d_spec d) s (run_instance O bind L i sch s).
Proof. intros i d Hin. apply instance_correct. now apply table_instance_ok. Qed.

Lemma all_dm_reductions_global : forall i d g, In (i, d) table -> d_spec d = DSum g -> i_dm i = true ->
  forall O (ranks : list rank),
  (forall r, In r ranks -> valid_schedule i d (r_lay r) (r_sched r)) ->
  i_global_sum i = true /\
  global_sum (map (fun r => rvar (run_instance O (r_bind r) (r_lay r) i (r_sched r) (r_store r))) ranks) =
  zsum (map (fun r => sum_over O (r_bind r) (r_store r) g (zrange 1 (last_owned (r_lay r)))) ranks).
Proof. intros i d g Hin. apply dm_reduction_global. now apply table_instance_ok. Qed.

Lemma every_builtin_every_setting : forall n, In n builtin_names -> forall dm ann, exists i d,
  In (i, d) table /\ i_name i = n /\ i_dm i = dm /\ i_annexed i = ann /\ i_omp i = None.
Proof. apply all_settings_covered_sound. exact serial_coverage. Qed.

Lemma every_omp_builtin_every_setting : forall n, In n omp_builtin_names -> forall dm ann, exists i d,
  In (i, d) table /\ i_name i = n /\ i_dm i = dm /\ i_annexed i = ann /\ omp_code i = 1%nat.
Proof. apply form_covered_sound. exact omp_coverage. Qed.

Lemma every_region_builtin_every_setting : forall n, In n region_builtin_names -> forall dm ann, exists i d,
  In (i, d) table /\ i_name i = n /\ i_dm i = dm /\ i_annexed i = ann /\ omp_code i = 2%nat.
Proof. apply form_covered_sound. exact region_coverage. Qed.

Lemma every_reduction_reprod_every_setting : forall n, In n reprod_builtin_names -> forall dm ann, exists i d,
  In (i, d) table /\ i_name i = n /\ i_dm i = dm /\ i_annexed i = ann /\ omp_code i = 3%nat.
Proof. apply form_covered_sound. exact reprod_coverage. Qed.

Lemma sum_builtins_are_reductions :
  forallb (fun p => negb (is_reduction_spec (d_spec (snd p))) || existsb (String.eqb (i_name (fst p))) reduction_builtin_names) table = true.
Proof. exact reductions_are_the_sum_builtins. Qed.

Lemma names_agree :
  forallb (fun n => existsb (String.eqb n) doc_names) builtin_names = true /\
  forallb (fun n => existsb (String.eqb n) builtin_names) doc_names = true /\
  forallb (fun n => existsb (String.eqb n) meta_names) builtin_names = true /\
  forallb (fun n => existsb (String.eqb n) builtin_names) meta_names = true.
Proof. exact doc_lists_exactly_the_builtins. Qed.

(* non-vacuity on the generated table: a real entry, a real schedule *)
Example table_nonempty : exists i d, In (i, d) table /\ i_name i = "inc_X_plus_Y"%string /\ i_dm i = true /\ i_annexed i = true.
Proof.
  destruct (every_builtin_every_setting "inc_X_plus_Y"%string) with (dm := true) (ann := true) as (i & d & H1 & H2 & H3 & H4 & _).
  - vm_compute. tauto.
  - exists i, d. auto.
Qed.
