(* C20 — tactics that discharge the GENERATED obligations (GenObl.v).  They only use computation,
   `ring` over Z (with the uninterpreted operators as atoms) and reflexivity, so an obligation
   whose two sides are different functions of the inputs does not go through. *)
From Coq Require Import List ZArith Bool String Lia.
Import ListNotations.
From PV Require Import C20.Model.
Open Scope Z_scope.

Ltac solve_eval :=
  intros; cbn [eval eval_bin eval_fn2]; first [reflexivity | ring].

Ltac solve_kern :=
  cbn [kern_matches d_spec];
  first [ split; [reflexivity | solve_eval]      (* pointwise / reduction *)
        | reflexivity ].                         (* random *)

Ltac solve_doc_agree :=
  split; [reflexivity | split; [reflexivity |
    cbn [spec_equiv d_spec]; first [ split; [reflexivity | solve_eval] | solve_eval | reflexivity ]]].

Ltac solve_range :=
  split; [intro L; reflexivity | split; [intro L; reflexivity |
    let k := fresh "k" in let H := fresh "H" in
    intros k H; cbn in H; inversion H; subst; reflexivity]].

Ltac solve_skeleton :=
  split; [reflexivity | split; [reflexivity | split; [reflexivity |
    cbn; first [exact I | repeat split; reflexivity]]]].
