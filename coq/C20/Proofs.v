(* C20 — proofs about the model: generic loop theorems (all sizes, all values, all aliasing
   patterns, all interpretations of the uninterpreted operators) and the composition
   "generated obligations => the invoke computes the documented result". *)
From Coq Require Import List ZArith Bool Lia String Permutation.
Import ListNotations.
From PV Require Import C20.Model.
Open Scope Z_scope.

(* ------------------------------------------------------------------ stores *)
Definition store_eq (a b : store) : Prop :=
  (forall f d, fdat a f d = fdat b f d) /\ (forall k, sval a k = sval b k) /\
  rvar a = rvar b /\ lvar a = lvar b /\ rcnt a = rcnt b.

Lemma store_eq_refl a : store_eq a a.
Proof. repeat split. Qed.

Lemma eval_ext O bind a b df e :
  (forall f, fdat a f df = fdat b f df) -> (forall k, sval a k = sval b k) -> rvar a = rvar b -> lvar a = lvar b ->
  eval O bind a df e = eval O bind b df e.
Proof.
  intros Hf Hs Hr Hl. induction e as [k|k| | |z|e IH|o x IHx y IHy|f x IHx y IHy|c kd e IH]; cbn [eval]; auto.
  - now rewrite IH.
  - now rewrite IHx, IHy.
  - now rewrite IHx, IHy.
  - now rewrite IH.
Qed.

Lemma eval_red_free O bind a b df e : red_free e = true ->
  (forall f, fdat a f df = fdat b f df) -> (forall k, sval a k = sval b k) ->
  eval O bind a df e = eval O bind b df e.
Proof.
  intros R Hf Hs. induction e as [k|k| | |z|e IH|o x IHx y IHy|f x IHx y IHy|c kd e IH]; cbn [eval red_free] in *; auto.
  - discriminate.
  - discriminate.
  - now rewrite IH.
  - apply andb_true_iff in R as [R1 R2]. now rewrite IHx, IHy.
  - apply andb_true_iff in R as [R1 R2]. now rewrite IHx, IHy.
  - now rewrite IH.
Qed.

(* ------------------------------------------------------------------ zrange = the DO index set *)
Lemma zrange_n_In lo n x : In x (zrange_n lo n) <-> lo <= x < lo + Z.of_nat n.
Proof.
  revert lo. induction n as [|n IH]; intro lo; cbn [zrange_n].
  - cbn. lia.
  - cbn [In]. rewrite IH. lia.
Qed.

Lemma zrange_In lo hi x : In x (zrange lo hi) <-> lo <= x <= hi.
Proof. unfold zrange. rewrite zrange_n_In. lia. Qed.

Lemma zrange_n_NoDup lo n : NoDup (zrange_n lo n).
Proof.
  revert lo. induction n as [|n IH]; intro lo; cbn [zrange_n]; constructor.
  - rewrite zrange_n_In. lia.
  - apply IH.
Qed.

Lemma zrange_NoDup lo hi : NoDup (zrange lo hi).
Proof. apply zrange_n_NoDup. Qed.

Lemma zrange_empty lo hi : hi < lo -> zrange lo hi = [].
Proof. intro H. unfold zrange. replace (Z.to_nat (hi - lo + 1)) with O by lia. reflexivity. Qed.

(* ------------------------------------------------------------------ pointwise loops *)
Section Pointwise.
  Variables (O : ops) (bind : nat -> fid) (out : nat) (rhs : bexpr).
  Let k := KAssign out rhs.

  Lemma iter_other s d f x : x <> d -> fdat (run_iter O bind k s d) f x = fdat s f x.
  Proof.
    intro Hx. unfold k. cbn [run_iter upd_f fdat].
    destruct (Nat.eqb f (bind out)); cbn [andb]; auto.
    destruct (x =? d) eqn:E; auto. apply Z.eqb_eq in E. contradiction.
  Qed.

  Lemma iter_otherfield s d f x : f <> bind out -> fdat (run_iter O bind k s d) f x = fdat s f x.
  Proof.
    intro Hf. unfold k. cbn [run_iter upd_f fdat].
    destruct (Nat.eqb f (bind out)) eqn:E; cbn [andb]; auto. apply Nat.eqb_eq in E. contradiction.
  Qed.

  Lemma iter_self s d : fdat (run_iter O bind k s d) (bind out) d = eval O bind s d rhs.
  Proof. unfold k. cbn [run_iter upd_f fdat]. now rewrite Nat.eqb_refl, Z.eqb_refl. Qed.

  (* The loop over any duplicate-free index list sets exactly those elements of the written field
     to the right-hand side evaluated in the ORIGINAL store (also when the written field is an
     input, as for inc_X_plus_Y, or aliases another argument), and changes nothing else. *)
  Lemma run_loop_assign : forall l s, NoDup l ->
    (forall df, In df l -> fdat (run_loop O bind k l s) (bind out) df = eval O bind s df rhs) /\
    (forall f d, f <> bind out \/ ~ In d l -> fdat (run_loop O bind k l s) f d = fdat s f d) /\
    (forall j, sval (run_loop O bind k l s) j = sval s j) /\
    rvar (run_loop O bind k l s) = rvar s /\ rcnt (run_loop O bind k l s) = rcnt s /\
    lvar (run_loop O bind k l s) = lvar s.
  Proof.
    induction l as [|d l IH]; intros s ND.
    - cbn. repeat split; auto. intros df [].
    - inversion ND as [|? ? Hni ND']; subst.
      unfold run_loop in *. cbn [fold_left].
      destruct (IH (run_iter O bind k s d) ND') as (A & B & C & D & E & F).
      split; [|split; [|split; [|split; [|split]]]].
      + intros df [->|Hin].
        * rewrite B by (right; exact Hni). apply iter_self.
        * rewrite (A df Hin). apply eval_ext.
          -- intro f. apply iter_other. intros ->. contradiction.
          -- intro j. reflexivity.
          -- reflexivity.
          -- reflexivity.
      + intros f x [Hf|Hx].
        * rewrite B by (left; exact Hf). now apply iter_otherfield.
        * rewrite B by (right; intro H; apply Hx; right; exact H).
          apply iter_other. intros ->. apply Hx. now left.
      + intro j. now rewrite C.
      + now rewrite D.
      + now rewrite E.
      + now rewrite F.
  Qed.

  (* any two execution orders of the same iterations give the same store *)
  Lemma run_loop_assign_perm l l' s : NoDup l -> Permutation l l' ->
    store_eq (run_loop O bind k l s) (run_loop O bind k l' s).
  Proof.
    intros ND P.
    assert (ND' : NoDup l') by (eapply Permutation_NoDup; eauto).
    destruct (run_loop_assign l s ND) as (A & B & C & D & E & F).
    destruct (run_loop_assign l' s ND') as (A' & B' & C' & D' & E' & F').
    repeat split.
    - intros f d.
      destruct (Nat.eq_dec f (bind out)) as [->|Hf].
      + destruct (in_dec Z.eq_dec d l) as [Hin|Hout].
        * rewrite (A d Hin), (A' d (Permutation_in _ P Hin)). reflexivity.
        * rewrite B by (right; exact Hout).
          rewrite B' by (right; intro H; apply Hout; apply (Permutation_in _ (Permutation_sym P) H)).
          reflexivity.
      + rewrite B, B' by (left; exact Hf). reflexivity.
    - intro j. now rewrite C, C'.
    - now rewrite D, D'.
    - now rewrite F, F'.
    - now rewrite E, E'.
  Qed.

  (* distinct iterations are independent: they commute (and touch disjoint elements) *)
  Lemma iterations_commute s d1 d2 : d1 <> d2 ->
    store_eq (run_iter O bind k (run_iter O bind k s d1) d2) (run_iter O bind k (run_iter O bind k s d2) d1).
  Proof.
    intro Hd.
    assert (P : Permutation [d1; d2] [d2; d1]) by constructor.
    assert (ND : NoDup [d1; d2]).
    { constructor; [intros [H|[]]; congruence | constructor; [intros [] | constructor]]. }
    exact (run_loop_assign_perm [d1; d2] [d2; d1] s ND P).
  Qed.
End Pointwise.

(* ------------------------------------------------------------------ reductions *)
Lemma zsum_app a b : zsum (a ++ b) = zsum a + zsum b.
Proof. unfold zsum. induction a as [|x a IH]; simpl; [reflexivity|]. rewrite IH. lia. Qed.

Lemma zsum_perm a b : Permutation a b -> zsum a = zsum b.
Proof. unfold zsum. induction 1; simpl; lia. Qed.

Lemma fold_left_add l a : fold_left Z.add l a = a + zsum l.
Proof.
  unfold zsum. revert a. induction l as [|x l IH]; intro a; simpl; [lia|].
  rewrite IH. lia.
Qed.

Section Reduction.
  Variables (O : ops) (bind : nat -> fid) (rhs g : bexpr).
  Hypothesis Hfree : red_free g = true.
  Hypothesis Hrhs : forall s df, eval O bind s df rhs = rvar s + eval O bind s df g.
  Let k := KReduce rhs.

  Lemma run_loop_reduce : forall l s,
    rvar (run_loop O bind k l s) = rvar s + sum_over O bind s g l /\
    (forall f d, fdat (run_loop O bind k l s) f d = fdat s f d) /\
    (forall j, sval (run_loop O bind k l s) j = sval s j) /\
    rcnt (run_loop O bind k l s) = rcnt s.
  Proof.
    induction l as [|d l IH]; intro s.
    - cbn. unfold sum_over, zsum. cbn. repeat split; lia.
    - unfold run_loop in *. cbn [fold_left].
      destruct (IH (run_iter O bind k s d)) as (A & B & C & D).
      assert (S1 : run_iter O bind k s d = set_red s (rvar s + eval O bind s d g)).
      { unfold k. cbn [run_iter]. now rewrite Hrhs. }
      rewrite S1 in *.
      assert (E : sum_over O bind (set_red s (rvar s + eval O bind s d g)) g l = sum_over O bind s g l).
      { unfold sum_over. f_equal. apply map_ext. intro df. apply eval_red_free; auto. }
      split; [|split; [|split]].
      + rewrite A, E. cbn [set_red rvar]. unfold sum_over. cbn [map]. unfold zsum. cbn [fold_right]. lia.
      + intros f x. rewrite B. reflexivity.
      + intro j. rewrite C. reflexivity.
      + rewrite D. reflexivity.
  Qed.

  Lemma sum_over_perm s l l' : Permutation l l' -> sum_over O bind s g l = sum_over O bind s g l'.
  Proof. intro P. unfold sum_over. apply zsum_perm. now apply Permutation_map. Qed.

  Lemma sum_over_app s a b : sum_over O bind s g (a ++ b) = sum_over O bind s g a + sum_over O bind s g b.
  Proof. unfold sum_over. now rewrite map_app, zsum_app. Qed.

  Lemma sum_over_concat s chunks :
    zsum (map (sum_over O bind s g) chunks) = sum_over O bind s g (List.concat chunks).
  Proof.
    induction chunks as [|c r IH]; [reflexivity|].
    cbn [map List.concat]. rewrite sum_over_app, <- IH. unfold zsum. cbn. lia.
  Qed.

  Lemma thread_sum_is s c : thread_sum O bind k s c = sum_over O bind s g c.
  Proof.
    unfold thread_sum. destruct (run_loop_reduce c (set_red s 0)) as (A & _). rewrite A.
    cbn [set_red rvar]. unfold sum_over. rewrite Z.add_0_l. f_equal. apply map_ext. intro df.
    apply eval_red_free; auto.
  Qed.

  (* OpenMP reduction(+:red) with any split of the iterations over threads *)
  Lemma run_omp_reduction_sum chunks s :
    rvar (run_omp_reduction O bind k chunks s) = rvar s + sum_over O bind s g (List.concat chunks) /\
    (forall f d, fdat (run_omp_reduction O bind k chunks s) f d = fdat s f d) /\
    (forall j, sval (run_omp_reduction O bind k chunks s) j = sval s j).
  Proof.
    unfold run_omp_reduction. cbn [set_red rvar fdat sval]. split; [|split; auto].
    rewrite fold_left_add. f_equal. rewrite <- sum_over_concat. f_equal.
    apply map_ext. intro c. apply thread_sum_is.
  Qed.
End Reduction.

(* ------------------------------------------------------------------ reproducible OpenMP reductions *)
Section ReductionLocal.
  Variables (O : ops) (bind : nat -> fid) (rhs g : bexpr).
  Hypothesis Hfree : red_free g = true.
  Hypothesis Hrhs : forall s df, eval O bind s df rhs = lvar s + eval O bind s df g.
  Let k := KReduceLocal rhs.

  (* a thread accumulating into its own element: lvar grows by the sum of g over its iterations and
     nothing else (in particular not the shared reduction variable) changes *)
  Lemma run_loop_reduce_local : forall l s,
    lvar (run_loop O bind k l s) = lvar s + sum_over O bind s g l /\
    rvar (run_loop O bind k l s) = rvar s /\
    (forall f d, fdat (run_loop O bind k l s) f d = fdat s f d) /\
    (forall j, sval (run_loop O bind k l s) j = sval s j) /\
    rcnt (run_loop O bind k l s) = rcnt s.
  Proof.
    induction l as [|d l IH]; intro s.
    - cbn. unfold sum_over, zsum. cbn. repeat split; lia.
    - unfold run_loop in *. cbn [fold_left].
      destruct (IH (run_iter O bind k s d)) as (A & R & B & C & D).
      assert (S1 : run_iter O bind k s d = set_loc s (lvar s + eval O bind s d g)).
      { unfold k. cbn [run_iter]. now rewrite Hrhs. }
      rewrite S1 in *.
      assert (E : sum_over O bind (set_loc s (lvar s + eval O bind s d g)) g l = sum_over O bind s g l).
      { unfold sum_over. f_equal. apply map_ext. intro df. apply eval_red_free; auto. }
      split; [|split; [|split; [|split]]].
      + rewrite A, E. cbn [set_loc lvar]. unfold sum_over. cbn [map]. unfold zsum. cbn [fold_right]. lia.
      + rewrite R. reflexivity.
      + intros f x. rewrite B. reflexivity.
      + intro j. rewrite C. reflexivity.
      + rewrite D. reflexivity.
  Qed.

  Lemma thread_local_sum_is s c : thread_local_sum O bind k true s c = sum_over O bind s g c.
  Proof.
    unfold thread_local_sum. destruct (run_loop_reduce_local c (set_loc s 0)) as (A & _). rewrite A.
    cbn [set_loc lvar]. unfold sum_over. rewrite Z.add_0_l. f_equal. apply map_ext. intro df.
    apply eval_red_free; auto.
  Qed.

  (* THE REPROD SCHEME: for any number of threads and any assignment of the iterations to threads,
     per-thread partial sums accumulated from zero and then added over the threads give the
     reduction variable's old value plus the sum of g over all assigned iterations *)
  Lemma run_reprod_sum chunks s :
    rvar (run_reprod O bind k true true chunks s) = rvar s + sum_over O bind s g (List.concat chunks) /\
    (forall f d, fdat (run_reprod O bind k true true chunks s) f d = fdat s f d) /\
    (forall j, sval (run_reprod O bind k true true chunks s) j = sval s j).
  Proof.
    unfold run_reprod. cbn [set_red rvar fdat sval]. split; [|split; auto].
    rewrite fold_left_add. f_equal. rewrite <- (sum_over_concat O bind g). f_equal.
    apply map_ext. intro c. apply thread_local_sum_is.
  Qed.
End ReductionLocal.

(* ------------------------------------------------------------------ setval_random *)
Section Random.
  Variables (O : ops) (bind : nat -> fid) (out : nat).
  Let k := KRandom out.

  (* the i-th executed iteration receives the (rcnt+i)-th random number; nothing else changes *)
  Lemma run_loop_random : forall l s, NoDup l ->
    (forall i df, nth_error l i = Some df ->
        fdat (run_loop O bind k l s) (bind out) df = o_rand O (rcnt s + i)%nat) /\
    (forall f d, f <> bind out \/ ~ In d l -> fdat (run_loop O bind k l s) f d = fdat s f d) /\
    (forall j, sval (run_loop O bind k l s) j = sval s j) /\
    rvar (run_loop O bind k l s) = rvar s /\
    rcnt (run_loop O bind k l s) = (rcnt s + List.length l)%nat.
  Proof.
    induction l as [|d l IH]; intros s ND.
    - cbn. repeat split; auto. intros [|i] df H; discriminate.
    - inversion ND as [|? ? Hni ND']; subst.
      unfold run_loop in *. cbn [fold_left].
      destruct (IH (run_iter O bind k s d) ND') as (A & B & C & D & E).
      assert (Hself : fdat (run_iter O bind k s d) (bind out) d = o_rand O (rcnt s)).
      { unfold k. cbn [run_iter upd_f fdat]. now rewrite Nat.eqb_refl, Z.eqb_refl. }
      assert (Hother : forall f x, f <> bind out \/ x <> d -> fdat (run_iter O bind k s d) f x = fdat s f x).
      { intros f x H. unfold k. cbn [run_iter upd_f fdat].
        destruct (Nat.eqb f (bind out)) eqn:E1; cbn [andb]; auto.
        destruct (x =? d) eqn:E2; auto. apply Nat.eqb_eq in E1. apply Z.eqb_eq in E2.
        destruct H; contradiction. }
      assert (Hcnt : rcnt (run_iter O bind k s d) = S (rcnt s)) by reflexivity.
      split; [|split; [|split; [|split]]].
      + intros [|i] df H; cbn [nth_error] in H.
        * inversion H; subst. rewrite B by (right; exact Hni). rewrite Hself. f_equal. lia.
        * rewrite (A i df H). rewrite Hcnt. f_equal. lia.
      + intros f x [Hf|Hx].
        * rewrite B by (left; exact Hf). apply Hother. now left.
        * rewrite B by (right; intro H; apply Hx; right; exact H).
          apply Hother. right. intros ->. apply Hx. now left.
      + intro j. rewrite C. reflexivity.
      + rewrite D. reflexivity.
      + rewrite E, Hcnt. cbn [List.length]. lia.
  Qed.
End Random.

(* ------------------------------------------------------------------ composition *)
(* which schedules the run time may choose for an instance *)
Definition valid_schedule (i : instance) (d : docentry) (L : layout) (sch : schedule) : Prop :=
  let iters := zrange (eval_bound L (i_lo i)) (eval_bound L (i_hi i)) in
  match sch with
  | SSerial => kern_is_local (i_kern i) = false      (* also: non-reprod OpenMP with one thread *)
  | SPerm order => i_omp i <> None /\ is_reduction_spec (d_spec d) = false /\ Permutation iters order
  | SChunks chunks => i_omp i <> None /\ is_reduction_spec (d_spec d) = true /\ Permutation iters (List.concat chunks)
  end.

(* the documented result on one process, for the documented range [1, doc_hi] *)
Definition doc_post (O : ops) (bind : nat -> fid) (L : layout) (dm ann : bool) (d : dspec) (s s' : store) : Prop :=
  let hi := doc_hi dm ann (is_reduction_spec d) L in
  match d with
  | DPointwise out rhs =>
      (forall df, 1 <= df <= hi -> fdat s' (bind out) df = eval O bind s df rhs) /\
      (forall f df, f <> bind out \/ ~ (1 <= df <= hi) -> fdat s' f df = fdat s f df) /\
      (forall j, sval s' j = sval s j) /\ rvar s' = rvar s
  | DSum g =>
      rvar s' = sum_over O bind s g (zrange 1 hi) /\
      (forall f df, fdat s' f df = fdat s f df) /\ (forall j, sval s' j = sval s j)
  | DRandom out =>
      (exists order, Permutation (zrange 1 hi) order /\
         forall n df, nth_error order n = Some df -> fdat s' (bind out) df = o_rand O (rcnt s + n)%nat) /\
      (forall f df, f <> bind out \/ ~ (1 <= df <= hi) -> fdat s' f df = fdat s f df) /\
      (forall j, sval s' j = sval s j) /\ rvar s' = rvar s
  end.

Lemma iters_doc i d L : range_ok i d ->
  zrange (eval_bound L (i_lo i)) (eval_bound L (i_hi i)) =
  zrange 1 (doc_hi (i_dm i) (i_annexed i) (is_reduction_spec (d_spec d)) L).
Proof. intros (Hlo & Hhi & _). now rewrite Hlo, Hhi. Qed.

Lemma reprod_of_spec i d : skeleton_ok i d ->
  match reprod_of i with
  | Some r => kern_is_local (i_kern i) = true /\ rp_local_zeroed r = true /\ rp_final_sum_all_threads r = true
  | None => kern_is_local (i_kern i) = false
  end.
Proof.
  intros (_ & _ & _ & H). unfold reprod_of. destruct (i_omp i) as [o|]; [|exact H].
  destruct H as (_ & _ & H). destruct (omp_form_of o) as [| |r].
  - exact (proj1 H).
  - exact (proj1 H).
  - destruct H as (_ & A & _ & B & _ & _ & C). auto.
Qed.

Theorem instance_correct : forall i d, instance_ok i d ->
  forall O bind L sch s, valid_schedule i d L sch ->
  doc_post O bind L (i_dm i) (i_annexed i) (d_spec d) s (run_instance O bind L i sch s).
Proof.
  intros i d (Hname & Hk & Hr & Hsk) O bind L sch s Hv.
  pose proof (reprod_of_spec i d Hsk) as Hrp.
  destruct Hsk as (Hargs & Hzero & Hgs & Homp).
  unfold run_instance, valid_schedule in *. rewrite (iters_doc i d L Hr) in *.
  set (hi := doc_hi (i_dm i) (i_annexed i) (is_reduction_spec (d_spec d)) L) in *.
  unfold doc_post. fold hi.
  destruct (d_spec d) as [out rhs|g|out] eqn:Ed; destruct (i_kern i) as [out' rhs'|rhs'|rhs'|out'] eqn:Ek;
    cbn [kern_matches is_reduction_spec kern_is_local] in *; try contradiction.
  - (* pointwise *)
    destruct Hk as [-> Hev]. rewrite Hzero.
    assert (G : forall order, Permutation (zrange 1 hi) order ->
              (forall df, 1 <= df <= hi -> fdat (run_loop O bind (KAssign out rhs') order s) (bind out) df = eval O bind s df rhs) /\
              (forall f df, f <> bind out \/ ~ 1 <= df <= hi -> fdat (run_loop O bind (KAssign out rhs') order s) f df = fdat s f df) /\
              (forall j, sval (run_loop O bind (KAssign out rhs') order s) j = sval s j) /\
              rvar (run_loop O bind (KAssign out rhs') order s) = rvar s).
    { intros order P.
      assert (ND : NoDup order) by (eapply Permutation_NoDup; [exact P | apply zrange_NoDup]).
      destruct (run_loop_assign O bind out rhs' order s ND) as (A & B & C & D & _).
      repeat split; auto.
      - intros df Hdf. rewrite A.
        + apply Hev.
        + apply (Permutation_in _ P). now apply zrange_In.
      - intros f df [Hf|Hdf]; apply B; [now left | right].
        intro Hin. apply Hdf. apply zrange_In. apply (Permutation_in _ (Permutation_sym P) Hin). }
    destruct sch as [|order|chunks].
    + apply G. apply Permutation_refl.
    + destruct Hv as (_ & _ & P). apply G, P.
    + destruct Hv as (_ & H & _). discriminate.
  - (* reduction *)
    destruct Hk as [Hfree Hev]. rewrite Hzero.
    assert (Hs0 : forall l, sum_over O bind (set_red s 0) g l = sum_over O bind s g l).
    { intro l. unfold sum_over. f_equal. apply map_ext. intro df. apply eval_red_free; auto. }
    destruct sch as [|order|chunks].
    + destruct (run_loop_reduce O bind rhs' g Hfree (fun s0 df => Hev O bind s0 df) (zrange 1 hi) (set_red s 0)) as (A & B & C & _).
      split; [|split]; auto. rewrite A, Hs0. cbn. lia.
    + destruct Hv as (_ & H & _). discriminate.
    + destruct Hv as (_ & _ & P).
      destruct (reprod_of i) as [r|]; [destruct Hrp as (Hrp & _); discriminate|].
      destruct (run_omp_reduction_sum O bind rhs' g Hfree (fun s0 df => Hev O bind s0 df) chunks (set_red s 0)) as (A & B & C).
      split; [|split]; auto. rewrite A, Hs0. cbn [set_red rvar].
      rewrite (sum_over_perm O bind g s _ _ P). lia.
  - (* reduction, reproducible OpenMP scheme *)
    destruct Hk as [Hfree Hev]. rewrite Hzero.
    assert (Hs0 : forall l, sum_over O bind (set_red s 0) g l = sum_over O bind s g l).
    { intro l. unfold sum_over. f_equal. apply map_ext. intro df. apply eval_red_free; auto. }
    destruct sch as [|order|chunks].
    + discriminate.
    + destruct Hv as (_ & H & _). discriminate.
    + destruct Hv as (_ & _ & P).
      destruct (reprod_of i) as [r|]; [|discriminate].
      destruct Hrp as (_ & -> & ->).
      destruct (run_reprod_sum O bind rhs' g Hfree (fun s0 df => Hev O bind s0 df) chunks (set_red s 0)) as (A & B & C).
      split; [|split]; auto. rewrite A, Hs0. cbn [set_red rvar].
      rewrite (sum_over_perm O bind g s _ _ P). lia.
  - (* random *)
    subst out'. rewrite Hzero.
    assert (G : forall order, Permutation (zrange 1 hi) order ->
              (exists order0, Permutation (zrange 1 hi) order0 /\
                 forall n df, nth_error order0 n = Some df ->
                   fdat (run_loop O bind (KRandom out) order s) (bind out) df = o_rand O (rcnt s + n)%nat) /\
              (forall f df, f <> bind out \/ ~ 1 <= df <= hi -> fdat (run_loop O bind (KRandom out) order s) f df = fdat s f df) /\
              (forall j, sval (run_loop O bind (KRandom out) order s) j = sval s j) /\
              rvar (run_loop O bind (KRandom out) order s) = rvar s).
    { intros order P.
      assert (ND : NoDup order) by (eapply Permutation_NoDup; [exact P | apply zrange_NoDup]).
      destruct (run_loop_random O bind out order s ND) as (A & B & C & D & _).
      repeat split; auto.
      - exists order. split; auto.
      - intros f df [Hf|Hdf]; apply B; [now left | right].
        intro Hin. apply Hdf. apply zrange_In. apply (Permutation_in _ (Permutation_sym P) Hin). }
    destruct sch as [|order|chunks].
    + apply G. apply Permutation_refl.
    + destruct Hv as (_ & _ & P). apply G, P.
    + destruct Hv as (_ & H & _). discriminate.
Qed.

(* ------------------------------------------------------------------ distributed-memory reductions *)
(* One entry per MPI process: its layout, argument binding, store and OpenMP schedule.  The
   generated code computes the local sum over the process' owned DoFs and then the global sum of the
   local results (scalar_type%get_sum, an MPI all-reduce: modelled as the exact sum).  Every global
   DoF is owned by exactly one process, so this is the documented SUM over the whole field. *)
Record rank := mkRank { r_lay : layout; r_bind : nat -> fid; r_store : store; r_sched : schedule }.

Definition global_sum (locals : list Z) : Z := zsum locals.

Theorem dm_reduction_global : forall i d g, instance_ok i d -> d_spec d = DSum g -> i_dm i = true ->
  forall O (ranks : list rank),
  (forall r, In r ranks -> valid_schedule i d (r_lay r) (r_sched r)) ->
  i_global_sum i = true /\
  global_sum (map (fun r => rvar (run_instance O (r_bind r) (r_lay r) i (r_sched r) (r_store r))) ranks) =
  zsum (map (fun r => sum_over O (r_bind r) (r_store r) g (zrange 1 (last_owned (r_lay r)))) ranks).
Proof.
  intros i d g Hok Hd Hdm O ranks Hv. split.
  - destruct Hok as (_ & _ & _ & (_ & _ & Hgs & _)). rewrite Hgs, Hd, Hdm. reflexivity.
  - unfold global_sum. f_equal. apply map_ext_in. intros r Hr.
    pose proof (instance_correct i d Hok O (r_bind r) (r_lay r) (r_sched r) (r_store r) (Hv r Hr)) as H.
    unfold doc_post in H. rewrite Hd in H. destruct H as (H & _). rewrite H.
    unfold doc_hi. rewrite Hdm. cbn [is_reduction_spec negb andb]. rewrite andb_false_r. reflexivity.
Qed.

Lemma Forall_concat_intro {A} (P : A -> Prop) (ls : list (list A)) :
  Forall (Forall P) ls -> Forall P (List.concat ls).
Proof.
  induction 1 as [|l ls Hl Hls IH]; cbn [List.concat]; [constructor|].
  apply Forall_app. split; assumption.
Qed.

(* ------------------------------------------------------------------ coverage *)
Lemma covered_sound tbl n dm ann form : covered tbl n dm ann form = true ->
  exists i d, In (i, d) tbl /\ i_name i = n /\ i_dm i = dm /\ i_annexed i = ann /\ omp_code i = form.
Proof.
  unfold covered. rewrite existsb_exists. intros [[i d] [Hin H]]. exists i, d. split; auto.
  unfold setting_eqb in H. cbn [fst] in H.
  repeat (apply andb_true_iff in H as [H ?]).
  apply String.eqb_eq in H. apply Bool.eqb_prop in H2. apply Bool.eqb_prop in H1. apply Nat.eqb_eq in H0.
  repeat split; auto.
Qed.

Lemma form_covered_sound tbl form names : form_covered tbl form names = true ->
  forall n, In n names -> forall dm ann, exists i d,
    In (i, d) tbl /\ i_name i = n /\ i_dm i = dm /\ i_annexed i = ann /\ omp_code i = form.
Proof.
  unfold form_covered. rewrite forallb_forall. intros H n Hn dm ann.
  specialize (H n Hn). repeat (apply andb_true_iff in H as [H ?]).
  assert (C : covered tbl n dm ann form = true) by (destruct dm, ann; assumption).
  exact (covered_sound _ _ _ _ _ C).
Qed.

Lemma omp_code_0 i : omp_code i = 0%nat -> i_omp i = None.
Proof. unfold omp_code. destruct (i_omp i) as [o|]; [destruct (omp_form_of o); discriminate | reflexivity]. Qed.

Lemma all_settings_covered_sound tbl names : form_covered tbl 0 names = true ->
  forall n, In n names -> forall dm ann, exists i d,
    In (i, d) tbl /\ i_name i = n /\ i_dm i = dm /\ i_annexed i = ann /\ i_omp i = None.
Proof.
  intros H n Hn dm ann.
  destruct (form_covered_sound _ _ _ H n Hn dm ann) as (i & d & A & B & C & D & E).
  exists i, d. repeat split; auto. now apply omp_code_0.
Qed.

(* ------------------------------------------------------------------ remarks on the guide's prose for sign_X *)
(* The guide defines sign_X by the formula  field2(:) = SIGN(rscalar, field1(:))  and glosses it as
   "a for X >= 0 and -a for X < 0".  The gloss agrees with Fortran's SIGN exactly when a >= 0. *)
Lemma sign_gloss_agrees a x : 0 <= a -> fsign a x = if x >=? 0 then a else - a.
Proof. intro H. unfold fsign. rewrite Z.abs_eq by exact H. reflexivity. Qed.

Lemma sign_gloss_differs_for_negative_a : exists a x, fsign a x <> (if x >=? 0 then a else - a).
Proof. exists (-2), 3. vm_compute. discriminate. Qed.

(* ------------------------------------------------------------------ non-vacuity *)
Definition ex_ops : ops := mkOps Z.quot Z.pow (fun _ _ z => z) (fun n => Z.of_nat n).
Definition ex_store : store :=
  mkStore (fun f d => Z.of_nat f * 100 + d) (fun k => Z.of_nat k + 2) 77 55 0.
Definition ex_inc_X_plus_Y : instance :=
  mkInst "inc_X_plus_Y" true true [AFld TReal true; AFld TReal false] false None
         (BLit 1) (BLastAnnexed 0) (KAssign 0 (XBin OAdd (XFld 0) (XFld 1))) false.
Definition ex_doc_inc_X_plus_Y : docentry :=
  mkDoc "inc_X_plus_Y" [AFld TReal true; AFld TReal false] (DPointwise 0 (XBin OAdd (XFld 0) (XFld 1))).
Definition ex_layout : layout := mkLayout 9 5 7 (fun _ => 9).

Example ex_instance_ok : instance_ok ex_inc_X_plus_Y ex_doc_inc_X_plus_Y.
Proof.
  repeat split; try reflexivity.
  intros k H. cbn in H. inversion H; subst. reflexivity.
Qed.

(* in place AND aliased (both arguments bound to field 3): every DoF 1..7 is doubled, 8.. untouched *)
Example ex_inplace_aliased :
  let s' := run_instance ex_ops (fun _ => 3%nat) ex_layout ex_inc_X_plus_Y SSerial ex_store in
  map (fdat s' 3%nat) [1; 2; 7; 8; 9] = [602; 604; 614; 308; 309].
Proof. vm_compute. reflexivity. Qed.

Example ex_valid_perm :
  valid_schedule (mkInst "inc_X_plus_Y" true true [AFld TReal true; AFld TReal false] false
                    (Some (mkOmp OParDo true true false "static")) (BLit 1) (BLastAnnexed 0)
                    (KAssign 0 (XBin OAdd (XFld 0) (XFld 1))) false)
                 ex_doc_inc_X_plus_Y ex_layout (SPerm [7; 3; 1; 2; 6; 5; 4]).
Proof.
  split; [discriminate | split; [reflexivity|]].
  change (Permutation (zrange 1 7) [7; 3; 1; 2; 6; 5; 4]).
  apply NoDup_Permutation.
  - apply zrange_NoDup.
  - repeat constructor; cbn; lia.
  - intro x. rewrite zrange_In. cbn. lia.
Qed.
