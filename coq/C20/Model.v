(* C20 — LFRic built-ins compute their documented operations.   MODEL (definitions only).

   What is modelled: the language-level form of one built-in inside its DoF loop, as produced by
   LFRicBuiltIn.lower_to_language_level (lfric_builtins.py) and LFRicLoop (lfric_loop.py:
   load / _upper_bound_fortran / lower_to_language_level) plus the statements that the generated
   PSy layer puts around the loop (zeroing of the reduction variable, OpenMP directive, global sum).

     DO df = lo, hi, 1
        out_data(df) = rhs(in_data(df) ..., scalars)     | red = red + g(df) | call random_number(out_data(df))
     END DO

   Values are integers (the exactly representable domain of the property): + - * MAX MIN SIGN are
   the concrete integer operations (on that domain they coincide with the real ones).  Real
   division, `**`, INT(.,kind) and REAL(.,kind) are NOT interpreted: they are components of an
   arbitrary [ops] record that the documented formula and the generated code share, and every
   theorem is universally quantified over it (so it holds in particular for exact rational
   division restricted to divisible operands).

   Fields are identified by ids; [bind] maps the argument positions of the built-in call to field
   ids and need not be injective (the same field may be passed twice). *)
From Coq Require Import List ZArith Bool String.
Import ListNotations.
Open Scope Z_scope.

(* ------------------------------------------------------------------ expressions *)
Inductive binop := OAdd | OSub | OMul | ODiv | OPow.
Inductive fn2 := FSign | FMax | FMin.
Inductive conv := CvInt | CvReal.
(* kind= argument of a conversion: the precision of the written field, or some other named kind *)
Inductive kindspec := KLhs | KName (s : string).

Inductive bexpr :=
| XFld (k : nat)                 (* data array of the field passed as argument k, element df *)
| XScl (k : nat)                 (* scalar passed as argument k *)
| XRed                           (* the reduction variable *)
| XLoc                           (* this thread's element l_red(1,th_idx) of the reproducible-reduction array *)
| XLit (z : Z)
| XNeg (e : bexpr)
| XBin (o : binop) (a b : bexpr)
| XFn2 (f : fn2) (a b : bexpr)
| XConv (c : conv) (k : kindspec) (e : bexpr).

Record ops := mkOps {
  o_div : Z -> Z -> Z;
  o_pow : Z -> Z -> Z;
  o_conv : conv -> kindspec -> Z -> Z;
  o_rand : nat -> Z                (* the n-th number delivered by RANDOM_NUMBER *)
}.

Definition fid := nat.
Record store := mkStore {
  fdat : fid -> Z -> Z;            (* field data: field id, DoF index *)
  sval : nat -> Z;                 (* read-only scalar arguments, by argument position *)
  rvar : Z;                        (* the reduction variable *)
  lvar : Z;                        (* the executing thread's element of the local reduction array *)
  rcnt : nat                       (* how many random numbers have been drawn *)
}.

(* Fortran SIGN(a,b): |a| if b >= 0, else -|a| *)
Definition fsign (a b : Z) : Z := if b >=? 0 then Z.abs a else - Z.abs a.

Definition eval_bin (O : ops) (o : binop) (a b : Z) : Z :=
  match o with
  | OAdd => a + b | OSub => a - b | OMul => a * b
  | ODiv => o_div O a b | OPow => o_pow O a b
  end.

Definition eval_fn2 (f : fn2) (a b : Z) : Z :=
  match f with FSign => fsign a b | FMax => Z.max a b | FMin => Z.min a b end.

Fixpoint eval (O : ops) (bind : nat -> fid) (s : store) (df : Z) (e : bexpr) : Z :=
  match e with
  | XFld k => fdat s (bind k) df
  | XScl k => sval s k
  | XRed => rvar s
  | XLoc => lvar s
  | XLit z => z
  | XNeg a => - eval O bind s df a
  | XBin o a b => eval_bin O o (eval O bind s df a) (eval O bind s df b)
  | XFn2 f a b => eval_fn2 f (eval O bind s df a) (eval O bind s df b)
  | XConv c k a => o_conv O c k (eval O bind s df a)
  end.

Fixpoint red_free (e : bexpr) : bool :=
  match e with
  | XRed | XLoc => false
  | XFld _ | XScl _ | XLit _ => true
  | XNeg a | XConv _ _ a => red_free a
  | XBin _ a b | XFn2 _ a b => red_free a && red_free b
  end.

(* ------------------------------------------------------------------ the loop body and the loop *)
Inductive kern :=
| KAssign (out : nat) (rhs : bexpr)      (* data array of field argument [out], element df := rhs *)
| KReduce (rhs : bexpr)                  (* reduction variable := rhs *)
| KReduceLocal (rhs : bexpr)             (* l_red(1,th_idx) := rhs   (reproducible OpenMP reductions) *)
| KRandom (out : nat).                   (* call random_number(data(df)) *)

Definition upd_f (s : store) (f : fid) (d : Z) (v : Z) : store :=
  mkStore (fun f' d' => if (Nat.eqb f' f && (d' =? d))%bool then v else fdat s f' d')
          (sval s) (rvar s) (lvar s) (rcnt s).
Definition set_red (s : store) (v : Z) : store := mkStore (fdat s) (sval s) v (lvar s) (rcnt s).
Definition set_loc (s : store) (v : Z) : store := mkStore (fdat s) (sval s) (rvar s) v (rcnt s).

Definition run_iter (O : ops) (bind : nat -> fid) (k : kern) (s : store) (df : Z) : store :=
  match k with
  | KAssign out rhs => upd_f s (bind out) df (eval O bind s df rhs)
  | KReduce rhs => set_red s (eval O bind s df rhs)
  | KReduceLocal rhs => set_loc s (eval O bind s df rhs)
  | KRandom out =>
      let s1 := upd_f s (bind out) df (o_rand O (rcnt s)) in
      mkStore (fdat s1) (sval s1) (rvar s1) (lvar s1) (S (rcnt s))
  end.

(* the iterations in the order given *)
Definition run_loop (O : ops) (bind : nat -> fid) (k : kern) (order : list Z) (s : store) : store :=
  fold_left (run_iter O bind k) order s.

(* DO df = lo, hi, 1 : the indices lo, lo+1, ..., hi (none if hi < lo) *)
Fixpoint zrange_n (lo : Z) (n : nat) : list Z :=
  match n with O => [] | S n' => lo :: zrange_n (lo + 1) n' end.
Definition zrange (lo hi : Z) : list Z := zrange_n lo (Z.to_nat (hi - lo + 1)).

(* an OpenMP reduction(+:red): every thread works on a private copy initialised to 0 and the
   private copies are added to the original variable at the end.  [chunks] = iterations per thread. *)
Definition thread_sum (O : ops) (bind : nat -> fid) (k : kern) (s : store) (chunk : list Z) : Z :=
  rvar (run_loop O bind k chunk (set_red s 0)).
Definition run_omp_reduction (O : ops) (bind : nat -> fid) (k : kern) (chunks : list (list Z)) (s : store) : store :=
  set_red s (fold_left Z.add (map (thread_sum O bind k s) chunks) (rvar s)).

(* Reproducible OpenMP reductions: l_red(:, 1..nthreads) is zeroed before the parallel region, thread
   t accumulates its iterations into l_red(1,t), and after the region the elements are added to the
   reduction variable sequentially, thread 1 first.  [chunks] = iterations per thread (any number of
   threads; [zeroed] = whether the generated code really zeroes the array: otherwise each element
   starts from whatever [lvar] holds). *)
Definition thread_local_sum (O : ops) (bind : nat -> fid) (k : kern) (zeroed : bool) (s : store) (chunk : list Z) : Z :=
  lvar (run_loop O bind k chunk (if zeroed then set_loc s 0 else s)).
Definition run_reprod (O : ops) (bind : nat -> fid) (k : kern) (zeroed summed : bool) (chunks : list (list Z)) (s : store) : store :=
  if summed then set_red s (fold_left Z.add (map (thread_local_sum O bind k zeroed s) chunks) (rvar s)) else s.

Definition zsum (l : list Z) : Z := fold_right Z.add 0 l.
(* sum over the DoFs in [l] of the summand g *)
Definition sum_over (O : ops) (bind : nat -> fid) (s : store) (g : bexpr) (l : list Z) : Z :=
  zsum (map (fun df => eval O bind s df g) l).

(* ------------------------------------------------------------------ loop bounds *)
(* what the generated PSy layer assigns to loop<n>_start / loop<n>_stop; k = argument position of
   the field whose proxy supplies the function space *)
Inductive bound :=
| BLit (z : Z)
| BUndf (k : nat)                 (* <f>_proxy%vspace%get_undf() *)
| BLastOwned (k : nat)            (* <f>_proxy%vspace%get_last_dof_owned() *)
| BLastAnnexed (k : nat)          (* <f>_proxy%vspace%get_last_dof_annexed() *)
| BLastHalo (k : nat) (depth : Z). (* <f>_proxy%vspace%get_last_dof_halo(depth) *)

(* DoF layout of the function space on this process: owned | annexed | halo(1..) ; undf = all *)
Record layout := mkLayout { undf : Z; last_owned : Z; last_annexed : Z; last_halo : Z -> Z }.
Definition layout_wf (L : layout) : Prop := 0 <= last_owned L <= last_annexed L /\ last_annexed L <= undf L.

Definition eval_bound (L : layout) (b : bound) : Z :=
  match b with
  | BLit z => z
  | BUndf _ => undf L
  | BLastOwned _ => last_owned L
  | BLastAnnexed _ => last_annexed L
  | BLastHalo _ d => last_halo L d
  end.

Definition bound_field (b : bound) : option nat :=
  match b with BLit _ => None | BUndf k | BLastOwned k | BLastAnnexed k | BLastHalo k _ => Some k end.

(* The documented range (user guide, "Built-ins" introduction and "Annexed DoFs"): without
   distributed memory all DoFs; with distributed memory the owned DoFs, or owned+annexed when
   COMPUTE_ANNEXED_DOFS is set; reductions always the owned DoFs. *)
Definition doc_hi (dm annexed reduction : bool) (L : layout) : Z :=
  if negb dm then undf L
  else if (annexed && negb reduction)%bool then last_annexed L
  else last_owned L.

(* ------------------------------------------------------------------ arguments *)
Inductive aty := TReal | TInt.
Inductive akind := AFld (t : aty) (written : bool) | AScl (t : aty) (written : bool).

Definition is_fld (a : akind) : bool := match a with AFld _ _ => true | _ => false end.
Definition arg_is_field (args : list akind) (k : nat) : bool :=
  match nth_error args k with Some a => is_fld a | None => false end.

(* ------------------------------------------------------------------ one generated invoke *)
Record reprod_info := mkReprod {
  rp_local_zeroed : bool;            (* l_red = 0 before the parallel region *)
  rp_thread_index_set : bool;        (* th_idx = omp_get_thread_num()+1 first thing in the region *)
  rp_thread_index_private : bool;    (* th_idx in the private clause *)
  rp_final_sum_all_threads : bool    (* DO th_idx=1,nthreads: red = red + l_red(1,th_idx) after the region *)
}.
Inductive omp_form :=
| OParDo                             (* !$omp parallel do *)
| ORegion                            (* !$omp parallel ... !$omp do *)
| OReprod (r : reprod_info).         (* region + reproducible reduction *)

Record omp_dir := mkOmp {
  omp_form_of : omp_form;
  omp_default_shared : bool;
  omp_private_df : bool;
  omp_reduction_plus_red : bool;     (* reduction(+:<the reduction variable>) present *)
  omp_schedule : string
}.

Record instance := mkInst {
  i_name : string;
  i_dm : bool;                       (* distributed memory *)
  i_annexed : bool;                  (* COMPUTE_ANNEXED_DOFS *)
  i_args : list akind;               (* from the built-in's metadata *)
  i_zero_before : bool;              (* reduction variable set to zero before the loop *)
  i_omp : option omp_dir;            (* OpenMP parallel do around the loop *)
  i_lo : bound;
  i_hi : bound;
  i_kern : kern;
  i_global_sum : bool                (* global_sum%value = red; red = global_sum%get_sum() after the loop *)
}.

(* ------------------------------------------------------------------ documented definition *)
Inductive dspec :=
| DPointwise (out : nat) (rhs : bexpr)      (* out(:) = rhs *)
| DSum (g : bexpr)                          (* result = SUM(g(:)) *)
| DRandom (out : nat).                      (* do df: out(df) = RAND() *)

Record docentry := mkDoc { d_name : string; d_args : list akind; d_spec : dspec }.

Definition is_reduction_spec (d : dspec) : bool := match d with DSum _ => true | _ => false end.
Definition kern_is_local (k : kern) : bool := match k with KReduceLocal _ => true | _ => false end.
Definition reprod_of (i : instance) : option reprod_info :=
  match i_omp i with Some o => match omp_form_of o with OReprod r => Some r | _ => None end | None => None end.

(* ------------------------------------------------------------------ the generated obligations *)
(* (a) the loop body is the documented operation *)
Definition kern_matches (k : kern) (d : dspec) : Prop :=
  match d, k with
  | DPointwise out rhs, KAssign out' rhs' =>
      out' = out /\ forall O bind s df, eval O bind s df rhs' = eval O bind s df rhs
  | DSum g, KReduce rhs' =>
      red_free g = true /\ forall O bind s df, eval O bind s df rhs' = rvar s + eval O bind s df g
  | DSum g, KReduceLocal rhs' =>
      red_free g = true /\ forall O bind s df, eval O bind s df rhs' = lvar s + eval O bind s df g
  | DRandom out, KRandom out' => out' = out
  | _, _ => False
  end.

(* (b) the loop bounds are the documented range *)
Definition range_ok (i : instance) (d : docentry) : Prop :=
  (forall L, eval_bound L (i_lo i) = 1) /\
  (forall L, eval_bound L (i_hi i) = doc_hi (i_dm i) (i_annexed i) (is_reduction_spec (d_spec d)) L) /\
  (forall k, bound_field (i_hi i) = Some k -> arg_is_field (i_args i) k = true).

(* (c) what surrounds the loop *)
Definition skeleton_ok (i : instance) (d : docentry) : Prop :=
  i_args i = d_args d /\
  i_zero_before i = is_reduction_spec (d_spec d) /\
  i_global_sum i = (is_reduction_spec (d_spec d) && i_dm i)%bool /\
  match i_omp i with
  | None => kern_is_local (i_kern i) = false
  | Some o => omp_default_shared o = true /\ omp_private_df o = true /\
      match omp_form_of o with
      | OReprod r =>
          (* reproducible reduction: thread-local accumulation, no reduction clause *)
          is_reduction_spec (d_spec d) = true /\ kern_is_local (i_kern i) = true /\
          omp_reduction_plus_red o = false /\
          rp_local_zeroed r = true /\ rp_thread_index_set r = true /\
          rp_thread_index_private r = true /\ rp_final_sum_all_threads r = true
      | _ => kern_is_local (i_kern i) = false /\
             omp_reduction_plus_red o = is_reduction_spec (d_spec d)
      end
  end.

Definition instance_ok (i : instance) (d : docentry) : Prop :=
  i_name i = d_name d /\ kern_matches (i_kern i) (d_spec d) /\ range_ok i d /\ skeleton_ok i d.

(* two descriptions of the same built-in (user guide vs. the `!>` line and meta_args of
   lfric_builtins_mod.f90) agree *)
Definition spec_equiv (a b : dspec) : Prop :=
  match a, b with
  | DPointwise o r, DPointwise o' r' => o = o' /\ forall O bind s df, eval O bind s df r = eval O bind s df r'
  | DSum g, DSum g' => forall O bind s df, eval O bind s df g = eval O bind s df g'
  | DRandom o, DRandom o' => o = o'
  | _, _ => False
  end.
Definition doc_agree (a b : docentry) : Prop :=
  d_name a = d_name b /\ d_args a = d_args b /\ spec_equiv (d_spec a) (d_spec b).

(* ------------------------------------------------------------------ executing an instance on one process *)
(* A schedule is what the run time may choose: for a serial loop nothing (the DO order); for an
   OpenMP pointwise loop any assignment of iterations to threads and any interleaving, i.e. any
   permutation of the iterations (distinct iterations touch disjoint locations, see
   Proofs.iterations_commute); for an OpenMP reduction any split of the iterations into per-thread
   chunks. *)
Inductive schedule := SSerial | SPerm (order : list Z) | SChunks (chunks : list (list Z)).

Definition run_instance (O : ops) (bind : nat -> fid) (L : layout) (i : instance) (sch : schedule) (s : store) : store :=
  let s0 := if i_zero_before i then set_red s 0 else s in
  let iters := zrange (eval_bound L (i_lo i)) (eval_bound L (i_hi i)) in
  match sch with
  | SSerial => run_loop O bind (i_kern i) iters s0
  | SPerm order => run_loop O bind (i_kern i) order s0
  | SChunks chunks =>
      match reprod_of i with
      | Some r => run_reprod O bind (i_kern i) (rp_local_zeroed r) (rp_final_sum_all_threads r) chunks s0
      | None => run_omp_reduction O bind (i_kern i) chunks s0
      end
  end.

(* ------------------------------------------------------------------ executable helpers (coverage) *)
(* 0 = serial, 1 = parallel do, 2 = parallel region + do, 3 = reproducible reduction *)
Definition omp_code (i : instance) : nat :=
  match i_omp i with
  | None => 0
  | Some o => match omp_form_of o with OParDo => 1 | ORegion => 2 | OReprod _ => 3 end
  end%nat.

Definition setting_eqb (i : instance) (n : string) (dm ann : bool) (form : nat) : bool :=
  (String.eqb (i_name i) n && Bool.eqb (i_dm i) dm && Bool.eqb (i_annexed i) ann && Nat.eqb (omp_code i) form)%bool.

Definition covered (tbl : list (instance * docentry)) (n : string) (dm ann : bool) (form : nat) : bool :=
  existsb (fun p => setting_eqb (fst p) n dm ann form) tbl.

Definition form_covered (tbl : list (instance * docentry)) (form : nat) (names : list string) : bool :=
  forallb (fun n => covered tbl n false false form && covered tbl n false true form &&
                    covered tbl n true false form && covered tbl n true true form)%bool names.
