(* C19 — basic facts: syntactic equality is equality, the inner product under point updates. *)
From Coq Require Import List ZArith Bool Lia.
Import ListNotations.
From PV Require Import Fort.Syntax Fort.Sem Fort.Facts C19.Model.
Open Scope Z_scope.

Lemma unop_eqb_eq a b : unop_eqb a b = true -> a = b.
Proof. destruct a, b; simpl; congruence. Qed.
Lemma binop_eqb_eq a b : binop_eqb a b = true -> a = b.
Proof. destruct a, b; simpl; congruence. Qed.
Lemma intr_eqb_eq a b : intr_eqb a b = true -> a = b.
Proof. destruct a, b; simpl; congruence. Qed.

Definition leq_ := (fix leq (x y : list expr) {struct x} : bool :=
                match x, y with
                | [], [] => true
                | u :: x', v :: y' => expr_eqb u v && leq x' y'
                | _, _ => false
                end).

Lemma leq_eq x : Forall (fun u => forall v, expr_eqb u v = true -> u = v) x ->
  forall y, leq_ x y = true -> x = y.
Proof.
  induction 1 as [|u x Hu _ IH]; intros [|v y] H; try discriminate; [reflexivity|].
  cbn in H. apply andb_true_iff in H as [H1 H2]. f_equal; [apply Hu, H1 | apply IH, H2].
Qed.

Lemma expr_eqb_eq a : forall b, expr_eqb a b = true -> a = b.
Proof.
  induction a using expr_ind'; intros [] E; cbn in E; try discriminate.
  - apply Z.eqb_eq in E. congruence.
  - apply Nat.eqb_eq in E. congruence.
  - apply andb_true_iff in E as [E1 E2]. apply Nat.eqb_eq in E1. apply (leq_eq _ H) in E2. congruence.
  - apply andb_true_iff in E as [E1 E2]. apply unop_eqb_eq in E1. apply IHa in E2. congruence.
  - apply andb_true_iff in E as [E E3]. apply andb_true_iff in E as [E1 E2].
    apply binop_eqb_eq in E1. apply IHa1 in E2. apply IHa2 in E3. congruence.
  - apply andb_true_iff in E as [E1 E2]. apply intr_eqb_eq in E1. apply (leq_eq _ H) in E2. congruence.
Qed.

Lemma memn_In x l : memn x l = true <-> In x l.
Proof.
  unfold memn. rewrite existsb_exists. split.
  - intros [y [H1 H2]]. apply Nat.eqb_eq in H2. subst. exact H1.
  - intro H. exists x. split; [exact H | apply Nat.eqb_refl].
Qed.

Lemma memloc_In l L : memloc l L = true <-> In l L.
Proof. apply existsb_loc_eqb. Qed.

(* ------------------------------------------------------------------ dot *)
Lemma dot_ext_l L x x' y : (forall l, In l L -> val x l = val x' l) -> dot L x y = dot L x' y.
Proof.
  induction L as [|l L IH]; intro H; [reflexivity|]. cbn [dot].
  rewrite (H l) by (left; reflexivity). rewrite IH; [reflexivity|]. intros l' Hl. apply H. right. exact Hl.
Qed.

Lemma dot_ext_r L x y y' : (forall l, In l L -> val y l = val y' l) -> dot L x y = dot L x y'.
Proof.
  induction L as [|l L IH]; intro H; [reflexivity|]. cbn [dot].
  rewrite (H l) by (left; reflexivity). rewrite IH; [reflexivity|]. intros l' Hl. apply H. right. exact Hl.
Qed.

Lemma dot_upd_l_notin L x y l v : ~ In l L -> dot L (upd x l v) y = dot L x y.
Proof.
  intro N. apply dot_ext_l. intros l' Hl. apply val_upd_other. intro E. subst. contradiction.
Qed.

Lemma dot_upd_r_notin L x y l v : ~ In l L -> dot L x (upd y l v) = dot L x y.
Proof.
  intro N. apply dot_ext_r. intros l' Hl. apply val_upd_other. intro E. subst. contradiction.
Qed.

Lemma dot_upd_l L x y l v : NoDup L -> In l L ->
  dot L (upd x l v) y = dot L x y + (v - val x l) * val y l.
Proof.
  induction L as [|l0 L IH]; intros ND I; [destruct I|].
  inversion ND as [|? ? N ND']; subst. cbn [dot]. destruct I as [E | I].
  - subst. rewrite val_upd_same. rewrite dot_upd_l_notin by exact N. ring.
  - rewrite IH by assumption. rewrite val_upd_other; [ring|]. intro E. subst. contradiction.
Qed.

Lemma dot_upd_r L x y l v : NoDup L -> In l L ->
  dot L x (upd y l v) = dot L x y + val x l * (v - val y l).
Proof.
  induction L as [|l0 L IH]; intros ND I; [destruct I|].
  inversion ND as [|? ? N ND']; subst. cbn [dot]. destruct I as [E | I].
  - subst. rewrite val_upd_same. rewrite dot_upd_r_notin by exact N. ring.
  - rewrite IH by assumption. rewrite val_upd_other; [ring|]. intro E. subst. contradiction.
Qed.

(* ------------------------------------------------------------------ option plumbing *)
Lemma opt_all_map_ext {A} (f g : A -> option Z) l :
  (forall x, In x l -> f x = g x) -> opt_all (map f l) = opt_all (map g l).
Proof.
  induction l as [|a l IH]; intro H; [reflexivity|]. cbn [map opt_all].
  rewrite (H a) by (left; reflexivity). rewrite IH; [reflexivity|]. intros x Hx. apply H. right. exact Hx.
Qed.
