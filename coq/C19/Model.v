(* C19 — PSyAD: model of the adjoint construction (psyad/adjoint_visitor.py, AssignmentTrans.apply /
   validate) on the linear subset of Fort.Syntax, as the code is today (including its defects),
   and the reference semantics used by the theorems.  Definitions only.

   flags: [lo_paren]  = the text pasted into "mod(hi-lo,step)" has parentheses around lo
          [sign_kept] = the operator of the first deferred (self) term is honoured
   (both false on the unchanged tree; regenerated from /repo by props/C19/translate.py -> Gen.v). *)
From Coq Require Import List ZArith Bool.
Import ListNotations.
From PV Require Import Fort.Syntax Fort.Sem.
Open Scope Z_scope.

Record flags := mkFlags { lo_paren : bool; sign_kept : bool }.

Definition memn (x : name) (l : list name) : bool := existsb (Nat.eqb x) l.

(* ------------------------------------------------------------------ syntactic equality *)
Definition unop_eqb (a b : unop) : bool := match a, b with Neg, Neg | Not, Not => true | _, _ => false end.
Definition binop_eqb (a b : binop) : bool :=
  match a, b with
  | Add, Add | Sub, Sub | Mul, Mul | Div, Div | Pow, Pow | Eq, Eq | Ne, Ne | Lt, Lt | Le, Le
  | Gt, Gt | Ge, Ge | And, And | Or, Or => true | _, _ => false end.
Definition intr_eqb (a b : intr) : bool :=
  match a, b with
  | IMin, IMin | IMax, IMax | IMod, IMod | IAbs, IAbs | ISign, ISign | ILbound, ILbound
  | IUbound, IUbound | ISize, ISize => true | _, _ => false end.

Fixpoint expr_eqb (a b : expr) {struct a} : bool :=
  let leq := (fix leq (x y : list expr) {struct x} : bool :=
                match x, y with
                | [], [] => true
                | u :: x', v :: y' => expr_eqb u v && leq x' y'
                | _, _ => false
                end) in
  match a, b with
  | ELit x, ELit y => Z.eqb x y
  | EVar x, EVar y => Nat.eqb x y
  | EIdx x ix, EIdx y iy => Nat.eqb x y && leq ix iy
  | EUn o e, EUn o' e' => unop_eqb o o' && expr_eqb e e'
  | EBin o l r, EBin o' l' r' => binop_eqb o o' && expr_eqb l l' && expr_eqb r r'
  | EIntr f xs, EIntr g ys => intr_eqb f g && leq xs ys
  | _, _ => false
  end.

Fixpoint exprs_eqb (x y : list expr) : bool :=
  match x, y with
  | [], [] => true
  | u :: x', v :: y' => expr_eqb u v && exprs_eqb x' y'
  | _, _ => false
  end.

Fixpoint stmt_eqb (a b : stmt) {struct a} : bool :=
  let leq := (fix leq (x y : list stmt) {struct x} : bool :=
                match x, y with
                | [], [] => true
                | u :: x', v :: y' => stmt_eqb u v && leq x' y'
                | _, _ => false
                end) in
  match a, b with
  | SAssign x ix e, SAssign y iy e' => Nat.eqb x y && exprs_eqb ix iy && expr_eqb e e'
  | SIf c th el, SIf c' th' el' => expr_eqb c c' && leq th th' && leq el el'
  | SDo x lo hi st b, SDo x' lo' hi' st' b' =>
      Nat.eqb x x' && expr_eqb lo lo' && expr_eqb hi hi' && expr_eqb st st' && leq b b'
  | SExit, SExit | SCycle, SCycle | SReturn, SReturn => true
  | SPrint es, SPrint es' => exprs_eqb es es'
  | SRegion r b, SRegion r' b' => Nat.eqb r r' && leq b b'
  | SDir d b, SDir d' b' => Nat.eqb d d' && leq b b'
  | _, _ => false
  end.

Fixpoint stmts_eqb (x y : list stmt) : bool :=
  match x, y with
  | [], [] => true
  | u :: x', v :: y' => stmt_eqb u v && stmts_eqb x' y'
  | _, _ => false
  end.

(* ------------------------------------------------------------------ names / activity *)
Fixpoint names (e : expr) : list name :=
  let go := (fix go (l : list expr) : list name := match l with [] => [] | x :: r => names x ++ go r end) in
  match e with
  | ELit _ => []
  | EVar x => [x]
  | EIdx a ix => a :: go ix
  | EUn _ e1 => names e1
  | EBin _ l r => names l ++ names r
  | EIntr _ args => go args
  end.

Fixpoint names_l (l : list expr) : list name := match l with [] => [] | x :: r => names x ++ names_l r end.

Section WithActs.
Variable fl : flags.
Variable acts : list name.

Definition act (x : name) : bool := memn x acts.

(* utils.node_is_active: some reference to an active symbol below the node *)
Definition has_act (e : expr) : bool := existsb act (names e).
Definition has_act_l (l : list expr) : bool := existsb act (names_l l).

Fixpoint stmt_act (s : stmt) : bool :=
  let go := (fix go (l : list stmt) : bool := match l with [] => false | x :: r => stmt_act x || go r end) in
  match s with
  | SAssign x ix e => act x || has_act_l ix || has_act e
  | SIf c th el => has_act c || go th || go el
  | SDo x lo hi st body => act x || has_act lo || has_act hi || has_act st || go body
  | SPrint es => has_act_l es
  | SRegion _ body | SDir _ body => go body
  | SExit | SCycle | SReturn => false
  end.

(* ------------------------------------------------------------------ AssignmentTrans *)
(* _split_nodes(rhs, [ADD, SUB]) together with the sign found by walking up the parents:
   true = ADD, false = SUB *)
Fixpoint split_terms (sg : bool) (e : expr) : list (bool * expr) :=
  match e with
  | EBin Add l r => split_terms sg l ++ split_terms sg r
  | EBin Sub l r => split_terms sg l ++ split_terms (negb sg) r
  | _ => [(sg, e)]
  end.

(* a term that is linear in exactly one active reference, through products with passive factors
   and unary minus (the shapes validate() accepts, without division) *)
Fixpoint lin_term (t : expr) : bool :=
  match t with
  | EVar x => act x
  | EIdx a ix => act a && negb (has_act_l ix)
  | EUn Neg e => lin_term e
  | EBin Mul l r => (lin_term l && negb (has_act r)) || (negb (has_act l) && lin_term r)
  | _ => false
  end.

(* the first active Reference of the term in walk() order, and the term with it replaced by lhs *)
Fixpoint plug (t lhs : expr) : option (expr * expr) :=
  match t with
  | EVar x => if act x then Some (t, lhs) else None
  | EIdx a _ => if act a then Some (t, lhs) else None
  | EUn Neg e => match plug e lhs with Some (r, e') => Some (r, EUn Neg e') | None => None end
  | EBin Mul l r =>
      match plug l lhs with
      | Some (r0, l') => Some (r0, EBin Mul l' r)
      | None => match plug r lhs with Some (r0, r') => Some (r0, EBin Mul l r') | None => None end
      end
  | _ => None
  end.

Definition lhs_expr (x : name) (ix : list expr) : expr := match ix with [] => EVar x | _ => EIdx x ix end.
Definition is_ref (e : expr) : bool := match e with EVar _ | EIdx _ _ => true | _ => false end.
Definition opb (sg : bool) : binop := if sg then Add else Sub.

(* the loop over rhs_terms of apply(): emitted increments (in order) and deferred self terms *)
Fixpoint adj_terms (lhs : expr) (ts : list (bool * expr)) : option (list stmt * list (expr * bool)) :=
  match ts with
  | [] => Some ([], [])
  | (sg, t) :: rest =>
      match adj_terms lhs rest with
      | None => None
      | Some (em, df) =>
          if negb (has_act t) then Some (em, df)            (* "if not active_var: continue" *)
          else match plug t lhs with
               | None => None
               | Some (r, t') =>
                   if expr_eqb r lhs then Some (em, (t', sg) :: df)
                   else match r with
                        | EVar x => Some (SAssign x [] (EBin (opb sg) r t') :: em, df)
                        | EIdx a ix => Some (SAssign a ix (EBin (opb sg) r t') :: em, df)
                        | _ => None
                        end
               end
      end
  end.

Definition finish (x : name) (ix : list expr) (df : list (expr * bool)) : list stmt :=
  match df with
  | [] => [SAssign x ix (ELit 0)]
  | (t, sg) :: rest =>
      if match rest with [] => is_ref t && (sg || negb (sign_kept fl)) | _ => false end then []
      else
        let t0 := if sign_kept fl && negb sg then EUn Neg t else t in
        [SAssign x ix (fold_left (fun acc d => EBin (opb (snd d)) acc (fst d)) rest t0)]
  end.

Definition is_zero_lit (e : expr) : bool := match e with ELit 0 => true | _ => false end.

(* validate(): None = TangentLinearError *)
Definition adj_assign (x : name) (ix : list expr) (e : expr) : option (list stmt) :=
  if negb (act x) || has_act_l ix then None
  else
    let ts := split_terms true e in
    if is_zero_lit e then Some [SAssign x ix (ELit 0)]
    else if negb (forallb (fun st => lin_term (snd st)) ts) then None
    else match adj_terms (lhs_expr x ix) ts with
         | Some (em, df) => Some (em ++ finish x ix df)
         | None => None
         end.

(* ------------------------------------------------------------------ loop_node *)
(* the text "hi-lo" after re-parsing, when lo is printed without parentheses: a top-level + or -
   of lo is captured by the preceding minus *)
Fixpoint capture (acc lo : expr) : expr :=
  match lo with
  | EBin Add l r => EBin Add (capture acc l) r
  | EBin Sub l r => EBin Sub (capture acc l) r
  | _ => EBin Sub acc lo
  end.

(* the pasted text starts "hi--..." and fparser refuses it *)
Fixpoint starts_minus (e : expr) : bool :=
  match e with
  | ELit z => z <? 0
  | EUn Neg _ => true
  | EBin _ l _ => starts_minus l
  | _ => false
  end.

Definition pasted (hi lo : expr) : expr := if lo_paren fl then EBin Sub hi lo else capture hi lo.

Definition unit_step (st : expr) : bool := match st with ELit 1 | ELit (-1) => true | _ => false end.

(* utils.negate_expr *)
Definition negate (e : expr) : expr :=
  match e with
  | ELit z => if z <? 0 then ELit (- z) else EUn Neg (ELit z)
  | EUn Neg e1 => e1
  | _ => EBin Mul (ELit (-1)) e
  end.

Definition rev_start (lo hi st : expr) : expr :=
  if unit_step st then hi else EBin Sub hi (EIntr IMod [pasted hi lo; st]).

(* ------------------------------------------------------------------ the visitor *)
Fixpoint adj_stmt (s : stmt) : option (list stmt) :=
  let adj_act := (fix go (l : list stmt) : option (list stmt) :=
      match l with
      | [] => Some []
      | s1 :: r =>
          if stmt_act s1 then
            match go r, adj_stmt s1 with Some a, Some b => Some (a ++ b) | _, _ => None end
          else go r
      end) in
  let sched := fun l : list stmt =>
      match adj_act l with Some a => Some (filter (fun s1 => negb (stmt_act s1)) l ++ a) | None => None end in
  match s with
  | SAssign x ix e => adj_assign x ix e
  | SIf c th el =>
      if has_act c then None
      else match sched th, sched el with Some a, Some b => Some [SIf c a b] | _, _ => None end
  | SDo x lo hi st body =>
      if act x || has_act lo || has_act hi || has_act st then None
      else if negb (unit_step st) && negb (lo_paren fl) && starts_minus lo then None
      else match sched body with
           | Some b => Some [SDo x (rev_start lo hi st) lo (negate st) b]
           | None => None
           end
  | _ => None
  end.

(* schedule_node: passive statements first (unchanged, in order), then the active ones reversed *)
Fixpoint adj_active (l : list stmt) : option (list stmt) :=
  match l with
  | [] => Some []
  | s1 :: r =>
      if stmt_act s1 then
        match adj_active r, adj_stmt s1 with Some a, Some b => Some (a ++ b) | _, _ => None end
      else adj_active r
  end.

Definition adj (l : list stmt) : option (list stmt) :=
  match adj_active l with
  | Some a => Some (filter (fun s1 => negb (stmt_act s1)) l ++ a)
  | None => None
  end.

End WithActs.

(* ------------------------------------------------------------------ reference semantics *)
(* The linear subset needs no fuel and no control states: assignments, IF, DO.  [iter] runs the
   body once per value of the DO variable; the DO variable is defined on exit (Fort.Sem). *)
Fixpoint zseq0 (k : Z) (n : nat) : list Z := match n with O => [] | S n' => k :: zseq0 (k + 1) n' end.
Definition ivals0 (l t : Z) (n : nat) : list Z := map (fun i => l + i * t) (zseq0 0 n).

Fixpoint iter (body : store -> option store) (x : name) (vs : list Z) (s : store) : option store :=
  match vs with
  | [] => Some s
  | v :: r => match body (upd s (x, []) v) with Some s' => iter body x r s' | None => None end
  end.

Section Run.
(* guards: [gA s x ix e] on every executed assignment, [gL l h t st] on every executed DO *)
Variable gA : store -> name -> list expr -> expr -> bool.
Variable gL : Z -> Z -> Z -> expr -> bool.

Fixpoint run1 (s : stmt) (st : store) {struct s} : option store :=
  let runl := (fix go (l : list stmt) (st : store) {struct l} : option store :=
      match l with
      | [] => Some st
      | s1 :: r => match run1 s1 st with Some st' => go r st' | None => None end
      end) in
  match s with
  | SAssign x ix e =>
      match opt_all (map (eval st) ix), eval st e with
      | Some vs, Some v => if gA st x ix e then Some (upd st (x, vs) v) else None
      | _, _ => None
      end
  | SIf c th el =>
      match eval st c with
      | Some v => runl (if v =? 0 then el else th) st
      | None => None
      end
  | SDo x lo hi stp body =>
      match eval st lo, eval st hi, eval st stp with
      | Some l, Some h, Some t =>
          if (t =? 0) || negb (gL l h t stp) then None
          else match iter (runl body) x (ivals0 l t (trip_count l h t)) st with
               | Some s' => Some (upd s' (x, []) (l + Z.of_nat (trip_count l h t) * t))
               | None => None
               end
      | _, _, _ => None
      end
  | _ => None
  end.

Fixpoint runl (l : list stmt) (st : store) : option store :=
  match l with
  | [] => Some st
  | s1 :: r => match run1 s1 st with Some st' => runl r st' | None => None end
  end.
End Run.

Definition run : list stmt -> store -> option store := runl (fun _ _ _ _ => true) (fun _ _ _ _ => true).

(* ------------------------------------------------------------------ inner product *)
Fixpoint dot (L : list loc) (x y : store) : Z :=
  match L with [] => 0 | l :: r => val x l * val y l + dot r x y end.

Definition memloc (l : loc) (L : list loc) : bool := existsb (loc_eqb l) L.

(* ------------------------------------------------------------------ guards of the partial theorem *)
Section Guards.
Variable acts : list name.
Variable L : list loc.         (* the active data: the locations the inner product ranges over *)

Definition ref_loc (s : store) (r : expr) : option loc :=
  match r with
  | EVar x => Some (x, [])
  | EIdx a ix => match opt_all (map (eval s) ix) with Some vs => Some (a, vs) | None => None end
  | _ => None
  end.

(* every active location the assignment touches belongs to L, and a right-hand-side reference that is
   not textually the left-hand side does not denote the same element at run time *)
Definition guardA (s : store) (x : name) (ix : list expr) (e : expr) : bool :=
  match opt_all (map (eval s) ix) with
  | None => false
  | Some vs =>
      memloc (x, vs) L &&
      forallb (fun st : bool * expr =>
                 match plug acts (snd st) (lhs_expr x ix) with
                 | Some (r, _) =>
                     match ref_loc s r with
                     | Some l => memloc l L && (expr_eqb r (lhs_expr x ix) || negb (loc_eqb l (x, vs)))
                     | None => false
                     end
                 | None => true
                 end) (split_terms true e)
  end.

(* a DO whose step is not the literal 1/-1 is not entered with 0 < |lo-hi| < |step| on the empty side *)
Definition guardL (l h t : Z) (stp : expr) : bool :=
  unit_step stp || negb ((trip_count l h t =? 0)%nat && (0 <? Z.abs (l - h)) && (Z.abs (l - h) <? Z.abs t)).

Definition runG : list stmt -> store -> option store := runl guardA guardL.
End Guards.

(* ------------------------------------------------------------------ static side conditions *)
Section Safe.
Variable fl : flags.
Variable acts : list name.
Variable LV : list name.        (* the DO variables of the whole program *)

(* names a passive expression may read at a point where the DO variables E are in scope *)
Definition pure (E : list name) (e : expr) : bool :=
  forallb (fun n => negb (memn n acts) && (memn n E || negb (memn n LV))) (names e).
Definition pure_l (E : list name) (l : list expr) : bool := forallb (pure E) l.

(* passive factors and subscripts of a linear term are pure *)
Fixpoint term_pure (E : list name) (t : expr) : bool :=
  match t with
  | EVar _ => true
  | EIdx _ ix => pure_l E ix
  | EUn Neg e => term_pure E e
  | EBin Mul l r => if has_act acts l then term_pure E l && pure E r else pure E l && term_pure E r
  | _ => false
  end.

Definition first_sign_ok (lhs : expr) (ts : list (bool * expr)) : bool :=
  sign_kept fl ||
  match filter (fun st : bool * expr =>
                  match plug acts (snd st) lhs with Some (r, _) => expr_eqb r lhs | None => false end) ts with
  | [] => true
  | (sg, _) :: _ => sg
  end.

Fixpoint safe_stmt (E : list name) (s : stmt) : bool :=
  let go := (fix go (l : list stmt) : bool := match l with [] => true | x :: r => safe_stmt E x && go r end) in
  stmt_act acts s &&       (* no passive statement: those are hoisted in front (documented limitation #1458) *)
  match s with
  | SAssign x ix e =>
      memn x acts && negb (memn x LV) && pure_l E ix &&
      (is_zero_lit e ||
       (forallb (fun st : bool * expr => lin_term acts (snd st) && term_pure E (snd st)) (split_terms true e)
        && first_sign_ok (lhs_expr x ix) (split_terms true e)))
  | SIf c th el => pure E c && go th && go el
  | SDo x lo hi st body =>
      negb (memn x acts) && memn x LV && negb (memn x E) &&
      pure E lo && pure E hi && pure E st &&
      (unit_step st || lo_paren fl || expr_eqb (capture hi lo) (EBin Sub hi lo)) &&
      (fix go' (l : list stmt) : bool := match l with [] => true | y :: r => safe_stmt (x :: E) y && go' r end) body
  | _ => false
  end.

Fixpoint safe_l (E : list name) (l : list stmt) : bool :=
  match l with [] => true | x :: r => safe_stmt E x && safe_l E r end.
End Safe.

Fixpoint lvars (s : stmt) : list name :=
  let go := (fix go (l : list stmt) : list name := match l with [] => [] | x :: r => lvars x ++ go r end) in
  match s with
  | SIf _ th el => go th ++ go el
  | SDo x _ _ _ body => x :: go body
  | SRegion _ body | SDir _ body => go body
  | _ => []
  end.
Fixpoint lvars_l (l : list stmt) : list name := match l with [] => [] | x :: r => lvars x ++ lvars_l r end.

Definition safe (fl : flags) (acts : list name) (p : list stmt) : bool := safe_l fl acts (lvars_l p) [] p.

(* ------------------------------------------------------------------ harness entry points *)
(* case: flags, active names, preprocessed tangent-linear statements, the implementation's adjoint *)
Definition corr_case := (bool * bool * list name * list stmt * list stmt)%type.
Definition corr_check (c : corr_case) : bool :=
  match c with
  | (lp, sk, acts, tl, impl) =>
      match adj (mkFlags lp sk) acts tl with
      | Some q => stmts_eqb q impl
      | None => false
      end
  end.
