(* C19 — AssignmentTrans: the adjoint of one tangent-linear assignment is its transpose
   (assign_transpose), for every linear assignment shape of the subset. *)
From Coq Require Import List ZArith Bool Lia.
Import ListNotations.
From PV Require Import Fort.Syntax Fort.Sem Fort.Facts C19.Model C19.Algebra C19.Terms.
Open Scope Z_scope.

Definition gT : store -> name -> list expr -> expr -> bool := fun _ _ _ _ => true.
Definition gLT : Z -> Z -> Z -> expr -> bool := fun _ _ _ _ => true.

Lemma run_eq : run = runl gT gLT.
Proof. reflexivity. Qed.

Lemma runl_app gA gL a : forall b s,
  runl gA gL (a ++ b) s = match runl gA gL a s with Some s' => runl gA gL b s' | None => None end.
Proof.
  induction a as [|x a IH]; intros b s; [reflexivity|]. cbn [app runl].
  destruct (run1 gA gL x s); [apply IH | reflexivity].
Qed.

Definition sgn (sg : bool) (k : Z) : Z := if sg then k else - k.

Fixpoint tsum (s : store) (ts : list (bool * expr)) : option Z :=
  match ts with
  | [] => Some 0
  | (sg, t) :: r => match eval s t, tsum s r with Some v, Some w => Some (sgn sg v + w) | _, _ => None end
  end.

Lemma tsum_app s a : forall b, tsum s (a ++ b) =
  match tsum s a, tsum s b with Some v, Some w => Some (v + w) | _, _ => None end.
Proof.
  induction a as [|[sg t] a IH]; intro b; cbn [app tsum].
  - destruct (tsum s b); reflexivity.
  - rewrite IH. destruct (eval s t), (tsum s a), (tsum s b); try reflexivity. f_equal. ring.
Qed.

(* the right-hand side is the signed sum of its terms *)
Lemma split_eval s e : forall sg v, eval s e = Some v -> tsum s (split_terms sg e) = Some (sgn sg v).
Proof.
  induction e; intros sg v H;
    try (cbn [split_terms tsum]; rewrite H; f_equal; ring).
  destruct o; try (cbn [split_terms tsum]; rewrite H; f_equal; ring).
  - cbn [eval] in H. destruct (eval s e1) as [a|]; [|discriminate]. destruct (eval s e2) as [b|]; [|discriminate].
    cbn in H. inversion H; subst. cbn [split_terms]. rewrite tsum_app, (IHe1 sg a eq_refl), (IHe2 sg b eq_refl).
    f_equal. destruct sg; cbn; ring.
  - cbn [eval] in H. destruct (eval s e1) as [a|]; [|discriminate]. destruct (eval s e2) as [b|]; [|discriminate].
    cbn in H. inversion H; subst. cbn [split_terms]. rewrite tsum_app, (IHe1 sg a eq_refl), (IHe2 (negb sg) b eq_refl).
    f_equal. destruct sg; cbn; ring.
Qed.

(* ------------------------------------------------------------------ the algebra *)
Definition step_ax (l0 : loc) (s : store) (kl : Z * loc) : store :=
  upd s (snd kl) (val s (snd kl) + fst kl * val s l0).
Definition apply_ax (l0 : loc) (ax : list (Z * loc)) (s : store) : store := fold_left (step_ax l0) ax s.
Fixpoint sumax (s : store) (ax : list (Z * loc)) : Z :=
  match ax with [] => 0 | kl :: r => fst kl * val s (snd kl) + sumax s r end.

Fixpoint ssum (df : list (expr * bool)) (ks : list Z) : Z :=
  match df, ks with d :: df', k :: ks' => sgn (snd d) k + ssum df' ks' | _, _ => 0 end.

Section Assign.
Variable fl : flags.
Variable acts : list name.
Variable LV : list name.
Variable L : list loc.
Hypothesis NDL : NoDup L.

Notation rel := (rel acts LV).

Lemma apply_ax_sem l0 sx E : forall ax sy,
  (forall k l, In (k, l) ax -> l <> l0 /\ In l L /\ act acts (fst l) = true) ->
  val (apply_ax l0 ax sy) l0 = val sy l0 /\
  dot L sx (apply_ax l0 ax sy) = dot L sx sy + sumax sx ax * val sy l0 /\
  rel E sy (apply_ax l0 ax sy).
Proof.
  induction ax as [|[k l] ax IH]; intros sy H.
  - cbn. split; [reflexivity|]. split; [ring | apply rel_refl].
  - destruct (H k l (or_introl eq_refl)) as [N [I A]].
    destruct (IH (step_ax l0 sy (k, l))) as [V [D R]]; [intros k' l' Hin; apply (H k' l'); right; exact Hin|].
    assert (S0 : val (step_ax l0 sy (k, l)) l0 = val sy l0).
    { unfold step_ax. cbn [fst snd]. apply val_upd_other. intro X. apply N. symmetry. exact X. }
    assert (S1 : dot L sx (step_ax l0 sy (k, l)) = dot L sx sy + val sx l * (k * val sy l0)).
    { unfold step_ax. cbn [fst snd]. rewrite dot_upd_r by assumption. ring. }
    unfold apply_ax in *. cbn [fold_left]. rewrite V, D, S0, S1.
    split; [reflexivity|]. split.
    + cbn [sumax fst snd]. ring.
    + eapply rel_trans; [|exact R]. apply rel_upd_act; [exact A | apply rel_refl].
Qed.

(* ------------------------------------------------------------------ one assignment *)
Section OneAssign.
Variable E : list name.
Variable x : name.
Variable ix : list expr.
Variable sx : store.
Variable vs : list Z.
Hypothesis Hvs : opt_all (map (eval sx) ix) = Some vs.
Hypothesis Hix : pure_l acts LV E ix = true.

Let lhs := lhs_expr x ix.
Let l0 : loc := (x, vs).

Lemma lhs_eval s : rel E sx s -> eval s lhs = Some (val s l0).
Proof.
  intro R. pose proof (pure_l_eval acts LV E ix sx s Hix R) as P. rewrite Hvs in P.
  unfold lhs, lhs_expr, l0. destruct ix as [|e0 r].
  - cbn in Hvs. inversion Hvs. reflexivity.
  - cbn [eval]. rewrite P. reflexivity.
Qed.

Definition selfp (st : bool * expr) : bool :=
  match plug acts (snd st) lhs with Some (r, _) => expr_eqb r lhs | None => false end.

Definition gterm (st : bool * expr) : bool :=
  match plug acts (snd st) lhs with
  | Some (r, _) =>
      match ref_loc sx r with
      | Some l => memloc l L && (expr_eqb r lhs || negb (loc_eqb l l0))
      | None => false
      end
  | None => true
  end.

Definition dfP (d : expr * bool) (k : Z) : Prop :=
  (forall s, rel E sx s -> eval s (fst d) = Some (k * val s l0)) /\ (is_ref (fst d) = true -> k = 1).

Lemma run_assign_ref s r e l v : ref_loc s r = Some l -> eval s e = Some v ->
  forall st, match r with EVar y => Some (SAssign y [] e) | EIdx a ixr => Some (SAssign a ixr e) | _ => None end = Some st ->
  run1 gT gLT st s = Some (upd s l v).
Proof.
  intros Hl He st Hst. destruct r; try discriminate; inversion Hst; subst; cbn [run1 ref_loc] in *.
  - cbn [map opt_all]. rewrite He. inversion Hl. reflexivity.
  - destruct (opt_all (map (eval s) ix0)); [|discriminate]. rewrite He. inversion Hl. reflexivity.
Qed.

Lemma terms_sem : forall ts em df V,
  Forall (fun st : bool * expr => lin_term acts (snd st) = true /\ term_pure acts LV E (snd st) = true) ts ->
  adj_terms acts lhs ts = Some (em, df) ->
  forallb gterm ts = true ->
  tsum sx ts = Some V ->
  exists ax ks,
    (forall k l, In (k, l) ax -> l <> l0 /\ In l L /\ act acts (fst l) = true) /\
    V = sumax sx ax + ssum df ks * val sx l0 /\
    Forall2 dfP df ks /\
    map snd df = map fst (filter selfp ts) /\
    (forall sy, rel E sx sy -> runl gT gLT em sy = Some (apply_ax l0 ax sy)).
Proof.
  induction ts as [|[sg t] rest IH]; intros em df V HF HA HG HT.
  - cbn in HA. inversion HA; subst. cbn in HT. inversion HT; subst.
    exists [], []. split; [intros k l []|]. split; [cbn; ring|]. split; [constructor|].
    split; [reflexivity|]. intros sy _. reflexivity.
  - inversion HF as [|? ? [Hlin Hpure] HF']; subst. cbn [snd] in Hlin, Hpure.
    cbn [adj_terms] in HA. destruct (adj_terms acts lhs rest) as [[em0 df0]|] eqn:HA0; [|discriminate].
    rewrite (lin_has_act acts t Hlin) in HA. cbn [negb] in HA.
    destruct (term_sem acts t lhs Hlin) as [r [t' [Pl [AR [E1 [E2 E3]]]]]]. rewrite Pl in HA.
    cbn [forallb] in HG. apply andb_true_iff in HG as [Hg HG'].
    unfold gterm in Hg. cbn [snd] in Hg. rewrite Pl in Hg.
    cbn [tsum] in HT. destruct (eval sx t) as [v|] eqn:Ev; [|discriminate].
    destruct (tsum sx rest) as [W|] eqn:HW; [|discriminate]. inversion HT; subst V. clear HT.
    destruct (IH em0 df0 W HF' eq_refl HG' eq_refl) as [ax0 [ks0 [Hax [HV [HD [HM HR]]]]]].
    rewrite E1 in Ev. destruct (kof acts sx t) as [k|] eqn:Hk; [|discriminate].
    destruct (eval sx r) as [vr|] eqn:Hvr; [|discriminate]. cbn [mulo] in Ev. inversion Ev; subst v. clear Ev.
    assert (Kof : forall s, rel E sx s -> kof acts s t = Some k).
    { intros s R. rewrite (kof_rel acts LV E t sx s Hlin Hpure R). exact Hk. }
    destruct (ref_loc sx r) as [l|] eqn:Hl; [|discriminate].
    apply andb_true_iff in Hg as [HinL Hal]. apply memloc_In in HinL.
    destruct (expr_eqb r lhs) eqn:Heq.
    + (* a self term: deferred *)
      pose proof (expr_eqb_eq _ _ Heq) as Hr. subst r. inversion HA; subst em df. clear HA.
      exists ax0, (k :: ks0). split; [exact Hax|].
      rewrite (lhs_eval sx (rel_refl _ _ _ _)) in Hvr. inversion Hvr; subst vr.
      split; [cbn [ssum snd]; rewrite HV; destruct sg; cbn [sgn]; ring|].
      split.
      * constructor; [|exact HD]. split; cbn [fst].
        -- intros s R. rewrite E2, (Kof s R), (lhs_eval s R). reflexivity.
        -- intro Hr. specialize (E3 Hr sx). rewrite Hk in E3. inversion E3. reflexivity.
      * split; [|exact HR]. cbn [filter]. unfold selfp at 1. cbn [snd]. rewrite Pl.
        rewrite Heq. cbn [map fst snd]. f_equal. exact HM.
    + (* another reference: an increment is emitted *)
      cbn [orb] in Hal. apply negb_true_iff in Hal.
      assert (Nl : l <> l0). { intro X. subst l. rewrite loc_eqb_refl in Hal. discriminate. }
      pose proof (ref_loc_act acts sx r l AR Hl) as Al.
      pose proof (ref_loc_eval sx r l Hl) as Er. rewrite Hvr in Er. inversion Er; subst vr. clear Er.
      assert (Hst : exists st, em = st :: em0 /\ df = df0 /\
                match r with EVar y => Some (SAssign y [] (EBin (opb sg) r t'))
                           | EIdx a ixr => Some (SAssign a ixr (EBin (opb sg) r t')) | _ => None end = Some st).
      { destruct r; try discriminate; inversion HA; subst; eexists; repeat split. }
      destruct Hst as [st [-> [-> Hst]]].
      exists ((sgn sg k, l) :: ax0), ks0.
      split.
      { intros k' l' [X | X]; [inversion X; subst; auto | apply (Hax k' l' X)]. }
      split; [cbn [sumax fst snd]; rewrite HV; destruct sg; cbn [sgn]; ring|].
      split; [exact HD|]. split.
      { cbn [filter]. unfold selfp at 1. cbn [snd]. rewrite Pl, Heq. exact HM. }
      intros sy R. cbn [runl].
      assert (Hl' : ref_loc sy r = Some l).
      { rewrite (ref_loc_rel acts LV E sx sy r AR (plug_ref_pure acts LV E t lhs r t' Hlin Hpure Pl) R). exact Hl. }
      assert (Ee : eval sy (EBin (opb sg) r t') = Some (val sy l + sgn sg k * val sy l0)).
      { cbn [eval]. rewrite (ref_loc_eval sy r l Hl'), E2, (Kof sy R), (lhs_eval sy R). cbn [mulo].
        destruct sg; cbn [opb eval_bin sgn]; f_equal; ring. }
      rewrite (run_assign_ref sy r _ l _ Hl' Ee st Hst).
      change (apply_ax l0 ((sgn sg k, l) :: ax0) sy) with (apply_ax l0 ax0 (step_ax l0 sy (sgn sg k, l))).
      apply HR. unfold step_ax. cbn [fst snd]. apply rel_upd_act; assumption.
Qed.

Lemma fold_eval s w : forall rest ks acc A,
  rel E sx s -> w = val s l0 ->
  Forall2 dfP rest ks -> eval s acc = Some (A * w) ->
  eval s (fold_left (fun a (d : expr * bool) => EBin (opb (snd d)) a (fst d)) rest acc) = Some ((A + ssum rest ks) * w).
Proof.
  intros rest ks acc A R Hw HF. revert acc A. induction HF as [|d k rest ks [Hd _] _ IH]; intros acc A Ha.
  - cbn. rewrite Ha. f_equal. ring.
  - cbn [fold_left ssum]. rewrite (IH (EBin (opb (snd d)) acc (fst d)) (A + sgn (snd d) k)).
    + f_equal. ring.
    + cbn [eval]. rewrite Ha, (Hd s R), <- Hw. destruct (snd d); cbn [opb eval_bin sgn]; f_equal; ring.
Qed.

Lemma finish_sem df ks sy :
  Forall2 dfP df ks ->
  (sign_kept fl || match df with [] => true | d :: _ => snd d end = true) ->
  In l0 L -> act acts x = true -> rel E sx sy ->
  exists sy', runl gT gLT (finish fl x ix df) sy = Some sy' /\
    dot L sx sy' = dot L sx sy + val sx l0 * (ssum df ks * val sy l0 - val sy l0) /\ rel E sy sy'.
Proof.
  intros HF Hs Hin Ax R.
  assert (P : opt_all (map (eval sy) ix) = Some vs). { rewrite (pure_l_eval acts LV E ix sx sy Hix R). exact Hvs. }
  assert (Upd : forall v, dot L sx (upd sy l0 v) = dot L sx sy + val sx l0 * (v - val sy l0) /\ rel E sy (upd sy l0 v)).
  { intro v. split; [apply dot_upd_r; assumption | apply rel_upd_act; [exact Ax | apply rel_refl]]. }
  destruct HF as [|[t sg] k rest ks' [Hd Hone] HF'].
  - exists (upd sy l0 0). cbn [finish runl run1 eval]. rewrite P. unfold gT at 1.
    destruct (Upd 0) as [U1 U2]. split; [reflexivity|]. split; [rewrite U1; cbn [ssum]; ring | exact U2].
  - cbn [fst snd] in *. cbn [finish].
    destruct (match rest with [] => is_ref t && (sg || negb (sign_kept fl)) | _ :: _ => false end) eqn:C.
    + destruct rest; [|discriminate]. inversion HF'; subst ks'.
      apply andb_true_iff in C as [C1 C2]. rewrite (Hone C1).
      assert (sg = true). { destruct sg; [reflexivity|]. destruct (sign_kept fl); cbn in *; discriminate. }
      subst sg. exists sy. split; [reflexivity|]. split; [cbn [ssum sgn snd]; ring | apply rel_refl].
    + set (t0 := if sign_kept fl && negb sg then EUn Neg t else t).
      assert (E0 : eval sy t0 = Some (sgn sg k * val sy l0)).
      { unfold t0. destruct sg.
        - rewrite andb_false_r. cbn [sgn]. apply Hd, R.
        - destruct (sign_kept fl); [|cbn in Hs; discriminate]. cbn [andb negb eval].
          rewrite (Hd sy R). cbn [option_map eval_un sgn]. f_equal. ring. }
      pose proof (fold_eval sy (val sy l0) rest ks' t0 (sgn sg k) R eq_refl HF' E0) as Ef.
      exists (upd sy l0 ((sgn sg k + ssum rest ks') * val sy l0)). cbn [runl run1]. rewrite P, Ef. unfold gT at 1.
      destruct (Upd ((sgn sg k + ssum rest ks') * val sy l0)) as [U1 U2].
      split; [reflexivity|]. split; [rewrite U1; cbn [ssum snd]; ring | exact U2].
Qed.

End OneAssign.

(* ------------------------------------------------------------------ assign_adjoint_transpose *)
Theorem assign_transpose E x ix e q sx sy sx' :
  safe_stmt fl acts LV E (SAssign x ix e) = true ->
  adj_assign fl acts x ix e = Some q ->
  rel E sx sy ->
  run1 (guardA acts L) guardL (SAssign x ix e) sx = Some sx' ->
  exists sy', run q sy = Some sy' /\ dot L sx' sy = dot L sx sy' /\ rel E sx sx' /\ rel E sy sy'.
Proof.
  intros HS HA R HR. rewrite run_eq.
  cbn [safe_stmt] in HS. apply andb_true_iff in HS as [_ HS]. repeat (apply andb_true_iff in HS as [HS ?]).
  rename H into Hbody, H0 into Hix, H1 into HnLV. rename HS into Hact.
  assert (Ax : act acts x = true) by exact Hact.
  cbn [run1] in HR. destruct (opt_all (map (eval sx) ix)) as [vs|] eqn:Hvs; [|discriminate].
  destruct (eval sx e) as [v|] eqn:Hv; [|discriminate].
  destruct (guardA acts L sx x ix e) eqn:HG; [|discriminate]. inversion HR; subst sx'. clear HR.
  unfold guardA in HG. rewrite Hvs in HG. apply andb_true_iff in HG as [Hin HG]. apply memloc_In in Hin.
  assert (Rx : rel E sx (upd sx (x, vs) v)) by (apply rel_upd_act; [exact Ax | apply rel_refl]).
  unfold adj_assign in HA. rewrite Ax in HA. cbn [negb orb] in HA.
  destruct (has_act_l acts ix) eqn:Hai; [discriminate|].
  assert (P : opt_all (map (eval sy) ix) = Some vs). { rewrite (pure_l_eval acts LV E ix sx sy Hix R). exact Hvs. }
  destruct (is_zero_lit e) eqn:Hz.
  - (* x(ix) = 0.0 *)
    inversion HA; subst q. destruct e; try discriminate. destruct z; try discriminate.
    cbn in Hv. inversion Hv; subst v.
    exists (upd sy (x, vs) 0). cbn [runl run1 eval]. rewrite P. unfold gT at 1.
    split; [reflexivity|]. split.
    + rewrite dot_upd_l, dot_upd_r by assumption. ring.
    + split; [exact Rx | apply rel_upd_act; [exact Ax | apply rel_refl]].
  - cbn [orb] in Hbody. apply andb_true_iff in Hbody as [Hterms Hsign].
    destruct (negb (forallb (fun st : bool * expr => lin_term acts (snd st)) (split_terms true e))); [discriminate|].
    destruct (adj_terms acts (lhs_expr x ix) (split_terms true e)) as [[em df]|] eqn:HT; [|discriminate].
    inversion HA; subst q. clear HA.
    pose proof (split_eval sx e true v Hv) as Hsum. cbn [sgn] in Hsum.
    assert (HF : Forall (fun st : bool * expr => lin_term acts (snd st) = true /\ term_pure acts LV E (snd st) = true)
                        (split_terms true e)).
    { apply Forall_forall. intros st Hst. rewrite forallb_forall in Hterms. apply andb_true_iff, Hterms, Hst. }
    destruct (terms_sem E x ix sx vs Hvs Hix (split_terms true e) em df v HF HT HG Hsum)
      as [ax [ks [Hax [HV [HD [HM HRun]]]]]].
    destruct (apply_ax_sem (x, vs) sx E ax sy Hax) as [V1 [D1 R1]].
    assert (Hs : sign_kept fl || match df with [] => true | d :: _ => snd d end = true).
    { unfold first_sign_ok in Hsign. destruct (sign_kept fl); [reflexivity|]. cbn [orb] in *.
      destruct df as [|d df']; [reflexivity|]. cbn [map] in HM. unfold selfp in HM.
      destruct (filter _ (split_terms true e)) as [|[sg0 t0] fr]; [discriminate|].
      cbn [map fst] in HM. inversion HM. congruence. }
    destruct (finish_sem E x ix sx vs Hvs Hix df ks (apply_ax (x, vs) ax sy) HD Hs Hin Ax (rel_trans _ _ _ _ _ _ R R1))
      as [sy' [F1 [F2 F3]]].
    exists sy'. rewrite runl_app, (HRun sy R). split; [exact F1|]. split.
    + rewrite dot_upd_l by assumption. rewrite F2, D1, V1, HV. ring.
    + split; [exact Rx | eapply rel_trans; eassumption].
Qed.

End Assign.
