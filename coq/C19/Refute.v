(* C19 — concrete witnesses (vm_compute) on the faithful model: where the unchanged code's adjoint is
   not the transpose, and concrete instances satisfying the hypotheses of the partial theorem. *)
From Coq Require Import List ZArith Bool Lia.
Import ListNotations.
From PV Require Import Fort.Syntax Fort.Sem C19.Model C19.Theorems.
Open Scope Z_scope.

(* names: a=0 b=1 c=2 n=6 kk=7 i=9 *)
Definition a_ : name := 0%nat. Definition b_ : name := 1%nat. Definition c_ : name := 2%nat.
Definition w_ : name := 3%nat. Definition s_ : name := 4%nat. Definition n_ : name := 6%nat.
Definition kk_ : name := 7%nat. Definition m_ : name := 8%nat. Definition i_ : name := 9%nat.
Definition j_ : name := 10%nat.
Definition unchanged : flags := mkFlags false false.

Definition violates (L : list loc) (p q : list stmt) (sx sy : store) : bool :=
  match run p sx, run q sy with
  | Some sx', Some sy' => negb (dot L sx' sy =? dot L sx sy')
  | _, _ => false
  end.

Lemma violates_spec L p q sx sy : violates L p q sx sy = true ->
  exists sx' sy', run p sx = Some sx' /\ run q sy = Some sy' /\ dot L sx' sy <> dot L sx sy'.
Proof.
  unfold violates. destruct (run p sx) as [sx'|]; [|discriminate]. destruct (run q sy) as [sy'|]; [|discriminate].
  intro H. exists sx', sy'. split; [reflexivity|]. split; [reflexivity|].
  apply negb_true_iff, Z.eqb_neq in H. exact H.
Qed.

Definition elems (names : list name) (idx : list Z) : list loc :=
  flat_map (fun a => map (fun i => (a, [i])) idx) names.

Fixpoint nodupb (L : list loc) : bool :=
  match L with [] => true | x :: r => negb (memloc x r) && nodupb r end.

Lemma nodupb_NoDup L : nodupb L = true -> NoDup L.
Proof.
  induction L as [|x L IH]; intro H; [constructor|]. cbn [nodupb] in H. apply andb_true_iff in H as [H1 H2].
  constructor; [|apply IH, H2]. intro I. apply Algebra.memloc_In in I. rewrite I in H1. discriminate.
Qed.

(* --- 1. do i = kk+1, n, 3 ; a(i) = 2*b(i) + 3*c(i) ; n = 7, kk = 0 *)
Definition p_mod : list stmt :=
  [SDo i_ (EBin Add (EVar kk_) (ELit 1)) (EVar n_) (ELit 3)
     [SAssign a_ [EVar i_] (EBin Add (EBin Mul (ELit 2) (EIdx b_ [EVar i_])) (EBin Mul (ELit 3) (EIdx c_ [EVar i_])))]].
Definition L_mod : list loc := elems [0; 1; 2]%nat [1; 2; 3; 4; 5; 6; 7].
Definition sx_mod : store := store_of [((6%nat, []), 7); ((7%nat, []), 0); ((1%nat, [1]), 1)] [].
Definition sy_mod : store := store_of [((6%nat, []), 7); ((7%nat, []), 0); ((0%nat, [1]), 1)] [].

Theorem refuted_mod_string :
  exists q, adj unchanged [0; 1; 2]%nat p_mod = Some q /\
    (* the reversed loop starts at n - MOD(n - kk + 1, 3) *)
    q = [SDo i_ (EBin Sub (EVar n_) (EIntr IMod [EBin Add (EBin Sub (EVar n_) (EVar kk_)) (ELit 1); ELit 3]))
           (EBin Add (EVar kk_) (ELit 1)) (EUn Neg (ELit 3))
           [SAssign b_ [EVar i_] (EBin Add (EIdx b_ [EVar i_]) (EBin Mul (ELit 2) (EIdx a_ [EVar i_])));
            SAssign c_ [EVar i_] (EBin Add (EIdx c_ [EVar i_]) (EBin Mul (ELit 3) (EIdx a_ [EVar i_])));
            SAssign a_ [EVar i_] (ELit 0)]] /\
    violates L_mod p_mod q sx_mod sy_mod = true /\
    (* inside the guarded semantics; only the parenthesisation is missing *)
    (exists sx', runG [0; 1; 2]%nat L_mod p_mod sx_mod = Some sx') /\
    safe unchanged [0; 1; 2]%nat p_mod = false /\ safe (mkFlags true false) [0; 1; 2]%nat p_mod = true.
Proof.
  eexists. split; [vm_compute; reflexivity|]. split; [reflexivity|]. split; [vm_compute; reflexivity|].
  split; [|split; vm_compute; reflexivity].
  destruct (runG [0; 1; 2]%nat L_mod p_mod sx_mod) eqn:E; [eexists; reflexivity|].
  exfalso. assert (X : match runG [0; 1; 2]%nat L_mod p_mod sx_mod with Some _ => true | None => false end = true)
    by (vm_compute; reflexivity). rewrite E in X. discriminate.
Qed.

(* --- 2. do i = 5, 4, 2 ; a(i) = a(i) + 3*c(i) : the adjoint runs once *)
Definition p_empty : list stmt :=
  [SDo i_ (ELit 5) (ELit 4) (ELit 2)
     [SAssign a_ [EVar i_] (EBin Add (EIdx a_ [EVar i_]) (EBin Mul (ELit 3) (EIdx c_ [EVar i_])))]].
Definition L_empty : list loc := elems [0; 2]%nat [4; 5].
Definition sx_empty : store := store_of [((2%nat, [5]), 1)] [].
Definition sy_empty : store := store_of [((0%nat, [5]), 1)] [].

Theorem refuted_empty_loop :
  exists q, adj unchanged [0; 2]%nat p_empty = Some q /\
    violates L_empty p_empty q sx_empty sy_empty = true /\
    safe unchanged [0; 2]%nat p_empty = true /\
    (* excluded from the partial theorem by the loop guard only *)
    runG [0; 2]%nat L_empty p_empty sx_empty = None /\
    (* and not repaired by the parenthesisation / sign fixes *)
    adj (mkFlags true true) [0; 2]%nat p_empty = Some q.
Proof.
  eexists. split; [vm_compute; reflexivity|]. repeat split; vm_compute; reflexivity.
Qed.

(* --- 3. c(1) = b(1) - 2*c(1) : the sign of the first deferred term is dropped *)
Definition p_sign : list stmt :=
  [SAssign c_ [ELit 1] (EBin Sub (EIdx b_ [ELit 1]) (EBin Mul (ELit 2) (EIdx c_ [ELit 1])))].
Definition L_sign : list loc := elems [1; 2]%nat [1].
Definition s_sign : store := store_of [((2%nat, [1]), 1)] [].

Theorem refuted_self_sign :
  exists q, adj unchanged [1; 2]%nat p_sign = Some q /\
    q = [SAssign b_ [ELit 1] (EBin Add (EIdx b_ [ELit 1]) (EIdx c_ [ELit 1]));
         SAssign c_ [ELit 1] (EBin Mul (ELit 2) (EIdx c_ [ELit 1]))] /\
    violates L_sign p_sign q s_sign s_sign = true /\
    (exists sx', runG [1; 2]%nat L_sign p_sign s_sign = Some sx') /\
    safe unchanged [1; 2]%nat p_sign = false /\ safe (mkFlags false true) [1; 2]%nat p_sign = true.
Proof.
  eexists. split; [vm_compute; reflexivity|]. split; [reflexivity|]. split; [vm_compute; reflexivity|].
  split; [|split; vm_compute; reflexivity].
  destruct (runG [1; 2]%nat L_sign p_sign s_sign) eqn:E; [eexists; reflexivity|].
  exfalso. assert (X : match runG [1; 2]%nat L_sign p_sign s_sign with Some _ => true | None => false end = true)
    by (vm_compute; reflexivity). rewrite E in X. discriminate.
Qed.

(* --- 4. do i = 1, n ; a(i) = a(kk+1) + b(i) ; n = 2, kk = 0 : a(i) and a(kk+1) alias at i = 1 *)
Definition p_alias : list stmt :=
  [SDo i_ (ELit 1) (EVar n_) (ELit 1)
     [SAssign a_ [EVar i_] (EBin Add (EIdx a_ [EBin Add (EVar kk_) (ELit 1)]) (EIdx b_ [EVar i_]))]].
Definition L_alias : list loc := elems [0; 1]%nat [1; 2].
Definition s_alias : store := store_of [((6%nat, []), 2); ((7%nat, []), 0); ((0%nat, [1]), 1)] [].

Theorem refuted_alias :
  exists q, adj unchanged [0; 1]%nat p_alias = Some q /\
    violates L_alias p_alias q s_alias s_alias = true /\
    safe (mkFlags true true) [0; 1]%nat p_alias = true /\
    runG [0; 1]%nat L_alias p_alias s_alias = None.
Proof.
  eexists. split; [vm_compute; reflexivity|]. repeat split; vm_compute; reflexivity.
Qed.

(* ------------------------------------------------------------------ non-vacuity of the partial theorem *)
(* do i = n, 1, -2 ; a(i+1) = a(i+1) + 2*a(i) - w*b(i) (w = name 3 passive) with an IF and a nested loop *)
Definition p_ok : list stmt :=
  [SDo i_ (EVar n_) (ELit 1) (EUn Neg (ELit 2))
     [SAssign a_ [EBin Add (EVar i_) (ELit 1)]
        (EBin Sub (EBin Add (EIdx a_ [EBin Add (EVar i_) (ELit 1)]) (EBin Mul (ELit 2) (EIdx a_ [EVar i_])))
                  (EBin Mul (EIdx w_ [EVar i_]) (EIdx b_ [EVar i_])));
      SIf (EBin Gt (EVar i_) (ELit 2))
        [SAssign s_ [] (EBin Add (EVar s_) (EIdx b_ [EVar i_]))]
        [SDo j_ (EVar i_) (ELit 5) (ELit 3) [SAssign b_ [EVar j_] (EBin Mul (EVar m_) (EIdx a_ [EVar j_]))]]]].
Definition acts_ok : list name := [0; 1; 4]%nat.
Definition L_ok : list loc := (4%nat, []) :: elems [0; 1]%nat [0; 1; 2; 3; 4; 5; 6; 7; 8].
Definition sx_ok : store :=
  store_of [((6%nat, []), 6); ((8%nat, []), -3); ((3%nat, [2]), 2); ((3%nat, [4]), -1); ((3%nat, [6]), 5);
            ((0%nat, [1]), 1); ((0%nat, [2]), -2); ((0%nat, [4]), 3); ((0%nat, [6]), 1); ((0%nat, [7]), 2);
            ((1%nat, [2]), 4); ((1%nat, [4]), 1); ((1%nat, [6]), -1); ((4%nat, []), 2)] [].
(* the vector y: other active data, same passive data *)
Definition sy_ok : store :=
  upd (upd (upd (upd (upd (upd (upd (upd (upd sx_ok (0%nat, [1]) 0) (0%nat, [2]) 0) (0%nat, [3]) 2) (0%nat, [5]) (-1))
       (0%nat, [7]) 1) (1%nat, [2]) 1) (1%nat, [5]) 3) (1%nat, [4]) 0) (4%nat, []) (-2).

Example nonvacuous :
  NoDup L_ok /\ (forall l, In l L_ok -> act acts_ok (fst l) = true) /\
  safe unchanged acts_ok p_ok = true /\
  (exists q, adj unchanged acts_ok p_ok = Some q) /\
  same_passive acts_ok (lvars_l p_ok) sx_ok sy_ok /\
  (exists sx', runG acts_ok L_ok p_ok sx_ok = Some sx' /\ val sx' (0%nat, [7]) <> val sx_ok (0%nat, [7])).
Proof.
  split; [apply nodupb_NoDup; vm_compute; reflexivity|].
  split.
  { assert (X : forallb (fun l => act acts_ok (fst l)) L_ok = true) by (vm_compute; reflexivity).
    rewrite forallb_forall in X. exact X. }
  split; [vm_compute; reflexivity|].
  split; [eexists; vm_compute; reflexivity|].
  split.
  { apply same_passive_rel. unfold sy_ok. repeat (apply Terms.rel_upd_act; [reflexivity|]). apply Terms.rel_refl. }
  destruct (runG acts_ok L_ok p_ok sx_ok) as [sx'|] eqn:E.
  - exists sx'. split; [reflexivity|].
    assert (X : match runG acts_ok L_ok p_ok sx_ok with
                | Some s => negb (val s (0%nat, [7]) =? val sx_ok (0%nat, [7])) | None => false end = true)
      by (vm_compute; reflexivity).
    rewrite E in X. apply negb_true_iff, Z.eqb_neq in X. exact X.
  - exfalso. assert (X : match runG acts_ok L_ok p_ok sx_ok with Some _ => true | None => false end = true)
      by (vm_compute; reflexivity). rewrite E in X. discriminate.
Qed.
