(* C19 — the reference semantics [run] of the linear subset is the shared MiniFortran semantics:
   every [run] is an execution of Fort.Sem.exec (some fuel, normal completion, the same final store). *)
From Coq Require Import List ZArith Bool Lia.
Import ListNotations.
From PV Require Import Fort.Syntax Fort.Sem Fort.Facts C19.Model C19.Assign C19.Main.
Open Scope Z_scope.

Definition okrun (body : list stmt) : Prop :=
  forall s s', runl gT gLT body s = Some s' -> exists f tr, exec f body s = Ok s' tr CNormal.

Lemma loop_exec body x l t : okrun body ->
  forall n k s s1,
  iter (runl gT gLT body) x (map (fun i => l + i * t) (zseq0 k n)) s = Some s1 ->
  exists F tr, do_loop (exec F body) x l t n k s = Ok (upd s1 (x, []) (l + (k + Z.of_nat n) * t)) tr CNormal.
Proof.
  intros HB. induction n as [|n IH]; intros k s s1 H.
  - cbn in H. inversion H; subst. exists 0%nat. eexists. cbn [do_loop Z.of_nat].
    replace (k + 0) with k by lia. reflexivity.
  - cbn [zseq0 map iter] in H.
    destruct (runl gT gLT body (upd s (x, []) (l + k * t))) as [s2|] eqn:Hb; [|discriminate].
    destruct (HB _ _ Hb) as [f1 [tr1 E1]]. destruct (IH (k + 1) s2 s1 H) as [F2 [tr2 E2]].
    exists (Nat.max f1 F2). eexists.
    assert (E1' : exec (Nat.max f1 F2) body (upd s (x, []) (l + k * t)) = Ok s2 tr1 CNormal).
    { eapply exec_mono; [exact E1 | discriminate | lia]. }
    rewrite (do_loop_S_normal _ x l t n k s s2 tr1 CNormal E1' (or_introl eq_refl)).
    assert (E2' : do_loop (exec (Nat.max f1 F2) body) x l t n (k + 1) s2
                  = Ok (upd s1 (x, []) (l + (k + 1 + Z.of_nat n) * t)) tr2 CNormal).
    { eapply do_loop_mono_exec; [exact E2 | discriminate | lia]. }
    rewrite E2'. cbn [prepend]. replace (k + 1 + Z.of_nat n) with (k + Z.of_nat (S n)) by lia. reflexivity.
Qed.

Lemma list_exec p : Forall (fun s => forall st st', run1 gT gLT s st = Some st' ->
                                   exists f tr, exec f [s] st = Ok st' tr CNormal) p -> okrun p.
Proof.
  induction 1 as [|s p Hs _ IH]; intros st st' H.
  - cbn in H. inversion H; subst. exists 1%nat, []. reflexivity.
  - cbn [runl] in H. destruct (run1 gT gLT s st) as [st1|] eqn:H1; [|discriminate].
    destruct (Hs _ _ H1) as [f1 [tr1 E1]]. destruct (IH _ _ H) as [f2 [tr2 E2]].
    exists (f1 + f2)%nat, (tr1 ++ tr2). apply (exec_cons_ok f1 f2 s p st st1 tr1 st' tr2 CNormal E1 E2).
Qed.

Lemma stmt_exec : forall s st st', run1 gT gLT s st = Some st' -> exists f tr, exec f [s] st = Ok st' tr CNormal.
Proof.
  induction s using stmt_ind'; intros a0 a' HR; try discriminate.
  - cbn [run1] in HR. destruct (opt_all (map (eval a0) ix)) as [vs|] eqn:E1; [|discriminate].
    destruct (eval a0 e) as [v|] eqn:E2; [|discriminate]. unfold gT in HR. inversion HR; subst.
    exists 2%nat. eexists. apply (exec_assign 0 x ix e a0 vs v E1 E2).
  - rewrite run1_if in HR. destruct (eval a0 c) as [v|] eqn:Ec; [|discriminate].
    assert (B : exists f tr, exec f (if v =? 0 then el else th) a0 = Ok a' tr CNormal).
    { destruct (v =? 0); [apply (list_exec el H0), HR | apply (list_exec th H), HR]. }
    destruct B as [f [tr E]]. exists (S (S f)). eexists. rewrite (exec_if f c th el a0 v Ec).
    assert (E' : exec (S f) (if v =? 0 then el else th) a0 = Ok a' tr CNormal).
    { eapply exec_mono; [exact E | discriminate | lia]. }
    rewrite E'. reflexivity.
  - rewrite run1_do in HR. destruct (eval a0 lo) as [l|] eqn:El; [|discriminate].
    destruct (eval a0 hi) as [h|] eqn:Eh; [|discriminate]. destruct (eval a0 st) as [t|] eqn:Et; [|discriminate].
    destruct ((t =? 0) || negb (gLT l h t st)) eqn:Q; [discriminate|]. apply orb_false_iff in Q as [Q _].
    apply Z.eqb_neq in Q.
    destruct (iter (runl gT gLT body) x (ivals0 l t (trip_count l h t)) a0) as [s1|] eqn:Hi; [|discriminate].
    inversion HR; subst a'. clear HR.
    destruct (loop_exec body x l t (list_exec body H) (trip_count l h t) 0 a0 s1 Hi) as [F [tr E]].
    exists (S (S F)). eexists. rewrite (exec_do F x lo hi st body a0 l h t El Eh Et Q).
    assert (E' : do_loop (exec (S F) body) x l t (trip_count l h t) 0 a0
                 = Ok (upd s1 (x, []) (l + (0 + Z.of_nat (trip_count l h t)) * t)) tr CNormal).
    { eapply do_loop_mono_exec; [exact E | discriminate | lia]. }
    rewrite E'. cbn [prepend]. replace (0 + Z.of_nat (trip_count l h t)) with (Z.of_nat (trip_count l h t)) by lia.
    reflexivity.
Qed.

Theorem run_exec p s s' : run p s = Some s' -> exists f tr, exec f p s = Ok s' tr CNormal.
Proof.
  rewrite run_eq. apply list_exec. apply Forall_forall. intros st _. apply stmt_exec.
Qed.
