(* C19 — linear terms: a term accepted by AssignmentTrans.validate evaluates to (coefficient) * (its
   active reference), the coefficient depending on passive data only; the relation [rel] between the
   store of the tangent-linear run and the store of the adjoint run. *)
From Coq Require Import List ZArith Bool Lia.
Import ListNotations.
From PV Require Import Fort.Syntax Fort.Sem Fort.Facts C19.Model C19.Algebra.
Open Scope Z_scope.

Lemma names_go_l l :
  (fix go (l : list expr) : list name := match l with [] => [] | x :: r => names x ++ go r end) l = names_l l.
Proof. induction l as [|x l IH]; [reflexivity|]. cbn [names_l]. rewrite <- IH. reflexivity. Qed.

Lemma names_EIdx a ix : names (EIdx a ix) = a :: names_l ix.
Proof. cbn [names]. rewrite names_go_l. reflexivity. Qed.
Lemma names_EIntr f args : names (EIntr f args) = names_l args.
Proof. cbn [names]. rewrite names_go_l. reflexivity. Qed.

Lemma in_names_l n ix : In n (names_l ix) <-> exists e, In e ix /\ In n (names e).
Proof.
  induction ix as [|e ix IH]; cbn [names_l].
  - split; [intros [] | intros [e [[] _]]].
  - rewrite in_app_iff, IH. split.
    + intros [H | [e' [H1 H2]]]; [exists e; split; [left; reflexivity | exact H] | exists e'; split; [right|]; assumption].
    + intros [e' [[H1 | H1] H2]]; [subst; left; exact H2 | right; exists e'; split; assumption].
Qed.

(* every location read by an expression carries one of its names *)
Lemma ereads_names s e : forall l, In l (ereads s e) -> In (fst l) (names e).
Proof.
  induction e using expr_ind'; intros l Hl; cbn [ereads] in Hl.
  - destruct Hl.
  - destruct Hl as [E | []]. subst. left. reflexivity.
  - rewrite names_EIdx. apply in_app_or in Hl as [Hl | Hl].
    + right. apply in_flat_map in Hl as [e [H1 H2]]. apply in_names_l. exists e. split; [exact H1|].
      rewrite Forall_forall in H. apply (H e H1 l H2).
    + destruct (opt_all (map (eval s) ix)); [|destruct Hl]. destruct Hl as [E | []]. subst. left. reflexivity.
  - apply IHe, Hl.
  - cbn [names]. apply in_or_app. apply in_app_or in Hl as [Hl | Hl]; [left; apply IHe1 | right; apply IHe2]; exact Hl.
  - rewrite names_EIntr. rewrite Forall_forall in H.
    assert (G : forall l0 : list expr, (forall e, In e l0 -> In e args) -> In l (flat_map (ereads s) l0) -> In (fst l) (names_l args)).
    { intros l0 Sub Hin. apply in_flat_map in Hin as [e [H1 H2]]. apply in_names_l. exists e.
      split; [apply Sub, H1 | apply (H e (Sub e H1) l H2)]. }
    destruct (is_inquiry f).
    + destruct args as [|a0 r]; [destruct Hl|]. apply (G r); [intros e He; right; exact He | exact Hl].
    + apply (G args); [auto | exact Hl].
Qed.

Section Terms.
Variable acts : list name.
Variable LV : list name.

Notation act := (act acts).
Notation has_act := (has_act acts).
Notation has_act_l := (has_act_l acts).
Notation lin_term := (lin_term acts).
Notation plug := (plug acts).

Definition vis (E : list name) (n : name) : bool :=
  negb (memn n acts) && (memn n E || negb (memn n LV)).

(* the locations on which the two runs agree: all passive data except the scalar location of a DO
   variable that is not in scope *)
Definition visl (E : list name) (l : loc) : bool :=
  negb (memn (fst l) acts) &&
  (memn (fst l) E || negb (memn (fst l) LV) || negb (match snd l with [] => true | _ => false end)).

Lemma vis_visl E l : vis E (fst l) = true -> visl E l = true.
Proof.
  unfold vis, visl. intro H. apply andb_true_iff in H as [H1 H2]. rewrite H1. cbn [andb].
  rewrite H2. reflexivity.
Qed.

(* same array bounds, same passive data (DO variables that are not in scope excepted) *)
Definition rel (E : list name) (s1 s2 : store) : Prop :=
  bnd s1 = bnd s2 /\ forall l, visl E l = true -> val s1 l = val s2 l.

Lemma rel_refl E s : rel E s s.
Proof. split; reflexivity. Qed.
Lemma rel_sym E s1 s2 : rel E s1 s2 -> rel E s2 s1.
Proof. intros [H1 H2]. split; [symmetry; exact H1 | intros l Hl; symmetry; apply H2, Hl]. Qed.
Lemma rel_trans E s1 s2 s3 : rel E s1 s2 -> rel E s2 s3 -> rel E s1 s3.
Proof.
  intros [H1 H2] [H3 H4]. split; [congruence | intros l Hl; rewrite H2, H4 by exact Hl; reflexivity].
Qed.

Lemma visl_not_act E l : visl E l = true -> act (fst l) = false.
Proof. unfold visl, Model.act. intro H. apply andb_true_iff in H as [H _]. apply negb_true_iff in H. exact H. Qed.

Lemma rel_upd_act E s1 s2 l v : act (fst l) = true -> rel E s1 s2 -> rel E s1 (upd s2 l v).
Proof.
  intros A [H1 H2]. split; [rewrite bnd_upd; exact H1|]. intros l' Hl.
  rewrite val_upd_other; [apply H2, Hl|]. intro E'. subst. apply visl_not_act in Hl. congruence.
Qed.

Lemma rel_upd_both E s1 s2 l v : rel E s1 s2 -> rel E (upd s1 l v) (upd s2 l v).
Proof.
  intros [H1 H2]. split; [rewrite !bnd_upd; exact H1|]. intros l' Hl. rewrite !val_upd.
  destruct (loc_eq_dec l' l); [reflexivity | apply H2, Hl].
Qed.

(* entering a DO on x: both runs set x to the same value *)
Lemma rel_enter E s1 s2 x v : rel E s1 s2 -> rel (x :: E) (upd s1 (x, []) v) (upd s2 (x, []) v).
Proof.
  intros [H1 H2]. split; [rewrite !bnd_upd; exact H1|]. intros l Hl. rewrite !val_upd.
  destruct (loc_eq_dec l (x, [])) as [e|n]; [reflexivity|]. apply H2.
  unfold visl in *. apply andb_true_iff in Hl as [Hl1 Hl2]. rewrite Hl1. cbn [andb].
  destruct l as [y iy]. cbn [fst snd] in *. unfold memn in Hl2. cbn [existsb] in Hl2.
  destruct (Nat.eqb y x) eqn:Q.
  - apply Nat.eqb_eq in Q. subst y. destruct iy; [exfalso; apply n; reflexivity|]. apply orb_true_r.
  - cbn [orb] in Hl2. exact Hl2.
Qed.

(* leaving it: the scalar location of an out-of-scope DO variable is not compared *)
Lemma rel_invis E s x v : memn x LV = true -> memn x E = false -> rel E s (upd s (x, []) v).
Proof.
  intros H1 H2. split; [rewrite bnd_upd; reflexivity|]. intros l Hl. rewrite val_upd_other; [reflexivity|].
  intro Q. subst l. unfold visl in Hl. cbn [fst snd] in Hl. rewrite H1, H2 in Hl.
  rewrite andb_false_r in Hl. discriminate.
Qed.

Lemma rel_weaken E x s1 s2 : rel (x :: E) s1 s2 -> rel E s1 s2.
Proof.
  intros [H1 H2]. split; [exact H1|]. intros l Hl. apply H2. unfold visl in *.
  apply andb_true_iff in Hl as [Hl1 Hl2]. rewrite Hl1. cbn [andb]. unfold memn in *. cbn [existsb].
  destruct (Nat.eqb (fst l) x), (existsb (Nat.eqb (fst l)) E); cbn [orb] in *; try reflexivity; exact Hl2.
Qed.

Lemma pure_eval E e s1 s2 : pure acts LV E e = true -> rel E s1 s2 -> eval s2 e = eval s1 e.
Proof.
  intros P [H1 H2]. apply eval_frame; [symmetry; exact H1|]. intros l Hl. symmetry. apply H2.
  apply vis_visl. apply ereads_names in Hl. unfold pure in P. rewrite forallb_forall in P. apply (P _ Hl).
Qed.

Lemma pure_l_eval E ix s1 s2 : pure_l acts LV E ix = true -> rel E s1 s2 ->
  opt_all (map (eval s2) ix) = opt_all (map (eval s1) ix).
Proof.
  intros P R. apply opt_all_map_ext. intros e He. unfold pure_l in P. rewrite forallb_forall in P.
  apply (pure_eval E); [apply P, He | exact R].
Qed.

(* ------------------------------------------------------------------ has_act *)
Lemma has_act_bin o l r : has_act (EBin o l r) = has_act l || has_act r.
Proof. unfold Model.has_act. cbn [names]. apply existsb_app. Qed.
Lemma has_act_var x : has_act (EVar x) = act x.
Proof. unfold Model.has_act. cbn. apply orb_false_r. Qed.
Lemma has_act_idx a ix : has_act (EIdx a ix) = act a || has_act_l ix.
Proof. unfold Model.has_act, Model.has_act_l. rewrite names_EIdx. reflexivity. Qed.

Lemma lin_has_act t : lin_term t = true -> has_act t = true.
Proof.
  induction t; cbn [Model.lin_term]; intro H; try discriminate.
  - rewrite has_act_var. exact H.
  - rewrite has_act_idx. apply andb_true_iff in H as [H _]. rewrite H. reflexivity.
  - destruct o; [|discriminate]. apply IHt, H.
  - destruct o; try discriminate. rewrite has_act_bin. apply orb_true_iff in H as [H | H];
      apply andb_true_iff in H as [H1 H2].
    + rewrite (IHt1 H1). reflexivity.
    + rewrite (IHt2 H2). apply orb_true_r.
Qed.

Lemma plug_none t lhs : has_act t = false -> plug t lhs = None.
Proof.
  induction t; cbn [Model.plug]; intro H; try reflexivity.
  - rewrite has_act_var in H. rewrite H. reflexivity.
  - rewrite has_act_idx in H. apply orb_false_iff in H as [H _]. rewrite H. reflexivity.
  - destruct o; [|reflexivity]. rewrite (IHt H). reflexivity.
  - destruct o; try reflexivity. rewrite has_act_bin in H. apply orb_false_iff in H as [H1 H2].
    rewrite (IHt1 H1), (IHt2 H2). reflexivity.
Qed.

(* the coefficient of a linear term *)
Fixpoint kof (s : store) (t : expr) : option Z :=
  match t with
  | EVar _ | EIdx _ _ => Some 1
  | EUn Neg e => option_map Z.opp (kof s e)
  | EBin Mul l r =>
      if has_act l then match kof s l, eval s r with Some k, Some v => Some (k * v) | _, _ => None end
      else match eval s l, kof s r with Some v, Some k => Some (v * k) | _, _ => None end
  | _ => None
  end.

Definition mulo (k v : option Z) : option Z :=
  match k, v with Some a, Some b => Some (a * b) | _, _ => None end.

Definition aref (r : expr) : Prop :=
  (exists x, r = EVar x /\ act x = true) \/
  (exists a ix, r = EIdx a ix /\ act a = true /\ has_act_l ix = false).

Lemma mulo_opp k v : option_map Z.opp (mulo k v) = mulo (option_map Z.opp k) v.
Proof. destruct k, v; cbn; try reflexivity. f_equal. ring. Qed.

(* syntax -> semantics of one linear term *)
Lemma term_sem t lhs : lin_term t = true ->
  exists r t', plug t lhs = Some (r, t') /\ aref r /\
    (forall s, eval s t = mulo (kof s t) (eval s r)) /\
    (forall s, eval s t' = mulo (kof s t) (eval s lhs)) /\
    (is_ref t' = true -> forall s, kof s t = Some 1).
Proof.
  induction t; cbn [Model.lin_term]; intro H; try discriminate.
  - exists (EVar x), lhs. cbn [Model.plug]. rewrite H. split; [reflexivity|]. split; [left; eauto|].
    split; [|split]; intros; cbn [kof mulo]; try reflexivity.
    + destruct (eval s (EVar x)); [f_equal; ring | reflexivity].
    + destruct (eval s lhs); [f_equal; ring | reflexivity].
  - apply andb_true_iff in H as [H1 H2]. apply negb_true_iff in H2.
    exists (EIdx a ix), lhs. cbn [Model.plug]. rewrite H1. split; [reflexivity|].
    split; [right; exists a, ix; auto|].
    split; [|split]; intros; cbn [kof mulo]; try reflexivity.
    + destruct (eval s (EIdx a ix)); [f_equal; ring | reflexivity].
    + destruct (eval s lhs); [f_equal; ring | reflexivity].
  - destruct o; [|discriminate]. destruct (IHt H) as [r [t' [P [A [E1 [E2 _]]]]]].
    exists r, (EUn Neg t'). cbn [Model.plug]. rewrite P. split; [reflexivity|]. split; [exact A|].
    split; [|split]; [intro s .. | discriminate].
    + cbn [eval kof]. rewrite E1. apply mulo_opp.
    + cbn [eval kof]. rewrite E2. apply mulo_opp.
  - destruct o; try discriminate. apply orb_true_iff in H as [H | H]; apply andb_true_iff in H as [H1 H2].
    + apply negb_true_iff in H2. destruct (IHt1 H1) as [r [t' [P [A [E1 [E2 _]]]]]].
      exists r, (EBin Mul t' t2). cbn [Model.plug]. rewrite P. split; [reflexivity|]. split; [exact A|].
      pose proof (lin_has_act _ H1) as HA.
      split; [|split]; [intro s .. | discriminate]; cbn [eval kof]; rewrite HA.
      * rewrite E1. destruct (kof s t1), (eval s r), (eval s t2); cbn; try reflexivity. f_equal. ring.
      * rewrite E2. destruct (kof s t1), (eval s lhs), (eval s t2); cbn; try reflexivity. f_equal. ring.
    + apply negb_true_iff in H1. destruct (IHt2 H2) as [r [t' [P [A [E1 [E2 _]]]]]].
      exists r, (EBin Mul t1 t'). cbn [Model.plug]. rewrite (plug_none _ lhs H1), P.
      split; [reflexivity|]. split; [exact A|].
      split; [|split]; [intro s .. | discriminate]; cbn [eval kof]; rewrite H1.
      * rewrite E1. destruct (eval s t1), (kof s t2), (eval s r); cbn; try reflexivity. f_equal. ring.
      * rewrite E2. destruct (eval s t1), (kof s t2), (eval s lhs); cbn; try reflexivity. f_equal. ring.
Qed.

(* the coefficient reads passive data only *)
Lemma kof_rel E t s1 s2 : lin_term t = true -> term_pure acts LV E t = true -> rel E s1 s2 ->
  kof s2 t = kof s1 t.
Proof.
  intros H P R. induction t; cbn [Model.lin_term Model.term_pure] in *; try discriminate; try reflexivity.
  - destruct o; [|discriminate]. cbn [kof]. rewrite (IHt H P). reflexivity.
  - destruct o; try discriminate. cbn [kof]. apply orb_true_iff in H as [H | H]; apply andb_true_iff in H as [H1 H2].
    + rewrite (lin_has_act _ H1) in *. apply andb_true_iff in P as [P1 P2].
      rewrite (IHt1 H1 P1), (pure_eval E _ _ _ P2 R). reflexivity.
    + apply negb_true_iff in H1. rewrite H1 in *. apply andb_true_iff in P as [P1 P2].
      rewrite (IHt2 H2 P2), (pure_eval E _ _ _ P1 R). reflexivity.
Qed.

(* the subscripts of the active reference of a pure term are pure *)
Lemma plug_ref_pure E t lhs r t' : lin_term t = true -> term_pure acts LV E t = true ->
  plug t lhs = Some (r, t') -> match r with EIdx _ ix => pure_l acts LV E ix = true | _ => True end.
Proof.
  revert r t'. induction t; intros r t' H P Q; cbn [Model.lin_term Model.term_pure Model.plug] in *; try discriminate.
  - rewrite H in Q. inversion Q; subst. exact I.
  - apply andb_true_iff in H as [H1 H2]. rewrite H1 in Q. inversion Q; subst. exact P.
  - destruct o; [|discriminate]. destruct (plug t lhs) as [[r0 e']|] eqn:Pl; [|discriminate].
    inversion Q; subst. apply (IHt _ _ H P eq_refl).
  - destruct o; try discriminate. apply orb_true_iff in H as [H | H]; apply andb_true_iff in H as [H1 H2].
    + rewrite (lin_has_act _ H1) in P. apply andb_true_iff in P as [P1 P2].
      destruct (plug t1 lhs) as [[r0 l']|] eqn:Pl.
      * inversion Q; subst. apply (IHt1 _ _ H1 P1 eq_refl).
      * destruct (term_sem t1 lhs H1) as [r1 [t1' [Pl' _]]]. congruence.
    + apply negb_true_iff in H1. rewrite H1 in P. apply andb_true_iff in P as [P1 P2].
      rewrite (plug_none _ lhs H1) in Q. destruct (plug t2 lhs) as [[r0 r']|] eqn:Pl; [|discriminate].
      inversion Q; subst. apply (IHt2 _ _ H2 P2 eq_refl).
Qed.

(* an active reference evaluates to the value stored at its location *)
Lemma ref_loc_eval s r l : ref_loc s r = Some l -> eval s r = Some (val s l).
Proof.
  destruct r; cbn [ref_loc eval]; try discriminate.
  - intro H. inversion H. reflexivity.
  - destruct (opt_all (map (eval s) ix)); [|discriminate]. intro H. inversion H. reflexivity.
Qed.

Lemma ref_loc_rel E s1 s2 r : aref r -> match r with EIdx _ ix => pure_l acts LV E ix = true | _ => True end ->
  rel E s1 s2 -> ref_loc s2 r = ref_loc s1 r.
Proof.
  intros [[x [-> _]] | [a [ix [-> _]]]] P R; cbn [ref_loc]; [reflexivity|].
  rewrite (pure_l_eval E ix s1 s2 P R). reflexivity.
Qed.

Lemma ref_loc_act s r l : aref r -> ref_loc s r = Some l -> act (fst l) = true.
Proof.
  intros [[x [-> A]] | [a [ix [-> [A _]]]]]; cbn [ref_loc].
  - intro H. inversion H. exact A.
  - destruct (opt_all (map (eval s) ix)); [|discriminate]. intro H. inversion H. exact A.
Qed.

End Terms.
