(* C19 — the statements exported to Properties/C19.v, in readable form. *)
From Coq Require Import List ZArith Bool Lia.
Import ListNotations.
From PV Require Import Fort.Syntax Fort.Sem Fort.Facts C19.Model C19.Algebra C19.Terms C19.Arith C19.Assign C19.Main.
Open Scope Z_scope.

(* the two runs start from the same array bounds and the same passive data; the scalar locations of
   the DO variables LV are exempt (both programs define them before use and leave different values) *)
Definition same_passive (acts LV : list name) (s1 s2 : store) : Prop :=
  bnd s1 = bnd s2 /\
  forall l, act acts (fst l) = false -> (~ In (fst l) LV \/ snd l <> []) -> val s1 l = val s2 l.

Lemma same_passive_rel acts LV s1 s2 : same_passive acts LV s1 s2 <-> rel acts LV [] s1 s2.
Proof.
  unfold same_passive, rel, visl. split; intros [H1 H2]; (split; [exact H1|]); intros l.
  - intro V. apply andb_true_iff in V as [V1 V2]. apply negb_true_iff in V1. cbn [memn existsb orb] in V2.
    apply H2; [exact V1|]. apply orb_true_iff in V2 as [V2 | V2]; apply negb_true_iff in V2.
    + left. intro I. apply memn_In in I. congruence.
    + right. destruct (snd l); [discriminate | discriminate].
  - intros A C. apply H2. unfold act in A. rewrite A. cbn [negb andb memn existsb orb].
    destruct C as [C | C].
    + destruct (memn (fst l) LV) eqn:Q; [apply memn_In in Q; contradiction | reflexivity].
    + destruct (snd l); [contradiction | apply orb_true_r].
Qed.

Section Thms.
Variable fl : flags.
Variable acts : list name.
Variable L : list loc.          (* the active data: where the inner product is taken *)
Hypothesis NDL : NoDup L.
Hypothesis Lact : forall l, In l L -> act acts (fst l) = true.

(* dot_adjoint_partial + passive_preserved, for every program of the linear subset *)
Theorem dot_adjoint p q sx sy sx' :
  safe fl acts p = true ->
  adj fl acts p = Some q ->
  same_passive acts (lvars_l p) sx sy ->
  runG acts L p sx = Some sx' ->
  exists sy', run q sy = Some sy' /\
              dot L sx' sy = dot L sx sy' /\
              same_passive acts (lvars_l p) sx sx' /\ same_passive acts (lvars_l p) sy sy'.
Proof.
  intros HS HA R HR. unfold safe in HS. rewrite (adj_safe _ _ _ _ _ HS) in HA.
  apply same_passive_rel in R.
  destruct (prog_transpose fl acts (lvars_l p) L NDL Lact p [] q sx sy sx' HS HA R HR) as [sy' [Q [D [R1 R2]]]].
  exists sy'. split; [exact Q|]. split; [exact D|]. split; apply same_passive_rel; assumption.
Qed.

(* passive_preserved *)
Theorem passive_preserved p q sx sy sx' sy' :
  safe fl acts p = true -> adj fl acts p = Some q -> same_passive acts (lvars_l p) sx sy ->
  runG acts L p sx = Some sx' -> run q sy = Some sy' ->
  same_passive acts (lvars_l p) sx sx' /\ same_passive acts (lvars_l p) sy sy'.
Proof.
  intros HS HA R HR HQ. destruct (dot_adjoint p q sx sy sx' HS HA R HR) as [sy'' [Q [_ [P1 P2]]]].
  rewrite HQ in Q. inversion Q; subst. split; assumption.
Qed.

(* assign_adjoint_transpose: one assignment, any linear shape *)
Theorem assign_adjoint x ix e q LV E sx sy sx' :
  safe_stmt fl acts LV E (SAssign x ix e) = true ->
  adj_assign fl acts x ix e = Some q ->
  rel acts LV E sx sy ->
  run1 (guardA acts L) guardL (SAssign x ix e) sx = Some sx' ->
  exists sy', run q sy = Some sy' /\ dot L sx' sy = dot L sx sy'.
Proof.
  intros HS HA R HR.
  destruct (assign_transpose fl acts LV L NDL E x ix e q sx sy sx' HS HA R HR) as [sy' [Q [D _]]]. eauto.
Qed.

(* seq_adjoint: if every statement is transposed by its adjoint, the sequence is transposed by the
   reversed sequence of the adjoints (any length) *)
Theorem seq_adjoint LV p : Forall (TS fl acts LV L) p -> TL fl acts LV L p.
Proof. apply seq_transpose; assumption. Qed.

(* loop_adjoint_partial *)
Theorem loop_adjoint LV x lo hi st body : TL fl acts LV L body -> TS fl acts LV L (SDo x lo hi st body).
Proof. apply do_transpose; assumption. Qed.

End Thms.

(* the weaker guard-free reading: a guarded run is a run *)
Lemma run1_weaken gA gL s : forall a a', run1 gA gL s a = Some a' -> run1 gT gLT s a = Some a'.
Proof.
  induction s using stmt_ind'; intros a0 a' HR; try discriminate.
  - cbn [run1] in *. destruct (opt_all (map (eval a0) ix)); [|discriminate]. destruct (eval a0 e); [|discriminate].
    destruct (gA a0 x ix e); [exact HR | discriminate].
  - rewrite run1_if in *. destruct (eval a0 c) as [v|]; [|discriminate].
    assert (G : forall l, Forall (fun s => forall a a', run1 gA gL s a = Some a' -> run1 gT gLT s a = Some a') l ->
                forall a a', runl gA gL l a = Some a' -> runl gT gLT l a = Some a').
    { induction 1 as [|s0 l Hs _ IH]; intros s1 s2 Hr; [exact Hr|]. cbn [runl] in *.
      destruct (run1 gA gL s0 s1) eqn:Q; [|discriminate]. rewrite (Hs _ _ Q). apply IH, Hr. }
    destruct (v =? 0); [apply (G el H0), HR | apply (G th H), HR].
  - rewrite run1_do in *. destruct (eval a0 lo) as [l|]; [|discriminate]. destruct (eval a0 hi) as [h|]; [|discriminate].
    destruct (eval a0 st) as [t|]; [|discriminate].
    destruct ((t =? 0) || negb (gL l h t st)) eqn:Q; [discriminate|]. apply orb_false_iff in Q as [Q _]. rewrite Q.
    unfold gLT at 1. cbn [negb orb].
    assert (G : forall l, Forall (fun s => forall a a', run1 gA gL s a = Some a' -> run1 gT gLT s a = Some a') l ->
                forall a a', runl gA gL l a = Some a' -> runl gT gLT l a = Some a').
    { induction 1 as [|s0 l0 Hs _ IH]; intros s1 s2 Hr; [exact Hr|]. cbn [runl] in *.
      destruct (run1 gA gL s0 s1) eqn:Q'; [|discriminate]. rewrite (Hs _ _ Q'). apply IH, Hr. }
    assert (I : forall vs s1 s2, iter (runl gA gL body) x vs s1 = Some s2 -> iter (runl gT gLT body) x vs s1 = Some s2).
    { induction vs as [|v vs IH]; intros s1 s2 Hi; [exact Hi|]. cbn [iter] in *.
      destruct (runl gA gL body (upd s1 (x, []) v)) eqn:Q'; [|discriminate]. rewrite (G body H _ _ Q'). apply IH, Hi. }
    destruct (iter (runl gA gL body) x _ a0) eqn:Q'; [|discriminate]. rewrite (I _ _ _ Q'). exact HR.
Qed.

Lemma runG_run acts L p : forall s s', runG acts L p s = Some s' -> run p s = Some s'.
Proof.
  unfold runG. rewrite run_eq. induction p as [|s0 p IH]; intros s s' H; [exact H|]. cbn [runl] in *.
  destruct (run1 (guardA acts L) guardL s0 s) eqn:Q; [|discriminate]. rewrite (run1_weaken _ _ _ _ _ Q). apply IH, H.
Qed.
