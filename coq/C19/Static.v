(* C19 — deepening 2: a static sufficient condition for the run-time no-alias guard.  Every rhs
   reference to the assigned array has either the subscripts of the lhs (textually) or subscripts
   that differ from them by a non-zero literal offset in some dimension. *)
From Coq Require Import List ZArith Bool Lia.
Import ListNotations.
From PV Require Import Fort.Syntax Fort.Sem Fort.Facts C19.Model C19.Algebra C19.Terms C19.Assign C19.Main C19.Theorems C19.Exact.
Open Scope Z_scope.

(* e = base + offset, syntactically *)
Definition base_off (e : expr) : expr * Z :=
  match e with
  | EBin Add b (ELit c) => (b, c)
  | EBin Sub b (ELit c) => (b, - c)
  | ELit c => (ELit 0, c)
  | _ => (e, 0)
  end.

Definition diff_lit (e1 e2 : expr) : bool :=
  expr_eqb (fst (base_off e1)) (fst (base_off e2)) && negb (snd (base_off e1) =? snd (base_off e2)).

Fixpoint offs (ix iy : list expr) : bool :=
  match ix, iy with e1 :: r1, e2 :: r2 => diff_lit e1 e2 || offs r1 r2 | _, _ => false end.

Definition ref_name (e : expr) : name := match e with EVar x => x | EIdx a _ => a | _ => O end.

Definition distinct (lhs r : expr) : bool :=
  negb (Nat.eqb (ref_name lhs) (ref_name r)) ||
  match lhs, r with EIdx _ ix, EIdx _ iy => offs ix iy | _, _ => false end.

Lemma base_off_eval s e v : eval s e = Some v ->
  exists vb, eval s (fst (base_off e)) = Some vb /\ v = vb + snd (base_off e).
Proof.
  intro H.
  assert (D : exists vb, eval s e = Some vb /\ v = vb + 0) by (exists v; split; [exact H | ring]).
  destruct e as [z| | | |o l r|]; cbn [base_off fst snd]; try exact D.
  - cbn in H. inversion H; subst. exists 0. split; [reflexivity | ring].
  - destruct o; try exact D; destruct r as [c| | | | |]; try exact D; cbn [fst snd];
      cbn [eval] in H; destruct (eval s l) as [a|]; try discriminate; cbn in H; inversion H; subst;
      exists a; (split; [reflexivity | ring]).
Qed.

Lemma diff_lit_sound s e1 e2 v1 v2 : diff_lit e1 e2 = true -> eval s e1 = Some v1 -> eval s e2 = Some v2 -> v1 <> v2.
Proof.
  unfold diff_lit. intros H E1 E2. apply andb_true_iff in H as [H1 H2]. apply expr_eqb_eq in H1.
  apply negb_true_iff, Z.eqb_neq in H2.
  destruct (base_off_eval s e1 v1 E1) as [b1 [B1 V1]]. destruct (base_off_eval s e2 v2 E2) as [b2 [B2 V2]].
  rewrite H1 in B1. rewrite B1 in B2. inversion B2; subst. lia.
Qed.

Lemma offs_sound s : forall ix iy vs ws, offs ix iy = true ->
  opt_all (map (eval s) ix) = Some vs -> opt_all (map (eval s) iy) = Some ws -> vs <> ws.
Proof.
  induction ix as [|e1 r1 IH]; intros [|e2 r2] vs ws H Hx Hy; try discriminate.
  cbn [offs] in H. cbn [map opt_all] in Hx, Hy.
  destruct (eval s e1) as [v1|] eqn:E1; [|discriminate]. destruct (opt_all (map (eval s) r1)) as [vs'|] eqn:R1; [|discriminate].
  destruct (eval s e2) as [v2|] eqn:E2; [|discriminate]. destruct (opt_all (map (eval s) r2)) as [ws'|] eqn:R2; [|discriminate].
  inversion Hx; inversion Hy; subst. intro X. inversion X; subst.
  apply orb_true_iff in H as [H | H].
  - apply (diff_lit_sound s e1 e2 v2 v2 H E1 E2). reflexivity.
  - apply (IH r2 ws' ws' H eq_refl R2). reflexivity.
Qed.

Lemma ref_loc_name s r l : ref_loc s r = Some l -> fst l = ref_name r.
Proof.
  destruct r; cbn [ref_loc ref_name]; try discriminate.
  - intro H. inversion H. reflexivity.
  - destruct (opt_all (map (eval s) ix)); [|discriminate]. intro H. inversion H. reflexivity.
Qed.

Lemma lhs_name x ix : ref_name (lhs_expr x ix) = x.
Proof. destruct ix; reflexivity. Qed.

Lemma distinct_sound s x ix vs r l : distinct (lhs_expr x ix) r = true ->
  opt_all (map (eval s) ix) = Some vs -> ref_loc s r = Some l -> l <> (x, vs).
Proof.
  unfold distinct. intros H Hx Hl X. subst l. apply orb_true_iff in H as [H | H].
  - apply negb_true_iff, Nat.eqb_neq in H. apply H. rewrite lhs_name.
    pose proof (ref_loc_name s r _ Hl) as N. cbn [fst] in N. exact N.
  - destruct ix as [|e0 r0]; [discriminate|]. cbn [lhs_expr] in H.
    destruct r as [| |b iy| | |]; try discriminate. cbn [ref_loc] in Hl.
    destruct (opt_all (map (eval s) iy)) as [ws|] eqn:Hy; [|discriminate]. inversion Hl; subst.
    apply (offs_sound s (e0 :: r0) iy vs vs H Hx Hy). reflexivity.
Qed.

Section Static.
Variable acts : list name.
Variable L : list loc.

(* the domain guard alone: every active location the assignment touches lies in L *)
Definition guardDom (s : store) (x : name) (ix : list expr) (e : expr) : bool :=
  match opt_all (map (eval s) ix) with
  | None => false
  | Some vs =>
      memloc (x, vs) L &&
      forallb (fun st : bool * expr =>
                 match plug acts (snd st) (lhs_expr x ix) with
                 | Some (r, _) => match ref_loc s r with Some l => memloc l L | None => false end
                 | None => true
                 end) (split_terms true e)
  end.

Definition alias_free_assign (x : name) (ix : list expr) (e : expr) : bool :=
  forallb (fun st : bool * expr =>
             match plug acts (snd st) (lhs_expr x ix) with
             | Some (r, _) => expr_eqb r (lhs_expr x ix) || distinct (lhs_expr x ix) r
             | None => true
             end) (split_terms true e).

Fixpoint alias_free_stmt (s : stmt) : bool :=
  let go := (fix go (l : list stmt) : bool := match l with [] => true | y :: r => alias_free_stmt y && go r end) in
  match s with
  | SAssign x ix e => alias_free_assign x ix e
  | SIf _ th el => go th && go el
  | SDo _ _ _ _ body => go body
  | _ => true
  end.
Fixpoint alias_free (l : list stmt) : bool := match l with [] => true | y :: r => alias_free_stmt y && alias_free r end.

Lemma af_go l :
  (fix go (l : list stmt) : bool := match l with [] => true | y :: r => alias_free_stmt y && go r end) l = alias_free l.
Proof. induction l as [|s l IH]; [reflexivity|]. cbn [alias_free]. rewrite <- IH. reflexivity. Qed.

(* alias_free => the run-time no-alias guard holds, for every store *)
Theorem alias_free_guard s x ix e : alias_free_assign x ix e = true ->
  guardDom s x ix e = true -> guardA acts L s x ix e = true.
Proof.
  unfold alias_free_assign, guardDom, guardA. intros HS HD.
  destruct (opt_all (map (eval s) ix)) as [vs|] eqn:Hx; [|discriminate].
  apply andb_true_iff in HD as [D1 D2]. rewrite D1. cbn [andb].
  rewrite forallb_forall in *. intros st Hst. specialize (HS st Hst). specialize (D2 st Hst).
  destruct (plug acts (snd st) (lhs_expr x ix)) as [[r t']|]; [|reflexivity].
  destruct (ref_loc s r) as [l|] eqn:Hl; [|discriminate]. rewrite D2. cbn [andb].
  destruct (expr_eqb r (lhs_expr x ix)); [reflexivity|]. cbn [orb] in *.
  apply negb_true_iff. apply loc_eqb_neq. apply (distinct_sound s x ix vs r l HS Hx Hl).
Qed.

Notation gD := guardDom.
Notation gAx := (guardA acts L).

Lemma af_runl_aux l :
  Forall (fun s => alias_free_stmt s = true -> forall a a', run1 gD gLT s a = Some a' -> run1 gAx gLT s a = Some a') l ->
  alias_free l = true -> forall a a', runl gD gLT l a = Some a' -> runl gAx gLT l a = Some a'.
Proof.
  induction 1 as [|s0 l0 Hs _ IH]; intros HLl s1 s2 Hr; [exact Hr|]. cbn [alias_free] in HLl.
  apply andb_true_iff in HLl as [H1 H2]. cbn [runl] in *.
  destruct (run1 gD gLT s0 s1) eqn:Q; [|discriminate]. rewrite (Hs H1 _ _ Q). apply (IH H2), Hr.
Qed.

Lemma af_run1 s : alias_free_stmt s = true -> forall a a', run1 gD gLT s a = Some a' -> run1 gAx gLT s a = Some a'.
Proof.
  induction s using stmt_ind'; intros HLt a0 a' HR; try discriminate.
  - cbn [alias_free_stmt] in HLt. cbn [run1] in *.
    destruct (opt_all (map (eval a0) ix)); [|discriminate]. destruct (eval a0 e); [|discriminate].
    destruct (gD a0 x ix e) eqn:G; [|discriminate]. rewrite (alias_free_guard a0 x ix e HLt G). exact HR.
  - cbn [alias_free_stmt] in HLt. rewrite !af_go in HLt. apply andb_true_iff in HLt as [T1 T2].
    rewrite run1_if in *. destruct (eval a0 c) as [v|]; [|discriminate].
    destruct (v =? 0); [apply (af_runl_aux el H0 T2), HR | apply (af_runl_aux th H T1), HR].
  - cbn [alias_free_stmt] in HLt. rewrite af_go in HLt.
    rewrite run1_do in *. destruct (eval a0 lo) as [l|]; [|discriminate]. destruct (eval a0 hi) as [h|]; [|discriminate].
    destruct (eval a0 st) as [t|]; [|discriminate].
    destruct ((t =? 0) || negb (gLT l h t st)) eqn:Q; [discriminate|].
    assert (I : forall vs s1 s2, iter (runl gD gLT body) x vs s1 = Some s2 -> iter (runl gAx gLT body) x vs s1 = Some s2).
    { induction vs as [|v vs IH]; intros s1 s2 Hi; [exact Hi|]. cbn [iter] in *.
      destruct (runl gD gLT body (upd s1 (x, []) v)) eqn:Q'; [|discriminate].
      rewrite (af_runl_aux body H HLt _ _ Q'). apply IH, Hi. }
    destruct (iter (runl gD gLT body) x _ a0) eqn:Q'; [|discriminate]. rewrite (I _ _ _ Q'). exact HR.
Qed.

Hypothesis NDL : NoDup L.
Hypothesis Lact : forall l, In l L -> act acts (fst l) = true.

(* static conditions only; the one run-time hypothesis left says the execution stays inside the
   declared active data L (runl guardDom gLT = the plain semantics restricted to that domain) *)
Theorem dot_adjoint_static fl p q sx sy sx' :
  safe fl acts p = true -> lit_l p = true -> alias_free p = true -> adj fl acts p = Some q ->
  same_passive acts (lvars_l p) sx sy ->
  runl guardDom gLT p sx = Some sx' ->
  exists sy', run q sy = Some sy' /\ dot L sx' sy = dot L sx sy' /\
              same_passive acts (lvars_l p) sx sx' /\ same_passive acts (lvars_l p) sy sy'.
Proof.
  intros HS HLt HAf HA R HR.
  apply (dot_adjoint_literal_loops fl acts L NDL Lact p q sx sy sx' HS HLt HA R).
  apply (af_runl_aux p); [|exact HAf | exact HR]. apply Forall_forall. intros s _. apply af_run1.
Qed.
End Static.

(* which generated kernels fall in the fully static class (harness: evidence only) *)
Definition static_check (c : corr_case) : bool :=
  match c with
  | (lp, sk, acts, tl, _) => safe (mkFlags lp sk) acts tl && lit_l tl && alias_free acts tl
  end.

(* non-vacuity: do i = 2, 8, 3 ; a(i) = a(i-1) + 2*b(i) *)
Definition p_st : list stmt :=
  [SDo 9%nat (ELit 2) (ELit 8) (ELit 3)
     [SAssign 0%nat [EVar 9%nat]
        (EBin Add (EIdx 0%nat [EBin Sub (EVar 9%nat) (ELit 1)]) (EBin Mul (ELit 2) (EIdx 1%nat [EVar 9%nat])))]].
Definition s_st : store := store_of [((0%nat, [1]), 2); ((0%nat, [4]), -1); ((1%nat, [2]), 3); ((1%nat, [8]), 1)] [].

Example static_nonvacuous :
  safe (mkFlags true true) [0%nat; 1%nat] p_st = true /\ lit_l p_st = true /\ alias_free [0%nat; 1%nat] p_st = true /\
  (exists q, adj (mkFlags true true) [0%nat; 1%nat] p_st = Some q) /\
  (exists s', runl (guardDom [0%nat; 1%nat] L_lit) gLT p_st s_st = Some s' /\ val s' (0%nat, [2]) <> val s_st (0%nat, [2])) /\
  (* and the aliasing witness of the open finding is outside the class *)
  alias_free [0%nat; 1%nat]
    [SAssign 0%nat [EVar 9%nat] (EBin Add (EIdx 0%nat [EBin Add (EVar 7%nat) (ELit 1)]) (EIdx 1%nat [EVar 9%nat]))] = false.
Proof.
  split; [vm_compute; reflexivity|]. split; [vm_compute; reflexivity|]. split; [vm_compute; reflexivity|].
  split; [eexists; vm_compute; reflexivity|]. split; [|vm_compute; reflexivity].
  destruct (runl (guardDom [0%nat; 1%nat] L_lit) gLT p_st s_st) as [s'|] eqn:E.
  - exists s'. split; [reflexivity|].
    assert (X : match runl (guardDom [0%nat; 1%nat] L_lit) gLT p_st s_st with
                | Some s => negb (val s (0%nat, [2]) =? val s_st (0%nat, [2])) | None => false end = true)
      by (vm_compute; reflexivity).
    rewrite E in X. apply negb_true_iff, Z.eqb_neq in X. exact X.
  - exfalso. assert (X : match runl (guardDom [0%nat; 1%nat] L_lit) gLT p_st s_st with Some _ => true | None => false end = true)
      by (vm_compute; reflexivity). rewrite E in X. discriminate.
Qed.
