(* C19 — deepening: the reversed DO bounds are exact for every non-empty loop; the empty-loop
   exception stated precisely; the run-time loop guard replaced by "non-empty or unit step" and
   discharged statically for loops whose bounds and step are literals. *)
From Coq Require Import List ZArith Bool Lia.
Import ListNotations.
From PV Require Import Fort.Syntax Fort.Sem Fort.Facts C19.Model C19.Algebra C19.Terms C19.Arith C19.Assign C19.Main C19.Theorems.
Open Scope Z_scope.

(* ------------------------------------------------------------------ 1. pure Z arithmetic *)
(* all lo, hi, step <> 0 with a non-empty iteration set: positive or negative step, aligned or not *)
Theorem reversed_bounds_exact l h t : t <> 0 -> trip_count l h t <> 0%nat ->
  ivals0 (h - Z.rem (h - l) t) (- t) (trip_count (h - Z.rem (h - l) t) l (- t)) = rev (ivals0 l t (trip_count l h t)).
Proof. intros N NE. apply rev_vals; [exact N|]. intros [E _]. contradiction. Qed.

(* the exception: an empty loop with 0 < |lo-hi| < |step| is reversed into a loop that runs once, at lo *)
Theorem reversed_empty_exception l h t : t <> 0 -> bad_empty l h t ->
  ivals0 l t (trip_count l h t) = [] /\
  ivals0 (h - Z.rem (h - l) t) (- t) (trip_count (h - Z.rem (h - l) t) l (- t)) = [l].
Proof.
  intros N [E [B1 B2]]. split; [rewrite E; reflexivity|].
  assert (A : Z.abs (h - l) < Z.abs t) by (replace (h - l) with (- (l - h)) by ring; rewrite Z.abs_opp; exact B2).
  assert (Q : Z.quot (h - l) t = 0) by (apply Z.quot_small_iff; assumption).
  pose proof (Z.quot_rem' (h - l) t) as R. rewrite Q in R.
  rewrite rev_trip by exact N. rewrite Q. replace (Z.to_nat (Z.max 0 (0 + 1))) with 1%nat by reflexivity.
  replace (h - Z.rem (h - l) t) with l by lia.
  unfold ivals0. cbn [zseq0 map]. f_equal. ring.
Qed.

(* hence: the reversal is right exactly when the loop is not such an empty loop *)
Theorem reversed_bounds_iff l h t : t <> 0 ->
  (ivals0 (h - Z.rem (h - l) t) (- t) (trip_count (h - Z.rem (h - l) t) l (- t)) = rev (ivals0 l t (trip_count l h t))
   <-> ~ bad_empty l h t).
Proof.
  intro N. split.
  - intros H B. destruct (reversed_empty_exception l h t N B) as [E1 E2]. rewrite E1, E2 in H. discriminate.
  - apply rev_vals, N.
Qed.

(* the refuted witness: do i = 5, 4, 2 *)
Theorem reversed_bounds_refuted :
  exists l h t, t <> 0 /\ bad_empty l h t /\
    ivals0 l t (trip_count l h t) = [] /\
    ivals0 (h - Z.rem (h - l) t) (- t) (trip_count (h - Z.rem (h - l) t) l (- t)) = [5].
Proof.
  exists 5, 4, 2. split; [lia|]. split; [split; [reflexivity | cbn; lia]|]. split; reflexivity.
Qed.

(* non-vacuity: step 3 not aligned (1,4,7 for hi = 8), negative step not aligned (9,6,3 for hi = 2) *)
Example exact_step3_unaligned :
  trip_count 1 8 3 <> 0%nat /\ ivals0 1 3 (trip_count 1 8 3) = [1; 4; 7] /\
  ivals0 (8 - Z.rem (8 - 1) 3) (- 3) (trip_count (8 - Z.rem (8 - 1) 3) 1 (- 3)) = [7; 4; 1].
Proof. split; [discriminate|]. split; reflexivity. Qed.

Example exact_negative_step :
  trip_count 9 2 (-3) <> 0%nat /\ ivals0 9 (-3) (trip_count 9 2 (-3)) = [9; 6; 3] /\
  ivals0 (2 - Z.rem (2 - 9) (-3)) (- -3) (trip_count (2 - Z.rem (2 - 9) (-3)) 9 (- -3)) = [3; 6; 9].
Proof. split; [discriminate|]. split; reflexivity. Qed.

(* ------------------------------------------------------------------ 2. a simpler loop guard *)
(* "the loop is non-empty or has unit step" — decidable from the evaluated bounds *)
Definition guardNE (l h t : Z) (stp : expr) : bool := unit_step stp || negb (trip_count l h t =? 0)%nat.

Lemma guardNE_guardL l h t stp : guardNE l h t stp = true -> guardL l h t stp = true.
Proof.
  unfold guardNE, guardL. destruct (unit_step stp); [reflexivity|]. cbn [orb]. intro H.
  apply negb_true_iff in H. rewrite H. reflexivity.
Qed.

(* guards can be weakened pointwise without changing the result *)
Section Mono.
Variables gA gA' : store -> name -> list expr -> expr -> bool.
Variables gL gL' : Z -> Z -> Z -> expr -> bool.
Hypothesis HA : forall s x ix e, gA s x ix e = true -> gA' s x ix e = true.
Hypothesis HL : forall l h t st, gL l h t st = true -> gL' l h t st = true.

Lemma runl_mono_aux l :
  Forall (fun s => forall a a', run1 gA gL s a = Some a' -> run1 gA' gL' s a = Some a') l ->
  forall a a', runl gA gL l a = Some a' -> runl gA' gL' l a = Some a'.
Proof.
  induction 1 as [|s0 l0 Hs _ IH]; intros s1 s2 Hr; [exact Hr|]. cbn [runl] in *.
  destruct (run1 gA gL s0 s1) eqn:Q; [|discriminate]. rewrite (Hs _ _ Q). apply IH, Hr.
Qed.

Lemma run1_mono s : forall a a', run1 gA gL s a = Some a' -> run1 gA' gL' s a = Some a'.
Proof.
  induction s using stmt_ind'; intros a0 a' HR; try discriminate.
  - cbn [run1] in *. destruct (opt_all (map (eval a0) ix)); [|discriminate]. destruct (eval a0 e); [|discriminate].
    destruct (gA a0 x ix e) eqn:G; [|discriminate]. rewrite (HA _ _ _ _ G). exact HR.
  - rewrite run1_if in *. destruct (eval a0 c) as [v|]; [|discriminate].
    destruct (v =? 0); [apply (runl_mono_aux el H0), HR | apply (runl_mono_aux th H), HR].
  - rewrite run1_do in *. destruct (eval a0 lo) as [l|]; [|discriminate]. destruct (eval a0 hi) as [h|]; [|discriminate].
    destruct (eval a0 st) as [t|]; [|discriminate].
    destruct ((t =? 0) || negb (gL l h t st)) eqn:Q; [discriminate|]. apply orb_false_iff in Q as [Q1 Q2].
    apply negb_false_iff in Q2. rewrite Q1, (HL _ _ _ _ Q2). cbn [negb orb].
    assert (I : forall vs s1 s2, iter (runl gA gL body) x vs s1 = Some s2 -> iter (runl gA' gL' body) x vs s1 = Some s2).
    { induction vs as [|v vs IH]; intros s1 s2 Hi; [exact Hi|]. cbn [iter] in *.
      destruct (runl gA gL body (upd s1 (x, []) v)) eqn:Q'; [|discriminate].
      rewrite (runl_mono_aux body H _ _ Q'). apply IH, Hi. }
    destruct (iter (runl gA gL body) x _ a0) eqn:Q'; [|discriminate]. rewrite (I _ _ _ Q'). exact HR.
Qed.

Lemma runl_mono p : forall a a', runl gA gL p a = Some a' -> runl gA' gL' p a = Some a'.
Proof. apply runl_mono_aux. apply Forall_forall. intros s _. apply run1_mono. Qed.
End Mono.

Section NE.
Variable fl : flags.
Variable acts : list name.
Variable L : list loc.
Hypothesis NDL : NoDup L.
Hypothesis Lact : forall l, In l L -> act acts (fst l) = true.

Definition runNE : list stmt -> store -> option store := runl (guardA acts L) guardNE.

(* loop_adjoint with the guard "non-empty or unit step" *)
Theorem loop_adjoint_nonempty LV E x lo hi st body q sx sy sx' :
  safe_stmt fl acts LV E (SDo x lo hi st body) = true ->
  adj_stmt fl acts (SDo x lo hi st body) = Some q ->
  rel acts LV E sx sy ->
  run1 (guardA acts L) guardNE (SDo x lo hi st body) sx = Some sx' ->
  exists sy', run q sy = Some sy' /\ dot L sx' sy = dot L sx sy' /\ rel acts LV E sx sx' /\ rel acts LV E sy sy'.
Proof.
  intros HS HA R HR.
  apply (do_transpose fl acts LV L Lact x lo hi st body (prog_transpose fl acts LV L NDL Lact body) E q sx sy sx' HS HA R).
  apply (run1_mono _ _ _ _ (fun _ _ _ _ H => H) guardNE_guardL _ _ _ HR).
Qed.

Theorem dot_adjoint_nonempty p q sx sy sx' :
  safe fl acts p = true -> adj fl acts p = Some q ->
  same_passive acts (lvars_l p) sx sy -> runNE p sx = Some sx' ->
  exists sy', run q sy = Some sy' /\ dot L sx' sy = dot L sx sy' /\
              same_passive acts (lvars_l p) sx sx' /\ same_passive acts (lvars_l p) sy sy'.
Proof.
  intros HS HA R HR. apply (dot_adjoint fl acts L NDL Lact p q sx sy sx' HS HA R).
  apply (runl_mono _ _ _ _ (fun _ _ _ _ H => H) guardNE_guardL _ _ _ HR).
Qed.

(* ------------------------------------------------------------------ 3. literal loops: no run-time loop guard *)
(* every DO has literal bounds and step, and is not an empty loop with 0 < |lo-hi| < |step| (decided statically) *)
Fixpoint lit_loops (s : stmt) : bool :=
  let go := (fix go (l : list stmt) : bool := match l with [] => true | x :: r => lit_loops x && go r end) in
  match s with
  | SIf _ th el => go th && go el
  | SDo _ (ELit l) (ELit h) (ELit t) body => guardL l h t (ELit t) && go body
  | SDo _ _ _ _ _ => false
  | _ => true
  end.
Fixpoint lit_l (l : list stmt) : bool := match l with [] => true | x :: r => lit_loops x && lit_l r end.

Lemma lit_go l :
  (fix go (l : list stmt) : bool := match l with [] => true | x :: r => lit_loops x && go r end) l = lit_l l.
Proof. induction l as [|s l IH]; [reflexivity|]. cbn [lit_l]. rewrite <- IH. reflexivity. Qed.

Notation gAx := (guardA acts L).

Lemma lit_runl_aux l :
  Forall (fun s => lit_loops s = true -> forall a a', run1 gAx gLT s a = Some a' -> run1 gAx guardL s a = Some a') l ->
  lit_l l = true -> forall a a', runl gAx gLT l a = Some a' -> runl gAx guardL l a = Some a'.
Proof.
  induction 1 as [|s0 l0 Hs _ IH]; intros HLl s1 s2 Hr; [exact Hr|]. cbn [lit_l] in HLl.
  apply andb_true_iff in HLl as [H1 H2]. cbn [runl] in *.
  destruct (run1 gAx gLT s0 s1) eqn:Q; [|discriminate]. rewrite (Hs H1 _ _ Q). apply (IH H2), Hr.
Qed.

Lemma lit_run1 s : lit_loops s = true -> forall a a', run1 gAx gLT s a = Some a' -> run1 gAx guardL s a = Some a'.
Proof.
  induction s using stmt_ind'; intros HLt a0 a' HR; try discriminate.
  - exact HR.
  - cbn [lit_loops] in HLt. rewrite !lit_go in HLt. apply andb_true_iff in HLt as [T1 T2].
    rewrite run1_if in *. destruct (eval a0 c) as [v|]; [|discriminate].
    destruct (v =? 0); [apply (lit_runl_aux el H0 T2), HR | apply (lit_runl_aux th H T1), HR].
  - destruct lo as [l| | | | |]; try discriminate. destruct hi as [h| | | | |]; try discriminate.
    destruct st as [t| | | | |]; try discriminate.
    cbn [lit_loops] in HLt. rewrite lit_go in HLt. apply andb_true_iff in HLt as [T1 T2].
    rewrite run1_do in *. cbn [eval] in *.
    destruct ((t =? 0) || negb (gLT l h t (ELit t))) eqn:Q; [discriminate|]. apply orb_false_iff in Q as [Q1 _].
    rewrite Q1, T1. cbn [negb orb].
    assert (I : forall vs s1 s2, iter (runl gAx gLT body) x vs s1 = Some s2 -> iter (runl gAx guardL body) x vs s1 = Some s2).
    { induction vs as [|v vs IH]; intros s1 s2 Hi; [exact Hi|]. cbn [iter] in *.
      destruct (runl gAx gLT body (upd s1 (x, []) v)) eqn:Q'; [|discriminate].
      rewrite (lit_runl_aux body H T2 _ _ Q'). apply IH, Hi. }
    destruct (iter (runl gAx gLT body) x _ a0) eqn:Q'; [|discriminate]. rewrite (I _ _ _ Q'). exact HR.
Qed.

(* the only run-time guards left are those of the assignments (active data in L, no aliasing) *)
Theorem dot_adjoint_literal_loops p q sx sy sx' :
  safe fl acts p = true -> lit_l p = true -> adj fl acts p = Some q ->
  same_passive acts (lvars_l p) sx sy ->
  runl (guardA acts L) gLT p sx = Some sx' ->
  exists sy', run q sy = Some sy' /\ dot L sx' sy = dot L sx sy' /\
              same_passive acts (lvars_l p) sx sx' /\ same_passive acts (lvars_l p) sy sy'.
Proof.
  intros HS HLt HA R HR. apply (dot_adjoint fl acts L NDL Lact p q sx sy sx' HS HA R).
  unfold runG. apply (lit_runl_aux p); [|exact HLt | exact HR].
  apply Forall_forall. intros s _. apply lit_run1.
Qed.

End NE.

(* non-vacuity of the literal-loop theorem: do i = 1, 8, 3 (not aligned) then do j = 9, 2, -3 (negative, not aligned) *)
Definition p_lit : list stmt :=
  [SDo 9%nat (ELit 1) (ELit 8) (ELit 3)
     [SAssign 0%nat [EVar 9%nat] (EBin Add (EIdx 0%nat [EVar 9%nat]) (EBin Mul (ELit 2) (EIdx 1%nat [EVar 9%nat])))];
   SDo 10%nat (ELit 9) (ELit 2) (ELit (-3))
     [SAssign 1%nat [EVar 10%nat] (EBin Sub (EIdx 1%nat [EVar 10%nat]) (EIdx 0%nat [EBin Sub (EVar 10%nat) (ELit 1)]))]].
Definition L_lit : list loc := flat_map (fun a => map (fun i => (a, [i])) [1; 2; 3; 4; 5; 6; 7; 8; 9]) [0%nat; 1%nat].
Definition s_lit : store := store_of [((0%nat, [4]), 2); ((0%nat, [5]), -1); ((1%nat, [4]), 3); ((1%nat, [6]), 1)] [].

Example literal_loops_nonvacuous :
  safe (mkFlags true true) [0%nat; 1%nat] p_lit = true /\ lit_l p_lit = true /\
  (exists q, adj (mkFlags true true) [0%nat; 1%nat] p_lit = Some q) /\
  (exists s', runl (guardA [0%nat; 1%nat] L_lit) gLT p_lit s_lit = Some s' /\ val s' (1%nat, [6]) <> val s_lit (1%nat, [6])).
Proof.
  split; [vm_compute; reflexivity|]. split; [vm_compute; reflexivity|]. split; [eexists; vm_compute; reflexivity|].
  destruct (runl (guardA [0%nat; 1%nat] L_lit) gLT p_lit s_lit) as [s'|] eqn:E.
  - exists s'. split; [reflexivity|].
    assert (X : match runl (guardA [0%nat; 1%nat] L_lit) gLT p_lit s_lit with
                | Some s => negb (val s (1%nat, [6]) =? val s_lit (1%nat, [6])) | None => false end = true)
      by (vm_compute; reflexivity).
    rewrite E in X. apply negb_true_iff, Z.eqb_neq in X. exact X.
  - exfalso. assert (X : match runl (guardA [0%nat; 1%nat] L_lit) gLT p_lit s_lit with Some _ => true | None => false end = true)
      by (vm_compute; reflexivity). rewrite E in X. discriminate.
Qed.
