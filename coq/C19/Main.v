(* C19 — the adjoint of a linear program is its transpose: sequences (reversal), IF on passive
   data, DO loops (reversal with the bounds arithmetic of loop_node), by induction on the program. *)
From Coq Require Import List ZArith Bool Lia.
Import ListNotations.
From PV Require Import Fort.Syntax Fort.Sem Fort.Facts C19.Model C19.Algebra C19.Terms C19.Arith C19.Assign.
Open Scope Z_scope.

(* ------------------------------------------------------------------ unfolding equations *)
Lemma run1_if gA gL c th el st :
  run1 gA gL (SIf c th el) st =
  match eval st c with Some v => runl gA gL (if v =? 0 then el else th) st | None => None end.
Proof. reflexivity. Qed.

Lemma run1_do gA gL x lo hi stp body st :
  run1 gA gL (SDo x lo hi stp body) st =
  match eval st lo, eval st hi, eval st stp with
  | Some l, Some h, Some t =>
      if (t =? 0) || negb (gL l h t stp) then None
      else match iter (runl gA gL body) x (ivals0 l t (trip_count l h t)) st with
           | Some s' => Some (upd s' (x, []) (l + Z.of_nat (trip_count l h t) * t))
           | None => None
           end
  | _, _, _ => None
  end.
Proof. reflexivity. Qed.

Lemma adj_stmt_if fl acts c th el :
  adj_stmt fl acts (SIf c th el) =
  if has_act acts c then None
  else match adj fl acts th, adj fl acts el with Some a, Some b => Some [SIf c a b] | _, _ => None end.
Proof. reflexivity. Qed.

Lemma adj_stmt_do fl acts x lo hi st body :
  adj_stmt fl acts (SDo x lo hi st body) =
  if act acts x || has_act acts lo || has_act acts hi || has_act acts st then None
  else if negb (unit_step st) && negb (lo_paren fl) && starts_minus lo then None
  else match adj fl acts body with
       | Some b => Some [SDo x (rev_start fl lo hi st) lo (negate st) b]
       | None => None
       end.
Proof. reflexivity. Qed.

Lemma safe_go fl acts LV E l :
  (fix go (l : list stmt) : bool := match l with [] => true | x :: r => safe_stmt fl acts LV E x && go r end) l
  = safe_l fl acts LV E l.
Proof. induction l as [|s l IH]; [reflexivity|]. cbn [safe_l]. rewrite <- IH. reflexivity. Qed.

Lemma safe_stmt_if fl acts LV E c th el :
  safe_stmt fl acts LV E (SIf c th el) =
  stmt_act acts (SIf c th el) && (pure acts LV E c && safe_l fl acts LV E th && safe_l fl acts LV E el).
Proof. cbn [safe_stmt]. rewrite !safe_go. reflexivity. Qed.

Lemma safe_stmt_do fl acts LV E x lo hi st body :
  safe_stmt fl acts LV E (SDo x lo hi st body) =
  stmt_act acts (SDo x lo hi st body) &&
  (negb (memn x acts) && memn x LV && negb (memn x E) &&
   pure acts LV E lo && pure acts LV E hi && pure acts LV E st &&
   (unit_step st || lo_paren fl || expr_eqb (capture hi lo) (EBin Sub hi lo)) &&
   safe_l fl acts LV (x :: E) body).
Proof. cbn [safe_stmt]. rewrite !safe_go. reflexivity. Qed.

Lemma iter_app body x a : forall b s,
  iter body x (a ++ b) s = match iter body x a s with Some s' => iter body x b s' | None => None end.
Proof.
  induction a as [|v a IH]; intros b s; [reflexivity|]. cbn [app iter].
  destruct (body (upd s (x, []) v)); [apply IH | reflexivity].
Qed.

(* a program all of whose statements are active has no hoisted part *)
Lemma safe_all_active fl acts LV E p : safe_l fl acts LV E p = true ->
  filter (fun s1 => negb (stmt_act acts s1)) p = [].
Proof.
  induction p as [|s p IH]; [reflexivity|]. cbn [safe_l filter]. intro H.
  apply andb_true_iff in H as [H1 H2].
  assert (A : stmt_act acts s = true).
  { destruct s; cbn [safe_stmt] in H1; apply andb_true_iff in H1 as [H1 _]; try exact H1; discriminate. }
  rewrite A. cbn [negb]. apply IH, H2.
Qed.

Lemma safe_stmt_active fl acts LV E s : safe_stmt fl acts LV E s = true -> stmt_act acts s = true.
Proof. destruct s; cbn [safe_stmt]; intro H; apply andb_true_iff in H as [H _]; try exact H; discriminate. Qed.

Lemma adj_safe fl acts LV E p : safe_l fl acts LV E p = true -> adj fl acts p = adj_active fl acts p.
Proof.
  intro H. unfold adj. rewrite (safe_all_active _ _ _ _ _ H). destruct (adj_active fl acts p); reflexivity.
Qed.

Lemma eval_mulneg s e t : eval s e = Some t -> eval s (EBin Mul (ELit (-1)) e) = Some (- t).
Proof. intro H. cbn [eval]. rewrite H. cbn [eval_bin]; f_equal; try ring. Qed.

Lemma negate_eval s st t : eval s st = Some t -> eval s (negate st) = Some (- t).
Proof.
  destruct st as [z|x0|a ix|o e|o l r|f args]; cbn [negate]; intro H; try (apply eval_mulneg; exact H).
  - cbn [eval] in H. inversion H; subst. destruct (_ <? 0); cbn [eval option_map eval_un]; reflexivity.
  - destruct o; [|apply eval_mulneg; exact H].
    cbn [eval] in H. destruct (eval s e) as [t1|]; [|discriminate]. cbn in H. inversion H; subst. f_equal. ring.
Qed.

Section Main.
Variable fl : flags.
Variable acts : list name.
Variable LV : list name.
Variable L : list loc.
Hypothesis NDL : NoDup L.
Hypothesis Lact : forall l, In l L -> act acts (fst l) = true.

Notation rel := (rel acts LV).
Notation G1 := (run1 (guardA acts L) guardL).
Notation GL := (runl (guardA acts L) guardL).

(* the transposition property of one statement / of a statement list *)
Definition TS (s : stmt) : Prop := forall E q sx sy sx',
  safe_stmt fl acts LV E s = true -> adj_stmt fl acts s = Some q -> rel E sx sy -> G1 s sx = Some sx' ->
  exists sy', run q sy = Some sy' /\ dot L sx' sy = dot L sx sy' /\ rel E sx sx' /\ rel E sy sy'.

Definition TL (p : list stmt) : Prop := forall E q sx sy sx',
  safe_l fl acts LV E p = true -> adj_active fl acts p = Some q -> rel E sx sy -> GL p sx = Some sx' ->
  exists sy', run q sy = Some sy' /\ dot L sx' sy = dot L sx sy' /\ rel E sx sx' /\ rel E sy sy'.

Lemma dot_loopvar_l x s y v : act acts x = false -> dot L (upd s (x, []) v) y = dot L s y.
Proof. intro A. apply dot_upd_l_notin. intro I. apply Lact in I. cbn [fst] in I. congruence. Qed.
Lemma dot_loopvar_r x s y v : act acts x = false -> dot L s (upd y (x, []) v) = dot L s y.
Proof. intro A. apply dot_upd_r_notin. intro I. apply Lact in I. cbn [fst] in I. congruence. Qed.

(* seq_adjoint: the adjoint of a sequence is the reversed sequence of the adjoints — all lengths *)
Theorem seq_transpose p : Forall TS p -> TL p.
Proof.
  induction 1 as [|s p Hs _ IH]; intros E q sx sy sx' HS HA R HR.
  - cbn in HA, HR. inversion HA; inversion HR; subst. exists sy.
    split; [reflexivity|]. split; [reflexivity|]. split; apply rel_refl.
  - cbn [safe_l] in HS. apply andb_true_iff in HS as [HS1 HS2].
    cbn [adj_active] in HA. rewrite (safe_stmt_active _ _ _ _ _ HS1) in HA.
    destruct (adj_active fl acts p) as [a|] eqn:Ha; [|discriminate].
    destruct (adj_stmt fl acts s) as [b|] eqn:Hb; [|discriminate]. inversion HA; subst q. clear HA.
    cbn [runl] in HR. destruct (G1 s sx) as [sx1|] eqn:H1; [|discriminate].
    destruct (Hs E b sx sy sx1 HS1 Hb R H1) as [_ [_ [_ [R1 _]]]].
    destruct (IH E a sx1 sy sx' HS2 Ha (rel_trans _ _ _ _ _ _ (rel_sym _ _ _ _ _ R1) R) HR)
      as [sy1 [Q1 [D1 [R2 R3]]]].
    destruct (Hs E b sx sy1 sx1 HS1 Hb (rel_trans _ _ _ _ _ _ R R3) H1) as [sy' [Q2 [D2 [_ R4]]]].
    exists sy'. rewrite run_eq in *. rewrite runl_app, Q1. split; [exact Q2|].
    split; [rewrite D1; exact D2|]. split; eapply rel_trans; eassumption.
Qed.

(* one DO body executed for a list of values of the DO variable: the adjoint runs the values in reverse *)
Lemma iter_transpose E x body b : act acts x = false -> memn x LV = true -> memn x E = false ->
  (forall sx1 sy1 sx1', rel (x :: E) sx1 sy1 -> GL body sx1 = Some sx1' ->
     exists sy1', run b sy1 = Some sy1' /\ dot L sx1' sy1 = dot L sx1 sy1' /\
                  rel (x :: E) sx1 sx1' /\ rel (x :: E) sy1 sy1') ->
  forall vs sx sy sx', rel E sx sy -> iter (GL body) x vs sx = Some sx' ->
  exists sy', iter (run b) x (rev vs) sy = Some sy' /\ dot L sx' sy = dot L sx sy' /\
              rel E sx sx' /\ rel E sy sy'.
Proof.
  intros Ax HLV HE HB. induction vs as [|v vs IH]; intros sx sy sx' R HR.
  - cbn in HR. inversion HR; subst. exists sy. split; [reflexivity|]. split; [reflexivity|]. split; apply rel_refl.
  - cbn [iter] in HR. destruct (GL body (upd sx (x, []) v)) as [s1|] eqn:H1; [|discriminate].
    destruct (HB _ (upd sx (x, []) v) s1 (rel_refl _ _ _ _) H1) as [_ [_ [_ [B1 _]]]].
    assert (R1 : rel E sx s1).
    { apply (rel_trans acts LV E _ (upd sx (x, []) v)); [apply rel_invis; assumption | apply (rel_weaken _ _ _ x), B1]. }
    destruct (IH s1 sy sx' (rel_trans _ _ _ _ _ _ (rel_sym _ _ _ _ _ R1) R) HR) as [sy1 [Q1 [D1 [R2 R3]]]].
    assert (Rb : rel (x :: E) (upd sx (x, []) v) (upd sy1 (x, []) v)).
    { apply rel_enter. exact (rel_trans _ _ _ _ _ _ R R3). }
    destruct (HB _ _ s1 Rb H1) as [sy' [Q2 [D2 [_ B2]]]].
    exists sy'. cbn [rev]. rewrite iter_app, Q1. cbn [iter]. rewrite Q2. split; [reflexivity|].
    split.
    + rewrite D1. rewrite dot_loopvar_r in D2 by exact Ax. rewrite D2. apply dot_loopvar_l, Ax.
    + split; [exact (rel_trans _ _ _ _ _ _ R1 R2)|].
      eapply rel_trans; [exact R3|]. apply (rel_trans acts LV E _ (upd sy1 (x, []) v)); [apply rel_invis; assumption|].
      apply (rel_weaken _ _ _ x), B2.
Qed.

Lemma unit_step_val s st t : unit_step st = true -> eval s st = Some t -> t = 1 \/ t = -1.
Proof.
  destruct st as [z| | | | |]; try discriminate. cbn [unit_step eval]. intros U H. inversion H as [H0]. subst t.
  destruct z as [|p|p]; try discriminate; destruct p; try discriminate; auto.
Qed.

(* the evaluated bounds of the reversed loop *)
Lemma rev_bounds E lo hi st sx sy l h t :
  unit_step st || lo_paren fl || expr_eqb (capture hi lo) (EBin Sub hi lo) = true ->
  pure acts LV E lo = true -> pure acts LV E hi = true -> pure acts LV E st = true ->
  rel E sx sy -> eval sx lo = Some l -> eval sx hi = Some h -> eval sx st = Some t -> t <> 0 ->
  guardL l h t st = true ->
  exists l', eval sy (rev_start fl lo hi st) = Some l' /\ eval sy lo = Some l /\
             eval sy (negate st) = Some (- t) /\
             ivals0 l' (- t) (trip_count l' l (- t)) = rev (ivals0 l t (trip_count l h t)).
Proof.
  intros Hc Plo Phi Pst R El Eh Et Nt Hg.
  rewrite <- (pure_eval acts LV E lo sx sy Plo R) in El. rewrite <- (pure_eval acts LV E hi sx sy Phi R) in Eh.
  rewrite <- (pure_eval acts LV E st sx sy Pst R) in Et.
  unfold rev_start. destruct (unit_step st) eqn:U.
  - exists h. split; [exact Eh|]. split; [exact El|]. split; [apply negate_eval, Et|].
    apply rev_vals_unit. apply (unit_step_val sy st t U Et).
  - cbn [orb] in Hc.
    assert (Ep : eval sy (pasted fl hi lo) = Some (h - l)).
    { unfold pasted. destruct (lo_paren fl).
      - cbn [eval]. rewrite Eh, El. reflexivity.
      - cbn [orb] in Hc. apply expr_eqb_eq in Hc. rewrite Hc. cbn [eval]. rewrite Eh, El. reflexivity. }
    exists (h - Z.rem (h - l) t). split.
    + cbn [eval is_inquiry map opt_all]. rewrite Eh, Ep, Et. cbn [eval_intr].
      apply Z.eqb_neq in Nt. rewrite Nt. reflexivity.
    + split; [exact El|]. split; [apply negate_eval, Et|]. apply rev_vals; [exact Nt|].
      unfold guardL in Hg. rewrite U in Hg. cbn [orb] in Hg. apply negb_true_iff in Hg.
      intros [B1 [B2 B3]]. rewrite B1 in Hg. cbn in Hg.
      apply Z.ltb_lt in B2. apply Z.ltb_lt in B3. rewrite B2, B3 in Hg. discriminate.
Qed.

(* loop_adjoint_partial *)
Theorem do_transpose x lo hi st body : TL body -> TS (SDo x lo hi st body).
Proof.
  intros HB E q sx sy sx' HS HA R HR.
  rewrite safe_stmt_do in HS. apply andb_true_iff in HS as [_ HS].
  repeat (apply andb_true_iff in HS as [HS ?]).
  rename H into Sbody, H0 into Hcap, H1 into Pst, H2 into Phi, H3 into Plo, H4 into HE, H5 into HLV.
  apply negb_true_iff in HS, HE. assert (Ax : act acts x = false) by exact HS.
  rewrite adj_stmt_do in HA. rewrite Ax in HA. cbn [orb] in HA.
  destruct (has_act acts lo || has_act acts hi || has_act acts st); [discriminate|].
  destruct (negb (unit_step st) && negb (lo_paren fl) && starts_minus lo); [discriminate|].
  rename HA into HA'.
  rewrite (adj_safe _ _ _ _ _ Sbody) in HA'.
  destruct (adj_active fl acts body) as [b|] eqn:Hb; [|discriminate]. inversion HA'; subst q. clear HA'.
  rewrite run1_do in HR.
  destruct (eval sx lo) as [l|] eqn:El; [|discriminate]. destruct (eval sx hi) as [h|] eqn:Eh; [|discriminate].
  destruct (eval sx st) as [t|] eqn:Et; [|discriminate].
  destruct ((t =? 0) || negb (guardL l h t st)) eqn:Hg; [discriminate|].
  apply orb_false_iff in Hg as [Nt Hg]. apply Z.eqb_neq in Nt. apply negb_false_iff in Hg.
  destruct (iter (GL body) x (ivals0 l t (trip_count l h t)) sx) as [s1|] eqn:Hit; [|discriminate].
  inversion HR; subst sx'. clear HR.
  destruct (rev_bounds E lo hi st sx sy l h t Hcap Plo Phi Pst R El Eh Et Nt Hg) as [l' [B1 [B2 [B3 B4]]]].
  assert (HB' : forall sx1 sy1 sx1', rel (x :: E) sx1 sy1 -> GL body sx1 = Some sx1' ->
     exists sy1', run b sy1 = Some sy1' /\ dot L sx1' sy1 = dot L sx1 sy1' /\
                  rel (x :: E) sx1 sx1' /\ rel (x :: E) sy1 sy1').
  { intros sx1 sy1 sx1' R1 H1. apply (HB (x :: E) b sx1 sy1 sx1' Sbody Hb R1 H1). }
  destruct (iter_transpose E x body b Ax HLV HE HB' _ sx sy s1 R Hit) as [sy1 [Q1 [D1 [R1 R2]]]].
  exists (upd sy1 (x, []) (l' + Z.of_nat (trip_count l' l (- t)) * - t)).
  split.
  - rewrite run_eq. cbn [runl]. rewrite run1_do, B1, B2, B3.
    assert (Nt' : (- t =? 0) = false) by (apply Z.eqb_neq; lia). rewrite Nt'. unfold gLT at 1. cbn [orb negb].
    rewrite B4. rewrite run_eq in Q1. rewrite Q1. reflexivity.
  - split; [rewrite dot_loopvar_l, dot_loopvar_r by exact Ax; exact D1|].
    split; (eapply rel_trans; [eassumption | apply rel_invis; assumption]).
Qed.

Theorem if_transpose c th el : TL th -> TL el -> TS (SIf c th el).
Proof.
  intros Hth Hel E q sx sy sx' HS HA R HR.
  rewrite safe_stmt_if in HS. apply andb_true_iff in HS as [_ HS].
  apply andb_true_iff in HS as [HS Sel]. apply andb_true_iff in HS as [Pc Sth].
  rewrite adj_stmt_if in HA. destruct (has_act acts c); [discriminate|].
  rewrite (adj_safe _ _ _ _ _ Sth), (adj_safe _ _ _ _ _ Sel) in HA.
  destruct (adj_active fl acts th) as [a|] eqn:Ha; [|discriminate].
  destruct (adj_active fl acts el) as [b|] eqn:Hb; [|discriminate]. inversion HA; subst q. clear HA.
  rewrite run1_if in HR. destruct (eval sx c) as [v|] eqn:Ec; [|discriminate].
  assert (Ec' : eval sy c = Some v) by (rewrite (pure_eval acts LV E c sx sy Pc R); exact Ec).
  assert (Q : run [SIf c a b] sy = run (if v =? 0 then b else a) sy).
  { rewrite run_eq. cbn [runl]. rewrite run1_if, Ec'.
    destruct (runl gT gLT (if v =? 0 then b else a) sy); reflexivity. }
  rewrite Q. destruct (v =? 0).
  - apply (Hel E b sx sy sx' Sel Hb R HR).
  - apply (Hth E a sx sy sx' Sth Ha R HR).
Qed.

(* every statement of the linear subset *)
Theorem stmt_transpose : forall s, TS s.
Proof.
  induction s using stmt_ind'.
  - intros E q sx sy sx' HS HA R HR. cbn [adj_stmt] in HA.
    apply (assign_transpose fl acts LV L NDL E x ix e q sx sy sx' HS HA R HR).
  - apply if_transpose; apply seq_transpose; assumption.
  - apply do_transpose. apply seq_transpose. assumption.
  - intros E q sx sy sx' HS. discriminate.
  - intros E q sx sy sx' HS. discriminate.
  - intros E q sx sy sx' HS. discriminate.
  - intros E q sx sy sx' HS. cbn [safe_stmt] in HS. rewrite andb_false_r in HS. discriminate.
  - intros E q sx sy sx' HS. cbn [safe_stmt] in HS. rewrite andb_false_r in HS. discriminate.
  - intros E q sx sy sx' HS. cbn [safe_stmt] in HS. rewrite andb_false_r in HS. discriminate.
Qed.

Theorem prog_transpose p : TL p.
Proof. apply seq_transpose. apply Forall_forall. intros s _. apply stmt_transpose. Qed.

End Main.
