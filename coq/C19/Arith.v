(* C19 — the arithmetic of loop reversal: with start' = hi - rem (hi - lo) step, stop' = lo and
   step' = -step the reversed DO visits the values of the original DO in reverse order, unless the
   original DO is empty with 0 < |lo - hi| < |step|. *)
From Coq Require Import List ZArith Bool Lia.
Import ListNotations.
From PV Require Import Fort.Syntax Fort.Sem C19.Model.
Open Scope Z_scope.

Lemma zseq0_shift (f : Z -> Z) n : forall k, map f (zseq0 (k + 1) n) = map (fun i => f (i + 1)) (zseq0 k n).
Proof. induction n as [|n IH]; intro k; [reflexivity|]. cbn [zseq0 map]. rewrite IH. reflexivity. Qed.

Lemma ivals0_cons l t n : ivals0 l t (S n) = l :: ivals0 (l + t) t n.
Proof.
  unfold ivals0. cbn [zseq0 map]. f_equal; [ring|].
  rewrite (zseq0_shift (fun i => l + i * t) n 0). apply map_ext. intro i. ring.
Qed.

Lemma ivals0_snoc n : forall l t, ivals0 l t (S n) = ivals0 l t n ++ [l + Z.of_nat n * t].
Proof.
  induction n as [|n IH]; intros l t.
  - unfold ivals0; cbn; try reflexivity; f_equal; ring.
  - rewrite (ivals0_cons l t (S n)). rewrite (IH (l + t) t). rewrite (ivals0_cons l t n). cbn [app].
    f_equal. f_equal. f_equal. rewrite Nat2Z.inj_succ. ring.
Qed.

Lemma ivals0_rev n : forall l t, ivals0 (l + (Z.of_nat n - 1) * t) (- t) n = rev (ivals0 l t n).
Proof.
  induction n as [|n IH]; intros l t; [reflexivity|].
  rewrite (ivals0_cons l t n). cbn [rev]. rewrite <- (IH (l + t) t). rewrite (ivals0_snoc n). f_equal.
  - f_equal. rewrite Nat2Z.inj_succ. ring.
  - f_equal. rewrite Nat2Z.inj_succ. ring.
Qed.

(* the trip count of the reversed loop, without case analysis *)
Lemma rev_trip l h t : t <> 0 ->
  trip_count (h - Z.rem (h - l) t) l (- t) = Z.to_nat (Z.max 0 (Z.quot (h - l) t + 1)).
Proof.
  intro N. unfold trip_count. do 2 f_equal.
  pose proof (Z.quot_rem' (h - l) t) as E.
  replace (l - (h - Z.rem (h - l) t) + - t) with ((Z.quot (h - l) t + 1) * (- t)) by lia.
  apply Z.quot_mul. lia.
Qed.

Lemma quot_same_sign d t : t <> 0 -> 0 <= d * t -> Z.quot (d + t) t = Z.quot d t + 1 /\ 0 <= Z.quot d t.
Proof.
  intros N S. split.
  - replace (d + t) with (d + 1 * t) by ring. apply Z.quot_add; [exact N|]. nia.
  - destruct (Z_lt_le_dec 0 t) as [P|P].
    + apply Z.quot_pos; nia.
    + replace d with (- - d) by ring. replace t with (- - t) at 1 by ring.
      rewrite Z.quot_opp_opp by lia. apply Z.quot_pos; nia.
Qed.

Lemma quot_opp_sign d t : t <> 0 -> d * t < 0 -> Z.abs t <= Z.abs d ->
  Z.quot (d + t) t <= 0 /\ Z.quot d t + 1 <= 0.
Proof.
  intros N S A. destruct (Z_lt_le_dec 0 t) as [P|P].
  - assert (D : d <= - t) by nia. split.
    + replace (d + t) with (- (- (d + t))) by ring. rewrite Z.quot_opp_l by lia.
      pose proof (Z.quot_pos (- (d + t)) t). lia.
    + replace d with (- - d) by ring. rewrite Z.quot_opp_l by lia.
      pose proof (Z.quot_le_lower_bound (- d) t 1). lia.
  - assert (T : t < 0) by lia. assert (D : - t <= d) by nia. split.
    + replace t with (- - t) at 2 by ring. rewrite Z.quot_opp_r by lia.
      pose proof (Z.quot_pos (d + t) (- t)). lia.
    + replace t with (- - t) by ring. rewrite Z.quot_opp_r by lia.
      pose proof (Z.quot_le_lower_bound d (- t) 1). lia.
Qed.

Definition bad_empty (l h t : Z) : Prop :=
  trip_count l h t = 0%nat /\ 0 < Z.abs (l - h) < Z.abs t.

(* the heart of loop_node's correctness *)
Theorem rev_vals l h t : t <> 0 -> ~ bad_empty l h t ->
  ivals0 (h - Z.rem (h - l) t) (- t) (trip_count (h - Z.rem (h - l) t) l (- t))
  = rev (ivals0 l t (trip_count l h t)).
Proof.
  intros N G. rewrite rev_trip by exact N.
  destruct (Z_lt_le_dec (( h - l) * t) 0) as [S|S].
  - (* opposite signs: the original loop is empty *)
    assert (T0 : trip_count l h t = 0%nat \/ Z.abs t <= Z.abs (h - l)).
    { destruct (Z_lt_le_dec (Z.abs (h - l)) (Z.abs t)) as [A|A]; [left | right; exact A].
      unfold trip_count. replace (h - l + t) with ((h - l) + t) by ring.
      assert (Z.quot (h - l + t) t = 0).
      { destruct (Z_lt_le_dec 0 t) as [P|P].
        - apply Z.quot_small. nia.
        - replace (h - l + t) with (- - (h - l + t)) by ring. replace t with (- - t) at 2 by ring.
          rewrite Z.quot_opp_opp by lia. apply Z.quot_small. nia. }
      rewrite H. reflexivity. }
    assert (A : Z.abs t <= Z.abs (h - l)).
    { destruct T0 as [T0|A]; [|exact A].
      destruct (Z_lt_le_dec (Z.abs (h - l)) (Z.abs t)) as [B|B]; [|exact B].
      exfalso. apply G. split; [exact T0|]. replace (l - h) with (- (h - l)) by ring. rewrite Z.abs_opp. nia. }
    destruct (quot_opp_sign (h - l) t N S A) as [Q1 Q2].
    unfold trip_count. replace (h - l + t) with ((h - l) + t) by ring.
    rewrite !Z.max_l by lia. reflexivity.
  - destruct (quot_same_sign (h - l) t N S) as [Q1 Q2].
    unfold trip_count. replace (h - l + t) with ((h - l) + t) by ring. rewrite Q1.
    rewrite <- ivals0_rev. f_equal.
    rewrite Z.max_r by lia. rewrite Z2Nat.id by lia.
    pose proof (Z.quot_rem' (h - l) t). lia.
Qed.

(* unit steps: MOD(...) is not emitted, the start is hi itself *)
Corollary rev_vals_unit l h t : t = 1 \/ t = -1 ->
  ivals0 h (- t) (trip_count h l (- t)) = rev (ivals0 l t (trip_count l h t)).
Proof.
  intro U. assert (N : t <> 0) by lia.
  assert (R : Z.rem (h - l) t = 0).
  { destruct U; subst; [apply Z.rem_1_r|]. replace (-1) with (- (1)) by reflexivity.
    rewrite Z.rem_opp_r by lia. apply Z.rem_1_r. }
  pose proof (rev_vals l h t N) as H. rewrite R in H. replace (h - 0) with h in H by ring.
  apply H. intros [_ B]. lia.
Qed.

(* the final value of the DO variable is a function of the passive data only; not needed for the
   inner product, recorded for completeness: the two loops leave different values in it *)
Lemma trip_count_nonneg l h t : 0 <= Z.of_nat (trip_count l h t).
Proof. lia. Qed.
