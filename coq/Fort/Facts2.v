(* Permutation of independent iterations (item 6).  Continues Fort/Facts.v; no axioms.

   Setting: a family of runners [f i] (i in some index type I: loop-variable values for one loop,
   pairs for a loop nest, thread/chunk ids for an OpenMP schedule ...).  Footprints are taken
   relative to ONE store s: [f i s = Ok (sts i) (trs i) CNormal].  If no runner writes a location
   that another one reads upward-exposed, then running them one after another in any order replays
   exactly these traces, and the final store is determined location by location by the (unique)
   writer.  Locations written by several runners (the DO variable, OpenMP-private temporaries) are
   collected in a predicate P and excluded from the conclusion; because independence is stated with
   [exposed], a location that every iteration writes before reading creates no dependence. *)
From Coq Require Import List ZArith Bool Lia Permutation.
Import ListNotations.
From PV Require Import Fort.Syntax Fort.Sem Fort.Facts.
Open Scope Z_scope.

Lemma written_by_dec {I : Type} (trs : I -> list event) (l : loc) (ix : list I) :
  (exists i, In i ix /\ In l (writes (trs i))) \/ (forall i, In i ix -> ~ In l (writes (trs i))).
Proof.
  induction ix as [|i ix IH].
  - right. intros i [].
  - destruct (in_dec loc_eq_dec l (writes (trs i))) as [Y|N].
    + left. exists i. split; [left; reflexivity|exact Y].
    + destruct IH as [[j [Hj Wj]]|IH].
      * left. exists j. split; [right; exact Hj|exact Wj].
      * right. intros j [<-|Hj]; [exact N|apply IH, Hj].
Qed.

(* Sequential composition of pairwise independent runners, started from any store s0 that agrees
   with s on what they read. *)
Theorem seq_runs_indep {I : Type} (f : I -> runner) (sts : I -> store) (trs : I -> list event)
        (s : store) (ix : list I) :
  NoDup ix ->
  (forall i, In i ix -> frame_ok (f i)) ->
  (forall i, In i ix -> f i s = Ok (sts i) (trs i) CNormal) ->
  (forall i j l, In i ix -> In j ix -> i <> j ->
                 In l (writes (trs i)) -> ~ In l (exposed (trs j))) ->
  forall s0, bnd s0 = bnd s ->
  (forall i l, In i ix -> In l (exposed (trs i)) -> val s0 l = val s l) ->
  exists s', seq_runs (map f ix) s0 = Ok s' (flat_map trs ix) CNormal /\ bnd s' = bnd s /\
    (forall l, (forall i, In i ix -> ~ In l (writes (trs i))) -> val s' l = val s0 l) /\
    (forall i l, In i ix -> In l (writes (trs i)) ->
                 (forall j, In j ix -> j <> i -> ~ In l (writes (trs j))) ->
                 val s' l = val (sts i) l).
Proof.
  induction ix as [|i ix IH]; intros ND HF HR HD s0 Hb Hag.
  - exists s0. cbn [map seq_runs flat_map]. split; [reflexivity|]. split; [exact Hb|].
    split; [reflexivity|]. intros i l [].
  - inversion ND as [|? ? Ni ND']; subst.
    assert (Ri := HR i (or_introl eq_refl)).
    destruct (HF i (or_introl eq_refl) _ _ _ _ Ri s0 Hb) as [s1 [R1 [R2 [R3 R4]]]].
    { intros l Hl. apply (Hag i l (or_introl eq_refl) Hl). }
    destruct (IH ND') with (s0 := s1) as [s' [Q1 [Q2 [Q3 Q4]]]].
    + intros j Hj. apply HF. right; exact Hj.
    + intros j Hj. apply HR. right; exact Hj.
    + intros j k l Hj Hk. apply HD; right; assumption.
    + congruence.
    + intros j l Hj Hl. rewrite R4.
      * apply (Hag j l (or_intror Hj) Hl).
      * intro W. apply (HD i j l (or_introl eq_refl) (or_intror Hj)); [|exact W|exact Hl].
        intro E. subst j. contradiction.
    + exists s'. cbn [map seq_runs flat_map]. rewrite R1. unfold then_run; cbn [bind_run].
      rewrite Q1. cbn [prepend]. split; [reflexivity|]. split; [exact Q2|]. split.
      * intros l Hl. rewrite Q3.
        -- apply R4. apply Hl. left; reflexivity.
        -- intros j Hj. apply Hl. right; exact Hj.
      * intros i0 l [<-|Hi0] Wl Hoth.
        -- rewrite Q3; [apply R3, Wl|].
           intros j Hj. apply Hoth; [right; exact Hj|]. intro E. subst j. contradiction.
        -- apply Q4; [exact Hi0|exact Wl|]. intros j Hj Nj. apply Hoth; [right; exact Hj|exact Nj].
Qed.

(* Any two orders give the same store, except possibly on locations written by several runners
   (which must all be in P). *)
Theorem seq_runs_perm {I : Type} (f : I -> runner) (sts : I -> store) (trs : I -> list event)
        (P : loc -> Prop) (s : store) (ix ix' : list I) :
  NoDup ix -> Permutation ix ix' ->
  (forall i, In i ix -> frame_ok (f i)) ->
  (forall i, In i ix -> f i s = Ok (sts i) (trs i) CNormal) ->
  (forall i j l, In i ix -> In j ix -> i <> j ->
                 In l (writes (trs i)) -> ~ In l (exposed (trs j))) ->
  (forall i j l, In i ix -> In j ix -> i <> j ->
                 In l (writes (trs i)) -> In l (writes (trs j)) -> P l) ->
  exists sA sB,
    seq_runs (map f ix) s = Ok sA (flat_map trs ix) CNormal /\
    seq_runs (map f ix') s = Ok sB (flat_map trs ix') CNormal /\
    bnd sA = bnd s /\ bnd sB = bnd s /\
    (forall l, ~ P l -> val sA l = val sB l) /\
    (* and the common value is known: *)
    (forall i l, In i ix -> In l (writes (trs i)) -> ~ P l -> val sA l = val (sts i) l) /\
    (forall l, (forall i, In i ix -> ~ In l (writes (trs i))) -> val sA l = val s l).
Proof.
  intros ND PM HF HR HD HP.
  assert (IN : forall i, In i ix' -> In i ix)
    by (intros i Hi; apply (Permutation_in _ (Permutation_sym PM) Hi)).
  destruct (seq_runs_indep f sts trs s ix ND HF HR HD s eq_refl (fun _ _ _ _ => eq_refl))
    as [sA [A1 [A2 [A3 A4]]]].
  assert (HF' : forall i, In i ix' -> frame_ok (f i)) by (intros i Hi; apply HF, IN, Hi).
  assert (HR' : forall i, In i ix' -> f i s = Ok (sts i) (trs i) CNormal)
    by (intros i Hi; apply HR, IN, Hi).
  assert (HD' : forall i j l, In i ix' -> In j ix' -> i <> j ->
                 In l (writes (trs i)) -> ~ In l (exposed (trs j)))
    by (intros i j l Hi Hj; apply HD; apply IN; assumption).
  destruct (seq_runs_indep f sts trs s ix' (Permutation_NoDup PM ND) HF' HR' HD' s eq_refl
              (fun _ _ _ _ => eq_refl)) as [sB [B1 [B2 [B3 B4]]]].
  exists sA, sB. split; [exact A1|]. split; [exact B1|]. split; [exact A2|]. split; [exact B2|].
  assert (U : forall i l, In i ix -> In l (writes (trs i)) -> ~ P l ->
                          forall j, In j ix -> j <> i -> ~ In l (writes (trs j))).
  { intros i l Hi Wl NP j Hj Nj Wj. apply NP. apply (HP i j l Hi Hj); auto. }
  split; [|split].
  - intros l NP. destruct (written_by_dec trs l ix) as [[i [Hi Wl]]|N].
    + rewrite (A4 i l Hi Wl (U i l Hi Wl NP)). symmetry. apply (B4 i l).
      * apply (Permutation_in _ PM Hi).
      * exact Wl.
      * intros j Hj. apply (U i l Hi Wl NP), IN, Hj.
    + rewrite A3 by exact N. symmetry. apply B3. intros i Hi. apply N, IN, Hi.
  - intros i l Hi Wl NP. apply (A4 i l Hi Wl (U i l Hi Wl NP)).
  - exact A3.
Qed.

(* ------------------------------------------------------------------------------------------ *)
(** * DO-loop iterations in any order *)

(* [run] executes the loop body (e.g. [exec f body]); [vs] are the values taken by the loop variable x.
   Footprints [trs v] are those of the BODY started from s with x := v; the write of x that starts
   every iteration is added by [iter_run].  Independence is required only for locations other than
   the loop variable: x is written before it is read in every iteration, so it is never
   upward-exposed.  (The body may even write x; nothing is claimed about x at the end.) *)
Theorem iters_perm (run : runner) (x : name) (vs vs' : list Z) (s : store)
        (sts : Z -> store) (trs : Z -> list event) :
  frame_ok run -> NoDup vs -> Permutation vs vs' ->
  (forall v, In v vs -> exists c, run (upd s (x, []) v) = Ok (sts v) (trs v) c /\
                                  (c = CNormal \/ c = CCycle)) ->
  (forall v w l, In v vs -> In w vs -> v <> w -> l <> (x, []) -> In l (writes (trs v)) ->
                 ~ In l (exposed (trs w)) /\ ~ In l (writes (trs w))) ->
  exists sA sB,
    iters run x vs s = Ok sA (flat_map (fun v => Wr (x, []) :: trs v) vs) CNormal /\
    iters run x vs' s = Ok sB (flat_map (fun v => Wr (x, []) :: trs v) vs') CNormal /\
    bnd sA = bnd s /\ bnd sB = bnd s /\
    (forall l, l <> (x, []) -> val sA l = val sB l) /\
    (forall v l, In v vs -> In l (writes (trs v)) -> l <> (x, []) -> val sA l = val (sts v) l) /\
    (forall l, l <> (x, []) -> (forall v, In v vs -> ~ In l (writes (trs v))) -> val sA l = val s l).
Proof.
  intros Hrun ND PM HR HD.
  destruct (seq_runs_perm (iter_run run x) sts (fun v => Wr (x, []) :: trs v)
              (fun l => l = (x, [])) s vs vs' ND PM)
    as [sA [sB [A1 [A2 [A3 [A4 [A5 [A6 A7]]]]]]]].
  - intros v _. apply frame_iter_run, Hrun.
  - intros v Hv. destruct (HR v Hv) as [c [E Hc]]. rewrite (iter_run_ok _ _ _ _ _ _ _ E).
    destruct Hc as [-> | ->]; reflexivity.
  - intros v w l Hv Hw Nvw Wl El. apply in_exposed_cons_wr in El as [Nx El].
    cbn [writes In] in Wl. destruct Wl as [Wl|Wl]; [congruence|].
    destruct (HD v w l Hv Hw Nvw Nx Wl) as [D1 _]. exact (D1 El).
  - intros v w l Hv Hw Nvw Wv Ww. cbn [writes In] in Wv, Ww.
    destruct (loc_eq_dec l (x, [])) as [E|Nx]; [exact E|exfalso].
    destruct Wv as [Wv|Wv]; [congruence|]. destruct Ww as [Ww|Ww]; [congruence|].
    destruct (HD v w l Hv Hw Nvw Nx Wv) as [_ D2]. exact (D2 Ww).
  - exists sA, sB. unfold iters. split; [exact A1|]. split; [exact A2|].
    split; [exact A3|]. split; [exact A4|]. split; [exact A5|]. split.
    + intros v l Hv Wl Nx. apply (A6 v l Hv); [right; exact Wl|exact Nx].
    + intros l Nx N. apply A7. intros v Hv [E|W]; [congruence|exact (N v Hv W)].
Qed.

(* Variant with private locations (OpenMP PRIVATE scalars, inner loop variables): P-locations may be
   written by several iterations provided no iteration reads them upward-exposed from another
   iteration's write (first hypothesis, which covers every location but x); nothing is claimed
   about P-locations at the end.  [iters_perm] is the instance P := fun _ => False. *)
Theorem iters_perm_private (run : runner) (x : name) (P : loc -> Prop) (vs vs' : list Z) (s : store)
        (sts : Z -> store) (trs : Z -> list event) :
  frame_ok run -> NoDup vs -> Permutation vs vs' ->
  (forall v, In v vs -> exists c, run (upd s (x, []) v) = Ok (sts v) (trs v) c /\
                                  (c = CNormal \/ c = CCycle)) ->
  (forall v w l, In v vs -> In w vs -> v <> w -> l <> (x, []) -> In l (writes (trs v)) ->
                 ~ In l (exposed (trs w))) ->
  (forall v w l, In v vs -> In w vs -> v <> w -> l <> (x, []) -> In l (writes (trs v)) ->
                 In l (writes (trs w)) -> P l) ->
  exists sA sB,
    iters run x vs s = Ok sA (flat_map (fun v => Wr (x, []) :: trs v) vs) CNormal /\
    iters run x vs' s = Ok sB (flat_map (fun v => Wr (x, []) :: trs v) vs') CNormal /\
    bnd sA = bnd s /\ bnd sB = bnd s /\
    (forall l, l <> (x, []) -> ~ P l -> val sA l = val sB l) /\
    (forall v l, In v vs -> In l (writes (trs v)) -> l <> (x, []) -> ~ P l ->
                 val sA l = val (sts v) l) /\
    (forall l, l <> (x, []) -> (forall v, In v vs -> ~ In l (writes (trs v))) -> val sA l = val s l).
Proof.
  intros Hrun ND PM HR HD HW.
  destruct (seq_runs_perm (iter_run run x) sts (fun v => Wr (x, []) :: trs v)
              (fun l => l = (x, []) \/ P l) s vs vs' ND PM)
    as [sA [sB [A1 [A2 [A3 [A4 [A5 [A6 A7]]]]]]]].
  - intros v _. apply frame_iter_run, Hrun.
  - intros v Hv. destruct (HR v Hv) as [c [E Hc]]. rewrite (iter_run_ok _ _ _ _ _ _ _ E).
    destruct Hc as [-> | ->]; reflexivity.
  - intros v w l Hv Hw Nvw Wl El. apply in_exposed_cons_wr in El as [Nx El].
    cbn [writes In] in Wl. destruct Wl as [Wl|Wl]; [congruence|].
    exact (HD v w l Hv Hw Nvw Nx Wl El).
  - intros v w l Hv Hw Nvw Wv Ww. cbn [writes In] in Wv, Ww.
    destruct (loc_eq_dec l (x, [])) as [E|Nx]; [left; exact E|right].
    destruct Wv as [Wv|Wv]; [congruence|]. destruct Ww as [Ww|Ww]; [congruence|].
    exact (HW v w l Hv Hw Nvw Nx Wv Ww).
  - exists sA, sB. unfold iters. split; [exact A1|]. split; [exact A2|].
    split; [exact A3|]. split; [exact A4|]. split; [|split].
    + intros l Nx NP. apply A5. intros [E|Q]; [exact (Nx E)|exact (NP Q)].
    + intros v l Hv Wl Nx NP. apply (A6 v l Hv); [right; exact Wl|].
      intros [E|Q]; [exact (Nx E)|exact (NP Q)].
    + intros l Nx N. apply A7. intros v Hv [E|W]; [congruence|exact (N v Hv W)].
Qed.

(* The same, phrased for a whole [do_loop]: the sequential loop (n iterations from iteration 0,
   values l, l+t, ...) agrees with ANY schedule [vs'] of its iterations on every location other than
   the loop variable. *)
Theorem do_loop_any_order (run : runner) (x : name) (l t : Z) (n : nat) (vs' : list Z) (s : store)
        (sts : Z -> store) (trs : Z -> list event) :
  frame_ok run -> t <> 0 -> Permutation (ivals l t 0 n) vs' ->
  (forall v, In v (ivals l t 0 n) ->
             exists c, run (upd s (x, []) v) = Ok (sts v) (trs v) c /\ (c = CNormal \/ c = CCycle)) ->
  (forall v w l0, In v (ivals l t 0 n) -> In w (ivals l t 0 n) -> v <> w -> l0 <> (x, []) ->
                  In l0 (writes (trs v)) -> ~ In l0 (exposed (trs w)) /\ ~ In l0 (writes (trs w))) ->
  exists sA sB,
    do_loop run x l t n 0 s =
      Ok (upd sA (x, []) (l + Z.of_nat n * t))
         (flat_map (fun v => Wr (x, []) :: trs v) (ivals l t 0 n) ++ [Wr (x, [])]) CNormal /\
    iters run x vs' s = Ok sB (flat_map (fun v => Wr (x, []) :: trs v) vs') CNormal /\
    bnd sA = bnd s /\ bnd sB = bnd s /\
    (forall l0, l0 <> (x, []) -> val (upd sA (x, []) (l + Z.of_nat n * t)) l0 = val sB l0) /\
    (forall v l0, In v (ivals l t 0 n) -> In l0 (writes (trs v)) -> l0 <> (x, []) ->
                  val sA l0 = val (sts v) l0) /\
    (forall l0, l0 <> (x, []) -> (forall v, In v (ivals l t 0 n) -> ~ In l0 (writes (trs v))) ->
                val sA l0 = val s l0).
Proof.
  intros Hrun Nt PM HR HD.
  destruct (iters_perm run x _ vs' s sts trs Hrun (ivals_NoDup l t 0 n Nt) PM HR HD)
    as [sA [sB [A1 [A2 [A3 [A4 [A5 [A6 A7]]]]]]]].
  exists sA, sB. split.
  - rewrite do_loop_iters, A1. cbn [bind_run set_run prepend]. rewrite Z.add_0_l. reflexivity.
  - split; [exact A2|]. split; [exact A3|]. split; [exact A4|]. split; [|split; assumption].
    intros l0 Nx. rewrite val_upd_other by exact Nx. apply A5, Nx.
Qed.

(* Instance for a DO statement of the language: if [SDo x lo hi st body] is run with enough fuel
   and its iterations are independent, the result is that of any schedule of the iterations. *)
Theorem exec_do_any_order f x lo hi st body s l h t (vs' : list Z)
        (sts : Z -> store) (trs : Z -> list event) :
  eval s lo = Some l -> eval s hi = Some h -> eval s st = Some t -> t <> 0 ->
  let vs := ivals l t 0 (trip_count l h t) in
  Permutation vs vs' ->
  (forall v, In v vs -> exists c, exec (S f) body (upd s (x, []) v) = Ok (sts v) (trs v) c /\
                                  (c = CNormal \/ c = CCycle)) ->
  (forall v w l0, In v vs -> In w vs -> v <> w -> l0 <> (x, []) -> In l0 (writes (trs v)) ->
                  ~ In l0 (exposed (trs w)) /\ ~ In l0 (writes (trs w))) ->
  exists s' tr sB,
    exec (S (S f)) [SDo x lo hi st body] s = Ok s' tr CNormal /\
    tr = rds (ereads s lo ++ ereads s hi ++ ereads s st) ++
         flat_map (fun v => Wr (x, []) :: trs v) vs ++ [Wr (x, [])] /\
    iters (exec (S f) body) x vs' s = Ok sB (flat_map (fun v => Wr (x, []) :: trs v) vs') CNormal /\
    bnd s' = bnd s /\ bnd sB = bnd s /\
    (forall l0, l0 <> (x, []) -> val s' l0 = val sB l0).
Proof.
  intros E1 E2 E3 Nt vs PM HR HD.
  destruct (do_loop_any_order (exec (S f) body) x l t (trip_count l h t) vs' s sts trs
              (frame_exec _ _) Nt PM HR HD) as [sA [sB [A1 [A2 [A3 [A4 [A5 _]]]]]]].
  eexists _, _, sB. split.
  - rewrite (exec_do f x lo hi st body s l h t E1 E2 E3 Nt), A1. cbn [prepend]. reflexivity.
  - split; [reflexivity|]. split; [exact A2|]. split; [exact A3|]. split; [exact A4|exact A5].
Qed.

Print Assumptions seq_runs_perm.
Print Assumptions iters_perm.
Print Assumptions iters_perm_private.
Print Assumptions exec_do_any_order.
