(* Static (name-level) footprints: every location read / written by a run of [ss] has a name that
   occurs syntactically in [ss].  Consequences: name-level frame and "not assigned => unchanged".
   Continues Fort/Facts.v; no axioms. *)
From Coq Require Import List ZArith Bool Lia.
Import ListNotations.
From PV Require Import Fort.Syntax Fort.Sem Fort.Facts.
Open Scope Z_scope.

(* names occurring in an expression (over-approximates [ereads]: the unevaluated array argument of an
   inquiry intrinsic is included) *)
Fixpoint enames (e : expr) : list name :=
  match e with
  | ELit _ => []
  | EVar x => [x]
  | EIdx a ix => a :: flat_map enames ix
  | EUn _ e1 => enames e1
  | EBin _ l r => enames l ++ enames r
  | EIntr _ args => flat_map enames args
  end.

(* names that may be written: assignment targets and DO variables *)
Fixpoint wnames_stmt (st : stmt) : list name :=
  match st with
  | SAssign x _ _ => [x]
  | SIf _ th el => flat_map wnames_stmt th ++ flat_map wnames_stmt el
  | SDo x _ _ _ body => x :: flat_map wnames_stmt body
  | SRegion _ body => flat_map wnames_stmt body
  | SDir _ body => flat_map wnames_stmt body
  | SExit | SCycle | SReturn | SPrint _ => []
  end.
Definition wnames (ss : list stmt) : list name := flat_map wnames_stmt ss.

(* names that may be read *)
Fixpoint rnames_stmt (st : stmt) : list name :=
  match st with
  | SAssign _ ix e => enames e ++ flat_map enames ix
  | SIf c th el => enames c ++ flat_map rnames_stmt th ++ flat_map rnames_stmt el
  | SDo _ lo hi st body => enames lo ++ enames hi ++ enames st ++ flat_map rnames_stmt body
  | SPrint es => flat_map enames es
  | SRegion _ body => flat_map rnames_stmt body
  | SDir _ body => flat_map rnames_stmt body
  | SExit | SCycle | SReturn => []
  end.
Definition rnames (ss : list stmt) : list name := flat_map rnames_stmt ss.

Lemma wnames_cons st ss : wnames (st :: ss) = wnames_stmt st ++ wnames ss.
Proof. reflexivity. Qed.
Lemma rnames_cons st ss : rnames (st :: ss) = rnames_stmt st ++ rnames ss.
Proof. reflexivity. Qed.
Lemma wnames_app ss1 ss2 : wnames (ss1 ++ ss2) = wnames ss1 ++ wnames ss2.
Proof. apply flat_map_app. Qed.
Lemma rnames_app ss1 ss2 : rnames (ss1 ++ ss2) = rnames ss1 ++ rnames ss2.
Proof. apply flat_map_app. Qed.

(** ** Expressions *)

Lemma ereads_list_names s es l :
  Forall (fun e => forall l, In l (ereads s e) -> In (fst l) (enames e)) es ->
  In l (flat_map (ereads s) es) -> In (fst l) (flat_map enames es).
Proof.
  induction 1 as [|e es He Hes IH]; cbn [flat_map]; intro H; [exact H|].
  apply in_or_app. apply in_app_or in H as [H|H]; [left; apply He, H|right; apply IH, H].
Qed.

Lemma ereads_names s e : forall l, In l (ereads s e) -> In (fst l) (enames e).
Proof.
  induction e using expr_ind'; intros l Hl; cbn [ereads enames] in *.
  - destruct Hl.
  - destruct Hl as [<-|[]]. left; reflexivity.
  - apply in_app_or in Hl as [Hl|Hl].
    + right. apply (ereads_list_names s ix l H Hl).
    + destruct (opt_all (map (eval s) ix)); [|destruct Hl]. destruct Hl as [<-|[]]. left; reflexivity.
  - apply IHe, Hl.
  - apply in_or_app. apply in_app_or in Hl as [Hl|Hl]; [left; apply IHe1, Hl|right; apply IHe2, Hl].
  - destruct (is_inquiry f).
    + destruct args as [|a0 r]; [destruct Hl|]. cbn [flat_map]. apply in_or_app. right.
      apply (ereads_list_names s r l (Forall_inv_tail H) Hl).
    + apply (ereads_list_names s args l H Hl).
Qed.

Lemma ereads_names_list s es l : In l (flat_map (ereads s) es) -> In (fst l) (flat_map enames es).
Proof.
  apply ereads_list_names. apply Forall_forall. intros e _. apply ereads_names.
Qed.

(** ** Runners *)

Definition fp_ok (W R : list name) (r : runner) : Prop :=
  forall s s' tr c, r s = Ok s' tr c ->
  (forall l, In l (writes tr) -> In (fst l) W) /\ (forall l, In l (reads tr) -> In (fst l) R).

Lemma fp_weaken W R W' R' r : incl W W' -> incl R R' -> fp_ok W R r -> fp_ok W' R' r.
Proof.
  intros IW IR H s s' tr c E. destruct (H _ _ _ _ E) as [H1 H2].
  split; intros l Hl; [apply IW, H1, Hl|apply IR, H2, Hl].
Qed.

Lemma fp_ext W R (r r' : runner) : (forall s, r s = r' s) -> fp_ok W R r' -> fp_ok W R r.
Proof. intros E H s s' tr c Hr. rewrite E in Hr. exact (H _ _ _ _ Hr). Qed.

Lemma fp_ret W R : fp_ok W R (fun s => Ok s [] CNormal).
Proof. intros s s' tr c H. inversion H; subst. split; intros l []. Qed.

Lemma fp_set_run W R x v : In (fst x) W -> fp_ok W R (set_run x v).
Proof.
  intros Hx s s' tr c H. unfold set_run in H. inversion H; subst. cbn [writes reads In].
  split; [intros l [<-|[]]; exact Hx|intros l []].
Qed.

Lemma fp_map_ctl W R g (r : runner) : fp_ok W R r -> fp_ok W R (fun s => map_ctl g (r s)).
Proof.
  intros Hr s s' tr c H. cbv beta in H. destruct (r s) as [sa tra ca| |] eqn:E; try discriminate.
  cbn [map_ctl] in H. inversion H; subst. exact (Hr _ _ _ _ E).
Qed.

Lemma fp_bind W R g (r K : runner) :
  fp_ok W R r -> fp_ok W R K -> fp_ok W R (fun s => bind_run g (r s) K).
Proof.
  intros Hr HK s s' tr c H. cbv beta in H.
  destruct (r s) as [sa tra ca| |] eqn:E; try discriminate.
  destruct (Hr _ _ _ _ E) as [A1 A2].
  destruct ca; try (cbn [bind_run] in H; inversion H; subst; split; assumption).
  cbn [bind_run] in H. apply prepend_ok_inv in H as [trb [E2 ->]].
  destruct (HK _ _ _ _ E2) as [B1 B2]. rewrite writes_app, reads_app.
  split; intros l Hl; apply in_app_or in Hl as [Hl|Hl]; auto.
Qed.

Lemma fp_iter_run W R run x v : In x W -> fp_ok W R run -> fp_ok W R (iter_run run x v).
Proof.
  intros Hx Hr. unfold iter_run.
  apply (fp_bind W R (fun c => c) (set_run (x, []) v) (fun s1 => map_ctl cyc2norm (run s1))).
  - apply fp_set_run. exact Hx.
  - apply fp_map_ctl, Hr.
Qed.

Lemma fp_do_loop W R run x l t :
  In x W -> fp_ok W R run -> forall n k, fp_ok W R (do_loop run x l t n k).
Proof.
  intros Hx Hr. induction n as [|n IH]; intro k.
  - apply (fp_set_run W R (x, []) (l + k * t)). exact Hx.
  - eapply fp_ext; [intro s; apply do_loop_S|].
    apply (fp_bind W R exit2norm (iter_run run x (l + k * t)) (do_loop run x l t n (k + 1))).
    + apply fp_iter_run; assumption.
    + apply IH.
Qed.

Lemma reads_region r tra c :
  reads (Enter r :: tra ++ match c with CNormal => [Leave r] | _ => [] end) = reads tra.
Proof. cbn [reads]. rewrite reads_app. destruct c; cbn [reads]; apply app_nil_r. Qed.

Lemma reads_rds_app R tr : reads (rds R ++ tr) = R ++ reads tr.
Proof. rewrite reads_app, reads_rds. reflexivity. Qed.

Lemma fp_prepend_rds W R (Rs : list loc) o s' tr c :
  (forall l, In l Rs -> In (fst l) R) ->
  (forall s0 tr0 c0, o = Ok s0 tr0 c0 ->
     (forall l, In l (writes tr0) -> In (fst l) W) /\ (forall l, In l (reads tr0) -> In (fst l) R)) ->
  prepend (rds Rs) o = Ok s' tr c ->
  (forall l, In l (writes tr) -> In (fst l) W) /\ (forall l, In l (reads tr) -> In (fst l) R).
Proof.
  intros HR Ho H. apply prepend_ok_inv in H as [tr0 [E ->]].
  destruct (Ho _ _ _ E) as [A1 A2]. rewrite writes_rds_app, reads_rds_app.
  split; [exact A1|]. intros l Hl. apply in_app_or in Hl as [Hl|Hl]; auto.
Qed.

Lemma fp_exec_stmt (run : list stmt -> store -> outcome) st :
  (forall ss, fp_ok (wnames ss) (rnames ss) (run ss)) ->
  fp_ok (wnames_stmt st) (rnames_stmt st) (exec_stmt run st).
Proof.
  intros Hrun.
  destruct st as [x ix e|c th el|x lo hi st body| | | |es|r body|d body];
    intros s s' tr c0 H; cbn [exec_stmt wnames_stmt rnames_stmt] in *.
  - destruct (opt_all (map (eval s) ix)) as [vs|]; try discriminate.
    destruct (eval s e) as [v|]; try discriminate. inversion H; subst; clear H.
    rewrite writes_rds_app, reads_rds_app. cbn [writes reads]. rewrite app_nil_r. split.
    + intros l [<-|[]]. left; reflexivity.
    + intros l Hl. apply in_or_app. apply in_app_or in Hl as [Hl|Hl];
        [left; apply (ereads_names s e l Hl)|right; apply (ereads_names_list s ix l Hl)].
  - destruct (eval s c) as [v|]; try discriminate.
    apply (fp_prepend_rds _ _ _ _ _ _ _) with (3 := H).
    + intros l Hl. apply in_or_app. left. apply (ereads_names s c l Hl).
    + intros s0 tr0 c1 E. destruct (Hrun _ _ _ _ _ E) as [A1 A2].
      split; intros l Hl; [specialize (A1 l Hl)|specialize (A2 l Hl)];
        destruct (v =? 0); unfold wnames, rnames in *;
        repeat (apply in_or_app; auto; right); auto; apply in_or_app; auto.
  - destruct (eval s lo) as [l|]; try discriminate.
    destruct (eval s hi) as [h|]; try discriminate.
    destruct (eval s st) as [t|]; try discriminate.
    destruct (t =? 0); try discriminate.
    apply (fp_prepend_rds _ _ _ _ _ _ _) with (3 := H).
    + intros l0 Hl. apply in_app_or in Hl as [Hl|Hl].
      * apply in_or_app. left. apply (ereads_names s lo l0 Hl).
      * apply in_or_app. right. apply in_or_app. apply in_app_or in Hl as [Hl|Hl].
        -- left. apply (ereads_names s hi l0 Hl).
        -- right. apply in_or_app. left. apply (ereads_names s st l0 Hl).
    + intros s0 tr0 c1 E.
      refine (fp_do_loop (x :: wnames body) _ (run body) x l t (or_introl eq_refl) _ _ _ _ _ _ _ E).
      apply (fp_weaken (wnames body) (rnames body)); [| |apply Hrun].
      * intros a Ha. right; exact Ha.
      * intros a Ha. apply in_or_app. right. apply in_or_app. right. apply in_or_app. right. exact Ha.
  - inversion H; subst. split; intros l [].
  - inversion H; subst. split; intros l [].
  - inversion H; subst. split; intros l [].
  - destruct (opt_all (map (eval s) es)) as [vs|]; try discriminate.
    injection H as I1 I2 I3; subst s' tr c0.
    rewrite writes_rds_app, reads_rds_app. cbn [writes reads]. rewrite app_nil_r. split.
    + intros l [].
    + intros l Hl. apply (ereads_names_list s es l Hl).
  - destruct (run body s) as [sa tra ca| |] eqn:E; try discriminate.
    inversion H; subst; clear H. rewrite writes_region, reads_region. exact (Hrun _ _ _ _ _ E).
  - exact (Hrun _ _ _ _ _ H).
Qed.

Lemma fp_exec f : forall ss, fp_ok (wnames ss) (rnames ss) (exec f ss).
Proof.
  induction f as [|f IH]; intro ss.
  - intros s s' tr c H. discriminate.
  - destruct ss as [|st rest]; [apply fp_ret|].
    eapply fp_ext; [intro s; apply exec_cons|]. rewrite wnames_cons, rnames_cons.
    apply (fp_bind _ _ (fun c => c) (exec_stmt (exec f) st) (exec f rest)).
    + apply (fp_weaken (wnames_stmt st) (rnames_stmt st)); [apply incl_appl, incl_refl..|].
      apply fp_exec_stmt, IH.
    + apply (fp_weaken (wnames rest) (rnames rest)); [apply incl_appr, incl_refl..|]. apply IH.
Qed.

(** ** Main statements *)

Theorem exec_writes_names f ss s s' tr c l :
  exec f ss s = Ok s' tr c -> In l (writes tr) -> In (fst l) (wnames ss).
Proof. intros H. apply (fp_exec f ss _ _ _ _ H). Qed.

Theorem exec_reads_names f ss s s' tr c l :
  exec f ss s = Ok s' tr c -> In l (reads tr) -> In (fst l) (rnames ss).
Proof. intros H. apply (fp_exec f ss _ _ _ _ H). Qed.

(* a location whose name is neither an assignment target nor a DO variable in [ss] is unchanged *)
Theorem exec_unchanged_names f ss s s' tr c l :
  exec f ss s = Ok s' tr c -> ~ In (fst l) (wnames ss) -> val s' l = val s l.
Proof.
  intros H N. apply (exec_unchanged _ _ _ _ _ _ _ H). intro W. apply N.
  apply (exec_writes_names _ _ _ _ _ _ _ H W).
Qed.

(* under the hypotheses of [exec_frame], agreement on a location is preserved *)
Theorem exec_frame_agree f ss s1 s1' tr c s2 :
  exec f ss s1 = Ok s1' tr c -> bnd s2 = bnd s1 ->
  (forall l, In l (exposed tr) -> val s2 l = val s1 l) ->
  exists s2', exec f ss s2 = Ok s2' tr c /\ bnd s2' = bnd s2 /\
    (forall l, In l (writes tr) -> val s2' l = val s1' l) /\
    (forall l, ~ In l (writes tr) -> val s2' l = val s2 l) /\
    (forall l, val s2 l = val s1 l -> val s2' l = val s1' l).
Proof.
  intros H Hb Hag. destruct (exec_frame _ _ _ _ _ _ _ H Hb Hag) as [s2' [R1 [R2 [R3 R4]]]].
  exists s2'. repeat (split; [assumption|]). intros l E.
  destruct (in_dec loc_eq_dec l (writes tr)) as [I|N]; [apply R3, I|].
  rewrite R4 by exact N. rewrite (exec_unchanged _ _ _ _ _ _ _ H N). exact E.
Qed.

(* name-level frame: stores with the same bounds that agree on every location whose NAME is read in
   [ss] produce the same trace and control state; the final stores agree wherever the initial ones
   did (in particular on all locations with a read name) and on everything written; locations whose
   name is not written are unchanged. *)
Theorem exec_frame_names f ss s1 s1' tr c s2 :
  exec f ss s1 = Ok s1' tr c -> bnd s2 = bnd s1 ->
  (forall l, In (fst l) (rnames ss) -> val s2 l = val s1 l) ->
  exists s2', exec f ss s2 = Ok s2' tr c /\ bnd s2' = bnd s2 /\
    (forall l, In l (writes tr) -> val s2' l = val s1' l) /\
    (forall l, val s2 l = val s1 l -> val s2' l = val s1' l) /\
    (forall l, ~ In (fst l) (wnames ss) -> val s2' l = val s2 l).
Proof.
  intros H Hb Hag.
  destruct (exec_frame_agree f ss s1 s1' tr c s2 H Hb) as [s2' [R1 [R2 [R3 [R4 R5]]]]].
  { intros l Hl. apply Hag. apply (exec_reads_names _ _ _ _ _ _ _ H), exposed_incl_reads, Hl. }
  exists s2'. repeat (split; [assumption|]). intros l N. apply R4. intro W. apply N.
  apply (exec_writes_names _ _ _ _ _ _ _ H W).
Qed.

Print Assumptions exec_frame_names.
Print Assumptions exec_unchanged_names.
