(* MiniFortran semantics: a fuelled big-step interpreter producing the final store, a trace of
   events (reads, writes, prints, PSyData enter/leave) and the control state.  Fortran rules:
   DO bounds and step are evaluated once, trip count max 0 ((hi-lo+st) quot st), the DO variable
   is defined on exit; `/` truncates and MOD takes the sign of the dividend; faults (division by
   zero, zero step, negative exponent) and fuel exhaustion are distinct outcomes. *)
From Coq Require Import List ZArith Bool Lia.
Import ListNotations.
From PV Require Import Fort.Syntax.
Open Scope Z_scope.

Record store := mkStore { val : loc -> Z; bnd : name -> list (Z * Z) }.

Definition upd (s : store) (l : loc) (v : Z) : store :=
  mkStore (fun l' => if loc_eqb l' l then v else val s l') (bnd s).

Inductive event := Rd (l : loc) | Wr (l : loc) | Out (vs : list Z) | Enter (r : nat) | Leave (r : nat).
Inductive ctl := CNormal | CExit | CCycle | CReturn.
Inductive outcome := Ok (s : store) (tr : list event) (c : ctl) | Fault | OutOfFuel.

Fixpoint opt_all {A} (l : list (option A)) : option (list A) :=
  match l with
  | [] => Some []
  | None :: _ => None
  | Some x :: r => match opt_all r with Some xs => Some (x :: xs) | None => None end
  end.

Definition b2z (b : bool) : Z := if b then 1 else 0.

Definition eval_bin (o : binop) (a b : Z) : option Z :=
  match o with
  | Add => Some (a + b) | Sub => Some (a - b) | Mul => Some (a * b)
  | Div => if b =? 0 then None else Some (Z.quot a b)
  | Pow => if b <? 0 then None else Some (Z.pow a b)
  | Eq => Some (b2z (a =? b)) | Ne => Some (b2z (negb (a =? b)))
  | Lt => Some (b2z (a <? b)) | Le => Some (b2z (a <=? b))
  | Gt => Some (b2z (a >? b)) | Ge => Some (b2z (a >=? b))
  | And => Some (b2z (negb (a =? 0) && negb (b =? 0)))
  | Or => Some (b2z (negb (a =? 0) || negb (b =? 0)))
  end.

Definition eval_un (o : unop) (a : Z) : Z :=
  match o with Neg => - a | Not => b2z (a =? 0) end.

Definition dim_of (s : store) (a : name) (d : Z) : option (Z * Z) :=
  if d <? 1 then None else nth_error (bnd s a) (Z.to_nat (d - 1)).

Definition eval_intr (s : store) (f : intr) (args : list expr) (vs : list Z) : option Z :=
  match f, vs with
  | IMin, v :: r => Some (fold_left Z.min r v)
  | IMax, v :: r => Some (fold_left Z.max r v)
  | IMod, [a; b] => if b =? 0 then None else Some (Z.rem a b)
  | IAbs, [a] => Some (Z.abs a)
  | ISign, [a; b] => Some (if b >=? 0 then Z.abs a else - Z.abs a)
  | ILbound, [d] => match args with EVar a :: _ => option_map fst (dim_of s a d) | _ => None end
  | IUbound, [d] => match args with EVar a :: _ => option_map snd (dim_of s a d) | _ => None end
  | ISize, [d] => match args with EVar a :: _ => option_map (fun p => Z.max 0 (snd p - fst p + 1)) (dim_of s a d) | _ => None end
  | _, _ => None
  end.

Definition is_inquiry (f : intr) : bool :=
  match f with ILbound | IUbound | ISize => true | _ => false end.

Fixpoint eval (s : store) (e : expr) : option Z :=
  match e with
  | ELit z => Some z
  | EVar x => Some (val s (x, []))
  | EIdx a ix => match opt_all (map (eval s) ix) with Some vs => Some (val s (a, vs)) | None => None end
  | EUn o e1 => option_map (eval_un o) (eval s e1)
  | EBin o l r => match eval s l, eval s r with Some a, Some b => eval_bin o a b | _, _ => None end
  | EIntr f args =>
      (* inquiry intrinsics do not evaluate their array argument *)
      let ovs := if is_inquiry f
                 then match args with [] => None | _ :: r => opt_all (map (eval s) r) end
                 else opt_all (map (eval s) args) in
      match ovs with
      | Some vs => eval_intr s f args vs
      | None => None
      end
  end.

(* the locations whose value evaluating [e] reads *)
Fixpoint ereads (s : store) (e : expr) : list loc :=
  match e with
  | ELit _ => []
  | EVar x => [(x, [])]
  | EIdx a ix => flat_map (ereads s) ix ++
                 match opt_all (map (eval s) ix) with Some vs => [(a, vs)] | None => [] end
  | EUn _ e1 => ereads s e1
  | EBin _ l r => ereads s l ++ ereads s r
  | EIntr f args => if is_inquiry f then match args with [] => [] | _ :: r => flat_map (ereads s) r end else flat_map (ereads s) args
  end.

Definition prepend (tr : list event) (o : outcome) : outcome :=
  match o with Ok s tr' c => Ok s (tr ++ tr') c | other => other end.

Definition trip_count (l h t : Z) : nat := Z.to_nat (Z.max 0 (Z.quot (h - l + t) t)).

(* n remaining iterations, k iterations done; [run] executes the body once *)
Fixpoint do_loop (run : store -> outcome) (x : name) (l t : Z) (n : nat) (k : Z) (s : store) : outcome :=
  let s1 := upd s (x, []) (l + k * t) in
  match n with
  | O => Ok s1 [Wr (x, [])] CNormal
  | S n' =>
      match run s1 with
      | Ok s2 tr c =>
          match c with
          | CNormal | CCycle => prepend (Wr (x, []) :: tr) (do_loop run x l t n' (k + 1) s2)
          | CExit => Ok s2 (Wr (x, []) :: tr) CNormal
          | CReturn => Ok s2 (Wr (x, []) :: tr) CReturn
          end
      | other => other
      end
  end.

Definition rds (ls : list loc) : list event := map Rd ls.

Fixpoint exec (fuel : nat) (ss : list stmt) (s : store) : outcome :=
  match fuel with
  | O => OutOfFuel
  | S f =>
    match ss with
    | [] => Ok s [] CNormal
    | st :: rest =>
      let r1 :=
        match st with
        | SAssign x ix e =>
            match opt_all (map (eval s) ix), eval s e with
            | Some vs, Some v =>
                Ok (upd s (x, vs) v) (rds (ereads s e ++ flat_map (ereads s) ix) ++ [Wr (x, vs)]) CNormal
            | _, _ => Fault
            end
        | SIf c th el =>
            match eval s c with
            | Some v => prepend (rds (ereads s c)) (exec f (if v =? 0 then el else th) s)
            | None => Fault
            end
        | SDo x lo hi st body =>
            match eval s lo, eval s hi, eval s st with
            | Some l, Some h, Some t =>
                if t =? 0 then Fault
                else prepend (rds (ereads s lo ++ ereads s hi ++ ereads s st))
                             (do_loop (exec f body) x l t (trip_count l h t) 0 s)
            | _, _, _ => Fault
            end
        | SExit => Ok s [] CExit
        | SCycle => Ok s [] CCycle
        | SReturn => Ok s [] CReturn
        | SPrint es =>
            match opt_all (map (eval s) es) with
            | Some vs => Ok s (rds (flat_map (ereads s) es) ++ [Out vs]) CNormal
            | None => Fault
            end
        | SRegion r body =>
            match exec f body s with
            | Ok s1 tr c => Ok s1 (Enter r :: tr ++ (match c with CNormal => [Leave r] | _ => [] end)) c
            | other => other
            end
        | SDir _ body => exec f body s
        end in
      match r1 with
      | Ok s1 tr1 CNormal => prepend tr1 (exec f rest s1)
      | other => other
      end
    end
  end.

(* footprints of a trace *)
Fixpoint reads (tr : list event) : list loc :=
  match tr with [] => [] | Rd l :: r => l :: reads r | _ :: r => reads r end.
Fixpoint writes (tr : list event) : list loc :=
  match tr with [] => [] | Wr l :: r => l :: writes r | _ :: r => writes r end.
Fixpoint outputs (tr : list event) : list (list Z) :=
  match tr with [] => [] | Out v :: r => v :: outputs r | _ :: r => outputs r end.
Fixpoint regions (tr : list event) : list event :=
  match tr with [] => [] | Enter r :: t => Enter r :: regions t | Leave r :: t => Leave r :: regions t | _ :: t => regions t end.

(* upward-exposed reads: read before any write to the same location *)
Fixpoint exposed_from (written : list loc) (tr : list event) : list loc :=
  match tr with
  | [] => []
  | Rd l :: r => if existsb (loc_eqb l) written then exposed_from written r else l :: exposed_from written r
  | Wr l :: r => exposed_from (l :: written) r
  | _ :: r => exposed_from written r
  end.
Definition exposed (tr : list event) : list loc := exposed_from [] tr.

(* helpers for executable checks: a store from association lists *)
Definition store_of (vals : list (loc * Z)) (bnds : list (name * list (Z * Z))) : store :=
  mkStore (fun l => match find (fun p => loc_eqb (fst p) l) vals with Some p => snd p | None => 0 end)
          (fun a => match find (fun p => Nat.eqb (fst p) a) bnds with Some p => snd p | None => [] end).
