(* [exec] respects store equivalence for ALL outcomes (Ok, Fault, OutOfFuel).
   Complements [exec_steq] of Fort/Facts.v, which only covers successful runs.  No axioms. *)
From Coq Require Import List ZArith Bool Lia.
Import ListNotations.
From PV Require Import Fort.Syntax Fort.Sem Fort.Facts.
Open Scope Z_scope.

(* outcome equivalence: same kind of outcome, same trace and control state, equivalent stores *)
Definition oeq (o1 o2 : outcome) : Prop :=
  match o1, o2 with
  | Ok s1 t1 c1, Ok s2 t2 c2 => steq s1 s2 /\ t1 = t2 /\ c1 = c2
  | Fault, Fault => True
  | OutOfFuel, OutOfFuel => True
  | _, _ => False
  end.

Lemma oeq_refl o : oeq o o.
Proof. destruct o; cbn [oeq]; auto using steq_refl. Qed.

Lemma oeq_sym o1 o2 : oeq o1 o2 -> oeq o2 o1.
Proof.
  destruct o1, o2; cbn [oeq]; auto. intros [H1 [H2 H3]]. auto using steq_sym.
Qed.

Lemma oeq_trans o1 o2 o3 : oeq o1 o2 -> oeq o2 o3 -> oeq o1 o3.
Proof.
  destruct o1, o2, o3; cbn [oeq]; try tauto.
  intros [H1 [H2 H3]] [H4 [H5 H6]]. split; [eapply steq_trans; eassumption|]. split; congruence.
Qed.

Lemma oeq_ok_inv o1 o2 s1 tr c :
  oeq o1 o2 -> o1 = Ok s1 tr c -> exists s2, o2 = Ok s2 tr c /\ steq s1 s2.
Proof.
  intros H ->. destruct o2 as [s2 t2 c2| |]; cbn [oeq] in H; try contradiction.
  destruct H as [H1 [-> ->]]. eauto.
Qed.

Lemma oeq_fault_inv o1 o2 : oeq o1 o2 -> o1 = Fault -> o2 = Fault.
Proof. intros H ->. destruct o2; cbn [oeq] in H; try contradiction. reflexivity. Qed.

Lemma oeq_oof_inv o1 o2 : oeq o1 o2 -> o1 = OutOfFuel -> o2 = OutOfFuel.
Proof. intros H ->. destruct o2; cbn [oeq] in H; try contradiction. reflexivity. Qed.

Lemma oeq_prepend t o1 o2 : oeq o1 o2 -> oeq (prepend t o1) (prepend t o2).
Proof.
  destruct o1, o2; cbn [oeq prepend]; auto. intros [H1 [-> ->]]. auto.
Qed.

Definition respects (r : runner) : Prop := forall s1 s2, steq s1 s2 -> oeq (r s1) (r s2).

Lemma respects_ext (r r' : runner) : (forall s, r s = r' s) -> respects r' -> respects r.
Proof. intros E H s1 s2 Hs. rewrite !E. apply H, Hs. Qed.

Lemma respects_ret : respects (fun s => Ok s [] CNormal).
Proof. intros s1 s2 Hs. cbn [oeq]. auto. Qed.

Lemma respects_set_run x v : respects (set_run x v).
Proof. intros s1 s2 Hs. unfold set_run. cbn [oeq]. auto using upd_steq. Qed.

Lemma respects_map_ctl g (r : runner) : respects r -> respects (fun s => map_ctl g (r s)).
Proof.
  intros Hr s1 s2 Hs. specialize (Hr s1 s2 Hs). cbv beta.
  destruct (r s1), (r s2); cbn [oeq map_ctl] in *; auto.
  destruct Hr as [H1 [-> ->]]. auto.
Qed.

Lemma respects_bind g (r K : runner) :
  respects r -> respects K -> respects (fun s => bind_run g (r s) K).
Proof.
  intros Hr HK s1 s2 Hs. specialize (Hr s1 s2 Hs). cbv beta.
  destruct (r s1) as [sa ta ca| |], (r s2) as [sb tb cb| |]; cbn [oeq] in Hr; try contradiction;
    try exact I.
  destruct Hr as [H1 [-> ->]].
  destruct cb; cbn [bind_run]; [apply oeq_prepend, HK, H1|cbn [oeq]; auto..].
Qed.

Lemma respects_iter_run run x v : respects run -> respects (iter_run run x v).
Proof.
  intro Hr. unfold iter_run.
  apply (respects_bind (fun c => c) (set_run (x, []) v) (fun s1 => map_ctl cyc2norm (run s1))).
  - apply respects_set_run.
  - apply respects_map_ctl, Hr.
Qed.

Lemma respects_do_loop run x l t : respects run -> forall n k, respects (do_loop run x l t n k).
Proof.
  intro Hr. induction n as [|n IH]; intro k.
  - apply (respects_set_run (x, []) (l + k * t)).
  - eapply respects_ext; [intro s; apply do_loop_S|].
    apply (respects_bind exit2norm (iter_run run x (l + k * t)) (do_loop run x l t n (k + 1))).
    + apply respects_iter_run, Hr.
    + apply IH.
Qed.

Lemma respects_seq_runs rs : Forall respects rs -> respects (seq_runs rs).
Proof.
  induction 1 as [|r rs Hr Hrs IH].
  - apply respects_ret.
  - apply (respects_bind (fun c => c) r (seq_runs rs)); assumption.
Qed.

Lemma evals_steq s1 s2 es :
  steq s1 s2 ->
  map (eval s2) es = map (eval s1) es /\ flat_map (ereads s2) es = flat_map (ereads s1) es.
Proof.
  intros [H1 H2]. apply exprs_frame; [symmetry; exact H2|intros l _; symmetry; apply H1].
Qed.

Lemma respects_exec_stmt (run : list stmt -> store -> outcome) st :
  (forall ss, respects (run ss)) -> respects (exec_stmt run st).
Proof.
  intros Hrun.
  destruct st as [x ix e|c th el|x lo hi st body| | | |es|r body|d body];
    intros s1 s2 Hs; cbn [exec_stmt].
  - destruct (evals_steq s1 s2 ix Hs) as [X1 X2]. destruct (eval_steq s1 s2 e Hs) as [Y1 Y2].
    rewrite X1, X2, Y1, Y2.
    destruct (opt_all (map (eval s1) ix)) as [vs|]; [|exact I].
    destruct (eval s1 e) as [v|]; [|exact I]. cbn [oeq]. auto using upd_steq.
  - destruct (eval_steq s1 s2 c Hs) as [Y1 Y2]. rewrite Y1, Y2.
    destruct (eval s1 c) as [v|]; [|exact I]. apply oeq_prepend, Hrun, Hs.
  - destruct (eval_steq s1 s2 lo Hs) as [X1 X2]. destruct (eval_steq s1 s2 hi Hs) as [Y1 Y2].
    destruct (eval_steq s1 s2 st Hs) as [Z1 Z2]. rewrite X1, X2, Y1, Y2, Z1, Z2.
    destruct (eval s1 lo) as [l|]; [|exact I]. destruct (eval s1 hi) as [h|]; [|exact I].
    destruct (eval s1 st) as [t|]; [|exact I]. destruct (t =? 0); [exact I|].
    apply oeq_prepend. apply respects_do_loop; [apply Hrun|exact Hs].
  - cbn [oeq]. auto.
  - cbn [oeq]. auto.
  - cbn [oeq]. auto.
  - destruct (evals_steq s1 s2 es Hs) as [X1 X2]. rewrite X1, X2.
    destruct (opt_all (map (eval s1) es)) as [vs|]; [|exact I]. cbn [oeq]. auto.
  - specialize (Hrun body s1 s2 Hs).
    destruct (run body s1) as [sa ta ca| |], (run body s2) as [sb tb cb| |]; cbn [oeq] in *;
      try contradiction; try exact I.
    destruct Hrun as [H1 [-> ->]]. auto.
  - apply Hrun, Hs.
Qed.

Lemma respects_exec f : forall ss, respects (exec f ss).
Proof.
  induction f as [|f IH]; intro ss.
  - intros s1 s2 _. exact I.
  - destruct ss as [|st rest]; [apply respects_ret|].
    eapply respects_ext; [intro s; apply exec_cons|].
    apply (respects_bind (fun c => c) (exec_stmt (exec f) st) (exec f rest)).
    + apply respects_exec_stmt, IH.
    + apply IH.
Qed.

Theorem exec_steq_outcome f ss s1 s2 : steq s1 s2 -> oeq (exec f ss s1) (exec f ss s2).
Proof. apply respects_exec. Qed.

Corollary exec_steq_fault f ss s1 s2 : steq s1 s2 -> exec f ss s1 = Fault -> exec f ss s2 = Fault.
Proof. intros Hs. apply oeq_fault_inv, exec_steq_outcome, Hs. Qed.

Corollary exec_steq_oof f ss s1 s2 :
  steq s1 s2 -> exec f ss s1 = OutOfFuel -> exec f ss s2 = OutOfFuel.
Proof. intros Hs. apply oeq_oof_inv, exec_steq_outcome, Hs. Qed.

Corollary do_loop_steq_outcome f body x l t n k s1 s2 :
  steq s1 s2 -> oeq (do_loop (exec f body) x l t n k s1) (do_loop (exec f body) x l t n k s2).
Proof. apply respects_do_loop, respects_exec. Qed.

Print Assumptions exec_steq_outcome.
