(* MiniFortran: the shared abstract syntax for the Fortran / language-level PSyIR subset used by
   the semantic properties.  Values are integers (logicals are 0/1; "real" data is restricted to
   the exactly representable integer-valued domain, with + - * only; integer `/` truncates). *)
From Coq Require Import List ZArith Bool.
Import ListNotations.

Definition name := nat.                      (* variable / array identifiers *)
Definition loc := (name * list Z)%type.      (* scalar x is (x, []); element a(i,j) is (a, [i; j]) *)

Inductive binop := Add | Sub | Mul | Div | Pow | Eq | Ne | Lt | Le | Gt | Ge | And | Or.
Inductive unop := Neg | Not.
Inductive intr := IMin | IMax | IMod | IAbs | ISign | ILbound | IUbound | ISize.

Inductive expr :=
| ELit (z : Z)
| EVar (x : name)
| EIdx (a : name) (ix : list expr)
| EUn (o : unop) (e : expr)
| EBin (o : binop) (l r : expr)
| EIntr (f : intr) (args : list expr).

Inductive stmt :=
| SAssign (x : name) (ix : list expr) (e : expr)      (* x = e   or   x(ix) = e *)
| SIf (c : expr) (th el : list stmt)
| SDo (x : name) (lo hi st : expr) (body : list stmt)
| SExit | SCycle | SReturn
| SPrint (es : list expr)
| SRegion (r : nat) (body : list stmt)                (* PSyData region: PreStart r; body; PostEnd r *)
| SDir (d : nat) (body : list stmt).                  (* directive node: transparent serially *)

(* induction principles for the nested types *)
Section ExprInd.
  Variable P : expr -> Prop.
  Hypothesis Hlit : forall z, P (ELit z).
  Hypothesis Hvar : forall x, P (EVar x).
  Hypothesis Hidx : forall a ix, Forall P ix -> P (EIdx a ix).
  Hypothesis Hun : forall o e, P e -> P (EUn o e).
  Hypothesis Hbin : forall o l r, P l -> P r -> P (EBin o l r).
  Hypothesis Hintr : forall f args, Forall P args -> P (EIntr f args).
  Fixpoint expr_ind' (e : expr) : P e :=
    match e with
    | ELit z => Hlit z
    | EVar x => Hvar x
    | EIdx a ix => Hidx a ix ((fix go l : Forall P l := match l with [] => Forall_nil P | x :: r => Forall_cons x (expr_ind' x) (go r) end) ix)
    | EUn o e => Hun o e (expr_ind' e)
    | EBin o l r => Hbin o l r (expr_ind' l) (expr_ind' r)
    | EIntr f args => Hintr f args ((fix go l : Forall P l := match l with [] => Forall_nil P | x :: r => Forall_cons x (expr_ind' x) (go r) end) args)
    end.
End ExprInd.

Section StmtInd.
  Variable P : stmt -> Prop.
  Hypothesis Hassign : forall x ix e, P (SAssign x ix e).
  Hypothesis Hif : forall c th el, Forall P th -> Forall P el -> P (SIf c th el).
  Hypothesis Hdo : forall x lo hi st body, Forall P body -> P (SDo x lo hi st body).
  Hypothesis Hexit : P SExit.
  Hypothesis Hcycle : P SCycle.
  Hypothesis Hreturn : P SReturn.
  Hypothesis Hprint : forall es, P (SPrint es).
  Hypothesis Hregion : forall r body, Forall P body -> P (SRegion r body).
  Hypothesis Hdir : forall d body, Forall P body -> P (SDir d body).
  Fixpoint stmt_ind' (s : stmt) : P s :=
    let go := (fix go l : Forall P l := match l with [] => Forall_nil P | x :: r => Forall_cons x (stmt_ind' x) (go r) end) in
    match s with
    | SAssign x ix e => Hassign x ix e
    | SIf c th el => Hif c th el (go th) (go el)
    | SDo x lo hi st body => Hdo x lo hi st body (go body)
    | SExit => Hexit
    | SCycle => Hcycle
    | SReturn => Hreturn
    | SPrint es => Hprint es
    | SRegion r body => Hregion r body (go body)
    | SDir d body => Hdir d body (go body)
    end.
End StmtInd.

(* decidable equalities used by executable checks *)
Definition loc_eqb (a b : loc) : bool :=
  Nat.eqb (fst a) (fst b) &&
  (fix go (x y : list Z) : bool := match x, y with [] , [] => true | u :: x', v :: y' => Z.eqb u v && go x' y' | _, _ => false end)
    (snd a) (snd b).

Lemma loc_eqb_eq a b : loc_eqb a b = true <-> a = b.
Proof.
  destruct a as [x ix], b as [y iy]. unfold loc_eqb. cbn [fst snd]. rewrite andb_true_iff, Nat.eqb_eq.
  assert (H : forall l1 l2, (fix go (x y : list Z) : bool := match x, y with [] , [] => true | u :: x', v :: y' => Z.eqb u v && go x' y' | _, _ => false end) l1 l2 = true <-> l1 = l2).
  { induction l1 as [|u l1 IH]; intros [|v l2]; split; intro E; try reflexivity; try discriminate.
    - apply andb_true_iff in E as [E1 E2]. apply Z.eqb_eq in E1. apply IH in E2. congruence.
    - inversion E; subst. apply andb_true_iff. split; [apply Z.eqb_refl | apply IH; reflexivity]. }
  rewrite H. split; [intros [-> ->]; reflexivity | intros E; inversion E; auto].
Qed.

Lemma loc_eq_dec (a b : loc) : {a = b} + {a <> b}.
Proof. destruct (loc_eqb a b) eqn:E; [left; apply loc_eqb_eq, E | right; intro H; apply loc_eqb_eq in H; congruence]. Defined.
