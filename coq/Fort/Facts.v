(* General facts about the MiniFortran semantics (Fort/Sem.v).
   NO axioms are used (in particular no FunctionalExtensionality): all store equalities are
   stated pointwise, or with the store equivalence [steq] (called `seq` in the request; renamed
   because [seq] would shadow [List.seq]). *)
From Coq Require Import List ZArith Bool Lia Permutation.
Import ListNotations.
From PV Require Import Fort.Syntax Fort.Sem.
Open Scope Z_scope.

(* ------------------------------------------------------------------------------------------ *)
(** * 7. Small utilities *)

Lemma loc_eqb_refl l : loc_eqb l l = true.
Proof. apply loc_eqb_eq; reflexivity. Qed.

Lemma loc_eqb_neq a b : loc_eqb a b = false <-> a <> b.
Proof.
  split.
  - intros E H. apply loc_eqb_eq in H. congruence.
  - intros H. destruct (loc_eqb a b) eqn:E; [|reflexivity]. apply loc_eqb_eq in E. contradiction.
Qed.

Lemma existsb_loc_eqb l W : existsb (loc_eqb l) W = true <-> In l W.
Proof.
  rewrite existsb_exists. split.
  - intros [y [Hy E]]. apply loc_eqb_eq in E. subst; assumption.
  - intros H. exists l. split; [assumption | apply loc_eqb_refl].
Qed.

Definition steq (s1 s2 : store) : Prop := (forall l, val s1 l = val s2 l) /\ bnd s1 = bnd s2.

Lemma steq_refl s : steq s s.
Proof. split; reflexivity. Qed.
Lemma steq_sym s1 s2 : steq s1 s2 -> steq s2 s1.
Proof. intros [H1 H2]; split; [intro l; symmetry; apply H1 | symmetry; exact H2]. Qed.
Lemma steq_trans s1 s2 s3 : steq s1 s2 -> steq s2 s3 -> steq s1 s3.
Proof. intros [H1 H2] [H3 H4]; split; [intro l; rewrite H1; apply H3 | congruence]. Qed.

Lemma val_upd_same s l v : val (upd s l v) l = v.
Proof. unfold upd; cbn [val]. rewrite loc_eqb_refl. reflexivity. Qed.

Lemma val_upd_other s l v l' : l' <> l -> val (upd s l v) l' = val s l'.
Proof. intro H. unfold upd; cbn [val]. apply loc_eqb_neq in H. rewrite H. reflexivity. Qed.

Lemma val_upd s l v l' : val (upd s l v) l' = if loc_eq_dec l' l then v else val s l'.
Proof.
  destruct (loc_eq_dec l' l) as [->|N]; [apply val_upd_same | apply val_upd_other, N].
Qed.

Lemma bnd_upd s l v : bnd (upd s l v) = bnd s.
Proof. reflexivity. Qed.

Lemma upd_comm s l1 l2 v1 v2 :
  l1 <> l2 -> steq (upd (upd s l1 v1) l2 v2) (upd (upd s l2 v2) l1 v1).
Proof.
  intro N. split; [|reflexivity]. intro l. rewrite !val_upd.
  destruct (loc_eq_dec l l2), (loc_eq_dec l l1); try reflexivity. congruence.
Qed.

Lemma upd_shadow s l v1 v2 : steq (upd (upd s l v1) l v2) (upd s l v2).
Proof.
  split; [|reflexivity]. intro l'. rewrite !val_upd. destruct (loc_eq_dec l' l); reflexivity.
Qed.

Lemma upd_steq s1 s2 l v : steq s1 s2 -> steq (upd s1 l v) (upd s2 l v).
Proof.
  intros [H1 H2]. split; [|exact H2]. intro l'. rewrite !val_upd. destruct (loc_eq_dec l' l); auto.
Qed.

Lemma reads_app t1 t2 : reads (t1 ++ t2) = reads t1 ++ reads t2.
Proof. induction t1 as [|e t1 IH]; [reflexivity|]. destruct e; cbn [reads app]; rewrite ?IH; reflexivity. Qed.
Lemma writes_app t1 t2 : writes (t1 ++ t2) = writes t1 ++ writes t2.
Proof. induction t1 as [|e t1 IH]; [reflexivity|]. destruct e; cbn [writes app]; rewrite ?IH; reflexivity. Qed.
Lemma outputs_app t1 t2 : outputs (t1 ++ t2) = outputs t1 ++ outputs t2.
Proof. induction t1 as [|e t1 IH]; [reflexivity|]. destruct e; cbn [outputs app]; rewrite ?IH; reflexivity. Qed.
Lemma regions_app t1 t2 : regions (t1 ++ t2) = regions t1 ++ regions t2.
Proof. induction t1 as [|e t1 IH]; [reflexivity|]. destruct e; cbn [regions app]; rewrite ?IH; reflexivity. Qed.

Lemma reads_rds ls : reads (rds ls) = ls.
Proof. unfold rds. induction ls as [|a ls IH]; [reflexivity|]. cbn [map reads]. rewrite IH. reflexivity. Qed.
Lemma writes_rds ls : writes (rds ls) = [].
Proof. unfold rds. induction ls as [|a ls IH]; [reflexivity|]. cbn [map writes]. rewrite IH. reflexivity. Qed.
Lemma outputs_rds ls : outputs (rds ls) = [].
Proof. unfold rds. induction ls as [|a ls IH]; [reflexivity|]. cbn [map outputs]. rewrite IH. reflexivity. Qed.
Lemma regions_rds ls : regions (rds ls) = [].
Proof. unfold rds. induction ls as [|a ls IH]; [reflexivity|]. cbn [map regions]. rewrite IH. reflexivity. Qed.
Lemma rds_app l1 l2 : rds (l1 ++ l2) = rds l1 ++ rds l2.
Proof. apply map_app. Qed.

(** ** Upward-exposed reads *)

Lemma in_exposed_from l W tr :
  In l (exposed_from W tr) <-> ~ In l W /\ In l (exposed tr).
Proof.
  unfold exposed. revert W. induction tr as [|e tr IH]; intros W.
  - cbn [exposed_from In]. tauto.
  - destruct e as [l0|l0|vs|r|r]; cbn [exposed_from existsb].
    + destruct (existsb (loc_eqb l0) W) eqn:E.
      * apply existsb_loc_eqb in E. rewrite IH. cbn [In]. split; [tauto|].
        intros [H1 [H2|H2]]; [subst; contradiction | tauto].
      * assert (N : ~ In l0 W) by (rewrite <- existsb_loc_eqb; congruence).
        cbn [In]. rewrite IH. split.
        -- intros [H|[H1 H2]]; [subst; tauto | tauto].
        -- tauto.
    + rewrite IH. rewrite (IH [l0]). cbn [In]. tauto.
    + apply IH.
    + apply IH.
    + apply IH.
Qed.

Lemma in_exposed_cons_wr l l0 tr :
  In l (exposed (Wr l0 :: tr)) <-> l <> l0 /\ In l (exposed tr).
Proof.
  unfold exposed at 1. cbn [exposed_from]. rewrite in_exposed_from. cbn [In].
  split; intros [H1 H2]; (split; [|exact H2]).
  - intro H. apply H1. left. symmetry; exact H.
  - intros [H|[]]. apply H1. symmetry; exact H.
Qed.

Lemma in_exposed_from_app l W t1 t2 :
  In l (exposed_from W (t1 ++ t2)) <->
  In l (exposed_from W t1) \/ (~ In l W /\ ~ In l (writes t1) /\ In l (exposed t2)).
Proof.
  revert W. induction t1 as [|e t1 IH]; intros W.
  - cbn [app exposed_from writes In]. rewrite in_exposed_from. tauto.
  - destruct e as [l0|l0|vs|r|r]; cbn [app exposed_from writes].
    + destruct (existsb (loc_eqb l0) W) eqn:E.
      * apply IH.
      * cbn [In]. rewrite IH. tauto.
    + rewrite IH. cbn [In]. split.
      * intros [H|[H1 [H2 H3]]]; [tauto|]. right. repeat split; auto. intros [H|H]; auto.
      * intros [H|[H1 [H2 H3]]]; [tauto|]. right. repeat split; auto. intros [H|H]; auto.
    + apply IH.
    + apply IH.
    + apply IH.
Qed.

Lemma in_exposed_app l t1 t2 :
  In l (exposed (t1 ++ t2)) <-> In l (exposed t1) \/ (~ In l (writes t1) /\ In l (exposed t2)).
Proof.
  unfold exposed at 1 2. rewrite in_exposed_from_app. cbn [In]. tauto.
Qed.

Lemma exposed_rds ls : exposed (rds ls) = ls.
Proof.
  unfold exposed. induction ls as [|a ls IH]; [reflexivity|].
  cbn [rds map exposed_from existsb]. f_equal. exact IH.
Qed.

Lemma exposed_incl_reads l tr : In l (exposed tr) -> In l (reads tr).
Proof.
  unfold exposed. generalize (@nil loc) as W. induction tr as [|e tr IH]; intros W H.
  - exact H.
  - destruct e as [l0|l0|vs|r|r]; cbn [exposed_from reads] in *; eauto.
    destruct (existsb (loc_eqb l0) W).
    + right. eauto.
    + destruct H as [H|H]; [left; exact H | right; eauto].
Qed.

Lemma in_exposed_rds_app_l l R tr : In l R -> In l (exposed (rds R ++ tr)).
Proof. intro H. apply in_exposed_app. left. rewrite exposed_rds. exact H. Qed.

Lemma in_exposed_rds_app_r l R tr : In l (exposed tr) -> In l (exposed (rds R ++ tr)).
Proof. intro H. apply in_exposed_app. right. rewrite writes_rds. split; [intros []|exact H]. Qed.

Lemma writes_rds_app R tr : writes (rds R ++ tr) = writes tr.
Proof. rewrite writes_app, writes_rds. reflexivity. Qed.

(* ------------------------------------------------------------------------------------------ *)
(** * Outcome combinators and the one-step unfolding of [exec] *)

Definition runner := store -> outcome.

(* run [K] after [o] when [o] ended normally; otherwise stop, mapping the control state with [g] *)
Definition bind_run (g : ctl -> ctl) (o : outcome) (K : runner) : outcome :=
  match o with
  | Ok s1 tr1 CNormal => prepend tr1 (K s1)
  | Ok s1 tr1 c => Ok s1 tr1 (g c)
  | other => other
  end.

Definition then_run (o : outcome) (K : runner) : outcome := bind_run (fun c => c) o K.

Definition map_ctl (g : ctl -> ctl) (o : outcome) : outcome :=
  match o with Ok s tr c => Ok s tr (g c) | other => other end.

Definition cyc2norm (c : ctl) : ctl := match c with CCycle => CNormal | c => c end.
Definition exit2norm (c : ctl) : ctl := match c with CExit => CNormal | c => c end.

(* the effect of the head statement, parametrised by how nested blocks are run *)
Definition exec_stmt (run : list stmt -> store -> outcome) (st : stmt) (s : store) : outcome :=
  match st with
  | SAssign x ix e =>
      match opt_all (map (eval s) ix), eval s e with
      | Some vs, Some v =>
          Ok (upd s (x, vs) v) (rds (ereads s e ++ flat_map (ereads s) ix) ++ [Wr (x, vs)]) CNormal
      | _, _ => Fault
      end
  | SIf c th el =>
      match eval s c with
      | Some v => prepend (rds (ereads s c)) (run (if v =? 0 then el else th) s)
      | None => Fault
      end
  | SDo x lo hi st body =>
      match eval s lo, eval s hi, eval s st with
      | Some l, Some h, Some t =>
          if t =? 0 then Fault
          else prepend (rds (ereads s lo ++ ereads s hi ++ ereads s st))
                       (do_loop (run body) x l t (trip_count l h t) 0 s)
      | _, _, _ => Fault
      end
  | SExit => Ok s [] CExit
  | SCycle => Ok s [] CCycle
  | SReturn => Ok s [] CReturn
  | SPrint es =>
      match opt_all (map (eval s) es) with
      | Some vs => Ok s (rds (flat_map (ereads s) es) ++ [Out vs]) CNormal
      | None => Fault
      end
  | SRegion r body =>
      match run body s with
      | Ok s1 tr c => Ok s1 (Enter r :: tr ++ (match c with CNormal => [Leave r] | _ => [] end)) c
      | other => other
      end
  | SDir _ body => run body s
  end.

Lemma exec_0 ss s : exec 0 ss s = OutOfFuel.
Proof. reflexivity. Qed.

Lemma exec_nil f s : exec (S f) [] s = Ok s [] CNormal.
Proof. reflexivity. Qed.

Lemma exec_cons f st rest s :
  exec (S f) (st :: rest) s = then_run (exec_stmt (exec f) st s) (exec f rest).
Proof.
  change (exec (S f) (st :: rest) s) with
    (let r1 := exec_stmt (exec f) st s in
     match r1 with
     | Ok s1 tr1 CNormal => prepend tr1 (exec f rest s1)
     | other => other
     end).
  cbv zeta. destruct (exec_stmt (exec f) st s) as [s1 tr1 c| |]; [destruct c|..]; reflexivity.
Qed.

Lemma prepend_nil o : prepend [] o = o.
Proof. destruct o; reflexivity. Qed.

Lemma prepend_prepend t1 t2 o : prepend t1 (prepend t2 o) = prepend (t1 ++ t2) o.
Proof. destruct o; cbn [prepend]; [rewrite app_assoc|..]; reflexivity. Qed.

Lemma prepend_ok_inv t o s tr c :
  prepend t o = Ok s tr c -> exists tr0, o = Ok s tr0 c /\ tr = t ++ tr0.
Proof.
  destruct o as [s0 tr0 c0| |]; cbn [prepend]; intro H; try discriminate.
  inversion H; subst. eauto.
Qed.

Lemma prepend_not_oof t o : prepend t o <> OutOfFuel -> o <> OutOfFuel.
Proof. intros H E. subst. apply H. reflexivity. Qed.

Lemma prepend_oof t o : prepend t o = OutOfFuel <-> o = OutOfFuel.
Proof. destruct o; cbn [prepend]; split; congruence. Qed.

Lemma prepend_fault t o : prepend t o = Fault <-> o = Fault.
Proof. destruct o; cbn [prepend]; split; congruence. Qed.

Lemma bind_run_prepend g t o K : bind_run g (prepend t o) K = prepend t (bind_run g o K).
Proof.
  destruct o as [s tr c| |]; cbn [prepend bind_run]; try reflexivity.
  destruct c; cbn [prepend]; try reflexivity. symmetry. apply prepend_prepend.
Qed.

Lemma then_run_prepend t o K : then_run (prepend t o) K = prepend t (then_run o K).
Proof. apply bind_run_prepend. Qed.

Lemma then_run_assoc o K1 K2 :
  then_run (then_run o K1) K2 = then_run o (fun s => then_run (K1 s) K2).
Proof.
  destruct o as [s tr c| |]; try reflexivity.
  destruct c; try reflexivity.
  unfold then_run at 2 3. cbn [bind_run]. apply then_run_prepend.
Qed.

Lemma then_run_ret o : then_run o (fun s => Ok s [] CNormal) = o.
Proof.
  destruct o as [s tr c| |]; try reflexivity.
  destruct c; try reflexivity. unfold then_run; cbn [bind_run prepend]. rewrite app_nil_r. reflexivity.
Qed.

Lemma then_run_ok_inv o K s' tr c :
  then_run o K = Ok s' tr c ->
  (exists s1 tr1 tr2, o = Ok s1 tr1 CNormal /\ K s1 = Ok s' tr2 c /\ tr = tr1 ++ tr2)
  \/ (c <> CNormal /\ o = Ok s' tr c).
Proof.
  destruct o as [s1 tr1 c1| |]; try discriminate.
  destruct c1; unfold then_run; cbn [bind_run]; intro H.
  - apply prepend_ok_inv in H as [tr0 [H1 H2]]. left. eauto 6.
  - inversion H; subst. right. split; [discriminate|reflexivity].
  - inversion H; subst. right. split; [discriminate|reflexivity].
  - inversion H; subst. right. split; [discriminate|reflexivity].
Qed.

(* ------------------------------------------------------------------------------------------ *)
(** * 1. Fuel monotonicity *)

Lemma do_loop_mono (run run' : runner) x l t :
  (forall s, run s <> OutOfFuel -> run' s = run s) ->
  forall n k s, do_loop run x l t n k s <> OutOfFuel ->
                do_loop run' x l t n k s = do_loop run x l t n k s.
Proof.
  intros Hm. induction n as [|n IH]; intros k s H; [reflexivity|].
  cbn [do_loop] in *.
  destruct (run (upd s (x, []) (l + k * t))) as [s2 tr c| |] eqn:E.
  - rewrite Hm by (rewrite E; discriminate). rewrite E.
    destruct c; try reflexivity; f_equal; apply IH; eapply prepend_not_oof; exact H.
  - rewrite Hm by (rewrite E; discriminate). rewrite E. reflexivity.
  - contradiction.
Qed.

Lemma exec_stmt_mono (run run' : list stmt -> store -> outcome) st s :
  (forall ss s, run ss s <> OutOfFuel -> run' ss s = run ss s) ->
  exec_stmt run st s <> OutOfFuel -> exec_stmt run' st s = exec_stmt run st s.
Proof.
  intros Hm H. destruct st as [x ix e|c th el|x lo hi st body| | | |es|r body|d body];
    cbn [exec_stmt] in *; try reflexivity.
  - destruct (eval s c); [|reflexivity]. f_equal. apply Hm. eapply prepend_not_oof; exact H.
  - destruct (eval s lo), (eval s hi), (eval s st); try reflexivity.
    destruct (_ =? 0); [reflexivity|]. f_equal. apply do_loop_mono.
    + intros s0. apply Hm.
    + eapply prepend_not_oof; exact H.
  - destruct (run body s) as [s1 tr c| |] eqn:E.
    + rewrite Hm by (rewrite E; discriminate). rewrite E. reflexivity.
    + rewrite Hm by (rewrite E; discriminate). rewrite E. reflexivity.
    + contradiction.
  - apply Hm, H.
Qed.

Lemma exec_mono_eq f : forall f' ss s,
  (f <= f')%nat -> exec f ss s <> OutOfFuel -> exec f' ss s = exec f ss s.
Proof.
  induction f as [|f IH]; intros f' ss s Hle H.
  - exfalso. apply H. reflexivity.
  - destruct f' as [|f']; [lia|]. destruct ss as [|st rest]; [reflexivity|].
    rewrite !exec_cons in *.
    assert (E : exec_stmt (exec f') st s = exec_stmt (exec f) st s).
    { apply exec_stmt_mono.
      - intros ss0 s0. apply IH. lia.
      - intro X. rewrite X in H. apply H. reflexivity. }
    rewrite E. destruct (exec_stmt (exec f) st s) as [s1 tr1 c| |]; try reflexivity.
    destruct c; try reflexivity. unfold then_run in *; cbn [bind_run] in *.
    f_equal. apply IH; [lia|]. eapply prepend_not_oof; exact H.
Qed.

Theorem exec_mono f f' ss s r :
  exec f ss s = r -> r <> OutOfFuel -> (f <= f')%nat -> exec f' ss s = r.
Proof. intros H N L. subst r. apply exec_mono_eq; assumption. Qed.

Lemma do_loop_mono_exec f f' body x l t n k s r :
  do_loop (exec f body) x l t n k s = r -> r <> OutOfFuel -> (f <= f')%nat ->
  do_loop (exec f' body) x l t n k s = r.
Proof.
  intros H N L. subst r. apply do_loop_mono; [|exact N].
  intros s0 H0. apply exec_mono_eq; assumption.
Qed.

(* Determinism up to fuel *)
Lemma exec_det f1 f2 ss s r1 r2 :
  exec f1 ss s = r1 -> exec f2 ss s = r2 -> r1 <> OutOfFuel -> r2 <> OutOfFuel -> r1 = r2.
Proof.
  intros H1 H2 N1 N2.
  rewrite <- (exec_mono _ (Nat.max f1 f2) _ _ _ H1 N1) by lia.
  rewrite <- (exec_mono _ (Nat.max f1 f2) _ _ _ H2 N2) by lia. reflexivity.
Qed.

(* fuel-free big-step judgement *)
Definition yields (ss : list stmt) (s : store) (r : outcome) : Prop :=
  exists f, exec f ss s = r /\ r <> OutOfFuel.

Lemma yields_det ss s r1 r2 : yields ss s r1 -> yields ss s r2 -> r1 = r2.
Proof. intros [f1 [H1 N1]] [f2 [H2 N2]]. eapply exec_det; eassumption. Qed.

(* ------------------------------------------------------------------------------------------ *)
(** * 2. Sequencing *)

(* exact equation; the continuation gets the fuel left after the spine of [ss1] *)
Lemma exec_app_eq f : forall ss1 ss2 s,
  exec f (ss1 ++ ss2) s = then_run (exec f ss1 s) (exec (f - length ss1) ss2).
Proof.
  induction f as [|f IH]; intros ss1 ss2 s; [reflexivity|].
  destruct ss1 as [|st rest].
  - cbn [app length]. rewrite exec_nil. unfold then_run; cbn [bind_run].
    rewrite prepend_nil, Nat.sub_0_r. reflexivity.
  - cbn [app length]. rewrite !exec_cons, then_run_assoc. cbn [Nat.sub].
    destruct (exec_stmt (exec f) st s) as [s1 tr1 c| |]; try reflexivity.
    destruct c; try reflexivity. unfold then_run; cbn [bind_run]. f_equal. rewrite IH. reflexivity.
Qed.

Lemma exec_normal_fuel f : forall ss s s' tr,
  exec f ss s = Ok s' tr CNormal -> (length ss < f)%nat.
Proof.
  induction f as [|f IH]; intros ss s s' tr H; [discriminate|].
  destruct ss as [|st rest]; [cbn [length]; lia|].
  rewrite exec_cons in H. apply then_run_ok_inv in H as [[s1 [tr1 [tr2 [H1 [H2 H3]]]]]|[N _]].
  - apply IH in H2. cbn [length]. lia.
  - congruence.
Qed.

(* ss1 completes normally: continue with ss2 *)
Theorem exec_app f1 f2 ss1 ss2 s s1 tr1 r :
  exec f1 ss1 s = Ok s1 tr1 CNormal -> exec f2 ss2 s1 = r -> r <> OutOfFuel ->
  exec (f1 + f2) (ss1 ++ ss2) s = prepend tr1 r.
Proof.
  intros H1 H2 N. rewrite exec_app_eq.
  rewrite (exec_mono f1 (f1 + f2) _ _ _ H1) by (discriminate || lia).
  unfold then_run; cbn [bind_run]. f_equal.
  apply exec_normal_fuel in H1 as L. eapply exec_mono; [exact H2|exact N|lia].
Qed.

Corollary exec_app_ok f1 f2 ss1 ss2 s s1 tr1 s2 tr2 c :
  exec f1 ss1 s = Ok s1 tr1 CNormal -> exec f2 ss2 s1 = Ok s2 tr2 c ->
  exec (f1 + f2) (ss1 ++ ss2) s = Ok s2 (tr1 ++ tr2) c.
Proof. intros H1 H2. rewrite (exec_app _ _ _ _ _ _ _ _ H1 H2); [reflexivity|discriminate]. Qed.

(* ss1 ends with EXIT / CYCLE / RETURN or faults: that is the result *)
Theorem exec_app_abrupt f ss1 ss2 s s1 tr1 c :
  exec f ss1 s = Ok s1 tr1 c -> c <> CNormal -> exec f (ss1 ++ ss2) s = Ok s1 tr1 c.
Proof. intros H N. rewrite exec_app_eq, H. destruct c; try reflexivity. contradiction. Qed.

Theorem exec_app_fault f ss1 ss2 s : exec f ss1 s = Fault -> exec f (ss1 ++ ss2) s = Fault.
Proof. intros H. rewrite exec_app_eq, H. reflexivity. Qed.

Theorem exec_app_inv f ss1 ss2 s s' tr c :
  exec f (ss1 ++ ss2) s = Ok s' tr c ->
  (exists s1 tr1 tr2, exec f ss1 s = Ok s1 tr1 CNormal /\ exec f ss2 s1 = Ok s' tr2 c /\ tr = tr1 ++ tr2)
  \/ (c <> CNormal /\ exec f ss1 s = Ok s' tr c).
Proof.
  rewrite exec_app_eq. intro H.
  apply then_run_ok_inv in H as [[s1 [tr1 [tr2 [H1 [H2 H3]]]]]|H]; [left|right; exact H].
  exists s1, tr1, tr2. repeat split; auto.
  eapply exec_mono; [exact H2|discriminate|lia].
Qed.

Theorem exec_app_fault_inv f ss1 ss2 s :
  exec f (ss1 ++ ss2) s = Fault ->
  exec f ss1 s = Fault \/ exists s1 tr1, exec f ss1 s = Ok s1 tr1 CNormal /\ exec f ss2 s1 = Fault.
Proof.
  rewrite exec_app_eq. destruct (exec f ss1 s) as [s1 tr1 c| |] eqn:E; try discriminate; auto.
  destruct c; try discriminate. unfold then_run; cbn [bind_run]. rewrite prepend_fault. intro H.
  right. exists s1, tr1. split; [reflexivity|]. eapply exec_mono; [exact H|discriminate|lia].
Qed.

Lemma exec_cons_ok f1 f2 st rest s s1 tr1 s2 tr2 c :
  exec f1 [st] s = Ok s1 tr1 CNormal -> exec f2 rest s1 = Ok s2 tr2 c ->
  exec (f1 + f2) (st :: rest) s = Ok s2 (tr1 ++ tr2) c.
Proof. apply (exec_app_ok f1 f2 [st] rest). Qed.

Lemma exec_cons_inv f st rest s s' tr c :
  exec f (st :: rest) s = Ok s' tr c ->
  (exists s1 tr1 tr2, exec f [st] s = Ok s1 tr1 CNormal /\ exec f rest s1 = Ok s' tr2 c /\ tr = tr1 ++ tr2)
  \/ (c <> CNormal /\ exec f [st] s = Ok s' tr c).
Proof. apply (exec_app_inv f [st] rest). Qed.

(* a single statement *)
Lemma exec_single f st s : exec (S (S f)) [st] s = exec_stmt (exec (S f)) st s.
Proof. rewrite exec_cons. apply then_run_ret. Qed.

Lemma exec_dir f d body s : exec (S (S f)) [SDir d body] s = exec (S f) body s.
Proof. apply exec_single. Qed.

Lemma exec_if f c th el s v :
  eval s c = Some v ->
  exec (S (S f)) [SIf c th el] s = prepend (rds (ereads s c)) (exec (S f) (if v =? 0 then el else th) s).
Proof. intro E. rewrite exec_single. cbn [exec_stmt]. rewrite E. reflexivity. Qed.

Lemma exec_assign f x ix e s vs v :
  opt_all (map (eval s) ix) = Some vs -> eval s e = Some v ->
  exec (S (S f)) [SAssign x ix e] s =
  Ok (upd s (x, vs) v) (rds (ereads s e ++ flat_map (ereads s) ix) ++ [Wr (x, vs)]) CNormal.
Proof. intros E1 E2. rewrite exec_single. cbn [exec_stmt]. rewrite E1, E2. reflexivity. Qed.

(* a DO statement in terms of [do_loop] *)
Lemma exec_do f x lo hi st body s l h t :
  eval s lo = Some l -> eval s hi = Some h -> eval s st = Some t -> t <> 0 ->
  exec (S (S f)) [SDo x lo hi st body] s =
  prepend (rds (ereads s lo ++ ereads s hi ++ ereads s st))
          (do_loop (exec (S f) body) x l t (trip_count l h t) 0 s).
Proof.
  intros E1 E2 E3 N. rewrite exec_single. cbn [exec_stmt]. rewrite E1, E2, E3.
  apply Z.eqb_neq in N. rewrite N. reflexivity.
Qed.

(* inversion: a successful DO statement evaluated its bounds and ran [do_loop] *)
Lemma exec_do_inv f x lo hi st body s s' tr c :
  exec f [SDo x lo hi st body] s = Ok s' tr c ->
  exists f' l h t tr0, f = S (S f') /\
    eval s lo = Some l /\ eval s hi = Some h /\ eval s st = Some t /\ t <> 0 /\
    do_loop (exec (S f') body) x l t (trip_count l h t) 0 s = Ok s' tr0 c /\
    tr = rds (ereads s lo ++ ereads s hi ++ ereads s st) ++ tr0.
Proof.
  intro H. destruct f as [|[|f']]; try discriminate.
  - rewrite exec_cons in H. apply then_run_ok_inv in H as [[s1 [tr1 [tr2 [_ [H2 _]]]]]|[N H]].
    + discriminate.
    + exfalso. cbn [exec_stmt] in H.
      destruct (eval s lo), (eval s hi), (eval s st); try discriminate.
      destruct (_ =? 0); try discriminate.
      apply prepend_ok_inv in H as [tr0 [H _]].
      destruct (trip_count _ _ _); cbn [do_loop exec] in H; [inversion H; subst; auto | discriminate].
  - rewrite exec_single in H. cbn [exec_stmt] in H.
    destruct (eval s lo) as [l|], (eval s hi) as [h|], (eval s st) as [t|]; try discriminate.
    destruct (t =? 0) eqn:E; try discriminate. apply Z.eqb_neq in E.
    apply prepend_ok_inv in H as [tr0 [H1 H2]].
    exists f', l, h, t, tr0. repeat split; auto.
Qed.

(** ** Sequences of runners and the iterations of a DO loop *)

Fixpoint seq_runs (rs : list runner) (s : store) : outcome :=
  match rs with
  | [] => Ok s [] CNormal
  | r :: rest => then_run (r s) (seq_runs rest)
  end.

Lemma seq_runs_app rs1 rs2 s :
  seq_runs (rs1 ++ rs2) s = then_run (seq_runs rs1 s) (seq_runs rs2).
Proof.
  revert s. induction rs1 as [|r rs1 IH]; intro s; cbn [app seq_runs].
  - unfold then_run; cbn [bind_run]. rewrite prepend_nil. reflexivity.
  - rewrite then_run_assoc. destruct (r s) as [s1 tr1 c| |]; try reflexivity.
    destruct c; try reflexivity. unfold then_run; cbn [bind_run]. f_equal. rewrite IH. reflexivity.
Qed.

Definition set_run (x : loc) (v : Z) : runner := fun s => Ok (upd s x v) [Wr x] CNormal.

(* one iteration of a DO loop over [x] with loop-variable value [v]: assign x, run the body;
   CYCLE is normal completion of the iteration, EXIT / RETURN are passed on *)
Definition iter_run (run : runner) (x : name) (v : Z) : runner :=
  fun s => then_run (set_run (x, []) v s) (fun s1 => map_ctl cyc2norm (run s1)).

Definition iters (run : runner) (x : name) (vs : list Z) : runner :=
  seq_runs (map (iter_run run x) vs).

Lemma iter_run_eq run x v s :
  iter_run run x v s = prepend [Wr (x, [])] (map_ctl cyc2norm (run (upd s (x, []) v))).
Proof. reflexivity. Qed.

Lemma iter_run_ok run x v s s' tr c :
  run (upd s (x, []) v) = Ok s' tr c ->
  iter_run run x v s = Ok s' (Wr (x, []) :: tr) (cyc2norm c).
Proof. intro H. rewrite iter_run_eq, H. reflexivity. Qed.

Lemma iter_run_ok_inv run x v s s' tr c :
  iter_run run x v s = Ok s' tr c ->
  exists tr0 c0, run (upd s (x, []) v) = Ok s' tr0 c0 /\ tr = Wr (x, []) :: tr0 /\ c = cyc2norm c0.
Proof.
  rewrite iter_run_eq. intro H. apply prepend_ok_inv in H as [tr0 [H1 H2]].
  destruct (run (upd s (x, []) v)) as [s2 tr2 c2| |]; try discriminate.
  cbn [map_ctl] in H1. inversion H1; subst. eauto.
Qed.

Lemma iters_nil run x s : iters run x [] s = Ok s [] CNormal.
Proof. reflexivity. Qed.

Lemma iters_cons run x v vs s :
  iters run x (v :: vs) s = then_run (iter_run run x v s) (iters run x vs).
Proof. reflexivity. Qed.

Lemma iters_app run x vs1 vs2 s :
  iters run x (vs1 ++ vs2) s = then_run (iters run x vs1 s) (iters run x vs2).
Proof. unfold iters. rewrite map_app. apply seq_runs_app. Qed.

(* k, k+1, ..., k+n-1 *)
Fixpoint zseq (k : Z) (n : nat) : list Z :=
  match n with O => [] | S n' => k :: zseq (k + 1) n' end.

(* the values taken by the loop variable in iterations k .. k+n-1 *)
Definition ivals (l t k : Z) (n : nat) : list Z := map (fun i => l + i * t) (zseq k n).

Lemma zseq_app k n1 n2 : zseq k (n1 + n2) = zseq k n1 ++ zseq (k + Z.of_nat n1) n2.
Proof.
  revert k. induction n1 as [|n1 IH]; intro k.
  - cbn [Nat.add zseq app]. rewrite Z.add_0_r. reflexivity.
  - cbn [Nat.add zseq app]. rewrite IH. do 3 f_equal. lia.
Qed.

Lemma in_zseq i k n : In i (zseq k n) <-> k <= i < k + Z.of_nat n.
Proof.
  revert k. induction n as [|n IH]; intro k; cbn [zseq In].
  - lia.
  - rewrite IH. lia.
Qed.

Lemma zseq_length k n : length (zseq k n) = n.
Proof. revert k. induction n as [|n IH]; intro k; cbn [zseq length]; [|rewrite IH]; reflexivity. Qed.

Lemma zseq_NoDup k n : NoDup (zseq k n).
Proof.
  revert k. induction n as [|n IH]; intro k; cbn [zseq]; constructor.
  - rewrite in_zseq. lia.
  - apply IH.
Qed.

Lemma ivals_app l t k n1 n2 : ivals l t k (n1 + n2) = ivals l t k n1 ++ ivals l t (k + Z.of_nat n1) n2.
Proof. unfold ivals. rewrite zseq_app, map_app. reflexivity. Qed.

Lemma in_ivals v l t k n : In v (ivals l t k n) <-> exists i, k <= i < k + Z.of_nat n /\ v = l + i * t.
Proof.
  unfold ivals. rewrite in_map_iff. split.
  - intros [i [H1 H2]]. apply in_zseq in H2. eauto.
  - intros [i [H1 H2]]. exists i. rewrite in_zseq. auto.
Qed.

Lemma ivals_NoDup l t k n : t <> 0 -> NoDup (ivals l t k n).
Proof.
  intro N. unfold ivals. apply FinFun.Injective_map_NoDup; [|apply zseq_NoDup].
  intros a b H. assert (E : a * t = b * t) by lia. apply Z.mul_cancel_r in E; assumption.
Qed.

(* [do_loop] unrolling *)
Lemma do_loop_0 run x l t k s :
  do_loop run x l t 0 k s = Ok (upd s (x, []) (l + k * t)) [Wr (x, [])] CNormal.
Proof. reflexivity. Qed.

(* first iteration, all cases at once *)
Lemma do_loop_S run x l t n k s :
  do_loop run x l t (S n) k s =
  bind_run exit2norm (iter_run run x (l + k * t) s) (do_loop run x l t n (k + 1)).
Proof.
  rewrite iter_run_eq. cbn [do_loop].
  destruct (run (upd s (x, []) (l + k * t))) as [s2 tr c| |]; try reflexivity.
  destruct c; reflexivity.
Qed.

Lemma do_loop_S_normal run x l t n k s s2 tr c :
  run (upd s (x, []) (l + k * t)) = Ok s2 tr c -> c = CNormal \/ c = CCycle ->
  do_loop run x l t (S n) k s = prepend (Wr (x, []) :: tr) (do_loop run x l t n (k + 1) s2).
Proof. intros H [->| ->]; cbn [do_loop]; rewrite H; reflexivity. Qed.

Lemma do_loop_S_exit run x l t n k s s2 tr :
  run (upd s (x, []) (l + k * t)) = Ok s2 tr CExit ->
  do_loop run x l t (S n) k s = Ok s2 (Wr (x, []) :: tr) CNormal.
Proof. intros H; cbn [do_loop]; rewrite H; reflexivity. Qed.

Lemma do_loop_S_return run x l t n k s s2 tr :
  run (upd s (x, []) (l + k * t)) = Ok s2 tr CReturn ->
  do_loop run x l t (S n) k s = Ok s2 (Wr (x, []) :: tr) CReturn.
Proof. intros H; cbn [do_loop]; rewrite H; reflexivity. Qed.

(* split n = n1 + n2: run the first n1 iterations, then (unless one of them exits/returns) the loop
   for the remaining n2 *)
Theorem do_loop_split run x l t n1 : forall n2 k s,
  do_loop run x l t (n1 + n2) k s =
  bind_run exit2norm (iters run x (ivals l t k n1) s) (do_loop run x l t n2 (k + Z.of_nat n1)).
Proof.
  induction n1 as [|n1 IH]; intros n2 k s.
  - cbn [Nat.add ivals zseq map]. rewrite iters_nil. cbn [bind_run].
    rewrite prepend_nil. cbn [Z.of_nat]. rewrite Z.add_0_r. reflexivity.
  - cbn [Nat.add]. rewrite do_loop_S. unfold ivals. cbn [zseq map]. fold (ivals l t (k + 1) n1).
    rewrite iters_cons.
    destruct (iter_run run x (l + k * t) s) as [s1 tr1 c| |]; try reflexivity.
    destruct c; try reflexivity.
    unfold then_run. cbn [bind_run]. rewrite bind_run_prepend. f_equal.
    rewrite IH. replace (k + 1 + Z.of_nat n1) with (k + Z.of_nat (S n1)) by lia. reflexivity.
Qed.

(* the whole loop = all iterations, then the final assignment of the loop variable *)
Corollary do_loop_iters run x l t n k s :
  do_loop run x l t n k s =
  bind_run exit2norm (iters run x (ivals l t k n) s) (set_run (x, []) (l + (k + Z.of_nat n) * t)).
Proof. rewrite <- (Nat.add_0_r n) at 1. apply do_loop_split. Qed.

(* last iteration *)
Corollary do_loop_last run x l t n k s :
  do_loop run x l t (S n) k s =
  bind_run exit2norm (iters run x (ivals l t k n) s) (do_loop run x l t 1 (k + Z.of_nat n)).
Proof. rewrite <- (Nat.add_1_r n). apply do_loop_split. Qed.

(* no iteration exits: plain composition *)
Corollary do_loop_split_normal run x l t n1 n2 k s s1 tr1 :
  iters run x (ivals l t k n1) s = Ok s1 tr1 CNormal ->
  do_loop run x l t (n1 + n2) k s = prepend tr1 (do_loop run x l t n2 (k + Z.of_nat n1) s1).
Proof. intro H. rewrite do_loop_split, H. reflexivity. Qed.

(* the result of do_loop is never CExit/CCycle *)
Lemma do_loop_ctl run x l t n : forall k s s' tr c,
  do_loop run x l t n k s = Ok s' tr c -> c = CNormal \/ c = CReturn.
Proof.
  induction n as [|n IH]; intros k s s' tr c H.
  - inversion H; auto.
  - cbn [do_loop] in H. destruct (run _) as [s2 tr2 c2| |]; try discriminate.
    destruct c2; try (inversion H; auto; fail);
      apply prepend_ok_inv in H as [tr0 [H _]]; eapply IH; exact H.
Qed.

(* ------------------------------------------------------------------------------------------ *)
(** * 3. Expression frame *)

Lemma eval_intr_bnd s1 s2 f args vs :
  bnd s2 = bnd s1 -> eval_intr s2 f args vs = eval_intr s1 f args vs.
Proof. intro Hb. unfold eval_intr, dim_of. rewrite Hb. reflexivity. Qed.

Definition expr_frame_P (s1 s2 : store) (e : expr) : Prop :=
  (forall l, In l (ereads s1 e) -> val s2 l = val s1 l) ->
  eval s2 e = eval s1 e /\ ereads s2 e = ereads s1 e.

Lemma evals_frame_aux s1 s2 es :
  Forall (expr_frame_P s1 s2) es ->
  (forall l, In l (flat_map (ereads s1) es) -> val s2 l = val s1 l) ->
  map (eval s2) es = map (eval s1) es /\ flat_map (ereads s2) es = flat_map (ereads s1) es.
Proof.
  induction 1 as [|e es He Hes IH]; intro H; [split; reflexivity|].
  cbn [map flat_map] in *.
  destruct He as [E1 E2]; [intros l Hl; apply H, in_or_app; left; exact Hl|].
  destruct IH as [E3 E4]; [intros l Hl; apply H, in_or_app; right; exact Hl|].
  rewrite E1, E2, E3, E4. split; reflexivity.
Qed.

Lemma expr_frame_aux s1 s2 (Hb : bnd s2 = bnd s1) e : expr_frame_P s1 s2 e.
Proof.
  induction e using expr_ind'; unfold expr_frame_P in *.
  - intros _. split; reflexivity.
  - intros H. cbn [eval ereads]. rewrite (H (x, [])) by (left; reflexivity). split; reflexivity.
  - rename H into IH. intros H. cbn [eval ereads] in *.
    destruct (evals_frame_aux s1 s2 ix IH) as [E1 E2];
      [intros l Hl; apply H, in_or_app; left; exact Hl|].
    rewrite E1, E2. destruct (opt_all (map (eval s1) ix)) as [vs|]; [|split; reflexivity].
    rewrite (H (a, vs)) by (apply in_or_app; right; left; reflexivity). split; reflexivity.
  - intros H. cbn [eval ereads] in *. destruct (IHe H) as [E1 E2]. rewrite E1, E2. split; reflexivity.
  - intros H. cbn [eval ereads] in *.
    destruct IHe1 as [E1 E2]; [intros l0 Hl; apply H, in_or_app; left; exact Hl|].
    destruct IHe2 as [E3 E4]; [intros l0 Hl; apply H, in_or_app; right; exact Hl|].
    rewrite E1, E2, E3, E4. split; reflexivity.
  - rename H into IH. intros H. cbn [eval ereads] in *. destruct (is_inquiry f).
    + destruct args as [|a0 r]; [split; reflexivity|].
      destruct (evals_frame_aux s1 s2 r (Forall_inv_tail IH) H) as [E1 E2].
      rewrite E1, E2. split; [|reflexivity].
      destruct (opt_all (map (eval s1) r)); [apply eval_intr_bnd, Hb|reflexivity].
    + destruct (evals_frame_aux s1 s2 args IH H) as [E1 E2].
      rewrite E1, E2. split; [|reflexivity].
      destruct (opt_all (map (eval s1) args)); [apply eval_intr_bnd, Hb|reflexivity].
Qed.

Theorem expr_frame s1 s2 e :
  bnd s2 = bnd s1 -> (forall l, In l (ereads s1 e) -> val s2 l = val s1 l) ->
  eval s2 e = eval s1 e /\ ereads s2 e = ereads s1 e.
Proof. intros Hb H. apply expr_frame_aux; assumption. Qed.

Corollary eval_frame s1 s2 e :
  bnd s2 = bnd s1 -> (forall l, In l (ereads s1 e) -> val s2 l = val s1 l) -> eval s2 e = eval s1 e.
Proof. intros Hb H. apply expr_frame; assumption. Qed.

Corollary ereads_frame s1 s2 e :
  bnd s2 = bnd s1 -> (forall l, In l (ereads s1 e) -> val s2 l = val s1 l) -> ereads s2 e = ereads s1 e.
Proof. intros Hb H. apply expr_frame; assumption. Qed.

Theorem exprs_frame s1 s2 es :
  bnd s2 = bnd s1 -> (forall l, In l (flat_map (ereads s1) es) -> val s2 l = val s1 l) ->
  map (eval s2) es = map (eval s1) es /\ flat_map (ereads s2) es = flat_map (ereads s1) es.
Proof.
  intros Hb H. apply evals_frame_aux; [|exact H].
  apply Forall_forall. intros e _. apply expr_frame_aux, Hb.
Qed.

Corollary eval_steq s1 s2 e : steq s1 s2 -> eval s2 e = eval s1 e /\ ereads s2 e = ereads s1 e.
Proof. intros [H1 H2]. apply expr_frame; [symmetry; exact H2 | intros l _; symmetry; apply H1]. Qed.

(* ------------------------------------------------------------------------------------------ *)
(** * 4. Statement frame / footprint *)

(* [frame_ok r]: a successful run of [r] from s1 can be replayed, with the same trace and control
   state, from any s2 that has the same bounds and agrees with s1 on the upward-exposed reads;
   the final stores agree on everything written, and nothing else is changed. *)
Definition frame_ok (r : runner) : Prop :=
  forall s1 s1' tr c, r s1 = Ok s1' tr c ->
  forall s2, bnd s2 = bnd s1 -> (forall l, In l (exposed tr) -> val s2 l = val s1 l) ->
  exists s2', r s2 = Ok s2' tr c /\ bnd s2' = bnd s2 /\
    (forall l, In l (writes tr) -> val s2' l = val s1' l) /\
    (forall l, ~ In l (writes tr) -> val s2' l = val s2 l).

Lemma frame_ok_wb r : frame_ok r ->
  forall s s' tr c, r s = Ok s' tr c ->
  bnd s' = bnd s /\ forall l, ~ In l (writes tr) -> val s' l = val s l.
Proof.
  intros Hr s s' tr c H.
  destruct (Hr _ _ _ _ H s eq_refl (fun _ _ => eq_refl)) as [s2' [H1 [H2 [H3 H4]]]].
  rewrite H in H1. inversion H1; subst. auto.
Qed.

Lemma frame_ok_ext (r r' : runner) : (forall s, r s = r' s) -> frame_ok r' -> frame_ok r.
Proof.
  intros E Hr s1 s1' tr c H s2 Hb Hag. rewrite E in H.
  destruct (Hr _ _ _ _ H s2 Hb Hag) as [s2' [H1 H2]]. exists s2'. rewrite E. auto.
Qed.

Lemma frame_ret : frame_ok (fun s => Ok s [] CNormal).
Proof.
  intros s1 s1' tr c H s2 Hb Hag. inversion H; subst. exists s2.
  split; [reflexivity|]. split; [reflexivity|]. split; [intros l []|reflexivity].
Qed.

Lemma frame_set_run x v : frame_ok (set_run x v).
Proof.
  intros s1 s1' tr c H s2 Hb Hag. unfold set_run in *. inversion H; subst. exists (upd s2 x v).
  split; [reflexivity|]. split; [reflexivity|]. cbn [writes In]. split.
  - intros l [<-|[]]. rewrite !val_upd_same. reflexivity.
  - intros l N. apply val_upd_other. intro E. apply N. left. symmetry. exact E.
Qed.

Lemma frame_map_ctl g (r : runner) : frame_ok r -> frame_ok (fun s => map_ctl g (r s)).
Proof.
  intros Hr s1 s1' tr c H s2 Hb Hag. cbv beta in *.
  destruct (r s1) as [sa tra ca| |] eqn:E; try discriminate. cbn [map_ctl] in H.
  inversion H; subst. destruct (Hr _ _ _ _ E s2 Hb Hag) as [s2' [R1 R2]].
  exists s2'. rewrite R1. cbn [map_ctl]. auto.
Qed.

Lemma frame_bind g (r K : runner) :
  frame_ok r -> frame_ok K -> frame_ok (fun s => bind_run g (r s) K).
Proof.
  intros Hr HK s1 s1' tr c H s2 Hb Hag. cbv beta in *.
  destruct (r s1) as [sa tra ca| |] eqn:E1; try discriminate.
  destruct (frame_ok_wb r Hr _ _ _ _ E1) as [Wb1 Wv1].
  destruct ca;
    try (cbn [bind_run] in H; inversion H; subst;
         destruct (Hr _ _ _ _ E1 s2 Hb Hag) as [sa2 [R1 R2]];
         exists sa2; rewrite R1; cbn [bind_run]; auto; fail).
  cbn [bind_run] in H. apply prepend_ok_inv in H as [trb [E2 ->]].
  destruct (Hr _ _ _ _ E1 s2 Hb) as [sa2 [R1 [R2 [R3 R4]]]].
  { intros l Hl. apply Hag, in_exposed_app. left; exact Hl. }
  destruct (frame_ok_wb K HK _ _ _ _ E2) as [Wb2 Wv2].
  destruct (HK _ _ _ _ E2 sa2) as [sb2 [Q1 [Q2 [Q3 Q4]]]].
  { congruence. }
  { intros l Hl. destruct (in_dec loc_eq_dec l (writes tra)) as [I|N]; [apply R3, I|].
    rewrite R4, Wv1 by exact N. apply Hag, in_exposed_app. right; split; assumption. }
  exists sb2. rewrite R1. cbn [bind_run]. rewrite Q1. cbn [prepend].
  split; [reflexivity|]. split; [congruence|]. split.
  - intros l Hl. rewrite writes_app in Hl.
    destruct (in_dec loc_eq_dec l (writes trb)) as [I|N]; [apply Q3, I|].
    rewrite Q4, Wv2 by exact N. apply R3. apply in_app_or in Hl as [Hl|Hl]; [assumption|contradiction].
  - intros l Hl. rewrite writes_app in Hl.
    rewrite Q4, R4; [reflexivity| |]; intro X; apply Hl, in_or_app; auto.
Qed.

Lemma frame_then (r K : runner) :
  frame_ok r -> frame_ok K -> frame_ok (fun s => then_run (r s) K).
Proof. apply frame_bind. Qed.

Lemma frame_iter_run run x v : frame_ok run -> frame_ok (iter_run run x v).
Proof.
  intro Hr. unfold iter_run.
  apply (frame_then (set_run (x, []) v) (fun s1 => map_ctl cyc2norm (run s1))).
  - apply frame_set_run.
  - apply frame_map_ctl, Hr.
Qed.

Lemma frame_seq_runs rs : Forall frame_ok rs -> frame_ok (seq_runs rs).
Proof.
  induction 1 as [|r rs Hr Hrs IH].
  - apply frame_ret.
  - apply (frame_then r (seq_runs rs)); assumption.
Qed.

Lemma frame_iters run x vs : frame_ok run -> frame_ok (iters run x vs).
Proof.
  intro Hr. apply frame_seq_runs. apply Forall_forall. intros r Hin.
  apply in_map_iff in Hin as [v [<- _]]. apply frame_iter_run, Hr.
Qed.

Lemma frame_do_loop run x l t : frame_ok run -> forall n k, frame_ok (do_loop run x l t n k).
Proof.
  intro Hr. induction n as [|n IH]; intro k.
  - apply (frame_set_run (x, []) (l + k * t)).
  - eapply frame_ok_ext; [intro s; apply do_loop_S|].
    apply (frame_bind exit2norm (iter_run run x (l + k * t)) (do_loop run x l t n (k + 1))).
    + apply frame_iter_run, Hr.
    + apply IH.
Qed.

Lemma writes_region r tra c :
  writes (Enter r :: tra ++ match c with CNormal => [Leave r] | _ => [] end) = writes tra.
Proof. cbn [writes]. rewrite writes_app. destruct c; cbn [writes]; apply app_nil_r. Qed.

Lemma in_exposed_region l r tra tl : In l (exposed tra) -> In l (exposed (Enter r :: tra ++ tl)).
Proof. intro H. change (In l (exposed (tra ++ tl))). apply in_exposed_app. left; exact H. Qed.

Lemma frame_exec_stmt (run : list stmt -> store -> outcome) st :
  (forall ss, frame_ok (run ss)) -> frame_ok (exec_stmt run st).
Proof.
  intros Hrun.
  destruct st as [x ix e|c th el|x lo hi st body| | | |es|r body|d body];
    intros s1 s1' tr c0 H s2 Hb Hag; cbn [exec_stmt] in *.
  - (* SAssign *)
    destruct (opt_all (map (eval s1) ix)) as [vs|] eqn:E1; try discriminate.
    destruct (eval s1 e) as [v|] eqn:E2; try discriminate. inversion H; subst; clear H.
    assert (A : forall l, In l (ereads s1 e ++ flat_map (ereads s1) ix) -> val s2 l = val s1 l)
      by (intros l Hl; apply Hag, in_exposed_rds_app_l, Hl).
    destruct (expr_frame s1 s2 e Hb) as [X1 X2];
      [intros l Hl; apply A, in_or_app; left; exact Hl|].
    destruct (exprs_frame s1 s2 ix Hb) as [Y1 Y2];
      [intros l Hl; apply A, in_or_app; right; exact Hl|].
    rewrite Y1, X1, X2, Y2, E1, E2. exists (upd s2 (x, vs) v).
    split; [reflexivity|]. split; [reflexivity|]. rewrite writes_rds_app. cbn [writes In]. split.
    + intros l [<-|[]]. rewrite !val_upd_same. reflexivity.
    + intros l N. apply val_upd_other. intro E. apply N. left. symmetry. exact E.
  - (* SIf *)
    destruct (eval s1 c) as [v|] eqn:E; try discriminate.
    apply prepend_ok_inv in H as [tr0 [H ->]].
    destruct (expr_frame s1 s2 c Hb) as [X1 X2];
      [intros l Hl; apply Hag, in_exposed_rds_app_l, Hl|].
    rewrite X1, X2, E.
    destruct (Hrun _ _ _ _ _ H s2 Hb) as [s2' [R1 [R2 [R3 R4]]]];
      [intros l Hl; apply Hag, in_exposed_rds_app_r, Hl|].
    exists s2'. rewrite R1. cbn [prepend]. rewrite writes_rds_app. auto.
  - (* SDo *)
    destruct (eval s1 lo) as [l|] eqn:E1; try discriminate.
    destruct (eval s1 hi) as [h|] eqn:E2; try discriminate.
    destruct (eval s1 st) as [t|] eqn:E3; try discriminate.
    destruct (t =? 0) eqn:E4; try discriminate.
    apply prepend_ok_inv in H as [tr0 [H ->]].
    assert (A : forall l, In l (ereads s1 lo ++ ereads s1 hi ++ ereads s1 st) -> val s2 l = val s1 l)
      by (intros l0 Hl; apply Hag, in_exposed_rds_app_l, Hl).
    destruct (expr_frame s1 s2 lo Hb) as [X1 X2];
      [intros l0 Hl; apply A, in_or_app; left; exact Hl|].
    destruct (expr_frame s1 s2 hi Hb) as [Y1 Y2];
      [intros l0 Hl; apply A, in_or_app; right; apply in_or_app; left; exact Hl|].
    destruct (expr_frame s1 s2 st Hb) as [Z1 Z2];
      [intros l0 Hl; apply A, in_or_app; right; apply in_or_app; right; exact Hl|].
    rewrite X1, X2, Y1, Y2, Z1, Z2, E1, E2, E3, E4.
    destruct (frame_do_loop (run body) x l t (Hrun body) _ _ _ _ _ _ H s2 Hb)
      as [s2' [R1 [R2 [R3 R4]]]];
      [intros l0 Hl; apply Hag, in_exposed_rds_app_r, Hl|].
    exists s2'. rewrite R1. cbn [prepend]. rewrite writes_rds_app. auto.
  - inversion H; subst. exists s2. split; [reflexivity|]. split; [reflexivity|].
    split; [intros l []|reflexivity].
  - inversion H; subst. exists s2. split; [reflexivity|]. split; [reflexivity|].
    split; [intros l []|reflexivity].
  - inversion H; subst. exists s2. split; [reflexivity|]. split; [reflexivity|].
    split; [intros l []|reflexivity].
  - (* SPrint *)
    destruct (opt_all (map (eval s1) es)) as [vs|] eqn:E1; try discriminate.
    injection H as I1 I2 I3; subst s1' tr c0.
    destruct (exprs_frame s1 s2 es Hb) as [Y1 Y2];
      [intros l Hl; apply Hag, in_exposed_rds_app_l, Hl|].
    rewrite Y1, Y2, E1. exists s2.
    split; [reflexivity|]. split; [reflexivity|]. rewrite writes_rds_app. cbn [writes].
    split; [intros l []|reflexivity].
  - (* SRegion *)
    destruct (run body s1) as [sa tra ca| |] eqn:E; try discriminate.
    inversion H; subst; clear H.
    destruct (Hrun _ _ _ _ _ E s2 Hb) as [s2' [R1 [R2 [R3 R4]]]];
      [intros l Hl; apply Hag, in_exposed_region, Hl|].
    exists s2'. rewrite R1. rewrite writes_region. auto.
  - (* SDir *)
    apply (Hrun _ _ _ _ _ H s2 Hb Hag).
Qed.

Lemma frame_exec f : forall ss, frame_ok (exec f ss).
Proof.
  induction f as [|f IH]; intro ss.
  - intros s1 s1' tr c H. discriminate.
  - destruct ss as [|st rest]; [apply frame_ret|].
    eapply frame_ok_ext; [intro s; apply exec_cons|].
    apply (frame_then (exec_stmt (exec f) st) (exec f rest)).
    + apply frame_exec_stmt, IH.
    + apply IH.
Qed.

(* The footprint theorem, with upward-exposed reads. *)
Theorem exec_frame f ss s1 s1' tr c s2 :
  exec f ss s1 = Ok s1' tr c ->
  bnd s2 = bnd s1 ->
  (forall l, In l (exposed tr) -> val s2 l = val s1 l) ->
  exists s2', exec f ss s2 = Ok s2' tr c /\ bnd s2' = bnd s2 /\
    (forall l, In l (writes tr) -> val s2' l = val s1' l) /\
    (forall l, ~ In l (writes tr) -> val s2' l = val s2 l).
Proof. intros H Hb Hag. exact (frame_exec f ss _ _ _ _ H s2 Hb Hag). Qed.

(* weaker version with all reads *)
Corollary exec_frame_reads f ss s1 s1' tr c s2 :
  exec f ss s1 = Ok s1' tr c ->
  bnd s2 = bnd s1 ->
  (forall l, In l (reads tr) -> val s2 l = val s1 l) ->
  exists s2', exec f ss s2 = Ok s2' tr c /\ bnd s2' = bnd s2 /\
    (forall l, In l (writes tr) -> val s2' l = val s1' l) /\
    (forall l, ~ In l (writes tr) -> val s2' l = val s2 l).
Proof. intros H Hb Hag. apply (exec_frame _ _ _ _ _ _ _ H Hb). intros l Hl. apply Hag, exposed_incl_reads, Hl. Qed.

Corollary exec_unchanged f ss s s' tr c l :
  exec f ss s = Ok s' tr c -> ~ In l (writes tr) -> val s' l = val s l.
Proof. intros H N. apply (frame_ok_wb _ (frame_exec f ss) _ _ _ _ H), N. Qed.

Corollary exec_bnd f ss s s' tr c : exec f ss s = Ok s' tr c -> bnd s' = bnd s.
Proof. intros H. apply (frame_ok_wb _ (frame_exec f ss) _ _ _ _ H). Qed.

Corollary do_loop_unchanged f body x l t n k s s' tr c l0 :
  do_loop (exec f body) x l t n k s = Ok s' tr c -> ~ In l0 (writes tr) -> val s' l0 = val s l0.
Proof.
  intros H N.
  apply (frame_ok_wb _ (frame_do_loop _ x l t (frame_exec f body) n k) _ _ _ _ H), N.
Qed.

(* [exec] respects store equivalence *)
Corollary exec_steq f ss s1 s1' tr c s2 :
  steq s1 s2 -> exec f ss s1 = Ok s1' tr c ->
  exists s2', exec f ss s2 = Ok s2' tr c /\ steq s1' s2'.
Proof.
  intros [Hv Hb] H.
  destruct (exec_frame _ _ _ _ _ _ s2 H (eq_sym Hb)) as [s2' [R1 [R2 [R3 R4]]]];
    [intros l _; symmetry; apply Hv|].
  exists s2'. split; [exact R1|]. split.
  - intro l. destruct (in_dec loc_eq_dec l (writes tr)) as [I|N].
    + symmetry. apply R3, I.
    + rewrite R4 by exact N. rewrite (exec_unchanged _ _ _ _ _ _ _ H N). apply Hv.
  - rewrite R2, <- Hb. apply (exec_bnd _ _ _ _ _ _ H).
Qed.

(* ------------------------------------------------------------------------------------------ *)
(** * 5. Bernstein commutation *)

(* running B after A, when A does not write anything B reads upward-exposed *)
Lemma run_after (rA rB : runner) s sA trA cA sB trB cB :
  frame_ok rA -> frame_ok rB ->
  rA s = Ok sA trA cA -> rB s = Ok sB trB cB ->
  (forall l, In l (writes trA) -> ~ In l (exposed trB)) ->
  exists sAB, rB sA = Ok sAB trB cB /\ bnd sAB = bnd s /\
    (forall l, In l (writes trB) -> val sAB l = val sB l) /\
    (forall l, ~ In l (writes trB) -> val sAB l = val sA l).
Proof.
  intros HA HB EA EB D.
  destruct (frame_ok_wb _ HA _ _ _ _ EA) as [Wb Wv].
  destruct (HB _ _ _ _ EB sA Wb) as [sAB [R1 [R2 [R3 R4]]]].
  { intros l Hl. apply Wv. intro I. exact (D l I Hl). }
  exists sAB. split; [exact R1|]. split; [congruence|]. split; assumption.
Qed.

Theorem bernstein_runs (rA rB : runner) s sA trA sB trB :
  frame_ok rA -> frame_ok rB ->
  rA s = Ok sA trA CNormal -> rB s = Ok sB trB CNormal ->
  (forall l, In l (writes trA) -> ~ In l (writes trB)) ->
  (forall l, In l (writes trA) -> ~ In l (exposed trB)) ->
  (forall l, In l (writes trB) -> ~ In l (exposed trA)) ->
  exists sAB sBA,
    then_run (rA s) rB = Ok sAB (trA ++ trB) CNormal /\
    then_run (rB s) rA = Ok sBA (trB ++ trA) CNormal /\
    steq sAB sBA /\ bnd sAB = bnd s /\
    (forall l, In l (writes trA) -> val sAB l = val sA l) /\
    (forall l, In l (writes trB) -> val sAB l = val sB l) /\
    (forall l, ~ In l (writes trA) -> ~ In l (writes trB) -> val sAB l = val s l).
Proof.
  intros HA HB EA EB DW DAB DBA.
  destruct (run_after rA rB _ _ _ _ _ _ _ HA HB EA EB DAB) as [sAB [P1 [P2 [P3 P4]]]].
  destruct (run_after rB rA _ _ _ _ _ _ _ HB HA EB EA DBA) as [sBA [Q1 [Q2 [Q3 Q4]]]].
  destruct (frame_ok_wb _ HA _ _ _ _ EA) as [_ WA].
  destruct (frame_ok_wb _ HB _ _ _ _ EB) as [_ WB].
  exists sAB, sBA. rewrite EA, EB. unfold then_run; cbn [bind_run]. rewrite P1, Q1. cbn [prepend].
  split; [reflexivity|]. split; [reflexivity|].
  assert (CA : forall l, In l (writes trA) -> val sAB l = val sA l).
  { intros l I. apply P4. exact (DW l I). }
  assert (CN : forall l, ~ In l (writes trA) -> ~ In l (writes trB) -> val sAB l = val s l).
  { intros l NA NB. rewrite P4 by exact NB. apply WA, NA. }
  split; [|auto].
  split; [|congruence]. intro l.
  destruct (in_dec loc_eq_dec l (writes trA)) as [IA|NA].
  - rewrite CA, Q3 by exact IA. reflexivity.
  - destruct (in_dec loc_eq_dec l (writes trB)) as [IB|NB].
    + rewrite P3 by exact IB. rewrite Q4 by exact NA. reflexivity.
    + rewrite CN by assumption. rewrite Q4 by exact NA. symmetry. apply WB, NB.
Qed.

(* Blocks A and B, both completing normally from s, with no flow (write -> exposed read), anti
   (exposed read -> write) or output (write -> write) dependence between them, commute. *)
Theorem bernstein fA fB A B s sA trA sB trB :
  exec fA A s = Ok sA trA CNormal -> exec fB B s = Ok sB trB CNormal ->
  (forall l, In l (writes trA) -> ~ In l (writes trB)) ->
  (forall l, In l (writes trA) -> ~ In l (exposed trB)) ->
  (forall l, In l (writes trB) -> ~ In l (exposed trA)) ->
  exists sAB sBA,
    exec (fA + fB) (A ++ B) s = Ok sAB (trA ++ trB) CNormal /\
    exec (fA + fB) (B ++ A) s = Ok sBA (trB ++ trA) CNormal /\
    steq sAB sBA /\
    (forall l, In l (writes trA) -> val sAB l = val sA l) /\
    (forall l, In l (writes trB) -> val sAB l = val sB l) /\
    (forall l, ~ In l (writes trA) -> ~ In l (writes trB) -> val sAB l = val s l).
Proof.
  intros EA EB DW DAB DBA.
  destruct (bernstein_runs (exec fA A) (exec fB B) _ _ _ _ _ (frame_exec _ _) (frame_exec _ _)
              EA EB DW DAB DBA) as [sAB [sBA [P1 [P2 [P3 [_ P4]]]]]].
  rewrite EA, EB in *. unfold then_run in *; cbn [bind_run] in *.
  apply prepend_ok_inv in P1 as [t1 [P1 T1]]. apply prepend_ok_inv in P2 as [t2 [P2 T2]].
  apply app_inv_head in T1, T2. subst t1 t2.
  exists sAB, sBA.
  split; [apply (exec_app_ok _ _ _ _ _ _ _ _ _ _ EA P1)|].
  split; [rewrite Nat.add_comm; apply (exec_app_ok _ _ _ _ _ _ _ _ _ _ EB P2)|].
  split; assumption.
Qed.

(* The classical statement: W(A) disjoint from R(B) + W(B) and W(B) disjoint from R(A) + W(A). *)
Corollary bernstein_reads fA fB A B s sA trA sB trB :
  exec fA A s = Ok sA trA CNormal -> exec fB B s = Ok sB trB CNormal ->
  (forall l, In l (writes trA) -> ~ In l (reads trB ++ writes trB)) ->
  (forall l, In l (writes trB) -> ~ In l (reads trA ++ writes trA)) ->
  exists sAB sBA,
    exec (fA + fB) (A ++ B) s = Ok sAB (trA ++ trB) CNormal /\
    exec (fA + fB) (B ++ A) s = Ok sBA (trB ++ trA) CNormal /\
    steq sAB sBA /\
    (forall l, In l (writes trA) -> val sAB l = val sA l) /\
    (forall l, In l (writes trB) -> val sAB l = val sB l) /\
    (forall l, ~ In l (writes trA) -> ~ In l (writes trB) -> val sAB l = val s l).
Proof.
  intros EA EB D1 D2. apply (bernstein _ _ _ _ _ _ _ _ _ EA EB).
  - intros l I X. apply (D1 l I), in_or_app. right; exact X.
  - intros l I X. apply (D1 l I), in_or_app. left. apply exposed_incl_reads, X.
  - intros l I X. apply (D2 l I), in_or_app. left. apply exposed_incl_reads, X.
Qed.

(* generic version of [exec_steq] for any runner with the frame property *)
Lemma frame_ok_steq (r : runner) s1 s1' tr c s2 :
  frame_ok r -> steq s1 s2 -> r s1 = Ok s1' tr c ->
  exists s2', r s2 = Ok s2' tr c /\ steq s1' s2'.
Proof.
  intros Hr [Hv Hb] H.
  destruct (Hr _ _ _ _ H s2 (eq_sym Hb)) as [s2' [R1 [R2 [R3 R4]]]];
    [intros l _; symmetry; apply Hv|].
  destruct (frame_ok_wb _ Hr _ _ _ _ H) as [Wb Wv].
  exists s2'. split; [exact R1|]. split.
  - intro l. destruct (in_dec loc_eq_dec l (writes tr)) as [I|N].
    + symmetry. apply R3, I.
    + rewrite R4, Wv by exact N. apply Hv.
  - congruence.
Qed.

(* ------------------------------------------------------------------------------------------ *)
(* Assumption audit: all three must print "Closed under the global context". *)
Print Assumptions exec_mono.
Print Assumptions exec_frame.
Print Assumptions bernstein.
