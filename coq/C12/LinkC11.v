(* C12 — the location-free access list of C12/InOut.v (option COLLECT-ARRAY-SHAPE-READS off) is the
   projection of the C11 model of VariablesAccessInfo (coq/C11/Access.v). *)
From Coq Require Import List ZArith Bool.
Import ListNotations.
From PV Require Import Fort.Syntax Fort.Sem C11.Access C12.InOut.

Definition sk (a : access) : acc := (a_sig a, a_kind a).

Lemma expr_reads_eq e : expr_reads e = ereads_s false e.
Proof.
  induction e as [z|x|a ix IH|o e IH|o e1 e2 IH1 IH2|f args IH] using expr_ind'; cbn [expr_reads ereads_s].
  - reflexivity.
  - reflexivity.
  - f_equal. induction IH as [|e es He _ IHes]; [reflexivity|]. cbn [flat_map]. rewrite He, IHes. reflexivity.
  - exact IH.
  - rewrite IH1, IH2. reflexivity.
  - assert (G : forall es, Forall (fun e => expr_reads e = ereads_s false e) es ->
                 flat_map expr_reads es = flat_map (ereads_s false) es).
    { intros es HF. induction HF as [|e es He _ IHes]; [reflexivity|]. cbn [flat_map]. rewrite He, IHes. reflexivity. }
    destruct (is_inquiry f); cbn [andb negb].
    + destruct args as [|a0 r]; [reflexivity|]. apply G. apply Forall_inv_tail in IH. exact IH.
    + apply G, IH.
Qed.

Lemma flat_expr_reads_eq es : flat_map expr_reads es = flat_map (ereads_s false) es.
Proof. induction es as [|e es IH]; [reflexivity|]. cbn [flat_map]. rewrite expr_reads_eq, IH. reflexivity. Qed.

Lemma map_sk_reads loc xs : map sk (reads_at loc xs) = rdl xs.
Proof. unfold reads_at, rdl. rewrite map_map. reflexivity. Qed.

Lemma acc_block_proj ss : forall loc,
  Forall (fun s => forall loc, map sk (fst (acc_stmt s loc)) = saccs false s) ss ->
  map sk (fst (acc_block ss loc)) = flat_map (saccs false) ss.
Proof.
  induction ss as [|s1 r IH]; intros loc HF; [reflexivity|].
  cbn [acc_block flat_map]. inversion HF as [|? ? H1 H2]; subst.
  specialize (H1 loc). destruct (acc_stmt s1 loc) as [a1 l1]. specialize (IH l1 H2).
  destruct (acc_block r l1) as [a2 l2]. cbn [fst] in *. rewrite map_app, H1, IH. reflexivity.
Qed.

Lemma acc_loop_body_proj ss : forall loc,
  Forall (fun s => forall loc, map sk (fst (acc_stmt s loc)) = saccs false s) ss ->
  map sk (fst (acc_loop_body ss loc)) = flat_map (saccs false) ss.
Proof.
  induction ss as [|s1 r IH]; intros loc HF; [reflexivity|].
  cbn [acc_loop_body flat_map]. inversion HF as [|? ? H1 H2]; subst.
  specialize (H1 loc). destruct (acc_stmt s1 loc) as [a1 l1]. specialize (IH (S l1) H2).
  destruct (acc_loop_body r (S l1)) as [a2 l2]. cbn [fst] in *. rewrite map_app, H1, IH. reflexivity.
Qed.

Lemma acc_stmt_proj s : forall loc, map sk (fst (acc_stmt s loc)) = saccs false s.
Proof.
  induction s as [x ix e|c th el IHt IHe|x lo hi st body IHb| | | |es|r body IHb|d body IHb] using stmt_ind';
    intro loc; cbn [acc_stmt saccs].
  - cbn [fst]. rewrite !map_app, !map_sk_reads, expr_reads_eq, flat_expr_reads_eq. reflexivity.
  - fold acc_block.
    pose proof (acc_block_proj th (S loc) IHt) as Ht. destruct (acc_block th (S loc)) as [a1 l1].
    destruct el as [|e0 el'].
    + cbn [fst flat_map] in *. rewrite map_app, map_sk_reads, expr_reads_eq, Ht, app_nil_r. reflexivity.
    + pose proof (acc_block_proj (e0 :: el') (S l1) IHe) as He.
      destruct (acc_block (e0 :: el') (S l1)) as [a2 l2].
      cbn [fst] in *. rewrite !map_app, map_sk_reads, expr_reads_eq, Ht, He. reflexivity.
  - fold acc_loop_body.
    pose proof (acc_loop_body_proj body (S loc) IHb) as Hb. destruct (acc_loop_body body (S loc)) as [a1 l1].
    cbn [fst map] in *. rewrite map_app, map_sk_reads, !expr_reads_eq, Hb. reflexivity.
  - reflexivity.
  - reflexivity.
  - reflexivity.
  - reflexivity.
  - fold acc_block. apply acc_block_proj, IHb.
  - fold acc_block. apply acc_block_proj, IHb.
Qed.

Theorem accs_is_C11_projection r : accs false r = map sk (accesses r).
Proof.
  unfold accs, accesses. symmetry. apply acc_block_proj. apply Forall_forall. intros s _. apply acc_stmt_proj.
Qed.
