(* C12 — replay theorem for regions that contain DO WHILE loops directly (semantics C12/While.v, no unrolling). *)
From Coq Require Import List ZArith Bool.
Import ListNotations.
From PV Require Import Fort.Syntax Fort.Sem Fort.Facts C11.Access C12.InOut C12.Proofs C12.While.

(* for ANY list V of recorded inputs: if no upward-exposed read of the run is outside V, then from any store with the same
   bounds agreeing on V the region runs with the same trace and control state (hence every loop iterates equally
   often, witers_frame) and the final stores agree on V and on everything written *)
Theorem replay_sound_any_while (V : list name) f ws s1 s1' tr c s2 :
  wexec f ws s1 = Ok s1' tr c ->
  (forall l, In l (exposed tr) -> In (fst l) V) ->
  bnd s2 = bnd s1 -> agree_on V s1 s2 ->
  exists s2', wexec f ws s2 = Ok s2' tr c /\ bnd s2' = bnd s1' /\
    (forall l, In (fst l) V \/ In l (writes tr) -> val s2' l = val s1' l).
Proof.
  intros H Hex Hb Hag.
  destruct (wexec_frame f ws s1 s1' tr c s2 H Hb) as [s2' [R1 [R2 [R3 R4]]]].
  { intros [x idx] Hl. apply Hag. apply (Hex (x, idx) Hl). }
  exists s2'. split; [exact R1|]. split.
  - rewrite R2, Hb. symmetry. apply (wexec_bnd _ _ _ _ _ _ H).
  - intros l Hl. destruct (in_dec loc_eq_dec l (writes tr)) as [I|N]; [apply R3, I|].
    destruct Hl as [Hl|Hl]; [|contradiction].
    rewrite R4 by exact N. rewrite (wexec_unchanged _ _ _ _ _ _ l H N).
    destruct l as [x idx]. apply Hag, Hl.
Qed.

(* a single loop: agreement on V gives the same number of iterations *)
Theorem while_same_iterations (V : list name) n c body s1 s1' tr c0 s2 :
  wloop n c body s1 = Ok s1' tr c0 ->
  (forall l, In l (exposed tr) -> In (fst l) V) ->
  bnd s2 = bnd s1 -> agree_on V s1 s2 ->
  witers n c body s2 = witers n c body s1.
Proof.
  intros H Hex Hb Hag. apply (witers_frame c body n s1 s1' tr c0 s2 H Hb).
  intros [x idx] Hl. apply Hag. apply (Hex (x, idx) Hl).
Qed.
