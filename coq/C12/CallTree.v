(* C12 — call-tree resolution of non-local (module) variables (model; DEFINITIONS ONLY).

   CallTreeUtils.get_non_local_read_write_info / _resolve_calls_and_unknowns (call_tree_utils.py:277-475): every routine
   of the call tree contributes, for each module variable it accesses, its OWN SingleVariableAccessInfo
   (get_non_local_symbols: VariablesAccessInfo(routine)[signature]); a variable is an output if some routine's
   info `is_written`, an input if some routine's info is not `is_written_first`.  The result is a set union, so it
   does not depend on the order in which the routines are processed.

   [rs] = the bodies of the routines reachable from the entry routine (entry included); calls between them carry
   no arguments here (helpers communicate through module variables), so a call contributes no access.
   The semantics of the region is the entry body with the calls inlined (supplied by the harness);
   C12_replay_sound_any and C12_outputs_cover_modified apply to it with V := the reported inputs. *)
From Coq Require Import List ZArith Bool.
Import ListNotations.
From PV Require Import Fort.Syntax Fort.Sem C11.Access C12.InOut.

Definition ct_inputs (rs : list (list xstmt)) (globals : list name) : list name :=
  filter (fun v => existsb (fun r => let l := xaccs false r in mem v (sigs l) && negb (wfirst v l)) rs) globals.
Definition ct_outputs (rs : list (list xstmt)) (globals : list name) : list name :=
  filter (fun v => existsb (fun r => written v (xaccs false r)) rs) globals.

(* reason code of a module variable the replay needed but that is not reported: 0 = the rule reports it as input;
   1 = array written-first in every routine that touches it; 3 = scalar written-first in every such routine *)
Definition ct_reason (rs : list (list xstmt)) (globals arrs : list name) (v : name) : nat :=
  if mem v (ct_inputs rs globals) then 0 else if mem v arrs then 1 else 3.

Definition ct_case := (list (list xstmt) * list name * list name * list name * list name * list name)%type.
Definition ct_eval (c : ct_case) : bool * list nat :=
  match c with (rs, globals, arrs, ins, outs, cs) =>
    (set_eqb (ct_inputs rs globals) ins && set_eqb (ct_outputs rs globals) outs,
     map (ct_reason rs globals arrs) cs)
  end.
