(* C12 — the extraction protocol as PSyDataNode.lower_to_language_level emits it for an ExtractNode
   (src/psyclone/psyir/nodes/psy_data_node.py:681-875, extract_node.py:189-215):

     PreStart(module, region, #inputs, #outputs)
     if inputs or outputs:  PreDeclareVariable(x, x) for inputs;  PreDeclareVariable(x_post, x) for outputs;
                            PreEndDeclaration;  ProvideVariable(x, x) for inputs;  PreEnd
     <region>
     if inputs or outputs:  PostStart;  ProvideVariable(x_post, x) for outputs
     PostEnd

   Theorem protocol_records_reported: the variables provided before the region are exactly the reported inputs,
   those provided after it exactly the reported outputs, the declared ones inputs ++ outputs, and PreStart announces
   their numbers — in particular a region WITHOUT inputs still declares and provides all its outputs.
   The harness compares [lower_extract ins outs] with the sequence of calls read from the generated code. *)
From Coq Require Import List Bool Arith.
Import ListNotations.
From PV Require Import Fort.Syntax.

Inductive pcall :=
| PreStart (n_in n_out : nat)
| PreDeclare (x : name) (post : bool)
| PreEndDeclaration
| Provide (x : name) (post : bool)
| PreEnd
| Body
| PostStart
| PostEnd.

Definition is_nil {A} (l : list A) : bool := match l with [] => true | _ => false end.

Definition lower_extract (ins outs : list name) : list pcall :=
  let has_var := negb (is_nil ins) || negb (is_nil outs) in
  [PreStart (length ins) (length outs)]
  ++ (if has_var
      then map (fun x => PreDeclare x false) ins ++ map (fun x => PreDeclare x true) outs
           ++ [PreEndDeclaration] ++ map (fun x => Provide x false) ins ++ [PreEnd]
      else [])
  ++ [Body]
  ++ (if has_var then PostStart :: map (fun x => Provide x true) outs else [])
  ++ [PostEnd].

(* what a reader of the emitted calls observes *)
Fixpoint before_body (cs : list pcall) : list pcall :=
  match cs with [] => [] | Body :: _ => [] | c :: r => c :: before_body r end.
Fixpoint after_body (cs : list pcall) : list pcall :=
  match cs with [] => [] | Body :: r => r | _ :: r => after_body r end.
Definition provided (cs : list pcall) : list name :=
  flat_map (fun c => match c with Provide x _ => [x] | _ => [] end) cs.
Definition declared (cs : list pcall) : list name :=
  flat_map (fun c => match c with PreDeclare x _ => [x] | _ => [] end) cs.
Definition announced (cs : list pcall) : option (nat * nat) :=
  match cs with PreStart a b :: _ => Some (a, b) | _ => None end.
Definition provided_before (cs : list pcall) : list name := provided (before_body cs).
Definition provided_after (cs : list pcall) : list name := provided (after_body cs).

(* comparison with the calls read from the generated code *)
Definition pcall_eqb (a b : pcall) : bool :=
  match a, b with
  | PreStart x y, PreStart u v => Nat.eqb x u && Nat.eqb y v
  | PreDeclare x p, PreDeclare y q | Provide x p, Provide y q => Nat.eqb x y && Bool.eqb p q
  | PreEndDeclaration, PreEndDeclaration | PreEnd, PreEnd | Body, Body | PostStart, PostStart | PostEnd, PostEnd => true
  | _, _ => false
  end.
Fixpoint pcalls_eqb (a b : list pcall) : bool :=
  match a, b with [], [] => true | x :: a', y :: b' => pcall_eqb x y && pcalls_eqb a' b' | _, _ => false end.
Definition protocol_agrees (c : list name * list name * list pcall) : bool :=
  match c with (ins, outs, observed) => pcalls_eqb (lower_extract ins outs) observed end.

(* ---- proofs *)
Lemma provided_app a b : provided (a ++ b) = provided a ++ provided b.
Proof. unfold provided. apply flat_map_app. Qed.
Lemma declared_app a b : declared (a ++ b) = declared a ++ declared b.
Proof. unfold declared. apply flat_map_app. Qed.
Lemma provided_provide p l : provided (map (fun x => Provide x p) l) = l.
Proof. induction l as [|x l IH]; [reflexivity|]. cbn. f_equal. exact IH. Qed.
Lemma provided_declare p l : provided (map (fun x => PreDeclare x p) l) = [].
Proof. induction l as [|x l IH]; [reflexivity|]. exact IH. Qed.
Lemma declared_declare p l : declared (map (fun x => PreDeclare x p) l) = l.
Proof. induction l as [|x l IH]; [reflexivity|]. cbn. f_equal. exact IH. Qed.
Lemma declared_provide p l : declared (map (fun x => Provide x p) l) = [].
Proof. induction l as [|x l IH]; [reflexivity|]. exact IH. Qed.

Definition no_body (cs : list pcall) : Prop := forall c, In c cs -> c <> Body.
Lemma before_body_app a b : no_body a -> before_body (a ++ Body :: b) = a.
Proof.
  induction a as [|c a IH]; intro H; [reflexivity|]. cbn [app before_body].
  destruct c; try (f_equal; apply IH; intros c' Hc; apply H; right; exact Hc).
  exfalso. apply (H Body); [left; reflexivity | reflexivity].
Qed.
Lemma after_body_app a b : no_body a -> after_body (a ++ Body :: b) = b.
Proof.
  induction a as [|c a IH]; intro H; [reflexivity|]. cbn [app after_body].
  destruct c; try (apply IH; intros c' Hc; apply H; right; exact Hc).
  exfalso. apply (H Body); [left; reflexivity | reflexivity].
Qed.

Definition pre_part (ins outs : list name) : list pcall :=
  [PreStart (length ins) (length outs)]
  ++ (if negb (is_nil ins) || negb (is_nil outs)
      then map (fun x => PreDeclare x false) ins ++ map (fun x => PreDeclare x true) outs
           ++ [PreEndDeclaration] ++ map (fun x => Provide x false) ins ++ [PreEnd]
      else []).
Definition post_part (ins outs : list name) : list pcall :=
  (if negb (is_nil ins) || negb (is_nil outs) then PostStart :: map (fun x => Provide x true) outs else [])
  ++ [PostEnd].

Lemma lower_split ins outs : lower_extract ins outs = pre_part ins outs ++ Body :: post_part ins outs.
Proof. unfold lower_extract, pre_part, post_part. rewrite <- !app_assoc. reflexivity. Qed.

Lemma pre_no_body ins outs : no_body (pre_part ins outs).
Proof.
  intros c Hc E. subst c. unfold pre_part in Hc. apply in_app_or in Hc as [[H|[]]|H]; [discriminate|].
  destruct (negb (is_nil ins) || negb (is_nil outs)); [|destruct H].
  repeat (apply in_app_or in H as [H|H]);
    try (apply in_map_iff in H as [x [E _]]; discriminate);
    try (destruct H as [H|[]]; discriminate).
Qed.

Theorem protocol_records_reported ins outs :
  provided_before (lower_extract ins outs) = ins /\
  provided_after (lower_extract ins outs) = outs /\
  declared (lower_extract ins outs) = ins ++ outs /\
  announced (lower_extract ins outs) = Some (length ins, length outs).
Proof.
  unfold provided_before, provided_after. rewrite lower_split.
  rewrite (before_body_app _ _ (pre_no_body ins outs)), (after_body_app _ _ (pre_no_body ins outs)).
  split; [|split; [|split; [|reflexivity]]].
  - unfold pre_part. destruct ins as [|i ins], outs as [|o outs]; cbn [is_nil negb orb];
      try reflexivity; rewrite !provided_app, !provided_declare, provided_provide; cbn; rewrite ?app_nil_r; reflexivity.
  - unfold post_part. destruct ins as [|i ins], outs as [|o outs]; cbn [is_nil negb orb]; try reflexivity;
      rewrite provided_app; change (provided (PostStart :: ?l)) with (provided l);
      cbn [provided flat_map app]; rewrite ?app_nil_r;
      try (change (flat_map (fun c => match c with Provide x _ => [x] | _ => [] end) ?l) with (provided l));
      rewrite ?provided_provide; reflexivity.
  - rewrite declared_app. change (declared (Body :: ?l)) with (declared l).
    unfold pre_part, post_part. destruct ins as [|i ins], outs as [|o outs]; cbn [is_nil negb orb]; try reflexivity;
      rewrite !declared_app; change (declared (PostStart :: ?l)) with (declared l);
      rewrite ?declared_declare, ?declared_provide; cbn; rewrite ?app_nil_r; reflexivity.
Qed.

(* what the r3 seed broke: a region without inputs still declares and provides every output *)
Corollary outputs_provided_without_inputs outs :
  provided_after (lower_extract [] outs) = outs /\ declared (lower_extract [] outs) = outs /\
  announced (lower_extract [] outs) = Some (0, length outs).
Proof. destruct (protocol_records_reported [] outs) as [_ [H2 [H3 H4]]]. auto. Qed.
