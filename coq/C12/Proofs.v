(* C12 — proofs about the in/out-parameter model (coq/C12/InOut.v).

   Semantic facts come from Fort/Facts.v (exec_frame: agreeing on the upward-exposed reads of a run
   is enough to replay it; exec_unchanged; exec_bnd).  Here:
     writes_covered      every location written by any run of r belongs to a variable with a WRITE access
     flow_sound          the must-define data-flow of InOut.v over-approximates the upward-exposed reads
     replay_sound_dyn    (run-time premise)  no exposed read outside the inputs => the run replays
     replay_sound_partial  (static premise safe) => the run replays and reproduces the outputs
     outputs_cover_modified  every modified location belongs to an output variable (unconditional)
     refutations         partial array write / conditional write / DO variable read by its own bounds *)
From Coq Require Import List ZArith Bool Lia.
Import ListNotations.
From PV Require Import Fort.Syntax Fort.Sem Fort.Facts C11.Access C12.InOut C12.BigStep.

(* ------------------------------------------------------------------------------------------ *)
(** * list facts *)

Lemma mem_In x l : mem x l = true <-> In x l.
Proof.
  unfold mem. rewrite existsb_exists. split.
  - intros [y [H E]]. apply Nat.eqb_eq in E. subst. exact H.
  - intro H. exists x. split; [exact H | apply Nat.eqb_refl].
Qed.

Lemma mem_cons x y l : mem x (y :: l) = Nat.eqb x y || mem x l.
Proof. reflexivity. Qed.

Lemma in_dedup x : forall l seen, In x (dedup seen l) <-> In x l /\ ~ In x seen.
Proof.
  induction l as [|y l IH]; intro seen; cbn [dedup In]; [tauto|].
  change (existsb (Nat.eqb y) seen) with (mem y seen).
  destruct (mem y seen) eqn:E.
  - apply mem_In in E. rewrite IH. split.
    + intros [H1 H2]. split; auto.
    + intros [[->|H1] H2]; [contradiction | auto].
  - assert (N : ~ In y seen) by (rewrite <- mem_In; congruence).
    cbn [In]. rewrite IH. cbn [In]. destruct (Nat.eq_dec y x) as [->|Ne]; tauto.
Qed.

Lemma in_sigs x l : In x (sigs l) <-> In x (map fst l).
Proof. unfold sigs. rewrite in_dedup. cbn [In]. tauto. Qed.

Lemma in_of_var x k l : In k (of_var x l) <-> In (x, k) l.
Proof.
  unfold of_var. rewrite in_map_iff. split.
  - intros [[y k'] [E H]]. cbn [snd] in E. subst k'. apply filter_In in H as [H1 H2].
    cbn [fst] in H2. apply Nat.eqb_eq in H2. subst y. exact H1.
  - intro H. exists (x, k). split; [reflexivity|]. apply filter_In. split; [exact H|].
    cbn [fst]. apply Nat.eqb_refl.
Qed.

Lemma write_in_outputs x l : In (x, WRITE) l -> In x (outputs_of l).
Proof.
  intro H. apply filter_In. split.
  - apply in_sigs, in_map_iff. exists (x, WRITE). split; [reflexivity | exact H].
  - unfold written. apply existsb_exists. exists WRITE. split; [apply in_of_var; exact H | reflexivity].
Qed.

Lemma in_inputs x l : In x (inputs_of l) <-> In x (map fst l) /\ wfirst x l = false.
Proof.
  unfold inputs_of. rewrite filter_In, in_sigs, negb_true_iff. tauto.
Qed.

(* ------------------------------------------------------------------------------------------ *)
(** * dynamic reads of an expression are covered by its static reads / by [eok] *)

Lemma flat_reads_sub (P : loc -> Prop) s es (Q : expr -> Prop) :
  Forall (fun e => Q e -> forall l, In l (ereads s e) -> P l) es ->
  Forall Q es -> forall l, In l (flat_map (ereads s) es) -> P l.
Proof.
  intros HF HQ l Hl. apply in_flat_map in Hl as [e [He Hl]].
  rewrite Forall_forall in HF, HQ. exact (HF e He (HQ e He) l Hl).
Qed.

Lemma ereads_vars sh s e : forall l, In l (ereads s e) -> In (fst l) (ereads_s sh e).
Proof.
  induction e as [z|x|a ix IH|o e IH|o e1 e2 IH1 IH2|f args IH] using expr_ind'; intros l Hl;
    cbn [ereads ereads_s] in *.
  - contradiction.
  - destruct Hl as [<-|[]]. left; reflexivity.
  - apply in_app_or in Hl as [Hl|Hl]; apply in_or_app.
    + left. apply in_flat_map in Hl as [e [He Hl]]. apply in_flat_map. exists e. split; [exact He|].
      rewrite Forall_forall in IH. apply IH; assumption.
    + right. destruct (opt_all (map (eval s) ix)); [|contradiction].
      destruct Hl as [<-|[]]. left; reflexivity.
  - apply IH, Hl.
  - apply in_app_or in Hl as [Hl|Hl]; apply in_or_app; [left; apply IH1 | right; apply IH2]; exact Hl.
  - assert (G : forall es, Forall (fun e => forall l, In l (ereads s e) -> In (fst l) (ereads_s sh e)) es ->
                 forall l, In l (flat_map (ereads s) es) -> In (fst l) (flat_map (ereads_s sh) es)).
    { intros es HF l0 H0. apply in_flat_map in H0 as [e [He H0]]. apply in_flat_map. exists e.
      split; [exact He|]. rewrite Forall_forall in HF. apply HF; assumption. }
    destruct (is_inquiry f); cbn [andb].
    + destruct args as [|a0 r]; [contradiction|]. apply Forall_inv_tail in IH.
      destruct sh; cbn [negb].
      * cbn [flat_map]. apply in_or_app. right. apply G; assumption.
      * apply G; assumption.
    + apply G; assumption.
Qed.

Definition okloc (V D : list name) (l : loc) : Prop :=
  mem (fst l) V = true \/ (snd l = [] /\ mem (fst l) D = true).

Lemma okloc_cons V x D l : okloc V (x :: D) l -> l <> (x, []) -> okloc V D l.
Proof.
  intros [H|[H1 H2]] N; [left; exact H|].
  rewrite mem_cons in H2. apply orb_true_iff in H2 as [H2|H2].
  - apply Nat.eqb_eq in H2. exfalso. apply N. destruct l as [y i]. cbn [fst snd] in *. subst. reflexivity.
  - right. split; assumption.
Qed.

Lemma eok_sound V D s e : eok V D e = true -> forall l, In l (ereads s e) -> okloc V D l.
Proof.
  induction e as [z|x|a ix IH|o e IH|o e1 e2 IH1 IH2|f args IH] using expr_ind'; intros Hok l Hl;
    cbn [ereads eok] in *.
  - contradiction.
  - destruct Hl as [<-|[]]. apply orb_true_iff in Hok as [H|H]; [left; exact H | right; split; [reflexivity|exact H]].
  - apply andb_true_iff in Hok as [H1 H2]. apply in_app_or in Hl as [Hl|Hl].
    + apply in_flat_map in Hl as [e [He Hl]]. rewrite Forall_forall in IH. rewrite forallb_forall in H1.
      apply (IH e He (H1 e He) l Hl).
    + destruct (opt_all (map (eval s) ix)); [|contradiction]. destruct Hl as [<-|[]]. left. exact H2.
  - apply IH; assumption.
  - apply andb_true_iff in Hok as [H1 H2].
    apply in_app_or in Hl as [Hl|Hl]; [apply IH1 | apply IH2]; assumption.
  - assert (G : forall es, Forall (fun e => eok V D e = true -> forall l, In l (ereads s e) -> okloc V D l) es ->
                 forallb (eok V D) es = true -> forall l, In l (flat_map (ereads s) es) -> okloc V D l).
    { intros es HF HB l0 H0. apply in_flat_map in H0 as [e [He H0]]. rewrite Forall_forall in HF.
      rewrite forallb_forall in HB. apply (HF e He (HB e He) l0 H0). }
    destruct (is_inquiry f).
    + destruct args as [|a0 r]; [contradiction|]. apply Forall_inv_tail in IH. apply (G r); assumption.
    + apply (G args); assumption.
Qed.

Lemma eoks_sound V D s es :
  forallb (eok V D) es = true -> forall l, In l (flat_map (ereads s) es) -> okloc V D l.
Proof.
  intros HB l Hl. apply in_flat_map in Hl as [e [He Hl]]. rewrite forallb_forall in HB.
  apply (eok_sound V D s e (HB e He) l Hl).
Qed.

(* ------------------------------------------------------------------------------------------ *)
(** * written locations are covered by WRITE accesses *)

Lemma accs_cons sh st rest : accs sh (st :: rest) = saccs sh st ++ accs sh rest.
Proof. reflexivity. Qed.

Lemma writes_rds_wr R l : writes (rds R ++ [Wr l]) = [l].
Proof. rewrite writes_rds_app. reflexivity. Qed.

Lemma bs_writes_covered sh :
  (forall ss s s' tr c, bs ss s s' tr c ->
     forall l, In l (writes tr) -> In (fst l, WRITE) (accs sh ss)) /\
  (forall st s s' tr c, bst st s s' tr c ->
     forall l, In l (writes tr) -> In (fst l, WRITE) (saccs sh st)) /\
  (forall body x l t n k s s' tr c, bloop body x l t n k s s' tr c ->
     forall l0, In l0 (writes tr) -> l0 = (x, []) \/ In (fst l0, WRITE) (accs sh body)).
Proof.
  apply bs_mutind.
  - intros s l [].
  - intros st rest s s1 tr1 s2 tr2 c _ IH1 _ IH2 l Hl. rewrite writes_app in Hl. rewrite accs_cons.
    apply in_or_app. apply in_app_or in Hl as [Hl|Hl]; [left; apply IH1 | right; apply IH2]; exact Hl.
  - intros st rest s s1 tr1 c _ IH1 _ l Hl. rewrite accs_cons. apply in_or_app. left. apply IH1, Hl.
  - intros x ix e s vs v _ _ l Hl. rewrite writes_rds_wr in Hl. destruct Hl as [<-|[]].
    cbn [saccs fst]. apply in_or_app. right. apply in_or_app. right. left. reflexivity.
  - intros c th el s v s' tr k _ _ IH l Hl. rewrite writes_rds_app in Hl. cbn [saccs].
    apply in_or_app. right. apply in_or_app. specialize (IH l Hl).
    destruct (Z.eqb v 0); [right | left]; exact IH.
  - intros x lo hi st body s l h t s' tr k _ _ _ _ _ IH l0 Hl. rewrite writes_rds_app in Hl. cbn [saccs].
    destruct (IH l0 Hl) as [->|H]; [left; reflexivity|].
    right. right. apply in_or_app. right. exact H.
  - intros s l [].
  - intros s l [].
  - intros s l [].
  - intros es s vs _ l Hl. rewrite writes_rds_app in Hl. destruct Hl.
  - intros r body s s' tr c _ IH l Hl. rewrite writes_region in Hl. cbn [saccs]. apply IH, Hl.
  - intros d body s s' tr c _ IH l Hl. cbn [saccs]. apply IH, Hl.
  - intros body x l t k s l0 [<-|[]]. left; reflexivity.
  - intros body x l t n k s s2 tr c s3 tr3 c3 _ IH1 _ _ IH2 l0 Hl.
    rewrite writes_app in Hl. cbn [writes] in Hl. apply in_app_or in Hl as [[<-|Hl]|Hl].
    + left; reflexivity.
    + right. apply IH1, Hl.
    + apply IH2, Hl.
  - intros body x l t n k s s2 tr _ IH l0 Hl. cbn [writes] in Hl. destruct Hl as [<-|Hl];
      [left; reflexivity | right; apply IH, Hl].
  - intros body x l t n k s s2 tr _ IH l0 Hl. cbn [writes] in Hl. destruct Hl as [<-|Hl];
      [left; reflexivity | right; apply IH, Hl].
Qed.

Theorem writes_covered sh f r s s' tr c :
  exec f r s = Ok s' tr c -> forall l, In l (writes tr) -> In (fst l) (outputs_of (accs sh r)).
Proof.
  intros H l Hl. apply write_in_outputs. apply exec_bs in H.
  exact (proj1 (bs_writes_covered sh) _ _ _ _ _ H l Hl).
Qed.

(* ------------------------------------------------------------------------------------------ *)
(** * soundness of the must-define data-flow *)

Lemma flow_block_nil V D : flow_block V [] D = Some D.
Proof. reflexivity. Qed.
Lemma flow_block_cons V st rest D :
  flow_block V (st :: rest) D = match flow V st D with Some D1 => flow_block V rest D1 | None => None end.
Proof. reflexivity. Qed.
Lemma flow_if V c th el D :
  flow V (SIf c th el) D =
  if eok V D c then match flow_block V th D, flow_block V el D with
                    | Some D1, Some D2 => Some (inter D1 D2) | _, _ => None end else None.
Proof. reflexivity. Qed.
Lemma flow_do V x lo hi st body D :
  flow V (SDo x lo hi st body) D =
  if eok V D lo && eok V D hi && eok V D st
  then match flow_block V body (x :: D) with Some _ => Some (x :: D) | None => None end else None.
Proof. reflexivity. Qed.
Lemma flow_region V r body D : flow V (SRegion r body) D = flow_block V body D.
Proof. reflexivity. Qed.
Lemma flow_dir V d body D : flow V (SDir d body) D = flow_block V body D.
Proof. reflexivity. Qed.

Lemma mem_inter x a b : mem x (inter a b) = true -> mem x a = true /\ mem x b = true.
Proof.
  intro H. apply mem_In in H. unfold inter in H. apply filter_In in H as [H1 H2].
  split; [apply mem_In; exact H1 | exact H2].
Qed.

Lemma exposed_enter r tr : exposed (Enter r :: tr) = exposed tr.
Proof. reflexivity. Qed.

Lemma exposed_single_wr l : exposed [Wr l] = [].
Proof. reflexivity. Qed.

Definition flow_post (V D D' : list name) (tr : list event) (c : ctl) : Prop :=
  (forall l, In l (exposed tr) -> okloc V D l) /\
  (c = CNormal -> forall x, mem x D' = true -> mem x D = true \/ In (x, []) (writes tr)).

Lemma loop_head_exposed V D x tr :
  (forall l, In l (exposed tr) -> okloc V (x :: D) l) ->
  forall l, In l (exposed (Wr (x, []) :: tr)) -> okloc V D l.
Proof.
  intros H l Hl. apply in_exposed_cons_wr in Hl as [N Hl]. apply (okloc_cons V x D l (H l Hl) N).
Qed.

Lemma bs_flow_sound V :
  (forall ss s s' tr c, bs ss s s' tr c ->
     forall D D', flow_block V ss D = Some D' -> flow_post V D D' tr c) /\
  (forall st s s' tr c, bst st s s' tr c ->
     forall D D', flow V st D = Some D' -> flow_post V D D' tr c) /\
  (forall body x l t n k s s' tr c, bloop body x l t n k s s' tr c ->
     forall D Db, flow_block V body (x :: D) = Some Db ->
     (forall l0, In l0 (exposed tr) -> okloc V D l0) /\ In (x, []) (writes tr)).
Proof.
  apply bs_mutind.
  - (* nil *)
    intros s D D' H. rewrite flow_block_nil in H. inversion H; subst. split.
    + intros l [].
    + intros _ x Hx. left; exact Hx.
  - (* seq *)
    intros st rest s s1 tr1 s2 tr2 c _ IH1 _ IH2 D D' H. rewrite flow_block_cons in H.
    destruct (flow V st D) as [D1|] eqn:E1; [|discriminate].
    destruct (IH1 D D1 E1) as [A1 B1]. destruct (IH2 D1 D' H) as [A2 B2]. split.
    + intros l Hl. apply in_exposed_app in Hl as [Hl|[N Hl]]; [apply A1, Hl|].
      destruct (A2 l Hl) as [Hv|[Hs Hd]]; [left; exact Hv|].
      destruct (B1 eq_refl (fst l) Hd) as [Hd0|Hw]; [right; split; assumption|].
      exfalso. apply N. destruct l as [y i]. cbn [fst snd] in *. subst i. exact Hw.
    + intros Ec x Hx. rewrite writes_app. destruct (B2 Ec x Hx) as [Hd1|Hw];
        [|right; apply in_or_app; right; exact Hw].
      destruct (B1 eq_refl x Hd1) as [Hd0|Hw]; [left; exact Hd0 | right; apply in_or_app; left; exact Hw].
  - (* abrupt *)
    intros st rest s s1 tr1 c _ IH1 Nc D D' H. rewrite flow_block_cons in H.
    destruct (flow V st D) as [D1|] eqn:E1; [|discriminate].
    destruct (IH1 D D1 E1) as [A1 _]. split; [exact A1 | intro Ec; contradiction].
  - (* assign *)
    intros x ix e s vs v Eix Ee D D' H. cbn [flow] in H.
    destruct (eok V D e && forallb (eok V D) ix) eqn:Eok; [|discriminate].
    apply andb_true_iff in Eok as [K1 K2]. inversion H; subst D'; clear H. split.
    + intros l Hl. apply in_exposed_app in Hl as [Hl|[_ Hl]]; [|destruct Hl].
      rewrite exposed_rds in Hl. apply in_app_or in Hl as [Hl|Hl];
        [apply (eok_sound V D s e K1 l Hl) | apply (eoks_sound V D s ix K2 l Hl)].
    + intros _ y Hy. rewrite writes_rds_wr. destruct ix as [|i0 ix'].
      * cbn [map opt_all] in Eix. inversion Eix; subst vs. rewrite mem_cons in Hy.
        apply orb_true_iff in Hy as [Hy|Hy]; [apply Nat.eqb_eq in Hy; subst; right; left; reflexivity | left; exact Hy].
      * left; exact Hy.
  - (* if *)
    intros c th el s v s' tr k Ec _ IH D D' H. rewrite flow_if in H.
    destruct (eok V D c) eqn:K; [|discriminate].
    destruct (flow_block V th D) as [D1|] eqn:F1; [|discriminate].
    destruct (flow_block V el D) as [D2|] eqn:F2; [|discriminate].
    inversion H; subst D'; clear H.
    assert (X : exists Dk, flow_block V (if Z.eqb v 0 then el else th) D = Some Dk /\
                           forall x, mem x (inter D1 D2) = true -> mem x Dk = true).
    { destruct (Z.eqb v 0); [exists D2 | exists D1]; (split; [assumption|]);
        intros x Hx; apply mem_inter in Hx; tauto. }
    destruct X as [Dk [Fk Sub]]. destruct (IH D Dk Fk) as [A B]. split.
    + intros l Hl. apply in_exposed_app in Hl as [Hl|[_ Hl]]; [|apply A, Hl].
      rewrite exposed_rds in Hl. apply (eok_sound V D s c K l Hl).
    + intros Ek x Hx. rewrite writes_rds_app. apply (B Ek x (Sub x Hx)).
  - (* do *)
    intros x lo hi st body s l h t s' tr k E1 E2 E3 Nt _ IH D D' H. rewrite flow_do in H.
    destruct (eok V D lo && eok V D hi && eok V D st) eqn:K; [|discriminate].
    apply andb_true_iff in K as [K K3]. apply andb_true_iff in K as [K1 K2].
    destruct (flow_block V body (x :: D)) as [Db|] eqn:Fb; [|discriminate].
    inversion H; subst D'; clear H. destruct (IH D Db Fb) as [A B]. split.
    + intros l0 Hl. apply in_exposed_app in Hl as [Hl|[_ Hl]]; [|apply A, Hl].
      rewrite exposed_rds in Hl. apply in_app_or in Hl as [Hl|Hl]; [apply (eok_sound V D s lo K1 l0 Hl)|].
      apply in_app_or in Hl as [Hl|Hl]; [apply (eok_sound V D s hi K2 l0 Hl) | apply (eok_sound V D s st K3 l0 Hl)].
    + intros _ y Hy. rewrite writes_rds_app. rewrite mem_cons in Hy.
      apply orb_true_iff in Hy as [Hy|Hy]; [apply Nat.eqb_eq in Hy; subst; right; exact B | left; exact Hy].
  - intros s D D' H. split; [intros l [] | intro E; discriminate].
  - intros s D D' H. split; [intros l [] | intro E; discriminate].
  - intros s D D' H. split; [intros l [] | intro E; discriminate].
  - (* print *)
    intros es s vs _ D D' H. cbn [flow] in H. destruct (forallb (eok V D) es) eqn:K; [|discriminate].
    inversion H; subst D'; clear H. split.
    + intros l Hl. apply in_exposed_app in Hl as [Hl|[_ Hl]]; [|destruct Hl].
      rewrite exposed_rds in Hl. apply (eoks_sound V D s es K l Hl).
    + intros _ x Hx. left; exact Hx.
  - (* region *)
    intros r body s s' tr c _ IH D D' H. rewrite flow_region in H. destruct (IH D D' H) as [A B]. split.
    + intros l Hl. rewrite exposed_enter in Hl. apply in_exposed_app in Hl as [Hl|[_ Hl]]; [apply A, Hl|].
      destruct c; destruct Hl.
    + intros Ec x Hx. rewrite writes_region. apply (B Ec x Hx).
  - (* dir *)
    intros d body s s' tr c _ IH D D' H. rewrite flow_dir in H. apply (IH D D' H).
  - (* loop done *)
    intros body x l t k s D Db _. split; [intros l0 [] | left; reflexivity].
  - (* loop next *)
    intros body x l t n k s s2 tr c s3 tr3 c3 _ IH1 _ _ IH2 D Db F.
    destruct (IH1 (x :: D) Db F) as [A1 _]. destruct (IH2 D Db F) as [A2 _]. split.
    + intros l0 Hl. apply in_exposed_app in Hl as [Hl|[_ Hl]]; [|apply A2, Hl].
      apply (loop_head_exposed V D x tr A1 l0 Hl).
    + left; reflexivity.
  - (* loop exit *)
    intros body x l t n k s s2 tr _ IH1 D Db F. destruct (IH1 (x :: D) Db F) as [A1 _].
    split; [apply (loop_head_exposed V D x tr A1) | left; reflexivity].
  - (* loop return *)
    intros body x l t n k s s2 tr _ IH1 D Db F. destruct (IH1 (x :: D) Db F) as [A1 _].
    split; [apply (loop_head_exposed V D x tr A1) | left; reflexivity].
Qed.

Theorem flow_sound V f r s s' tr c D' :
  exec f r s = Ok s' tr c -> flow_block V r [] = Some D' ->
  (forall l, In l (exposed tr) -> In (fst l) V) /\
  (c = CNormal -> forall x, In x D' -> In (x, []) (writes tr)).
Proof.
  intros H F. apply exec_bs in H. destruct (proj1 (bs_flow_sound V) _ _ _ _ _ H [] D' F) as [A B]. split.
  - intros l Hl. destruct (A l Hl) as [Hv|[_ Hd]]; [apply mem_In; exact Hv | discriminate].
  - intros Ec x Hx. destruct (B Ec x (proj2 (mem_In x D') Hx)) as [Hd|Hw]; [discriminate | exact Hw].
Qed.

(* ------------------------------------------------------------------------------------------ *)
(** * the property *)

(* two stores agree on every location of every variable in X *)
Definition agree_on (X : list name) (s1 s2 : store) : Prop :=
  forall x idx, In x X -> val s2 (x, idx) = val s1 (x, idx).

(* agreement on variable x "as r uses it": all elements if r indexes x, else the scalar location *)
Definition var_agree (r : list stmt) (x : name) (s1 s2 : store) : Prop :=
  if mem x (arrays_of r) then forall idx, val s2 (x, idx) = val s1 (x, idx)
  else val s2 (x, []) = val s1 (x, []).

(* Run-time form: if no upward-exposed read of this run falls outside the reported inputs, then
   from any store with the same bounds agreeing on the inputs the region runs with the same trace
   and control state; the final stores agree on every input variable and every written location. *)
Theorem replay_sound_dyn sh f r s1 s1' tr c s2 :
  exec f r s1 = Ok s1' tr c ->
  (forall l, In l (exposed tr) -> In (fst l) (inputs sh r)) ->
  bnd s2 = bnd s1 -> agree_on (inputs sh r) s1 s2 ->
  exists s2', exec f r s2 = Ok s2' tr c /\ bnd s2' = bnd s1' /\
    (forall l, In (fst l) (inputs sh r) \/ In l (writes tr) -> val s2' l = val s1' l).
Proof.
  intros H Hex Hb Hag.
  destruct (exec_frame f r s1 s1' tr c s2 H Hb) as [s2' [R1 [R2 [R3 R4]]]].
  { intros [x idx] Hl. apply Hag. apply (Hex (x, idx) Hl). }
  exists s2'. split; [exact R1|]. split.
  - rewrite R2, Hb. symmetry. apply (exec_bnd _ _ _ _ _ _ H).
  - intros l Hl. destruct (in_dec loc_eq_dec l (writes tr)) as [I|N]; [apply R3, I|].
    destruct Hl as [Hl|Hl]; [|contradiction].
    rewrite R4 by exact N. rewrite (exec_unchanged _ _ _ _ _ _ l H N).
    destruct l as [x idx]. apply Hag, Hl.
Qed.

(* The same for ANY list V of recorded inputs and ANY statement list as the semantics of the region (used for
   regions with calls, whose semantics is the expansion of the callee): if no upward-exposed read of the run is
   outside V, the run replays from any store agreeing on V. *)
Theorem replay_sound_any (V : list name) f r s1 s1' tr c s2 :
  exec f r s1 = Ok s1' tr c ->
  (forall l, In l (exposed tr) -> In (fst l) V) ->
  bnd s2 = bnd s1 -> agree_on V s1 s2 ->
  exists s2', exec f r s2 = Ok s2' tr c /\ bnd s2' = bnd s1' /\
    (forall l, In (fst l) V \/ In l (writes tr) -> val s2' l = val s1' l).
Proof.
  intros H Hex Hb Hag.
  destruct (exec_frame f r s1 s1' tr c s2 H Hb) as [s2' [R1 [R2 [R3 R4]]]].
  { intros [x idx] Hl. apply Hag. apply (Hex (x, idx) Hl). }
  exists s2'. split; [exact R1|]. split.
  - rewrite R2, Hb. symmetry. apply (exec_bnd _ _ _ _ _ _ H).
  - intros l Hl. destruct (in_dec loc_eq_dec l (writes tr)) as [I|N]; [apply R3, I|].
    destruct Hl as [Hl|Hl]; [|contradiction].
    rewrite R4 by exact N. rewrite (exec_unchanged _ _ _ _ _ _ l H N).
    destruct l as [x idx]. apply Hag, Hl.
Qed.

(* FULL STATEMENT (false of the faithful model, see the refutations below):
     forall r s1 s2, bnd s2 = bnd s1 -> agree_on (inputs sh r) s1 s2 ->
       exec f r s1 = Ok s1' tr CNormal ->
       exists s2', exec f r s2 = Ok s2' tr CNormal /\ forall x, In x (outputs r) -> var_agree r x s1' s2'.
   PROVED under the static sufficient condition [safe sh r] (InOut.v): with the reported inputs as the
   only agreeing variables the must-define data-flow never meets a read of anything else, and every
   output that is not an input is a never-indexed scalar assigned on every normal path. *)
Theorem replay_sound_partial sh f r s1 s1' tr c s2 :
  safe sh r = true ->
  exec f r s1 = Ok s1' tr c ->
  bnd s2 = bnd s1 -> agree_on (inputs sh r) s1 s2 ->
  exists s2', exec f r s2 = Ok s2' tr c /\ bnd s2' = bnd s1' /\
    agree_on (inputs sh r) s1' s2' /\
    (forall l, In l (writes tr) -> val s2' l = val s1' l) /\
    (c = CNormal -> forall x, In x (outputs r) -> var_agree r x s1' s2').
Proof.
  intros Hs H Hb Hag. unfold safe, safe_with in Hs.
  destruct (flow_block (inputs sh r) r []) as [D'|] eqn:F; [|discriminate].
  destruct (flow_sound _ _ _ _ _ _ _ _ H F) as [A B].
  destruct (replay_sound_dyn sh f r s1 s1' tr c s2 H A Hb Hag) as [s2' [R1 [R2 R3]]].
  exists s2'. split; [exact R1|]. split; [exact R2|]. split; [|split].
  - intros x idx Hx. apply R3. left. exact Hx.
  - intros l Hl. apply R3. right. exact Hl.
  - intros Ec x Hx. rewrite forallb_forall in Hs. specialize (Hs x Hx).
    apply orb_true_iff in Hs as [Hv|Hd].
    + apply mem_In in Hv. unfold var_agree. destruct (mem x (arrays_of r)).
      * intro idx. apply R3. left. exact Hv.
      * apply R3. left. exact Hv.
    + apply andb_true_iff in Hd as [Hd Ha]. apply negb_true_iff in Ha. unfold var_agree. rewrite Ha.
      apply R3. right. apply (B Ec x). apply mem_In. exact Hd.
Qed.

(* every location the region modifies belongs to a reported output (no side condition) *)
Theorem outputs_cover_modified sh f r s s' tr c :
  exec f r s = Ok s' tr c ->
  (forall l, In l (writes tr) -> In (fst l) (outputs_of (accs sh r))) /\
  (forall l, val s' l <> val s l -> In (fst l) (outputs_of (accs sh r))).
Proof.
  intro H. split; [apply (writes_covered sh _ _ _ _ _ _ H)|].
  intros l Hl. destruct (in_dec loc_eq_dec l (writes tr)) as [I|N].
  - apply (writes_covered sh _ _ _ _ _ _ H l I).
  - exfalso. apply Hl. apply (exec_unchanged _ _ _ _ _ _ l H N).
Qed.

(* the shape-read option only adds READ accesses: the output list does not depend on it *)
Lemma in_outputs_iff x l : In x (outputs_of l) <-> exists k, In (x, k) l /\ kind_writes k = true.
Proof.
  unfold outputs_of. rewrite filter_In. unfold written. rewrite existsb_exists. split.
  - intros [_ [k [H1 H2]]]. exists k. split; [apply in_of_var; exact H1 | exact H2].
  - intros [k [H1 H2]]. split.
    + apply in_sigs, in_map_iff. exists (x, k). split; [reflexivity | exact H1].
    + exists k. split; [apply in_of_var; exact H1 | exact H2].
Qed.

(* a by-reference argument of a non-pure call (READWRITE) is both an input and an output *)
Theorem readwrite_in_out x l :
  In (x, READWRITE) l -> (wfirst x l = false -> In x (inputs_of l)) /\ In x (outputs_of l).
Proof.
  intro H. split.
  - intro W. apply in_inputs. split; [apply in_map_iff; exists (x, READWRITE); split; [reflexivity | exact H] | exact W].
  - apply in_outputs_iff. exists READWRITE. split; [exact H | reflexivity].
Qed.

(* ------------------------------------------------------------------------------------------ *)
(** * non-vacuity and refutations (concrete, by computation) *)

Local Open Scope Z_scope.
Definition va : name := 0%nat.  Definition vb : name := 1%nat.  Definition vs : name := 2%nat.
Definition vt : name := 3%nat.  Definition vm : name := 4%nat.  Definition vn : name := 5%nat.
Definition vi : name := 6%nat.

Definition st_of (vals : list (loc * Z)) : store := store_of vals [(va, [(1, 6)]); (vb, [(1, 6)])].

(* a region inside [safe]: t = b(1) * 2 ; do i = 1, n : b(i) = b(i) + t ; s = s + i *)
Definition r_ok : list stmt :=
  [SAssign vt [] (EBin Mul (EIdx vb [ELit 1]) (ELit 2));
   SDo vi (ELit 1) (EVar vn) (ELit 1)
     [SAssign vb [EVar vi] (EBin Add (EIdx vb [EVar vi]) (EVar vt));
      SAssign vs [] (EBin Add (EVar vs) (EVar vi))]].

Example safe_nonvacuous :
  safe false r_ok = true /\ safe true r_ok = true /\
  inputs false r_ok = [vb; vn; vs] /\ outputs r_ok = [vb; vt; vi; vs] /\
  exists s' tr, exec 20 r_ok (st_of [((vn, []), 3); ((vb, [1]), 5)]) = Ok s' tr CNormal /\
                val s' (vb, [1]) = 15 /\ val s' (vs, []) = 6.
Proof.
  split; [vm_compute; reflexivity|]. split; [vm_compute; reflexivity|].
  split; [vm_compute; reflexivity|]. split; [vm_compute; reflexivity|].
  eexists. eexists. split; [vm_compute; reflexivity|]. split; vm_compute; reflexivity.
Qed.

(* what a refutation is: a region, two stores with the same bounds agreeing on every reported
   input, both runs complete normally, and some reported output differs afterwards *)
Definition refutes (sh : bool) (r : list stmt) (s1 s2 : store) (x : name) : Prop :=
  bnd s2 = bnd s1 /\ agree_on (inputs sh r) s1 s2 /\ In x (outputs r) /\
  exists s1' tr1 s2' tr2, exec 20 r s1 = Ok s1' tr1 CNormal /\ exec 20 r s2 = Ok s2' tr2 CNormal /\
                          val s2' (x, []) <> val s1' (x, []).

(* a(1) = 0 ; s = a(2) : `a` is written first, so it is not an input, but a(2) is read *)
Definition r_partial : list stmt :=
  [SAssign va [ELit 1] (ELit 0); SAssign vs [] (EIdx va [ELit 2])].

Lemma agree_nil s1 s2 : agree_on [] s1 s2.
Proof. intros x idx []. Qed.

Theorem inputs_refuted_partial_array :
  inputs false r_partial = [] /\ inputs true r_partial = [] /\ safe false r_partial = false /\
  refutes false r_partial (st_of [((va, [2]), 7)]) (st_of [((va, [2]), 9)]) vs.
Proof.
  split; [vm_compute; reflexivity|]. split; [vm_compute; reflexivity|]. split; [vm_compute; reflexivity|].
  split; [reflexivity|]. split; [apply agree_nil|]. split; [vm_compute; auto|].
  eexists. eexists. eexists. eexists. split; [vm_compute; reflexivity|]. split; [vm_compute; reflexivity|].
  vm_compute. discriminate.
Qed.

(* if (t > 0) m = 1 ; n = m : `m` is written first (in the branch), so it is not an input *)
Definition r_cond : list stmt :=
  [SIf (EBin Gt (EVar vt) (ELit 0)) [SAssign vm [] (ELit 1)] []; SAssign vn [] (EVar vm)].

Lemma agree_single y s1 s2 : (forall idx, val s2 (y, idx) = val s1 (y, idx)) -> agree_on [y] s1 s2.
Proof. intros H x idx [<-|[]]. apply H. Qed.

Theorem inputs_refuted_conditional :
  inputs false r_cond = [vt] /\ safe false r_cond = false /\
  refutes false r_cond (st_of [((vm, []), 7)]) (st_of [((vm, []), 9)]) vn.
Proof.
  split; [vm_compute; reflexivity|]. split; [vm_compute; reflexivity|].
  split; [reflexivity|]. split.
  { change (inputs false r_cond) with [vt]. apply agree_single. intro idx. reflexivity. }
  split; [vm_compute; auto|].
  eexists. eexists. eexists. eexists. split; [vm_compute; reflexivity|]. split; [vm_compute; reflexivity|].
  vm_compute. discriminate.
Qed.

(* do i = i, 5 : s = s + 1 : the DO variable is WRITE-first in the access list although the bounds
   (evaluated before the variable is assigned) read its incoming value *)
Definition r_dovar : list stmt :=
  [SDo vi (EVar vi) (ELit 5) (ELit 1) [SAssign vs [] (EBin Add (EVar vs) (ELit 1))]].

Theorem inputs_refuted_do_bounds :
  inputs false r_dovar = [vs] /\ safe false r_dovar = false /\
  refutes false r_dovar (st_of [((vi, []), 1)]) (st_of [((vi, []), 4)]) vs.
Proof.
  split; [vm_compute; reflexivity|]. split; [vm_compute; reflexivity|].
  split; [reflexivity|]. split.
  { change (inputs false r_dovar) with [vs]. apply agree_single. intro idx. reflexivity. }
  split; [vm_compute; auto|].
  eexists. eexists. eexists. eexists. split; [vm_compute; reflexivity|]. split; [vm_compute; reflexivity|].
  vm_compute. discriminate.
Qed.

(* a(1) = 0 alone: the replay reads nothing wrong, but the recorded output `a` is the whole array and
   a(2:) is not reproduced from the (empty) inputs *)
Definition r_wonly : list stmt := [SAssign va [ELit 1] (ELit 0)].

Theorem outputs_refuted_partial_write :
  inputs false r_wonly = [] /\ outputs r_wonly = [va] /\ reads_safe false r_wonly = true /\
  safe false r_wonly = false /\
  let s1 := st_of [((va, [2]), 7)] in let s2 := st_of [((va, [2]), 9)] in
  agree_on (inputs false r_wonly) s1 s2 /\
  exists s1' tr1 s2' tr2, exec 20 r_wonly s1 = Ok s1' tr1 CNormal /\ exec 20 r_wonly s2 = Ok s2' tr2 CNormal /\
                          ~ var_agree r_wonly va s1' s2'.
Proof.
  split; [vm_compute; reflexivity|]. split; [vm_compute; reflexivity|]. split; [vm_compute; reflexivity|].
  split; [vm_compute; reflexivity|]. split; [apply agree_nil|].
  eexists. eexists. eexists. eexists. split; [vm_compute; reflexivity|]. split; [vm_compute; reflexivity|].
  unfold var_agree. change (mem va (arrays_of r_wonly)) with true. cbv iota.
  intro H. specialize (H [2]). vm_compute in H. discriminate.
Qed.
