(* C12/C13 — a big-step inductive presentation of successful MiniFortran executions.

   [exec f ss s = Ok s' tr c]  implies  [bs ss s s' tr c]  (theorem exec_bs).  The relation has no
   fuel and unrolls DO loops iteration by iteration, which makes the soundness proofs of the
   static analyses (written-variable coverage, must-define data-flow) plain mutual inductions. *)
From Coq Require Import List ZArith Bool Lia.
Import ListNotations.
From PV Require Import Fort.Syntax Fort.Sem Fort.Facts.
Open Scope Z_scope.

Inductive bs : list stmt -> store -> store -> list event -> ctl -> Prop :=
| bs_nil s : bs [] s s [] CNormal
| bs_seq st rest s s1 tr1 s2 tr2 c :
    bst st s s1 tr1 CNormal -> bs rest s1 s2 tr2 c -> bs (st :: rest) s s2 (tr1 ++ tr2) c
| bs_abrupt st rest s s1 tr1 c :
    bst st s s1 tr1 c -> c <> CNormal -> bs (st :: rest) s s1 tr1 c
with bst : stmt -> store -> store -> list event -> ctl -> Prop :=
| bst_assign x ix e s vs v :
    opt_all (map (eval s) ix) = Some vs -> eval s e = Some v ->
    bst (SAssign x ix e) s (upd s (x, vs) v)
        (rds (ereads s e ++ flat_map (ereads s) ix) ++ [Wr (x, vs)]) CNormal
| bst_if c th el s v s' tr k :
    eval s c = Some v -> bs (if v =? 0 then el else th) s s' tr k ->
    bst (SIf c th el) s s' (rds (ereads s c) ++ tr) k
| bst_do x lo hi st body s l h t s' tr k :
    eval s lo = Some l -> eval s hi = Some h -> eval s st = Some t -> t <> 0 ->
    bloop body x l t (trip_count l h t) 0 s s' tr k ->
    bst (SDo x lo hi st body) s s' (rds (ereads s lo ++ ereads s hi ++ ereads s st) ++ tr) k
| bst_exit s : bst SExit s s [] CExit
| bst_cycle s : bst SCycle s s [] CCycle
| bst_return s : bst SReturn s s [] CReturn
| bst_print es s vs :
    opt_all (map (eval s) es) = Some vs ->
    bst (SPrint es) s s (rds (flat_map (ereads s) es) ++ [Out vs]) CNormal
| bst_region r body s s' tr c :
    bs body s s' tr c ->
    bst (SRegion r body) s s' (Enter r :: tr ++ match c with CNormal => [Leave r] | _ => [] end) c
| bst_dir d body s s' tr c : bs body s s' tr c -> bst (SDir d body) s s' tr c
with bloop : list stmt -> name -> Z -> Z -> nat -> Z -> store -> store -> list event -> ctl -> Prop :=
| bl_done body x l t k s :
    bloop body x l t O k s (upd s (x, []) (l + k * t)) [Wr (x, [])] CNormal
| bl_next body x l t n k s s2 tr c s3 tr3 c3 :
    bs body (upd s (x, []) (l + k * t)) s2 tr c -> c = CNormal \/ c = CCycle ->
    bloop body x l t n (k + 1) s2 s3 tr3 c3 ->
    bloop body x l t (S n) k s s3 ((Wr (x, []) :: tr) ++ tr3) c3
| bl_exit body x l t n k s s2 tr :
    bs body (upd s (x, []) (l + k * t)) s2 tr CExit ->
    bloop body x l t (S n) k s s2 (Wr (x, []) :: tr) CNormal
| bl_return body x l t n k s s2 tr :
    bs body (upd s (x, []) (l + k * t)) s2 tr CReturn ->
    bloop body x l t (S n) k s s2 (Wr (x, []) :: tr) CReturn.

Scheme bs_min := Minimality for bs Sort Prop
  with bst_min := Minimality for bst Sort Prop
  with bloop_min := Minimality for bloop Sort Prop.
Combined Scheme bs_mutind from bs_min, bst_min, bloop_min.

Lemma do_loop_bs f body x l t :
  (forall s s' tr c, exec f body s = Ok s' tr c -> bs body s s' tr c) ->
  forall n k s s' tr c, do_loop (exec f body) x l t n k s = Ok s' tr c -> bloop body x l t n k s s' tr c.
Proof.
  intros IH. induction n as [|n IHn]; intros k s s' tr c H.
  - rewrite do_loop_0 in H. inversion H; subst. constructor.
  - cbn [do_loop] in H.
    destruct (exec f body (upd s (x, []) (l + k * t))) as [s2 tr2 c2| |] eqn:E; try discriminate.
    apply IH in E.
    destruct c2.
    + apply prepend_ok_inv in H as [tr0 [H ->]]. eapply bl_next; eauto.
    + inversion H; subst. apply bl_exit; assumption.
    + apply prepend_ok_inv in H as [tr0 [H ->]]. eapply bl_next; eauto.
    + inversion H; subst. apply bl_return; assumption.
Qed.

Lemma exec_stmt_bs f st s s' tr c :
  (forall ss s s' tr c, exec f ss s = Ok s' tr c -> bs ss s s' tr c) ->
  exec_stmt (exec f) st s = Ok s' tr c -> bst st s s' tr c.
Proof.
  intros IH H.
  destruct st as [x ix e|c0 th el|x lo hi st body| | | |es|r body|d body]; cbn [exec_stmt] in H.
  - destruct (opt_all (map (eval s) ix)) as [vs|] eqn:E1; try discriminate.
    destruct (eval s e) as [v|] eqn:E2; try discriminate. inversion H; subst. constructor; assumption.
  - destruct (eval s c0) as [v|] eqn:E; try discriminate.
    apply prepend_ok_inv in H as [tr0 [H ->]]. econstructor; eauto.
  - destruct (eval s lo) as [l|] eqn:E1; try discriminate.
    destruct (eval s hi) as [h|] eqn:E2; try discriminate.
    destruct (eval s st) as [t|] eqn:E3; try discriminate.
    destruct (t =? 0) eqn:E4; try discriminate.
    apply prepend_ok_inv in H as [tr0 [H ->]].
    econstructor; eauto.
    + intro Z0. subst t. discriminate.
    + apply (do_loop_bs f); [|exact H]. intros; apply IH; assumption.
  - inversion H; subst; constructor.
  - inversion H; subst; constructor.
  - inversion H; subst; constructor.
  - destruct (opt_all (map (eval s) es)) as [vs|] eqn:E1; try discriminate.
    inversion H; subst. constructor; assumption.
  - destruct (exec f body s) as [sa tra ca| |] eqn:E; try discriminate.
    inversion H; subst. constructor. apply IH; assumption.
  - constructor. apply IH; assumption.
Qed.

Theorem exec_bs f : forall ss s s' tr c, exec f ss s = Ok s' tr c -> bs ss s s' tr c.
Proof.
  induction f as [|f IH]; intros ss s s' tr c H; [discriminate|].
  destruct ss as [|st rest].
  - inversion H; subst. constructor.
  - rewrite exec_cons in H. apply then_run_ok_inv in H as [[s1 [tr1 [tr2 [H1 [H2 ->]]]]]|[N H1]].
    + eapply bs_seq; [eapply exec_stmt_bs; eauto | apply IH; exact H2].
    + apply bs_abrupt; [eapply exec_stmt_bs; eauto | exact N].
Qed.
