(* C12/C13 — a fuelled DO WHILE on top of Fort.Sem, and the lifting of the frame theorem to regions that contain
   WHILE loops directly (no unrolling).

   wstmt  = a core statement or  DO WHILE (c) body END DO  (body: core statements)
   wloop n c body st : evaluate c; if false stop normally; else run the body (with fuel n-1) and repeat; abrupt
                       completion of the body (RETURN / EXIT as control state) is propagated; fuel 0 = OutOfFuel.
   The trace of a loop contains, per iteration, the reads of the condition and the events of the body, so equal
   traces mean the same number of iterations. *)
From Coq Require Import List ZArith Bool Lia.
Import ListNotations.
From PV Require Import Fort.Syntax Fort.Sem Fort.Facts.
Open Scope Z_scope.

Inductive wstmt := WS (s : stmt) | WWhile (c : expr) (body : list stmt).

Fixpoint wloop (n : nat) (c : expr) (body : list stmt) (st : store) : outcome :=
  match n with
  | O => OutOfFuel
  | S n' =>
      match eval st c with
      | None => Fault
      | Some v =>
          prepend (rds (ereads st c))
                  (if v =? 0 then Ok st [] CNormal
                   else then_run (exec n' body st) (wloop n' c body))
      end
  end.

Definition wstep (f : nat) (w : wstmt) (st : store) : outcome :=
  match w with WS s => exec f [s] st | WWhile c body => wloop f c body st end.

Fixpoint wexec (f : nat) (ws : list wstmt) (st : store) : outcome :=
  match ws with
  | [] => Ok st [] CNormal
  | w :: r => then_run (wstep f w st) (wexec f r)
  end.

(* number of completed condition evaluations that were true, for a successful run *)
Fixpoint witers (n : nat) (c : expr) (body : list stmt) (st : store) : nat :=
  match n with
  | O => O
  | S n' =>
      match eval st c with
      | Some v => if v =? 0 then O
                  else match exec n' body st with
                       | Ok s1 _ CNormal => S (witers n' c body s1)
                       | _ => 1%nat
                       end
      | None => O
      end
  end.

(* a guarded runner: evaluate e, emit its reads, continue with K0 (false) or K1 (true) *)
Lemma frame_guard (e : expr) (K0 K1 : runner) :
  frame_ok K0 -> frame_ok K1 ->
  frame_ok (fun st => match eval st e with
                      | None => Fault
                      | Some v => prepend (rds (ereads st e)) (if v =? 0 then K0 st else K1 st)
                      end).
Proof.
  intros H0 H1 s1 s1' tr c0 H s2 Hb Hag. cbv beta in *.
  destruct (eval s1 e) as [v|] eqn:E; try discriminate.
  apply prepend_ok_inv in H as [tr0 [H ->]].
  destruct (expr_frame s1 s2 e Hb) as [X1 X2];
    [intros l Hl; apply Hag, in_exposed_rds_app_l, Hl|].
  rewrite X1, X2, E.
  assert (G : forall K : runner, frame_ok K -> K s1 = Ok s1' tr0 c0 ->
              exists s2', prepend (rds (ereads s1 e)) (K s2) = Ok s2' (rds (ereads s1 e) ++ tr0) c0 /\
                bnd s2' = bnd s2 /\ (forall l, In l (writes (rds (ereads s1 e) ++ tr0)) -> val s2' l = val s1' l) /\
                (forall l, ~ In l (writes (rds (ereads s1 e) ++ tr0)) -> val s2' l = val s2 l)).
  { intros K HK HKs. destruct (HK _ _ _ _ HKs s2 Hb) as [s2' [R1 [R2 [R3 R4]]]];
      [intros l Hl; apply Hag, in_exposed_rds_app_r, Hl|].
    exists s2'. rewrite R1. cbn [prepend]. rewrite writes_rds_app. auto. }
  destruct (v =? 0); [apply (G K0 H0 H) | apply (G K1 H1 H)].
Qed.

Lemma frame_wloop c body : forall n, frame_ok (wloop n c body).
Proof.
  induction n as [|n IH].
  - intros s1 s1' tr c0 H. discriminate.
  - cbn [wloop].
    apply (frame_guard c (fun st => Ok st [] CNormal) (fun st => then_run (exec n body st) (wloop n c body))).
    + apply frame_ret.
    + apply (frame_then (exec n body) (wloop n c body)); [apply frame_exec | exact IH].
Qed.

Lemma frame_wstep f w : frame_ok (wstep f w).
Proof. destruct w as [s|c body]; [apply frame_exec | apply frame_wloop]. Qed.

Lemma frame_wexec f : forall ws, frame_ok (wexec f ws).
Proof.
  induction ws as [|w r IH]; [apply frame_ret|].
  cbn [wexec]. apply (frame_then (wstep f w) (wexec f r)); [apply frame_wstep | exact IH].
Qed.

(* the frame theorem for regions with WHILE loops, verbatim the statement of Fort.Facts.exec_frame *)
Theorem wexec_frame f ws s1 s1' tr c s2 :
  wexec f ws s1 = Ok s1' tr c ->
  bnd s2 = bnd s1 ->
  (forall l, In l (exposed tr) -> val s2 l = val s1 l) ->
  exists s2', wexec f ws s2 = Ok s2' tr c /\ bnd s2' = bnd s2 /\
    (forall l, In l (writes tr) -> val s2' l = val s1' l) /\
    (forall l, ~ In l (writes tr) -> val s2' l = val s2 l).
Proof. intros H Hb Hag. exact (frame_wexec f ws _ _ _ _ H s2 Hb Hag). Qed.

Corollary wexec_unchanged f ws s s' tr c l :
  wexec f ws s = Ok s' tr c -> ~ In l (writes tr) -> val s' l = val s l.
Proof. intros H N. apply (frame_ok_wb _ (frame_wexec f ws) _ _ _ _ H), N. Qed.

Corollary wexec_bnd f ws s s' tr c : wexec f ws s = Ok s' tr c -> bnd s' = bnd s.
Proof. intros H. apply (frame_ok_wb _ (frame_wexec f ws) _ _ _ _ H). Qed.

(* same number of iterations: a replay that agrees on the exposed reads of a loop run iterates equally often *)
Lemma witers_frame c body : forall n s1 s1' tr c0 s2,
  wloop n c body s1 = Ok s1' tr c0 -> bnd s2 = bnd s1 ->
  (forall l, In l (exposed tr) -> val s2 l = val s1 l) ->
  witers n c body s2 = witers n c body s1.
Proof.
  induction n as [|n IH]; intros s1 s1' tr c0 s2 H Hb Hag; [reflexivity|].
  cbn [wloop witers] in *.
  destruct (eval s1 c) as [v|] eqn:E; try discriminate.
  apply prepend_ok_inv in H as [tr0 [H ->]].
  destruct (expr_frame s1 s2 c Hb) as [X1 _]; [intros l Hl; apply Hag, in_exposed_rds_app_l, Hl|].
  rewrite X1, E. destruct (v =? 0); [reflexivity|].
  apply then_run_ok_inv in H as [[sa [tra [trb [Ha [Hbk ->]]]]]|[Nc Ha]].
  - destruct (exec_frame n body s1 sa tra CNormal s2 Ha Hb) as [sa2 [R1 [R2 [R3 R4]]]].
    { intros l Hl. apply Hag, in_exposed_rds_app_r, in_exposed_app. left; exact Hl. }
    rewrite Ha, R1. f_equal. apply (IH sa s1' trb c0 sa2 Hbk).
    + rewrite R2, Hb. symmetry. apply (exec_bnd _ _ _ _ _ _ Ha).
    + intros l Hl. destruct (in_dec loc_eq_dec l (writes tra)) as [I|N]; [apply R3, I|].
      rewrite R4 by exact N. rewrite (exec_unchanged _ _ _ _ _ _ l Ha N).
      apply Hag, in_exposed_rds_app_r, in_exposed_app. right; split; assumption.
  - destruct (exec_frame n body s1 s1' tr0 c0 s2 Ha Hb) as [sa2 [R1 _]].
    { intros l Hl. apply Hag, in_exposed_rds_app_r, Hl. }
    rewrite Ha, R1. destruct c0; [contradiction|reflexivity..].
Qed.

(* non-vacuity: do while (a(1) > 1 .and. t < 3): a(1) = a(1) - 1; t = t + 1  runs twice from a(1)=3, t=0 *)
Example while_runs :
  let c := EBin And (EBin Gt (EIdx 0%nat [ELit 1]) (ELit 1)) (EBin Lt (EVar 1%nat) (ELit 3)) in
  let body := [SAssign 0%nat [ELit 1] (EBin Sub (EIdx 0%nat [ELit 1]) (ELit 1)); SAssign 1%nat [] (EBin Add (EVar 1%nat) (ELit 1))] in
  let st := store_of [((0%nat, [1]), 3)] [] in
  witers 10 c body st = 2%nat /\
  exists s' tr, wexec 10 [WWhile c body] st = Ok s' tr CNormal /\ val s' (0%nat, [1]) = 1 /\ val s' (1%nat, []) = 2 /\
  wexec 1 [WWhile c body] st = OutOfFuel.
Proof.
  cbv zeta. split; [vm_compute; reflexivity|]. eexists. eexists.
  split; [vm_compute; reflexivity|]. split; [vm_compute; reflexivity|]. split; vm_compute; reflexivity.
Qed.
