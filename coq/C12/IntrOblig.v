(* C12/C13 — obligation regenerated on every run: the per-intrinsic `is_inquiry` flags of the tree under test
   (GenTables.v) are sound w.r.t. the frozen table of the standard's inquiry functions: every intrinsic is known, and an
   intrinsic whose first argument is skipped by reference_accesses really is an inquiry function. *)
From Coq Require Import List String Bool.
Import ListNotations.
From PV Require Import C12.IntrTable C12.GenTables.

Definition flag_ok (p : string * bool) : bool :=
  match lookup_intr (fst p) with Some std => implb (snd p) std | None => false end.

Theorem inquiry_flags_sound : forallb flag_ok gen_intrinsics = true.
Proof. vm_compute. reflexivity. Qed.

(* the flags the generated statements rely on *)
Example inquiry_flags_used :
  map std_inq ["RESHAPE"; "TRANSPOSE"; "SPREAD"; "PACK"; "SUM"; "MAXVAL"; "MINVAL"; "PRODUCT"; "MATMUL"; "DOT_PRODUCT";
               "SHAPE"; "SIZE"; "LBOUND"; "UBOUND"; "ALLOCATED"]%string
  = [false; false; false; false; false; false; false; false; false; false; true; true; true; true; true].
Proof. vm_compute. reflexivity. Qed.
