(* C12 — theorems about the call-tree resolution model (coq/C12/CallTree.v).

   (1) order independence: any permutation of the work list of routines gives the same input / output lists.
   (2) coverage for the generated class: a program is a table of routines whose bodies are core statements and, at their
       top level, calls WITHOUT arguments to other routines of the table; the meaning of a call is the inlined callee
       (to depth n).  Then every variable whose first access in the inlined code is not a WRITE is in the resolved
       inputs, and every location written by any run of the inlined code belongs to a resolved output. *)
From Coq Require Import List ZArith Bool Permutation Lia.
Import ListNotations.
From PV Require Import Fort.Syntax Fort.Sem Fort.Facts C11.Access C12.InOut C12.BigStep C12.Proofs C12.CallTree.

(* ------------------------------------------------------------------ (1) order independence *)
Lemma existsb_perm {A} (f : A -> bool) l l' : Permutation l l' -> existsb f l = existsb f l'.
Proof.
  induction 1 as [|x l l' _ IH|x y l|l l' l'' _ IH1 _ IH2]; cbn [existsb].
  - reflexivity.
  - rewrite IH. reflexivity.
  - destruct (f x), (f y); reflexivity.
  - rewrite IH1. exact IH2.
Qed.

Theorem calltree_order_independent rs rs' globals :
  Permutation rs rs' ->
  ct_inputs rs' globals = ct_inputs rs globals /\ ct_outputs rs' globals = ct_outputs rs globals.
Proof.
  intro P. unfold ct_inputs, ct_outputs. split; apply filter_ext; intro v; symmetry; apply existsb_perm; exact P.
Qed.

(* ------------------------------------------------------------------ (2) the program class and its inlined meaning *)
Inductive cstmt := CS (s : stmt) | CCall (j : nat).
Definition routine := list cstmt.

Fixpoint inline (n : nat) (p : list routine) (body : routine) : list stmt :=
  match n with
  | O => flat_map (fun c => match c with CS s => [s] | CCall _ => [] end) body
  | S n' => flat_map (fun c => match c with CS s => [s] | CCall j => inline n' p (nth j p []) end) body
  end.

(* the routines whose bodies are inlined (below the entry), to depth n *)
Fixpoint creached (n : nat) (p : list routine) (body : routine) : list routine :=
  match n with
  | O => []
  | S n' => flat_map (fun c => match c with CS _ => [] | CCall j => nth j p [] :: creached n' p (nth j p []) end) body
  end.
Definition reached (n : nat) (p : list routine) (body : routine) : list routine := body :: creached n p body.

Definition to_x (r : routine) : list xstmt :=
  map (fun c => match c with CS s => XCore s | CCall _ => XCall [] end) r.
Definition own (r : routine) : list acc := xaccs false (to_x r).

Lemma own_cons c r : own (c :: r) = match c with CS s => saccs false s | CCall _ => [] end ++ own r.
Proof. destruct c; reflexivity. Qed.

Lemma accs_app sh a b : accs sh (a ++ b) = accs sh a ++ accs sh b.
Proof. unfold accs. apply flat_map_app. Qed.

Definition seg (n : nat) (p : list routine) (c : cstmt) : list stmt :=
  match c with CS s => [s] | CCall j => match n with O => [] | S n' => inline n' p (nth j p []) end end.
Lemma inline_cons n p c r : inline n p (c :: r) = seg n p c ++ inline n p r.
Proof. destruct n; destruct c; reflexivity. Qed.
Definition cseg (n : nat) (p : list routine) (c : cstmt) : list routine :=
  match c, n with CCall j, S n' => nth j p [] :: creached n' p (nth j p []) | _, _ => [] end.
Lemma creached_cons n p c r : creached n p (c :: r) = cseg n p c ++ creached n p r.
Proof. destruct n; destruct c; reflexivity. Qed.

(* every access of the inlined code is an own access of a reached routine *)
Lemma inline_accs_own p : forall n body a,
  In a (accs false (inline n p body)) -> exists r, In r (reached n p body) /\ In a (own r).
Proof.
  induction n as [|n IHn]; induction body as [|c rest IHb]; intros a Ha; try (destruct Ha; fail).
  - rewrite inline_cons, accs_app in Ha. apply in_app_or in Ha as [Ha|Ha].
    + destruct c as [s|j]; [|destruct Ha]. exists (CS s :: rest). split; [left; reflexivity|].
      rewrite own_cons. apply in_or_app. left. cbn [seg accs flat_map] in Ha. rewrite app_nil_r in Ha. exact Ha.
    + destruct (IHb a Ha) as [r [[<-|Hr] Ho]].
      * exists (c :: rest). split; [left; reflexivity|]. rewrite own_cons. apply in_or_app. right. exact Ho.
      * exists r. split; [right; rewrite creached_cons; apply in_or_app; right; exact Hr | exact Ho].
  - rewrite inline_cons, accs_app in Ha. apply in_app_or in Ha as [Ha|Ha].
    + destruct c as [s|j].
      * exists (CS s :: rest). split; [left; reflexivity|].
        rewrite own_cons. apply in_or_app. left. cbn [seg accs flat_map] in Ha. rewrite app_nil_r in Ha. exact Ha.
      * cbn [seg] in Ha. destruct (IHn (nth j p []) a Ha) as [r [Hr Ho]]. exists r. split; [|exact Ho].
        right. rewrite creached_cons. apply in_or_app. left. exact Hr.
    + destruct (IHb a Ha) as [r [[<-|Hr] Ho]].
      * exists (c :: rest). split; [left; reflexivity|]. rewrite own_cons. apply in_or_app. right. exact Ho.
      * exists r. split; [right; rewrite creached_cons; apply in_or_app; right; exact Hr | exact Ho].
Qed.

(* first access kind of a variable in an access list *)
Definition fk (v : name) (L : list acc) : option akind := hd_error (of_var v L).
Lemma of_var_app v a b : of_var v (a ++ b) = of_var v a ++ of_var v b.
Proof. unfold of_var. rewrite filter_app, map_app. reflexivity. Qed.
Lemma fk_app v a b : fk v (a ++ b) = match fk v a with Some k => Some k | None => fk v b end.
Proof. unfold fk. rewrite of_var_app. destruct (of_var v a); reflexivity. Qed.

(* the first access to v in the inlined code is the first OWN access to v of some reached routine *)
Lemma first_access_own p v k : forall n body,
  fk v (accs false (inline n p body)) = Some k -> exists r, In r (reached n p body) /\ fk v (own r) = Some k.
Proof.
  assert (Step : forall n, (forall body, fk v (accs false (inline n p body)) = Some k ->
                               exists r, In r (reached n p body) /\ fk v (own r) = Some k) -> True) by (intros; exact I).
  clear Step.
  induction n as [|n IHn].
  - (* depth 0: calls contribute nothing *)
    assert (G : forall body, fk v (accs false (inline 0 p body)) = Some k ->
                fk v (own body) = Some k \/ exists r, In r (creached 0 p body) /\ fk v (own r) = Some k).
    { induction body as [|c rest IHb]; intro H; [discriminate|].
      rewrite inline_cons, accs_app, fk_app in H. rewrite own_cons, fk_app.
      destruct c as [s|j]; cbn [seg] in H.
      - cbn [accs flat_map] in H. rewrite app_nil_r in H. destruct (fk v (saccs false s)); [left; exact H|].
        destruct (IHb H) as [Hl|[r [Hr Ho]]]; [left; exact Hl | right; exists r; split; [exact Hr | exact Ho]].
      - cbn [accs flat_map fk of_var filter map hd_error] in H. cbn [fk of_var filter map hd_error].
        destruct (IHb H) as [Hl|[r [Hr Ho]]]; [left; exact Hl | right; exists r; split; [exact Hr | exact Ho]]. }
    intros body H. destruct (G body H) as [Hl|[r [Hr Ho]]]; [exists body; split; [left; reflexivity | exact Hl]|].
    exists r. split; [right; exact Hr | exact Ho].
  - assert (G : forall body, fk v (accs false (inline (S n) p body)) = Some k ->
                fk v (own body) = Some k \/ exists r, In r (creached (S n) p body) /\ fk v (own r) = Some k).
    { induction body as [|c rest IHb]; intro H; [discriminate|].
      rewrite inline_cons, accs_app, fk_app in H. rewrite own_cons, fk_app.
      destruct c as [s|j]; cbn [seg] in H.
      - cbn [accs flat_map] in H. rewrite app_nil_r in H. destruct (fk v (saccs false s)); [left; exact H|].
        destruct (IHb H) as [Hl|[r [Hr Ho]]]; [left; exact Hl|].
        right; exists r; split; [rewrite creached_cons; apply in_or_app; right; exact Hr | exact Ho].
      - cbn [fk of_var filter map hd_error].
        destruct (fk v (accs false (inline n p (nth j p [])))) as [k'|] eqn:E.
        + inversion H; subst k'. destruct (IHn (nth j p []) E) as [r [Hr Ho]].
          right. exists r. split; [rewrite creached_cons; apply in_or_app; left; exact Hr | exact Ho].
        + destruct (IHb H) as [Hl|[r [Hr Ho]]]; [left; exact Hl|].
          right; exists r; split; [rewrite creached_cons; apply in_or_app; right; exact Hr | exact Ho]. }
    intros body H. destruct (G body H) as [Hl|[r [Hr Ho]]]; [exists body; split; [left; reflexivity | exact Hl]|].
    exists r. split; [right; exact Hr | exact Ho].
Qed.

Lemma inputs_fk v L : In v (inputs_of L) <-> exists k, fk v L = Some k /\ k <> WRITE.
Proof.
  rewrite in_inputs. unfold wfirst, fk. split.
  - intros [Hin Hw]. destruct (of_var v L) as [|k ks] eqn:E.
    + exfalso. apply in_map_iff in Hin as [[y k] [Ey Hy]]. cbn [fst] in Ey. subst y.
      apply in_of_var in Hy. rewrite E in Hy. destruct Hy.
    + exists k. split; [reflexivity|]. intro Ek. subst k. discriminate.
  - intros [k [E Nk]]. destruct (of_var v L) as [|k0 ks] eqn:E0; [discriminate|]. inversion E; subst k0. split.
    + apply in_map_iff. exists (v, k). split; [reflexivity|]. apply in_of_var. rewrite E0. left; reflexivity.
    + destruct k; try reflexivity. contradiction.
Qed.

Lemma in_ct_inputs v rs globals :
  In v globals -> (exists r, In r rs /\ In v (inputs_of (xaccs false r))) -> In v (ct_inputs rs globals).
Proof.
  intros Hg [r [Hr Hi]]. unfold ct_inputs. apply filter_In. split; [exact Hg|].
  apply existsb_exists. exists r. split; [exact Hr|]. cbv zeta.
  unfold inputs_of in Hi. apply filter_In in Hi as [H1 H2]. apply andb_true_iff. split; [apply mem_In; exact H1 | exact H2].
Qed.

Lemma in_ct_outputs v rs globals :
  In v globals -> (exists r, In r rs /\ In (v, WRITE) (xaccs false r)) -> In v (ct_outputs rs globals).
Proof.
  intros Hg [r [Hr Hi]]. unfold ct_outputs. apply filter_In. split; [exact Hg|].
  apply existsb_exists. exists r. split; [exact Hr|]. unfold written. apply existsb_exists. exists WRITE.
  split; [apply in_of_var; exact Hi | reflexivity].
Qed.

(* PARTIAL: "incoming value read before being written" is approximated, as in the implementation, by "first access in
   the (inlined) access list is not a WRITE"; the exact dynamic statement fails for the known is_written_first gaps. *)
Theorem calltree_covers_partial n p entry globals :
  let rs := map to_x (reached n p entry) in
  (forall v, In v globals -> In v (inputs false (inline n p entry)) -> In v (ct_inputs rs globals)) /\
  (forall f st st' tr c, exec f (inline n p entry) st = Ok st' tr c ->
     forall l, In l (writes tr) -> In (fst l) globals -> In (fst l) (ct_outputs rs globals)).
Proof.
  cbv zeta. split.
  - intros v Hg Hi. unfold inputs in Hi. apply inputs_fk in Hi as [k [E Nk]].
    destruct (first_access_own p v k n entry E) as [r [Hr Ho]].
    apply in_ct_inputs; [exact Hg|]. exists (to_x r). split; [apply in_map; exact Hr|].
    apply inputs_fk. exists k. split; [exact Ho | exact Nk].
  - intros f st st' tr c H l Hl Hg. apply exec_bs in H.
    pose proof (proj1 (bs_writes_covered false) _ _ _ _ _ H l Hl) as Hw.
    destruct (inline_accs_own p n entry _ Hw) as [r [Hr Ho]].
    apply in_ct_outputs; [exact Hg|]. exists (to_x r). split; [apply in_map; exact Hr | exact Ho].
Qed.

(* with the must-define data-flow of InOut.v succeeding on the inlined code, every upward-exposed read of a module
   variable is of a resolved input *)
Corollary calltree_exposed_reads_covered n p entry globals f st st' tr c D' :
  exec f (inline n p entry) st = Ok st' tr c ->
  flow_block (inputs false (inline n p entry)) (inline n p entry) [] = Some D' ->
  forall l, In l (exposed tr) -> In (fst l) globals ->
  In (fst l) (ct_inputs (map to_x (reached n p entry)) globals).
Proof.
  intros H F l Hl Hg. destruct (flow_sound _ _ _ _ _ _ _ _ H F) as [A _].
  apply (proj1 (calltree_covers_partial n p entry globals)); [exact Hg | apply A, Hl].
Qed.

(* ---- non-vacuity: a 3-level chain; the entry reads g1, then a helper two levels down overwrites it
   entry:  g2 = g1 + 1 ; call h1        h1:  call h2 ; g3 = g2        h2:  g1 = 5 *)
Local Open Scope Z_scope.
Definition g1 : name := 0%nat. Definition g2 : name := 1%nat. Definition g3 : name := 2%nat.
Definition prog3 : list routine :=
  [ [CS (SAssign g2 [] (EBin Add (EVar g1) (ELit 1))); CCall 1%nat];
    [CCall 2%nat; CS (SAssign g3 [] (EVar g2))];
    [CS (SAssign g1 [] (ELit 5))] ].
Example calltree_nonvacuous :
  let entry := nth 0 prog3 [] in
  let rs := map to_x (reached 2 prog3 entry) in
  inline 2 prog3 entry = [SAssign g2 [] (EBin Add (EVar g1) (ELit 1)); SAssign g1 [] (ELit 5); SAssign g3 [] (EVar g2)] /\
  length rs = 3%nat /\
  ct_inputs rs [g1; g2; g3] = [g1; g2] /\ ct_outputs rs [g1; g2; g3] = [g1; g2; g3] /\
  ct_inputs (rev rs) [g1; g2; g3] = [g1; g2] /\
  (* the first-processed-routine-decides behaviour of the r2 seed would drop g1: h2 alone writes it first *)
  ct_inputs [to_x (nth 2 prog3 [])] [g1; g2; g3] = [] /\
  exists st' tr, exec 10 (inline 2 prog3 entry) (store_of [((g1, []), 7)] []) = Ok st' tr CNormal /\
                 val st' (g3, []) = 8 /\ val st' (g1, []) = 5.
Proof.
  cbv zeta. repeat (split; [vm_compute; reflexivity|]). eexists. eexists. split; [vm_compute; reflexivity|].
  split; vm_compute; reflexivity.
Qed.
