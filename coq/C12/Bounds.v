(* C12 — array extents as part of the incoming state.
   [exec_setb]: replacing the bounds of a store by bounds that agree on every array the region inquires
   (LBOUND/UBOUND/SIZE) does not change the execution (same trace, same control state, same values).
   Used to weaken "bnd s2 = bnd s1" in the replay theorems to agreement on the recorded variables. *)
From Coq Require Import List ZArith Bool Lia.
Import ListNotations.
From PV Require Import Fort.Syntax Fort.Sem Fort.Facts C11.Access C12.InOut C12.Proofs.

Definition setb (s : store) (b : name -> list (Z * Z)) : store := mkStore (val s) b.
Definition omapb (b : name -> list (Z * Z)) (o : outcome) : outcome :=
  match o with Ok s tr c => Ok (setb s b) tr c | other => other end.
Definition eq_on (b : name -> list (Z * Z)) (s : store) (I : list name) : Prop :=
  forall a, In a I -> b a = bnd s a.

Lemma upd_setb s b l v : upd (setb s b) l v = setb (upd s l v) b.
Proof. reflexivity. Qed.

Lemma eq_on_app b s I J : eq_on b s (I ++ J) <-> eq_on b s I /\ eq_on b s J.
Proof.
  unfold eq_on. split.
  - intro H. split; intros a Ha; apply H, in_or_app; auto.
  - intros [H1 H2] a Ha. apply in_app_or in Ha as [Ha|Ha]; auto.
Qed.

Lemma eq_on_bnd b s s' I : bnd s' = bnd s -> eq_on b s I -> eq_on b s' I.
Proof. intros E H a Ha. rewrite E. apply H, Ha. Qed.

Lemma eval_intr_setb s b f args vs :
  (is_inquiry f = true -> forall a r, args = EVar a :: r -> b a = bnd s a) ->
  eval_intr (setb s b) f args vs = eval_intr s f args vs.
Proof.
  intro H. destruct f; cbn [eval_intr]; try reflexivity;
    (destruct vs as [|d [|d' vs']]; try reflexivity;
     destruct args as [|a0 r]; try reflexivity; destruct a0; try reflexivity;
     unfold dim_of; cbn [bnd setb]; rewrite (H eq_refl _ _ eq_refl); reflexivity).
Qed.

Definition setb_P (b : name -> list (Z * Z)) (s : store) (e : expr) : Prop :=
  eq_on b s (e_inq e) -> eval (setb s b) e = eval s e /\ ereads (setb s b) e = ereads s e.

Lemma evals_setb b s es :
  Forall (setb_P b s) es -> eq_on b s (flat_map e_inq es) ->
  map (eval (setb s b)) es = map (eval s) es /\ flat_map (ereads (setb s b)) es = flat_map (ereads s) es.
Proof.
  induction 1 as [|e es He _ IH]; intro H; [split; reflexivity|].
  cbn [flat_map map] in *. apply eq_on_app in H as [H1 H2].
  destruct (He H1) as [E1 E2]. destruct (IH H2) as [E3 E4]. rewrite E1, E2, E3, E4. split; reflexivity.
Qed.

Lemma eval_setb_aux b s e : setb_P b s e.
Proof.
  induction e as [z|x|a ix IH|o e IH|o e1 e2 IH1 IH2|f args IH] using expr_ind'; unfold setb_P in *;
    intro H; cbn [eval ereads e_inq] in *.
  - split; reflexivity.
  - split; reflexivity.
  - destruct (evals_setb b s ix IH H) as [E1 E2]. rewrite E1, E2. split; reflexivity.
  - destruct (IH H) as [E1 E2]. rewrite E1, E2. split; reflexivity.
  - apply eq_on_app in H as [H1 H2]. destruct (IH1 H1) as [E1 E2]. destruct (IH2 H2) as [E3 E4].
    rewrite E1, E2, E3, E4. split; reflexivity.
  - apply eq_on_app in H as [H1 H2].
    destruct (is_inquiry f) eqn:Ef.
    + destruct args as [|a0 r]; [split; reflexivity|].
      cbn [flat_map] in H2. apply eq_on_app in H2 as [_ H2].
      destruct (evals_setb b s r (Forall_inv_tail IH) H2) as [E1 E2]. rewrite E1, E2. split; [|reflexivity].
      destruct (opt_all (map (eval s) r)); [|reflexivity].
      apply eval_intr_setb. intros _ a r0 Eq. inversion Eq; subst. apply H1. left; reflexivity.
    + destruct (evals_setb b s args IH H2) as [E1 E2]. rewrite E1, E2. split; [|reflexivity].
      destruct (opt_all (map (eval s) args)); [|reflexivity].
      apply eval_intr_setb. intro X. rewrite Ef in X. discriminate.
Qed.

Lemma eval_setb b s e : eq_on b s (e_inq e) ->
  eval (setb s b) e = eval s e /\ ereads (setb s b) e = ereads s e.
Proof. apply eval_setb_aux. Qed.

Lemma evals_setb' b s es : eq_on b s (flat_map e_inq es) ->
  map (eval (setb s b)) es = map (eval s) es /\ flat_map (ereads (setb s b)) es = flat_map (ereads s) es.
Proof. apply evals_setb. apply Forall_forall. intros e _. apply eval_setb_aux. Qed.

Lemma prepend_omapb b t o : prepend t (omapb b o) = omapb b (prepend t o).
Proof. destruct o; reflexivity. Qed.

(* a runner family commutes with the replacement of bounds *)
Definition commutes (b : name -> list (Z * Z)) (run : list stmt -> store -> outcome) : Prop :=
  forall ss s, eq_on b s (inq_of ss) -> run ss (setb s b) = omapb b (run ss s).

Lemma do_loop_setb b (run : store -> outcome) x l t I :
  (forall s, eq_on b s I -> run (setb s b) = omapb b (run s)) ->
  (forall s s' tr c, run s = Ok s' tr c -> bnd s' = bnd s) ->
  forall n k s, eq_on b s I ->
    do_loop run x l t n k (setb s b) = omapb b (do_loop run x l t n k s).
Proof.
  intros Hc Hb. induction n as [|n IH]; intros k s H.
  - reflexivity.
  - cbn [do_loop]. rewrite upd_setb.
    assert (H1 : eq_on b (upd s (x, []) (l + k * t)) I) by exact H.
    rewrite (Hc _ H1).
    destruct (run (upd s (x, []) (l + k * t))) as [s2 tr c| |] eqn:E; cbn [omapb]; try reflexivity.
    assert (H2 : eq_on b s2 I) by (apply (eq_on_bnd b _ s2 I (Hb _ _ _ _ E)); exact H1).
    destruct c; try reflexivity; rewrite (IH _ _ H2); apply prepend_omapb.
Qed.

Lemma exec_stmt_setb b (run : list stmt -> store -> outcome) st s :
  commutes b run -> (forall ss, frame_ok (run ss)) ->
  eq_on b s (s_inq st) ->
  exec_stmt run st (setb s b) = omapb b (exec_stmt run st s).
Proof.
  intros Hc Hf H.
  destruct st as [x ix e|c th el|x lo hi st body| | | |es|r body|d body]; cbn [exec_stmt s_inq] in *.
  - apply eq_on_app in H as [H1 H2].
    destruct (evals_setb' b s ix H1) as [E1 E2]. destruct (eval_setb b s e H2) as [E3 E4].
    rewrite E1, E2, E3, E4. destruct (opt_all (map (eval s) ix)); [|reflexivity].
    destruct (eval s e); reflexivity.
  - apply eq_on_app in H as [H1 H2]. apply eq_on_app in H2 as [H2 H3].
    destruct (eval_setb b s c H1) as [E1 E2]. rewrite E1, E2.
    destruct (eval s c) as [v|]; [|reflexivity].
    rewrite Hc by (destruct (Z.eqb v 0); assumption). apply prepend_omapb.
  - apply eq_on_app in H as [H1 H]. apply eq_on_app in H as [H2 H]. apply eq_on_app in H as [H3 H4].
    destruct (eval_setb b s lo H1) as [E1 E2]. destruct (eval_setb b s hi H2) as [E3 E4].
    destruct (eval_setb b s st H3) as [E5 E6]. rewrite E1, E2, E3, E4, E5, E6.
    destruct (eval s lo) as [l|]; [|reflexivity]. destruct (eval s hi) as [h|]; [|reflexivity].
    destruct (eval s st) as [t|]; [|reflexivity]. destruct (Z.eqb t 0); [reflexivity|].
    rewrite (do_loop_setb b (run body) x l t (inq_of body)).
    + apply prepend_omapb.
    + intros s0 H0. apply Hc, H0.
    + intros s0 s' tr c E. apply (frame_ok_wb _ (Hf body) _ _ _ _ E).
    + exact H4.
  - reflexivity.
  - reflexivity.
  - reflexivity.
  - destruct (evals_setb' b s es H) as [E1 E2]. rewrite E1, E2.
    destruct (opt_all (map (eval s) es)); reflexivity.
  - rewrite (Hc body s H). destruct (run body s); reflexivity.
  - apply Hc, H.
Qed.

Theorem exec_setb b f : commutes b (exec f).
Proof.
  induction f as [|f IH]; intros ss s H; [reflexivity|].
  destruct ss as [|st rest]; [reflexivity|].
  rewrite !exec_cons. unfold inq_of in H. cbn [flat_map] in H. apply eq_on_app in H as [H1 H2].
  rewrite (exec_stmt_setb b (exec f) st s IH (frame_exec f) H1).
  destruct (exec_stmt (exec f) st s) as [s1 tr1 c| |] eqn:E; cbn [omapb]; try reflexivity.
  destruct c; try reflexivity. unfold then_run; cbn [bind_run].
  assert (Hb : bnd s1 = bnd s).
  { apply (frame_ok_wb _ (frame_exec_stmt (exec f) st (frame_exec f)) _ _ _ _ E). }
  rewrite (IH rest s1 (eq_on_bnd b s s1 _ Hb H2)). apply prepend_omapb.
Qed.

(* ------------------------------------------------------------------------------------------ *)
(** * replay with extents: only the recorded variables' bounds need to agree *)

Definition bnd_agree_on (X : list name) (s1 s2 : store) : Prop := forall x, In x X -> bnd s2 x = bnd s1 x.

Lemma setb_self s : setb s (bnd s) = s.
Proof. destruct s; reflexivity. Qed.

Theorem replay_sound_dyn_ext sh f r s1 s1' tr c s2 :
  exec f r s1 = Ok s1' tr c ->
  (forall l, In l (exposed tr) -> In (fst l) (inputs sh r)) ->
  inq_ok sh r = true ->
  bnd_agree_on (recorded sh r) s1 s2 -> agree_on (inputs sh r) s1 s2 ->
  exists s2', exec f r s2 = Ok s2' tr c /\ bnd s2' = bnd s2 /\
    (forall l, In (fst l) (inputs sh r) \/ In l (writes tr) -> val s2' l = val s1' l).
Proof.
  intros H Hex Hq Hb Hag.
  (* s2 with the bounds of s1 *)
  set (s2b := setb s2 (bnd s1)).
  destruct (replay_sound_dyn sh f r s1 s1' tr c s2b H Hex eq_refl) as [s2b' [R1 [R2 R3]]].
  { intros x idx Hx. apply (Hag x idx Hx). }
  assert (Hq' : eq_on (bnd s2) s2b (inq_of r)).
  { intros a Ha. unfold inq_ok in Hq. rewrite forallb_forall in Hq. apply Hb. apply mem_In. apply Hq, Ha. }
  pose proof (exec_setb (bnd s2) f r s2b Hq') as E. rewrite R1 in E. cbn [omapb] in E.
  assert (Es : setb s2b (bnd s2) = s2) by (destruct s2; reflexivity).
  rewrite Es in E. exists (setb s2b' (bnd s2)). split; [exact E|]. split; [reflexivity|].
  intros l Hl. apply (R3 l Hl).
Qed.

Theorem replay_sound_partial_ext sh f r s1 s1' tr c s2 :
  safe_ext sh r = true ->
  exec f r s1 = Ok s1' tr c ->
  bnd_agree_on (recorded sh r) s1 s2 -> agree_on (inputs sh r) s1 s2 ->
  exists s2', exec f r s2 = Ok s2' tr c /\ bnd s2' = bnd s2 /\
    agree_on (inputs sh r) s1' s2' /\
    (forall l, In l (writes tr) -> val s2' l = val s1' l) /\
    (c = CNormal -> forall x, In x (outputs r) -> var_agree r x s1' s2').
Proof.
  intros Hs H Hb Hag. unfold safe_ext in Hs. apply andb_true_iff in Hs as [Hs Hq].
  set (s2b := setb s2 (bnd s1)).
  destruct (replay_sound_partial sh f r s1 s1' tr c s2b Hs H eq_refl) as [s2b' [R1 [R2 [R3 [R4 R5]]]]].
  { intros x idx Hx. apply (Hag x idx Hx). }
  assert (Hq' : eq_on (bnd s2) s2b (inq_of r)).
  { intros a Ha. unfold inq_ok in Hq. rewrite forallb_forall in Hq. apply Hb. apply mem_In. apply Hq, Ha. }
  pose proof (exec_setb (bnd s2) f r s2b Hq') as E. rewrite R1 in E. cbn [omapb] in E.
  assert (Es : setb s2b (bnd s2) = s2) by (destruct s2; reflexivity).
  rewrite Es in E. exists (setb s2b' (bnd s2)). split; [exact E|]. split; [reflexivity|].
  split; [exact R3|]. split; [exact R4|]. exact R5.
Qed.

(* with ExtractTrans' option every inquired array has a READ access, hence is recorded as an input
   unless its first access is a write, in which case it is recorded as an output *)
Local Open Scope Z_scope.
(* hist(size(active,1)) = hist(1) + 1 : `active` is an input under the option, and the extent matters *)
Definition r_hist : list stmt :=
  [SAssign 0%nat [EIntr ISize [EVar 1%nat; ELit 1]] (EBin Add (EIdx 0%nat [ELit 1]) (ELit 1))].
Example ext_nonvacuous :
  safe_ext true r_hist = true /\ inputs true r_hist = [0%nat; 1%nat] /\
  inq_of r_hist = [1%nat] /\ inq_ok false r_hist = false /\ inputs false r_hist = [0%nat] /\
  exists s' tr, exec 5 r_hist (store_of [((0%nat, [1]), 4)] [(0%nat, [(1, 6)]); (1%nat, [(1, 3)])]) = Ok s' tr CNormal /\
                val s' (0%nat, [3]) = 5.
Proof.
  split; [vm_compute; reflexivity|]. split; [vm_compute; reflexivity|]. split; [vm_compute; reflexivity|].
  split; [vm_compute; reflexivity|]. split; [vm_compute; reflexivity|].
  eexists. eexists. split; vm_compute; reflexivity.
Qed.
