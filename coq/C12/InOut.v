(* C12 — input / output parameter lists of a code region (model; DEFINITIONS ONLY, no proofs).

   Faithful model, over the shared MiniFortran syntax, of
     CallTreeUtils.get_input_parameters / get_output_parameters / get_in_out_parameters
       (src/psyclone/psyir/tools/call_tree_utils.py:162-275)
     SingleVariableAccessInfo.is_written_first / is_written / is_read
       (src/psyclone/core/single_variable_access_info.py)
     ExtractNode.lower_to_language_level (src/psyclone/psyir/nodes/extract_node.py), which calls
       get_in_out_parameters with ExtractTrans' default option COLLECT-ARRAY-SHAPE-READS = True.

   The variable-access list itself is the C11 model (coq/C11/Access.v, `accesses`); this file has its
   own location-free copy [accs sh] with the COLLECT-ARRAY-SHAPE-READS option [sh] (C11 models the
   default, option off); C12/Proofs.v proves  accs false r = map (sig, kind) (C11.accesses r).

   Granularity is the implementation's: whole variables (an array is one signature).

   Also here (shared with C13): the must-define data-flow [flow] used as the SUFFICIENT condition
   [safe] of the partial soundness theorem.  It is NOT part of the implementation. *)
From Coq Require Import List ZArith Bool String.
Import ListNotations.
From PV Require Import Fort.Syntax Fort.Sem C11.Access C12.IntrTable.

Definition acc := (name * akind)%type.

Definition mem (x : name) (l : list name) : bool := existsb (Nat.eqb x) l.

(* ---- Reference / Operation / IntrinsicCall .reference_accesses: every reference is a READ, index
        expressions first.  [sh] = option COLLECT-ARRAY-SHAPE-READS: when off, the first argument of
        an inquiry intrinsic (LBOUND/UBOUND/SIZE) is skipped (intrinsic_call.py). *)
Fixpoint ereads_s (sh : bool) (e : expr) : list name :=
  match e with
  | ELit _ => []
  | EVar x => [x]
  | EIdx a ix => flat_map (ereads_s sh) ix ++ [a]
  | EUn _ e1 => ereads_s sh e1
  | EBin _ l r => ereads_s sh l ++ ereads_s sh r
  | EIntr f args =>
      if is_inquiry f && negb sh
      then match args with [] => [] | _ :: r => flat_map (ereads_s sh) r end
      else flat_map (ereads_s sh) args
  end.

Definition rdl (xs : list name) : list acc := map (fun x => (x, READ)) xs.

(* ---- Node.reference_accesses in insertion order, without the location counter:
   Assignment: RHS reads, LHS index reads, LHS WRITE;  IfBlock: condition, if-body, else-body;
   Loop: variable WRITE, variable READ, start/stop/step reads, body;  CodeBlock/Return: nothing. *)
Fixpoint saccs (sh : bool) (s : stmt) : list acc :=
  match s with
  | SAssign x ix e => rdl (ereads_s sh e) ++ rdl (flat_map (ereads_s sh) ix) ++ [(x, WRITE)]
  | SIf c th el => rdl (ereads_s sh c) ++ flat_map (saccs sh) th ++ flat_map (saccs sh) el
  | SDo x lo hi st body =>
      (x, WRITE) :: (x, READ) :: rdl (ereads_s sh lo ++ ereads_s sh hi ++ ereads_s sh st)
      ++ flat_map (saccs sh) body
  | SExit | SCycle | SReturn => []
  | SPrint _ => []
  | SRegion _ body => flat_map (saccs sh) body
  | SDir _ body => flat_map (saccs sh) body
  end.

Definition accs (sh : bool) (r : list stmt) : list acc := flat_map (saccs sh) r.

(* ---- Assignment.reference_accesses raises NotImplementedError ("appears more than once on the left-hand
   side") when the assigned variable also has an access inside its own index expressions — with the
   shape-read option this includes `d(size(d,1)) = ...` *)
Fixpoint s_ok (sh : bool) (s : stmt) : bool :=
  match s with
  | SAssign x ix _ => negb (mem x (flat_map (ereads_s sh) ix))
  | SIf _ th el => forallb (s_ok sh) th && forallb (s_ok sh) el
  | SDo _ _ _ _ body => forallb (s_ok sh) body
  | SRegion _ body => forallb (s_ok sh) body
  | SDir _ body => forallb (s_ok sh) body
  | _ => true
  end.
Definition accs_ok (sh : bool) (r : list stmt) : bool := forallb (s_ok sh) r.

(* ---- SingleVariableAccessInfo predicates on a location-free access list *)
Definition of_var (x : name) (l : list acc) : list akind :=
  map snd (filter (fun a => Nat.eqb (fst a) x) l).

Definition wfirst (x : name) (l : list acc) : bool :=          (* is_written_first *)
  match of_var x l with k :: _ => akind_eqb k WRITE | [] => false end.
Definition written (x : name) (l : list acc) : bool :=         (* is_written *)
  existsb kind_writes (of_var x l).
Definition isread (x : name) (l : list acc) : bool :=          (* is_read *)
  existsb kind_reads (of_var x l).
Definition hasrw (x : name) (l : list acc) : bool :=           (* has_read_write *)
  existsb (fun k => akind_eqb k READWRITE) (of_var x l).

Definition sigs (l : list acc) : list name := dedup [] (map fst l).   (* all_signatures (unsorted) *)

(* ---- get_input_parameters / get_output_parameters *)
Definition inputs_of (l : list acc) : list name := filter (fun x => negb (wfirst x l)) (sigs l).
Definition outputs_of (l : list acc) : list name := filter (fun x => written x l) (sigs l).

Definition inputs (sh : bool) (r : list stmt) : list name := inputs_of (accs sh r).
Definition outputs (r : list stmt) : list name := outputs_of (accs false r).

(* ---- comparison with the implementation's lists (sets of numbered names) *)
Definition set_eqb (a b : list name) : bool :=
  forallb (fun x => mem x b) a && forallb (fun x => mem x a) b.

(* case = (region, shape-reads option, reported inputs, reported outputs) *)
Definition io_case := (list stmt * bool * list name * list name)%type.
Definition io_agrees (c : io_case) : bool :=
  match c with (r, sh, ins, outs) =>
    set_eqb (inputs sh r) ins && set_eqb (outputs_of (accs sh r)) outs
  end.

(* ------------------------------------------------------------------------------------------ *)
(* The sufficient condition.  [flow V s D]: V = variables whose every location is known to agree
   (the reported inputs), D = scalars definitely assigned so far in this execution.  Every read must
   be of a V variable or of a D scalar; a whole-scalar assignment and a DO header add to D; an IF
   keeps what both branches define; a loop body may not run, so only the DO variable is added. *)
Fixpoint eok (V D : list name) (e : expr) : bool :=
  match e with
  | ELit _ => true
  | EVar x => mem x V || mem x D
  | EIdx a ix => forallb (eok V D) ix && mem a V
  | EUn _ e1 => eok V D e1
  | EBin _ l r => eok V D l && eok V D r
  | EIntr f args =>
      if is_inquiry f then match args with [] => true | _ :: r => forallb (eok V D) r end
      else forallb (eok V D) args
  end.

Definition inter (a b : list name) : list name := filter (fun x => mem x b) a.

(* sequencing of a per-statement transfer function (a plain list recursion with [f] a parameter, so
   that the nested recursive calls of [flow] below pass the guard checker) *)
Definition seq_flow (f : stmt -> list name -> option (list name)) : list stmt -> list name -> option (list name) :=
  fix go (ss : list stmt) (D : list name) {struct ss} : option (list name) :=
    match ss with
    | [] => Some D
    | s1 :: r => match f s1 D with Some D1 => go r D1 | None => None end
    end.

Fixpoint flow (V : list name) (s : stmt) (D : list name) {struct s} : option (list name) :=
  match s with
  | SAssign x ix e =>
      if eok V D e && forallb (eok V D) ix
      then Some (match ix with [] => x :: D | _ => D end) else None
  | SIf c th el =>
      if eok V D c
      then match seq_flow (flow V) th D, seq_flow (flow V) el D with
           | Some D1, Some D2 => Some (inter D1 D2) | _, _ => None end
      else None
  | SDo x lo hi st body =>
      if eok V D lo && eok V D hi && eok V D st
      then match seq_flow (flow V) body (x :: D) with Some _ => Some (x :: D) | None => None end
      else None
  | SExit | SCycle | SReturn => Some D
  | SPrint es => if forallb (eok V D) es then Some D else None
  | SRegion _ body => seq_flow (flow V) body D
  | SDir _ body => seq_flow (flow V) body D
  end.

Definition flow_block (V : list name) : list stmt -> list name -> option (list name) := seq_flow (flow V).

(* x occurs with an index list (or as the array argument of an inquiry intrinsic) somewhere in r *)
Fixpoint e_arrs (e : expr) : list name :=
  match e with
  | ELit _ | EVar _ => []
  | EIdx a ix => a :: flat_map e_arrs ix
  | EUn _ e1 => e_arrs e1
  | EBin _ l r => e_arrs l ++ e_arrs r
  | EIntr f args =>
      (if is_inquiry f then match args with EVar a :: _ => [a] | _ => [] end else [])
      ++ flat_map e_arrs args
  end.
Fixpoint s_arrs (s : stmt) : list name :=
  match s with
  | SAssign x ix e => (match ix with [] => [] | _ => [x] end) ++ flat_map e_arrs ix ++ e_arrs e
  | SIf c th el => e_arrs c ++ flat_map s_arrs th ++ flat_map s_arrs el
  | SDo _ lo hi st body => e_arrs lo ++ e_arrs hi ++ e_arrs st ++ flat_map s_arrs body
  | SExit | SCycle | SReturn => []
  | SPrint es => flat_map e_arrs es
  | SRegion _ body => flat_map s_arrs body
  | SDir _ body => flat_map s_arrs body
  end.
Definition arrays_of (r : list stmt) : list name := flat_map s_arrs r.

(* ---- array extents as part of the incoming state.  [inq_of r]: arrays whose bounds the region can read
   (first argument of LBOUND / UBOUND / SIZE).  The extents of the RECORDED variables (reported inputs, and
   outputs, whose `_post` copy carries the shape) are part of the recorded state; [inq_ok]: every inquired
   array is recorded.  With ExtractTrans' option COLLECT-ARRAY-SHAPE-READS an inquired array gets a READ
   access, so it is an input unless its first access is a write (then it is an output). *)
Fixpoint e_inq (e : expr) : list name :=
  match e with
  | ELit _ | EVar _ => []
  | EIdx _ ix => flat_map e_inq ix
  | EUn _ e1 => e_inq e1
  | EBin _ l r => e_inq l ++ e_inq r
  | EIntr f args =>
      (if is_inquiry f then match args with EVar a :: _ => [a] | _ => [] end else [])
      ++ flat_map e_inq args
  end.
Fixpoint s_inq (s : stmt) : list name :=
  match s with
  | SAssign _ ix e => flat_map e_inq ix ++ e_inq e
  | SIf c th el => e_inq c ++ flat_map s_inq th ++ flat_map s_inq el
  | SDo _ lo hi st body => e_inq lo ++ e_inq hi ++ e_inq st ++ flat_map s_inq body
  | SExit | SCycle | SReturn => []
  | SPrint es => flat_map e_inq es
  | SRegion _ body => flat_map s_inq body
  | SDir _ body => flat_map s_inq body
  end.
Definition inq_of (r : list stmt) : list name := flat_map s_inq r.
Definition recorded (sh : bool) (r : list stmt) : list name := inputs sh r ++ outputs r.
Definition inq_ok (sh : bool) (r : list stmt) : bool := forallb (fun a => mem a (recorded sh r)) (inq_of r).

(* safe: with the reported inputs taken as the agreeing variables, no read ever needs anything else,
   and every output that is not an input is a scalar (never indexed in r) that is definitely
   assigned on every normally completing execution. *)
Definition safe_with (V : list name) (r : list stmt) : bool :=
  match flow_block V r [] with
  | Some D' => forallb (fun x => mem x V || (mem x D' && negb (mem x (arrays_of r)))) (outputs r)
  | None => false
  end.
Definition safe (sh : bool) (r : list stmt) : bool := safe_with (inputs sh r) r.
(* safe when array extents may differ between the recording run and the replay *)
Definition safe_ext (sh : bool) (r : list stmt) : bool := safe sh r && inq_ok sh r.

(* reads are safe (no upward-exposed read outside the inputs) but some output is not reproduced *)
Definition reads_safe (sh : bool) (r : list stmt) : bool :=
  match flow_block (inputs sh r) r [] with Some _ => true | None => false end.

(* ---- reason codes for a variable x that is written-first (hence not an input):
   1 = array (partially written array), 2 = DO variable whose own bounds read it first,
   3 = scalar whose first write is conditional (IF branch / loop body that may not run),
   0 = x is not written-first (so the rule says it IS an input). *)
Fixpoint first_stmt_touching (sh : bool) (x : name) (r : list stmt) : option stmt :=
  match r with
  | [] => None
  | s :: rest => if mem x (map fst (saccs sh s)) then Some s else first_stmt_touching sh x rest
  end.
Definition reason (sh : bool) (r : list stmt) (x : name) : nat :=
  if negb (wfirst x (accs sh r)) then 0
  else if mem x (arrays_of r) then 1
  else match first_stmt_touching sh x r with
       | Some (SDo y lo hi st _) =>
           if Nat.eqb x y && mem x (ereads_s sh lo ++ ereads_s sh hi ++ ereads_s sh st) then 2 else 3
       | _ => 3
       end.

(* ------------------------------------------------------------------------------------------ *)
(* Regions with calls to routines (user subroutines, known or unknown body).  The analysis does not look
   into the callee: Call.reference_accesses (call.py:277-318), non-pure routine: a Reference argument gets
   READWRITE BEFORE its index expressions are visited (READ); any other argument is walked as an expression.
   A READWRITE first access is not WRITE, so the variable is an input; READWRITE is a write access, so it is
   an output.  The SEMANTICS of a call is supplied separately (the harness expands known callees and treats
   an opaque callee as reading and writing every element of its by-reference arguments). *)
(* Whole-array statements  x = e  /  x(:) = e  (x a whole array, or a scalar for reductions), e built from whole-array
   and scalar references, literals, operators and array-valued / reduction / inquiry intrinsics (RESHAPE, TRANSPOSE,
   SPREAD, PACK, SUM, MAXVAL, MATMUL, DOT_PRODUCT, SHAPE, SIZE, ...).  IntrinsicCall.reference_accesses: every argument
   READ, except the first argument of an intrinsic flagged `is_inquiry` (option COLLECT-ARRAY-SHAPE-READS off); the flag
   is looked up in the FROZEN table of the standard's inquiry functions (C12/IntrTable.v; the tree's own flags are
   checked against it by C12/IntrOblig.v).  `x(:) = e` is stored as x(lbound(x,1):ubound(x,1)): with the shape-read
   option these bounds READ x and Assignment.reference_accesses raises ("appears more than once"). *)
Inductive wexpr :=
| WLit (z : Z)
| WRef (x : name)
| WBin (l r : wexpr)
| WIntr (f : string) (args : list wexpr).

Fixpoint wreads (sh : bool) (e : wexpr) : list name :=
  match e with
  | WLit _ => []
  | WRef x => [x]
  | WBin l r => wreads sh l ++ wreads sh r
  | WIntr f args =>
      if std_inq f && negb sh
      then match args with [] => [] | _ :: r => flat_map (wreads sh) r end
      else flat_map (wreads sh) args
  end.

Inductive xstmt :=
| XCore (s : stmt)
| XCall (args : list expr)
| XWop (x : name) (ranged : bool) (e : wexpr)
| XWhile (c : expr) (body : list stmt).      (* DO WHILE: WhileLoop.reference_accesses = condition, then body
                                                (while_loop.py:144-157); semantics by bounded unrolling in the harness *)

Definition call_arg (sh : bool) (e : expr) : list acc :=
  match e with
  | EVar x => [(x, READWRITE)]
  | EIdx a ix => (a, READWRITE) :: rdl (flat_map (ereads_s sh) ix)
  | _ => rdl (ereads_s sh e)
  end.
Definition xaccs (sh : bool) (xs : list xstmt) : list acc :=
  flat_map (fun x => match x with
                     | XCore s => saccs sh s
                     | XCall args => flat_map (call_arg sh) args
                     | XWop x _ e => rdl (wreads sh e) ++ [(x, WRITE)]
                     | XWhile c body => rdl (ereads_s sh c) ++ flat_map (saccs sh) body
                     end) xs.
Definition core_of (xs : list xstmt) : list stmt :=
  flat_map (fun x => match x with XCore s => [s] | _ => [] end) xs.
(* the region contains statements whose semantics is supplied by the harness (calls, whole-array statements) *)
Definition has_call (xs : list xstmt) : bool :=
  existsb (fun x => match x with XCore _ => false | _ => true end) xs.
(* the implementation answers (does not raise NotImplementedError) *)
Definition xs_ok (sh : bool) (xs : list xstmt) : bool :=
  accs_ok sh (core_of xs) &&
  forallb (fun x => match x with XWop _ ranged _ => negb (ranged && sh) | XWhile _ body => accs_ok sh body
                             | _ => true end) xs.

Definition xio_agrees (c : list xstmt * bool * list name * list name) : bool :=
  match c with (xs, sh, ins, outs) =>
    set_eqb (inputs_of (xaccs sh xs)) ins && set_eqb (outputs_of (xaccs sh xs)) outs
  end.
(* reason code of a culprit x in a region with calls; [arrs] = the declared arrays *)
Definition xreason (sh : bool) (xs : list xstmt) (arrs : list name) (x : name) : nat :=
  if negb (wfirst x (xaccs sh xs)) then 0
  else if mem x arrs then 1
  else reason sh (core_of xs) x.
