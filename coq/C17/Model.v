(* C17 — Symbolic comparisons agree with Fortran integer arithmetic.   MODEL (definitions only).

   Anchors (PSyclone working tree):
     src/psyclone/core/symbolic_maths.py      SymbolicMaths.equal / never_equal / _subtract /
                                              solve_equal_for / expand
     src/psyclone/psyir/backend/sympy_writer.py   SymPyWriter (literal_node, intrinsiccall_node,
                                              arrayreference_node, gen_indices, reference_node) on top of
     src/psyclone/psyir/backend/fortran.py    FortranWriter.binaryoperation_node / unaryoperation_node
                                              (parenthesisation by precedence) followed by sympy's
                                              parse_expr, i.e. PYTHON's expression grammar.

   * [expr]   : Fortran integer expressions (PSyIR), [feval] : their value in Z under Fortran rules
                (truncating "/", MOD with the sign of the dividend, "**", MIN/MAX, arrays as functions of
                the evaluated indices).  Division by zero, MOD by zero and 0**negative are [None].
   * [sexpr]  : what sympy receives.  [tr fixed e] : model of SymPyWriter followed by parse_expr.
                It is structural (integer "/" becomes the rational "/", MOD -> Mod, MIN/MAX -> Min/Max,
                a(i,j) -> a(i,i,1,j,j,1)) EXCEPT for one quirk of the unchanged tree: a "**" whose LEFT
                operand is itself a "**" is written without brackets ("n ** 2 ** 3"), which Python (as
                Fortran) reads right-associatively.  [fixed = false] models the unchanged tree,
                [fixed = true] a writer that brackets the left operand (a candidate repair of C02);
                props/C17/translate.py determines which one the tree under test implements.
   * [seval]  : sympy's semantics over Q (rational "/", Mod = p - q*floor(p/q) i.e. sign of the DIVISOR,
                Min/Max, integer powers, uninterpreted functions from the environment).
   * [zseval] : the same semantics restricted to the division-free part, computed in Z (used by the
                proofs as a stepping stone and by the polynomial normaliser).
   * sympy's simplify / solveset / expand are ORACLES: parameters of [equal_m] etc.; their soundness
     is a Section hypothesis in Proofs.v.  [poly_const] is a closed, proved-sound instance of the
     simplify oracle for the polynomial fragment. *)
From Coq Require Import List ZArith QArith Qround Bool String Ascii.
Import ListNotations.
Open Scope Z_scope.

(* ------------------------------------------------------------------ syntax *)
Inductive binop := Add | Sub | Mul | Div | Pow.
Inductive fn := FMin | FMax | FMod | FArr (name : string).
Inductive expr :=
| ELit (z : Z)
| EVar (x : string)
| ENeg (a : expr)
| EBin (o : binop) (a b : expr)
| ECall (f : fn) (args : list expr).

Inductive sfn := SMin | SMax | SMod | SFun (name : string).
Inductive sexpr :=
| SInt (z : Z)
| SVar (x : string)
| SNeg (a : sexpr)
| SBin (o : binop) (a b : sexpr)
| SCall (f : sfn) (args : list sexpr).

Definition binop_eqb (a b : binop) : bool :=
  match a, b with
  | Add, Add | Sub, Sub | Mul, Mul | Div, Div | Pow, Pow => true
  | _, _ => false
  end.
Definition sfn_eqb (a b : sfn) : bool :=
  match a, b with
  | SMin, SMin | SMax, SMax | SMod, SMod => true
  | SFun x, SFun y => String.eqb x y
  | _, _ => false
  end.
Fixpoint sexpr_eqb (a b : sexpr) {struct a} : bool :=
  match a, b with
  | SInt x, SInt y => Z.eqb x y
  | SVar x, SVar y => String.eqb x y
  | SNeg x, SNeg y => sexpr_eqb x y
  | SBin o x1 x2, SBin p y1 y2 => binop_eqb o p && sexpr_eqb x1 y1 && sexpr_eqb x2 y2
  | SCall f xs, SCall g ys =>
      sfn_eqb f g &&
      (fix go (xs ys : list sexpr) {struct xs} : bool :=
         match xs, ys with
         | [], [] => true
         | x :: xs', y :: ys' => sexpr_eqb x y && go xs' ys'
         | _, _ => false
         end) xs ys
  | _, _ => false
  end.

Fixpoint sequence {A} (l : list (option A)) : option (list A) :=
  match l with
  | [] => Some []
  | None :: _ => None
  | Some x :: r => match sequence r with Some r' => Some (x :: r') | None => None end
  end.

(* ------------------------------------------------- Fortran semantics (in Z) *)
Record fenv := { fvar : string -> Z; farr : string -> list Z -> Z }.

Definition fdiv (a b : Z) : option Z := if b =? 0 then None else Some (Z.quot a b).
Definition fmod (a b : Z) : option Z := if b =? 0 then None else Some (Z.rem a b).
(* integer power; negative exponent = truncated reciprocal (F2008 7.1.5.2.2) *)
Definition fpow (a b : Z) : option Z :=
  if 0 <=? b then Some (Z.pow a b)
  else if a =? 0 then None
  else if a =? 1 then Some 1
  else if a =? -1 then Some (if Z.even b then 1 else -1)
  else Some 0.
Definition fbin (o : binop) (a b : Z) : option Z :=
  match o with
  | Add => Some (a + b) | Sub => Some (a - b) | Mul => Some (a * b)
  | Div => fdiv a b | Pow => fpow a b
  end.
Definition zfold (f : Z -> Z -> Z) (l : list Z) : option Z :=
  match l with [] => None | x :: r => Some (fold_left f r x) end.
Definition fcall (E : fenv) (f : fn) (zs : list Z) : option Z :=
  match f with
  | FMin => zfold Z.min zs
  | FMax => zfold Z.max zs
  | FMod => match zs with [a; b] => fmod a b | _ => None end
  | FArr n => Some (farr E n zs)
  end.
Fixpoint feval (E : fenv) (e : expr) {struct e} : option Z :=
  match e with
  | ELit z => Some z
  | EVar x => Some (fvar E x)
  | ENeg a => option_map Z.opp (feval E a)
  | EBin o a b => match feval E a, feval E b with
                  | Some x, Some y => fbin o x y
                  | _, _ => None
                  end
  | ECall f args => match sequence (map (feval E) args) with
                    | Some zs => fcall E f zs
                    | None => None
                    end
  end.

(* ------------------------------------------------ SymPyWriter + parse_expr *)
Definition wrap (s : sexpr) (acc : option sexpr) : sexpr :=
  match acc with None => s | Some c => SBin Pow s c end.
Definition trf (f : fn) : sfn :=
  match f with FMin => SMin | FMax => SMax | FMod => SMod | FArr n => SFun n end.
(* gen_indices: every index expression i becomes the three arguments i,i,1 *)
Definition triple (l : list sexpr) : list sexpr := flat_map (fun s => [s; s; SInt 1]) l.
Definition trargs (f : fn) (l : list sexpr) : list sexpr :=
  match f with FArr _ => triple l | _ => l end.

(* [trx fixed e acc] = what Python parses for the text of [e] when [e] is the left operand of a
   chain of "**" whose (already right-nested) exponent is [acc]. *)
Fixpoint trx (fixed : bool) (e : expr) (acc : option sexpr) {struct e} : sexpr :=
  match e with
  | ELit z => wrap (SInt z) acc
  | EVar x => wrap (SVar x) acc
  | ENeg a => wrap (SNeg (trx fixed a None)) acc
  | EBin o a b =>
      match o with
      | Pow => if fixed then wrap (SBin Pow (trx fixed a None) (trx fixed b None)) acc
               else trx fixed a (Some (wrap (trx fixed b None) acc))
      | _ => wrap (SBin o (trx fixed a None) (trx fixed b None)) acc
      end
  | ECall f args => wrap (SCall (trf f) (trargs f (map (fun a => trx fixed a None) args))) acc
  end.
Definition tr (fixed : bool) (e : expr) : sexpr := trx fixed e None.

(* ------------------------------------------ sympy semantics, integer part *)
Definition zsbin (o : binop) (a b : Z) : option Z :=
  match o with
  | Add => Some (a + b) | Sub => Some (a - b) | Mul => Some (a * b)
  | Div => None
  | Pow => if 0 <=? b then Some (Z.pow a b) else None
  end.
Definition zscall (E : fenv) (f : sfn) (zs : list Z) : option Z :=
  match f with
  | SMin => zfold Z.min zs
  | SMax => zfold Z.max zs
  | SMod => None
  | SFun n => Some (farr E n zs)
  end.
Fixpoint zseval (E : fenv) (s : sexpr) {struct s} : option Z :=
  match s with
  | SInt z => Some z
  | SVar x => Some (fvar E x)
  | SNeg a => option_map Z.opp (zseval E a)
  | SBin o a b => match zseval E a, zseval E b with
                  | Some x, Some y => zsbin o x y
                  | _, _ => None
                  end
  | SCall f args => match sequence (map (zseval E) args) with
                    | Some zs => zscall E f zs
                    | None => None
                    end
  end.

(* the sympy function a(i,i,1,j,j,1) stands for the Fortran array element a(i,j) *)
Fixpoint destride (l : list Z) : list Z :=
  match l with a :: _ :: _ :: r => a :: destride r | _ => [] end.
Definition senv_of (E : fenv) : fenv :=
  {| fvar := fvar E; farr := fun n zs => farr E n (destride zs) |}.

(* ------------------------------------------------ sympy semantics over Q *)
Record qenv := { qvar : string -> Q; qfun : string -> list Q -> Q }.

Definition q_is_int (b : Q) : bool := Qeq_bool (inject_Z (Qfloor b)) b.
Definition qdiv (a b : Q) : option Q := if Qeq_bool b 0 then None else Some (a / b)%Q.
(* integer powers only (Qpower: binary exponentiation, reciprocal for negative exponents) *)
Definition qpow (a b : Q) : option Q :=
  if q_is_int b then
    let k := Qfloor b in
    if (k <? 0) && Qeq_bool a 0 then None else Some (Qpower a k)
  else None.     (* irrational / complex results are outside the model *)
(* sympy Mod(p, q) = p - q*floor(p/q): the result has the sign of the divisor *)
Definition qmod (a b : Q) : option Q :=
  if Qeq_bool b 0 then None else Some (a - b * inject_Z (Qfloor (a / b)))%Q.
Definition qmin (a b : Q) : Q := if Qle_bool a b then a else b.
Definition qmax (a b : Q) : Q := if Qle_bool a b then b else a.
Definition qsbin (o : binop) (a b : Q) : option Q :=
  match o with
  | Add => Some (a + b)%Q | Sub => Some (a - b)%Q | Mul => Some (a * b)%Q
  | Div => qdiv a b | Pow => qpow a b
  end.
Definition qfold (f : Q -> Q -> Q) (l : list Q) : option Q :=
  match l with [] => None | x :: r => Some (fold_left f r x) end.
Definition qscall (V : qenv) (f : sfn) (qs : list Q) : option Q :=
  match f with
  | SMin => qfold qmin qs
  | SMax => qfold qmax qs
  | SMod => match qs with [a; b] => qmod a b | _ => None end
  | SFun n => Some (qfun V n qs)
  end.
Fixpoint seval (V : qenv) (s : sexpr) {struct s} : option Q :=
  match s with
  | SInt z => Some (inject_Z z)
  | SVar x => Some (qvar V x)
  | SNeg a => option_map Qopp (seval V a)
  | SBin o a b => match seval V a, seval V b with
                  | Some x, Some y => qsbin o x y
                  | _, _ => None
                  end
  | SCall f args => match sequence (map (seval V) args) with
                    | Some qs => qscall V f qs
                    | None => None
                    end
  end.

(* an integer environment seen as a rational one *)
Definition liftQ (E : fenv) : qenv :=
  {| qvar := fun x => inject_Z (fvar E x);
     qfun := fun n qs => inject_Z (farr E n (map Qfloor qs)) |}.
(* the rational valuation that corresponds to the Fortran environment E *)
Definition qenv_of (E : fenv) : qenv := liftQ (senv_of E).

Definition oeq (a b : option Q) : Prop :=
  match a, b with
  | Some x, Some y => (x == y)%Q
  | None, None => True
  | _, _ => False
  end.
Definition oeqb (a b : option Q) : bool :=
  match a, b with
  | Some x, Some y => Qeq_bool x y
  | None, None => true
  | _, _ => false
  end.

(* ------------------------------------------------------- the safe fragment *)
Definition is_pow (e : expr) : bool := match e with EBin Pow _ _ => true | _ => false end.
Definition nonneg_lit (e : expr) : bool := match e with ELit k => 0 <=? k | _ => false end.
(* plus, minus, times, power with a non-negative literal exponent (on the unchanged tree: whose base
   is not itself a power), unary minus, MIN/MAX, array accesses; literals are non-negative (as the
   frontend makes them) *)
Fixpoint in_frag (fixed : bool) (e : expr) {struct e} : bool :=
  match e with
  | ELit z => 0 <=? z
  | EVar _ => true
  | ENeg a => in_frag fixed a
  | EBin o a b =>
      match o with
      | Add | Sub | Mul => in_frag fixed a && in_frag fixed b
      | Div => false
      | Pow => in_frag fixed a && nonneg_lit b && (fixed || negb (is_pow a))
      end
  | ECall f args =>
      match f with
      | FMod => false
      | FMin | FMax => negb (match args with [] => true | _ => false end) && forallb (in_frag fixed) args
      | FArr _ => forallb (in_frag fixed) args
      end
  end.

(* static reason codes: which features outside the fragment an expression uses (0 = "/", 1 = MOD,
   2 = "**" with an exponent that is not a non-negative literal, 3 = "**" whose base is a "**" (only
   on the unchanged tree), 4 = negative literal) *)
Fixpoint features (fixed : bool) (e : expr) {struct e} : list Z :=
  match e with
  | ELit z => if 0 <=? z then [] else [4]
  | EVar _ => []
  | ENeg a => features fixed a
  | EBin o a b =>
      (match o with
       | Div => [0]
       | Pow => (if nonneg_lit b then [] else [2]) ++ (if fixed || negb (is_pow a) then [] else [3])
       | _ => []
       end) ++ features fixed a ++ features fixed b
  | ECall f args =>
      (match f with FMod => [1] | _ => [] end) ++ flat_map (features fixed) args
  end.

(* ---------------------------------------------------- the modelled API *)
Definition sdiff (fixed : bool) (a b : expr) : sexpr := SBin Sub (tr fixed a) (tr fixed b).
(* orc s = Some k  <->  simplify(s) is the sympy Integer k *)
Definition equal_m (orc : sexpr -> option Z) (fixed : bool) (a b : expr) : bool :=
  match orc (sdiff fixed a b) with Some k => k =? 0 | None => false end.
Definition never_equal_m (orc : sexpr -> option Z) (fixed : bool) (a b : expr) : bool :=
  match orc (sdiff fixed a b) with Some k => negb (k =? 0) | None => false end.
(* osolve s x = Some sols <-> solveset(s, x) is the FiniteSet sols (or EmptySet); None = "independent" *)
Definition solve_m (osolve : sexpr -> string -> option (list sexpr)) (fixed : bool) (a b : expr)
           (x : string) : option (list sexpr) := osolve (sdiff fixed a b) x.
(* expand: writer, sympy.expand, str + FortranReader *)
Definition expand_m (oexpand : sexpr -> sexpr) (reader : sexpr -> option expr) (fixed : bool)
           (e : expr) : option expr := reader (oexpand (tr fixed e)).

Definition upd (E : fenv) (x : string) (z : Z) : fenv :=
  {| fvar := fun y => if String.eqb y x then z else fvar E y; farr := farr E |}.

(* ----------------------------------------- polynomial normaliser (closed) *)
Definition mono := list string.            (* sorted list of variables, with repetition *)
Definition poly := list (mono * Z).        (* sorted by monomial, no zero coefficient *)

Fixpoint sinsert (x : string) (m : mono) : mono :=
  match m with
  | [] => [x]
  | y :: r => if String.leb x y then x :: m else y :: sinsert x r
  end.
Definition mmul (a b : mono) : mono := fold_right sinsert b a.
Fixpoint mono_eqb (a b : mono) : bool :=
  match a, b with
  | [], [] => true
  | x :: a', y :: b' => String.eqb x y && mono_eqb a' b'
  | _, _ => false
  end.
Fixpoint mono_leb (a b : mono) : bool :=
  match a, b with
  | [], _ => true
  | _ :: _, [] => false
  | x :: a', y :: b' => match String.compare x y with
                        | Lt => true | Gt => false | Eq => mono_leb a' b'
                        end
  end.
(* graded: lower degree first, then lexicographic *)
Definition mono_le (a b : mono) : bool :=
  let la := Z.of_nat (List.length a) in let lb := Z.of_nat (List.length b) in
  if la <? lb then true else if lb <? la then false else mono_leb a b.

Fixpoint pinsert (m : mono) (c : Z) (p : poly) : poly :=
  match p with
  | [] => if c =? 0 then [] else [(m, c)]
  | (m', c') :: r =>
      if mono_eqb m m' then (let s := c + c' in if s =? 0 then r else (m, s) :: r)
      else if mono_le m m' then (if c =? 0 then p else (m, c) :: p)
      else (m', c') :: pinsert m c r
  end.
Definition padd (p q : poly) : poly := fold_right (fun mc acc => pinsert (fst mc) (snd mc) acc) q p.
Definition pneg (p : poly) : poly := map (fun mc => (fst mc, - snd mc)) p.
Definition pmul1 (m : mono) (c : Z) (q acc : poly) : poly :=
  fold_right (fun mc acc' => pinsert (mmul m (fst mc)) (c * snd mc) acc') acc q.
Definition pmul (p q : poly) : poly := fold_right (fun mc acc => pmul1 (fst mc) (snd mc) q acc) [] p.
Definition pconst (z : Z) : poly := if z =? 0 then [] else [([], z)].
Definition pvar (x : string) : poly := [([x], 1)].
Fixpoint ppow (p : poly) (n : nat) : poly :=
  match n with O => pconst 1 | S k => pmul p (ppow p k) end.
Definition is_const (p : poly) : option Z :=
  match p with
  | [] => Some 0
  | [([], c)] => Some c
  | _ => None
  end.

Fixpoint norm (s : sexpr) {struct s} : option poly :=
  match s with
  | SInt z => Some (pconst z)
  | SVar x => Some (pvar x)
  | SNeg a => option_map pneg (norm a)
  | SBin o a b =>
      match norm a, norm b with
      | Some p, Some q =>
          match o with
          | Add => Some (padd p q)
          | Sub => Some (padd p (pneg q))
          | Mul => Some (pmul p q)
          | Div => None
          | Pow => match is_const q with
                   | Some k => if (0 <=? k) && (k <=? 64) then Some (ppow p (Z.to_nat k)) else None
                   | None => None
                   end
          end
      | _, _ => None
      end
  | SCall _ _ => None
  end.

Definition meval (E : fenv) (m : mono) : Z := fold_right (fun x acc => fvar E x * acc) 1 m.
Definition peval (E : fenv) (p : poly) : Z :=
  fold_right (fun mc acc => snd mc * meval E (fst mc) + acc) 0 p.

(* closed instance of the simplify oracle: the constant a polynomial normalises to *)
Definition poly_const (s : sexpr) : option Z :=
  match norm s with Some p => is_const p | None => None end.

(* closed instance of the expand oracle: the normal form written back as a sum of products *)
Fixpoint reify_mono (m : mono) : sexpr :=
  match m with
  | [] => SInt 1
  | [x] => SVar x
  | x :: r => SBin Mul (SVar x) (reify_mono r)
  end.
Definition reify_term (m : mono) (c : Z) : sexpr :=
  match m with [] => SInt c | _ => SBin Mul (SInt c) (reify_mono m) end.
Fixpoint reify (p : poly) : sexpr :=
  match p with
  | [] => SInt 0
  | [(m, c)] => reify_term m c
  | (m, c) :: r => SBin Add (reify_term m c) (reify r)
  end.
Definition poly_expand (s : sexpr) : sexpr :=
  match norm s with Some p => reify p | None => s end.
(* structural reader for the division-free part: the inverse of the structural translation *)
Fixpoint untr (s : sexpr) {struct s} : option expr :=
  match s with
  | SInt z => Some (if 0 <=? z then ELit z else ENeg (ELit (- z)))
  | SVar x => Some (EVar x)
  | SNeg a => option_map ENeg (untr a)
  | SBin o a b => match o with
                  | Add | Sub | Mul =>
                      match untr a, untr b with
                      | Some x, Some y => Some (EBin o x y)
                      | _, _ => None
                      end
                  | _ => None
                  end
  | SCall _ _ => None
  end.

(* ------------------------------------------------- harness canonicalisation
   Python reads "-a * b" as (-a)*b where the PSyIR tree (and Fortran) has -(a*b): the value is the
   same.  [canon] moves every sign out of products and quotients so that both shapes compare equal. *)
Fixpoint csign (s : sexpr) {struct s} : bool * sexpr :=
  let re := fun x => let nb := csign x in if fst nb then SNeg (snd nb) else snd nb in
  match s with
  | SInt z => if z <? 0 then (true, SInt (- z)) else (false, SInt z)
  | SVar _ => (false, s)
  | SNeg a => let nb := csign a in (negb (fst nb), snd nb)
  | SBin o a b =>
      match o with
      | Mul | Div => let na := csign a in let nb := csign b in
                     (xorb (fst na) (fst nb), SBin o (snd na) (snd nb))
      | _ => (false, SBin o (re a) (re b))
      end
  | SCall f args => (false, SCall f (map re args))
  end.
Definition canon (s : sexpr) : sexpr :=
  let nb := csign s in if fst nb then SNeg (snd nb) else snd nb.

(* ------------------------------------------------- correspondence helpers *)
(* deterministic array contents shared with the Python harness *)
Definition name_code (n : string) : Z :=
  match n with EmptyString => 0 | String c _ => Z.of_nat (nat_of_ascii c) end.
Definition std_arr (salt : Z) (n : string) (zs : list Z) : Z :=
  Z.modulo (fold_left (fun h z => Z.modulo (h * 5 + z + 2) 11) zs (salt + name_code n)) 7 - 3.
Fixpoint lookup (l : list (string * Z)) (x : string) : Z :=
  match l with [] => 0 | (y, z) :: r => if String.eqb x y then z else lookup r x end.
Definition mk_env (salt : Z) (l : list (string * Z)) : fenv :=
  {| fvar := lookup l; farr := std_arr salt |}.
Fixpoint qlookup (l : list (string * Q)) (x : string) : Q :=
  match l with [] => 0%Q | (y, q) :: r => if String.eqb x y then q else qlookup r x end.
(* rational valuation: variables from the list, functions = std_arr on the floors of every third
   argument (what qenv_of gives for integer arguments) *)
Definition mk_qenv (salt : Z) (l : list (string * Q)) : qenv :=
  {| qvar := qlookup l; qfun := fun n qs => inject_Z (std_arr salt n (destride (map Qfloor qs))) |}.

Definition oz_eqb (a b : option Z) : bool :=
  match a, b with Some x, Some y => x =? y | None, None => true | _, _ => false end.
Definition lz_eqb (a b : list Z) : bool :=
  (fix go (a b : list Z) := match a, b with [] , [] => true | x :: a', y :: b' => (x =? y) && go a' b' | _, _ => false end) a b.

(* case 1: Python's Fortran evaluator against feval, fragment / feature classification *)
Definition chk_feval (fixed : bool) (c : expr * (Z * list (string * Z)) * (option Z * (bool * list Z))) : bool :=
  let '(e, (salt, l), (v, (fr, fs))) := c in
  oz_eqb (feval (mk_env salt l) e) v && Bool.eqb (in_frag fixed e) fr && lz_eqb (features fixed e) fs.
(* case 2: the text the real SymPyWriter produced (parsed by Python's grammar) against tr *)
Definition chk_tr (fixed : bool) (c : expr * sexpr) : bool :=
  sexpr_eqb (canon (tr fixed (fst c))) (canon (snd c)).
(* case 3: the value of the real sympy expression under a rational valuation against seval (tr e) *)
Definition chk_seval (fixed : bool) (c : expr * (Z * list (string * Q)) * option Q) : bool :=
  let '(e, (salt, l), v) := c in oeqb (seval (mk_qenv salt l) (tr fixed e)) v.
(* case 4: verdicts of the implementation on the polynomial fragment against the closed decision:
   the implementation may only answer "equal" / "never equal" when the normaliser agrees *)
Definition chk_poly (fixed : bool) (c : expr * expr * (bool * bool)) : bool :=
  let '(a, b, (eq, ne)) := c in
  match norm (sdiff fixed a b) with
  | None => true                                   (* outside the polynomial fragment *)
  | Some p => (implb eq (match is_const p with Some k => k =? 0 | None => false end))
              && (implb ne (match is_const p with Some k => negb (k =? 0) | None => false end))
  end.
Definition poly_verdict (fixed : bool) (a b : expr) : option (option Z) :=
  match norm (sdiff fixed a b) with None => None | Some p => Some (is_const p) end.
