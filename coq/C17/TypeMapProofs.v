(* C17 — the type map binds every name of the translation, injectively; renaming keeps the value *)
From Coq Require Import List ZArith NArith QArith Bool String Ascii Lia.
Import ListNotations.
From PV Require Import C17.Model C17.Proofs C17.TypeMap.
Open Scope list_scope.

(* ---------------------------------------------------------------- freshness *)
Lemma mem_true_in : forall x l, mem x l = true -> In x l.
Proof.
  intros x l H. unfold mem in H. apply existsb_exists in H as [y [Hy E]].
  apply String.eqb_eq in E. subst. exact Hy.
Qed.
Lemma mem_false_notin : forall x l, mem x l = false -> ~ In x l.
Proof.
  intros x l H I. assert (mem x l = true) as T.
  { unfold mem. apply existsb_exists. exists x. split; [exact I | apply String.eqb_refl]. }
  congruence.
Qed.
Lemma fresh_from_fresh : forall fuel used x k u, fresh_from fuel used x k = Some u -> ~ In u used.
Proof.
  induction fuel as [|f IH]; intros used x k u H; simpl in H; [discriminate|].
  destruct (mem (cand x k) used) eqn:E.
  - exact (IH _ _ _ _ H).
  - inversion H; subst. apply mem_false_notin. exact E.
Qed.
Lemma new_name_fresh : forall used x u, new_name used x = Some u -> ~ In u used.
Proof.
  intros used x u H. unfold new_name in H. destruct (mem x used) eqn:E.
  - exact (fresh_from_fresh _ _ _ _ _ H).
  - inversion H; subst. apply mem_false_notin. exact E.
Qed.

(* ---------------------------------------------------------------- invariant *)
Definition inv (used : list string) (tm : tmap) : Prop :=
  (forall en, In en tm -> In (uname en) used) /\ NoDup (map uname tm) /\ NoDup (map fname tm).

Lemma has_fname_false : forall tm x, has_fname tm x = false -> ~ In x (map fname tm).
Proof.
  intros tm x H I. apply in_map_iff in I as [en [E I]].
  assert (has_fname tm x = true) as T.
  { unfold has_fname. apply existsb_exists. exists en. split; [exact I | rewrite E; apply String.eqb_refl]. }
  congruence.
Qed.
Lemma has_fname_true : forall tm x, has_fname tm x = true -> In x (map fname tm).
Proof.
  intros tm x H. unfold has_fname in H. apply existsb_exists in H as [en [I E]].
  apply String.eqb_eq in E. apply in_map_iff. exists en. auto.
Qed.

Lemma NoDup_snoc {A} : forall (l : list A) x, NoDup l -> ~ In x l -> NoDup (l ++ [x]).
Proof.
  induction l as [|y l IH]; intros x N H; simpl.
  - constructor; [intros [] | constructor].
  - inversion N; subst. constructor.
    + rewrite in_app_iff. intros [I|[I|[]]]; [contradiction | subst; apply H; left; reflexivity].
    + apply IH; [assumption | intro I; apply H; right; exact I].
Qed.

Lemma build_from_spec : forall l used tm tm', inv used tm -> build_from used tm l = Some tm' ->
  (exists used', inv used' tm') /\ incl tm tm' /\
  (forall x k, In (x, k) l -> In x (map fname tm')).
Proof.
  induction l as [|[x k] r IH]; intros used tm tm' I H; simpl in H.
  - inversion H; subst. split; [exists used; exact I|]. split; [apply incl_refl | intros ? ? []].
  - destruct (has_fname tm x) eqn:E.
    + destruct (IH _ _ _ I H) as [Hi [Hincl Hb]]. split; [exact Hi|]. split; [exact Hincl|].
      intros y k' [Heq|Hin]; [|exact (Hb _ _ Hin)]. inversion Heq; subst.
      apply has_fname_true in E. apply in_map_iff in E as [en [E1 E2]].
      apply in_map_iff. exists en. split; [exact E1 | apply Hincl; exact E2].
    + destruct (new_name used x) as [u|] eqn:En; [|discriminate].
      assert (inv (u :: used) (tm ++ [mk_entry x k u])) as I'.
      { destruct I as [I1 [I2 I3]]. pose proof (new_name_fresh _ _ _ En) as F. split; [|split].
        - intros en Hin. apply in_app_iff in Hin as [Hin|[Hin|[]]]; [right; apply I1; exact Hin | subst; left; reflexivity].
        - rewrite map_app. simpl. apply NoDup_snoc; [exact I2|].
          intro Hin. apply in_map_iff in Hin as [en [E1 E2]]. apply F. rewrite <- E1. apply I1. exact E2.
        - rewrite map_app. simpl. apply NoDup_snoc; [exact I3 | apply has_fname_false; exact E]. }
      destruct (IH _ _ _ I' H) as [Hi [Hincl Hb]]. split; [exact Hi|]. split.
      * intros en Hin. apply Hincl. apply in_app_iff. left. exact Hin.
      * intros y k' [Heq|Hin]; [|exact (Hb _ _ Hin)]. inversion Heq; subst.
        apply in_map_iff. exists (mk_entry y k' u). split; [reflexivity|]. apply Hincl. apply in_app_iff. right. left. reflexivity.
Qed.

Lemma inv_init : inv reserved [].
Proof. unfold inv. split; [intros ? []|]. split; constructor. Qed.

Lemma build_spec : forall es tm, build es = Some tm ->
  NoDup (map uname tm) /\ NoDup (map fname tm) /\
  (forall x k, In (x, k) (flat_map occs es) -> In x (map fname tm)).
Proof.
  intros es tm H. destruct (build_from_spec _ _ _ _ inv_init H) as [[used' [_ [N1 N2]]] [_ Hb]]. auto.
Qed.

(* ------------------------------------------------ names of the translation *)
Definition accnames (acc : option sexpr) : list string := match acc with Some c => snames c | None => [] end.

Lemma snames_wrap : forall s acc x, In x (snames (wrap s acc)) -> In x (snames s) \/ In x (accnames acc).
Proof. intros s [c|] x H; simpl in *; [apply in_app_iff in H; exact H | left; exact H]. Qed.

Lemma snames_triple : forall l x, In x (flat_map snames (triple l)) -> In x (flat_map snames l).
Proof.
  induction l as [|s l IH]; intros x H; [exact H|].
  unfold triple in H. simpl in H. rewrite !in_app_iff in H. simpl. rewrite in_app_iff.
  destruct H as [H|[H|H]]; [left; exact H | left; exact H | right; apply IH; exact H].
Qed.

Lemma snames_trx : forall fixed e acc x, In x (snames (trx fixed e acc)) ->
  In x (map fst (occs e)) \/ In x (accnames acc).
Proof.
  intros fixed e. induction e as [z|y|a IH|o a b IHa IHb|f args IH] using expr_ind2; intros acc x H; cbn [trx] in H.
  - apply snames_wrap in H as [[]|H]. right; exact H.
  - apply snames_wrap in H as [H|H]; [left; exact H | right; exact H].
  - apply snames_wrap in H as [H|H]; [|right; exact H]. simpl in H.
    destruct (IH None x H) as [G|[]]. left; exact G.
  - assert (forall acc', In x (snames (wrap (SBin o (trx fixed a None) (trx fixed b None)) acc')) ->
              In x (map fst (occs (EBin o a b))) \/ In x (accnames acc')) as Gen.
    { intros acc' H'. apply snames_wrap in H' as [H'|H']; [|right; exact H']. left.
      simpl in H'. apply in_app_iff in H'. cbn [occs]. rewrite map_app, in_app_iff.
      destruct H' as [H'|H']; [destruct (IHa None x H') as [G|[]]; left; exact G
                              | destruct (IHb None x H') as [G|[]]; right; exact G]. }
    destruct o; try exact (Gen acc H). destruct fixed; [exact (Gen acc H)|].
    cbn [occs]. rewrite map_app, in_app_iff.
    destruct (IHa _ x H) as [G|G]; [left; left; exact G|].
    cbn [accnames] in G. apply snames_wrap in G as [G|G]; [|right; exact G].
    destruct (IHb None x G) as [G'|[]]. left; right; exact G'.
  - apply snames_wrap in H as [H|H]; [|right; exact H]. left.
    cbn [snames] in H. apply in_app_iff in H. cbn [occs]. rewrite map_app, in_app_iff.
    destruct H as [H|H].
    + left. destruct f; simpl in *; try contradiction. exact H.
    + right.
      assert (In x (flat_map snames (map (fun a => trx fixed a None) args))) as H'.
      { destruct f; cbn [trargs] in H; try exact H. apply snames_triple. exact H. }
      clear H. induction IH as [|a args Ha _ IHl]; simpl in *; [contradiction|].
      rewrite map_app, in_app_iff. apply in_app_iff in H' as [H'|H'].
      * destruct (Ha None x H') as [G|[]]. left; exact G.
      * right. apply IHl. exact H'.
Qed.

(* every name occurring in tr e is bound by the map of e *)
Theorem type_map_total_ : forall fixed e tm, build [e] = Some tm ->
  forall x, In x (snames (tr fixed e)) -> has_fname tm x = true.
Proof.
  intros fixed e tm H x Hx. destruct (build_spec _ _ H) as [_ [_ Hb]].
  destruct (snames_trx fixed e None x Hx) as [G|[]].
  apply in_map_iff in G as [[y k] [E G]]. simpl in E. subst y.
  assert (In x (map fname tm)) as I by (apply (Hb x k); simpl; rewrite app_nil_r; exact G).
  apply in_map_iff in I as [en [E I]]. unfold has_fname. apply existsb_exists. exists en.
  split; [exact I | rewrite E; apply String.eqb_refl].
Qed.

Lemma NoDup_map_inj {A B} (f : A -> B) : forall l a b, NoDup (map f l) -> In a l -> In b l -> f a = f b -> a = b.
Proof.
  induction l as [|y l IH]; intros a b N Ia Ib E; [destruct Ia|].
  simpl in N. inversion N as [|? ? Hn N']; subst. destruct Ia as [Ia|Ia], Ib as [Ib|Ib]; subst.
  - reflexivity.
  - exfalso. apply Hn. rewrite E. apply in_map. exact Ib.
  - exfalso. apply Hn. rewrite <- E. apply in_map. exact Ia.
  - exact (IH a b N' Ia Ib E).
Qed.

(* distinct Fortran names get distinct names in the text and distinct sympy objects *)
Theorem type_map_injective_ : forall es tm, build es = Some tm ->
  forall e1 e2, In e1 tm -> In e2 tm -> fname e1 <> fname e2 ->
  uname e1 <> uname e2 /\ (ekind e1, sname e1) <> (ekind e2, sname e2).
Proof.
  intros es tm H e1 e2 I1 I2 D. destruct (build_spec _ _ H) as [N1 _].
  assert (uname e1 <> uname e2) as U.
  { intro E. apply D. rewrite (NoDup_map_inj uname tm e1 e2 N1 I1 I2 E). reflexivity. }
  split; [exact U|]. unfold sname. intro E.
  destruct (ekind e1), (ekind e2); inversion E; congruence.
Qed.

(* ------------------------------------------------ renaming keeps the value *)
Lemma orig_uniq : forall tm a, NoDup (map uname tm) -> has_fname tm a = true -> orig tm (uniq tm a) = a.
Proof.
  intros tm a N H. unfold uniq.
  destruct (find (fun en => String.eqb (fname en) a) tm) as [en|] eqn:F.
  - apply find_some in F as [I E]. apply String.eqb_eq in E. unfold orig.
    destruct (find (fun en0 => String.eqb (uname en0) (uname en)) tm) as [en'|] eqn:F'.
    + apply find_some in F' as [I' E']. apply String.eqb_eq in E'.
      rewrite (NoDup_map_inj uname tm en' en N I' I E'). exact E.
    + exfalso. pose proof (find_none _ _ F' en I) as X. simpl in X. rewrite String.eqb_refl in X. discriminate.
  - exfalso. unfold has_fname in H. apply existsb_exists in H as [en [I E]].
    pose proof (find_none _ _ F en I) as X. simpl in X. congruence.
Qed.

Lemma seval_obj : forall tm V s, NoDup (map uname tm) ->
  (forall x, In x (snames s) -> has_fname tm x = true) ->
  seval (renv tm V) (obj tm s) = seval V s.
Proof.
  intros tm V s N. induction s as [z|y|a IH|o a b IHa IHb|f args IH] using sexpr_ind2; intro B.
  - reflexivity.
  - reflexivity.
  - cbn [obj seval]. rewrite IH; [reflexivity | exact B].
  - cbn [obj seval]. rewrite IHa, IHb; [reflexivity | |]; intros x Hx; apply B; simpl; apply in_app_iff; auto.
  - cbn [obj seval].
    assert (map (seval (renv tm V)) (map (obj tm) args) = map (seval V) args) as M.
    { assert (forall x, In x (flat_map snames args) -> has_fname tm x = true) as B'
        by (intros x Hx; apply B; cbn [snames]; apply in_app_iff; right; exact Hx).
      clear B. induction IH as [|a args Ha _ IHl]; [reflexivity|]. simpl.
      rewrite Ha, IHl; [reflexivity | |]; intros x Hx; apply B'; simpl; apply in_app_iff; auto. }
    rewrite M. destruct (sequence (map (seval V) args)) as [qs|]; [|reflexivity].
    destruct f; try reflexivity. cbn [qscall renv qfun].
    rewrite orig_uniq; [reflexivity | exact N | apply B; simpl; left; reflexivity].
Qed.

(* tr_exact composed with the renaming *)
Theorem renaming_preserves_value_ : forall fixed e tm, in_frag fixed e = true -> build [e] = Some tm ->
  forall E, oeq (seval (renv tm (qenv_of E)) (obj tm (tr fixed e))) (option_map inject_Z (feval E e)).
Proof.
  intros fixed e tm F H E. destruct (build_spec _ _ H) as [N _].
  rewrite (seval_obj tm (qenv_of E) (tr fixed e) N (type_map_total_ fixed e tm H)).
  exact (proj2 (tr_exact_ fixed e F E)).
Qed.

(* ------------------------------------------------ non-vacuity *)
Open Scope string_scope.
Open Scope Z_scope.
(* lambda + MAX(pi - 3, 1) * re(lambda) *)
Definition tm_ex : expr :=
  EBin Add (EVar "lambda")
       (EBin Mul (ECall FMax [EBin Sub (EVar "pi") (ELit 3); ELit 1]) (ECall (FArr "re") [EVar "lambda"])).
Definition tm_ex_map : tmap :=
  [mk_entry "lambda" KSym "lambda_1"; mk_entry "pi" KSym "pi"; mk_entry "re" KFun "re"].
Example type_map_nonvacuous :
  build [tm_ex] = Some tm_ex_map /\ in_frag false tm_ex = true /\
  build [ECall (FArr "while") [EVar "lambda_1"; EVar "lambda"]]
  = Some [mk_entry "while" KFun "while_1"; mk_entry "lambda_1" KSym "lambda_1"; mk_entry "lambda" KSym "lambda_2"] /\
  feval (mk_env 0 [("pi", 5); ("lambda", 2)]) tm_ex = Some (2 + 2 * std_arr 0 "re" [2]) /\
  oeqb (seval (renv tm_ex_map (qenv_of (mk_env 0 [("pi", 5); ("lambda", 2)]))) (obj tm_ex_map (tr false tm_ex)))
       (Some (inject_Z (2 + 2 * std_arr 0 "re" [2]))) = true.
Proof. vm_compute. repeat split; reflexivity. Qed.
