(* C17 — instances for the writer of the tree under test (C17/Gen.v is regenerated on every run) *)
From Coq Require Import List ZArith QArith String.
Import ListNotations.
From PV Require Import C17.Model C17.Proofs C17.Refute C17.Gen.

Lemma tr_exact_current_tree_ : forall e, in_frag pow_left_bracketed e = true ->
  forall E, oeq (seval (qenv_of E) (tr pow_left_bracketed e)) (option_map inject_Z (feval E e)).
Proof. intros e F E. exact (proj2 (tr_exact_ pow_left_bracketed e F E)). Qed.

Lemma solve_nonvacuous_ : forall fixed,
  solveset_sound (pt_solve (sdiff fixed ex_sq (ELit 4)) "i" [SInt 2; SInt (-2)]) /\
  in_frag fixed ex_sq = true /\
  solve_m (pt_solve (sdiff fixed ex_sq (ELit 4)) "i" [SInt 2; SInt (-2)]) fixed ex_sq (ELit 4) "i"
  = Some [SInt 2; SInt (-2)].
Proof. intro fixed. split; [apply ex_solve_valid | apply solve_nonvacuous]. Qed.
