(* C17 — one case type for all correspondence checks, so that a single batch of shards is compiled *)
From Coq Require Import List ZArith QArith String.
From PV Require Import C17.Model.

Inductive ccase :=
| K1 (c : expr * sexpr)                                                      (* SymPyWriter text vs tr *)
| K2 (c : expr * (Z * list (string * Q)) * option Q)                          (* sympy value vs seval (tr e) *)
| K3 (c : expr * (Z * list (string * Z)) * (option Z * (bool * list Z)))      (* harness evaluator vs feval *)
| K4 (c : expr * expr * (bool * bool)).                                       (* verdicts vs normaliser *)

Definition chk_case (fixed : bool) (c : ccase) : bool :=
  match c with
  | K1 c => chk_tr fixed c
  | K2 c => chk_seval fixed c
  | K3 c => chk_feval fixed c
  | K4 c => chk_poly fixed c
  end.
