(* C17 — the full property is FALSE of the faithful model: concrete witnesses (replayed on the real
   implementation by props/C17/check.py), and non-vacuity examples for the partial theorems.

   Full statement (what properties.jsonl asks for, for `equal`):
     forall orc, simplify_sound orc -> forall a b, equal_m orc fixed a b = true ->
       forall E za zb, feval E a = Some za -> feval E b = Some zb -> za = zb.
   Each [*_refuted] theorem below exhibits a SOUND oracle (its answer on the witness is a theorem of
   rational arithmetic, and it is the answer the real sympy gives) for which the conclusion fails. *)
From Coq Require Import List ZArith QArith Qround Qfield Bool String Ascii Lia.
Import ListNotations.
From PV Require Import C17.Model C17.Proofs.
Open Scope Z_scope.
Open Scope string_scope.

(* ---------------------------------------------------------- point oracles *)
Lemma binop_eqb_eq : forall a b, binop_eqb a b = true -> a = b.
Proof. intros [] []; simpl; congruence. Qed.
Lemma sfn_eqb_eq : forall a b, sfn_eqb a b = true -> a = b.
Proof.
  intros [] []; simpl; try congruence. intro H. apply String.eqb_eq in H. congruence.
Qed.
Lemma sexpr_eqb_eq : forall a b, sexpr_eqb a b = true -> a = b.
Proof.
  induction a as [k|x|a IH|o a1 a2 IH1 IH2|f args IH] using sexpr_ind2; intros [k'|x'|b|o' b1 b2|g args'] H;
    cbn [sexpr_eqb] in H; try discriminate.
  - apply Z.eqb_eq in H. congruence.
  - apply String.eqb_eq in H. congruence.
  - rewrite (IH b H). reflexivity.
  - apply andb_true_iff in H as [H H2]. apply andb_true_iff in H as [Ho H1].
    rewrite (binop_eqb_eq _ _ Ho), (IH1 _ H1), (IH2 _ H2). reflexivity.
  - apply andb_true_iff in H as [Hf Hl]. rewrite (sfn_eqb_eq _ _ Hf). f_equal.
    clear Hf. revert args' Hl. induction IH as [|a args Ha _ IHl]; intros [|b args'] Hl; try discriminate.
    + reflexivity.
    + apply andb_true_iff in Hl as [H1 H2]. rewrite (Ha _ H1), (IHl _ H2). reflexivity.
Qed.

Definition valid_const (w : sexpr) (k : Z) : Prop :=
  forall V q, seval V w = Some q -> (q == inject_Z k)%Q.
(* the oracle that only knows one (true) fact *)
Definition pt_oracle (w : sexpr) (k : Z) (s : sexpr) : option Z :=
  if sexpr_eqb s w then Some k else None.
Lemma pt_oracle_sound : forall w k, valid_const w k -> simplify_sound (pt_oracle w k).
Proof.
  intros w k Hv s k' H E q Hs. unfold pt_oracle in H.
  destruct (sexpr_eqb s w) eqn:Es; [|discriminate]. inversion H; subst k'.
  apply sexpr_eqb_eq in Es; subst s. exact (Hv _ _ Hs).
Qed.
Lemma sexpr_eqb_refl : forall a, sexpr_eqb a a = true.
Proof.
  induction a as [k|x|a IH|o a1 a2 IH1 IH2|f args IH] using sexpr_ind2; cbn [sexpr_eqb].
  - apply Z.eqb_refl.
  - apply String.eqb_refl.
  - exact IH.
  - rewrite IH1, IH2. destruct o; reflexivity.
  - apply andb_true_iff. split; [destruct f; simpl; auto using String.eqb_refl|].
    induction IH as [|a args Ha _ IHl]; [reflexivity | rewrite Ha, IHl; reflexivity].
Qed.
Lemma pt_oracle_hit : forall w k, pt_oracle w k w = Some k.
Proof. intros; unfold pt_oracle; rewrite sexpr_eqb_refl; reflexivity. Qed.

Definition env1 (x : string) (z : Z) : fenv := mk_env 0 [(x, z)].
Definition vn := EVar "n".

(* ------------------------------------------------ witness 1: integer "/" *)
(* n/2*2 against n.  Over Q the difference is 0 (sympy is right); Fortran: 1/2*2 = 0 <> 1. *)
Definition w_div_a := EBin Mul (EBin Div vn (ELit 2)) (ELit 2).
Definition w_div_b := vn.

Lemma w_div_valid : forall fixed, valid_const (sdiff fixed w_div_a w_div_b) 0.
Proof.
  intros fixed V q H.
  assert (seval V (sdiff fixed w_div_a w_div_b) = Some ((qvar V "n" / inject_Z 2) * inject_Z 2 - qvar V "n")%Q) as X
    by (destruct fixed; reflexivity).
  rewrite X in H. inversion H; subst q. change (inject_Z 0) with 0%Q. change (inject_Z 2) with 2%Q. field.
Qed.

Theorem equal_refuted_div_ : forall fixed,
  exists orc, simplify_sound orc /\
  exists a b E za zb, equal_m orc fixed a b = true /\
                      feval E a = Some za /\ feval E b = Some zb /\ za <> zb.
Proof.
  intro fixed. exists (pt_oracle (sdiff fixed w_div_a w_div_b) 0). split.
  - apply pt_oracle_sound, w_div_valid.
  - exists w_div_a, w_div_b, (env1 "n" 1), 0, 1.
    split; [unfold equal_m; rewrite pt_oracle_hit; reflexivity|].
    split; [reflexivity|]. split; [reflexivity | discriminate].
Qed.

(* n/2*2 + 1 against n: sympy's difference is the Integer 1, so never_equal; but at n = 1 both are 1 *)
Definition w_ndiv_a := EBin Add w_div_a (ELit 1).
Lemma w_ndiv_valid : forall fixed, valid_const (sdiff fixed w_ndiv_a w_div_b) 1.
Proof.
  intros fixed V q H.
  assert (seval V (sdiff fixed w_ndiv_a w_div_b)
          = Some ((qvar V "n" / inject_Z 2) * inject_Z 2 + inject_Z 1 - qvar V "n")%Q) as X
    by (destruct fixed; reflexivity).
  rewrite X in H. inversion H; subst q. change (inject_Z 1) with 1%Q. change (inject_Z 2) with 2%Q. field.
Qed.
Theorem never_equal_refuted_div_ : forall fixed,
  exists orc, simplify_sound orc /\
  exists a b E z, never_equal_m orc fixed a b = true /\ feval E a = Some z /\ feval E b = Some z.
Proof.
  intro fixed. exists (pt_oracle (sdiff fixed w_ndiv_a w_div_b) 1). split.
  - apply pt_oracle_sound, w_ndiv_valid.
  - exists w_ndiv_a, w_div_b, (env1 "n" 1), 1.
    split; [unfold never_equal_m; rewrite pt_oracle_hit; reflexivity|].
    split; reflexivity.
Qed.

(* ------------------------------------------------------- witness 2: MOD *)
(* MOD(-7,2): sympy's Mod(-7,2) = 1 (sign of the divisor), Fortran gives -1 (sign of the dividend) *)
Definition w_mod_a := ECall FMod [ENeg (ELit 7); ELit 2].
Definition w_mod_b := ELit 1.
Lemma w_mod_valid : forall fixed, valid_const (sdiff fixed w_mod_a w_mod_b) 0.
Proof.
  intros fixed V q H.
  destruct fixed; vm_compute in H; inversion H; reflexivity.
Qed.
Theorem equal_refuted_mod_ : forall fixed,
  exists orc, simplify_sound orc /\
  exists a b E za zb, equal_m orc fixed a b = true /\
                      feval E a = Some za /\ feval E b = Some zb /\ za <> zb.
Proof.
  intro fixed. exists (pt_oracle (sdiff fixed w_mod_a w_mod_b) 0). split.
  - apply pt_oracle_sound, w_mod_valid.
  - exists w_mod_a, w_mod_b, (env1 "n" 0), (-1), 1.
    split; [unfold equal_m; rewrite pt_oracle_hit; reflexivity|].
    split; [reflexivity|]. split; [reflexivity | discriminate].
Qed.

(* ---------------------------------- witness 3: left-nested "**" (unchanged tree) *)
(* (n**2)**3 is written "n ** 2 ** 3" = n**(2**3): equal to n**(2**3) for sympy, 64 <> 256 at n = 2 *)
Definition w_pow_a := EBin Pow (EBin Pow vn (ELit 2)) (ELit 3).
Definition w_pow_b := EBin Pow vn (EBin Pow (ELit 2) (ELit 3)).
Lemma w_pow_same : tr false w_pow_a = tr false w_pow_b.
Proof. reflexivity. Qed.
Lemma w_pow_valid : valid_const (sdiff false w_pow_a w_pow_b) 0.
Proof.
  intros V q H. unfold sdiff in H. rewrite w_pow_same in H. cbn [seval] in H.
  destruct (seval V (tr false w_pow_b)) as [x|]; [|discriminate].
  cbn [qsbin] in H. inversion H; subst q. change (inject_Z 0) with 0%Q. ring.
Qed.
Theorem equal_refuted_pow_assoc_ :
  exists orc, simplify_sound orc /\
  exists a b E za zb, in_frag true a = true /\ equal_m orc false a b = true /\
                      feval E a = Some za /\ feval E b = Some zb /\ za <> zb.
Proof.
  exists (pt_oracle (sdiff false w_pow_a w_pow_b) 0). split.
  - apply pt_oracle_sound, w_pow_valid.
  - exists w_pow_a, w_pow_b, (env1 "n" 2), 64, 256.
    split; [reflexivity|].
    split; [unfold equal_m; rewrite pt_oracle_hit; reflexivity|].
    split; [reflexivity|]. split; [reflexivity | discriminate].
Qed.
(* ... and a writer that brackets the left operand does not have this defect: tr_exact covers it *)
Example pow_assoc_fixed_in_fragment : in_frag true w_pow_a = true /\ in_frag false w_pow_a = false.
Proof. split; reflexivity. Qed.

(* ------------------------------------ witness 4: a reported solution that is none *)
Definition vi := EVar "i".
Definition w_sol_a := EBin Mul (EBin Div vi (ELit 2)) (ELit 2).
Definition w_sol_b := ELit 3.
Definition pt_solve (w : sexpr) (x : string) (sols : list sexpr) (s : sexpr) (y : string) :=
  if sexpr_eqb s w && String.eqb y x then Some sols else None.
Lemma w_sol_valid : forall fixed, solveset_sound (pt_solve (sdiff fixed w_sol_a w_sol_b) "i" [SInt 3]).
Proof.
  intros fixed s x sols H sol Hin E z Hv q Hq. unfold pt_solve in H.
  destruct (sexpr_eqb s (sdiff fixed w_sol_a w_sol_b)) eqn:Es; [|discriminate].
  destruct (String.eqb x "i") eqn:Ex; [|discriminate]. cbn [andb] in H. inversion H; subst sols.
  apply sexpr_eqb_eq in Es. apply String.eqb_eq in Ex. subst s x.
  destruct Hin as [<-|[]]. cbn [seval oeq] in Hv. apply (proj1 (inject_Z_injective _ _)) in Hv. subst z.
  destruct fixed; vm_compute in Hq; inversion Hq; reflexivity.
Qed.
Theorem solutions_refuted_div_ : forall fixed,
  exists osolve, solveset_sound osolve /\
  exists a b x sols sol z E za zb,
    solve_m osolve fixed a b x = Some sols /\ In sol sols /\
    oeq (seval (qenv_of E) sol) (Some (inject_Z z)) /\
    feval (upd E x z) a = Some za /\ feval (upd E x z) b = Some zb /\ za <> zb.
Proof.
  intro fixed. exists (pt_solve (sdiff fixed w_sol_a w_sol_b) "i" [SInt 3]). split.
  - apply w_sol_valid.
  - exists w_sol_a, w_sol_b, "i", [SInt 3], (SInt 3), 3, (env1 "i" 0), 2, 3.
    split; [unfold solve_m, pt_solve; rewrite sexpr_eqb_refl; reflexivity|].
    split; [left; reflexivity|].
    split; [simpl; reflexivity|].
    split; [reflexivity|]. split; [reflexivity | discriminate].
Qed.

(* -------------------------------------------- witness 5: expansion changes the value *)
(* MOD(-7,2)*(n+1) expands to n+1 (sympy evaluates Mod(-7,2) to 1); Fortran: -(n+1) *)
Definition w_exp := EBin Mul w_mod_a (EBin Add vn (ELit 1)).
Definition w_exp' := EBin Add vn (ELit 1).
Definition pt_expand (w w' : sexpr) (s : sexpr) : sexpr := if sexpr_eqb s w then w' else s.
Lemma w_exp_valid : forall fixed, expand_sound (pt_expand (tr fixed w_exp) (tr fixed w_exp')).
Proof.
  intros fixed s E q Hs. unfold pt_expand. destruct (sexpr_eqb s (tr fixed w_exp)) eqn:Es.
  - apply sexpr_eqb_eq in Es; subst s.
    assert (seval (liftQ E) (tr fixed w_exp) = Some (inject_Z 1 * (qvar (liftQ E) "n" + inject_Z 1))%Q) as X.
    { destruct fixed; unfold tr, w_exp, w_mod_a; cbn [trx wrap map trf trargs seval sequence option_map qscall].
      all: change (qmod (- inject_Z 7) (inject_Z 2)) with (Some (inject_Z 1)); reflexivity. }
    rewrite X in Hs. inversion Hs; subst q.
    assert (seval (liftQ E) (tr fixed w_exp') = Some (qvar (liftQ E) "n" + inject_Z 1)%Q) as Y
      by (destruct fixed; reflexivity).
    rewrite Y. simpl. change (inject_Z 1) with 1%Q. ring.
  - rewrite Hs. apply oeq_refl.
Qed.
Definition pt_reader (w' : sexpr) (e' : expr) (s : sexpr) : option expr :=
  if sexpr_eqb s w' then Some e' else None.
Lemma w_exp_reader : forall fixed, reader_faithful fixed (pt_reader (tr fixed w_exp') w_exp').
Proof.
  intros fixed s e' H E. unfold pt_reader in H.
  destruct (sexpr_eqb s (tr fixed w_exp')) eqn:Es; [|discriminate]. inversion H; subst e'.
  apply sexpr_eqb_eq in Es; subst s. apply oeq_refl.
Qed.
Theorem expand_refuted_mod_ : forall fixed,
  exists oexpand reader, expand_sound oexpand /\ reader_faithful fixed reader /\
  exists e e' E z z', expand_m oexpand reader fixed e = Some e' /\
                      feval E e = Some z /\ feval E e' = Some z' /\ z <> z'.
Proof.
  intro fixed.
  exists (pt_expand (tr fixed w_exp) (tr fixed w_exp')), (pt_reader (tr fixed w_exp') w_exp').
  split; [apply w_exp_valid|]. split; [apply w_exp_reader|].
  exists w_exp, w_exp', (env1 "n" 0), (-1), 1.
  split; [unfold expand_m, pt_expand, pt_reader; rewrite !sexpr_eqb_refl; reflexivity|].
  split; [reflexivity|]. split; [reflexivity | discriminate].
Qed.

(* =========================================================== non-vacuity *)
Definition vm := EVar "m".
Definition ex_a := EBin Mul (EBin Add vn vm) (EBin Sub vn vm).              (* (n+m)*(n-m) *)
Definition ex_b := EBin Sub (EBin Pow vn (ELit 2)) (EBin Mul vm vm).        (* n**2 - m*m *)
(* MAX(a(i+1), -n) - MIN(b(i, 2*j), m)**2 : every construct of the fragment *)
Definition ex_frag :=
  EBin Sub (ECall FMax [ECall (FArr "a") [EBin Add vi (ELit 1)]; ENeg vn])
           (EBin Pow (ECall FMin [ECall (FArr "b") [vi; EBin Mul (ELit 2) (EVar "j")]; vm]) (ELit 2)).

Example frag_nonvacuous :
  in_frag false ex_frag = true /\
  feval (mk_env 1 [("i", 2); ("j", -1); ("n", -4); ("m", 3)]) ex_frag = Some 3 /\
  oeqb (seval (qenv_of (mk_env 1 [("i", 2); ("j", -1); ("n", -4); ("m", 3)])) (tr false ex_frag))
       (Some (inject_Z 3)) = true.
Proof. vm_compute. repeat split; reflexivity. Qed.

Example equal_nonvacuous :
  in_frag false ex_a = true /\ in_frag false ex_b = true /\
  equal_m poly_const false ex_a ex_b = true /\
  never_equal_m poly_const false (EBin Add ex_a (ELit 1)) ex_b = true /\
  never_equal_m poly_const false ex_a vn = false.
Proof. vm_compute. repeat split; reflexivity. Qed.

Example expand_nonvacuous :
  expand_m poly_expand untr false ex_a
  = Some (EBin Add (EBin Mul (ENeg (ELit 1)) (EBin Mul vm vm)) (EBin Mul (ELit 1) (EBin Mul vn vn))).
Proof. vm_compute. reflexivity. Qed.

(* a sound solve oracle with a non-trivial answer inside the fragment: i*i = 4 has solutions 2, -2 *)
Definition ex_sq := EBin Mul vi vi.
Lemma ex_solve_valid : forall fixed, solveset_sound (pt_solve (sdiff fixed ex_sq (ELit 4)) "i" [SInt 2; SInt (-2)]).
Proof.
  intros fixed s x sols H sol Hin E z Hv q Hq. unfold pt_solve in H.
  destruct (sexpr_eqb s (sdiff fixed ex_sq (ELit 4))) eqn:Es; [|discriminate].
  destruct (String.eqb x "i") eqn:Ex; [|discriminate]. cbn [andb] in H. inversion H; subst sols.
  apply sexpr_eqb_eq in Es. apply String.eqb_eq in Ex. subst s x.
  destruct Hin as [<-|[<-|[]]]; cbn [seval oeq] in Hv; apply (proj1 (inject_Z_injective _ _)) in Hv; subst z.
  - destruct fixed; vm_compute in Hq; inversion Hq; reflexivity.
  - destruct fixed; vm_compute in Hq; inversion Hq; reflexivity.
Qed.
Example solve_nonvacuous : forall fixed,
  in_frag fixed ex_sq = true /\
  solve_m (pt_solve (sdiff fixed ex_sq (ELit 4)) "i" [SInt 2; SInt (-2)]) fixed ex_sq (ELit 4) "i"
  = Some [SInt 2; SInt (-2)].
Proof.
  intro fixed. split; [destruct fixed; reflexivity|].
  unfold solve_m, pt_solve. rewrite sexpr_eqb_refl. reflexivity.
Qed.
