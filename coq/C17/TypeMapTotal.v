(* C17 — the unique-name search always succeeds (pigeonhole), so the type map is total: the three
   type-map theorems without the hypothesis "build succeeds", for expressions with < 968 name occurrences
   (fuel 1000 of the model minus the 32 reserved Python keywords). *)
From Coq Require Import List ZArith NArith QArith Bool String Ascii Lia FinFun.
Import ListNotations.
From PV Require Import C17.Model C17.Proofs C17.TypeMap C17.TypeMapProofs.
Local Open Scope nat_scope.
Local Open Scope list_scope.

Fixpoint nrange (fuel : nat) (k : N) : list N :=
  match fuel with O => [] | S f => k :: nrange f (N.succ k) end.

Lemma fresh_none_incl : forall fuel used x k, fresh_from fuel used x k = None ->
  incl (map (cand x) (nrange fuel k)) used.
Proof.
  induction fuel as [|f IH]; intros used x k H; simpl; [intros ? []|].
  simpl in H. destruct (mem (cand x k) used) eqn:E; [|discriminate].
  intros y [Hy|Hy]; [subst; apply mem_true_in; exact E | exact (IH _ _ _ H y Hy)].
Qed.

(* boolean duplicate check, reflected *)
Fixpoint nodupb (l : list string) : bool :=
  match l with [] => true | a :: r => negb (mem a r) && nodupb r end.
Lemma nodupb_sound : forall l, nodupb l = true -> NoDup l.
Proof.
  induction l as [|a r IH]; intro H; [constructor|]. simpl in H. apply andb_true_iff in H as [H1 H2].
  constructor; [apply mem_false_notin; apply negb_true_iff; exact H1 | exact (IH H2)].
Qed.
(* the 1000 decimal suffixes "1" .. "1000" are pairwise distinct (computed) *)
Lemma dec_suffixes_distinct : NoDup (map dec (nrange 1000 1%N)).
Proof. apply nodupb_sound. vm_compute. reflexivity. Qed.

Lemma append_cancel_l : forall p s t, (p ++ s)%string = (p ++ t)%string -> s = t.
Proof. induction p as [|c p IH]; intros s t H; simpl in H; [exact H | inversion H; auto]. Qed.

Lemma cands_distinct : forall x, NoDup (map (cand x) (nrange 1000 1%N)).
Proof.
  intro x. replace (map (cand x) (nrange 1000 1%N))
    with (map (fun s => (x ++ "_" ++ s)%string) (map dec (nrange 1000 1%N))) by (rewrite map_map; reflexivity).
  apply Injective_map_NoDup; [|exact dec_suffixes_distinct].
  intros s t H. apply append_cancel_l in H. simpl in H. inversion H. reflexivity.
Qed.

(* pigeonhole: with fewer than 1000 names in use one of base_1 .. base_1000 is free, and the search finds it *)
Theorem unique_name_terminates_ : forall used base, List.length used < 1000 ->
  exists u, new_name used base = Some u /\ ~ In u used.
Proof.
  intros used base L. destruct (new_name used base) as [u|] eqn:E.
  - exists u. split; [reflexivity | exact (new_name_fresh _ _ _ E)].
  - exfalso. unfold new_name in E. destruct (mem base used); [|discriminate].
    pose proof (fresh_none_incl _ _ _ _ E) as I.
    pose proof (NoDup_incl_length (cands_distinct base) I) as Len.
    rewrite map_length in Len. assert (List.length (nrange 1000 1%N) = 1000) as R by reflexivity. lia.
Qed.

Lemma build_from_succeeds : forall l used tm, List.length used + List.length l < 1000 ->
  exists tm', build_from used tm l = Some tm'.
Proof.
  induction l as [|[x k] r IH]; intros used tm L; simpl; [eexists; reflexivity|].
  simpl in L. destruct (has_fname tm x); [apply IH; lia|].
  destruct (unique_name_terminates_ used x) as [u [E _]]; [lia|]. rewrite E. apply IH. simpl. lia.
Qed.

Theorem build_total_ : forall es, List.length (flat_map occs es) < 968 -> exists tm, build es = Some tm.
Proof.
  intros es L. unfold build. apply build_from_succeeds.
  assert (List.length reserved = 32) as R by reflexivity. lia.
Qed.

Lemma occs1 : forall e, flat_map occs [e] = occs e.
Proof. intro e. simpl. apply app_nil_r. Qed.

Theorem type_map_total_u : forall fixed e, List.length (occs e) < 968 ->
  exists tm, build [e] = Some tm /\ forall x, In x (snames (tr fixed e)) -> has_fname tm x = true.
Proof.
  intros fixed e L. destruct (build_total_ [e]) as [tm H]; [rewrite occs1; exact L|].
  exists tm. split; [exact H | exact (type_map_total_ fixed e tm H)].
Qed.

Theorem type_map_injective_u : forall es, List.length (flat_map occs es) < 968 ->
  exists tm, build es = Some tm /\
  forall e1 e2, In e1 tm -> In e2 tm -> fname e1 <> fname e2 ->
  uname e1 <> uname e2 /\ (ekind e1, sname e1) <> (ekind e2, sname e2).
Proof.
  intros es L. destruct (build_total_ es L) as [tm H]. exists tm. split; [exact H | exact (type_map_injective_ es tm H)].
Qed.

Theorem renaming_preserves_value_u : forall fixed e, in_frag fixed e = true -> List.length (occs e) < 968 ->
  exists tm, build [e] = Some tm /\
  forall E, oeq (seval (renv tm (qenv_of E)) (obj tm (tr fixed e))) (option_map inject_Z (feval E e)).
Proof.
  intros fixed e F L. destruct (build_total_ [e]) as [tm H]; [rewrite occs1; exact L|].
  exists tm. split; [exact H | exact (renaming_preserves_value_ fixed e tm F H)].
Qed.
