(* C17 — proofs about the safe fragment: the translation is exact there, hence every verdict of a
   SOUND sympy (Section hypotheses) is a fact of Fortran integer arithmetic. *)
From Coq Require Import List ZArith QArith Qround Qpower Bool String Ascii Lia Setoid.
Import ListNotations.
From PV Require Import C17.Model.
Open Scope Z_scope.

(* ------------------------------------------------------ induction principles *)
Section ExprInd.
  Variable P : expr -> Prop.
  Hypothesis HLit : forall z, P (ELit z).
  Hypothesis HVar : forall x, P (EVar x).
  Hypothesis HNeg : forall a, P a -> P (ENeg a).
  Hypothesis HBin : forall o a b, P a -> P b -> P (EBin o a b).
  Hypothesis HCall : forall f args, Forall P args -> P (ECall f args).
  Fixpoint expr_ind2 (e : expr) : P e :=
    match e with
    | ELit z => HLit z
    | EVar x => HVar x
    | ENeg a => HNeg a (expr_ind2 a)
    | EBin o a b => HBin o a b (expr_ind2 a) (expr_ind2 b)
    | ECall f args =>
        HCall f args ((fix go (l : list expr) : Forall P l :=
                         match l with
                         | [] => Forall_nil P
                         | x :: r => Forall_cons x (expr_ind2 x) (go r)
                         end) args)
    end.
End ExprInd.

Section SexprInd.
  Variable P : sexpr -> Prop.
  Hypothesis HInt : forall z, P (SInt z).
  Hypothesis HVar : forall x, P (SVar x).
  Hypothesis HNeg : forall a, P a -> P (SNeg a).
  Hypothesis HBin : forall o a b, P a -> P b -> P (SBin o a b).
  Hypothesis HCall : forall f args, Forall P args -> P (SCall f args).
  Fixpoint sexpr_ind2 (e : sexpr) : P e :=
    match e with
    | SInt z => HInt z
    | SVar x => HVar x
    | SNeg a => HNeg a (sexpr_ind2 a)
    | SBin o a b => HBin o a b (sexpr_ind2 a) (sexpr_ind2 b)
    | SCall f args =>
        HCall f args ((fix go (l : list sexpr) : Forall P l :=
                         match l with
                         | [] => Forall_nil P
                         | x :: r => Forall_cons x (sexpr_ind2 x) (go r)
                         end) args)
    end.
End SexprInd.

(* ------------------------------------------------------------ small facts *)
Lemma oeq_refl : forall a, oeq a a.
Proof. intros [q|]; simpl; [reflexivity | exact I]. Qed.
Lemma oeq_sym : forall a b, oeq a b -> oeq b a.
Proof. intros [x|] [y|]; simpl; intro H; try exact H; symmetry; exact H. Qed.
Lemma oeq_trans : forall a b c, oeq a b -> oeq b c -> oeq a c.
Proof.
  intros [x|] [y|] [z|]; simpl; intros H1 H2; try contradiction; try exact I.
  rewrite H1; exact H2.
Qed.

Lemma sequence_map_some {A B} (f : A -> option B) (g : A -> B) (l : list A) :
  Forall (fun a => f a = Some (g a)) l -> sequence (map f l) = Some (map g l).
Proof.
  induction 1 as [|a l Ha _ IH]; simpl; [reflexivity|]. rewrite Ha, IH. reflexivity.
Qed.

Lemma sequence_some_inv {A B} (f : A -> option B) (l : list A) (r : list B) :
  sequence (map f l) = Some r -> Forall2 (fun a b => f a = Some b) l r.
Proof.
  revert r; induction l as [|a l IH]; simpl; intros r H.
  - inversion H; constructor.
  - destruct (f a) as [b|] eqn:Ea; [|discriminate].
    destruct (sequence (map f l)) as [r'|] eqn:Er; [|discriminate].
    inversion H; subst. constructor; [exact Ea | apply IH; reflexivity].
Qed.

Lemma destride_triple : forall zs, destride (flat_map (fun z => [z; z; 1]) zs) = zs.
Proof. induction zs as [|z zs IH]; simpl; [reflexivity | rewrite IH; reflexivity]. Qed.

(* -------------------------------------------- from the integer part to Q *)
Lemma qpower_inject : forall q x k, (q == inject_Z x)%Q -> 0 <= k ->
  (Qpower q k == inject_Z (x ^ k))%Q.
Proof.
  intros q x k Hq Hk. destruct k as [|p|p]; [reflexivity | | lia].
  cbn [Qpower]. induction p as [|p IH] using Pos.peano_ind.
  - change (Qpower_positive q 1) with q. rewrite Z.pow_1_r. exact Hq.
  - rewrite Pos2Z.inj_succ, Z.pow_succ_r by lia.
    replace (Pos.succ p) with (1 + p)%positive by lia.
    rewrite Qpower_plus_positive, inject_Z_mult, IH by lia. change (Qpower_positive q 1) with q. rewrite Hq. reflexivity.
Qed.

Lemma qmin_inject : forall q1 q2 x y, (q1 == inject_Z x)%Q -> (q2 == inject_Z y)%Q ->
  (qmin q1 q2 == inject_Z (Z.min x y))%Q.
Proof.
  intros q1 q2 x y H1 H2. unfold qmin.
  destruct (Qle_bool q1 q2) eqn:E.
  - apply Qle_bool_iff in E. rewrite H1, H2 in E. rewrite <- Zle_Qle in E.
    rewrite Z.min_l by exact E. exact H1.
  - assert (~ (q1 <= q2)%Q) as N by (intro L; apply Qle_bool_iff in L; congruence).
    rewrite H1, H2 in N. rewrite <- Zle_Qle in N.
    rewrite Z.min_r by lia. exact H2.
Qed.
Lemma qmax_inject : forall q1 q2 x y, (q1 == inject_Z x)%Q -> (q2 == inject_Z y)%Q ->
  (qmax q1 q2 == inject_Z (Z.max x y))%Q.
Proof.
  intros q1 q2 x y H1 H2. unfold qmax.
  destruct (Qle_bool q1 q2) eqn:E.
  - apply Qle_bool_iff in E. rewrite H1, H2 in E. rewrite <- Zle_Qle in E.
    rewrite Z.max_r by exact E. exact H2.
  - assert (~ (q1 <= q2)%Q) as N by (intro L; apply Qle_bool_iff in L; congruence).
    rewrite H1, H2 in N. rewrite <- Zle_Qle in N.
    rewrite Z.max_l by lia. exact H1.
Qed.

Definition qz (q : Q) (z : Z) : Prop := (q == inject_Z z)%Q.

Lemma fold_inject (fq : Q -> Q -> Q) (fz : Z -> Z -> Z) :
  (forall q1 q2 x y, qz q1 x -> qz q2 y -> qz (fq q1 q2) (fz x y)) ->
  forall qs zs, Forall2 qz qs zs -> forall q z, qz q z -> qz (fold_left fq qs q) (fold_left fz zs z).
Proof.
  intros Hf qs zs H. induction H as [|q' z' qs zs Hh _ IH]; simpl; intros q z Hq; [exact Hq|].
  apply IH. apply Hf; assumption.
Qed.

Lemma floor_of_qz : forall qs zs, Forall2 qz qs zs -> map Qfloor qs = zs.
Proof.
  induction 1 as [|q z qs zs Hq _ IH]; simpl; [reflexivity|].
  rewrite IH. unfold qz in Hq. rewrite (Qfloor_comp _ _ Hq), Qfloor_Z. reflexivity.
Qed.

Lemma q_is_int_inject : forall q z, qz q z -> q_is_int q = true /\ Qfloor q = z.
Proof.
  intros q z H. unfold qz in H. assert (Qfloor q = z) as F by (rewrite (Qfloor_comp _ _ H); apply Qfloor_Z).
  split; [|exact F]. unfold q_is_int. rewrite F. apply Qeq_bool_iff. symmetry; exact H.
Qed.

(* the integer part of the sympy semantics is the sympy semantics *)
Lemma zseval_seval : forall E s z, zseval E s = Some z ->
  exists q, seval (liftQ E) s = Some q /\ qz q z.
Proof.
  intros E s. induction s as [k|x|a IH|o a b IHa IHb|f args IH] using sexpr_ind2; intros z H.
  - inversion H; subst. exists (inject_Z z). split; [reflexivity | unfold qz; reflexivity].
  - inversion H; subst. exists (inject_Z (fvar E x)). split; [reflexivity | unfold qz; reflexivity].
  - cbn [zseval] in H. destruct (zseval E a) as [za|] eqn:Ea; [|discriminate].
    inversion H; subst. destruct (IH za eq_refl) as [q [Hs Hq]].
    exists (- q)%Q. split; [cbn [seval]; rewrite Hs; reflexivity|].
    unfold qz in *. rewrite inject_Z_opp, Hq. reflexivity.
  - cbn [zseval] in H. destruct (zseval E a) as [za|] eqn:Ea; [|discriminate].
    destruct (zseval E b) as [zb|] eqn:Eb; [|discriminate].
    destruct (IHa za eq_refl) as [qa [Hsa Hqa]]. destruct (IHb zb eq_refl) as [qb [Hsb Hqb]].
    cbn [seval]. rewrite Hsa, Hsb. unfold qz in *.
    destruct o; cbn [zsbin] in H; cbn [qsbin].
    + inversion H; subst. eexists; split; [reflexivity|]. rewrite inject_Z_plus, Hqa, Hqb. reflexivity.
    + inversion H; subst. eexists; split; [reflexivity|].
      unfold Z.sub. rewrite inject_Z_plus, inject_Z_opp, Hqa, Hqb. reflexivity.
    + inversion H; subst. eexists; split; [reflexivity|]. rewrite inject_Z_mult, Hqa, Hqb. reflexivity.
    + discriminate.
    + destruct (0 <=? zb) eqn:Ez; [|discriminate]. inversion H; subst.
      destruct (q_is_int_inject qb zb Hqb) as [Hi Hf]. unfold qpow. rewrite Hi, Hf.
      apply Z.leb_le in Ez. replace (zb <? 0) with false by (symmetry; apply Z.ltb_ge; exact Ez). cbn [andb].
      eexists; split; [reflexivity|]. apply qpower_inject; assumption.
  - cbn [zseval] in H. destruct (sequence (map (zseval E) args)) as [zs|] eqn:Es; [|discriminate].
    assert (exists qs, sequence (map (seval (liftQ E)) args) = Some qs /\ Forall2 qz qs zs) as [qs [Hqs HF]].
    { clear H. revert zs Es. induction IH as [|a args Ha _ IHl]; intros zs Es.
      - simpl in Es. inversion Es; subst. exists []. split; [reflexivity | constructor].
      - simpl in Es. destruct (zseval E a) as [za|] eqn:Ea; [|discriminate].
        destruct (sequence (map (zseval E) args)) as [zs'|] eqn:Es'; [|discriminate].
        inversion Es; subst. destruct (Ha za eq_refl) as [q [Hs Hq]].
        destruct (IHl zs' eq_refl) as [qs [Hqs HF]].
        exists (q :: qs). split; [simpl; rewrite Hs, Hqs; reflexivity | constructor; assumption]. }
    cbn [seval]. rewrite Hqs.
    destruct f; cbn [zscall] in H; cbn [qscall].
    + destruct HF as [|q0 z0 qs zs Hh HF]; simpl in H; [discriminate|]. inversion H; subst.
      eexists; split; [reflexivity|]. apply (fold_inject qmin Z.min qmin_inject); assumption.
    + destruct HF as [|q0 z0 qs zs Hh HF]; simpl in H; [discriminate|]. inversion H; subst.
      eexists; split; [reflexivity|]. apply (fold_inject qmax Z.max qmax_inject); assumption.
    + discriminate.
    + inversion H; subst. eexists; split; [reflexivity|].
      cbn [liftQ qfun]. rewrite (floor_of_qz _ _ HF). unfold qz; reflexivity.
Qed.

(* ------------------------------------------ the translation is exact (in Z) *)
Definition powacc (E : fenv) (z : Z) (acc : option sexpr) : option Z :=
  match acc with
  | None => Some z
  | Some c => match zseval E c with Some k => zsbin Pow z k | None => None end
  end.

Lemma zseval_wrap : forall E s z acc, zseval E s = Some z -> zseval E (wrap s acc) = powacc E z acc.
Proof. intros E s z [c|] H; simpl; [rewrite H; reflexivity | exact H]. Qed.

Lemma zfold_some : forall f zs, zs <> [] -> exists z, zfold f zs = Some z.
Proof. intros f [|x r] H; [congruence | eexists; reflexivity]. Qed.

Lemma trx_exact : forall fixed E e, in_frag fixed e = true ->
  exists z, feval E e = Some z /\
            forall acc, (acc = None \/ fixed = true \/ is_pow e = false) ->
                        zseval (senv_of E) (trx fixed e acc) = powacc (senv_of E) z acc.
Proof.
  intros fixed E e. induction e as [k|x|a IH|o a b IHa IHb|f args IH] using expr_ind2; intro F.
  - exists k. split; [reflexivity|]. intros acc _. cbn [trx]. apply zseval_wrap. reflexivity.
  - exists (fvar E x). split; [reflexivity|]. intros acc _. cbn [trx]. apply zseval_wrap. reflexivity.
  - cbn [in_frag] in F. destruct (IH F) as [za [Hf Hz]].
    exists (- za). split; [cbn [feval]; rewrite Hf; reflexivity|].
    intros acc _. cbn [trx]. apply zseval_wrap. cbn [zseval].
    rewrite (Hz None (or_introl eq_refl)). reflexivity.
  - destruct o; cbn [in_frag] in F.
    + apply andb_true_iff in F as [Fa Fb].
      destruct (IHa Fa) as [za [Hfa Hza]]. destruct (IHb Fb) as [zb [Hfb Hzb]].
      exists (za + zb). split; [cbn [feval]; rewrite Hfa, Hfb; reflexivity|].
      intros acc _. cbn [trx]. apply zseval_wrap. cbn [zseval].
      rewrite (Hza None (or_introl eq_refl)), (Hzb None (or_introl eq_refl)). reflexivity.
    + apply andb_true_iff in F as [Fa Fb].
      destruct (IHa Fa) as [za [Hfa Hza]]. destruct (IHb Fb) as [zb [Hfb Hzb]].
      exists (za - zb). split; [cbn [feval]; rewrite Hfa, Hfb; reflexivity|].
      intros acc _. cbn [trx]. apply zseval_wrap. cbn [zseval].
      rewrite (Hza None (or_introl eq_refl)), (Hzb None (or_introl eq_refl)). reflexivity.
    + apply andb_true_iff in F as [Fa Fb].
      destruct (IHa Fa) as [za [Hfa Hza]]. destruct (IHb Fb) as [zb [Hfb Hzb]].
      exists (za * zb). split; [cbn [feval]; rewrite Hfa, Hfb; reflexivity|].
      intros acc _. cbn [trx]. apply zseval_wrap. cbn [zseval].
      rewrite (Hza None (or_introl eq_refl)), (Hzb None (or_introl eq_refl)). reflexivity.
    + discriminate.
    + apply andb_true_iff in F as [F Fq]. apply andb_true_iff in F as [Fa Fl].
      destruct b as [k| | | |]; cbn [nonneg_lit] in Fl; try discriminate.
      destruct (IHa Fa) as [za [Hfa Hza]].
      exists (za ^ k). split.
      { cbn [feval]. rewrite Hfa. cbn [fbin]. unfold fpow. rewrite Fl. reflexivity. }
      intros acc Hacc. cbn [trx]. destruct fixed.
      * apply zseval_wrap. cbn [zseval trx wrap].
        rewrite (Hza None (or_introl eq_refl)). cbn [zsbin]. rewrite Fl. reflexivity.
      * cbn [orb negb] in Fq. apply negb_true_iff in Fq.
        destruct Hacc as [Hacc | [Hacc | Hacc]]; [subst acc | discriminate | cbn [is_pow] in Hacc; discriminate].
        cbn [trx wrap]. rewrite (Hza (Some (SInt k)) (or_intror (or_intror Fq))).
        cbn [powacc zseval zsbin]. rewrite Fl. reflexivity.
  - (* calls *)
    assert (forall l, Forall (fun e => in_frag fixed e = true ->
               exists z, feval E e = Some z /\
                 forall acc, acc = None \/ fixed = true \/ is_pow e = false ->
                   zseval (senv_of E) (trx fixed e acc) = powacc (senv_of E) z acc) l ->
             forallb (in_frag fixed) l = true ->
             exists zs, sequence (map (feval E) l) = Some zs /\
                        sequence (map (zseval (senv_of E)) (map (fun a => trx fixed a None) l)) = Some zs /\
                        List.length zs = List.length l) as HL.
    { induction 1 as [|a l Ha _ IHl]; intro Fl.
      - exists []. repeat split; reflexivity.
      - cbn [forallb] in Fl. apply andb_true_iff in Fl as [Fa Fl].
        destruct (Ha Fa) as [za [Hfa Hza]]. destruct (IHl Fl) as [zs [H1 [H2 H3]]].
        exists (za :: zs). cbn [map sequence].
        rewrite Hfa, H1, (Hza None (or_introl eq_refl)). cbn [powacc]. rewrite H2.
        repeat split; try reflexivity. simpl; rewrite H3; reflexivity. }
    destruct f; cbn [in_frag] in F.
    + apply andb_true_iff in F as [Fn Fl]. destruct (HL args IH Fl) as [zs [H1 [H2 H3]]].
      assert (zs <> []) as NE by (destruct args; [discriminate | destruct zs; [discriminate | congruence]]).
      destruct (zfold_some Z.min zs NE) as [z Hz].
      exists z. split; [cbn [feval]; rewrite H1; exact Hz|].
      intros acc _. cbn [trx]. apply zseval_wrap. cbn [zseval trf trargs]. rewrite H2. exact Hz.
    + apply andb_true_iff in F as [Fn Fl]. destruct (HL args IH Fl) as [zs [H1 [H2 H3]]].
      assert (zs <> []) as NE by (destruct args; [discriminate | destruct zs; [discriminate | congruence]]).
      destruct (zfold_some Z.max zs NE) as [z Hz].
      exists z. split; [cbn [feval]; rewrite H1; exact Hz|].
      intros acc _. cbn [trx]. apply zseval_wrap. cbn [zseval trf trargs]. rewrite H2. exact Hz.
    + discriminate.
    + destruct (HL args IH F) as [zs [H1 [H2 H3]]].
      exists (farr E name zs). split; [cbn [feval]; rewrite H1; reflexivity|].
      intros acc _. cbn [trx]. apply zseval_wrap. cbn [zseval trf trargs].
      assert (sequence (map (zseval (senv_of E)) (triple (map (fun a => trx fixed a None) args)))
              = Some (flat_map (fun z => [z; z; 1]) zs)) as HT.
      { clear - H2. revert zs H2. induction args as [|a args IHa]; intros zs H2.
        - simpl in *. inversion H2; reflexivity.
        - cbn [map sequence] in H2.
          destruct (zseval (senv_of E) (trx fixed a None)) as [za|] eqn:Ea; [|discriminate].
          destruct (sequence (map (zseval (senv_of E)) (map (fun a => trx fixed a None) args))) as [zs'|] eqn:Es;
            [|discriminate].
          inversion H2; subst. unfold triple in *. cbn [map flat_map app sequence zseval].
          rewrite Ea. rewrite (IHa zs' eq_refl). reflexivity. }
      rewrite HT. cbn [zscall senv_of farr]. rewrite destride_triple. reflexivity.
Qed.

(* tr_exact: on the fragment the sympy value of the translation is the injected Fortran value *)
Lemma tr_exact_ : forall fixed e, in_frag fixed e = true ->
  forall E, feval E e <> None /\
            oeq (seval (qenv_of E) (tr fixed e)) (option_map inject_Z (feval E e)).
Proof.
  intros fixed e F E. destruct (trx_exact fixed E e F) as [z [Hf Hz]].
  rewrite Hf. split; [discriminate|].
  specialize (Hz None (or_introl eq_refl)). cbn [powacc] in Hz.
  destruct (zseval_seval _ _ _ Hz) as [q [Hs Hq]].
  unfold tr, qenv_of. rewrite Hs. exact Hq.
Qed.

Lemma frag_value : forall fixed e, in_frag fixed e = true -> forall E,
  exists z q, feval E e = Some z /\ seval (qenv_of E) (tr fixed e) = Some q /\ qz q z.
Proof.
  intros fixed e F E. destruct (trx_exact fixed E e F) as [z [Hf Hz]].
  specialize (Hz None (or_introl eq_refl)). cbn [powacc] in Hz.
  destruct (zseval_seval _ _ _ Hz) as [q [Hs Hq]]. exists z, q. auto.
Qed.

(* ============================================================ sympy as an oracle *)
Definition simplify_sound (orc : sexpr -> option Z) : Prop :=
  forall s k, orc s = Some k ->
  forall E q, seval (liftQ E) s = Some q -> (q == inject_Z k)%Q.

Definition solveset_sound (osolve : sexpr -> string -> option (list sexpr)) : Prop :=
  forall s x sols, osolve s x = Some sols -> forall sol, In sol sols ->
  forall E z, oeq (seval (liftQ E) sol) (Some (inject_Z z)) ->
  forall q, seval (liftQ (upd E x z)) s = Some q -> (q == 0)%Q.

Definition expand_sound (oexpand : sexpr -> sexpr) : Prop :=
  forall s E q, seval (liftQ E) s = Some q -> oeq (seval (liftQ E) (oexpand s)) (Some q).

(* reading the printed sympy expression back gives a PSyIR expression which, written for sympy
   again, has the value of the printed expression *)
Definition reader_faithful (fixed : bool) (reader : sexpr -> option expr) : Prop :=
  forall s e', reader s = Some e' ->
  forall E, oeq (seval (qenv_of E) (tr fixed e')) (seval (qenv_of E) s).

Section Oracle.
  Variable fixed : bool.
  Variable oracle_const : sexpr -> option Z.
  Hypothesis sympy_simplify_sound : simplify_sound oracle_const.
  Variable oracle_solve : sexpr -> string -> option (list sexpr).
  Hypothesis sympy_solveset_sound : solveset_sound oracle_solve.
  Variable oracle_expand : sexpr -> sexpr.
  Hypothesis sympy_expand_sound : expand_sound oracle_expand.
  Variable reader : sexpr -> option expr.
  Hypothesis sympy_reader_faithful : reader_faithful fixed reader.

  Lemma diff_value : forall a b, in_frag fixed a = true -> in_frag fixed b = true -> forall E,
    exists za zb q, feval E a = Some za /\ feval E b = Some zb /\
                    seval (qenv_of E) (sdiff fixed a b) = Some q /\ qz q (za - zb).
  Proof.
    intros a b Fa Fb E.
    destruct (frag_value fixed a Fa E) as [za [qa [Ha [Hsa Hqa]]]].
    destruct (frag_value fixed b Fb E) as [zb [qb [Hb [Hsb Hqb]]]].
    exists za, zb, (qa - qb)%Q. repeat split; try assumption.
    - unfold sdiff. cbn [seval]. rewrite Hsa, Hsb. reflexivity.
    - unfold qz in *. unfold Z.sub. rewrite inject_Z_plus, inject_Z_opp, Hqa, Hqb. reflexivity.
  Qed.

  Theorem equal_sound_partial_ : forall a b, in_frag fixed a = true -> in_frag fixed b = true ->
    equal_m oracle_const fixed a b = true -> forall E, feval E a = feval E b.
  Proof.
    intros a b Fa Fb H E. unfold equal_m in H.
    destruct (oracle_const (sdiff fixed a b)) as [k|] eqn:Ek; [|discriminate].
    apply Z.eqb_eq in H; subst k.
    destruct (diff_value a b Fa Fb E) as [za [zb [q [Ha [Hb [Hs Hq]]]]]].
    pose proof (sympy_simplify_sound _ _ Ek (senv_of E) q Hs) as Z0.
    unfold qz in Hq. rewrite Hq in Z0. apply (proj1 (inject_Z_injective _ _)) in Z0.
    rewrite Ha, Hb. f_equal. lia.
  Qed.

  Theorem never_equal_sound_partial_ : forall a b, in_frag fixed a = true -> in_frag fixed b = true ->
    never_equal_m oracle_const fixed a b = true -> forall E, feval E a <> feval E b.
  Proof.
    intros a b Fa Fb H E. unfold never_equal_m in H.
    destruct (oracle_const (sdiff fixed a b)) as [k|] eqn:Ek; [|discriminate].
    apply negb_true_iff, Z.eqb_neq in H.
    destruct (diff_value a b Fa Fb E) as [za [zb [q [Ha [Hb [Hs Hq]]]]]].
    pose proof (sympy_simplify_sound _ _ Ek (senv_of E) q Hs) as Z0.
    unfold qz in Hq. rewrite Hq in Z0. apply (proj1 (inject_Z_injective _ _)) in Z0.
    rewrite Ha, Hb. intro C. inversion C. lia.
  Qed.

  Theorem solutions_are_solutions_partial_ : forall a b x sols sol z,
    in_frag fixed a = true -> in_frag fixed b = true ->
    solve_m oracle_solve fixed a b x = Some sols -> In sol sols ->
    forall E, oeq (seval (qenv_of E) sol) (Some (inject_Z z)) ->
    feval (upd E x z) a = feval (upd E x z) b.
  Proof.
    intros a b x sols sol z Fa Fb Hs Hin E Hv. unfold solve_m in Hs.
    destruct (diff_value a b Fa Fb (upd E x z)) as [za [zb [q [Ha [Hb [Hq1 Hq2]]]]]].
    pose proof (sympy_solveset_sound _ _ _ Hs sol Hin (senv_of E) z Hv q Hq1) as Z0.
    unfold qz in Hq2. rewrite Hq2 in Z0. change 0%Q with (inject_Z 0) in Z0.
    apply (proj1 (inject_Z_injective _ _)) in Z0. rewrite Ha, Hb. f_equal. lia.
  Qed.

  Theorem expand_preserves_partial_ : forall e e', in_frag fixed e = true ->
    expand_m oracle_expand reader fixed e = Some e' -> in_frag fixed e' = true ->
    forall E, feval E e' = feval E e.
  Proof.
    intros e e' Fe H Fe' E. unfold expand_m in H.
    destruct (frag_value fixed e Fe E) as [z [q [Hz [Hs Hq]]]].
    destruct (frag_value fixed e' Fe' E) as [z' [q' [Hz' [Hs' Hq']]]].
    pose proof (sympy_expand_sound _ _ _ Hs) as X.
    pose proof (sympy_reader_faithful _ _ H E) as R.
    unfold qenv_of in *. rewrite Hs' in R.
    pose proof (oeq_trans _ _ _ R X) as T. simpl in T.
    unfold qz in *. rewrite Hq, Hq' in T. apply (proj1 (inject_Z_injective _ _)) in T.
    rewrite Hz, Hz'. f_equal. exact T.
  Qed.
End Oracle.

(* ====================================================== polynomial normaliser *)
Lemma meval_sinsert : forall E x m, meval E (sinsert x m) = fvar E x * meval E m.
Proof.
  intros E x m. induction m as [|y r IH]; simpl; [reflexivity|].
  destruct (String.leb x y); simpl; [reflexivity|]. fold (meval E (sinsert x r)). rewrite IH.
  fold (meval E r). ring.
Qed.
Lemma meval_mmul : forall E a b, meval E (mmul a b) = meval E a * meval E b.
Proof.
  intros E a b. induction a as [|x a IH]; simpl.
  - destruct (meval E b); reflexivity.
  - fold (mmul a b). rewrite meval_sinsert, IH. fold (meval E a). ring.
Qed.
Lemma mono_eqb_eq : forall a b, mono_eqb a b = true -> a = b.
Proof.
  induction a as [|x a IH]; intros [|y b] H; simpl in H; try discriminate; [reflexivity|].
  apply andb_true_iff in H as [H1 H2]. apply String.eqb_eq in H1. rewrite (IH b H2), H1. reflexivity.
Qed.

Lemma peval_cons : forall E m c p, peval E ((m, c) :: p) = c * meval E m + peval E p.
Proof. reflexivity. Qed.

Lemma peval_pinsert : forall E m c p, peval E (pinsert m c p) = c * meval E m + peval E p.
Proof.
  intros E m c p. induction p as [|[m' c'] r IH]; cbn [pinsert].
  - destruct (c =? 0) eqn:Ec; [apply Z.eqb_eq in Ec; subst; simpl; ring | simpl; ring].
  - destruct (mono_eqb m m') eqn:Em.
    + apply mono_eqb_eq in Em; subst m'. destruct (c + c' =? 0) eqn:Es.
      * apply Z.eqb_eq in Es. rewrite peval_cons.
        replace (c * meval E m + (c' * meval E m + peval E r))
          with ((c + c') * meval E m + peval E r) by ring. rewrite Es. ring.
      * rewrite !peval_cons. ring.
    + destruct (mono_le m m').
      * destruct (c =? 0) eqn:Ec; [apply Z.eqb_eq in Ec; subst; ring | rewrite !peval_cons; ring].
      * rewrite !peval_cons, IH. ring.
Qed.
Lemma peval_padd : forall E p q, peval E (padd p q) = peval E p + peval E q.
Proof.
  intros E p q. induction p as [|[m c] r IH]; cbn [padd fold_right]; [simpl; ring|].
  fold (padd r q). cbn [fst snd]. rewrite peval_pinsert, IH, peval_cons. ring.
Qed.
Lemma peval_pneg : forall E p, peval E (pneg p) = - peval E p.
Proof.
  intros E p. induction p as [|[m c] r IH]; [reflexivity|].
  cbn [pneg map fst snd]. fold (pneg r). rewrite !peval_cons, IH. ring.
Qed.
Lemma peval_pmul1 : forall E m c q acc,
  peval E (pmul1 m c q acc) = c * meval E m * peval E q + peval E acc.
Proof.
  intros E m c q acc. induction q as [|[m' c'] r IH]; cbn [pmul1 fold_right]; [simpl; ring|].
  fold (pmul1 m c r acc). cbn [fst snd]. rewrite peval_pinsert, IH, meval_mmul, peval_cons. ring.
Qed.
Lemma peval_pmul : forall E p q, peval E (pmul p q) = peval E p * peval E q.
Proof.
  intros E p q. induction p as [|[m c] r IH]; cbn [pmul fold_right]; [simpl; ring|].
  fold (pmul r q). cbn [fst snd]. rewrite peval_pmul1, IH, peval_cons. ring.
Qed.
Lemma peval_pconst : forall E z, peval E (pconst z) = z.
Proof.
  intros E z. unfold pconst. destruct (z =? 0) eqn:Ez; [apply Z.eqb_eq in Ez; subst; reflexivity|].
  unfold peval, meval. cbn [fold_right fst snd]. ring.
Qed.
Lemma peval_pvar : forall E x, peval E (pvar x) = fvar E x.
Proof. intros E x. unfold pvar, peval, meval. cbn [fold_right fst snd]. ring. Qed.
Lemma peval_ppow : forall E p n, peval E (ppow p n) = peval E p ^ Z.of_nat n.
Proof.
  intros E p n. induction n as [|n IH].
  - cbn [ppow]. rewrite peval_pconst. reflexivity.
  - cbn [ppow]. rewrite peval_pmul, IH, Nat2Z.inj_succ, Z.pow_succ_r by lia. reflexivity.
Qed.
Lemma is_const_sound : forall E p k, is_const p = Some k -> peval E p = k.
Proof.
  intros E [|[[|x m] c] [|t r]] k H; simpl in H; try discriminate; inversion H; subst; simpl; ring.
Qed.

Lemma norm_sound : forall E s p, norm s = Some p -> zseval E s = Some (peval E p).
Proof.
  intros E s. induction s as [k|x|a IH|o a b IHa IHb|f args _] using sexpr_ind2; intros p H.
  - inversion H; subst. cbn [zseval]. rewrite peval_pconst. reflexivity.
  - inversion H; subst. cbn [zseval]. rewrite peval_pvar. reflexivity.
  - cbn [norm] in H. destruct (norm a) as [pa|]; [|discriminate]. inversion H; subst.
    cbn [zseval]. rewrite (IH pa eq_refl), peval_pneg. reflexivity.
  - cbn [norm] in H. destruct (norm a) as [pa|]; [|discriminate].
    destruct (norm b) as [pb|]; [|discriminate].
    cbn [zseval]. rewrite (IHa pa eq_refl), (IHb pb eq_refl).
    destruct o; cbn [zsbin].
    + inversion H; subst. rewrite peval_padd. reflexivity.
    + inversion H; subst. rewrite peval_padd, peval_pneg. reflexivity.
    + inversion H; subst. rewrite peval_pmul. reflexivity.
    + discriminate.
    + destruct (is_const pb) as [k|] eqn:Ek; [|discriminate].
      destruct ((0 <=? k) && (k <=? 64)) eqn:E01; [|discriminate]. inversion H; subst.
      apply andb_true_iff in E01 as [E0 _].
      rewrite (is_const_sound E pb k Ek), E0, peval_ppow, Z2Nat.id by (apply Z.leb_le; exact E0).
      reflexivity.
  - discriminate.
Qed.

(* the closed instance satisfies the oracle hypothesis *)
Theorem poly_const_sound_ : simplify_sound poly_const.
Proof.
  intros s k H E q Hs. unfold poly_const in H.
  destruct (norm s) as [p|] eqn:En; [|discriminate].
  pose proof (norm_sound E s p En) as Hz. rewrite (is_const_sound E p k H) in Hz.
  destruct (zseval_seval _ _ _ Hz) as [q' [Hs' Hq']]. rewrite Hs in Hs'. inversion Hs'; subst. exact Hq'.
Qed.

(* reify / poly_expand / untr : a closed instance of expand *)
Lemma zseval_reify_mono : forall E m, zseval E (reify_mono m) = Some (meval E m).
Proof.
  intros E m. induction m as [|x r IH]; [reflexivity|].
  destruct r as [|y r'].
  - simpl. f_equal. ring.
  - change (reify_mono (x :: y :: r')) with (SBin Mul (SVar x) (reify_mono (y :: r'))).
    cbn [zseval]. rewrite IH. reflexivity.
Qed.
Lemma zseval_reify_term : forall E m c, zseval E (reify_term m c) = Some (c * meval E m).
Proof.
  intros E [|x r] c.
  - simpl. f_equal. ring.
  - unfold reify_term. cbn [zseval]. rewrite zseval_reify_mono. reflexivity.
Qed.
Lemma zseval_reify : forall E p, zseval E (reify p) = Some (peval E p).
Proof.
  intros E p. induction p as [|[m c] r IH]; [reflexivity|].
  destruct r as [|t r'].
  - cbn [reify]. rewrite zseval_reify_term. simpl. f_equal. ring.
  - change (reify ((m, c) :: t :: r')) with (SBin Add (reify_term m c) (reify (t :: r'))).
    cbn [zseval]. rewrite zseval_reify_term, IH. reflexivity.
Qed.

Theorem poly_expand_sound_ : expand_sound poly_expand.
Proof.
  intros s E q Hs. unfold poly_expand. destruct (norm s) as [p|] eqn:En.
  - pose proof (norm_sound E s p En) as Hz.
    destruct (zseval_seval _ _ _ Hz) as [q1 [Hs1 Hq1]]. rewrite Hs in Hs1. inversion Hs1; subst q1.
    destruct (zseval_seval _ _ _ (zseval_reify E p)) as [q2 [Hs2 Hq2]].
    rewrite Hs2. simpl. unfold qz in *. rewrite Hq1, Hq2. reflexivity.
  - rewrite Hs. simpl. reflexivity.
Qed.

Lemma untr_frag : forall fixed s e, untr s = Some e -> in_frag fixed e = true.
Proof.
  intros fixed s. induction s as [k|x|a IH|o a b IHa IHb|f args _] using sexpr_ind2; intros e H.
  - inversion H; subst. destruct (0 <=? k) eqn:E0; cbn [in_frag]; [exact E0 | apply Z.leb_le; apply Z.leb_gt in E0; lia].
  - inversion H; subst. reflexivity.
  - cbn [untr] in H. destruct (untr a) as [x|]; [|discriminate]. inversion H; subst. cbn [in_frag]. auto.
  - cbn [untr] in H. destruct o; try discriminate;
      destruct (untr a) as [x|]; try discriminate; destruct (untr b) as [y|]; try discriminate;
      inversion H; subst; cbn [in_frag]; rewrite (IHa x eq_refl), (IHb y eq_refl); reflexivity.
  - discriminate.
Qed.

Lemma untr_faithful_ : forall fixed, reader_faithful fixed untr.
Proof.
  intros fixed s. induction s as [k|x|a IH|o a b IHa IHb|f args _] using sexpr_ind2; intros e H E.
  - inversion H; subst. destruct (0 <=? k) eqn:E0.
    + apply oeq_refl.
    + unfold tr. cbn [trx wrap seval option_map]. simpl. rewrite <- inject_Z_opp, Z.opp_involutive. reflexivity.
  - inversion H; subst. apply oeq_refl.
  - cbn [untr] in H. destruct (untr a) as [x|] eqn:Ea; [|discriminate]. inversion H; subst.
    specialize (IH x eq_refl E). unfold tr in *. cbn [trx wrap seval].
    destruct (seval (qenv_of E) (trx fixed x None)) as [q1|], (seval (qenv_of E) a) as [q2|];
      simpl in *; try contradiction; try exact I. rewrite IH. reflexivity.
  - cbn [untr] in H.
    destruct o; try discriminate;
      destruct (untr a) as [x|] eqn:Ea; try discriminate; destruct (untr b) as [y|] eqn:Eb; try discriminate;
      inversion H; subst; specialize (IHa x eq_refl E); specialize (IHb y eq_refl E);
      unfold tr in *; cbn [trx wrap seval];
      destruct (seval (qenv_of E) (trx fixed x None)) as [q1|], (seval (qenv_of E) a) as [q2|];
      destruct (seval (qenv_of E) (trx fixed y None)) as [q3|], (seval (qenv_of E) b) as [q4|];
      simpl in *; try contradiction; try exact I; rewrite IHa, IHb; reflexivity.
  - discriminate.
Qed.

(* closed theorems: no premise at all on the polynomial fragment *)
Theorem equal_poly_sound_ : forall fixed a b, in_frag fixed a = true -> in_frag fixed b = true ->
  equal_m poly_const fixed a b = true -> forall E, feval E a = feval E b.
Proof. intros fixed. exact (equal_sound_partial_ fixed poly_const poly_const_sound_). Qed.

Theorem never_equal_poly_sound_ : forall fixed a b, in_frag fixed a = true -> in_frag fixed b = true ->
  never_equal_m poly_const fixed a b = true -> forall E, feval E a <> feval E b.
Proof. intros fixed. exact (never_equal_sound_partial_ fixed poly_const poly_const_sound_). Qed.

Theorem expand_poly_preserves_ : forall fixed e e', in_frag fixed e = true ->
  expand_m poly_expand untr fixed e = Some e' -> forall E, feval E e' = feval E e.
Proof.
  intros fixed e e' Fe H E.
  apply (expand_preserves_partial_ fixed poly_expand poly_expand_sound_ untr (untr_faithful_ fixed) e e' Fe H).
  unfold expand_m in H. exact (untr_frag fixed _ _ H).
Qed.
