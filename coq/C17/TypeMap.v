(* C17 — model of SymPyWriter._create_type_map and of the reserved-name renaming (definitions only).
   sympy_writer.py 249-330: every Reference of the expressions (expr.walk(Reference): pre-order; the routine
   name of a call is skipped) gets, once, a unique name from a SymbolTable pre-filled with Python's lower-case
   keywords (new_symbol(name, tag=name): name, else name_1, name_2, ...).  The text uses the unique name; the
   type map binds it to Symbol(<Fortran name>) for a scalar and (arrayreference_node) to Function(<unique name>)
   for an array. *)
From Coq Require Import List ZArith NArith QArith Bool String Ascii.
Import ListNotations.
From PV Require Import C17.Model.
Open Scope string_scope.
Open Scope list_scope.

Inductive kind := KSym | KFun.
Record entry := mk_entry { fname : string; ekind : kind; uname : string }.
Definition tmap := list entry.

Definition reserved : list string :=
  ["and"; "as"; "assert"; "async"; "await"; "break"; "class"; "continue"; "def"; "del"; "elif"; "else";
   "except"; "finally"; "for"; "from"; "global"; "if"; "import"; "in"; "is"; "lambda"; "nonlocal"; "not";
   "or"; "pass"; "raise"; "return"; "try"; "while"; "with"; "yield"].

(* occurrences in the order of expr.walk(Reference) *)
Fixpoint occs (e : expr) : list (string * kind) :=
  match e with
  | ELit _ => []
  | EVar x => [(x, KSym)]
  | ENeg a => occs a
  | EBin _ a b => occs a ++ occs b
  | ECall f args => (match f with FArr n => [(n, KFun)] | _ => [] end) ++ flat_map occs args
  end.

Definition digit (n : N) : ascii := ascii_of_N (48 + n).
Fixpoint dec_fuel (fuel : nat) (n : N) (acc : string) : string :=
  match fuel with
  | O => acc
  | S f => let acc' := String (digit (N.modulo n 10)) acc in
           if N.ltb n 10 then acc' else dec_fuel f (N.div n 10) acc'
  end.
Definition dec (n : N) : string := dec_fuel 20 n "".
Definition cand (x : string) (k : N) : string := (x ++ "_" ++ dec k)%string.
Definition mem (x : string) (l : list string) : bool := existsb (String.eqb x) l.
Fixpoint fresh_from (fuel : nat) (used : list string) (x : string) (k : N) : option string :=
  match fuel with
  | O => None
  | S f => let c := cand x k in if mem c used then fresh_from f used x (N.succ k) else Some c
  end.
(* SymbolTable.new_symbol / next_available_name *)
Definition new_name (used : list string) (x : string) : option string :=
  if mem x used then fresh_from 1000 used x 1 else Some x.

Definition has_fname (tm : tmap) (x : string) : bool := existsb (fun en => String.eqb (fname en) x) tm.
Fixpoint build_from (used : list string) (tm : tmap) (l : list (string * kind)) : option tmap :=
  match l with
  | [] => Some tm
  | (x, k) :: r =>
      if has_fname tm x then build_from used tm r          (* "if name in tags_dict: continue" *)
      else match new_name used x with
           | None => None
           | Some u => build_from (u :: used) (tm ++ [mk_entry x k u]) r
           end
  end.
Definition build (es : list expr) : option tmap := build_from reserved [] (flat_map occs es).

(* the name written in the text / the name of the sympy object *)
Definition uniq (tm : tmap) (a : string) : string :=
  match find (fun en => String.eqb (fname en) a) tm with Some en => uname en | None => a end.
Definition orig (tm : tmap) (u : string) : string :=
  match find (fun en => String.eqb (uname en) u) tm with Some en => fname en | None => u end.
Definition sname (en : entry) : string := match ekind en with KSym => fname en | KFun => uname en end.

(* names occurring in a sympy expression *)
Fixpoint snames (s : sexpr) : list string :=
  match s with
  | SInt _ => []
  | SVar x => [x]
  | SNeg a => snames a
  | SBin _ a b => snames a ++ snames b
  | SCall f args => (match f with SFun n => [n] | _ => [] end) ++ flat_map snames args
  end.

(* the sympy object parse_expr builds from the text under the type map: scalars are Symbol(<Fortran name>),
   arrays Function(<unique name>) *)
Fixpoint obj (tm : tmap) (s : sexpr) : sexpr :=
  match s with
  | SInt _ | SVar _ => s
  | SNeg a => SNeg (obj tm a)
  | SBin o a b => SBin o (obj tm a) (obj tm b)
  | SCall f args => SCall (match f with SFun n => SFun (uniq tm n) | _ => f end) (map (obj tm) args)
  end.
(* the valuation of the renamed functions *)
Definition renv (tm : tmap) (V : qenv) : qenv :=
  {| qvar := qvar V; qfun := fun u qs => qfun V (orig tm u) qs |}.

(* correspondence: the (text name, kind, sympy name) triples of the real writer's type_map *)
Definition kind_eqb (a b : kind) : bool := match a, b with KSym, KSym | KFun, KFun => true | _, _ => false end.
Definition triple_eqb (a b : string * bool * string) : bool :=
  let '(x, k, y) := a in let '(x', k', y') := b in String.eqb x x' && Bool.eqb k k' && String.eqb y y'.
Definition view (tm : tmap) : list (string * bool * string) :=
  map (fun en => (uname en, match ekind en with KFun => true | KSym => false end, sname en)) tm.
Fixpoint subset_of (a b : list (string * bool * string)) : bool :=
  match a with [] => true | x :: r => existsb (triple_eqb x) b && subset_of r b end.
Definition chk_typemap (c : list expr * list (string * bool * string)) : bool :=
  match build (fst c) with
  | None => false
  | Some tm => subset_of (view tm) (snd c) && subset_of (snd c) (view tm)
  end.
