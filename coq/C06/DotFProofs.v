(* C06 (round 4) — DOT_PRODUCT lowering with arbitrary loop-bound expressions that evaluate to the effective
   bounds of the first vector, and its instance for the declaration forms accepted by
   dotproduct2code_trans.py::_get_array_bound (explicit shape of either vector, else LBOUND/UBOUND of the first). *)
From Coq Require Import List ZArith Bool Lia.
Import ListNotations.
From PV Require Import Fort.Syntax Fort.Sem Fort.Facts Base.Harness C06.Syntax C06.Model C06.Common
                       C06.ArrayAssignProofs C06.IntrinsicProofs C06.ReductionProofs C06.LinAlgProofs
                       C06.Bounds C06.MatMatProofs C06.MatVecFProofs.
Open Scope Z_scope.

Definition dotG_apply (lo hi : expr) (i res : name) (x : name) (xi : list expr) (ctx : expr) (hole : name)
                      (v1 : name) (r1 : list expr) (v2 : name) (r2 : list expr) : list stmt :=
  [SAssign res [] (ELit 0);
   SDo i lo hi (ELit 1)
     [SAssign res [] (EBin Add (EVar res) (EBin Mul (EIdx v1 (EVar i :: r1)) (EIdx v2 (EVar i :: r2))))];
   SAssign x xi (subst_var hole (EVar res) ctx)].

(* _get_array_bound(vector1, vector2): the first vector with ArrayBounds gives (lower, upper); an assumed-shape
   vector with explicit lower bound has upper = ATTRIBUTE and makes the transformation crash (None) *)
Definition dot_bounds (fm : forms) (v1 v2 : name) : option (expr * expr) :=
  match nth_error (fm v1) 0 with
  | Some (DExplicit lb ub) => Some (ELit lb, ELit ub)
  | Some (DAssumedLb _) => None
  | _ => match nth_error (fm v2) 0 with
         | Some (DExplicit lb ub) => Some (ELit lb, ELit ub)
         | Some (DAssumedLb _) => None
         | _ => Some (lbound_of v1 0, ubound_of v1 0)
         end
  end.

Theorem dotG_sound_partial_ lo hi d i res hole x xi ctx v1 r1 v2 r2 s v xv w :
  dot_safe d i res hole x xi ctx v1 r1 v2 r2 = true ->
  (forall s', bnd s' = bnd s -> eval s' lo = Some (fst (dim0 d v1)) /\ eval s' hi = Some (snd (dim0 d v1))) ->
  dot_sem d v1 r1 v2 r2 s = Some v ->
  opt_all (map (eval s) xi) = Some xv -> eval (upd s (hole, []) v) ctx = Some w ->
  hoare 8 (dotG_apply lo hi i res x xi ctx hole v1 r1 v2 r2) s
        (fun s2 => agree_except [i; res; hole] s2 (upd s (x, xv) w)).
Proof.
  intros Safe Hbounds Sem Exi Ectx. unfold dot_safe in Safe.
  repeat (apply andb_true_iff in Safe as [Safe ?H]).
  apply Z.eqb_eq in Safe.
  repeat match goal with H : negb (Nat.eqb _ _) = true |- _ => apply negb_true_iff in H; apply Nat.eqb_neq in H end.
  repeat match goal with H : negb (mentions _ _) = true |- _ => apply negb_true_iff in H end.
  rename H into Mres, H0 into Mi, H1 into Hok, H2 into Ffr, H3 into Nrx, H4 into Nix, H5 into Nr2, H6 into Nr1,
         H7 into Ni2, H8 into Ni1, H9 into Nir.
  unfold dot_sem in Sem.
  destruct (opt_all (map (eval s) r1)) as [a1|] eqn:E1; [|discriminate].
  destruct (opt_all (map (eval s) r2)) as [a2|] eqn:E2; [|discriminate].
  inversion Sem; subst v. clear Sem.
  set (lb1 := fst (dim0 d v1)) in *. set (lb2 := fst (dim0 d v2)) in *. set (ub1 := snd (dim0 d v1)).
  set (g := fun k => val s (v1, (lb1 + k) :: a1) * val s (v2, (lb2 + k) :: a2)) in *.
  set (n := extent (dim0 d v1)) in *.
  assert (Ffr' : forall e, In e (r1 ++ r2 ++ xi) -> mentions i e = false /\ mentions res e = false).
  { intros e He. rewrite forallb_forall in Ffr. specialize (Ffr e He). apply andb_true_iff in Ffr as [A B].
    apply negb_true_iff in A, B. auto. }
  (* expressions fresh of i and res evaluate as in s whenever only i and res changed *)
  assert (Hfresh : forall s1 es, agree_except [i; res] s1 s -> (forall e, In e es -> In e (r1 ++ r2 ++ xi)) ->
                     map (eval s1) es = map (eval s) es).
  { intros s1 es A Sub. apply (evals_agree [i; res] s s1 es A). intros y e [<-|[<-|[]]] He; apply Ffr', Sub, He. }
  unfold dotG_apply.
  apply (hoare_cons 2 6 _ _ _ (fun s1 => s1 = upd s (res, []) 0)).
  { eapply hoare_assign; [reflexivity | reflexivity | reflexivity]. }
  intros si ->. set (si := upd s (res, []) 0).
  set (P := fun (j : nat) (sj : store) => val sj (res, []) = sum_upto g j /\ agree_except [i; res] sj s).
  apply (hoare_cons 4 2 _ _ _ (fun s' => exists s2, P n s2 /\ s' = upd s2 (i, []) (lb1 + Z.of_nat n * 1))).
  - assert (Hn : trip_count lb1 ub1 1 = n).
    { rewrite trip_unit. unfold n, lb1, ub1. rewrite <- dim_pair. reflexivity. }
    rewrite <- Hn. destruct (Hbounds si eq_refl) as [Elo Ehi]. fold lb1 in Elo. fold ub1 in Ehi.
    change 4%nat with (S (S 2)). eapply (hoare_do 2 i _ _ (ELit 1) _ si lb1 ub1 1 P Elo Ehi eq_refl); [lia | |].
    + intros j sj Hj [Vr Ag]. set (s1 := upd sj (i, []) (lb1 + Z.of_nat j * 1)).
      assert (A1 : agree_except [i; res] s1 s)
        by (eapply agree_trans; [apply agree_upd_fresh; left; reflexivity | exact Ag]).
      assert (Vi : val s1 (i, []) = lb1 + Z.of_nat j) by (unfold s1; rewrite val_upd_same; lia).
      assert (Vr1 : val s1 (res, []) = sum_upto g j)
        by (unfold s1; rewrite val_upd_other by (intro X; inversion X; congruence); exact Vr).
      assert (Er1 : map (eval s1) r1 = map (eval s) r1)
        by (apply Hfresh; [exact A1 | intros e He; apply in_or_app; left; exact He]).
      assert (Er2 : map (eval s1) r2 = map (eval s) r2)
        by (apply Hfresh; [exact A1 | intros e He; apply in_or_app; right; apply in_or_app; left; exact He]).
      eapply hoare_mono; [|eapply hoare_assign]; [lia | reflexivity | |].
      * cbn [eval map opt_all]. rewrite Vr1, Vi, Er1, Er2, E1, E2. cbn [eval_bin]. reflexivity.
      * split.
        -- rewrite val_upd_same. cbn [sum_upto]. f_equal. unfold g. destruct A1 as [_ V].
           rewrite (V (v1, _)) by (cbn [fst In]; intuition congruence).
           rewrite (V (v2, _)) by (cbn [fst In]; intuition congruence). rewrite <- Safe. reflexivity.
        -- eapply agree_trans; [apply agree_upd_fresh; right; left; reflexivity | exact A1].
    + split; [apply val_upd_same | apply agree_upd_fresh; right; left; reflexivity].
  - intros s' [sL [[Vr Ag] ->]]. set (sF := upd sL (i, []) (lb1 + Z.of_nat n * 1)).
    assert (AF : agree_except [i; res] sF s)
      by (eapply agree_trans; [apply agree_upd_fresh; left; reflexivity | exact Ag]).
    destruct AF as [BF VF].
    eapply hoare_conseq; [|eapply (ctx_assign [i; res] s sF x xi xv ctx hole (EVar res) (sum_upto g n) w BF)].
    + intros s2 ->. split; [rewrite !bnd_upd; exact BF|]. intros loc Hn.
      rewrite !val_upd. destruct (loc_eq_dec loc (x, xv)); [reflexivity|]. apply VF. cbn [In] in *. tauto.
    + exact VF.
    + cbn [eval]. unfold sF. rewrite val_upd_other by (intro X; inversion X; congruence). rewrite Vr. reflexivity.
    + exact Hok.
    + intros y [<-|[<-|[]]]; assumption.
    + intros y e [<-|[<-|[]]] He; apply Ffr'; apply in_or_app; right; apply in_or_app; right; exact He.
    + exact Exi.
    + exact Ectx.
Qed.

(* the declaration forms: conformable vectors with equal effective lower bounds *)
Theorem dot_forms_sound_partial_ fm d i res hole x xi ctx v1 r1 v2 r2 s v xv w lo hi :
  dot_bounds fm v1 v2 = Some (lo, hi) ->
  dot_safe d i res hole x xi ctx v1 r1 v2 r2 = true ->
  vector_ok fm d s v1 -> vector_ok fm d s v2 -> snd (dim0 d v2) = snd (dim0 d v1) ->
  dot_sem d v1 r1 v2 r2 s = Some v ->
  opt_all (map (eval s) xi) = Some xv -> eval (upd s (hole, []) v) ctx = Some w ->
  hoare 8 (dotG_apply lo hi i res x xi ctx hole v1 r1 v2 r2) s
        (fun s2 => agree_except [i; res; hole] s2 (upd s (x, xv) w)).
Proof.
  intros Hb Safe O1 O2 Hub Sem Exi Ectx. eapply dotG_sound_partial_; eauto.
  intros s' B. destruct O1 as [B1 [[b1 D1] F1]]. destruct O2 as [B2 [[b2 D2] F2]].
  assert (Hl : fst (dim0 d v1) = fst (dim0 d v2)).
  { unfold dot_safe in Safe. repeat (apply andb_true_iff in Safe as [Safe _]). apply Z.eqb_eq in Safe. exact Safe. }
  unfold dim0 in *. rewrite D1 in *. rewrite D2 in *. cbn [nth] in *.
  unfold dot_bounds in Hb.
  destruct (nth_error (fm v1) 0) as [[lb ub|lb| |]|] eqn:E1.
  - inversion Hb; subst. specialize (F1 0%nat _ b1 E1). specialize (F1 eq_refl). cbn in F1. subst b1. split; reflexivity.
  - discriminate.
  - destruct (nth_error (fm v2) 0) as [[lb ub|lb| |]|] eqn:E2; try discriminate; inversion Hb; subst.
    + specialize (F2 0%nat _ b2 E2). specialize (F2 eq_refl). cbn in F2. subst b2.
      cbn [fst snd] in *. subst. split; reflexivity.
    + apply (inquiry_eval s' v1 0 b1). rewrite B, B1. reflexivity.
    + apply (inquiry_eval s' v1 0 b1). rewrite B, B1. reflexivity.
    + apply (inquiry_eval s' v1 0 b1). rewrite B, B1. reflexivity.
  - destruct (nth_error (fm v2) 0) as [[lb ub|lb| |]|] eqn:E2; try discriminate; inversion Hb; subst.
    + specialize (F2 0%nat _ b2 E2). specialize (F2 eq_refl). cbn in F2. subst b2.
      cbn [fst snd] in *. subst. split; reflexivity.
    + apply (inquiry_eval s' v1 0 b1). rewrite B, B1. reflexivity.
    + apply (inquiry_eval s' v1 0 b1). rewrite B, B1. reflexivity.
    + apply (inquiry_eval s' v1 0 b1). rewrite B, B1. reflexivity.
  - destruct (nth_error (fm v2) 0) as [[lb ub|lb| |]|] eqn:E2; try discriminate; inversion Hb; subst.
    + specialize (F2 0%nat _ b2 E2). specialize (F2 eq_refl). cbn in F2. subst b2.
      cbn [fst snd] in *. subst. split; reflexivity.
    + apply (inquiry_eval s' v1 0 b1). rewrite B, B1. reflexivity.
    + apply (inquiry_eval s' v1 0 b1). rewrite B, B1. reflexivity.
    + apply (inquiry_eval s' v1 0 b1). rewrite B, B1. reflexivity.
Qed.

(* names 0 = v1(:) with actual (4:6), 1 = v2(1:3) explicit, 2 = x, 3 = i, 4 = res, 5 = hole *)
Definition df_forms : forms := fun n => match n with O => [DAssumed] | S O => [DExplicit 1 3] | _ => [] end.
Definition df_actuals : name -> list (Z * Z) := fun n => match n with O => [(4, 6)] | S O => [(1, 3)] | _ => [] end.
Definition df_decls : decls := eff_decls df_forms df_actuals.
Definition df_store : store :=
  store_of [((0%nat, [1]), 1); ((0%nat, [2]), 2); ((0%nat, [3]), 3); ((1%nat, [1]), 4); ((1%nat, [2]), 5); ((1%nat, [3]), 6)]
           [(0%nat, [(1, 3)]); (1%nat, [(1, 3)])].

Example dot_forms_nonvacuous :
  df_decls 0%nat = [(1, 3)] /\ dot_bounds df_forms 0%nat 1%nat = Some (ELit 1, ELit 3) /\
  dot_safe df_decls 3%nat 4%nat 5%nat 2%nat [] (EVar 5%nat) 0%nat [] 1%nat [] = true /\
  vector_ok df_forms df_decls df_store 0%nat /\ vector_ok df_forms df_decls df_store 1%nat /\
  dot_sem df_decls 0%nat [] 1%nat [] df_store = Some 32 /\
  (exists s2 tr, exec 30 (dotG_apply (ELit 1) (ELit 3) 3%nat 4%nat 2%nat [] (EVar 5%nat) 5%nat 0%nat [] 1%nat []) df_store
                 = Ok s2 tr CNormal /\ val s2 (2%nat, []) = 32).
Proof.
  split; [reflexivity|]. split; [reflexivity|]. split; [vm_compute; reflexivity|]. split; [|split].
  - split; [reflexivity|]. split; [eexists; reflexivity|].
    intros k f b F N; destruct k as [|k]; cbn in F, N; try (destruct k; discriminate);
      inversion F; inversion N; subst; vm_compute; first [reflexivity | exact I].
  - split; [reflexivity|]. split; [eexists; reflexivity|].
    intros k f b F N; destruct k as [|k]; cbn in F, N; try (destruct k; discriminate);
      inversion F; inversion N; subst; vm_compute; first [reflexivity | exact I].
  - split; [vm_compute; reflexivity|]. eexists. eexists. split; [vm_compute; reflexivity | reflexivity].
Qed.
