(* C06 (round 4) — array assignment with TWO ranges per accessor, a(.., l1:u1:s1, .., l2:u2:s2, ..) = rhs.
   ArrayAssignment2LoopsTrans.apply handles the lhs ranges in REVERSED order: the LAST range becomes the
   outer loop (first new symbol), the first range the inner loop (arrayassignment2loops_trans.py:119-160).
   Model: rewrite the last range of every accessor (`aa_slice`), then apply the 1-range model to the result.
   Semantics: element (k1, k2) of every section, all evaluated in the initial store, then stored.
   The theorem nests ArrayAssignProofs.aa_sound_partial_. *)
From Coq Require Import List ZArith Bool Lia.
Import ListNotations.
From PV Require Import Fort.Syntax Fort.Sem Fort.Facts Base.Harness C06.Syntax C06.Model C06.Common
                       C06.ArrayAssignProofs.
Open Scope Z_scope.

(* ================================================================== model *)
Fixpoint has_range (ix : list index) : bool :=
  match ix with [] => false | IRange _ _ _ :: _ => true | IExp _ :: r => has_range r end.

Fixpoint last_range_pos (q : nat) (ix : list index) : option (nat * expr * expr * expr) :=
  match ix with
  | [] => None
  | IExp _ :: r => last_range_pos (S q) r
  | IRange lo hi st :: r => if has_range r then last_range_pos (S q) r else Some (q, lo, hi, st)
  end.

(* replace the LAST range of accessor b *)
Fixpoint lower_last_ixs (r : ridx_t) (b : name) (q : nat) (ix : list index) : list index :=
  match ix with
  | [] => []
  | IExp e :: rest => IExp e :: lower_last_ixs r b (S q) rest
  | IRange lo hi st :: rest =>
      if has_range rest then IRange lo hi st :: lower_last_ixs r b (S q) rest
      else IExp (r b q lo st) :: rest
  end.

Fixpoint lower_last (r : ridx_t) (e : aexpr) : aexpr :=
  match e with
  | ALit z => ALit z
  | AVar x => AVar x
  | ASec a ix => ASec a (lower_last_ixs r a 0 ix)
  | AUn o e1 => AUn o (lower_last r e1)
  | ABin o l r' => ABin o (lower_last r l) (lower_last r r')
  | AIntr1 f e1 => AIntr1 f (lower_last r e1)
  | AIntr2 f l r' => AIntr2 f (lower_last r l) (lower_last r r')
  end.

Definition aa_slice (fx : fixes) (d : decls) (idx : name) (a : aassign) : option (expr * expr * expr * aassign) :=
  match last_range_pos 0 (aa_ix a) with
  | Some (p2, lo2, hi2, st2) =>
      let r := ridx_of fx d idx (aa_arr a) p2 lo2 st2 in
      Some (lo2, hi2, st2, mkAA (aa_arr a) (lower_last_ixs r (aa_arr a) 0 (aa_ix a)) (lower_last r (aa_rhs a)))
  | None => None
  end.

Definition aa2_accept (a : aassign) : bool :=
  Nat.eqb (n_ranges (aa_ix a)) 2 &&
  forallb (fun acc => Nat.eqb (n_ranges (snd acc)) 0 || Nat.eqb (n_ranges (snd acc)) 2) (accessors (aa_rhs a)).

(* idx = symbol of the outer loop (created first), idx1 = inner loop *)
Definition aa2_apply (fx : fixes) (d : decls) (idx idx1 : name) (a : aassign) : option (list stmt) :=
  if aa2_accept a then
    match aa_slice fx d idx a with
    | Some (lo2, hi2, st2, a') =>
        match aa_apply fx d idx1 a' with
        | Some prog => Some [SDo idx lo2 hi2 st2 prog]
        | None => None
        end
    | None => None
    end
  else None.

(* ================================================================== semantics *)
(* index values of element (k1, k2): the last range uses k2, an earlier one k1 *)
Fixpoint ixs_val2 (s : store) (k1 k2 : Z) (ix : list index) : list (option Z) :=
  match ix with
  | [] => []
  | IExp e :: rest => eval s e :: ixs_val2 s k1 k2 rest
  | IRange lo _ st :: rest =>
      (match eval s lo, eval s st with
       | Some l, Some t => Some (l + (if has_range rest then k1 else k2) * t)
       | _, _ => None end) :: ixs_val2 s k1 k2 rest
  end.

Fixpoint aeval2 (s : store) (k1 k2 : Z) (e : aexpr) : option Z :=
  match e with
  | ALit z => Some z
  | AVar x => Some (val s (x, []))
  | ASec a ix => match opt_all (ixs_val2 s k1 k2 ix) with Some vs => Some (val s (a, vs)) | None => None end
  | AUn o e1 => option_map (eval_un o) (aeval2 s k1 k2 e1)
  | ABin o l r => match aeval2 s k1 k2 l, aeval2 s k1 k2 r with Some a, Some b => eval_bin o a b | _, _ => None end
  | AIntr1 f e1 => match aeval2 s k1 k2 e1 with Some a => eval_intr s (intr_of f) [] [a] | None => None end
  | AIntr2 f l r => match aeval2 s k1 k2 l, aeval2 s k1 k2 r with
                    | Some a, Some b => eval_intr s (intr_of f) [] [a; b] | _, _ => None end
  end.

Definition aa_elem2 (s : store) (a : aassign) (k2 k1 : Z) : option (loc * Z) :=
  match opt_all (ixs_val2 s k1 k2 (aa_ix a)), aeval2 s k1 k2 (aa_rhs a) with
  | Some vs, Some v => Some ((aa_arr a, vs), v)
  | _, _ => None
  end.

(* one column (fixed k2) of elements *)
Definition aa_block (s : store) (a : aassign) (n1 : nat) (k2 : Z) : option (list (loc * Z)) :=
  opt_all (map (aa_elem2 s a k2) (zseq 0 n1)).

(* ALL elements are evaluated in s, then stored *)
Definition aa2_sem (a : aassign) (s : store) : option store :=
  match range_pos 0 (aa_ix a), last_range_pos 0 (aa_ix a) with
  | Some (_, lo1, hi1, st1), Some (_, lo2, hi2, st2) =>
      match eval s lo1, eval s hi1, eval s st1, eval s lo2, eval s hi2, eval s st2 with
      | Some l1, Some h1, Some t1, Some l2, Some h2, Some t2 =>
          if (t1 =? 0) || (t2 =? 0) then None
          else match opt_all (map (aa_block s a (trip_count l1 h1 t1)) (zseq 0 (trip_count l2 h2 t2))) with
               | Some blocks => Some (store_all s (concat blocks))
               | None => None
               end
      | _, _, _, _, _, _ => None
      end
  | _, _ => None
  end.

(* ================================================================== the sufficient condition *)
Fixpoint last_rng_safe (fx : fixes) (d : decls) (A : name) (p : nat) (lo st : expr) (b : name) (q : nat)
                       (ix : list index) : bool :=
  match ix with
  | [] => true
  | IExp _ :: r => last_rng_safe fx d A p lo st b (S q) r
  | IRange lo' _ st' :: r =>
      if has_range r then last_rng_safe fx d A p lo st b (S q) r else rng_safe fx d A p lo st b q lo' st'
  end.

Definition acc2_safe (fx : fixes) (d : decls) (idx W : name) (wix : list index) (p : nat) (lo st : expr)
                     (b : name) (ix : list index) : bool :=
  negb (Nat.eqb idx b) && forallb (ix_fresh idx W) ix &&
  (if Nat.eqb W b then list_beq index_eqb ix wix else true) &&
  last_rng_safe fx d W p lo st b 0 ix.

Definition aa2_safe (fx : fixes) (d : decls) (idx idx1 : name) (a : aassign) : bool :=
  aa2_accept a &&
  match last_range_pos 0 (aa_ix a), aa_slice fx d idx a with
  | Some (p2, lo2, hi2, st2), Some (_, _, _, a') =>
      let chk := acc2_safe fx d idx (aa_arr a) (aa_ix a) p2 lo2 st2 in
      chk (aa_arr a) (aa_ix a) && aexpr_safe chk idx (aa_arr a) (aa_rhs a) && aa_safe fx d idx1 a' &&
      (* the inner loop variable is fresh as well *)
      negb (Nat.eqb idx1 idx) && negb (Nat.eqb idx1 (aa_arr a)) &&
      negb (existsb (imentions idx1) (aa_ix a)) && negb (amentions idx1 (aa_rhs a))
  | _, _ => false
  end.
