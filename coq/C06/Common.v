(* C06 — lemmas shared by the proofs: name-based expression frame, a loop-invariant rule for
   Fort.Sem.do_loop, facts about opt_all / store_all / zseq, stores equal up to fresh names. *)
From Coq Require Import List ZArith Bool Lia.
Import ListNotations.
From PV Require Import Fort.Syntax Fort.Sem Fort.Facts Base.Harness C06.Syntax C06.Model.
Open Scope Z_scope.

(* ------------------------------------------------------------------ stores equal except on names *)
Definition agree_except (T : list name) (s1 s2 : store) : Prop :=
  bnd s1 = bnd s2 /\ forall l, ~ In (fst l) T -> val s1 l = val s2 l.

Lemma agree_refl T s : agree_except T s s.
Proof. split; auto. Qed.

Lemma agree_trans T s1 s2 s3 : agree_except T s1 s2 -> agree_except T s2 s3 -> agree_except T s1 s3.
Proof. intros [B1 V1] [B2 V2]. split; [congruence|]. intros l H. rewrite V1, V2; auto. Qed.

Lemma agree_sym T s1 s2 : agree_except T s1 s2 -> agree_except T s2 s1.
Proof. intros [B V]. split; [auto|]. intros l H. symmetry. auto. Qed.

Lemma agree_upd_fresh T s x v : In x T -> agree_except T (upd s (x, []) v) s.
Proof.
  intro H. split; [reflexivity|]. intros l Hl. apply val_upd_other. intro E. subst l. apply Hl. exact H.
Qed.

Lemma agree_upd_both T s1 s2 l v : agree_except T s1 s2 -> agree_except T (upd s1 l v) (upd s2 l v).
Proof.
  intros [B V]. split; [exact B|]. intros l' H. rewrite !val_upd. destruct (loc_eq_dec l' l); auto.
Qed.

Lemma agree_weaken T T' s1 s2 : incl T T' -> agree_except T s1 s2 -> agree_except T' s1 s2.
Proof. intros I [B V]. split; [exact B|]. intros l H. apply V. intro X. apply H, I, X. Qed.

(* ------------------------------------------------------------------ reads only mention names of e *)
Lemma ereads_mentions s e : forall l, In l (ereads s e) -> mentions (fst l) e = true.
Proof.
  induction e using expr_ind'; intros l Hl; cbn [ereads mentions] in *.
  - destruct Hl.
  - destruct Hl as [<-|[]]. apply Nat.eqb_refl.
  - apply in_app_or in Hl as [Hl|Hl].
    + apply orb_true_iff. right. apply existsb_exists. apply in_flat_map in Hl as [x [Hx Hl]].
      exists x. split; [exact Hx|]. rewrite Forall_forall in H. apply H; assumption.
    + destruct (opt_all (map (eval s) ix)); [|destruct Hl]. destruct Hl as [<-|[]].
      cbn [fst]. rewrite Nat.eqb_refl. reflexivity.
  - apply IHe, Hl.
  - apply in_app_or in Hl as [Hl|Hl]; apply orb_true_iff; [left; apply IHe1 | right; apply IHe2]; exact Hl.
  - assert (Hin : exists x, In x args /\ In l (ereads s x)).
    { destruct (is_inquiry f).
      - destruct args as [|a0 r]; [destruct Hl|]. apply in_flat_map in Hl as [x [Hx Hl]].
        exists x. split; [right; exact Hx | exact Hl].
      - apply in_flat_map in Hl. exact Hl. }
    destruct Hin as [x [Hx Hl']]. apply existsb_exists. exists x. split; [exact Hx|].
    rewrite Forall_forall in H. apply H; assumption.
Qed.

Lemma eval_names s1 s2 e :
  bnd s2 = bnd s1 -> (forall l, mentions (fst l) e = true -> val s2 l = val s1 l) -> eval s2 e = eval s1 e.
Proof.
  intros Hb H. apply eval_frame; [exact Hb|]. intros l Hl. apply H. eapply ereads_mentions, Hl.
Qed.

Lemma evals_names s1 s2 es :
  bnd s2 = bnd s1 -> (forall e l, In e es -> mentions (fst l) e = true -> val s2 l = val s1 l) ->
  map (eval s2) es = map (eval s1) es.
Proof.
  intros Hb H. apply map_ext_in. intros e He. apply eval_names; [exact Hb|]. intros l Hl. eapply H; eauto.
Qed.

(* expressions not mentioning the names in T evaluate equally in stores that agree off T *)
Lemma eval_agree T s1 s2 e :
  agree_except T s2 s1 -> (forall x, In x T -> mentions x e = false) -> eval s2 e = eval s1 e.
Proof.
  intros [B V] H. apply eval_names; [exact B|]. intros l Hl. apply V. intro X. apply H in X. congruence.
Qed.

Lemma evals_agree T s1 s2 es :
  agree_except T s2 s1 -> (forall x e, In x T -> In e es -> mentions x e = false) ->
  map (eval s2) es = map (eval s1) es.
Proof. intros A H. apply map_ext_in. intros e He. eapply eval_agree; eauto. Qed.

(* ------------------------------------------------------------------ opt_all *)
Lemma opt_all_app_some {A} (l1 l2 : list (option A)) r1 r2 :
  opt_all l1 = Some r1 -> opt_all l2 = Some r2 -> opt_all (l1 ++ l2) = Some (r1 ++ r2).
Proof.
  revert r1. induction l1 as [|[x|] l1 IH]; intros r1 H1 H2; cbn [opt_all app] in *.
  - inversion H1. exact H2.
  - destruct (opt_all l1) as [xs|]; [|discriminate]. inversion H1; subst.
    rewrite (IH xs eq_refl H2). reflexivity.
  - discriminate.
Qed.

Lemma opt_all_in {A B} (f : A -> option B) l r x :
  opt_all (map f l) = Some r -> In x l -> exists y, f x = Some y /\ In y r.
Proof.
  revert r. induction l as [|a l IH]; intros r H Hx; [destruct Hx|]. cbn [map opt_all] in H.
  destruct (f a) as [y|] eqn:Fa; [|discriminate].
  destruct (opt_all (map f l)) as [ys|] eqn:E; [|discriminate]. inversion H; subst.
  destruct Hx as [<-|Hx]; [exists y; split; [exact Fa | left; reflexivity]|].
  destruct (IH ys eq_refl Hx) as [y' [F I]]. exists y'. split; [exact F | right; exact I].
Qed.

Lemma opt_all_in_result {A B} (f : A -> option B) l r y :
  opt_all (map f l) = Some r -> In y r -> exists x, In x l /\ f x = Some y.
Proof.
  revert r. induction l as [|a l IH]; intros r H Hy; cbn [map opt_all] in H.
  - inversion H; subst. destruct Hy.
  - destruct (f a) as [b|] eqn:Fa; [|discriminate].
    destruct (opt_all (map f l)) as [ys|] eqn:E; [|discriminate]. inversion H; subst.
    destruct Hy as [<-|Hy]; [exists a; split; [left; reflexivity | exact Fa]|].
    destruct (IH ys eq_refl Hy) as [x [I F]]. exists x. split; [right; exact I | exact F].
Qed.

Lemma opt_all_prefix {A B} (f : A -> option B) l1 l2 r :
  opt_all (map f (l1 ++ l2)) = Some r -> exists r1, opt_all (map f l1) = Some r1.
Proof.
  revert r. induction l1 as [|a l1 IH]; intros r H; [exists []; reflexivity|].
  cbn [app map opt_all] in *. destruct (f a); [|discriminate].
  destruct (opt_all (map f (l1 ++ l2))) as [ys|] eqn:E; [|discriminate].
  destruct (IH ys eq_refl) as [r1 E1]. rewrite E1. eauto.
Qed.

(* ------------------------------------------------------------------ zseq *)
Lemma zseq_snoc n : zseq 0 (S n) = zseq 0 n ++ [Z.of_nat n].
Proof. rewrite <- Nat.add_1_r, zseq_app. cbn [zseq]. rewrite Z.add_0_l. reflexivity. Qed.

Lemma zseq_split_at n j : (j < n)%nat -> exists r, zseq 0 n = zseq 0 (S j) ++ r.
Proof.
  intro H. replace n with (S j + (n - S j))%nat by lia. rewrite zseq_app. eauto.
Qed.

(* ------------------------------------------------------------------ store_all *)
Lemma store_all_app s l1 l2 : store_all s (l1 ++ l2) = store_all (store_all s l1) l2.
Proof. unfold store_all. apply fold_left_app. Qed.

Lemma bnd_store_all lvs : forall s, bnd (store_all s lvs) = bnd s.
Proof.
  induction lvs as [|lv lvs IH]; intro s; [reflexivity|]. unfold store_all in *. cbn [fold_left].
  rewrite IH. reflexivity.
Qed.

Lemma val_store_all_notin lvs : forall s loc,
  (forall lv, In lv lvs -> fst lv <> loc) -> val (store_all s lvs) loc = val s loc.
Proof.
  induction lvs as [|lv lvs IH]; intros s loc H; [reflexivity|]. cbn [store_all fold_left].
  unfold store_all in IH. rewrite IH; [|intros lv' I; apply H; right; exact I].
  apply val_upd_other. intro E. apply (H lv); [left; reflexivity | congruence].
Qed.

(* ------------------------------------------------------------------ loop invariant rule *)
Lemma do_loop_inv (run : runner) x l t (P : nat -> store -> Prop) :
  forall m j s,
  (forall i s0, (j <= i < j + m)%nat -> P i s0 ->
     exists s2 tr, run (upd s0 (x, []) (l + Z.of_nat i * t)) = Ok s2 tr CNormal /\ P (S i) s2) ->
  P j s ->
  exists s2 tr, P (j + m)%nat s2 /\
    do_loop run x l t m (Z.of_nat j) s = Ok (upd s2 (x, []) (l + Z.of_nat (j + m) * t)) tr CNormal.
Proof.
  induction m as [|m IH]; intros j s Hstep HP.
  - exists s, [Wr (x, [])]. rewrite Nat.add_0_r. split; [exact HP|]. apply do_loop_0.
  - destruct (Hstep j s) as [s2 [tr [Hrun HP2]]]; [lia | exact HP|].
    destruct (IH (S j) s2) as [s3 [tr3 [HP3 Hloop]]]; [|exact HP2|].
    { intros i s0 Hi. apply Hstep. lia. }
    exists s3. eexists. split; [replace (j + S m)%nat with (S j + m)%nat by lia; exact HP3|].
    rewrite (do_loop_S_normal run x l t m (Z.of_nat j) s s2 tr CNormal Hrun (or_introl eq_refl)).
    replace (Z.of_nat j + 1) with (Z.of_nat (S j)) by lia. rewrite Hloop. cbn [prepend].
    replace (j + S m)%nat with (S j + m)%nat by lia. reflexivity.
Qed.

(* a DO statement with literal-free evaluation of its bounds, by the invariant rule *)
Lemma exec_do_inv_rule f x lo hi st body s l h t (P : nat -> store -> Prop) :
  eval s lo = Some l -> eval s hi = Some h -> eval s st = Some t -> t <> 0 ->
  (forall i s0, (i < trip_count l h t)%nat -> P i s0 ->
     exists s2 tr, exec (S f) body (upd s0 (x, []) (l + Z.of_nat i * t)) = Ok s2 tr CNormal /\ P (S i) s2) ->
  P 0%nat s ->
  exists s2 tr, P (trip_count l h t) s2 /\
    exec (S (S f)) [SDo x lo hi st body] s =
    Ok (upd s2 (x, []) (l + Z.of_nat (trip_count l h t) * t)) tr CNormal.
Proof.
  intros E1 E2 E3 N Hstep HP.
  destruct (do_loop_inv (exec (S f) body) x l t P (trip_count l h t) 0 s) as [s2 [tr [HP2 Hl]]].
  - intros i s0 Hi. apply Hstep. lia.
  - exact HP.
  - exists s2. eexists. split; [exact HP2|].
    rewrite (exec_do f x lo hi st body s l h t E1 E2 E3 N). cbn [Z.of_nat] in Hl. rewrite Hl.
    cbn [prepend Nat.add]. reflexivity.
Qed.

(* sequencing: first block ends normally, then the rest *)
Lemma exec_seq f ss1 ss2 s s1 tr1 :
  exec f ss1 s = Ok s1 tr1 CNormal ->
  forall f2 r, exec f2 ss2 s1 = r -> r <> OutOfFuel ->
  exec (f + f2) (ss1 ++ ss2) s = prepend tr1 r.
Proof.
  intros H1 f2 r H2 N. eapply exec_app; eauto.
Qed.

(* ------------------------------------------------------------------ a small Hoare layer over exec *)
(* with at least N units of fuel the block ends normally in a store satisfying Q *)
Definition hoare (N : nat) (code : list stmt) (s : store) (Q : store -> Prop) : Prop :=
  forall f, exists s2 tr, exec (N + f) code s = Ok s2 tr CNormal /\ Q s2.

Lemma hoare_mono N M code s Q : (N <= M)%nat -> hoare N code s Q -> hoare M code s Q.
Proof.
  intros L H f. destruct (H (M - N + f)%nat) as [s2 [tr [E HQ]]].
  replace (N + (M - N + f))%nat with (M + f)%nat in E by lia. eauto.
Qed.

Lemma hoare_conseq N code s (Q Q' : store -> Prop) :
  (forall s2, Q s2 -> Q' s2) -> hoare N code s Q -> hoare N code s Q'.
Proof. intros I H f. destruct (H f) as [s2 [tr [E HQ]]]. eauto. Qed.

Lemma hoare_nil s (Q : store -> Prop) : Q s -> hoare 1 [] s Q.
Proof. intros HQ f. exists s, []. split; [reflexivity | exact HQ]. Qed.

Lemma hoare_assign x ix e s vs v (Q : store -> Prop) :
  opt_all (map (eval s) ix) = Some vs -> eval s e = Some v -> Q (upd s (x, vs) v) ->
  hoare 2 [SAssign x ix e] s Q.
Proof.
  intros E1 E2 HQ f. eexists. eexists. split; [|exact HQ].
  change (2 + f)%nat with (S (S f)). apply exec_assign; assumption.
Qed.

Lemma hoare_app N1 N2 c1 c2 s (Q1 Q2 : store -> Prop) :
  hoare N1 c1 s Q1 -> (forall s1, Q1 s1 -> hoare N2 c2 s1 Q2) -> hoare (N1 + N2) (c1 ++ c2) s Q2.
Proof.
  intros H1 H2 f. destruct (H1 0%nat) as [s1 [tr1 [E1 HQ1]]].
  destruct (H2 s1 HQ1 f) as [s2 [tr2 [E2 HQ2]]].
  exists s2, (tr1 ++ tr2). split; [|exact HQ2].
  replace (N1 + N2 + f)%nat with ((N1 + 0) + (N2 + f))%nat by lia.
  apply (exec_app_ok _ _ _ _ _ _ _ _ _ _ E1 E2).
Qed.

Lemma hoare_cons N1 N2 st rest s (Q1 Q2 : store -> Prop) :
  hoare N1 [st] s Q1 -> (forall s1, Q1 s1 -> hoare N2 rest s1 Q2) -> hoare (N1 + N2) (st :: rest) s Q2.
Proof. intros H1 H2. change (st :: rest) with ([st] ++ rest). eapply hoare_app; eauto. Qed.

Lemma hoare_if N c th el s v (Q : store -> Prop) :
  eval s c = Some v -> hoare (S N) (if v =? 0 then el else th) s Q -> hoare (S (S N)) [SIf c th el] s Q.
Proof.
  intros E H f. destruct (H f) as [s2 [tr [Ex HQ]]].
  eexists. eexists. split; [|exact HQ].
  change (S (S N) + f)%nat with (S (S (N + f))). rewrite (exec_if (N + f) c th el s v E).
  change (S (N + f)) with (S N + f)%nat. rewrite Ex. reflexivity.
Qed.

Lemma hoare_do N x lo hi st body s l h t (P : nat -> store -> Prop) :
  eval s lo = Some l -> eval s hi = Some h -> eval s st = Some t -> t <> 0 ->
  (forall i s0, (i < trip_count l h t)%nat -> P i s0 ->
     hoare (S N) body (upd s0 (x, []) (l + Z.of_nat i * t)) (P (S i))) ->
  P 0%nat s ->
  hoare (S (S N)) [SDo x lo hi st body] s
        (fun s' => exists s2, P (trip_count l h t) s2 /\ s' = upd s2 (x, []) (l + Z.of_nat (trip_count l h t) * t)).
Proof.
  intros E1 E2 E3 T Hstep HP f.
  destruct (exec_do_inv_rule (N + f) x lo hi st body s l h t P E1 E2 E3 T) as [s2 [tr [HP2 Ex]]].
  - intros i s0 Hi HPi. destruct (Hstep i s0 Hi HPi f) as [s3 [tr3 [E HQ]]]. eauto.
  - exact HP.
  - eexists. eexists. split; [exact Ex|]. eauto.
Qed.
