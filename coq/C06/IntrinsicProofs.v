(* C06 — ABS / SIGN / MIN / MAX lowering: the inline code computes the intrinsic's value for all
   argument values (integer-valued reals: no signed zero / NaN), and replacing the call inside the
   assignment by the result temporary preserves the statement, provided the new symbols are fresh. *)
From Coq Require Import List ZArith Bool Lia.
Import ListNotations.
From PV Require Import Fort.Syntax Fort.Sem Fort.Facts Base.Harness C06.Syntax C06.Model C06.Common.
Open Scope Z_scope.

(* ================================================================== helpers *)
Lemma existsb_false {A} (f : A -> bool) l : existsb f l = false -> forall z, In z l -> f z = false.
Proof.
  induction l as [|a l IH]; intros H z Hz; [destruct Hz|]. cbn [existsb] in H.
  apply orb_false_iff in H as [H1 H2]. destruct Hz as [<-|Hz]; [exact H1 | apply IH; assumption].
Qed.

Lemma map_set_nth {A B} (f f' : A -> B) : forall l i x y,
  nth_error l i = Some x -> f' y = f x -> (forall z, In z l -> f' z = f z) ->
  map f' (set_nth l i y) = map f l.
Proof.
  induction l as [|a l IH]; intros i x y N Hy Hz; [destruct i; discriminate|].
  destruct i as [|i]; cbn [nth_error set_nth map] in *.
  - inversion N; subst. rewrite Hy. f_equal. apply map_ext_in. intros z Iz. apply Hz. right. exact Iz.
  - rewrite (Hz a (or_introl eq_refl)). f_equal. eapply IH; eauto. intros z Iz. apply Hz. right. exact Iz.
Qed.

Lemma opt_all_nth {A} : forall (l : list (option A)) r i x,
  opt_all l = Some r -> nth_error l i = Some x -> exists y, x = Some y.
Proof.
  induction l as [|a l IH]; intros r i x H N; [destruct i; discriminate|]. cbn [opt_all] in H.
  destruct a as [a|]; [|discriminate]. destruct (opt_all l) as [ys|] eqn:E; [|discriminate].
  destruct i as [|i]; cbn [nth_error] in N; [inversion N; eauto | eapply IH; eauto].
Qed.

Lemma noninquiry_intr s s' f args args' vs :
  is_inquiry f = false -> eval_intr s' f args' vs = eval_intr s f args vs.
Proof. destruct f; try discriminate; reflexivity. Qed.

Lemma inquiry_intr_head s s' f a0 r r' vs :
  bnd s' = bnd s -> eval_intr s' f (a0 :: r') vs = eval_intr s f (a0 :: r) vs.
Proof. intro B. unfold eval_intr, dim_of. rewrite B. destruct f; reflexivity. Qed.

(* a sub-expression on a path is evaluated whenever the whole expression is *)
Lemma get_at_eval_some s : forall p e sub v,
  get_at p e = Some sub -> eval s e = Some v -> exists w, eval s sub = Some w.
Proof.
  induction p as [|i p IH]; intros e sub v G E; cbn [get_at] in G.
  - inversion G; subst. eauto.
  - destruct e as [z|y|a ix|o e1|o l r|f args]; try discriminate; cbn [eval] in E.
    + destruct (nth_error ix i) as [x|] eqn:N; [|discriminate].
      destruct (opt_all (map (eval s) ix)) as [vs|] eqn:O; [|discriminate].
      destruct (opt_all_nth _ _ i (eval s x) O) as [y Hy]; [rewrite nth_error_map, N; reflexivity|].
      eapply IH; eauto.
    + destruct i; [|discriminate]. destruct (eval s e1) as [a|] eqn:E1; [|discriminate]. eapply IH; eauto.
    + destruct (eval s l) as [a|] eqn:El; [|discriminate]. destruct (eval s r) as [b|] eqn:Er; [|discriminate].
      destruct i as [|[|i]]; [eapply IH; eauto | eapply IH; eauto | discriminate].
    + destruct (is_inquiry f && Nat.eqb i 0) eqn:Q; [discriminate|].
      destruct (nth_error args i) as [x|] eqn:N; [|discriminate].
      destruct (is_inquiry f) eqn:Qf.
      * destruct i as [|i]; [discriminate|]. destruct args as [|a0 r]; [discriminate|]. cbn [nth_error] in N.
        destruct (opt_all (map (eval s) r)) as [vs|] eqn:O; [|discriminate].
        destruct (opt_all_nth _ _ i (eval s x) O) as [y Hy]; [rewrite nth_error_map, N; reflexivity|].
        eapply IH; eauto.
      * destruct (opt_all (map (eval s) args)) as [vs|] eqn:O; [|discriminate].
        destruct (opt_all_nth _ _ i (eval s x) O) as [y Hy]; [rewrite nth_error_map, N; reflexivity|].
        eapply IH; eauto.
Qed.

Lemma get_at_mentions x : forall p e sub, get_at p e = Some sub -> mentions x e = false -> mentions x sub = false.
Proof.
  induction p as [|i p IH]; intros e sub G M; cbn [get_at] in G.
  - inversion G; subst. exact M.
  - destruct e as [z|y|a ix|o e1|o l r|f args]; try discriminate; cbn [mentions] in M.
    + destruct (nth_error ix i) as [y|] eqn:N; [|discriminate]. apply orb_false_iff in M as [_ M].
      eapply IH; [exact G|]. eapply existsb_false; [exact M|]. eapply nth_error_In, N.
    + destruct i; [|discriminate]. eapply IH; eauto.
    + apply orb_false_iff in M as [M1 M2]. destruct i as [|[|i]]; [eapply IH; eauto | eapply IH; eauto | discriminate].
    + destruct (is_inquiry f && Nat.eqb i 0); [discriminate|].
      destruct (nth_error args i) as [y|] eqn:N; [|discriminate].
      eapply IH; [exact G|]. eapply existsb_false; [exact M|]. eapply nth_error_In, N.
Qed.

(* replacing the sub-expression at p by a variable holding its value *)
Lemma put_at_eval T s s' res w :
  agree_except T s' s -> val s' (res, []) = w ->
  forall p e sub, get_at p e = Some sub -> eval s sub = Some w ->
  (forall x, In x T -> mentions x e = false) ->
  eval s' (put_at p e (EVar res)) = eval s e.
Proof.
  intros Ag Hres. induction p as [|i p IH]; intros e sub G Es Fr; cbn [get_at put_at] in *.
  - inversion G as [G']. subst sub. cbn [eval]. rewrite Hres. symmetry. exact Es.
  - destruct e as [z|y|a ix|o e1|o l r|f args]; try discriminate.
    + destruct (nth_error ix i) as [x|] eqn:N; [|discriminate]. cbn [eval].
      assert (Hm : map (eval s') (set_nth ix i (put_at p x (EVar res))) = map (eval s) ix).
      { eapply map_set_nth; [exact N | |].
        - eapply IH; [exact G | exact Es|]. intros y Hy. specialize (Fr y Hy). cbn [mentions] in Fr.
          apply orb_false_iff in Fr as [_ Fr]. eapply existsb_false; [exact Fr|]. eapply nth_error_In, N.
        - intros z Hz. eapply eval_agree; [exact Ag|]. intros y Hy. specialize (Fr y Hy). cbn [mentions] in Fr.
          apply orb_false_iff in Fr as [_ Fr]. eapply existsb_false; eauto. }
      rewrite Hm. destruct (opt_all (map (eval s) ix)) as [vs|]; [|reflexivity]. f_equal.
      destruct Ag as [_ V]. apply V. cbn [fst]. intro Hy. specialize (Fr a Hy). cbn [mentions] in Fr.
      rewrite Nat.eqb_refl in Fr. discriminate.
    + destruct i; [|discriminate]. cbn [eval]. rewrite (IH e1 sub G Es); [reflexivity|].
      intros y Hy. exact (Fr y Hy).
    + assert (Fl : forall y, In y T -> mentions y l = false)
        by (intros y Hy; specialize (Fr y Hy); cbn [mentions] in Fr; apply orb_false_iff in Fr; tauto).
      assert (Fr' : forall y, In y T -> mentions y r = false)
        by (intros y Hy; specialize (Fr y Hy); cbn [mentions] in Fr; apply orb_false_iff in Fr; tauto).
      destruct i as [|[|i]]; [| |discriminate]; cbn [eval].
      * rewrite (IH l sub G Es Fl), (eval_agree T s s' r Ag Fr'). reflexivity.
      * rewrite (IH r sub G Es Fr'), (eval_agree T s s' l Ag Fl). reflexivity.
    + destruct (is_inquiry f && Nat.eqb i 0) eqn:Q; [discriminate|].
      destruct (nth_error args i) as [x|] eqn:N; [|discriminate].
      assert (Fa : forall z y, In z args -> In y T -> mentions y z = false).
      { intros z y Hz Hy. specialize (Fr y Hy). cbn [mentions] in Fr. eapply existsb_false; eauto. }
      assert (Hx : eval s' (put_at p x (EVar res)) = eval s x).
      { eapply IH; [exact G | exact Es|]. intros y Hy. eapply Fa; [eapply nth_error_In, N | exact Hy]. }
      cbn [eval]. destruct (is_inquiry f) eqn:Qf.
      * destruct i as [|i]; [discriminate|]. destruct args as [|a0 r]; [discriminate|].
        cbn [nth_error] in N. cbn [set_nth].
        assert (Hm : map (eval s') (set_nth r i (put_at p x (EVar res))) = map (eval s) r).
        { eapply map_set_nth; [exact N | exact Hx|]. intros z Hz. eapply eval_agree; [exact Ag|].
          intros y Hy. eapply Fa; [right; exact Hz | exact Hy]. }
        rewrite Hm. destruct (opt_all (map (eval s) r)); [|reflexivity].
        apply inquiry_intr_head. destruct Ag as [B _]. exact B.
      * assert (Hm : map (eval s') (set_nth args i (put_at p x (EVar res))) = map (eval s) args).
        { eapply map_set_nth; [exact N | exact Hx|]. intros z Hz. eapply eval_agree; [exact Ag|].
          intros y Hy. eapply Fa; eauto. }
        rewrite Hm. destruct (opt_all (map (eval s) args)); [|reflexivity].
        apply noninquiry_intr. exact Qf.
Qed.

(* ================================================================== ABS *)
Lemma abs_hoare res tmp X s v :
  res <> tmp -> eval s X = Some v ->
  hoare 5 (abs_code res tmp X) s (fun s' => val s' (res, []) = Z.abs v /\ agree_except [res; tmp] s' s).
Proof.
  intros D E. unfold abs_code. apply (hoare_cons 2 3 _ _ _ (fun s1 => s1 = upd s (tmp, []) v)).
  - eapply hoare_assign; [reflexivity | exact E | reflexivity].
  - intros s1 ->. set (s1 := upd s (tmp, []) v).
    assert (Vt : val s1 (tmp, []) = v) by apply val_upd_same.
    eapply hoare_if; [cbn [eval eval_bin]; rewrite Vt; reflexivity|].
    assert (A1 : agree_except [res; tmp] s1 s) by (apply agree_upd_fresh; right; left; reflexivity).
    destruct (v >? 0) eqn:G; cbn [b2z Z.eqb].
    + eapply hoare_assign; [reflexivity | cbn [eval]; rewrite Vt; reflexivity|]. split.
      * rewrite val_upd_same. apply Z.gtb_lt in G. lia.
      * eapply agree_trans; [apply agree_upd_fresh; left; reflexivity | exact A1].
    + eapply hoare_assign; [reflexivity | cbn [eval eval_bin]; rewrite Vt; reflexivity|]. split.
      * rewrite val_upd_same. assert (v <= 0) by (destruct (Z.gtb_spec v 0); [discriminate | lia]). lia.
      * eapply agree_trans; [apply agree_upd_fresh; left; reflexivity | exact A1].
Qed.

(* ABS(x) for all x *)
Theorem abs_ok_ res tmp X s v :
  res <> tmp -> eval s X = Some v ->
  hoare 5 (abs_code res tmp X) s
        (fun s' => Some (val s' (res, [])) = eval s (EIntr IAbs [X]) /\ agree_except [res; tmp] s' s).
Proof.
  intros D E. eapply hoare_conseq; [|apply (abs_hoare res tmp X s v D E)].
  intros s2 [H1 H2]. split; [|exact H2]. cbn [eval is_inquiry map opt_all]. rewrite E. cbn [eval_intr]. congruence.
Qed.

(* ================================================================== SIGN *)
Theorem sign_ok_ res tmp res_abs tmp_abs A B s a b :
  NoDup [res; tmp; res_abs; tmp_abs] ->
  eval s A = Some a -> eval s B = Some b ->
  (forall x, In x [res; tmp; res_abs; tmp_abs] -> mentions x B = false) ->
  hoare 12 (sign_code res tmp res_abs tmp_abs A B) s
        (fun s' => Some (val s' (res, [])) = eval s (EIntr ISign [A; B]) /\
                   agree_except [res; tmp; res_abs; tmp_abs] s' s).
Proof.
  intros ND Ea Eb Fr. set (T := [res; tmp; res_abs; tmp_abs]).
  assert (Dn : res <> tmp /\ res <> res_abs /\ res <> tmp_abs /\ tmp <> res_abs /\ tmp <> tmp_abs /\ res_abs <> tmp_abs).
  { inversion ND as [|? ? N1 ND1]; subst. inversion ND1 as [|? ? N2 ND2]; subst. inversion ND2 as [|? ? N3 ND3]; subst.
    cbn [In] in *. repeat split; intro; subst; tauto. }
  destruct Dn as [D1 [D2 [D3 [D4 [D5 D6]]]]].
  assert (Val : eval s (EIntr ISign [A; B]) = Some (if b >=? 0 then Z.abs a else - Z.abs a)).
  { cbn [eval is_inquiry map opt_all]. rewrite Ea, Eb. reflexivity. }
  rewrite Val. unfold sign_code.
  apply (hoare_app 5 7 _ _ _ (fun s1 => val s1 (res_abs, []) = Z.abs a /\ agree_except T s1 s)).
  - eapply hoare_conseq; [|apply (abs_hoare res_abs tmp_abs A s a D6 Ea)].
    intros s2 [H1 H2]. split; [exact H1|]. eapply agree_weaken; [|exact H2].
    intros y [<-|[<-|[]]]; unfold T; cbn [In]; tauto.
  - intros s1 [V1 A1].
    apply (hoare_cons 2 5 _ _ _ (fun s2 => s2 = upd s1 (res, []) (Z.abs a))).
    { eapply hoare_assign; [reflexivity | cbn [eval]; rewrite V1; reflexivity | reflexivity]. }
    intros s2 ->. set (s2 := upd s1 (res, []) (Z.abs a)).
    assert (A2 : agree_except T s2 s)
      by (eapply agree_trans; [apply agree_upd_fresh; unfold T; cbn [In]; tauto | exact A1]).
    apply (hoare_cons 2 3 _ _ _ (fun s3 => s3 = upd s2 (tmp, []) b)).
    { eapply hoare_assign; [reflexivity | | reflexivity]. rewrite (eval_agree T s s2 B A2 Fr). exact Eb. }
    intros s3 ->. set (s3 := upd s2 (tmp, []) b).
    assert (A3 : agree_except T s3 s)
      by (eapply agree_trans; [apply agree_upd_fresh; unfold T; cbn [In]; tauto | exact A2]).
    assert (Vt : val s3 (tmp, []) = b) by apply val_upd_same.
    assert (Vr : val s3 (res, []) = Z.abs a).
    { unfold s3. rewrite val_upd_other by (intro X; inversion X; congruence). apply val_upd_same. }
    eapply hoare_if; [cbn [eval eval_bin]; rewrite Vt; reflexivity|].
    destruct (b <? 0) eqn:L; cbn [b2z Z.eqb].
    + eapply hoare_assign; [reflexivity | cbn [eval eval_bin]; rewrite Vr; reflexivity|]. split.
      * rewrite val_upd_same. apply Z.ltb_lt in L. destruct (b >=? 0) eqn:G; [apply Z.geb_le in G; lia|]. f_equal. lia.
      * eapply agree_trans; [apply agree_upd_fresh; unfold T; cbn [In]; tauto | exact A3].
    + apply hoare_nil. split; [|exact A3]. rewrite Vr. apply Z.ltb_ge in L.
      destruct (b >=? 0) eqn:G; [reflexivity|]. destruct (Z.geb_spec b 0); [discriminate | lia].
Qed.

(* ================================================================== MIN / MAX *)
Definition mm_op (cmp : binop) : Z -> Z -> Z := match cmp with Lt => Z.min | _ => Z.max end.

Lemma mm_step_value cmp r b :
  (cmp = Lt \/ cmp = Gt) ->
  (if (match eval_bin cmp b r with Some c => c | None => 0 end) =? 0 then r else b) = mm_op cmp r b.
Proof.
  intros [->| ->]; cbn [eval_bin mm_op].
  - destruct (b <? r) eqn:L; cbn [b2z Z.eqb]; [apply Z.ltb_lt in L; lia | apply Z.ltb_ge in L; lia].
  - destruct (b >? r) eqn:L; cbn [b2z Z.eqb].
    + apply Z.gtb_lt in L. lia.
    + assert (b <= r) by (destruct (Z.gtb_spec b r); [discriminate | lia]). lia.
Qed.

Lemma minmax_step_hoare cmp res tmp B T s s1 r b :
  (cmp = Lt \/ cmp = Gt) -> res <> tmp -> In res T -> In tmp T ->
  agree_except T s1 s -> val s1 (res, []) = r -> eval s B = Some b ->
  (forall x, In x T -> mentions x B = false) ->
  hoare 5 (minmax_step cmp res tmp B) s1
        (fun s2 => val s2 (res, []) = mm_op cmp r b /\ agree_except T s2 s).
Proof.
  intros C D Ir It A1 Vr Eb Fr. unfold minmax_step.
  apply (hoare_cons 2 3 _ _ _ (fun s2 => s2 = upd s1 (tmp, []) b)).
  { eapply hoare_assign; [reflexivity | | reflexivity]. rewrite (eval_agree T s s1 B A1 Fr). exact Eb. }
  intros s2 ->. set (s2 := upd s1 (tmp, []) b).
  assert (A2 : agree_except T s2 s) by (eapply agree_trans; [apply agree_upd_fresh; exact It | exact A1]).
  assert (Vt : val s2 (tmp, []) = b) by apply val_upd_same.
  assert (Vr2 : val s2 (res, []) = r).
  { unfold s2. rewrite val_upd_other by (intro X; inversion X; congruence). exact Vr. }
  assert (Ec : exists c, eval s2 (EBin cmp (EVar tmp) (EVar res)) = Some c /\ eval_bin cmp b r = Some c).
  { cbn [eval]. rewrite Vt, Vr2. destruct C as [->| ->]; cbn [eval_bin]; eauto. }
  destruct Ec as [c [Ec1 Ec2]]. pose proof (mm_step_value cmp r b C) as MV. rewrite Ec2 in MV.
  eapply hoare_if; [exact Ec1|]. destruct (c =? 0).
  - apply hoare_nil. split; [rewrite Vr2; exact MV | exact A2].
  - eapply hoare_assign; [reflexivity | cbn [eval]; rewrite Vt; reflexivity|]. split.
    + rewrite val_upd_same. exact MV.
    + eapply agree_trans; [apply agree_upd_fresh; exact Ir | exact A2].
Qed.

Lemma minmax_steps_hoare cmp res tmp T s :
  (cmp = Lt \/ cmp = Gt) -> res <> tmp -> In res T -> In tmp T ->
  forall rest vs s1 r,
  agree_except T s1 s -> val s1 (res, []) = r -> opt_all (map (eval s) rest) = Some vs ->
  (forall x B, In x T -> In B rest -> mentions x B = false) ->
  hoare (1 + 5 * length rest) (flat_map (minmax_step cmp res tmp) rest) s1
        (fun s2 => val s2 (res, []) = fold_left (mm_op cmp) vs r /\ agree_except T s2 s).
Proof.
  intros C D Ir It. induction rest as [|B rest IH]; intros vs s1 r A1 Vr Ev Fr.
  - cbn [map opt_all] in Ev. inversion Ev as [Ev']. apply hoare_nil. split; [exact Vr | exact A1].
  - cbn [map opt_all] in Ev. destruct (eval s B) as [b|] eqn:Eb; [|discriminate].
    destruct (opt_all (map (eval s) rest)) as [vs'|] eqn:Er; [|discriminate]. inversion Ev; subst vs.
    cbn [flat_map fold_left]. eapply hoare_mono; [|eapply hoare_app].
    2:{ eapply (minmax_step_hoare cmp res tmp B T s s1 r b); eauto. intros x Hx. eapply Fr; [exact Hx | left; reflexivity]. }
    2:{ intros s2 [V2 A2]. cbn beta. eapply IH; [exact A2 | exact V2 | reflexivity|].
        intros x B' Hx HB. eapply Fr; [exact Hx | right; exact HB]. }
    cbn [length]. lia.
Qed.

Theorem minmax_ok_ cmp res tmp A rest s :
  (cmp = Lt \/ cmp = Gt) -> res <> tmp ->
  (exists v, eval s (EIntr (match cmp with Lt => IMin | _ => IMax end) (A :: rest)) = Some v) ->
  (forall x B, In x [res; tmp] -> In B rest -> mentions x B = false) ->
  hoare (3 + 5 * length rest) (minmax_code cmp res tmp (A :: rest)) s
        (fun s' => Some (val s' (res, [])) = eval s (EIntr (match cmp with Lt => IMin | _ => IMax end) (A :: rest)) /\
                   agree_except [res; tmp] s' s).
Proof.
  intros C D [v Ev] Fr.
  assert (Hargs : exists a vs, eval s A = Some a /\ opt_all (map (eval s) rest) = Some vs /\
                   eval s (EIntr (match cmp with Lt => IMin | _ => IMax end) (A :: rest)) = Some (fold_left (mm_op cmp) vs a)).
  { destruct C as [->| ->]; cbn [eval is_inquiry map opt_all] in *;
      destruct (eval s A) as [a|]; try discriminate;
      destruct (opt_all (map (eval s) rest)) as [vs|]; try discriminate; exists a, vs; repeat split. }
  destruct Hargs as [a [vs [Ea [Evs Val]]]]. rewrite Val. unfold minmax_code.
  eapply hoare_mono; [|eapply (hoare_cons 2 _ _ _ _ (fun s1 => s1 = upd s (res, []) a))].
  2:{ eapply hoare_assign; [reflexivity | exact Ea | reflexivity]. }
  2:{ intros s1 ->. eapply hoare_conseq; [|eapply (minmax_steps_hoare cmp res tmp [res; tmp] s C D)].
      - intros s2 [V A2]. split; [rewrite V; reflexivity | exact A2].
      - left; reflexivity.
      - right; left; reflexivity.
      - apply agree_upd_fresh. left; reflexivity.
      - apply val_upd_same.
      - exact Evs.
      - exact Fr. }
  lia.
Qed.

(* ================================================================== the rewritten assignment *)
Definition intr_names_ok (k : sintr) (names : list name) : Prop := NoDup names.

Lemma final_assign T s s' x ix e p sub res w vs v :
  agree_except T s' s -> val s' (res, []) = w -> ~ In x T ->
  get_at p e = Some sub -> eval s sub = Some w ->
  (forall y, In y T -> mentions y e = false) ->
  (forall y i, In y T -> In i ix -> mentions y i = false) ->
  opt_all (map (eval s) ix) = Some vs -> eval s e = Some v ->
  hoare 2 [SAssign x ix (put_at p e (EVar res))] s' (fun s2 => agree_except T s2 (upd s (x, vs) v)).
Proof.
  intros Ag Vr Nx G Es Fe Fi Evs Ev.
  eapply hoare_assign.
  - rewrite (evals_agree T s s' ix Ag Fi). exact Evs.
  - rewrite (put_at_eval T s s' res w Ag Vr p e sub G Es Fe). exact Ev.
  - apply agree_upd_both. exact Ag.
Qed.

(* full statement: for every store in which the original assignment executes, the generated code executes
   and ends in the same store up to the new symbols *)
Theorem intr_sound_ k names x ix e p code s vs v :
  intr_apply k names x ix e p = Some code ->
  NoDup names -> ~ In x names ->
  (forall y, In y names -> mentions y e = false) ->
  (forall y i, In y names -> In i ix -> mentions y i = false) ->
  opt_all (map (eval s) ix) = Some vs -> eval s e = Some v ->
  exists N, hoare N code s (fun s2 => agree_except names s2 (upd s (x, vs) v)).
Proof.
  intros Ap ND Nx Fe Fi Evs Ev. unfold intr_apply in Ap.
  destruct (get_at p e) as [sub|] eqn:G; [|discriminate].
  destruct (get_at_eval_some s p e sub v G Ev) as [w Ew].
  assert (Fsub : forall y, In y names -> mentions y sub = false)
    by (intros y Hy; eapply get_at_mentions; [exact G | apply Fe, Hy]).
  destruct sub as [z|y|a0 ix0|o e1|o l r|f args]; try discriminate.
  destruct f; try discriminate.
  - (* MIN *)
    destruct args as [|A rest]; [discriminate|]. destruct k; try discriminate.
    destruct names as [|res [|tmp [|? ?]]]; try discriminate. inversion Ap; subst code. clear Ap.
    assert (D : res <> tmp) by (inversion ND as [|? ? N1 _]; subst; cbn [In] in N1; intro; subst; tauto).
    eexists. eapply (hoare_app _ _ (minmax_code Lt res tmp (A :: rest)) [SAssign x ix (put_at p e (EVar res))]).
    + apply (minmax_ok_ Lt res tmp A rest s (or_introl eq_refl) D); [eauto|].
      intros y B Hy HB. specialize (Fsub y Hy). cbn [mentions existsb] in Fsub.
      apply orb_false_iff in Fsub as [_ Fsub]. eapply existsb_false; eauto.
    + intros s1 [V A1]. rewrite Ew in V. inversion V as [V'].
      eapply (final_assign [res; tmp] s s1 x ix e p _ res w vs v A1 V' Nx G Ew Fe Fi Evs Ev).
  - (* MAX *)
    destruct args as [|A rest]; [discriminate|]. destruct k; try discriminate.
    destruct names as [|res [|tmp [|? ?]]]; try discriminate. inversion Ap; subst code. clear Ap.
    assert (D : res <> tmp) by (inversion ND as [|? ? N1 _]; subst; cbn [In] in N1; intro; subst; tauto).
    eexists. eapply (hoare_app _ _ (minmax_code Gt res tmp (A :: rest)) [SAssign x ix (put_at p e (EVar res))]).
    + apply (minmax_ok_ Gt res tmp A rest s (or_intror eq_refl) D); [eauto|].
      intros y B Hy HB. specialize (Fsub y Hy). cbn [mentions existsb] in Fsub.
      apply orb_false_iff in Fsub as [_ Fsub]. eapply existsb_false; eauto.
    + intros s1 [V A1]. rewrite Ew in V. inversion V as [V'].
      eapply (final_assign [res; tmp] s s1 x ix e p _ res w vs v A1 V' Nx G Ew Fe Fi Evs Ev).
  - (* ABS *)
    destruct args as [|X [|? ?]]; try discriminate. destruct k; try discriminate.
    destruct names as [|res [|tmp [|? ?]]]; try discriminate. inversion Ap; subst code. clear Ap.
    assert (D : res <> tmp) by (inversion ND as [|? ? N1 _]; subst; cbn [In] in N1; intro; subst; tauto).
    assert (Ex : exists xv, eval s X = Some xv).
    { cbn [eval is_inquiry map opt_all] in Ew. destruct (eval s X); [eauto | discriminate]. }
    destruct Ex as [xv Ex]. eexists.
    eapply (hoare_app _ _ (abs_code res tmp X) [SAssign x ix (put_at p e (EVar res))]).
    + apply (abs_ok_ res tmp X s xv D Ex).
    + intros s1 [V A1]. rewrite Ew in V. inversion V as [V'].
      eapply (final_assign [res; tmp] s s1 x ix e p _ res w vs v A1 V' Nx G Ew Fe Fi Evs Ev).
  - (* SIGN *)
    destruct args as [|A [|B [|? ?]]]; try discriminate. destruct k; try discriminate.
    destruct names as [|res [|tmp [|res_abs [|tmp_abs [|? ?]]]]]; try discriminate.
    inversion Ap; subst code. clear Ap.
    assert (Eab : exists a b, eval s A = Some a /\ eval s B = Some b).
    { cbn [eval is_inquiry map opt_all] in Ew. destruct (eval s A); [|discriminate].
      destruct (eval s B); [eauto | discriminate]. }
    destruct Eab as [a [b [Ea Eb]]]. eexists.
    eapply (hoare_app _ _ (sign_code res tmp res_abs tmp_abs A B) [SAssign x ix (put_at p e (EVar res))]).
    + apply (sign_ok_ res tmp res_abs tmp_abs A B s a b ND Ea Eb).
      intros y Hy. specialize (Fsub y Hy). cbn [mentions existsb] in Fsub.
      apply orb_false_iff in Fsub as [_ Fsub]. apply orb_false_iff in Fsub as [Fsub _]. exact Fsub.
    + intros s1 [V A1]. rewrite Ew in V. inversion V as [V'].
      eapply (final_assign [res; tmp; res_abs; tmp_abs] s s1 x ix e p _ res w vs v A1 V' Nx G Ew Fe Fi Evs Ev).
Qed.

(* non-vacuity: x = 2 * MAX(y, 3, z) - y with y = 1, z = 7;  names 0=x 1=y 2=z 3=res 4=tmp *)
Example intr_sound_nonvacuous :
  let e := EBin Sub (EBin Mul (ELit 2) (EIntr IMax [EVar 1%nat; ELit 3; EVar 2%nat])) (EVar 1%nat) in
  let s := store_of [((1%nat, []), 1); ((2%nat, []), 7)] [] in
  exists code, intr_apply KMax [3%nat; 4%nat] 0%nat [] e [0%nat; 1%nat] = Some code /\
  eval s e = Some 13 /\ (exists s2 tr, exec 30 code s = Ok s2 tr CNormal /\ val s2 (0%nat, []) = 13).
Proof.
  cbv zeta. eexists. split; [reflexivity|]. split; [reflexivity|].
  eexists. eexists. split; [vm_compute; reflexivity | reflexivity].
Qed.
