(* C06 (round 4) — correspondence check for array assignments with two ranges per accessor. *)
From Coq Require Import List ZArith Bool.
Import ListNotations.
From PV Require Import Fort.Syntax Fort.Sem Fort.Facts Base.Harness C06.Syntax C06.Model C06.Corr C06.ArrayAssign2D.
Open Scope Z_scope.

Inductive ccase3 :=
| CArr2 (d : list (name * list (Z * Z))) (idx idx1 : name) (a : aassign) (out : list stmt)
        (st : option (store * list (loc * Z))).

Definition check3 (fx : fixes) (c : ccase3) : bool :=
  match c with
  | CArr2 d idx idx1 a out st =>
      match aa2_apply fx (decls_of d) idx idx1 a with Some p => stmts_eqb p out | None => false end &&
      match st with
      | Some (s, expect) => match aa2_sem a s with Some s' => vals_ok s' expect | None => false end
      | None => true
      end
  end.
