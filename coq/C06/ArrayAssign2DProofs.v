(* C06 (round 4) — soundness of the 2-deep loop nest for array assignments with two ranges per accessor. *)
From Coq Require Import List ZArith Bool Lia.
Import ListNotations.
From PV Require Import Fort.Syntax Fort.Sem Fort.Facts Base.Harness C06.Syntax C06.Model C06.Common
                       C06.ArrayAssignProofs C06.IntrinsicProofs C06.ArrayAssign2D.
Open Scope Z_scope.

Lemma agree_store_all T lvs : forall s1 s2, agree_except T s1 s2 -> agree_except T (store_all s1 lvs) (store_all s2 lvs).
Proof.
  induction lvs as [|lv lvs IH]; intros s1 s2 A; [exact A|]. cbn [store_all fold_left].
  apply IH. apply agree_upd_both. exact A.
Qed.

Lemma has_range_n ix : has_range ix = false -> n_ranges ix = 0%nat.
Proof.
  unfold n_ranges. induction ix as [|[e|lo hi st] ix IH]; cbn; intro H; [reflexivity | apply IH, H | discriminate].
Qed.

Section Slice.
  Variables (fx : fixes) (d : decls) (idx idx1 W : name) (wix : list index) (p : nat) (lo st : expr).
  Variables (s0 s1 : store) (k2 l t : Z).
  Hypothesis Hbnd : bnd_ok d s0.
  Hypothesis El : eval s0 lo = Some l.
  Hypothesis Et : eval s0 st = Some t.
  Hypothesis R1 : bnd s1 = bnd s0.
  Hypothesis R2 : val s1 (idx, []) = l + k2 * t.
  Hypothesis R3 : forall loc, fst loc <> idx -> fst loc <> idx1 -> fst loc <> W -> val s1 loc = val s0 loc.
  Hypothesis R4 : forall k1 vs, opt_all (ixs_val2 s0 k1 k2 wix) = Some vs -> val s1 (W, vs) = val s0 (W, vs).
  Hypothesis Flo : mentions idx lo = false /\ mentions idx1 lo = false /\ mentions W lo = false.

  Lemma ev1 e : mentions idx e = false -> mentions idx1 e = false -> mentions W e = false -> eval s1 e = eval s0 e.
  Proof.
    intros H1 H2 H3. apply eval_names; [exact R1|]. intros loc Hl.
    apply R3; intro X; rewrite X in Hl; congruence.
  Qed.

  Lemma ridx_eval2 b q lo' hi' st' :
    rng_safe fx d W p lo st b q lo' st' = true ->
    mentions idx lo' = false -> mentions idx1 lo' = false -> mentions W lo' = false ->
    eval s1 (ridx_of fx d idx W p lo st b q lo' st') = ix_val s0 k2 (IRange lo' hi' st').
  Proof.
    intros S H1 H2 H3. unfold rng_safe in S. apply andb_true_iff in S as [S1 S2].
    apply expr_eqb_eq in S1. subst st'. unfold ridx_of. cbn [ix_val]. rewrite Et.
    destruct (same_range fx d W p lo st b q lo' st) eqn:SR.
    - apply expr_eqb_eq in S2. cbn [eval]. rewrite R2.
      assert (E : eval s0 lo' = Some l).
      { rewrite <- (start_norm_eval d s0 b q lo' Hbnd), <- S2, (start_norm_eval d s0 W p lo Hbnd). exact El. }
      rewrite E. reflexivity.
    - rewrite expr_eqb_refl, orb_true_r. cbn [eval]. rewrite R2. destruct Flo as [F1 [F2 F3]].
      rewrite (ev1 lo' H1 H2 H3), (ev1 lo F1 F2 F3), El.
      destruct (eval s0 lo') as [l'|]; [|reflexivity]. cbn [eval_bin]. f_equal. lia.
  Qed.

  (* freshness of one index: of idx and W (ix_fresh) and of idx1 *)
  Definition fresh_ixs (ix : list index) : Prop :=
    forallb (ix_fresh idx W) ix = true /\ existsb (imentions idx1) ix = false.

  Lemma fresh_ixs_cons i ix : fresh_ixs (i :: ix) ->
    (imentions idx i = false /\ imentions idx1 i = false /\ imentions W i = false) /\ fresh_ixs ix.
  Proof.
    intros [F1 F2]. cbn [forallb existsb] in *. apply andb_true_iff in F1 as [Fi Fr].
    apply orb_false_iff in F2 as [Gi Gr]. unfold ix_fresh in Fi. apply andb_true_iff in Fi as [A B].
    apply negb_true_iff in A, B. repeat split; assumption.
  Qed.

  Lemma norange_vals k1 : forall rest, has_range rest = false -> fresh_ixs rest ->
    map (ix_val s1 k1) rest = ixs_val2 s0 k1 k2 rest.
  Proof.
    induction rest as [|[e|lo' hi' st'] rest IH]; intros H F; cbn [has_range] in H; [reflexivity | | discriminate].
    apply fresh_ixs_cons in F as [[A [B C]] Fr]. cbn [imentions] in A, B, C.
    cbn [map ix_val ixs_val2]. rewrite (ev1 e A B C). f_equal. apply IH; assumption.
  Qed.

  Lemma lower_last_ixs_eval b k1 : forall ix q,
    last_rng_safe fx d W p lo st b q ix = true -> fresh_ixs ix ->
    map (ix_val s1 k1) (lower_last_ixs (ridx_of fx d idx W p lo st) b q ix) = ixs_val2 s0 k1 k2 ix.
  Proof.
    induction ix as [|[e|lo' hi' st'] ix IH]; intros q S F; [reflexivity | |];
      apply fresh_ixs_cons in F as [[A [B C]] Fr]; cbn [imentions] in A, B, C;
      cbn [lower_last_ixs ixs_val2 last_rng_safe] in *.
    - cbn [map ix_val]. rewrite (ev1 e A B C). f_equal. apply IH; assumption.
    - apply orb_false_iff in A as [A A3]. apply orb_false_iff in A as [A1 A2].
      apply orb_false_iff in B as [B B3]. apply orb_false_iff in B as [B1 B2].
      apply orb_false_iff in C as [C C3]. apply orb_false_iff in C as [C1 C2].
      destruct (has_range ix) eqn:HR.
      + cbn [map ix_val]. rewrite (ev1 lo' A1 B1 C1), (ev1 st' A3 B3 C3). f_equal. apply IH; assumption.
      + cbn [map ix_val]. rewrite (ridx_eval2 b q lo' hi' st' S A1 B1 C1). cbn [ix_val]. f_equal.
        apply norange_vals; assumption.
  Qed.

  Definition fresh_aexpr (e : aexpr) : Prop := amentions idx1 e = false.

  Lemma lower_last_eval k1 e :
    aexpr_safe (acc2_safe fx d idx W wix p lo st) idx W e = true -> amentions idx1 e = false ->
    aeval s1 k1 (lower_last (ridx_of fx d idx W p lo st) e) = aeval2 s0 k1 k2 e.
  Proof.
    induction e as [z|x|b ix|o e IH|o e1 IH1 e2 IH2|f e IH|f e1 IH1 e2 IH2]; intros S M;
      cbn [aexpr_safe lower_last aeval aeval2 amentions] in *.
    - reflexivity.
    - apply andb_true_iff in S as [S1 S2]. apply negb_true_iff in S1, S2. apply Nat.eqb_neq in S1, S2.
      apply Nat.eqb_neq in M. f_equal. apply R3; cbn [fst]; congruence.
    - unfold acc2_safe in S. apply andb_true_iff in S as [S Srg]. apply andb_true_iff in S as [S Ssame].
      apply andb_true_iff in S as [Sidx Sfr]. apply negb_true_iff in Sidx. apply Nat.eqb_neq in Sidx.
      apply orb_false_iff in M as [M1 M2]. apply Nat.eqb_neq in M1.
      rewrite (lower_last_ixs_eval b k1 ix 0%nat Srg (conj Sfr M2)).
      destruct (opt_all (ixs_val2 s0 k1 k2 ix)) as [vs|] eqn:E; [|reflexivity]. f_equal.
      destruct (Nat.eqb W b) eqn:EW.
      + apply Nat.eqb_eq in EW. subst b. apply indices_eqb_eq in Ssame. subst ix. apply (R4 k1 vs E).
      + apply Nat.eqb_neq in EW. apply R3; cbn [fst]; congruence.
    - rewrite (IH S M). reflexivity.
    - apply andb_true_iff in S as [S1 S2]. apply orb_false_iff in M as [M1 M2]. rewrite (IH1 S1 M1), (IH2 S2 M2). reflexivity.
    - rewrite (IH S M). destruct (aeval2 s0 k1 k2 e); [|reflexivity]. apply intr_of_eval.
    - apply andb_true_iff in S as [S1 S2]. apply orb_false_iff in M as [M1 M2]. rewrite (IH1 S1 M1), (IH2 S2 M2).
      destruct (aeval2 s0 k1 k2 e1); [|reflexivity]. destruct (aeval2 s0 k1 k2 e2); [|reflexivity]. apply intr_of_eval.
  Qed.
End Slice.

(* the component of the LAST range identifies the column *)
Lemma ixs_val2_last_nth s k1 k2 : forall ix q0 p lo hi st l t vs,
  last_range_pos q0 ix = Some (p, lo, hi, st) -> eval s lo = Some l -> eval s st = Some t ->
  opt_all (ixs_val2 s k1 k2 ix) = Some vs -> nth_error vs (p - q0) = Some (l + k2 * t) /\ (q0 <= p)%nat.
Proof.
  induction ix as [|i ix IH]; intros q0 p lo hi st l t vs H El Et Hv; [discriminate|].
  destruct i as [e|lo' hi' st']; cbn [last_range_pos ixs_val2 opt_all] in *.
  - destruct (eval s e) as [v|]; [|discriminate].
    destruct (opt_all (ixs_val2 s k1 k2 ix)) as [vs'|] eqn:E; [|discriminate]. inversion Hv; subst vs.
    destruct (IH (S q0) p lo hi st l t vs' H El Et eq_refl) as [N L]. split; [|lia].
    replace (p - q0)%nat with (S (p - S q0)) by lia. exact N.
  - destruct (has_range ix) eqn:HR.
    + destruct (match eval s lo' with Some l0 => match eval s st' with Some t0 => Some (l0 + k1 * t0) | None => None end | None => None end) as [v|]; [|discriminate].
      destruct (opt_all (ixs_val2 s k1 k2 ix)) as [vs'|] eqn:E; [|discriminate]. inversion Hv; subst vs.
      destruct (IH (S q0) p lo hi st l t vs' H El Et eq_refl) as [N L]. split; [|lia].
      replace (p - q0)%nat with (S (p - S q0)) by lia. exact N.
    + inversion H; subst. rewrite El, Et in Hv.
      destruct (opt_all (ixs_val2 s k1 k2 ix)) as [vs'|]; [|discriminate]. inversion Hv; subst.
      rewrite Nat.sub_diag. split; [reflexivity | lia].
Qed.

Lemma last_range_fresh idx W : forall ix q p lo hi st,
  last_range_pos q ix = Some (p, lo, hi, st) -> forallb (ix_fresh idx W) ix = true ->
  mentions idx lo = false /\ mentions W lo = false.
Proof.
  induction ix as [|i ix IH]; intros q p lo hi st H Fr; [discriminate|].
  cbn [forallb] in Fr. apply andb_true_iff in Fr as [Fi Fr].
  destruct i as [e|lo' hi' st']; cbn [last_range_pos] in H; [eapply IH; eauto|].
  destruct (has_range ix); [eapply IH; eauto|].
  inversion H; subst. unfold ix_fresh in Fi. apply andb_true_iff in Fi as [F1 F2].
  apply negb_true_iff in F1, F2. cbn [imentions] in F1, F2.
  apply orb_false_iff in F1 as [F1 _]. apply orb_false_iff in F1 as [F1 _].
  apply orb_false_iff in F2 as [F2 _]. apply orb_false_iff in F2 as [F2 _]. auto.
Qed.

Lemma last_range_fresh1 idx1 : forall ix q p lo hi st,
  last_range_pos q ix = Some (p, lo, hi, st) -> existsb (imentions idx1) ix = false -> mentions idx1 lo = false.
Proof.
  induction ix as [|i ix IH]; intros q p lo hi st H Fr; [discriminate|].
  cbn [existsb] in Fr. apply orb_false_iff in Fr as [Fi Fr].
  destruct i as [e|lo' hi' st']; cbn [last_range_pos] in H; [eapply IH; eauto|].
  destruct (has_range ix); [eapply IH; eauto|].
  inversion H; subst. cbn [imentions] in Fi. apply orb_false_iff in Fi as [Fi _]. apply orb_false_iff in Fi as [Fi _]. exact Fi.
Qed.

Lemma range_fresh1 idx1 : forall ix q p lo hi st,
  range_pos q ix = Some (p, lo, hi, st) -> existsb (imentions idx1) ix = false ->
  mentions idx1 lo = false /\ mentions idx1 hi = false /\ mentions idx1 st = false.
Proof.
  induction ix as [|i ix IH]; intros q p lo hi st H Fr; [discriminate|].
  cbn [existsb] in Fr. apply orb_false_iff in Fr as [Fi Fr].
  destruct i as [e|lo' hi' st']; cbn [range_pos] in H; [eapply IH; eauto|].
  inversion H; subst. cbn [imentions] in Fi. apply orb_false_iff in Fi as [Fi F3]. apply orb_false_iff in Fi as [F1 F2]. auto.
Qed.

(* the first of two ranges survives the rewriting of the last one *)
Lemma slice_range_pos r b : forall ix q p1 lo1 hi1 st1,
  range_pos q ix = Some (p1, lo1, hi1, st1) -> n_ranges ix = 2%nat ->
  range_pos q (lower_last_ixs r b q ix) = Some (p1, lo1, hi1, st1).
Proof.
  induction ix as [|i ix IH]; intros q p1 lo1 hi1 st1 H N; [discriminate|].
  destruct i as [e|lo hi st]; cbn [range_pos lower_last_ixs] in *.
  - apply IH; [exact H|]. exact N.
  - destruct (has_range ix) eqn:HR; [exact H|]. apply has_range_n in HR. unfold n_ranges in *. cbn in N. lia.
Qed.

(* ================================================================== the theorem *)
Theorem aa2_sound_partial_ fx d idx idx1 a s s' f :
  aa2_safe fx d idx idx1 a = true -> bnd_ok d s -> aa2_sem a s = Some s' ->
  exists prog, aa2_apply fx d idx idx1 a = Some prog /\
  exists s2 tr, exec (4 + f) prog s = Ok s2 tr CNormal /\ agree_except [idx; idx1] s2 s'.
Proof.
  intros Safe Hbnd Sem. unfold aa2_safe in Safe. apply andb_true_iff in Safe as [Acc Safe].
  destruct (last_range_pos 0 (aa_ix a)) as [[[[p2 lo2] hi2] st2]|] eqn:LP; [|discriminate].
  destruct (aa_slice fx d idx a) as [[[[lo2' hi2'] st2'] a']|] eqn:SL; [|discriminate].
  unfold aa_slice in SL. rewrite LP in SL. inversion SL; subst lo2' hi2' st2'. clear SL. rename H3 into Ha'.
  apply andb_true_iff in Safe as [Safe Mrhs1]. apply andb_true_iff in Safe as [Safe Mix1].
  apply andb_true_iff in Safe as [Safe N1W]. apply andb_true_iff in Safe as [Safe N1i].
  apply andb_true_iff in Safe as [Safe Sin]. apply andb_true_iff in Safe as [Slhs Srhs].
  apply negb_true_iff in Mrhs1, Mix1, N1W, N1i. apply Nat.eqb_neq in N1W, N1i.
  set (W := aa_arr a) in *. set (r := ridx_of fx d idx W p2 lo2 st2) in *.
  (* the inner program exists *)
  assert (Hprog : exists prog, aa_apply fx d idx1 a' = Some prog).
  { pose proof Sin as Sin'. unfold aa_safe in Sin'. apply andb_true_iff in Sin' as [Acc' Sin'].
    unfold aa_apply. rewrite Acc'. destruct (range_pos 0 (aa_ix a')) as [[[[? ?] ?] ?]|]; [eauto | discriminate]. }
  destruct Hprog as [prog AP].
  exists [SDo idx lo2 hi2 st2 prog]. split.
  { unfold aa2_apply, aa_slice. rewrite Acc, LP. fold W r. rewrite Ha', AP. reflexivity. }
  (* the semantics *)
  unfold aa2_sem in Sem. rewrite LP in Sem.
  destruct (range_pos 0 (aa_ix a)) as [[[[p1 lo1] hi1] st1]|] eqn:RP; [|discriminate].
  destruct (eval s lo1) as [l1|] eqn:El1; [|discriminate]. destruct (eval s hi1) as [h1|] eqn:Eh1; [|discriminate].
  destruct (eval s st1) as [t1|] eqn:Et1; [|discriminate]. destruct (eval s lo2) as [l2|] eqn:El2; [|discriminate].
  destruct (eval s hi2) as [h2|] eqn:Eh2; [|discriminate]. destruct (eval s st2) as [t2|] eqn:Et2; [|discriminate].
  destruct ((t1 =? 0) || (t2 =? 0)) eqn:T0; [discriminate|]. apply orb_false_iff in T0 as [T1 T2].
  apply Z.eqb_neq in T1, T2.
  set (n1 := trip_count l1 h1 t1) in *. set (n2 := trip_count l2 h2 t2) in *.
  destruct (opt_all (map (aa_block s a n1) (zseq 0 n2))) as [blocks|] eqn:Eb; [|discriminate].
  inversion Sem; subst s'. clear Sem.
  (* facts from the lhs accessor *)
  pose proof Slhs as Slhs'. unfold acc2_safe in Slhs'.
  apply andb_true_iff in Slhs' as [S3 Lrg]. apply andb_true_iff in S3 as [S3 _].
  apply andb_true_iff in S3 as [LidxW Lfr]. apply negb_true_iff in LidxW. apply Nat.eqb_neq in LidxW.
  destruct (last_range_fresh idx W _ _ _ _ _ _ LP Lfr) as [Flo2a Flo2c].
  pose proof (last_range_fresh1 idx1 _ _ _ _ _ _ LP Mix1) as Flo2b.
  destruct (range_pos_fresh idx W _ _ _ _ _ _ RP Lfr) as [[F1a F1b] [[F1c F1d] [F1e F1f]]].
  destruct (range_fresh1 idx1 _ _ _ _ _ _ RP Mix1) as [G1 [G2 G3]].
  assert (N2 : n_ranges (aa_ix a) = 2%nat).
  { unfold aa2_accept in Acc. apply andb_true_iff in Acc as [A _]. apply Nat.eqb_eq in A. exact A. }
  assert (RP' : range_pos 0 (aa_ix a') = Some (p1, lo1, hi1, st1)).
  { rewrite <- Ha'. cbn [aa_ix]. apply slice_range_pos; assumption. }
  set (P := fun (j : nat) (sj : store) =>
              exists bj, opt_all (map (aa_block s a n1) (zseq 0 j)) = Some bj /\
                         agree_except [idx; idx1] sj (store_all s (concat bj))).
  destruct (exec_do_inv_rule (2 + f) idx lo2 hi2 st2 prog s l2 h2 t2 P El2 Eh2 Et2 T2)
    as [s2 [tr [[bj [Hbj Hag]] Hex]]].
  - (* one column *)
    intros j sj Hj [bj [Hbj Hag]]. fold n2 in Hj.
    destruct (zseq_split_at n2 j Hj) as [rest Hsplit]. rewrite zseq_snoc in Hsplit.
    assert (Hin : In (Z.of_nat j) (zseq 0 n2))
      by (rewrite Hsplit; apply in_or_app; left; apply in_or_app; right; left; reflexivity).
    destruct (opt_all_in _ _ _ _ Eb Hin) as [blk [Hblk _]].
    set (s1 := upd sj (idx, []) (l2 + Z.of_nat j * t2)).
    destruct Hag as [Hb Hv].
    assert (R1 : bnd s1 = bnd s) by (unfold s1; rewrite bnd_upd, Hb; apply bnd_store_all).
    assert (R2 : val s1 (idx, []) = l2 + Z.of_nat j * t2) by (unfold s1; apply val_upd_same).
    (* locations stored by the earlier columns *)
    assert (Hlocs : forall lv, In lv (concat bj) -> exists k1 i, 0 <= i < Z.of_nat j /\
                 exists vs, opt_all (ixs_val2 s k1 i (aa_ix a)) = Some vs /\ fst lv = (W, vs)).
    { intros lv Hlv. apply in_concat in Hlv as [bl [Hbl Hlv]].
      destruct (opt_all_in_result _ _ _ _ Hbj Hbl) as [i [Hi Hfi]]. apply in_zseq in Hi.
      unfold aa_block in Hfi. destruct (opt_all_in_result _ _ _ _ Hfi Hlv) as [k1 [_ Hel]].
      unfold aa_elem2 in Hel. destruct (opt_all (ixs_val2 s k1 i (aa_ix a))) as [vs|] eqn:Evs; [|discriminate].
      destruct (aeval2 s k1 i (aa_rhs a)); [|discriminate]. inversion Hel; subst.
      exists k1, i. split; [lia|]. exists vs. split; [exact Evs | reflexivity]. }
    assert (R3 : forall loc, fst loc <> idx -> fst loc <> idx1 -> fst loc <> W -> val s1 loc = val s loc).
    { intros loc M1 M2 M3. unfold s1. rewrite val_upd_other by (intro X; subst loc; apply M1; reflexivity).
      rewrite Hv by (intros [X|[X|[]]]; [apply M1 | apply M2]; symmetry; exact X).
      apply val_store_all_notin. intros lv Hlv X. destruct (Hlocs lv Hlv) as [k1 [i [_ [vs [_ Hf]]]]].
      rewrite Hf in X. subst loc. apply M3. reflexivity. }
    assert (R4 : forall k1 vs, opt_all (ixs_val2 s k1 (Z.of_nat j) (aa_ix a)) = Some vs -> val s1 (W, vs) = val s (W, vs)).
    { intros k1 vs Hvs. unfold s1. rewrite val_upd_other by (intro X; inversion X; congruence).
      rewrite Hv by (cbn [fst]; intros [X|[X|[]]]; congruence).
      apply val_store_all_notin. intros lv Hlv X. destruct (Hlocs lv Hlv) as [k1' [i [Hi [vs' [Hvs' Hf]]]]].
      rewrite Hf in X. inversion X; subst vs'.
      destruct (ixs_val2_last_nth s k1' i _ _ _ _ _ _ _ _ _ LP El2 Et2 Hvs') as [M1 _].
      destruct (ixs_val2_last_nth s k1 (Z.of_nat j) _ _ _ _ _ _ _ _ _ LP El2 Et2 Hvs) as [M2 _].
      rewrite M1 in M2. inversion M2. assert (i * t2 = Z.of_nat j * t2) by lia.
      apply Z.mul_cancel_r in H; [lia | exact T2]. }
    assert (Flo : mentions idx lo2 = false /\ mentions idx1 lo2 = false /\ mentions W lo2 = false) by auto.
    (* the slice statement in s1 is the j-th column *)
    assert (Ev : forall e, mentions idx e = false -> mentions idx1 e = false -> mentions W e = false -> eval s1 e = eval s e)
      by (intros e A B C; apply (ev1 idx idx1 W s s1 R1 R3 e A B C)).
    assert (Helem : forall k1, aa_elem s1 a' k1 = aa_elem2 s a (Z.of_nat j) k1).
    { intro k1. unfold aa_elem, aa_elem2. rewrite <- Ha'. cbn [aa_ix aa_rhs aa_arr]. fold W.
      unfold r.
      rewrite (lower_last_ixs_eval fx d idx idx1 W p2 lo2 st2 s s1 (Z.of_nat j) l2 t2 Hbnd El2 Et2 R1 R2 R3 Flo W k1
                 (aa_ix a) 0%nat Lrg (conj Lfr Mix1)).
      rewrite (lower_last_eval fx d idx idx1 W (aa_ix a) p2 lo2 st2 s s1 (Z.of_nat j) l2 t2 Hbnd El2 Et2 R1 R2 R3 R4 Flo
                 k1 (aa_rhs a) Srhs Mrhs1).
      reflexivity. }
    assert (Hsem : aa_sem a' s1 = Some (store_all s1 blk)).
    { unfold aa_sem. rewrite RP'. rewrite (Ev lo1 F1a G1 F1b), (Ev hi1 F1c G2 F1d), (Ev st1 F1e G3 F1f), El1, Eh1, Et1.
      apply Z.eqb_neq in T1. rewrite T1. fold n1.
      rewrite (map_ext _ _ Helem). unfold aa_block in Hblk. rewrite Hblk. reflexivity. }
    assert (Hbnd1 : bnd_ok d s1) by (intro b; rewrite R1; apply Hbnd).
    destruct (aa_sound_partial_ fx d idx1 a' s1 _ f Sin Hbnd1 Hsem) as [prog' [AP' [s3 [tr3 [Hex3 Hag3]]]]].
    rewrite AP in AP'. inversion AP'; subst prog'.
    exists s3, tr3. split; [exact Hex3|].
    exists (bj ++ [blk]). split.
    + rewrite zseq_snoc, map_app. apply opt_all_app_some; [exact Hbj|]. cbn [map opt_all]. rewrite Hblk. reflexivity.
    + rewrite concat_app. cbn [concat]. rewrite app_nil_r, store_all_app.
      eapply agree_trans; [eapply agree_weaken; [|exact Hag3]; intros y [<-|[]]; right; left; reflexivity|].
      apply agree_store_all. eapply agree_trans; [apply agree_upd_fresh; left; reflexivity|]. split; assumption.
  - exists []. split; [reflexivity | apply agree_refl].
  - fold n2 in Hbj, Hex. rewrite Eb in Hbj. inversion Hbj; subst bj.
    exists (upd s2 (idx, []) (l2 + Z.of_nat n2 * t2)). eexists. split; [exact Hex|].
    eapply agree_trans; [apply agree_upd_fresh; left; reflexivity | exact Hag].
Qed.

(* ================================================================== non-vacuity (non-unit lower bounds) *)
(* names 0 = a(2:4, 0:2), 1 = b(1:3, 5:7), 2 = idx, 3 = idx1, 4 = x;  a(2:3, 0:2) = b(1:2, 5:7) * x + a(2:3, 0:2) *)
Definition e2_decls : decls := fun n => match n with O => [(2, 4); (0, 2)] | S O => [(1, 3); (5, 7)] | _ => [] end.
Definition e2_store : store :=
  store_of [((0%nat, [2; 0]), 1); ((0%nat, [3; 0]), 2); ((0%nat, [2; 2]), 3); ((0%nat, [3; 2]), 4);
            ((1%nat, [1; 5]), 10); ((1%nat, [2; 5]), 20); ((1%nat, [1; 7]), 30); ((1%nat, [2; 7]), 40); ((4%nat, []), 2)]
           [(0%nat, [(2, 4); (0, 2)]); (1%nat, [(1, 3); (5, 7)])].
Definition e2_stmt : aassign :=
  mkAA 0%nat [IRange (ELit 2) (ELit 3) (ELit 1); IRange (ELit 0) (ELit 2) (ELit 1)]
       (ABin Add (ABin Mul (ASec 1%nat [IRange (ELit 1) (ELit 2) (ELit 1); IRange (ELit 5) (ELit 7) (ELit 1)]) (AVar 4%nat))
                 (ASec 0%nat [IRange (ELit 2) (ELit 3) (ELit 1); IRange (ELit 0) (ELit 2) (ELit 1)])).

Example aa2_safe_nonvacuous :
  aa2_safe unfixed e2_decls 2%nat 3%nat e2_stmt = true /\ bnd_ok e2_decls e2_store /\
  (exists s', aa2_sem e2_stmt e2_store = Some s' /\ val s' (0%nat, [3; 2]) = 84) /\
  (exists prog s2 tr, aa2_apply unfixed e2_decls 2%nat 3%nat e2_stmt = Some prog /\
                      exec 20 prog e2_store = Ok s2 tr CNormal /\ val s2 (0%nat, [3; 2]) = 84).
Proof.
  split; [vm_compute; reflexivity|]. split; [intros [|[|b]]; reflexivity|]. split.
  - eexists. split; [vm_compute; reflexivity|]. vm_compute. reflexivity.
  - eexists. eexists. eexists. split; [vm_compute; reflexivity|]. split; [vm_compute; reflexivity | reflexivity].
Qed.

(* ================================================================== dimension mix: d(:,1) = d(1,:) *)
(* names 0 = d(0:2, 1:3), 2 = idx.  same_range(unfixed) answers True for "same array, both at their lower
   bound" without comparing the dimensions; the repaired variant (fx_shortcut, 148f649) uses the offset. *)
Definition dm_decls : decls := fun n => match n with O => [(0, 2); (1, 3)] | _ => [] end.
Definition dm_store : store :=
  store_of [((0%nat, [1; 1]), 11); ((0%nat, [1; 2]), 12); ((0%nat, [1; 3]), 13)] [(0%nat, [(0, 2); (1, 3)])].
Definition dm_lb (k : Z) : expr := EIntr ILbound [EVar 0%nat; ELit k].
Definition dm_ub (k : Z) : expr := EIntr IUbound [EVar 0%nat; ELit k].
Definition dm_stmt : aassign :=
  mkAA 0%nat [IRange (dm_lb 1) (dm_ub 1) (ELit 1); IExp (ELit 1)]
       (ASec 0%nat [IExp (ELit 1); IRange (dm_lb 2) (dm_ub 2) (ELit 1)]).

Theorem aa_dimmix_refuted_ :
  exists s' prog s2 tr,
    aa_accept dm_stmt = true /\ bnd_ok dm_decls dm_store /\ aa_sem dm_stmt dm_store = Some s' /\
    aa_apply unfixed dm_decls 2%nat dm_stmt = Some prog /\
    exec 10 prog dm_store = Ok s2 tr CNormal /\ val s2 (0%nat, [0; 1]) <> val s' (0%nat, [0; 1]).
Proof.
  destruct (aa_sem dm_stmt dm_store) as [s'|] eqn:E1; [|vm_compute in E1; discriminate].
  destruct (aa_apply unfixed dm_decls 2%nat dm_stmt) as [prog|] eqn:E2; [|vm_compute in E2; discriminate].
  destruct (exec 10 prog dm_store) as [s2 tr c| |] eqn:E3.
  - exists s', prog, s2, tr.
    assert (Hc : c = CNormal /\ val s2 (0%nat, [0; 1]) = 0 /\ val s' (0%nat, [0; 1]) = 11).
    { revert E3. inversion E2; subst prog. clear E2. inversion E1; subst s'. clear E1.
      vm_compute. intro H. inversion H; subst. repeat split. }
    destruct Hc as [-> [H2 H3]].
    split; [reflexivity|]. split; [intros [|b]; reflexivity|]. split; [reflexivity|]. split; [reflexivity|].
    split; [exact E3|]. intro X. pose proof (eq_trans (eq_sym H2) (eq_trans X H3)) as Y. discriminate Y.
  - exfalso. inversion E2; subst prog. vm_compute in E3. discriminate.
  - exfalso. inversion E2; subst prog. vm_compute in E3. discriminate.
Qed.

(* with the repair (flag fx_shortcut, as detected on the tree under test) the same statement is lowered correctly *)
Theorem aa_dimmix_fixed_ :
  exists s' prog s2 tr,
    aa_sem dm_stmt dm_store = Some s' /\ aa_apply (mkFixes true false false) dm_decls 2%nat dm_stmt = Some prog /\
    exec 10 prog dm_store = Ok s2 tr CNormal /\
    val s2 (0%nat, [0; 1]) = val s' (0%nat, [0; 1]) /\ val s2 (0%nat, [1; 1]) = val s' (0%nat, [1; 1]) /\
    val s2 (0%nat, [2; 1]) = val s' (0%nat, [2; 1]) /\ val s' (0%nat, [1; 1]) = 12.
Proof.
  eexists. eexists. eexists. eexists. split; [vm_compute; reflexivity|]. split; [vm_compute; reflexivity|].
  split; [vm_compute; reflexivity|]. repeat split; vm_compute; reflexivity.
Qed.
