(* C06 (round 3) — MATMUL matrix * vector with form-dependent bound expressions (assumed-shape / allocatable
   operands): the proof of LinAlgProofs.matvec_sound_partial_ over effective bounds. *)
From Coq Require Import List ZArith Bool Lia.
Import ListNotations.
From PV Require Import Fort.Syntax Fort.Sem Fort.Facts Base.Harness C06.Syntax C06.Model C06.Common
                       C06.ArrayAssignProofs C06.LinAlgProofs C06.Bounds C06.MatMatProofs.
Open Scope Z_scope.

(* a rank-1 operand whose store bounds are the effective bounds and whose form is consistent with them *)
Definition vector_ok (fm : forms) (d : decls) (s : store) (v : name) : Prop :=
  bnd s v = d v /\ (exists b0, d v = [b0]) /\
  (forall k f b, nth_error (fm v) k = Some f -> nth_error (d v) k = Some b -> form_ok f b).

Theorem matvecF_sound_partial_ fm d i j r m v s :
  matvec_safe d i j r m v = true -> operands_ok fm d s [m] -> vector_ok fm d s v ->
  hoare 7 (matvecF_apply fm i j r m v) s (fun s2 => agree_except [i; j] s2 (matvec_sem d r m v s)).
Proof.
  intros Safe Om Ov. unfold matvec_safe, matvec_accept in Safe. repeat (apply andb_true_iff in Safe as [Safe ?H]).
  repeat match goal with H : negb (Nat.eqb _ _) = true |- _ => apply negb_true_iff in H; apply Nat.eqb_neq in H end.
  repeat match goal with H : Z.eqb _ _ = true |- _ => apply Z.eqb_eq in H end.
  repeat match goal with H : Nat.eqb _ _ = true |- _ => apply Nat.eqb_eq in H end.
  assert (Nrm : r <> m) by assumption. assert (Nrv : r <> v) by assumption.
  assert (Njv : j <> v) by assumption. assert (Njm : j <> m) by assumption. assert (Njr : j <> r) by assumption.
  assert (Niv : i <> v) by assumption. assert (Nim : i <> m) by assumption. assert (Nir : i <> r) by assumption.
  assert (Nij : i <> j) by assumption.
  assert (Hext : extent (dim0 d v) = extent (dim1 d m)) by assumption.
  assert (Lmv : fst (dim1 d m) = fst (dim0 d v)) by assumption.
  assert (Lrm : fst (dim0 d r) = fst (dim0 d m)) by assumption.
  set (lbr := fst (dim0 d r)) in *. set (lbm := fst (dim0 d m)) in *. set (ubm := snd (dim0 d m)).
  set (lbm2 := fst (dim1 d m)) in *. set (lbv := fst (dim0 d v)) in *. set (ubv := snd (dim0 d v)).
  set (n := extent (dim0 d m)). set (nin := extent (dim1 d m)) in *.
  unfold matvecF_apply, matvec_sem. fold lbr n.
  assert (Bm : forall s', bnd s' = bnd s ->
            eval s' (fst (mbound fm m 0)) = Some lbm /\ eval s' (snd (mbound fm m 0)) = Some ubm).
  { intros s' B. destruct (operand_bounds fm d s [m] m s' Om (or_introl eq_refl) B) as [[A1 A2] _]. auto. }
  assert (Bv : forall s', bnd s' = bnd s ->
            eval s' (fst (mbound fm v 0)) = Some lbv /\ eval s' (snd (mbound fm v 0)) = Some ubv).
  { intros s' B. destruct Ov as [Hb [[b0 Hd] Hf]]. assert (Hb' : bnd s' v = d v) by (rewrite B; exact Hb).
    unfold lbv, ubv, dim0. rewrite Hd. cbn [nth].
    apply (mbound_eval fm d s' v 0 b0 Hb'); [rewrite Hd; reflexivity|]. intros f F. eapply Hf; [exact F | rewrite Hd; reflexivity]. }
  destruct (Bm s eq_refl) as [Em1 Em2].
  set (P := fun (k : nat) (sk : store) => agree_except [i; j] sk (store_all s (mv_lvs d r m v s k))).
  assert (Hn : trip_count lbm ubm 1 = n) by (rewrite trip_unit; unfold n, lbm, ubm; rewrite <- dim_pair; reflexivity).
  assert (Hnin : trip_count lbv ubv 1 = nin)
    by (rewrite trip_unit; unfold nin, lbv, ubv; rewrite <- dim_pair; exact Hext).
  eapply hoare_conseq; [|change 7%nat with (S (S 5)); eapply (hoare_do 5 i _ _ (ELit 1) _ s lbm ubm 1 P Em1 Em2 eq_refl); [lia | |]].
  - intros s' [s2 [HP ->]]. rewrite Hn in HP. unfold P, mv_lvs in HP. fold lbr in HP.
    eapply agree_trans; [apply agree_upd_fresh; left; reflexivity | exact HP].
  - (* one row *)
    intros k sk Hk Ag. rewrite Hn in Hk. set (s1 := upd sk (i, []) (lbm + Z.of_nat k * 1)).
    set (row := lbm + Z.of_nat k).
    assert (A1 : agree_except [i; j] s1 (store_all s (mv_lvs d r m v s k)))
      by (eapply agree_trans; [apply agree_upd_fresh; left; reflexivity | exact Ag]).
    assert (Vi1 : val s1 (i, []) = row) by (unfold s1, row; rewrite val_upd_same; lia).
    (* operands are untouched by the stores into r *)
    assert (Hop : forall (a : name) ix, a <> r -> a <> i -> a <> j -> val s1 (a, ix) = val s (a, ix)).
    { intros a ix N1 N2 N3. destruct A1 as [_ V]. rewrite V by (cbn [fst In]; intuition congruence).
      apply val_store_all_notin. intros lv Hlv X. unfold mv_lvs in Hlv. apply in_map_iff in Hlv as [q [<- _]].
      cbn [fst] in X. inversion X. congruence. }
    set (g := fun q => val s (m, [lbm + Z.of_nat k; lbm2 + q]) * val s (v, [lbv + q])).
    apply (hoare_cons 2 4 _ _ _ (fun s2 => s2 = upd s1 (r, [row]) 0)).
    { eapply hoare_assign; [cbn [map eval opt_all]; rewrite Vi1; reflexivity | reflexivity | reflexivity]. }
    intros s2 ->. set (s2 := upd s1 (r, [row]) 0).
    set (Q := fun (q : nat) (sq : store) =>
                val sq (r, [row]) = sum_upto g q /\ val sq (i, []) = row /\ bnd sq = bnd s2 /\
                forall loc, fst loc <> j -> loc <> (r, [row]) -> val sq loc = val s2 loc).
    assert (B2 : bnd s2 = bnd s).
    { unfold s2, s1. rewrite !bnd_upd. destruct Ag as [B _]. rewrite B. apply bnd_store_all. }
    destruct (Bv s2 B2) as [Ev1 Ev2].
    eapply hoare_conseq; [|change 4%nat with (S (S 2)); eapply (hoare_do 2 j _ _ (ELit 1) _ s2 lbv ubv 1 Q Ev1 Ev2 eq_refl); [lia | |]].
    + (* the row is complete *)
        intros s4 [sq [[Vr [Vi [Bq Lq]]] ->]]. rewrite Hnin in Vr. unfold P.
      assert (Hel : sum_upto g nin = matvec_elem d m v s (Z.of_nat k)) by reflexivity.
      assert (Hl : mv_lvs d r m v s (S k) = mv_lvs d r m v s k ++ [((r, [lbr + Z.of_nat k]), matvec_elem d m v s (Z.of_nat k))]).
      { unfold mv_lvs. rewrite zseq_snoc, map_app. reflexivity. }
      rewrite Hl, store_all_app. cbn [store_all fold_left fst snd].
      destruct A1 as [B1 V1]. split.
      * rewrite !bnd_upd, Bq. unfold s2. rewrite bnd_upd. exact B1.
      * intros loc Hn'. rewrite val_upd_other by (intro X; subst loc; apply Hn'; right; left; reflexivity).
        rewrite val_upd. destruct (loc_eq_dec loc (r, [lbr + Z.of_nat k])) as [->|Nl].
        -- rewrite <- Hel, <- Vr. unfold row. rewrite Lrm. reflexivity.
        -- rewrite Lq; [| intro X; apply Hn'; right; left; symmetry; exact X | unfold row; rewrite <- Lrm; exact Nl].
          unfold s2. rewrite val_upd_other by (unfold row; rewrite <- Lrm; exact Nl). apply V1. exact Hn'.
    + (* one product *)
      intros q sq Hq [Vr [Vi [Bq Lq]]]. rewrite Hnin in Hq.
      set (s3 := upd sq (j, []) (lbv + Z.of_nat q * 1)).
      assert (Vj3 : val s3 (j, []) = lbv + Z.of_nat q) by (unfold s3; rewrite val_upd_same; lia).
      assert (Vi3 : val s3 (i, []) = row)
        by (unfold s3; rewrite val_upd_other by (intro X; inversion X; congruence); exact Vi).
      assert (Vr3 : val s3 (r, [row]) = sum_upto g q)
        by (unfold s3; rewrite val_upd_other by (intro X; inversion X; congruence); exact Vr).
      assert (Hop3 : forall (a : name) ix, a <> r -> a <> i -> a <> j -> val s3 (a, ix) = val s (a, ix)).
      { intros a ix N1 N2 N3. unfold s3. rewrite val_upd_other by (intro X; inversion X; congruence).
        rewrite Lq; [| cbn [fst]; congruence | intro X; inversion X; congruence].
        unfold s2. rewrite val_upd_other by (intro X; inversion X; congruence). apply Hop; assumption. }
      eapply hoare_mono; [|eapply hoare_assign]; [lia | cbn [map eval opt_all]; rewrite Vi3; reflexivity | |].
      * cbn [eval map opt_all]. rewrite Vi3, Vj3. cbn [opt_all]. rewrite Vr3.
        rewrite (Hop3 m) by congruence. rewrite (Hop3 v) by congruence. cbn [eval_bin]. reflexivity.
      * split; [|split; [|split]].
        -- rewrite val_upd_same. cbn [sum_upto]. f_equal. unfold g, row. rewrite <- Lmv. reflexivity.
        -- rewrite val_upd_other by (intro X; inversion X; congruence). exact Vi3.
        -- rewrite bnd_upd. unfold s3. rewrite bnd_upd. exact Bq.
        -- intros loc N1 N2. rewrite val_upd_other by exact N2. unfold s3.
          rewrite val_upd_other by (intro X; subst loc; apply N1; reflexivity). apply Lq; assumption.
    + split; [apply val_upd_same|]. split; [|split; [reflexivity | intros; reflexivity]].
      unfold s2. rewrite val_upd_other by (intro X; inversion X; congruence). exact Vi1.
  - apply agree_refl.
Qed.
(* names 0 = r(2:3) explicit, 1 = m(2:,:) actual (5:6,7:8), 2 = v(:) actual (4:5); 3 = i, 4 = j *)
Definition mv_forms : forms :=
  fun n => match n with O => [DExplicit 2 3] | S O => [DAssumedLb 2; DAssumed] | S (S O) => [DAssumed] | _ => [] end.
Definition mv_actuals : name -> list (Z * Z) :=
  fun n => match n with O => [(2, 3)] | S O => [(5, 6); (7, 8)] | S (S O) => [(4, 5)] | _ => [] end.
Definition mv_decls : decls := eff_decls mv_forms mv_actuals.
Definition mv_store : store :=
  store_of [((1%nat, [2; 1]), 1); ((1%nat, [2; 2]), 2); ((1%nat, [3; 1]), 3); ((1%nat, [3; 2]), 4);
            ((2%nat, [1]), 5); ((2%nat, [2]), 6)]
           [(0%nat, [(2, 3)]); (1%nat, [(2, 3); (1, 2)]); (2%nat, [(1, 2)])].

Example matvecF_nonvacuous :
  mv_decls 1%nat = [(2, 3); (1, 2)] /\ mv_decls 2%nat = [(1, 2)] /\
  matvec_safe mv_decls 3%nat 4%nat 0%nat 1%nat 2%nat = true /\
  operands_ok mv_forms mv_decls mv_store [1%nat] /\ vector_ok mv_forms mv_decls mv_store 2%nat /\
  val (matvec_sem mv_decls 0%nat 1%nat 2%nat mv_store) (0%nat, [3]) = 39 /\
  (exists s2 tr, exec 30 (matvecF_apply mv_forms 3%nat 4%nat 0%nat 1%nat 2%nat) mv_store = Ok s2 tr CNormal /\
                 val s2 (0%nat, [3]) = 39).
Proof.
  split; [reflexivity|]. split; [reflexivity|]. split; [vm_compute; reflexivity|]. split; [|split].
  - intros a [<-|[]]; (split; [reflexivity|]); (split; [eexists; eexists; reflexivity|]).
    intros k f b F N; destruct k as [|[|k]]; cbn in F, N; try (destruct k; discriminate);
      inversion F; inversion N; subst; vm_compute; first [reflexivity | exact I].
  - split; [reflexivity|]. split; [eexists; reflexivity|].
    intros k f b F N; destruct k as [|k]; cbn in F, N; try (destruct k; discriminate);
      inversion F; inversion N; subst; vm_compute; first [reflexivity | exact I].
  - split; [vm_compute; reflexivity|]. eexists. eexists. split; [vm_compute; reflexivity | reflexivity].
Qed.
