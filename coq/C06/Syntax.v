(* C06 — syntax extension of the shared MiniFortran core: array sections and array-valued
   (elemental) expressions, decidable equalities on Fort expressions/statements (used by the
   faithful model of ArrayMixin.same_range and by the correspondence checks), and the
   "name occurs in" test used by the side conditions of the theorems.  No proofs about the
   transformations here. *)
From Coq Require Import List ZArith Bool Lia.
Import ListNotations.
From PV Require Import Fort.Syntax Fort.Sem Base.Harness.
Open Scope Z_scope.

(* HUGE(x): any constant that bounds every value in play (premise of the MINVAL/MAXVAL theorems) *)
Definition HUGE : Z := 10 ^ 30.

(* ------------------------------------------------------------------ sections *)
Inductive index := IExp (e : expr) | IRange (lo hi st : expr).

(* elemental intrinsics allowed inside array-valued expressions *)
Inductive efun := FAbs | FMin | FMax | FSign | FMod.
Definition intr_of (f : efun) : intr :=
  match f with FAbs => IAbs | FMin => IMin | FMax => IMax | FSign => ISign | FMod => IMod end.

(* array-valued expression: accessors may contain ranges; index and bound expressions are scalar
   (nested ranges are refused by the transformation). *)
Inductive aexpr :=
| ALit (z : Z)
| AVar (x : name)
| ASec (a : name) (ix : list index)
| AUn (o : unop) (e : aexpr)
| ABin (o : binop) (l r : aexpr)
| AIntr1 (f : efun) (e : aexpr)
| AIntr2 (f : efun) (l r : aexpr).

(* ------------------------------------------------------------------ decidable equalities *)
Definition binop_eqb (a b : binop) : bool :=
  match a, b with
  | Add, Add | Sub, Sub | Mul, Mul | Div, Div | Pow, Pow | Eq, Eq | Ne, Ne | Lt, Lt | Le, Le
  | Gt, Gt | Ge, Ge | And, And | Or, Or => true
  | _, _ => false
  end.
Definition unop_eqb (a b : unop) : bool :=
  match a, b with Neg, Neg | Not, Not => true | _, _ => false end.
Definition intr_eqb (a b : intr) : bool :=
  match a, b with
  | IMin, IMin | IMax, IMax | IMod, IMod | IAbs, IAbs | ISign, ISign | ILbound, ILbound
  | IUbound, IUbound | ISize, ISize => true
  | _, _ => false
  end.

Fixpoint expr_eqb (a b : expr) : bool :=
  match a, b with
  | ELit x, ELit y => x =? y
  | EVar x, EVar y => Nat.eqb x y
  | EIdx x ix, EIdx y iy =>
      Nat.eqb x y &&
      (fix go (l1 l2 : list expr) : bool :=
         match l1, l2 with
         | [], [] => true
         | u :: l1', v :: l2' => expr_eqb u v && go l1' l2'
         | _, _ => false
         end) ix iy
  | EUn o x, EUn p y => unop_eqb o p && expr_eqb x y
  | EBin o x1 x2, EBin p y1 y2 => binop_eqb o p && expr_eqb x1 y1 && expr_eqb x2 y2
  | EIntr f xs, EIntr g ys =>
      intr_eqb f g &&
      (fix go (l1 l2 : list expr) : bool :=
         match l1, l2 with
         | [], [] => true
         | u :: l1', v :: l2' => expr_eqb u v && go l1' l2'
         | _, _ => false
         end) xs ys
  | _, _ => false
  end.

Fixpoint stmt_eqb (a b : stmt) : bool :=
  let go := (fix go (l1 l2 : list stmt) : bool :=
               match l1, l2 with
               | [], [] => true
               | u :: l1', v :: l2' => stmt_eqb u v && go l1' l2'
               | _, _ => false
               end) in
  match a, b with
  | SAssign x ix e, SAssign y iy f => Nat.eqb x y && list_beq expr_eqb ix iy && expr_eqb e f
  | SIf c t e, SIf c' t' e' => expr_eqb c c' && go t t' && go e e'
  | SDo x lo hi st body, SDo x' lo' hi' st' body' =>
      Nat.eqb x x' && expr_eqb lo lo' && expr_eqb hi hi' && expr_eqb st st' && go body body'
  | SExit, SExit | SCycle, SCycle | SReturn, SReturn => true
  | SPrint es, SPrint es' => list_beq expr_eqb es es'
  | SRegion r body, SRegion r' body' => Nat.eqb r r' && go body body'
  | SDir d body, SDir d' body' => Nat.eqb d d' && go body body'
  | _, _ => false
  end.
Definition stmts_eqb (a b : list stmt) : bool := list_beq stmt_eqb a b.

Definition index_eqb (a b : index) : bool :=
  match a, b with
  | IExp x, IExp y => expr_eqb x y
  | IRange l h s, IRange l' h' s' => expr_eqb l l' && expr_eqb h h' && expr_eqb s s'
  | _, _ => false
  end.

Lemma binop_eqb_eq a b : binop_eqb a b = true -> a = b.
Proof. destruct a, b; simpl; congruence. Qed.
Lemma unop_eqb_eq a b : unop_eqb a b = true -> a = b.
Proof. destruct a, b; simpl; congruence. Qed.
Lemma intr_eqb_eq a b : intr_eqb a b = true -> a = b.
Proof. destruct a, b; simpl; congruence. Qed.

Lemma expr_eqb_eq : forall a b, expr_eqb a b = true -> a = b.
Proof.
  induction a using expr_ind'; intros b E; destruct b; simpl in E; try discriminate.
  - apply Z.eqb_eq in E. congruence.
  - apply Nat.eqb_eq in E. congruence.
  - apply andb_true_iff in E as [E1 E2]. apply Nat.eqb_eq in E1. subst. f_equal.
    revert ix0 E2. induction H as [|u l Hu Hl IH]; intros [|v l2] E2; try discriminate; [reflexivity|].
    apply andb_true_iff in E2 as [E2 E3]. f_equal; [apply Hu, E2 | apply IH, E3].
  - apply andb_true_iff in E as [E1 E2]. apply unop_eqb_eq in E1. apply IHa in E2. congruence.
  - apply andb_true_iff in E as [E12 E3]. apply andb_true_iff in E12 as [E1 E2].
    apply binop_eqb_eq in E1. apply IHa1 in E2. apply IHa2 in E3. congruence.
  - apply andb_true_iff in E as [E1 E2]. apply intr_eqb_eq in E1. subst. f_equal.
    revert args0 E2. induction H as [|u l Hu Hl IH]; intros [|v l2] E2; try discriminate; [reflexivity|].
    apply andb_true_iff in E2 as [E2 E3]. f_equal; [apply Hu, E2 | apply IH, E3].
Qed.

Lemma expr_eqb_refl : forall e, expr_eqb e e = true.
Proof.
  induction e using expr_ind'; simpl.
  - apply Z.eqb_refl.
  - apply Nat.eqb_refl.
  - rewrite Nat.eqb_refl. simpl. induction H as [|u l Hu Hl IH]; [reflexivity|]. rewrite Hu. exact IH.
  - rewrite IHe. destruct o; reflexivity.
  - rewrite IHe1, IHe2. destruct o; reflexivity.
  - assert (Hf : intr_eqb f f = true) by (destruct f; reflexivity). rewrite Hf. simpl.
    induction H as [|u l Hu Hl IH]; [reflexivity|]. rewrite Hu. exact IH.
Qed.

Lemma exprs_eqb_eq : forall a b, list_beq expr_eqb a b = true -> a = b.
Proof.
  induction a as [|x a IH]; intros [|y b] E; simpl in E; try discriminate; [reflexivity|].
  apply andb_true_iff in E as [E1 E2]. f_equal; [apply expr_eqb_eq, E1 | apply IH, E2].
Qed.

Lemma index_eqb_eq a b : index_eqb a b = true -> a = b.
Proof.
  destruct a, b; simpl; intro E; try discriminate.
  - apply expr_eqb_eq in E. congruence.
  - apply andb_true_iff in E as [E12 E3]. apply andb_true_iff in E12 as [E1 E2].
    apply expr_eqb_eq in E1, E2, E3. congruence.
Qed.

Lemma indices_eqb_eq : forall a b, list_beq index_eqb a b = true -> a = b.
Proof.
  induction a as [|x a IH]; intros [|y b] E; simpl in E; try discriminate; [reflexivity|].
  apply andb_true_iff in E as [E1 E2]. f_equal; [apply index_eqb_eq, E1 | apply IH, E2].
Qed.

(* ------------------------------------------------------------------ "name x occurs in" *)
Fixpoint mentions (x : name) (e : expr) : bool :=
  match e with
  | ELit _ => false
  | EVar y => Nat.eqb x y
  | EIdx a ix => Nat.eqb x a || existsb (mentions x) ix
  | EUn _ e1 => mentions x e1
  | EBin _ l r => mentions x l || mentions x r
  | EIntr _ args => existsb (mentions x) args
  end.

Definition imentions (x : name) (i : index) : bool :=
  match i with
  | IExp e => mentions x e
  | IRange lo hi st => mentions x lo || mentions x hi || mentions x st
  end.

(* x occurs in an index/bound expression, as a scalar, or as an array name *)
Fixpoint amentions (x : name) (e : aexpr) : bool :=
  match e with
  | ALit _ => false
  | AVar y => Nat.eqb x y
  | ASec a ix => Nat.eqb x a || existsb (imentions x) ix
  | AUn _ e1 => amentions x e1
  | ABin _ l r => amentions x l || amentions x r
  | AIntr1 _ e1 => amentions x e1
  | AIntr2 _ l r => amentions x l || amentions x r
  end.

(* first range of an index list with its position *)
Fixpoint range_pos (p : nat) (ix : list index) : option (nat * expr * expr * expr) :=
  match ix with
  | [] => None
  | IRange lo hi st :: _ => Some (p, lo, hi, st)
  | IExp _ :: r => range_pos (S p) r
  end.

Definition is_range (i : index) : bool := match i with IRange _ _ _ => true | _ => false end.
Definition n_ranges (ix : list index) : nat := length (filter is_range ix).

(* pre-order list of the accessors of an array expression *)
Fixpoint accessors (e : aexpr) : list (name * list index) :=
  match e with
  | ALit _ | AVar _ => []
  | ASec a ix => [(a, ix)]
  | AUn _ e1 | AIntr1 _ e1 => accessors e1
  | ABin _ l r | AIntr2 _ l r => accessors l ++ accessors r
  end.
