(* C06 — semantics of the array constructs (Fortran: the whole right-hand side is evaluated before
   any element is stored; reductions / DOT_PRODUCT / MATMUL as functions of the store) and
   FAITHFUL models of the `apply` methods of
     ArrayAssignment2LoopsTrans (one range per accessor)   arrayassignment2loops_trans.py:96-160
     ArrayMixin.same_range                                  nodes/array_mixin.py:658-826
     Abs2CodeTrans / Sign2CodeTrans / MinOrMax2CodeTrans    intrinsics/{abs,sign,minormax}2code_trans.py
     ArrayReductionBaseTrans.apply (+ Sum/Product/Minval/Maxval)  intrinsics/array_reduction_base_trans.py
     DotProduct2CodeTrans.apply, Matmul2CodeTrans._apply_matrix_vector
   as they are today (including their defects).  Definitions only; proofs are in the *Proofs.v files. *)
From Coq Require Import List ZArith Bool Lia.
Import ListNotations.
From PV Require Import Fort.Syntax Fort.Sem Fort.Facts Base.Harness C06.Syntax.
Open Scope Z_scope.

(* ================================================================== semantics of sections *)
(* value of an index for element number k (0-based) of the section *)
Definition ix_val (s : store) (k : Z) (i : index) : option Z :=
  match i with
  | IExp e => eval s e
  | IRange lo _ st => match eval s lo, eval s st with Some l, Some t => Some (l + k * t) | _, _ => None end
  end.

(* element k of an array-valued expression (scalars are broadcast) *)
Fixpoint aeval (s : store) (k : Z) (e : aexpr) : option Z :=
  match e with
  | ALit z => Some z
  | AVar x => Some (val s (x, []))
  | ASec a ix => match opt_all (map (ix_val s k) ix) with Some vs => Some (val s (a, vs)) | None => None end
  | AUn o e1 => option_map (eval_un o) (aeval s k e1)
  | ABin o l r => match aeval s k l, aeval s k r with Some a, Some b => eval_bin o a b | _, _ => None end
  | AIntr1 f e1 => match aeval s k e1 with Some a => eval_intr s (intr_of f) [] [a] | None => None end
  | AIntr2 f l r => match aeval s k l, aeval s k r with
                    | Some a, Some b => eval_intr s (intr_of f) [] [a; b] | _, _ => None end
  end.

(* zseq k n = [k; k+1; ..; k+n-1] is Fort.Facts.zseq *)

(* array assignment  a(ix) = rhs  with exactly the first range of ix giving the extent *)
Record aassign := mkAA { aa_arr : name; aa_ix : list index; aa_rhs : aexpr }.

Definition aa_elem (s : store) (a : aassign) (k : Z) : option (loc * Z) :=
  match opt_all (map (ix_val s k) (aa_ix a)), aeval s k (aa_rhs a) with
  | Some vs, Some v => Some ((aa_arr a, vs), v)
  | _, _ => None
  end.

Definition store_all (s : store) (lvs : list (loc * Z)) : store :=
  fold_left (fun s' lv => upd s' (fst lv) (snd lv)) lvs s.

(* None = fault (an element cannot be evaluated, zero stride) or not an array assignment *)
Definition aa_sem (a : aassign) (s : store) : option store :=
  match range_pos 0 (aa_ix a) with
  | Some (_, lo, hi, st) =>
      match eval s lo, eval s hi, eval s st with
      | Some l, Some h, Some t =>
          if t =? 0 then None
          else match opt_all (map (aa_elem s a) (zseq 0 (trip_count l h t))) with
               | Some lvs => Some (store_all s lvs)     (* ALL elements evaluated in s, then stored *)
               | None => None
               end
      | _, _, _ => None
      end
  | None => None
  end.

(* ================================================================== ArrayMixin.same_range *)
(* static declarations: declared (lower, upper) bounds per dimension *)
Definition decls := name -> list (Z * Z).

(* ArrayMixin.is_lower_bound: LBOUND(a, p+1) or the literal declared lower bound *)
Definition is_lower (d : decls) (a : name) (p : nat) (lo : expr) : bool :=
  match lo with
  | EIntr ILbound [EVar b; ELit q] => Nat.eqb a b && (q =? Z.of_nat (S p))
  | ELit z => match nth_error (d a) p with Some (lb, _) => z =? lb | None => false end
  | _ => false
  end.

Definition start_norm (d : decls) (a : name) (p : nat) (lo : expr) : expr :=
  if is_lower d a p lo then match nth_error (d a) p with Some (lb, _) => ELit lb | None => lo end else lo.

(* Variants of the code: each flag says that the corresponding repair of props/C06/fix.patch is present
   in the tree under test (determined on every run by probing the implementation, see check.py);
   `unfixed` is the code as found. *)
Record fixes := mkFixes { fx_shortcut : bool; fx_stride : bool; fx_redstore : bool }.
Definition unfixed : fixes := mkFixes false false false.

(* SymbolicMaths.equal is modelled as syntactic equality (the generators keep to normal forms);
   within one statement with the same number of preceding ranges the lengths are assumed equal, so
   only start and step are compared; unfixed: "same array and both at their lower bound" returns True at
   once WITHOUT comparing dimensions or steps (array_mixin.py:769-771); fixed: it also requires the same
   dimension and equal steps. *)
Definition same_range (fx : fixes) (d : decls) (a : name) (p : nat) (lo st : expr)
                      (b : name) (q : nat) (lo' st' : expr) : bool :=
  if is_lower d a p lo && Nat.eqb a b && is_lower d b q lo' &&
     (if fx_shortcut fx then Nat.eqb p q && expr_eqb st st' else true) then true
  else expr_eqb (start_norm d a p lo) (start_norm d b q lo') && expr_eqb st st'.

(* ================================================================== range -> loop index rewriting *)
(* replacement for the (single) range of accessor b at position q *)
Definition ridx_t := name -> nat -> expr -> expr -> expr.

Fixpoint lower_ixs (r : ridx_t) (b : name) (q : nat) (ix : list index) : list expr :=
  match ix with
  | [] => []
  | IExp e :: rest => e :: lower_ixs r b (S q) rest
  | IRange lo _ st :: rest => r b q lo st :: lower_ixs r b (S q) rest
  end.

Fixpoint lower (r : ridx_t) (e : aexpr) : expr :=
  match e with
  | ALit z => ELit z
  | AVar x => EVar x
  | ASec a ix => EIdx a (lower_ixs r a 0 ix)
  | AUn o e1 => EUn o (lower r e1)
  | ABin o l r' => EBin o (lower r l) (lower r r')
  | AIntr1 f e1 => EIntr (intr_of f) [lower r e1]
  | AIntr2 f l r' => EIntr (intr_of f) [lower r l; lower r r']
  end.

(* arrayassignment2loops_trans.py:131-145; fixed: ranges whose strides are not known to be equal are
   indexed by element number, start' + (idx - start)/step * step' *)
Definition ridx_of (fx : fixes) (d : decls) (idx : name) (a : name) (p : nat) (lo st : expr) : ridx_t :=
  fun b q lo' st' =>
    if same_range fx d a p lo st b q lo' st' then EVar idx
    else if negb (fx_stride fx) || expr_eqb st' st then EBin Add (EVar idx) (EBin Sub lo' lo)
    else EBin Add lo' (EBin Mul (EBin Div (EBin Sub (EVar idx) lo) st) st').

(* validate, restricted to this syntax: the lhs has a range and all accessors with ranges have the
   same number of ranges (here: one) *)
Definition aa_accept (a : aassign) : bool :=
  Nat.eqb (n_ranges (aa_ix a)) 1 &&
  forallb (fun acc => Nat.leb (n_ranges (snd acc)) 1) (accessors (aa_rhs a)).

Definition aa_apply (fx : fixes) (d : decls) (idx : name) (a : aassign) : option (list stmt) :=
  if aa_accept a then
    match range_pos 0 (aa_ix a) with
    | Some (p, lo, hi, st) =>
        let r := ridx_of fx d idx (aa_arr a) p lo st in
        Some [SDo idx lo hi st [SAssign (aa_arr a) (lower_ixs r (aa_arr a) 0 (aa_ix a)) (lower r (aa_rhs a))]]
    | None => None
    end
  else None.

(* ================================================================== ABS / SIGN / MIN / MAX *)
(* path to a sub-expression; never into the array argument of an inquiry intrinsic *)
Fixpoint get_at (p : list nat) (e : expr) : option expr :=
  match p with
  | [] => Some e
  | i :: p' =>
      match e with
      | EUn _ e1 => match i with O => get_at p' e1 | _ => None end
      | EBin _ l r => match i with O => get_at p' l | S O => get_at p' r | _ => None end
      | EIdx _ ix => match nth_error ix i with Some x => get_at p' x | None => None end
      | EIntr f args => if is_inquiry f && Nat.eqb i 0 then None
                        else match nth_error args i with Some x => get_at p' x | None => None end
      | _ => None
      end
  end.

Fixpoint set_nth {A} (l : list A) (i : nat) (x : A) : list A :=
  match l, i with
  | [], _ => []
  | _ :: r, O => x :: r
  | y :: r, S i' => y :: set_nth r i' x
  end.

Fixpoint put_at (p : list nat) (e r : expr) : expr :=
  match p with
  | [] => r
  | i :: p' =>
      match e with
      | EUn o e1 => match i with O => EUn o (put_at p' e1 r) | _ => e end
      | EBin o l rr => match i with O => EBin o (put_at p' l r) rr | S O => EBin o l (put_at p' rr r) | _ => e end
      | EIdx a ix => match nth_error ix i with Some x => EIdx a (set_nth ix i (put_at p' x r)) | None => e end
      | EIntr f args => match nth_error args i with Some x => EIntr f (set_nth args i (put_at p' x r)) | None => e end
      | _ => e
      end
  end.

(* abs2code_trans.py:108-156 *)
Definition abs_code (res tmp : name) (X : expr) : list stmt :=
  [SAssign tmp [] X;
   SIf (EBin Gt (EVar tmp) (ELit 0)) [SAssign res [] (EVar tmp)]
                                    [SAssign res [] (EBin Mul (EVar tmp) (ELit (-1)))]].

(* sign2code_trans.py:124-172 (ABS(A) is lowered by Abs2CodeTrans) *)
Definition sign_code (res tmp res_abs tmp_abs : name) (A B : expr) : list stmt :=
  abs_code res_abs tmp_abs A ++
  [SAssign res [] (EVar res_abs);
   SAssign tmp [] B;
   SIf (EBin Lt (EVar tmp) (ELit 0)) [SAssign res [] (EBin Mul (EVar res) (ELit (-1)))] []].

(* minormax2code_trans.py:131-174; cmp = Lt for MIN, Gt for MAX *)
Definition minmax_step (cmp : binop) (res tmp : name) (B : expr) : list stmt :=
  [SAssign tmp [] B; SIf (EBin cmp (EVar tmp) (EVar res)) [SAssign res [] (EVar tmp)] []].
Definition minmax_code (cmp : binop) (res tmp : name) (args : list expr) : list stmt :=
  match args with
  | [] => []
  | A :: rest => SAssign res [] A :: flat_map (minmax_step cmp res tmp) rest
  end.

Inductive sintr := KAbs | KSign | KMin | KMax.

(* the statement  x(ix) = e  with the intrinsic call at path p of e;  names = fresh symbols in the
   order the implementation creates them *)
Definition intr_apply (k : sintr) (names : list name) (x : name) (ix : list expr) (e : expr) (p : list nat)
  : option (list stmt) :=
  match get_at p e, k, names with
  | Some (EIntr IAbs [X]), KAbs, [res; tmp] =>
      Some (abs_code res tmp X ++ [SAssign x ix (put_at p e (EVar res))])
  | Some (EIntr ISign [A; B]), KSign, [res; tmp; res_abs; tmp_abs] =>
      Some (sign_code res tmp res_abs tmp_abs A B ++ [SAssign x ix (put_at p e (EVar res))])
  | Some (EIntr IMin (A :: rest)), KMin, [res; tmp] =>
      Some (minmax_code Lt res tmp (A :: rest) ++ [SAssign x ix (put_at p e (EVar res))])
  | Some (EIntr IMax (A :: rest)), KMax, [res; tmp] =>
      Some (minmax_code Gt res tmp (A :: rest) ++ [SAssign x ix (put_at p e (EVar res))])
  | _, _, _ => None
  end.

(* ================================================================== reductions *)
Inductive rkind := RSum | RProduct | RMinval | RMaxval.

Definition red_init (k : rkind) : expr :=
  match k with
  | RSum => ELit 0 | RProduct => ELit 1 | RMinval => ELit HUGE | RMaxval => EUn Neg (ELit HUGE)
  end.
Definition red_op (k : rkind) (acc el : expr) : expr :=
  match k with
  | RSum => EBin Add acc el | RProduct => EBin Mul acc el
  | RMinval => EIntr IMin [acc; el] | RMaxval => EIntr IMax [acc; el]
  end.
Definition red_zop (k : rkind) : Z -> Z -> Z :=
  match k with RSum => Z.add | RProduct => Z.mul | RMinval => Z.min | RMaxval => Z.max end.

(* Fortran value of the reduction of the selected elements *)
Definition red_value (k : rkind) (xs : list Z) : Z :=
  match k with
  | RSum => fold_right Z.add 0 xs
  | RProduct => fold_right Z.mul 1 xs
  | RMinval => match xs with [] => HUGE | x :: r => fold_left Z.min r x end
  | RMaxval => match xs with [] => - HUGE | x :: r => fold_left Z.max r x end
  end.

(* elements k = 0..n-1 of `arr` selected by `mask` (all evaluated in s); None = fault *)
Fixpoint red_elems (s : store) (arr : aexpr) (mask : option aexpr) (ks : list Z) : option (list Z) :=
  match ks with
  | [] => Some []
  | k :: r =>
      match aeval s k arr, (match mask with Some m => aeval s k m | None => Some 1 end), red_elems s arr mask r with
      | Some v, Some b, Some vs => Some (if b =? 0 then vs else v :: vs)
      | _, _, _ => None
      end
  end.

(* the extent is taken from the first accessor of the array expression (array_refs[0]) *)
Definition red_sem (k : rkind) (arr : aexpr) (mask : option aexpr) (s : store) : option Z :=
  match accessors arr with
  | (_, fix_) :: _ =>
      match range_pos 0 fix_ with
      | Some (_, lo, hi, st) =>
          match eval s lo, eval s hi, eval s st with
          | Some l, Some h, Some t =>
              if t =? 0 then None
              else option_map (red_value k) (red_elems s arr mask (zseq 0 (trip_count l h t)))
          | _, _, _ => None
          end
      | None => None
      end
  | [] => None
  end.

Definition tgt_ref (x : name) (xi : list expr) : expr := match xi with [] => EVar x | _ => EIdx x xi end.

(* array_reduction_base_trans.py:178-270: the loop part, writing into x(xi) *)
Definition red_loop (fx : fixes) (d : decls) (idx : name) (x : name) (xi : list expr) (k : rkind)
                    (arr : aexpr) (mask : option aexpr) : option (list stmt) :=
  match accessors arr with
  | (f, fix_) :: _ =>
      if Nat.eqb (n_ranges fix_) 1 &&
         forallb (fun acc => Nat.leb (n_ranges (snd acc)) 1)
                 (accessors arr ++ match mask with Some m => accessors m | None => [] end)
      then
        match range_pos 0 fix_ with
        | Some (p, lo, hi, st) =>
            let r := ridx_of fx d idx f p lo st in
            let body := SAssign x xi (red_op k (tgt_ref x xi) (lower r arr)) in
            Some [SAssign x xi (red_init k);
                  SDo idx lo hi st [match mask with Some m => SIf (lower r m) [body] [] | None => body end]]
        | None => None
        end
      else None
  | [] => None
  end.

(* substitution of an expression for a variable (the variable marks the place of the call) *)
Fixpoint subst_var (h : name) (r : expr) (e : expr) : expr :=
  match e with
  | ELit z => ELit z
  | EVar y => if Nat.eqb h y then r else EVar y
  | EIdx a ix => EIdx a (map (subst_var h r) ix)
  | EUn o e1 => EUn o (subst_var h r e1)
  | EBin o l rr => EBin o (subst_var h r l) (subst_var h r rr)
  | EIntr f args => EIntr f (map (subst_var h r) args)
  end.

(* the whole statement  x(xi) = C[RED(arr, mask)]:  C is `ctx` with the variable `hole` standing for
   the call (hole is not otherwise used); ctx = None when the rhs is just the call.
   `increment` = the lhs symbol occurs on the rhs (then a temporary tmp receives the reduction).
   Unfixed: NO final assignment when the rhs is just the call, even when the reduction was accumulated
   into the temporary (array_reduction_base_trans.py:271-281); fixed: x(xi) = tmp is added. *)
Definition name_in_aexpr_opt (x : name) (m : option aexpr) : bool :=
  match m with Some e => amentions x e | None => false end.

Definition red_increment (x : name) (arr : aexpr) (mask : option aexpr) (ctx : option expr) : bool :=
  amentions x arr || name_in_aexpr_opt x mask || match ctx with Some c => mentions x c | None => false end.

Definition red_apply (fx : fixes) (d : decls) (idx tmp : name) (x : name) (xi : list expr) (k : rkind)
                     (arr : aexpr) (mask : option aexpr) (ctx : option expr) (hole : name)
  : option (list stmt) :=
  let inc := red_increment x arr mask ctx in
  let nx := if inc then tmp else x in
  let nxi := if inc then [] else xi in
  match red_loop fx d idx nx nxi k arr mask with
  | Some loop =>
      match ctx with
      | None => if fx_redstore fx && inc then Some (loop ++ [SAssign x xi (tgt_ref nx nxi)]) else Some loop
      | Some c => Some (loop ++ [SAssign x xi (subst_var hole (tgt_ref nx nxi) c)])
      end
  | None => None
  end.

(* Fortran meaning of the original statement; None = fault *)
Definition red_stmt_sem (k : rkind) (x : name) (xi : list expr) (arr : aexpr) (mask : option aexpr)
                        (ctx : option expr) (hole : name) (s : store) : option store :=
  match red_sem k arr mask s, opt_all (map (eval s) xi) with
  | Some v, Some xv =>
      match ctx with
      | None => Some (upd s (x, xv) v)
      | Some c => match eval (upd s (hole, []) v) c with
                  | Some w => Some (upd s (x, xv) w)
                  | None => None
                  end
      end
  | _, _ => None
  end.

(* ================================================================== DOT_PRODUCT / MATMUL *)
Fixpoint sum_upto (f : Z -> Z) (n : nat) : Z :=
  match n with O => 0 | S m => sum_upto f m + f (Z.of_nat m) end.

Definition extent (b : Z * Z) : nat := Z.to_nat (Z.max 0 (snd b - fst b + 1)).
Definition dim0 (d : decls) (a : name) : Z * Z := nth 0 (d a) (1, 0).
Definition dim1 (d : decls) (a : name) : Z * Z := nth 1 (d a) (1, 0).

(* DOT_PRODUCT(v1(:, r1..), v2(:, r2..)) with declared bounds: element k of each vector *)
Definition dot_sem (d : decls) (v1 : name) (r1 : list expr) (v2 : name) (r2 : list expr) (s : store) : option Z :=
  match opt_all (map (eval s) r1), opt_all (map (eval s) r2) with
  | Some a1, Some a2 =>
      Some (sum_upto (fun k => val s (v1, (fst (dim0 d v1) + k) :: a1) * val s (v2, (fst (dim0 d v2) + k) :: a2))
                     (extent (dim0 d v1)))
  | _, _ => None
  end.

(* dotproduct2code_trans.py:55-100, 260-330: loop bounds are the declared bounds of the FIRST vector;
   both vectors are indexed with the same loop variable *)
Definition dot_apply (d : decls) (i res : name) (x : name) (xi : list expr) (ctx : expr) (hole : name)
                     (v1 : name) (r1 : list expr) (v2 : name) (r2 : list expr) : list stmt :=
  [SAssign res [] (ELit 0);
   SDo i (ELit (fst (dim0 d v1))) (ELit (snd (dim0 d v1))) (ELit 1)
     [SAssign res [] (EBin Add (EVar res) (EBin Mul (EIdx v1 (EVar i :: r1)) (EIdx v2 (EVar i :: r2))))];
   SAssign x xi (subst_var hole (EVar res) ctx)].

(* r = MATMUL(m, v), whole arrays: r(lbr+k) = sum_q m(lbm1+k, lbm2+q) * v(lbv+q) *)
Definition matvec_elem (d : decls) (m v : name) (s : store) (k : Z) : Z :=
  sum_upto (fun q => val s (m, [fst (dim0 d m) + k; fst (dim1 d m) + q]) * val s (v, [fst (dim0 d v) + q]))
           (extent (dim1 d m)).

Definition matvec_sem (d : decls) (r m v : name) (s : store) : store :=
  store_all s (map (fun k => ((r, [fst (dim0 d r) + k]), matvec_elem d m v s k)) (zseq 0 (extent (dim0 d m)))).

(* matmul2code_trans.py:318-375 *)
Definition matvec_apply (d : decls) (i j : name) (r m v : name) : list stmt :=
  [SDo i (ELit (fst (dim0 d m))) (ELit (snd (dim0 d m))) (ELit 1)
     [SAssign r [EVar i] (ELit 0);
      SDo j (ELit (fst (dim0 d v))) (ELit (snd (dim0 d v))) (ELit 1)
        [SAssign r [EVar i]
           (EBin Add (EIdx r [EVar i]) (EBin Mul (EIdx m [EVar i; EVar j]) (EIdx v [EVar j])))]]].

(* validate: the result must not be one of the operands (matmul2code_trans.py:283-286) *)
Definition matvec_accept (r m v : name) : bool := negb (Nat.eqb r m) && negb (Nat.eqb r v).
