(* C06 — executable checks used by the correspondence run (props/C06/coqenc.py): the model's output
   tree must equal the implementation's output tree, and the Coq semantics of the original construct
   must give the values computed by the harness interpreter (ties props/C06/ext.py to Model.v). *)
From Coq Require Import List ZArith Bool.
Import ListNotations.
From PV Require Import Fort.Syntax Fort.Sem Fort.Facts Base.Harness C06.Syntax C06.Model.
Open Scope Z_scope.

Definition decls_of (l : list (name * list (Z * Z))) : decls :=
  fun a => match find (fun p => Nat.eqb (fst p) a) l with Some p => snd p | None => [] end.

Definition vals_ok (s : store) (expect : list (loc * Z)) : bool :=
  forallb (fun lv => val s (fst lv) =? snd lv) expect.

Inductive ccase :=
| CArr (d : list (name * list (Z * Z))) (idx : name) (a : aassign) (out : list stmt)
       (st : option (store * list (loc * Z)))
| CIntr (k : sintr) (names : list name) (x : name) (ix : list expr) (e : expr) (p : list nat) (out : list stmt)
| CRed (d : list (name * list (Z * Z))) (idx tmp : name) (x : name) (xi : list expr) (k : rkind)
       (arr : aexpr) (mask : option aexpr) (ctx : option expr) (hole : name) (out : list stmt)
       (st : option (store * list (loc * Z)))
| CDot (d : list (name * list (Z * Z))) (i res : name) (x : name) (xi : list expr) (ctx : expr) (hole : name)
       (v1 : name) (r1 : list expr) (v2 : name) (r2 : list expr) (out : list stmt)
       (st : option (store * Z))
| CMatvec (d : list (name * list (Z * Z))) (i j r m v : name) (out : list stmt)
          (st : option (store * list (loc * Z))).

Definition check (fx : fixes) (c : ccase) : bool :=
  match c with
  | CArr d idx a out st =>
      match aa_apply fx (decls_of d) idx a with Some p => stmts_eqb p out | None => false end &&
      match st with
      | Some (s, expect) => match aa_sem a s with Some s' => vals_ok s' expect | None => false end
      | None => true
      end
  | CIntr k names x ix e p out =>
      match intr_apply k names x ix e p with Some q => stmts_eqb q out | None => false end
  | CRed d idx tmp x xi k arr mask ctx hole out st =>
      match red_apply fx (decls_of d) idx tmp x xi k arr mask ctx hole with Some q => stmts_eqb q out | None => false end &&
      match st with
      | Some (s, expect) =>
          match red_stmt_sem k x xi arr mask ctx hole s with Some s' => vals_ok s' expect | None => false end
      | None => true
      end
  | CDot d i res x xi ctx hole v1 r1 v2 r2 out st =>
      stmts_eqb (dot_apply (decls_of d) i res x xi ctx hole v1 r1 v2 r2) out &&
      match st with
      | Some (s, v) => match dot_sem (decls_of d) v1 r1 v2 r2 s with Some w => w =? v | None => false end
      | None => true
      end
  | CMatvec d i j r m v out st =>
      matvec_accept r m v && stmts_eqb (matvec_apply (decls_of d) i j r m v) out &&
      match st with
      | Some (s, expect) => vals_ok (matvec_sem (decls_of d) r m v s) expect
      | None => true
      end
  end.
