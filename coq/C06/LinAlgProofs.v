(* C06 — DOT_PRODUCT and MATMUL (matrix * vector) lowering: correct for all contents and extents when
   the declared lower bounds that the generated loops silently identify are equal; refuted by
   witnesses when they differ (the unchanged code indexes both operands with one loop variable). *)
From Coq Require Import List ZArith Bool Lia.
Import ListNotations.
From PV Require Import Fort.Syntax Fort.Sem Fort.Facts Base.Harness C06.Syntax C06.Model C06.Common
                       C06.ArrayAssignProofs C06.IntrinsicProofs C06.ReductionProofs.
Open Scope Z_scope.

Lemma trip_unit lb ub : trip_count lb ub 1 = extent (lb, ub).
Proof. unfold trip_count, extent. cbn [fst snd]. rewrite Z.quot_1_r. reflexivity. Qed.

Lemma dim_pair (b : Z * Z) : b = (fst b, snd b).
Proof. destruct b; reflexivity. Qed.

(* ================================================================== DOT_PRODUCT *)
Definition dot_safe (d : decls) (i res hole x : name) (xi : list expr) (ctx : expr)
                    (v1 : name) (r1 : list expr) (v2 : name) (r2 : list expr) : bool :=
  (fst (dim0 d v1) =? fst (dim0 d v2)) &&
  negb (Nat.eqb i res) && negb (Nat.eqb i v1) && negb (Nat.eqb i v2) && negb (Nat.eqb res v1) && negb (Nat.eqb res v2) &&
  negb (Nat.eqb i x) && negb (Nat.eqb res x) &&
  forallb (fun e => negb (mentions i e) && negb (mentions res e)) (r1 ++ r2 ++ xi) &&
  hole_ok hole ctx && negb (mentions i ctx) && negb (mentions res ctx).

Theorem dot_sound_partial_ d i res hole x xi ctx v1 r1 v2 r2 s v xv w :
  dot_safe d i res hole x xi ctx v1 r1 v2 r2 = true ->
  dot_sem d v1 r1 v2 r2 s = Some v ->
  opt_all (map (eval s) xi) = Some xv -> eval (upd s (hole, []) v) ctx = Some w ->
  hoare 8 (dot_apply d i res x xi ctx hole v1 r1 v2 r2) s
        (fun s2 => agree_except [i; res; hole] s2 (upd s (x, xv) w)).
Proof.
  intros Safe Sem Exi Ectx. unfold dot_safe in Safe.
  repeat (apply andb_true_iff in Safe as [Safe ?H]).
  apply Z.eqb_eq in Safe.
  repeat match goal with H : negb (Nat.eqb _ _) = true |- _ => apply negb_true_iff in H; apply Nat.eqb_neq in H end.
  repeat match goal with H : negb (mentions _ _) = true |- _ => apply negb_true_iff in H end.
  rename H into Mres, H0 into Mi, H1 into Hok, H2 into Ffr, H3 into Nrx, H4 into Nix, H5 into Nr2, H6 into Nr1,
         H7 into Ni2, H8 into Ni1, H9 into Nir.
  unfold dot_sem in Sem.
  destruct (opt_all (map (eval s) r1)) as [a1|] eqn:E1; [|discriminate].
  destruct (opt_all (map (eval s) r2)) as [a2|] eqn:E2; [|discriminate].
  inversion Sem; subst v. clear Sem.
  set (lb1 := fst (dim0 d v1)) in *. set (lb2 := fst (dim0 d v2)) in *. set (ub1 := snd (dim0 d v1)).
  set (g := fun k => val s (v1, (lb1 + k) :: a1) * val s (v2, (lb2 + k) :: a2)) in *.
  set (n := extent (dim0 d v1)) in *.
  assert (Ffr' : forall e, In e (r1 ++ r2 ++ xi) -> mentions i e = false /\ mentions res e = false).
  { intros e He. rewrite forallb_forall in Ffr. specialize (Ffr e He). apply andb_true_iff in Ffr as [A B].
    apply negb_true_iff in A, B. auto. }
  (* expressions fresh of i and res evaluate as in s whenever only i and res changed *)
  assert (Hfresh : forall s1 es, agree_except [i; res] s1 s -> (forall e, In e es -> In e (r1 ++ r2 ++ xi)) ->
                     map (eval s1) es = map (eval s) es).
  { intros s1 es A Sub. apply (evals_agree [i; res] s s1 es A). intros y e [<-|[<-|[]]] He; apply Ffr', Sub, He. }
  unfold dot_apply. fold lb1 ub1.
  apply (hoare_cons 2 6 _ _ _ (fun s1 => s1 = upd s (res, []) 0)).
  { eapply hoare_assign; [reflexivity | reflexivity | reflexivity]. }
  intros si ->. set (si := upd s (res, []) 0).
  set (P := fun (j : nat) (sj : store) => val sj (res, []) = sum_upto g j /\ agree_except [i; res] sj s).
  apply (hoare_cons 4 2 _ _ _ (fun s' => exists s2, P n s2 /\ s' = upd s2 (i, []) (lb1 + Z.of_nat n * 1))).
  - assert (Hn : trip_count lb1 ub1 1 = n).
    { rewrite trip_unit. unfold n, lb1, ub1. rewrite <- dim_pair. reflexivity. }
    rewrite <- Hn. change 4%nat with (S (S 2)). eapply (hoare_do 2 i _ _ _ _ si lb1 ub1 1 P); try reflexivity; [lia | |].
    + intros j sj Hj [Vr Ag]. set (s1 := upd sj (i, []) (lb1 + Z.of_nat j * 1)).
      assert (A1 : agree_except [i; res] s1 s)
        by (eapply agree_trans; [apply agree_upd_fresh; left; reflexivity | exact Ag]).
      assert (Vi : val s1 (i, []) = lb1 + Z.of_nat j) by (unfold s1; rewrite val_upd_same; lia).
      assert (Vr1 : val s1 (res, []) = sum_upto g j)
        by (unfold s1; rewrite val_upd_other by (intro X; inversion X; congruence); exact Vr).
      assert (Er1 : map (eval s1) r1 = map (eval s) r1)
        by (apply Hfresh; [exact A1 | intros e He; apply in_or_app; left; exact He]).
      assert (Er2 : map (eval s1) r2 = map (eval s) r2)
        by (apply Hfresh; [exact A1 | intros e He; apply in_or_app; right; apply in_or_app; left; exact He]).
      eapply hoare_mono; [|eapply hoare_assign]; [lia | reflexivity | |].
      * cbn [eval map opt_all]. rewrite Vr1, Vi, Er1, Er2, E1, E2. cbn [eval_bin]. reflexivity.
      * split.
        -- rewrite val_upd_same. cbn [sum_upto]. f_equal. unfold g. destruct A1 as [_ V].
           rewrite (V (v1, _)) by (cbn [fst In]; intuition congruence).
           rewrite (V (v2, _)) by (cbn [fst In]; intuition congruence). rewrite <- Safe. reflexivity.
        -- eapply agree_trans; [apply agree_upd_fresh; right; left; reflexivity | exact A1].
    + split; [apply val_upd_same | apply agree_upd_fresh; right; left; reflexivity].
  - intros s' [sL [[Vr Ag] ->]]. set (sF := upd sL (i, []) (lb1 + Z.of_nat n * 1)).
    assert (AF : agree_except [i; res] sF s)
      by (eapply agree_trans; [apply agree_upd_fresh; left; reflexivity | exact Ag]).
    destruct AF as [BF VF].
    eapply hoare_conseq; [|eapply (ctx_assign [i; res] s sF x xi xv ctx hole (EVar res) (sum_upto g n) w BF)].
    + intros s2 ->. split; [rewrite !bnd_upd; exact BF|]. intros loc Hn.
      rewrite !val_upd. destruct (loc_eq_dec loc (x, xv)); [reflexivity|]. apply VF. cbn [In] in *. tauto.
    + exact VF.
    + cbn [eval]. unfold sF. rewrite val_upd_other by (intro X; inversion X; congruence). rewrite Vr. reflexivity.
    + exact Hok.
    + intros y [<-|[<-|[]]]; assumption.
    + intros y e [<-|[<-|[]]] He; apply Ffr'; apply in_or_app; right; apply in_or_app; right; exact He.
    + exact Exi.
    + exact Ectx.
Qed.

(* names: 0 = v1 (1:2), 1 = v2 (0:1), 2 = x, 3 = i, 4 = res, 5 = hole *)
Definition dx_decls : decls := fun n => match n with O => [(1, 2)] | S O => [(0, 1)] | _ => [] end.
Definition dx_store : store :=
  store_of [((0%nat, [1]), 2); ((0%nat, [2]), 3); ((1%nat, [0]), 5); ((1%nat, [1]), 7)] [(0%nat, [(1, 2)]); (1%nat, [(0, 1)])].

(* x = DOT_PRODUCT(v1, v2) with v1(1:2), v2(0:1): 2*5 + 3*7 = 31, the generated loop reads v2(1), v2(2) *)
Theorem dot_refuted_ :
  exists d i res hole x v1 v2 s v s2 tr,
    dot_sem d v1 [] v2 [] s = Some v /\
    exec 20 (dot_apply d i res x [] (EVar hole) hole v1 [] v2 []) s = Ok s2 tr CNormal /\ val s2 (x, []) <> v.
Proof.
  exists dx_decls, 3%nat, 4%nat, 5%nat, 2%nat, 0%nat, 1%nat, dx_store, 31.
  destruct (exec 20 (dot_apply dx_decls 3%nat 4%nat 2%nat [] (EVar 5%nat) 5%nat 0%nat [] 1%nat []) dx_store)
    as [s2 tr c| |] eqn:E; [|vm_compute in E; discriminate|vm_compute in E; discriminate].
  exists s2, tr.
  assert (Hc : c = CNormal /\ val s2 (2%nat, []) = 14).
  { revert E. vm_compute. intro H. inversion H; subst. split; reflexivity. }
  destruct Hc as [-> H2]. split; [vm_compute; reflexivity|]. split; [reflexivity|].
  intro X. pose proof (eq_trans (eq_sym H2) X) as Y. discriminate Y.
Qed.

Example dot_safe_nonvacuous :
  let d : decls := fun n => match n with O => [(2, 3)] | S O => [(2, 3)] | _ => [] end in
  let s := store_of [((0%nat, [2]), 2); ((0%nat, [3]), 3); ((1%nat, [2]), 5); ((1%nat, [3]), 7)] [] in
  dot_safe d 3%nat 4%nat 5%nat 2%nat [] (EBin Add (EVar 5%nat) (ELit 1)) 0%nat [] 1%nat [] = true /\
  dot_sem d 0%nat [] 1%nat [] s = Some 31.
Proof. cbv zeta. split; vm_compute; reflexivity. Qed.

(* ================================================================== MATMUL, matrix * vector *)
Definition matvec_safe (d : decls) (i j r m v : name) : bool :=
  matvec_accept r m v &&
  (fst (dim0 d r) =? fst (dim0 d m)) && (fst (dim1 d m) =? fst (dim0 d v)) &&
  Nat.eqb (extent (dim0 d v)) (extent (dim1 d m)) &&
  negb (Nat.eqb i j) && negb (Nat.eqb i r) && negb (Nat.eqb i m) && negb (Nat.eqb i v) &&
  negb (Nat.eqb j r) && negb (Nat.eqb j m) && negb (Nat.eqb j v).

Definition mv_lvs (d : decls) (r m v : name) (s : store) (k : nat) : list (loc * Z) :=
  map (fun q => ((r, [fst (dim0 d r) + q]), matvec_elem d m v s q)) (zseq 0 k).

Theorem matvec_sound_partial_ d i j r m v s :
  matvec_safe d i j r m v = true ->
  hoare 7 (matvec_apply d i j r m v) s (fun s2 => agree_except [i; j] s2 (matvec_sem d r m v s)).
Proof.
  intro Safe. unfold matvec_safe, matvec_accept in Safe. repeat (apply andb_true_iff in Safe as [Safe ?H]).
  repeat match goal with H : negb (Nat.eqb _ _) = true |- _ => apply negb_true_iff in H; apply Nat.eqb_neq in H end.
  repeat match goal with H : Z.eqb _ _ = true |- _ => apply Z.eqb_eq in H end.
  repeat match goal with H : Nat.eqb _ _ = true |- _ => apply Nat.eqb_eq in H end.
  assert (Nrm : r <> m) by assumption. assert (Nrv : r <> v) by assumption.
  assert (Njv : j <> v) by assumption. assert (Njm : j <> m) by assumption. assert (Njr : j <> r) by assumption.
  assert (Niv : i <> v) by assumption. assert (Nim : i <> m) by assumption. assert (Nir : i <> r) by assumption.
  assert (Nij : i <> j) by assumption.
  assert (Hext : extent (dim0 d v) = extent (dim1 d m)) by assumption.
  assert (Lmv : fst (dim1 d m) = fst (dim0 d v)) by assumption.
  assert (Lrm : fst (dim0 d r) = fst (dim0 d m)) by assumption.
  set (lbr := fst (dim0 d r)) in *. set (lbm := fst (dim0 d m)) in *. set (ubm := snd (dim0 d m)).
  set (lbm2 := fst (dim1 d m)) in *. set (lbv := fst (dim0 d v)) in *. set (ubv := snd (dim0 d v)).
  set (n := extent (dim0 d m)). set (nin := extent (dim1 d m)) in *.
  unfold matvec_apply, matvec_sem. fold lbm ubm lbv ubv lbr n.
  set (P := fun (k : nat) (sk : store) => agree_except [i; j] sk (store_all s (mv_lvs d r m v s k))).
  assert (Hn : trip_count lbm ubm 1 = n) by (rewrite trip_unit; unfold n, lbm, ubm; rewrite <- dim_pair; reflexivity).
  assert (Hnin : trip_count lbv ubv 1 = nin)
    by (rewrite trip_unit; unfold nin, lbv, ubv; rewrite <- dim_pair; exact Hext).
  eapply hoare_conseq; [|change 7%nat with (S (S 5)); eapply (hoare_do 5 i _ _ _ _ s lbm ubm 1 P); try reflexivity; [lia | |]].
  - intros s' [s2 [HP ->]]. rewrite Hn in HP. unfold P, mv_lvs in HP. fold lbr in HP.
    eapply agree_trans; [apply agree_upd_fresh; left; reflexivity | exact HP].
  - (* one row *)
    intros k sk Hk Ag. rewrite Hn in Hk. set (s1 := upd sk (i, []) (lbm + Z.of_nat k * 1)).
    set (row := lbm + Z.of_nat k).
    assert (A1 : agree_except [i; j] s1 (store_all s (mv_lvs d r m v s k)))
      by (eapply agree_trans; [apply agree_upd_fresh; left; reflexivity | exact Ag]).
    assert (Vi1 : val s1 (i, []) = row) by (unfold s1, row; rewrite val_upd_same; lia).
    (* operands are untouched by the stores into r *)
    assert (Hop : forall (a : name) ix, a <> r -> a <> i -> a <> j -> val s1 (a, ix) = val s (a, ix)).
    { intros a ix N1 N2 N3. destruct A1 as [_ V]. rewrite V by (cbn [fst In]; intuition congruence).
      apply val_store_all_notin. intros lv Hlv X. unfold mv_lvs in Hlv. apply in_map_iff in Hlv as [q [<- _]].
      cbn [fst] in X. inversion X. congruence. }
    set (g := fun q => val s (m, [lbm + Z.of_nat k; lbm2 + q]) * val s (v, [lbv + q])).
    apply (hoare_cons 2 4 _ _ _ (fun s2 => s2 = upd s1 (r, [row]) 0)).
    { eapply hoare_assign; [cbn [map eval opt_all]; rewrite Vi1; reflexivity | reflexivity | reflexivity]. }
    intros s2 ->. set (s2 := upd s1 (r, [row]) 0).
    set (Q := fun (q : nat) (sq : store) =>
                val sq (r, [row]) = sum_upto g q /\ val sq (i, []) = row /\ bnd sq = bnd s2 /\
                forall loc, fst loc <> j -> loc <> (r, [row]) -> val sq loc = val s2 loc).
    eapply hoare_conseq; [|change 4%nat with (S (S 2)); eapply (hoare_do 2 j _ _ _ _ s2 lbv ubv 1 Q); try reflexivity; [lia | |]].
    + (* the row is complete *)
        intros s4 [sq [[Vr [Vi [Bq Lq]]] ->]]. rewrite Hnin in Vr. unfold P.
      assert (Hel : sum_upto g nin = matvec_elem d m v s (Z.of_nat k)) by reflexivity.
      assert (Hl : mv_lvs d r m v s (S k) = mv_lvs d r m v s k ++ [((r, [lbr + Z.of_nat k]), matvec_elem d m v s (Z.of_nat k))]).
      { unfold mv_lvs. rewrite zseq_snoc, map_app. reflexivity. }
      rewrite Hl, store_all_app. cbn [store_all fold_left fst snd].
      destruct A1 as [B1 V1]. split.
      * rewrite !bnd_upd, Bq. unfold s2. rewrite bnd_upd. exact B1.
      * intros loc Hn'. rewrite val_upd_other by (intro X; subst loc; apply Hn'; right; left; reflexivity).
        rewrite val_upd. destruct (loc_eq_dec loc (r, [lbr + Z.of_nat k])) as [->|Nl].
        -- rewrite <- Hel, <- Vr. unfold row. rewrite Lrm. reflexivity.
        -- rewrite Lq; [| intro X; apply Hn'; right; left; symmetry; exact X | unfold row; rewrite <- Lrm; exact Nl].
          unfold s2. rewrite val_upd_other by (unfold row; rewrite <- Lrm; exact Nl). apply V1. exact Hn'.
    + (* one product *)
      intros q sq Hq [Vr [Vi [Bq Lq]]]. rewrite Hnin in Hq.
      set (s3 := upd sq (j, []) (lbv + Z.of_nat q * 1)).
      assert (Vj3 : val s3 (j, []) = lbv + Z.of_nat q) by (unfold s3; rewrite val_upd_same; lia).
      assert (Vi3 : val s3 (i, []) = row)
        by (unfold s3; rewrite val_upd_other by (intro X; inversion X; congruence); exact Vi).
      assert (Vr3 : val s3 (r, [row]) = sum_upto g q)
        by (unfold s3; rewrite val_upd_other by (intro X; inversion X; congruence); exact Vr).
      assert (Hop3 : forall (a : name) ix, a <> r -> a <> i -> a <> j -> val s3 (a, ix) = val s (a, ix)).
      { intros a ix N1 N2 N3. unfold s3. rewrite val_upd_other by (intro X; inversion X; congruence).
        rewrite Lq; [| cbn [fst]; congruence | intro X; inversion X; congruence].
        unfold s2. rewrite val_upd_other by (intro X; inversion X; congruence). apply Hop; assumption. }
      eapply hoare_mono; [|eapply hoare_assign]; [lia | cbn [map eval opt_all]; rewrite Vi3; reflexivity | |].
      * cbn [eval map opt_all]. rewrite Vi3, Vj3. cbn [opt_all]. rewrite Vr3.
        rewrite (Hop3 m) by congruence. rewrite (Hop3 v) by congruence. cbn [eval_bin]. reflexivity.
      * split; [|split; [|split]].
        -- rewrite val_upd_same. cbn [sum_upto]. f_equal. unfold g, row. rewrite <- Lmv. reflexivity.
        -- rewrite val_upd_other by (intro X; inversion X; congruence). exact Vi3.
        -- rewrite bnd_upd. unfold s3. rewrite bnd_upd. exact Bq.
        -- intros loc N1 N2. rewrite val_upd_other by exact N2. unfold s3.
          rewrite val_upd_other by (intro X; subst loc; apply N1; reflexivity). apply Lq; assumption.
    + split; [apply val_upd_same|]. split; [|split; [reflexivity | intros; reflexivity]].
      unfold s2. rewrite val_upd_other by (intro X; inversion X; congruence). exact Vi1.
  - apply agree_refl.
Qed.

(* names: 0 = r (0:1), 1 = m (1:2, 1:2), 2 = v (1:2), 3 = i, 4 = j *)
Definition mx_decls : decls :=
  fun n => match n with O => [(0, 1)] | S O => [(1, 2); (1, 2)] | S (S O) => [(1, 2)] | _ => [] end.
Definition mx_store : store :=
  store_of [((1%nat, [1; 1]), 1); ((1%nat, [1; 2]), 2); ((1%nat, [2; 1]), 3); ((1%nat, [2; 2]), 4);
            ((2%nat, [1]), 5); ((2%nat, [2]), 6)] [].

(* r(0:1) = MATMUL(m(1:2,1:2), v(1:2)): r(0) must be 1*5+2*6 = 17 but the loop writes r(1), r(2) *)
Theorem matvec_refuted_ :
  exists d i j r m v s s2 tr,
    matvec_accept r m v = true /\
    exec 20 (matvec_apply d i j r m v) s = Ok s2 tr CNormal /\
    val s2 (r, [0]) <> val (matvec_sem d r m v s) (r, [0]).
Proof.
  exists mx_decls, 3%nat, 4%nat, 0%nat, 1%nat, 2%nat, mx_store.
  destruct (exec 20 (matvec_apply mx_decls 3%nat 4%nat 0%nat 1%nat 2%nat) mx_store) as [s2 tr c| |] eqn:E;
    [|vm_compute in E; discriminate|vm_compute in E; discriminate].
  exists s2, tr.
  assert (Hc : c = CNormal /\ val s2 (0%nat, [0]) = 0).
  { revert E. vm_compute. intro H. inversion H; subst. split; reflexivity. }
  destruct Hc as [-> H2]. split; [reflexivity|]. split; [reflexivity|].
  assert (H3 : val (matvec_sem mx_decls 0%nat 1%nat 2%nat mx_store) (0%nat, [0]) = 17) by (vm_compute; reflexivity).
  intro X. pose proof (eq_trans (eq_sym H2) (eq_trans X H3)) as Y. discriminate Y.
Qed.

Example matvec_safe_nonvacuous :
  let d : decls := fun n => match n with O => [(2, 3)] | S O => [(2, 3); (0, 1)] | S (S O) => [(0, 1)] | _ => [] end in
  let s := store_of [((1%nat, [2; 0]), 1); ((1%nat, [2; 1]), 2); ((1%nat, [3; 0]), 3); ((1%nat, [3; 1]), 4);
                     ((2%nat, [0]), 5); ((2%nat, [1]), 6)] [] in
  matvec_safe d 3%nat 4%nat 0%nat 1%nat 2%nat = true /\
  val (matvec_sem d 0%nat 1%nat 2%nat s) (0%nat, [3]) = 39.
Proof. cbv zeta. split; vm_compute; reflexivity. Qed.
