(* C06 — SUM / PRODUCT / MINVAL / MAXVAL lowering (1-D extents, optional MASK): the loop built by the
   faithful model accumulates exactly the Fortran value of the reduction, for every extent (also empty)
   and every mask; the whole statement  x = C[RED(..)]  is preserved except in the one shape where
   today's code forgets to store the result (refuted by a witness). *)
From Coq Require Import List ZArith Bool Lia.
Import ListNotations.
From PV Require Import Fort.Syntax Fort.Sem Fort.Facts Base.Harness C06.Syntax C06.Model C06.Common
                       C06.ArrayAssignProofs C06.IntrinsicProofs.
Open Scope Z_scope.

(* ================================================================== values *)
Definition red_init_z (k : rkind) : Z :=
  match k with RSum => 0 | RProduct => 1 | RMinval => HUGE | RMaxval => - HUGE end.
Definition red_acc (k : rkind) (xs : list Z) : Z := fold_left (red_zop k) xs (red_init_z k).

Lemma fold_add_shift l : forall a, fold_left Z.add l a = a + fold_right Z.add 0 l.
Proof. induction l as [|x l IH]; intro a; cbn [fold_left fold_right]; [lia | rewrite IH; lia]. Qed.
Lemma fold_mul_shift l : forall a, fold_left Z.mul l a = a * fold_right Z.mul 1 l.
Proof. induction l as [|x l IH]; intro a; cbn [fold_left fold_right]; [lia | rewrite IH; lia]. Qed.

(* the accumulated value is the Fortran value when the elements are bounded by HUGE *)
Lemma red_acc_value k xs : Forall (fun v => - HUGE <= v <= HUGE) xs -> red_acc k xs = red_value k xs.
Proof.
  intro B. unfold red_acc. destruct k; cbn [red_zop red_init_z red_value].
  - rewrite fold_add_shift. lia.
  - rewrite fold_mul_shift. lia.
  - destruct xs as [|x r]; [reflexivity|]. cbn [fold_left]. inversion B; subst. f_equal. lia.
  - destruct xs as [|x r]; [reflexivity|]. cbn [fold_left]. inversion B; subst. f_equal. lia.
Qed.

Lemma red_elems_app s arr mask l1 l2 :
  red_elems s arr mask (l1 ++ l2) =
  match red_elems s arr mask l1, red_elems s arr mask l2 with
  | Some a, Some b => Some (a ++ b) | _, _ => None end.
Proof.
  induction l1 as [|k l1 IH]; cbn [app red_elems].
  - destruct (red_elems s arr mask l2); reflexivity.
  - rewrite IH. destruct (aeval s k arr) as [v|]; [|reflexivity].
    destruct (match mask with Some m => aeval s k m | None => Some 1 end) as [b|]; [|reflexivity].
    destruct (red_elems s arr mask l1) as [vs|]; [|reflexivity].
    destruct (red_elems s arr mask l2) as [ws|]; [|reflexivity].
    destruct (b =? 0); reflexivity.
Qed.

Lemma red_init_eval s k : eval s (red_init k) = Some (red_init_z k).
Proof. destruct k; reflexivity. Qed.

Lemma red_op_eval k s acc el a v :
  eval s acc = Some a -> eval s el = Some v -> eval s (red_op k acc el) = Some (red_zop k a v).
Proof.
  intros E1 E2. destruct k; cbn [red_op red_zop eval is_inquiry map opt_all]; rewrite E1, E2; reflexivity.
Qed.

Lemma tgt_ref_eval s x xi xv :
  opt_all (map (eval s) xi) = Some xv -> eval s (tgt_ref x xi) = Some (val s (x, xv)).
Proof.
  intro E. unfold tgt_ref. destruct xi as [|e xi].
  - cbn [map opt_all] in E. inversion E; subst. reflexivity.
  - cbn [eval]. rewrite E. reflexivity.
Qed.

(* ================================================================== the sufficient condition *)
Definition red_safe (fx : fixes) (d : decls) (idx x : name) (xi : list expr) (arr : aexpr) (mask : option aexpr) : bool :=
  match accessors arr with
  | (F, fix_) :: _ =>
      match range_pos 0 fix_ with
      | Some (p, lo, hi, st) =>
          let chk := acc_safe fx d idx x None F p lo st in
          negb (Nat.eqb idx x) && chk F fix_ && aexpr_safe chk idx x arr &&
          (match mask with Some m => aexpr_safe chk idx x m | None => true end) &&
          forallb (fun e => negb (mentions idx e) && negb (mentions x e)) xi
      | None => false
      end
  | [] => false
  end.

(* the value accumulated by the loop, as a function of the initial store *)
Definition red_fold (k : rkind) (arr : aexpr) (mask : option aexpr) (s : store) : option Z :=
  match accessors arr with
  | (_, fix_) :: _ =>
      match range_pos 0 fix_ with
      | Some (_, lo, hi, st) =>
          match eval s lo, eval s hi, eval s st with
          | Some l, Some h, Some t =>
              if t =? 0 then None
              else option_map (red_acc k) (red_elems s arr mask (zseq 0 (trip_count l h t)))
          | _, _, _ => None
          end
      | None => None
      end
  | [] => None
  end.

(* ================================================================== the loop *)
Theorem red_loop_ok fx d idx x xi k arr mask code s xv v :
  red_loop fx d idx x xi k arr mask = Some code ->
  red_safe fx d idx x xi arr mask = true -> bnd_ok d s ->
  opt_all (map (eval s) xi) = Some xv ->
  red_fold k arr mask s = Some v ->
  hoare 6 code s (fun s' => val s' (x, xv) = v /\ bnd s' = bnd s /\
                            forall loc, fst loc <> idx -> loc <> (x, xv) -> val s' loc = val s loc).
Proof.
  intros Ap Safe Hbnd Exi Fold. unfold red_loop in Ap. unfold red_safe in Safe. unfold red_fold in Fold.
  destruct (accessors arr) as [|[F fix_] accs] eqn:Acc; [discriminate|].
  destruct (Nat.eqb (n_ranges fix_) 1 && _) eqn:Hacc in Ap; [|discriminate].
  destruct (range_pos 0 fix_) as [[[[p lo] hi] st]|] eqn:RP; [|discriminate].
  inversion Ap; subst code. clear Ap Hacc.
  apply andb_true_iff in Safe as [Safe Sxi]. apply andb_true_iff in Safe as [Safe Smask].
  apply andb_true_iff in Safe as [Safe Sarr]. apply andb_true_iff in Safe as [Sidx SF].
  apply negb_true_iff in Sidx. apply Nat.eqb_neq in Sidx.
  destruct (eval s lo) as [l|] eqn:El; [|discriminate]. destruct (eval s hi) as [h|] eqn:Eh; [|discriminate].
  destruct (eval s st) as [t|] eqn:Et; [|discriminate]. destruct (t =? 0) eqn:T0; [discriminate|].
  apply Z.eqb_neq in T0. set (n := trip_count l h t) in *.
  destruct (red_elems s arr mask (zseq 0 n)) as [all|] eqn:Eall; [|discriminate].
  cbn [option_map] in Fold. inversion Fold; subst v. clear Fold.
  set (r := ridx_of fx d idx F p lo st).
  (* freshness facts *)
  pose proof SF as SF'. unfold acc_safe in SF'. apply andb_true_iff in SF' as [S3 _].
  apply andb_true_iff in S3 as [S3 _]. apply andb_true_iff in S3 as [_ Ffr].
  destruct (range_pos_fresh idx x _ _ _ _ _ _ RP Ffr) as [Flo [Fhi Fst]].
  assert (Fxi : forall e, In e xi -> mentions idx e = false /\ mentions x e = false).
  { intros e He. rewrite forallb_forall in Sxi. specialize (Sxi e He). apply andb_true_iff in Sxi as [A B].
    apply negb_true_iff in A, B. auto. }
  set (zop := red_zop k). set (z0 := red_init_z k).
  (* stores that differ from s only at idx and the target location evaluate fresh expressions alike *)
  assert (Hfresh : forall s1 e, bnd s1 = bnd s ->
            (forall loc, fst loc <> idx -> loc <> (x, xv) -> val s1 loc = val s loc) ->
            mentions idx e = false -> mentions x e = false -> eval s1 e = eval s e).
  { intros s1 e B V M1 M2. apply eval_names; [exact B|]. intros loc Hl. apply V.
    - intro X. rewrite X in Hl. congruence.
    - intro X. subst loc. cbn [fst] in Hl. congruence. }
  apply (hoare_cons 2 4 _ _ _ (fun s1 => s1 = upd s (x, xv) z0)).
  { eapply hoare_assign; [exact Exi | apply red_init_eval | reflexivity]. }
  intros si ->. set (si := upd s (x, xv) z0).
  assert (Bi : bnd si = bnd s) by reflexivity.
  assert (Vi : forall loc, fst loc <> idx -> loc <> (x, xv) -> val si loc = val s loc)
    by (intros loc _ N; apply val_upd_other; exact N).
  set (P := fun (j : nat) (sj : store) =>
              exists ej, red_elems s arr mask (zseq 0 j) = Some ej /\ val sj (x, xv) = fold_left zop ej z0 /\
                         bnd sj = bnd s /\ forall loc, fst loc <> idx -> loc <> (x, xv) -> val sj loc = val s loc).
  eapply hoare_conseq; [|eapply (hoare_do 2 idx lo hi st _ si l h t P)].
  - (* after the loop *)
    intros s' [s2 [[ej [Hej [Hv [Hb Hl]]]] ->]]. fold n in Hej. rewrite Eall in Hej. inversion Hej; subst ej.
    split; [|split].
    + rewrite val_upd_other by (intro X; inversion X; congruence). exact Hv.
    + rewrite bnd_upd. exact Hb.
    + intros loc N1 N2. rewrite val_upd_other by (intro X; subst loc; apply N1; reflexivity). apply Hl; assumption.
  - rewrite (Hfresh si lo Bi Vi (proj1 Flo) (proj2 Flo)). exact El.
  - rewrite (Hfresh si hi Bi Vi (proj1 Fhi) (proj2 Fhi)). exact Eh.
  - rewrite (Hfresh si st Bi Vi (proj1 Fst) (proj2 Fst)). exact Et.
  - exact T0.
  - (* one iteration *)
    intros j sj Hj [ej [Hej [Hv [Hb Hl]]]]. fold n in Hj.
    destruct (zseq_split_at n j Hj) as [rest Hsplit]. rewrite zseq_snoc in Hsplit.
    rewrite Hsplit, <- app_assoc, red_elems_app, Hej in Eall.
    destruct (red_elems s arr mask ([Z.of_nat j] ++ rest)) as [tl|] eqn:Etl; [|discriminate].
    rewrite red_elems_app in Etl.
    destruct (red_elems s arr mask [Z.of_nat j]) as [one|] eqn:Eone; [|discriminate]. clear Etl Eall.
    cbn [red_elems] in Eone.
    destruct (aeval s (Z.of_nat j) arr) as [v|] eqn:Ev; [|discriminate].
    destruct (match mask with Some m => aeval s (Z.of_nat j) m | None => Some 1 end) as [b|] eqn:Eb; [|discriminate].
    inversion Eone; subst one. clear Eone.
    set (s1 := upd sj (idx, []) (l + Z.of_nat j * t)).
    assert (R1 : bnd s1 = bnd s) by (unfold s1; rewrite bnd_upd; exact Hb).
    assert (R2 : val s1 (idx, []) = l + Z.of_nat j * t) by apply val_upd_same.
    assert (R3 : forall loc, fst loc <> idx -> fst loc <> x -> val s1 loc = val s loc).
    { intros loc N1 N2. unfold s1. rewrite val_upd_other by (intro X; subst loc; apply N1; reflexivity).
      apply Hl; [exact N1|]. intro X. subst loc. apply N2. reflexivity. }
    assert (R4 : forall w vs, @None (list index) = Some w -> opt_all (map (ix_val s (Z.of_nat j)) w) = Some vs ->
                              val s1 (x, vs) = val s (x, vs)) by (intros w vs X; discriminate).
    assert (V1 : forall loc, fst loc <> idx -> loc <> (x, xv) -> val s1 loc = val s loc).
    { intros loc N1 N2. unfold s1. rewrite val_upd_other by (intro X; subst loc; apply N1; reflexivity). apply Hl; assumption. }
    assert (Exi1 : opt_all (map (eval s1) xi) = Some xv).
    { rewrite <- Exi. f_equal. apply map_ext_in. intros e He. destruct (Fxi e He). apply Hfresh; assumption. }
    assert (Vx1 : val s1 (x, xv) = fold_left zop ej z0).
    { unfold s1. rewrite val_upd_other by (intro X; inversion X; congruence). exact Hv. }
    assert (Earr : eval s1 (lower r arr) = Some v).
    { unfold r. rewrite (lower_eval fx d idx x F None p lo st s s1 (Z.of_nat j) l t Hbnd El Et R1 R2 R3 R4 Flo _ Sarr). exact Ev. }
    (* the accumulation statement *)
    assert (Hupd : hoare 2 [SAssign x xi (red_op k (tgt_ref x xi) (lower r arr))] s1
                     (fun s2 => val s2 (x, xv) = fold_left zop (ej ++ [v]) z0 /\ bnd s2 = bnd s /\
                                forall loc, fst loc <> idx -> loc <> (x, xv) -> val s2 loc = val s loc)).
    { eapply hoare_assign; [exact Exi1 | apply red_op_eval; [apply tgt_ref_eval; exact Exi1 | exact Earr]|].
      split; [|split].
      - rewrite val_upd_same, fold_left_app, Vx1. reflexivity.
      - rewrite bnd_upd. exact R1.
      - intros loc N1 N2. rewrite val_upd_other by exact N2. apply V1; assumption. }
    destruct mask as [m|].
    + (* masked *)
      assert (Em : eval s1 (lower r m) = Some b).
      { unfold r. rewrite (lower_eval fx d idx x F None p lo st s s1 (Z.of_nat j) l t Hbnd El Et R1 R2 R3 R4 Flo _ Smask). exact Eb. }
      change 3%nat with (S (S 1)). eapply hoare_if; [exact Em|].
      destruct (b =? 0) eqn:B0.
      * eapply hoare_mono; [|apply hoare_nil]; [lia|]. exists ej. rewrite zseq_snoc, red_elems_app, Hej.
        cbn [red_elems]. rewrite Ev, Eb, B0. rewrite app_nil_r. repeat split; auto.
      * eapply hoare_conseq; [|exact Hupd]. intros s2 [H1 [H2 H3]]. exists (ej ++ [v]).
        rewrite zseq_snoc, red_elems_app, Hej. cbn [red_elems]. rewrite Ev, Eb, B0. repeat split; auto.
    + (* unmasked *)
      inversion Eb; subst b. eapply hoare_mono; [|eapply hoare_conseq; [|exact Hupd]]; [lia|].
      intros s2 [H1 [H2 H3]]. exists (ej ++ [v]).
      rewrite zseq_snoc, red_elems_app, Hej. cbn [red_elems]. rewrite Ev. cbn [Z.eqb]. repeat split; auto.
  - (* the invariant holds at loop entry *)
    exists []. split; [reflexivity|]. split; [apply val_upd_same|]. split; [exact Bi | exact Vi].
Qed.

(* all extents (also empty), all masks: the loop leaves the Fortran value of the reduction in x *)
Theorem reduction_ok_ fx d idx x xi k arr mask code s xv v :
  red_loop fx d idx x xi k arr mask = Some code ->
  red_safe fx d idx x xi arr mask = true -> bnd_ok d s ->
  opt_all (map (eval s) xi) = Some xv ->
  red_sem k arr mask s = Some v ->
  (forall l h t all, red_elems s arr mask (zseq 0 (trip_count l h t)) = Some all ->
                     Forall (fun w => - HUGE <= w <= HUGE) all) ->
  hoare 6 code s (fun s' => val s' (x, xv) = v /\ bnd s' = bnd s /\
                            forall loc, fst loc <> idx -> loc <> (x, xv) -> val s' loc = val s loc).
Proof.
  intros Ap Safe Hbnd Exi Sem Bd. eapply red_loop_ok; eauto.
  unfold red_sem in Sem. unfold red_fold.
  destruct (accessors arr) as [|[F fix_] accs]; [discriminate|].
  destruct (range_pos 0 fix_) as [[[[p lo] hi] st]|]; [|discriminate].
  destruct (eval s lo) as [l|]; [|discriminate]. destruct (eval s hi) as [h|]; [|discriminate].
  destruct (eval s st) as [t|]; [|discriminate]. destruct (t =? 0); [discriminate|].
  destruct (red_elems s arr mask (zseq 0 (trip_count l h t))) as [all|] eqn:E; [|discriminate].
  cbn [option_map] in *. inversion Sem; subst v. f_equal. apply red_acc_value. eapply Bd, E.
Qed.

(* ================================================================== substitution for the call *)
Fixpoint hole_ok (h : name) (e : expr) : bool :=
  match e with
  | ELit _ | EVar _ => true
  | EIdx a ix => negb (Nat.eqb h a) && forallb (hole_ok h) ix
  | EUn _ e1 => hole_ok h e1
  | EBin _ l r => hole_ok h l && hole_ok h r
  | EIntr f args =>
      (if is_inquiry f then match args with a0 :: _ => negb (mentions h a0) | [] => true end else true) &&
      forallb (hole_ok h) args
  end.

Lemma subst_var_id h r : forall e, mentions h e = false -> subst_var h r e = e.
Proof.
  induction e using expr_ind'; intro M; cbn [subst_var mentions] in *.
  - reflexivity.
  - rewrite M. reflexivity.
  - apply orb_false_iff in M as [_ M]. f_equal. rewrite <- (map_id ix) at 2. apply map_ext_in.
    intros e He. rewrite Forall_forall in H. apply H; [exact He|]. eapply existsb_false; eauto.
  - f_equal. auto.
  - apply orb_false_iff in M as [M1 M2]. f_equal; auto.
  - f_equal. rewrite <- (map_id args) at 2. apply map_ext_in.
    intros e He. rewrite Forall_forall in H. apply H; [exact He|]. eapply existsb_false; eauto.
Qed.

Lemma subst_var_eval h r s1 s2 w :
  eval s2 r = Some w -> val s1 (h, []) = w -> bnd s2 = bnd s1 ->
  forall e, hole_ok h e = true ->
  (forall loc, fst loc <> h -> mentions (fst loc) e = true -> val s2 loc = val s1 loc) ->
  eval s2 (subst_var h r e) = eval s1 e.
Proof.
  intros Er Hh Hb. induction e using expr_ind'; intros Ok V; cbn [subst_var hole_ok] in *.
  - reflexivity.
  - destruct (Nat.eqb h x) eqn:E.
    + apply Nat.eqb_eq in E. subst x. cbn [eval]. rewrite Er, Hh. reflexivity.
    + apply Nat.eqb_neq in E. cbn [eval]. f_equal. apply V; cbn [fst mentions]; [congruence | apply Nat.eqb_refl].
  - apply andb_true_iff in Ok as [Oa Oix]. apply negb_true_iff in Oa. apply Nat.eqb_neq in Oa.
    cbn [eval]. rewrite map_map.
    assert (Hm : map (fun x => eval s2 (subst_var h r x)) ix = map (eval s1) ix).
    { apply map_ext_in. intros e He. rewrite Forall_forall in H. apply H; [exact He | |].
      - rewrite forallb_forall in Oix. apply Oix, He.
      - intros loc N M. apply V; [exact N|]. cbn [mentions]. apply orb_true_iff. right.
        apply existsb_exists. eauto. }
    rewrite Hm. destruct (opt_all (map (eval s1) ix)) as [vs|]; [|reflexivity]. f_equal.
    apply V; cbn [fst mentions]; [congruence | rewrite Nat.eqb_refl; reflexivity].
  - cbn [eval]. rewrite IHe; auto.
  - apply andb_true_iff in Ok as [O1 O2]. cbn [eval]. rewrite IHe1, IHe2; auto.
    + intros loc N M. apply V; [exact N|]. cbn [mentions]. rewrite M. apply orb_true_r.
    + intros loc N M. apply V; [exact N|]. cbn [mentions]. rewrite M. reflexivity.
  - apply andb_true_iff in Ok as [Oq Oargs].
    assert (Hm : forall l, (forall e, In e l -> In e args) ->
                  map (eval s2) (map (subst_var h r) l) = map (eval s1) l).
    { intros l Sub. rewrite map_map. apply map_ext_in. intros e He. rewrite Forall_forall in H.
      apply H; [apply Sub, He | |].
      - rewrite forallb_forall in Oargs. apply Oargs, Sub, He.
      - intros loc N M. apply V; [exact N|]. cbn [mentions]. apply existsb_exists. exists e. split; [apply Sub, He | exact M]. }
    cbn [eval]. destruct (is_inquiry f) eqn:Q.
    + destruct args as [|a0 rest]; [reflexivity|]. cbn [map].
      apply negb_true_iff in Oq. rewrite (subst_var_id h r a0 Oq).
      rewrite (Hm rest) by (intros e He; right; exact He).
      destruct (opt_all (map (eval s1) rest)); [|reflexivity]. apply inquiry_intr_head. exact Hb.
    + rewrite (Hm args) by auto. destruct (opt_all (map (eval s1) args)); [|reflexivity].
      apply noninquiry_intr. exact Q.
Qed.

(* ================================================================== the whole statement *)
(* the assignment that follows the loop:  x(xi) = C[r]  where r holds the value of the call *)
Lemma ctx_assign T s sL x xi xv c hole r v w :
  bnd sL = bnd s -> (forall loc, ~ In (fst loc) T -> val sL loc = val s loc) ->
  eval sL r = Some v -> hole_ok hole c = true ->
  (forall y, In y T -> mentions y c = false) ->
  (forall y e, In y T -> In e xi -> mentions y e = false) ->
  opt_all (map (eval s) xi) = Some xv -> eval (upd s (hole, []) v) c = Some w ->
  hoare 2 [SAssign x xi (subst_var hole r c)] sL (fun s2 => s2 = upd sL (x, xv) w).
Proof.
  intros B V Er Ok Fc Fxi Exi Ec. eapply hoare_assign; [| |reflexivity].
  - rewrite <- Exi. f_equal. apply map_ext_in. intros e He. apply eval_names; [exact B|].
    intros loc Hl. apply V. intro X. rewrite (Fxi _ e X He) in Hl. discriminate.
  - rewrite <- Ec. apply (subst_var_eval hole r (upd s (hole, []) v) sL v Er (val_upd_same _ _ _)).
    + rewrite bnd_upd. exact B.
    + exact Ok.
    + intros loc N M. rewrite val_upd_other by (intro X; subst loc; apply N; reflexivity).
      apply V. intro X. rewrite (Fc _ X) in M. discriminate.
Qed.

(* freshness of the loop variable, the temporary and the place-holder variable *)
Definition red_names_ok (idx tmp hole x : name) (xi : list expr) (ctx : option expr) : bool :=
  negb (Nat.eqb tmp x) && negb (Nat.eqb idx x) && negb (Nat.eqb hole x) &&
  forallb (fun e => negb (mentions idx e) && negb (mentions tmp e)) xi &&
  match ctx with
  | Some c => hole_ok hole c && negb (mentions idx c) && negb (mentions tmp c)
  | None => true
  end.

Definition red_stmt_safe (fx : fixes) (d : decls) (idx tmp hole x : name) (xi : list expr) (arr : aexpr)
                         (mask : option aexpr) (ctx : option expr) : bool :=
  let inc := red_increment x arr mask ctx in
  red_names_ok idx tmp hole x xi ctx &&
  red_safe fx d idx (if inc then tmp else x) (if inc then [] else xi) arr mask &&
  (* the unfixed code forgets the final store in exactly this shape *)
  negb (inc && match ctx with None => true | Some _ => false end && negb (fx_redstore fx)).

Theorem reduction_sound_partial_ fx d idx tmp hole x xi k arr mask ctx code s s' :
  red_apply fx d idx tmp x xi k arr mask ctx hole = Some code ->
  red_stmt_safe fx d idx tmp hole x xi arr mask ctx = true -> bnd_ok d s ->
  red_stmt_sem k x xi arr mask ctx hole s = Some s' ->
  (forall l h t all, red_elems s arr mask (zseq 0 (trip_count l h t)) = Some all ->
                     Forall (fun w => - HUGE <= w <= HUGE) all) ->
  exists N, hoare N code s (fun s2 => agree_except [idx; tmp; hole] s2 s').
Proof.
  intros Ap Safe Hbnd Sem Bd. unfold red_stmt_safe in Safe.
  apply andb_true_iff in Safe as [Safe Sbug]. apply andb_true_iff in Safe as [Snames Sred].
  unfold red_apply in Ap. unfold red_stmt_sem in Sem.
  destruct (red_sem k arr mask s) as [v|] eqn:Ev; [|discriminate].
  destruct (opt_all (map (eval s) xi)) as [xv|] eqn:Exi; [|discriminate].
  set (inc := red_increment x arr mask ctx) in *.
  destruct (red_loop fx d idx (if inc then tmp else x) (if inc then [] else xi) k arr mask) as [loop|] eqn:EL; [|discriminate].
  unfold red_names_ok in Snames.
  apply andb_true_iff in Snames as [Sn Sctx]. apply andb_true_iff in Sn as [Sn Sxi].
  apply andb_true_iff in Sn as [Sn N3]. apply andb_true_iff in Sn as [N1 N2].
  apply negb_true_iff in N1, N2, N3. apply Nat.eqb_neq in N1, N2, N3.
  assert (Fxi : forall e, In e xi -> mentions idx e = false /\ mentions tmp e = false).
  { intros e He. rewrite forallb_forall in Sxi. specialize (Sxi e He). apply andb_true_iff in Sxi as [A B].
    apply negb_true_iff in A, B. auto. }
  destruct ctx as [c|].
  - (* x = C[RED] *)
    destruct (eval (upd s (hole, []) v) c) as [w|] eqn:Ec; [|discriminate].
    inversion Sem; subst s'. inversion Ap; subst code. clear Sem Ap Sbug.
    apply andb_true_iff in Sctx as [Sc Sc3]. apply andb_true_iff in Sc as [Sc1 Sc2].
    apply negb_true_iff in Sc2, Sc3.
    destruct inc eqn:Einc.
    + (* accumulated in the temporary *)
      exists (6 + 2)%nat. eapply hoare_app.
      * apply (reduction_ok_ fx d idx tmp [] k arr mask loop s [] v EL Sred Hbnd eq_refl Ev Bd).
      * intros sL [Vt [Bt Lt]]. cbn beta.
        eapply hoare_conseq; [|eapply (ctx_assign [idx; tmp] s sL x xi xv c hole (tgt_ref tmp []) v w Bt)].
        -- intros s2 ->. split; [rewrite !bnd_upd; exact Bt|]. intros loc Hn.
           rewrite !val_upd. destruct (loc_eq_dec loc (x, xv)); [reflexivity|]. apply Lt.
           ++ intro X. apply Hn. left. symmetry. exact X.
           ++ intro X. subst loc. apply Hn. right. left. reflexivity.
        -- intros loc Hn. apply Lt.
           ++ intro X. apply Hn. left. symmetry. exact X.
           ++ intro X. subst loc. apply Hn. right. left. reflexivity.
        -- cbn [tgt_ref eval]. rewrite Vt. reflexivity.
        -- exact Sc1.
        -- intros y [<-|[<-|[]]]; assumption.
        -- intros y e [<-|[<-|[]]] He; destruct (Fxi e He); assumption.
        -- exact Exi.
        -- exact Ec.
    + (* accumulated in x itself: x does not occur in C, arr, mask *)
      assert (Mxc : mentions x c = false).
      { unfold inc, red_increment in Einc. apply orb_false_iff in Einc as [_ E]. exact E. }
      assert (Fxi2 : forall e, In e xi -> mentions x e = false).
      { intros e He. unfold red_safe in Sred. destruct (accessors arr) as [|[F fxs] ?]; [discriminate|].
        destruct (range_pos 0 fxs) as [[[[? ?] ?] ?]|]; [|discriminate].
        apply andb_true_iff in Sred as [_ S]. rewrite forallb_forall in S. specialize (S e He).
        apply andb_true_iff in S as [_ S]. apply negb_true_iff in S. exact S. }
      exists (6 + 2)%nat. eapply hoare_app.
      * apply (reduction_ok_ fx d idx x xi k arr mask loop s xv v EL Sred Hbnd Exi Ev Bd).
      * intros sL [Vt [Bt Lt]]. cbn beta.
        assert (ExiL : opt_all (map (eval sL) xi) = Some xv).
        { rewrite <- Exi. f_equal. apply map_ext_in. intros e He. apply eval_names; [exact Bt|].
          intros loc Hl. apply Lt.
          - intro X. rewrite X in Hl. destruct (Fxi e He). congruence.
          - intro X. subst loc. cbn [fst] in Hl. rewrite (Fxi2 e He) in Hl. discriminate. }
        eapply hoare_conseq; [|eapply (ctx_assign [idx; x] s sL x xi xv c hole (tgt_ref x xi) v w Bt)].
        -- intros s2 ->. split; [rewrite !bnd_upd; exact Bt|]. intros loc Hn.
           rewrite !val_upd. destruct (loc_eq_dec loc (x, xv)) as [|Nl]; [reflexivity|]. apply Lt; [|exact Nl].
           intro X. apply Hn. left. symmetry. exact X.
        -- intros loc Hn. apply Lt.
           ++ intro X. apply Hn. left. symmetry. exact X.
           ++ intro X. subst loc. apply Hn. right. left. reflexivity.
        -- rewrite (tgt_ref_eval sL x xi xv ExiL), Vt. reflexivity.
        -- exact Sc1.
        -- intros y [<-|[<-|[]]]; assumption.
        -- intros y e [<-|[<-|[]]] He; [destruct (Fxi e He); assumption | apply Fxi2, He].
        -- exact Exi.
        -- exact Ec.
  - (* x = RED *)
    inversion Sem; subst s'. clear Sem.
    destruct inc eqn:Einc.
    + (* accumulated in the temporary: only the fixed code stores it *)
      destruct (fx_redstore fx) eqn:Efx; [|discriminate]. cbn [andb] in Ap. inversion Ap; subst code. clear Ap.
      exists (6 + 2)%nat. eapply hoare_app.
      * apply (reduction_ok_ fx d idx tmp [] k arr mask loop s [] v EL Sred Hbnd eq_refl Ev Bd).
      * intros sL [Vt [Bt Lt]]. cbn beta. eapply hoare_assign.
        -- rewrite <- Exi. f_equal. apply map_ext_in. intros e He. destruct (Fxi e He) as [M1 M2].
           apply eval_names; [exact Bt|]. intros loc Hl. apply Lt.
           ++ intro X. rewrite X in Hl. congruence.
           ++ intro X. subst loc. cbn [fst] in Hl. congruence.
        -- cbn [tgt_ref eval]. rewrite Vt. reflexivity.
        -- split; [rewrite !bnd_upd; exact Bt|]. intros loc Hn.
           rewrite !val_upd. destruct (loc_eq_dec loc (x, xv)); [reflexivity|]. apply Lt.
           ++ intro X. apply Hn. left. symmetry. exact X.
           ++ intro X. subst loc. apply Hn. right. left. reflexivity.
    + (* accumulated in x itself: nothing follows the loop *)
      rewrite andb_false_r in Ap. inversion Ap; subst code. clear Ap.
      exists 6%nat. eapply hoare_conseq; [|apply (reduction_ok_ fx d idx x xi k arr mask loop s xv v EL Sred Hbnd Exi Ev Bd)].
      intros sL [Vt [Bt Lt]]. split; [rewrite bnd_upd; exact Bt|]. intros loc Hn.
      rewrite val_upd. destruct (loc_eq_dec loc (x, xv)) as [->|Nl]; [exact Vt|]. apply Lt; [|exact Nl].
      intro X. apply Hn. left. symmetry. exact X.
Qed.

(* ================================================================== non-vacuity and refutations *)
(* names: 0 = a (1:4), 1 = x, 2 = idx, 3 = tmp, 4 = hole, 5 = y *)
Definition rx_decls : decls := fun n => match n with O => [(1, 4)] | _ => [] end.
Definition rx_store : store :=
  store_of [((0%nat, [1]), 3); ((0%nat, [2]), -2); ((0%nat, [3]), 5); ((0%nat, [4]), 1); ((5%nat, []), 10)]
           [(0%nat, [(1, 4)])].
Definition rx_arr : aexpr := ASec 0%nat [IRange (ELit 1) (ELit 4) (ELit 1)].
Definition rx_mask : option aexpr := Some (ABin Gt (ASec 0%nat [IRange (ELit 1) (ELit 4) (ELit 1)]) (ALit 0)).

(* x = y - MAXVAL(a(1:4), mask = a(1:4) > 0):  safe, and the theorem's premises hold *)
Example reduction_nonvacuous :
  let ctx := Some (EBin Sub (EVar 5%nat) (EVar 4%nat)) in
  red_stmt_safe unfixed rx_decls 2%nat 3%nat 4%nat 1%nat [] rx_arr rx_mask ctx = true /\ bnd_ok rx_decls rx_store /\
  (exists code, red_apply unfixed rx_decls 2%nat 3%nat 1%nat [] RMaxval rx_arr rx_mask ctx 4%nat = Some code) /\
  (exists s', red_stmt_sem RMaxval 1%nat [] rx_arr rx_mask ctx 4%nat rx_store = Some s' /\ val s' (1%nat, []) = 5).
Proof.
  cbv zeta. split; [vm_compute; reflexivity|]. split; [intros [|b]; reflexivity|].
  split; [eexists; vm_compute; reflexivity|]. eexists. split; vm_compute; reflexivity.
Qed.

(* a(1) = SUM(a(1:4)): accepted; the sum is accumulated into tmp and a(1) is never assigned *)
Theorem reduction_refuted_ :
  exists d idx tmp hole x xi k arr mask code s s' s2 tr,
    red_apply unfixed d idx tmp x xi k arr mask None hole = Some code /\ bnd_ok d s /\
    red_stmt_sem k x xi arr mask None hole s = Some s' /\
    exec 20 code s = Ok s2 tr CNormal /\ val s2 (x, [1]) <> val s' (x, [1]).
Proof.
  exists rx_decls, 2%nat, 3%nat, 4%nat, 0%nat, [ELit 1], RSum, rx_arr, (@None aexpr).
  destruct (red_apply unfixed rx_decls 2%nat 3%nat 0%nat [ELit 1] RSum rx_arr None None 4%nat) as [code|] eqn:E1;
    [|vm_compute in E1; discriminate].
  destruct (red_stmt_sem RSum 0%nat [ELit 1] rx_arr None None 4%nat rx_store) as [s'|] eqn:E2;
    [|vm_compute in E2; discriminate].
  destruct (exec 20 code rx_store) as [s2 tr c| |] eqn:E3.
  - exists code, rx_store, s', s2, tr.
    assert (Hc : c = CNormal /\ val s2 (0%nat, [1]) = 3 /\ val s' (0%nat, [1]) = 7).
    { revert E3. inversion E1; subst code. clear E1. inversion E2; subst s'. clear E2.
      vm_compute. intro H. inversion H; subst. repeat split. }
    destruct Hc as [-> [H2 H3]].
    split; [first [exact E1 | reflexivity]|]. split; [intros [|b]; reflexivity|].
    split; [first [exact E2 | reflexivity]|]. split; [exact E3|].
    intro X. pose proof (eq_trans (eq_sym H2) (eq_trans X H3)) as Y. discriminate Y.
  - exfalso. inversion E1; subst code. vm_compute in E3. discriminate.
  - exfalso. inversion E1; subst code. vm_compute in E3. discriminate.
Qed.
