(* C06 (round 3) — MATMUL matrix * matrix lowering over EFFECTIVE bounds of (possibly assumed-shape /
   allocatable) operands: triple loop invariant, non-square shapes, all contents. *)
From Coq Require Import List ZArith Bool Lia.
Import ListNotations.
From PV Require Import Fort.Syntax Fort.Sem Fort.Facts Base.Harness C06.Syntax C06.Model C06.Common
                       C06.ArrayAssignProofs C06.LinAlgProofs C06.Bounds.
Open Scope Z_scope.

Definition matmat_safe (d : decls) (i j ii r m1 m2 : name) : bool :=
  negb (Nat.eqb r m1) && negb (Nat.eqb r m2) &&
  (fst (dim0 d r) =? fst (dim0 d m1)) && (fst (dim1 d r) =? fst (dim1 d m2)) &&
  (fst (dim1 d m1) =? fst (dim0 d m2)) &&
  negb (Nat.eqb i j) && negb (Nat.eqb i ii) && negb (Nat.eqb j ii) &&
  negb (Nat.eqb i r) && negb (Nat.eqb i m1) && negb (Nat.eqb i m2) &&
  negb (Nat.eqb j r) && negb (Nat.eqb j m1) && negb (Nat.eqb j m2) &&
  negb (Nat.eqb ii r) && negb (Nat.eqb ii m1) && negb (Nat.eqb ii m2).

(* the operands are rank 2, the store carries the effective bounds, the forms are consistent with them *)
Definition operands_ok (fm : forms) (d : decls) (s : store) (ops : list name) : Prop :=
  forall a, In a ops ->
    bnd s a = d a /\ (exists b0 b1, d a = [b0; b1]) /\
    (forall k f b, nth_error (fm a) k = Some f -> nth_error (d a) k = Some b -> form_ok f b).

Lemma operand_bounds fm d s ops a s' :
  operands_ok fm d s ops -> In a ops -> bnd s' = bnd s ->
  (eval s' (fst (mbound fm a 0)) = Some (fst (dim0 d a)) /\ eval s' (snd (mbound fm a 0)) = Some (snd (dim0 d a))) /\
  (eval s' (fst (mbound fm a 1)) = Some (fst (dim1 d a)) /\ eval s' (snd (mbound fm a 1)) = Some (snd (dim1 d a))).
Proof.
  intros Ok In' B. destruct (Ok a In') as [Hb [[b0 [b1 Hd]] Hf]].
  assert (Hb' : bnd s' a = d a) by (rewrite B; exact Hb).
  unfold dim0, dim1. rewrite Hd. cbn [nth]. split.
  - apply (mbound_eval fm d s' a 0 b0 Hb'); [rewrite Hd; reflexivity|]. intros f F. eapply Hf; [exact F | rewrite Hd; reflexivity].
  - apply (mbound_eval fm d s' a 1 b1 Hb'); [rewrite Hd; reflexivity|]. intros f F. eapply Hf; [exact F | rewrite Hd; reflexivity].
Qed.

Theorem matmat_sound_partial_ fm d i j ii r m1 m2 s :
  matmat_safe d i j ii r m1 m2 = true -> operands_ok fm d s [m1; m2] ->
  hoare 7 (matmat_apply fm i j ii r m1 m2) s (fun s2 => agree_except [i; j; ii] s2 (matmat_sem d r m1 m2 s)).
Proof.
  intros Safe Ops. unfold matmat_safe in Safe. repeat (apply andb_true_iff in Safe as [Safe ?H]).
  repeat match goal with H : negb (Nat.eqb _ _) = true |- _ => apply negb_true_iff in H; apply Nat.eqb_neq in H end.
  repeat match goal with H : Z.eqb _ _ = true |- _ => apply Z.eqb_eq in H end.
  assert (Nrm1 : r <> m1) by assumption. assert (Nrm2 : r <> m2) by assumption.
  assert (Nij : i <> j) by assumption. assert (Niii : i <> ii) by assumption. assert (Njii : j <> ii) by assumption.
  assert (Nir : i <> r) by assumption. assert (Nim1 : i <> m1) by assumption. assert (Nim2 : i <> m2) by assumption.
  assert (Njr : j <> r) by assumption. assert (Njm1 : j <> m1) by assumption. assert (Njm2 : j <> m2) by assumption.
  assert (Niir : ii <> r) by assumption. assert (Niim1 : ii <> m1) by assumption. assert (Niim2 : ii <> m2) by assumption.
  assert (L1 : fst (dim0 d r) = fst (dim0 d m1)) by assumption.
  assert (L2 : fst (dim1 d r) = fst (dim1 d m2)) by assumption.
  assert (L3 : fst (dim1 d m1) = fst (dim0 d m2)) by assumption.
  set (lbi := fst (dim0 d m1)) in *. set (ubi := snd (dim0 d m1)).
  set (lbk := fst (dim1 d m1)) in *. set (ubk := snd (dim1 d m1)).
  set (lbj := fst (dim1 d m2)) in *. set (ubj := snd (dim1 d m2)).
  set (lbr1 := fst (dim0 d r)) in *. set (lbr2 := fst (dim1 d r)) in *. set (lb21 := fst (dim0 d m2)) in *.
  set (np := extent (dim0 d m1)). set (nk := extent (dim1 d m1)). set (nq := extent (dim1 d m2)).
  assert (Hnp : trip_count lbi ubi 1 = np) by (rewrite trip_unit; unfold np, lbi, ubi; rewrite <- dim_pair; reflexivity).
  assert (Hnk : trip_count lbk ubk 1 = nk) by (rewrite trip_unit; unfold nk, lbk, ubk; rewrite <- dim_pair; reflexivity).
  assert (Hnq : trip_count lbj ubj 1 = nq) by (rewrite trip_unit; unfold nq, lbj, ubj; rewrite <- dim_pair; reflexivity).
  assert (Bm1 : forall s', bnd s' = bnd s ->
            eval s' (fst (mbound fm m1 0)) = Some lbi /\ eval s' (snd (mbound fm m1 0)) = Some ubi /\
            eval s' (fst (mbound fm m1 1)) = Some lbk /\ eval s' (snd (mbound fm m1 1)) = Some ubk).
  { intros s' B. destruct (operand_bounds fm d s [m1; m2] m1 s' Ops (or_introl eq_refl) B) as [[A1 A2] [A3 A4]]. auto. }
  assert (Bm2 : forall s', bnd s' = bnd s ->
            eval s' (fst (mbound fm m2 1)) = Some lbj /\ eval s' (snd (mbound fm m2 1)) = Some ubj).
  { intros s' B. destruct (operand_bounds fm d s [m1; m2] m2 s' Ops (or_intror (or_introl eq_refl)) B) as [_ [A3 A4]]. auto. }
  set (col := matmat_col d r m1 m2 s).
  set (cols := fun (b : nat) => flat_map col (zseq 0 b)).
  unfold matmat_apply, matmat_sem. fold col.
  set (P := fun (b : nat) (sb : store) => agree_except [i; j; ii] sb (store_all s (cols b))).
  destruct (Bm2 s eq_refl) as [Ej1 Ej2].
  eapply hoare_conseq; [|change 7%nat with (S (S 5));
                          eapply (hoare_do 5 j _ _ (ELit 1) _ s lbj ubj 1 P Ej1 Ej2 eq_refl); [lia | |]].
  - intros s' [s2 [HP ->]]. rewrite Hnq in HP. unfold P, cols in HP. fold nq.
    eapply agree_trans; [apply agree_upd_fresh; right; left; reflexivity | exact HP].
  - (* one column b *)
    intros b sb Hb Ag. rewrite Hnq in Hb. set (s1 := upd sb (j, []) (lbj + Z.of_nat b * 1)).
    set (cj := lbj + Z.of_nat b).
    set (elemf := fun a => ((r, [lbr1 + a; lbr2 + Z.of_nat b]), matmat_elem d m1 m2 s a (Z.of_nat b))).
    set (Pm := fun (a : nat) (sa : store) =>
                 agree_except [i; j; ii] sa (store_all s (cols b ++ map elemf (zseq 0 a))) /\ val sa (j, []) = cj).
    assert (B1 : bnd s1 = bnd s).
    { unfold s1. rewrite bnd_upd. destruct Ag as [B _]. rewrite B. apply bnd_store_all. }
    destruct (Bm1 s1 B1) as [Ei1 [Ei2 _]].
    eapply hoare_conseq; [|change 6%nat with (S (S 4));
                            eapply (hoare_do 4 i _ _ (ELit 1) _ s1 lbi ubi 1 Pm Ei1 Ei2 eq_refl); [lia | |]].
    + intros s' [s2 [[HP Vj] ->]]. rewrite Hnp in HP. unfold P.
      assert (Hc : cols (S b) = cols b ++ map elemf (zseq 0 np)).
      { unfold cols. rewrite zseq_snoc, flat_map_app. cbn [flat_map]. rewrite app_nil_r. reflexivity. }
      rewrite Hc. eapply agree_trans; [apply agree_upd_fresh; left; reflexivity | exact HP].
    + (* one element (a, b) *)
      intros a sa Ha [Aga Vj]. rewrite Hnp in Ha. set (s2 := upd sa (i, []) (lbi + Z.of_nat a * 1)).
      set (row := lbi + Z.of_nat a).
      set (done := cols b ++ map elemf (zseq 0 a)).
      assert (A2 : agree_except [i; j; ii] s2 (store_all s done))
        by (eapply agree_trans; [apply agree_upd_fresh; left; reflexivity | exact Aga]).
      assert (Vi2 : val s2 (i, []) = row) by (unfold s2, row; rewrite val_upd_same; lia).
      assert (Vj2 : val s2 (j, []) = cj)
        by (unfold s2; rewrite val_upd_other by (intro X; inversion X; congruence); exact Vj).
      assert (Hop : forall (x : name) ix, x <> r -> x <> i -> x <> j -> x <> ii -> val s2 (x, ix) = val s (x, ix)).
      { intros x ix N1 N2 N3 N4. destruct A2 as [_ V]. rewrite V by (cbn [fst In]; intuition congruence).
        apply val_store_all_notin. intros lv Hlv X. unfold done in Hlv. apply in_app_or in Hlv as [Hlv|Hlv].
        - unfold cols in Hlv. apply in_flat_map in Hlv as [b' [_ Hlv]]. unfold col, matmat_col in Hlv.
          apply in_map_iff in Hlv as [a' [<- _]]. cbn [fst] in X. inversion X. congruence.
        - apply in_map_iff in Hlv as [a' [<- _]]. cbn [fst] in X. inversion X. congruence. }
      set (g := fun q => val s (m1, [lbi + Z.of_nat a; lbk + q]) * val s (m2, [lb21 + q; lbj + Z.of_nat b])).
      apply (hoare_cons 2 3 _ _ _ (fun s3 => s3 = upd s2 (r, [row; cj]) 0)).
      { eapply hoare_assign; [cbn [map eval opt_all]; rewrite Vi2, Vj2; reflexivity | reflexivity | reflexivity]. }
      intros s3 ->. set (s3 := upd s2 (r, [row; cj]) 0).
      set (Q := fun (q : nat) (sq : store) =>
                  val sq (r, [row; cj]) = sum_upto g q /\ val sq (i, []) = row /\ val sq (j, []) = cj /\
                  bnd sq = bnd s3 /\ forall loc, fst loc <> ii -> loc <> (r, [row; cj]) -> val sq loc = val s3 loc).
      assert (B3 : bnd s3 = bnd s).
      { unfold s3, s2. rewrite !bnd_upd. destruct Aga as [B _]. rewrite B. apply bnd_store_all. }
      destruct (Bm1 s3 B3) as [_ [_ [Ek1 Ek2]]].
      eapply hoare_conseq; [|change 3%nat with (S (S 1));
                              eapply (hoare_do 1 ii _ _ (ELit 1) _ s3 lbk ubk 1 Q Ek1 Ek2 eq_refl); [lia | |]].
      * (* the element is complete *)
        intros s4 [sq [[Vr [Vi [Vjq [Bq Lq]]]] ->]]. rewrite Hnk in Vr. unfold Pm. split.
        -- rewrite zseq_snoc, map_app, app_assoc, store_all_app. cbn [map store_all fold_left fst snd]. fold done.
           destruct A2 as [B2 V2]. split.
           ++ rewrite !bnd_upd, Bq. unfold s3. rewrite bnd_upd. exact B2.
           ++ intros loc Hn'. rewrite val_upd_other by (intro X; subst loc; apply Hn'; right; right; left; reflexivity).
              rewrite val_upd. unfold elemf. cbn [fst snd].
              destruct (loc_eq_dec loc (r, [lbr1 + Z.of_nat a; lbr2 + Z.of_nat b])) as [->|Nl].
              ** rewrite L1, L2. fold row cj. rewrite Vr. reflexivity.
              ** assert (Nl' : loc <> (r, [row; cj])) by (unfold row, cj; rewrite <- L1, <- L2; exact Nl).
                 rewrite Lq; [| intro X; apply Hn'; right; right; left; symmetry; exact X | exact Nl'].
                 unfold s3. rewrite val_upd_other by exact Nl'. apply V2. exact Hn'.
        -- rewrite val_upd_other by (intro X; inversion X; congruence). exact Vjq.
      * (* one product *)
        intros q sq Hq [Vr [Vi [Vjq [Bq Lq]]]]. rewrite Hnk in Hq.
        set (s5 := upd sq (ii, []) (lbk + Z.of_nat q * 1)).
        assert (Vk5 : val s5 (ii, []) = lbk + Z.of_nat q) by (unfold s5; rewrite val_upd_same; lia).
        assert (Vi5 : val s5 (i, []) = row)
          by (unfold s5; rewrite val_upd_other by (intro X; inversion X; congruence); exact Vi).
        assert (Vj5 : val s5 (j, []) = cj)
          by (unfold s5; rewrite val_upd_other by (intro X; inversion X; congruence); exact Vjq).
        assert (Vr5 : val s5 (r, [row; cj]) = sum_upto g q)
          by (unfold s5; rewrite val_upd_other by (intro X; inversion X; congruence); exact Vr).
        assert (Hop5 : forall (x : name) ix, x <> r -> x <> i -> x <> j -> x <> ii -> val s5 (x, ix) = val s (x, ix)).
        { intros x ix N1 N2 N3 N4. unfold s5. rewrite val_upd_other by (intro X; inversion X; congruence).
          rewrite Lq; [| cbn [fst]; congruence | intro X; inversion X; congruence].
          unfold s3. rewrite val_upd_other by (intro X; inversion X; congruence). apply Hop; assumption. }
        eapply hoare_assign; [cbn [map eval opt_all]; rewrite Vi5, Vj5; reflexivity | |].
        -- cbn [eval map opt_all]. rewrite Vi5, Vj5, Vk5. cbn [opt_all]. rewrite Vr5.
           rewrite (Hop5 m1) by congruence. rewrite (Hop5 m2) by congruence. cbn [eval_bin]. reflexivity.
        -- split; [|split; [|split; [|split]]].
           ++ rewrite val_upd_same. cbn [sum_upto]. f_equal. unfold g, row, cj. rewrite <- L3. reflexivity.
           ++ rewrite val_upd_other by (intro X; inversion X; congruence). exact Vi5.
           ++ rewrite val_upd_other by (intro X; inversion X; congruence). exact Vj5.
           ++ rewrite bnd_upd. unfold s5. rewrite bnd_upd. exact Bq.
           ++ intros loc N1 N2. rewrite val_upd_other by exact N2. unfold s5.
              rewrite val_upd_other by (intro X; subst loc; apply N1; reflexivity). apply Lq; assumption.
      * split; [apply val_upd_same|]. split; [|split; [|split; [reflexivity | intros; reflexivity]]].
        -- unfold s3. rewrite val_upd_other by (intro X; inversion X; congruence). exact Vi2.
        -- unfold s3. rewrite val_upd_other by (intro X; inversion X; congruence). exact Vj2.
    + (* Pm 0 *)
      split.
      * cbn [zseq map]. rewrite app_nil_r.
        eapply agree_trans; [apply agree_upd_fresh; right; left; reflexivity | exact Ag].
      * unfold s1, cj. rewrite val_upd_same. lia.
  - apply agree_refl.
Qed.

(* ------------------------------------------------------------------ non-vacuity: the shape of the r2 seed *)
(* names 0 = r(0:1,0:3) explicit, 1 = m1(0:1,0:2) explicit, 2 = m2(0:,0:) assumed shape with explicit lower
   bounds, actual argument b(5:7,5:8) (non-square 3x4); 3 = i, 4 = j, 5 = ii *)
Definition mm_forms : forms :=
  fun n => match n with
           | O => [DExplicit 0 1; DExplicit 0 3] | S O => [DExplicit 0 1; DExplicit 0 2]
           | S (S O) => [DAssumedLb 0; DAssumedLb 0] | _ => [] end.
Definition mm_actuals : name -> list (Z * Z) :=
  fun n => match n with
           | O => [(0, 1); (0, 3)] | S O => [(0, 1); (0, 2)] | S (S O) => [(5, 7); (5, 8)] | _ => [] end.
Definition mm_decls : decls := eff_decls mm_forms mm_actuals.
Definition mm_store : store :=
  store_of [((1%nat, [0; 0]), 1); ((1%nat, [0; 1]), 2); ((1%nat, [0; 2]), 3); ((1%nat, [1; 0]), 4);
            ((1%nat, [1; 1]), 5); ((1%nat, [1; 2]), 6);
            ((2%nat, [0; 3]), 1); ((2%nat, [1; 3]), 10); ((2%nat, [2; 3]), 100); ((2%nat, [0; 0]), 7)]
           [(0%nat, [(0, 1); (0, 3)]); (1%nat, [(0, 1); (0, 2)]); (2%nat, [(0, 2); (0, 3)])].

Example matmat_nonvacuous :
  mm_decls 2%nat = [(0, 2); (0, 3)] /\
  matmat_safe mm_decls 3%nat 4%nat 5%nat 0%nat 1%nat 2%nat = true /\
  operands_ok mm_forms mm_decls mm_store [1%nat; 2%nat] /\
  val (matmat_sem mm_decls 0%nat 1%nat 2%nat mm_store) (0%nat, [1; 3]) = 654 /\
  (exists s2 tr, exec 30 (matmat_apply mm_forms 3%nat 4%nat 5%nat 0%nat 1%nat 2%nat) mm_store = Ok s2 tr CNormal /\
                 val s2 (0%nat, [1; 3]) = 654).
Proof.
  split; [reflexivity|]. split; [vm_compute; reflexivity|]. split.
  - intros a [<-|[<-|[]]]; (split; [reflexivity|]); (split; [eexists; eexists; reflexivity|]);
      intros k f b F N; destruct k as [|[|k]]; cbn in F, N; try (destruct k; discriminate);
      inversion F; inversion N; subst; vm_compute; first [reflexivity | exact I].
  - split; [vm_compute; reflexivity|]. eexists. eexists. split; [vm_compute; reflexivity | reflexivity].
Qed.
