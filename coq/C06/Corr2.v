(* C06 (round 3) — correspondence checks for the form-aware MATMUL models (assumed-shape / allocatable
   operands, matrix*matrix): the model's output tree must equal the implementation's, and the Coq value of
   MATMUL over the effective bounds must be the harness' value. *)
From Coq Require Import List ZArith Bool.
Import ListNotations.
From PV Require Import Fort.Syntax Fort.Sem Fort.Facts Base.Harness C06.Syntax C06.Model C06.Corr C06.Bounds.
Open Scope Z_scope.

Definition forms_of (l : list (name * list dimform)) : forms :=
  fun a => match find (fun p => Nat.eqb (fst p) a) l with Some p => snd p | None => [] end.

Inductive ccase2 :=
| CMatmatF (fm : list (name * list dimform)) (d : list (name * list (Z * Z))) (i j ii r m1 m2 : name)
           (out : list stmt) (st : option (store * list (loc * Z)))
| CMatvecF (fm : list (name * list dimform)) (d : list (name * list (Z * Z))) (i j r m v : name)
           (out : list stmt) (st : option (store * list (loc * Z))).

Definition check2 (c : ccase2) : bool :=
  match c with
  | CMatmatF fm d i j ii r m1 m2 out st =>
      matvec_accept r m1 m2 && stmts_eqb (matmat_apply (forms_of fm) i j ii r m1 m2) out &&
      match st with
      | Some (s, expect) => vals_ok (matmat_sem (decls_of d) r m1 m2 s) expect
      | None => true
      end
  | CMatvecF fm d i j r m v out st =>
      matvec_accept r m v && stmts_eqb (matvecF_apply (forms_of fm) i j r m v) out &&
      match st with
      | Some (s, expect) => vals_ok (matvec_sem (decls_of d) r m v s) expect
      | None => true
      end
  end.
