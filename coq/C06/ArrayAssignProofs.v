(* C06 — ArrayAssignment2LoopsTrans (one range per accessor): the loop produced by the faithful model
   computes the Fortran array assignment whenever `aa_safe` holds (the lhs array is read on the rhs only
   through the very same section, strides are syntactically equal, and a range that same_range()
   declares equal really has the same normalised start); and a witness that the unchanged code
   accepts a(2:10) = a(1:9) and smears a(1). *)
From Coq Require Import List ZArith Bool Lia.
Import ListNotations.
From PV Require Import Fort.Syntax Fort.Sem Fort.Facts Base.Harness C06.Syntax C06.Model C06.Common.
Open Scope Z_scope.

(* ================================================================== the sufficient condition *)
Definition rng_safe (fx : fixes) (d : decls) (A : name) (p : nat) (lo st : expr) (b : name) (q : nat) (lo' st' : expr) : bool :=
  expr_eqb st st' &&
  (if same_range fx d A p lo st b q lo' st' then expr_eqb (start_norm d A p lo) (start_norm d b q lo') else true).

Fixpoint ranges_safe (fx : fixes) (d : decls) (A : name) (p : nat) (lo st : expr) (b : name) (q : nat) (ix : list index) : bool :=
  match ix with
  | [] => true
  | IExp _ :: r => ranges_safe fx d A p lo st b (S q) r
  | IRange lo' _ st' :: r => rng_safe fx d A p lo st b q lo' st' && ranges_safe fx d A p lo st b (S q) r
  end.

Definition ix_fresh (idx A : name) (i : index) : bool := negb (imentions idx i) && negb (imentions A i).

(* accessor b(ix) may be rewritten: no index/bound expression mentions the loop variable or the written
   array W; if b is the written array it is exactly the written section `wix` (never, when wix = None) *)
Definition acc_safe (fx : fixes) (d : decls) (idx W : name) (wix : option (list index)) (F : name) (p : nat) (lo st : expr)
                    (b : name) (ix : list index) : bool :=
  negb (Nat.eqb idx b) && forallb (ix_fresh idx W) ix &&
  (if Nat.eqb W b then match wix with Some w => list_beq index_eqb ix w | None => false end else true) &&
  ranges_safe fx d F p lo st b 0 ix.

Fixpoint aexpr_safe (chk : name -> list index -> bool) (idx W : name) (e : aexpr) : bool :=
  match e with
  | ALit _ => true
  | AVar x => negb (Nat.eqb idx x) && negb (Nat.eqb W x)
  | ASec b ix => chk b ix
  | AUn _ e1 | AIntr1 _ e1 => aexpr_safe chk idx W e1
  | ABin _ l r | AIntr2 _ l r => aexpr_safe chk idx W l && aexpr_safe chk idx W r
  end.

Definition aa_safe (fx : fixes) (d : decls) (idx : name) (a : aassign) : bool :=
  aa_accept a &&
  match range_pos 0 (aa_ix a) with
  | Some (p, lo, hi, st) =>
      let chk := acc_safe fx d idx (aa_arr a) (Some (aa_ix a)) (aa_arr a) p lo st in
      chk (aa_arr a) (aa_ix a) && aexpr_safe chk idx (aa_arr a) (aa_rhs a)
  | None => false
  end.

Definition bnd_ok (d : decls) (s : store) : Prop := forall b, bnd s b = d b.

(* ================================================================== same_range, when it matters *)
Lemma start_norm_eval d s a p lo : bnd_ok d s -> eval s (start_norm d a p lo) = eval s lo.
Proof.
  intro Hb. unfold start_norm. destruct (is_lower d a p lo) eqn:E; [|reflexivity].
  destruct (nth_error (d a) p) as [[lb ub]|] eqn:N; [|reflexivity].
  unfold is_lower in E. destruct lo as [z| | | | |f args]; try discriminate.
  - rewrite N in E. apply Z.eqb_eq in E. subst. reflexivity.
  - destruct f; try discriminate.
    destruct args as [|a1 args]; try discriminate. destruct a1 as [|b| | | |]; try discriminate.
    destruct args as [|a2 args]; try discriminate. destruct a2 as [q| | | | |]; try discriminate.
    destruct args; try discriminate.
    apply andb_true_iff in E as [E1 E2]. apply Nat.eqb_eq in E1. apply Z.eqb_eq in E2. subst b.
    cbn [eval is_inquiry map opt_all]. unfold eval_intr, dim_of. rewrite Hb.
    assert (Hq : (q <? 1) = false) by (apply Z.ltb_ge; lia). rewrite Hq.
    replace (Z.to_nat (q - 1)) with p by lia. rewrite N. reflexivity.
Qed.

Section Iteration.
  (* the lhs range (of accessor F at position p) and one loop iteration k: s0 = store at loop entry,
     s1 = store at the start of the body *)
  Variables (fx : fixes) (d : decls) (idx W F : name) (wix : option (list index)) (p : nat) (lo hi st : expr).
  Variables (s0 s1 : store) (k l t : Z).
  Hypothesis Hbnd : bnd_ok d s0.
  Hypothesis El : eval s0 lo = Some l.
  Hypothesis Et : eval s0 st = Some t.
  Hypothesis R1 : bnd s1 = bnd s0.
  Hypothesis R2 : val s1 (idx, []) = l + k * t.
  Hypothesis R3 : forall loc, fst loc <> idx -> fst loc <> W -> val s1 loc = val s0 loc.
  Hypothesis R4 : forall w vs, wix = Some w -> opt_all (map (ix_val s0 k) w) = Some vs -> val s1 (W, vs) = val s0 (W, vs).
  Hypothesis Flo : mentions idx lo = false /\ mentions W lo = false.

  Lemma eval_s1 e : mentions idx e = false -> mentions W e = false -> eval s1 e = eval s0 e.
  Proof.
    intros H1 H2. apply eval_names; [exact R1|]. intros loc Hl. apply R3; intro X; rewrite X in Hl; congruence.
  Qed.

  Lemma ridx_eval b q lo' hi' st' :
    rng_safe fx d F p lo st b q lo' st' = true -> mentions idx lo' = false -> mentions W lo' = false ->
    eval s1 (ridx_of fx d idx F p lo st b q lo' st') = ix_val s0 k (IRange lo' hi' st').
  Proof.
    intros S H1 H2. unfold rng_safe in S. apply andb_true_iff in S as [S1 S2].
    apply expr_eqb_eq in S1. subst st'. unfold ridx_of. cbn [ix_val]. rewrite Et.
    destruct (same_range fx d F p lo st b q lo' st) eqn:SR.
    - apply expr_eqb_eq in S2. cbn [eval]. rewrite R2.
      assert (E : eval s0 lo' = Some l).
      { rewrite <- (start_norm_eval d s0 b q lo' Hbnd), <- S2, (start_norm_eval d s0 F p lo Hbnd). exact El. }
      rewrite E. reflexivity.
    - rewrite expr_eqb_refl, orb_true_r. cbn [eval]. rewrite R2. destruct Flo as [F1 F2].
      rewrite (eval_s1 lo' H1 H2), (eval_s1 lo F1 F2), El.
      destruct (eval s0 lo') as [l'|]; [|reflexivity]. cbn [eval_bin]. f_equal. lia.
  Qed.

  Lemma lower_ixs_eval b : forall ix q,
    ranges_safe fx d F p lo st b q ix = true -> forallb (ix_fresh idx W) ix = true ->
    map (eval s1) (lower_ixs (ridx_of fx d idx F p lo st) b q ix) = map (ix_val s0 k) ix.
  Proof.
    induction ix as [|i ix IH]; intros q S Fr; [reflexivity|].
    cbn [forallb] in Fr. apply andb_true_iff in Fr as [Fi Fr]. unfold ix_fresh in Fi.
    apply andb_true_iff in Fi as [Fi1 Fi2]. apply negb_true_iff in Fi1, Fi2.
    destruct i as [e|lo' hi' st']; cbn [lower_ixs map ranges_safe] in *.
    - cbn [imentions] in Fi1, Fi2. rewrite (eval_s1 e Fi1 Fi2). cbn [ix_val]. f_equal. apply IH; assumption.
    - apply andb_true_iff in S as [S1 S2]. cbn [imentions] in Fi1, Fi2.
      apply orb_false_iff in Fi1 as [Fi1 _]. apply orb_false_iff in Fi1 as [Fi1 _].
      apply orb_false_iff in Fi2 as [Fi2 _]. apply orb_false_iff in Fi2 as [Fi2 _].
      rewrite (ridx_eval b q lo' hi' st' S1 Fi1 Fi2). f_equal. apply IH; assumption.
  Qed.

  Lemma intr_of_eval sA sB f args1 args2 vs :
    eval_intr sA (intr_of f) args1 vs = eval_intr sB (intr_of f) args2 vs.
  Proof. destruct f; reflexivity. Qed.

  Lemma lower_eval e :
    aexpr_safe (acc_safe fx d idx W wix F p lo st) idx W e = true ->
    eval s1 (lower (ridx_of fx d idx F p lo st) e) = aeval s0 k e.
  Proof.
    induction e as [z|x|b ix|o e IH|o e1 IH1 e2 IH2|f e IH|f e1 IH1 e2 IH2]; intro S; cbn [aexpr_safe lower aeval] in *.
    - reflexivity.
    - apply andb_true_iff in S as [S1 S2]. apply negb_true_iff in S1, S2. apply Nat.eqb_neq in S1, S2.
      cbn [eval]. f_equal. apply R3; cbn [fst]; congruence.
    - unfold acc_safe in S. apply andb_true_iff in S as [S Srg]. apply andb_true_iff in S as [S Ssame].
      apply andb_true_iff in S as [Sidx Sfr]. apply negb_true_iff in Sidx. apply Nat.eqb_neq in Sidx.
      cbn [eval]. rewrite (lower_ixs_eval b ix 0%nat Srg Sfr).
      destruct (opt_all (map (ix_val s0 k) ix)) as [vs|] eqn:E; [|reflexivity]. f_equal.
      destruct (Nat.eqb W b) eqn:EW.
      + apply Nat.eqb_eq in EW. subst b. destruct wix as [w|]; [|discriminate].
        apply indices_eqb_eq in Ssame. subst ix. apply (R4 w vs eq_refl E).
      + apply Nat.eqb_neq in EW. apply R3; cbn [fst]; congruence.
    - cbn [eval]. rewrite (IH S). reflexivity.
    - apply andb_true_iff in S as [S1 S2]. cbn [eval]. rewrite (IH1 S1), (IH2 S2). reflexivity.
    - cbn [eval]. assert (Hq : is_inquiry (intr_of f) = false) by (destruct f; reflexivity). rewrite Hq.
      cbn [map opt_all]. rewrite (IH S). destruct (aeval s0 k e); [|reflexivity]. apply intr_of_eval.
    - apply andb_true_iff in S as [S1 S2]. cbn [eval].
      assert (Hq : is_inquiry (intr_of f) = false) by (destruct f; reflexivity). rewrite Hq.
      cbn [map opt_all]. rewrite (IH1 S1), (IH2 S2).
      destruct (aeval s0 k e1); [|reflexivity]. destruct (aeval s0 k e2); [|reflexivity]. apply intr_of_eval.
  Qed.
End Iteration.

(* ================================================================== distinct elements *)
Lemma ix_val_range_nth s k : forall ix q0 p lo hi st l t vs,
  range_pos q0 ix = Some (p, lo, hi, st) -> eval s lo = Some l -> eval s st = Some t ->
  opt_all (map (ix_val s k) ix) = Some vs -> nth_error vs (p - q0) = Some (l + k * t) /\ (q0 <= p)%nat.
Proof.
  induction ix as [|i ix IH]; intros q0 p lo hi st l t vs H El Et Hv; [discriminate|].
  cbn [map opt_all] in Hv. destruct (ix_val s k i) as [v|] eqn:Ev; [|discriminate].
  destruct (opt_all (map (ix_val s k) ix)) as [vs'|] eqn:E; [|discriminate]. inversion Hv; subst vs.
  destruct i as [e|lo' hi' st']; cbn [range_pos] in H.
  - destruct (IH (S q0) p lo hi st l t vs' H El Et eq_refl) as [N L]. split; [|lia].
    replace (p - q0)%nat with (S (p - S q0)) by lia. exact N.
  - inversion H; subst. cbn [ix_val] in Ev. rewrite El, Et in Ev. inversion Ev; subst.
    rewrite Nat.sub_diag. split; [reflexivity | lia].
Qed.

Lemma range_pos_fresh idx W : forall ix q p lo hi st,
  range_pos q ix = Some (p, lo, hi, st) -> forallb (ix_fresh idx W) ix = true ->
  (mentions idx lo = false /\ mentions W lo = false) /\ (mentions idx hi = false /\ mentions W hi = false) /\
  (mentions idx st = false /\ mentions W st = false).
Proof.
  induction ix as [|i ix IH]; intros q p lo hi st H Fr; [discriminate|].
  cbn [forallb] in Fr. apply andb_true_iff in Fr as [Fi Fr].
  destruct i as [e|lo' hi' st']; cbn [range_pos] in H; [eapply IH; eauto|].
  inversion H; subst. unfold ix_fresh in Fi. apply andb_true_iff in Fi as [F1 F2].
  apply negb_true_iff in F1, F2. cbn [imentions] in F1, F2.
  apply orb_false_iff in F1 as [F1 F1c]. apply orb_false_iff in F1 as [F1a F1b].
  apply orb_false_iff in F2 as [F2 F2c]. apply orb_false_iff in F2 as [F2a F2b]. auto.
Qed.

(* ================================================================== the theorem *)
Theorem aa_sound_partial_ fx d idx a s s' f :
  aa_safe fx d idx a = true -> bnd_ok d s -> aa_sem a s = Some s' ->
  exists prog, aa_apply fx d idx a = Some prog /\
  exists s2 tr, exec (3 + f) prog s = Ok s2 tr CNormal /\ agree_except [idx] s2 s'.
Proof.
  intros Safe Hbnd Sem. unfold aa_safe in Safe. apply andb_true_iff in Safe as [Acc Safe].
  unfold aa_apply. rewrite Acc. unfold aa_sem in Sem.
  destruct (range_pos 0 (aa_ix a)) as [[[[p lo] hi] st]|] eqn:RP; [|discriminate].
  apply andb_true_iff in Safe as [Slhs Srhs].
  destruct (eval s lo) as [l|] eqn:El; [|discriminate]. destruct (eval s hi) as [h|] eqn:Eh; [|discriminate].
  destruct (eval s st) as [t|] eqn:Et; [|discriminate]. destruct (t =? 0) eqn:T0; [discriminate|].
  apply Z.eqb_neq in T0.
  destruct (opt_all (map (aa_elem s a) (zseq 0 (trip_count l h t)))) as [lvs|] eqn:Elvs; [|discriminate].
  inversion Sem; subst s'. clear Sem. eexists. split; [reflexivity|].
  set (W := aa_arr a) in *. set (n := trip_count l h t) in *.
  set (r := ridx_of fx d idx W p lo st).
  (* facts from the lhs accessor *)
  pose proof Slhs as Slhs'. unfold acc_safe in Slhs'.
  apply andb_true_iff in Slhs' as [S3 Lrg]. apply andb_true_iff in S3 as [S3 _].
  apply andb_true_iff in S3 as [LidxW Lfr]. apply negb_true_iff in LidxW. apply Nat.eqb_neq in LidxW.
  destruct (range_pos_fresh idx W _ _ _ _ _ _ RP Lfr) as [Flo [Fhi Fst]].
  (* invariant: after j iterations the store is the initial one with the first j elements stored *)
  set (P := fun (j : nat) (sj : store) =>
              exists lj, opt_all (map (aa_elem s a) (zseq 0 j)) = Some lj /\ agree_except [idx] sj (store_all s lj)).
  destruct (exec_do_inv_rule (S f) idx lo hi st
              [SAssign W (lower_ixs r W 0 (aa_ix a)) (lower r (aa_rhs a))] s l h t P El Eh Et T0)
    as [s2 [tr [[lj [Hlj Hag]] Hex]]].
  - (* one iteration *)
    intros j sj Hj [lj [Hlj Hag]]. fold n in Hj.
    destruct (zseq_split_at n j Hj) as [rest Hsplit]. rewrite zseq_snoc in Hsplit.
    assert (Hin : In (Z.of_nat j) (zseq 0 n)) by (rewrite Hsplit; apply in_or_app; left; apply in_or_app; right; left; reflexivity).
    destruct (opt_all_in _ _ _ _ Elvs Hin) as [[locj vj] [Hel _]].
    unfold aa_elem in Hel.
    destruct (opt_all (map (ix_val s (Z.of_nat j)) (aa_ix a))) as [vsj|] eqn:Evs; [|discriminate].
    destruct (aeval s (Z.of_nat j) (aa_rhs a)) as [v|] eqn:Ev; [|discriminate].
    inversion Hel; subst locj vj. clear Hel.
    set (s1 := upd sj (idx, []) (l + Z.of_nat j * t)).
    (* the relation between s1 and the loop-entry store *)
    destruct Hag as [Hb Hv].
    assert (R1 : bnd s1 = bnd s) by (unfold s1; rewrite bnd_upd, Hb; apply bnd_store_all).
    assert (R2 : val s1 (idx, []) = l + Z.of_nat j * t) by (unfold s1; apply val_upd_same).
    assert (Hlj_locs : forall lv, In lv lj -> exists i, 0 <= i < Z.of_nat j /\
                 exists vs, opt_all (map (ix_val s i) (aa_ix a)) = Some vs /\ fst lv = (W, vs)).
    { intros lv Hlv. destruct (opt_all_in_result _ _ _ _ Hlj Hlv) as [i [Hi Hfi]].
      apply in_zseq in Hi. exists i. split; [lia|]. unfold aa_elem in Hfi.
      destruct (opt_all (map (ix_val s i) (aa_ix a))) as [vs|]; [|discriminate].
      destruct (aeval s i (aa_rhs a)); [|discriminate]. inversion Hfi; subst. exists vs. split; reflexivity. }
    assert (R3 : forall loc, fst loc <> idx -> fst loc <> W -> val s1 loc = val s loc).
    { intros loc N1 N2. unfold s1. rewrite val_upd_other by (intro X; subst loc; apply N1; reflexivity).
      rewrite Hv by (intros [X|[]]; apply N1; symmetry; exact X).
      apply val_store_all_notin. intros lv Hlv X. destruct (Hlj_locs lv Hlv) as [i [_ [vs [_ Hf]]]].
      rewrite Hf in X. subst loc. apply N2. reflexivity. }
    assert (R4 : forall w vs, Some (aa_ix a) = Some w -> opt_all (map (ix_val s (Z.of_nat j)) w) = Some vs -> val s1 (W, vs) = val s (W, vs)).
    { intros w vs Hw Hvs. inversion Hw; subst w. unfold s1. rewrite val_upd_other by (intro X; inversion X; congruence).
      rewrite Hv by (cbn [fst]; intros [X|[]]; congruence).
      apply val_store_all_notin. intros lv Hlv X. destruct (Hlj_locs lv Hlv) as [i [Hi [vs' [Hvs' Hf]]]].
      rewrite Hf in X. inversion X; subst vs'.
      destruct (ix_val_range_nth s i _ _ _ _ _ _ _ _ _ RP El Et Hvs') as [N1 _].
      destruct (ix_val_range_nth s (Z.of_nat j) _ _ _ _ _ _ _ _ _ RP El Et Hvs) as [N2 _].
      rewrite N1 in N2. inversion N2. assert (i * t = Z.of_nat j * t) by lia.
      apply Z.mul_cancel_r in H; [lia | exact T0]. }
    (* evaluate the body *)
    assert (Eix : opt_all (map (eval s1) (lower_ixs r W 0 (aa_ix a))) = Some vsj).
    { unfold r. rewrite (lower_ixs_eval fx d idx W W p lo st s s1 (Z.of_nat j) l t Hbnd El Et R1 R2 R3 Flo W (aa_ix a) 0%nat Lrg Lfr).
      exact Evs. }
    assert (Erhs : eval s1 (lower r (aa_rhs a)) = Some v).
    { unfold r. rewrite (lower_eval fx d idx W W (Some (aa_ix a)) p lo st s s1 (Z.of_nat j) l t Hbnd El Et R1 R2 R3 R4 Flo _ Srhs).
      exact Ev. }
    eexists. eexists. split.
    + fold s1. apply (exec_assign f W _ _ s1 vsj v Eix Erhs).
    + exists (lj ++ [((W, vsj), v)]). split.
      * rewrite zseq_snoc, map_app. apply opt_all_app_some; [exact Hlj|].
        cbn [map opt_all]. unfold aa_elem. fold W. rewrite Evs, Ev. reflexivity.
      * rewrite store_all_app. cbn [store_all fold_left fst snd]. apply agree_upd_both.
        eapply agree_trans; [apply agree_upd_fresh; left; reflexivity|]. split; assumption.
  - exists []. split; [reflexivity | apply agree_refl].
  - (* after the loop *)
    fold n in Hlj, Hex. rewrite Elvs in Hlj. inversion Hlj; subst lj.
    exists (upd s2 (idx, []) (l + Z.of_nat n * t)). eexists. split; [exact Hex|].
    eapply agree_trans; [apply agree_upd_fresh; left; reflexivity | exact Hag].
Qed.

(* ================================================================== non-vacuity and refutation *)
(* names: 0 = a, 1 = b, 2 = idx, 3 = x;  a(1:9) declared (1:10), b declared (0:9) *)
Definition ex_decls : decls := fun n => match n with O => [(1, 10)] | S O => [(0, 9)] | _ => [] end.
Definition ex_store : store :=
  store_of [((0%nat, [1]), 11); ((0%nat, [2]), 12); ((0%nat, [3]), 13); ((0%nat, [4]), 14); ((1%nat, [0]), 5);
            ((1%nat, [1]), 6); ((1%nat, [2]), 7); ((1%nat, [3]), 8); ((3%nat, []), 2)]
           [(0%nat, [(1, 10)]); (1%nat, [(0, 9)])].

(* a(1:4) = b(0:3) * x + a(1:4): accepted, safe, non-trivial offsets *)
Definition ex_safe : aassign :=
  mkAA 0%nat [IRange (ELit 1) (ELit 4) (ELit 1)]
       (ABin Add (ABin Mul (ASec 1%nat [IRange (ELit 0) (ELit 3) (ELit 1)]) (AVar 3%nat))
                 (ASec 0%nat [IRange (ELit 1) (ELit 4) (ELit 1)])).

Example aa_safe_nonvacuous :
  aa_safe unfixed ex_decls 2%nat ex_safe = true /\ bnd_ok ex_decls ex_store /\
  (exists s', aa_sem ex_safe ex_store = Some s' /\ val s' (0%nat, [2]) = 24).
Proof.
  split; [vm_compute; reflexivity|]. split.
  - intros [|[|b]]; reflexivity.
  - eexists. split; [vm_compute; reflexivity|]. vm_compute. reflexivity.
Qed.

(* a(2:10) = a(1:9) *)
Definition ex_overlap : aassign :=
  mkAA 0%nat [IRange (ELit 2) (ELit 10) (ELit 1)] (ASec 0%nat [IRange (ELit 1) (ELit 9) (ELit 1)]).

Theorem aa_refuted_ :
  exists d idx a s s' prog s2 tr,
    aa_accept a = true /\ bnd_ok d s /\ aa_sem a s = Some s' /\ aa_apply unfixed d idx a = Some prog /\
    exec 10 prog s = Ok s2 tr CNormal /\ val s2 (aa_arr a, [3]) <> val s' (aa_arr a, [3]).
Proof.
  exists ex_decls, 2%nat, ex_overlap, ex_store.
  destruct (aa_sem ex_overlap ex_store) as [s'|] eqn:E1; [|vm_compute in E1; discriminate].
  destruct (aa_apply unfixed ex_decls 2%nat ex_overlap) as [prog|] eqn:E2; [|vm_compute in E2; discriminate].
  destruct (exec 10 prog ex_store) as [s2 tr c| |] eqn:E3.
  - exists s', prog, s2, tr. split; [reflexivity|]. split; [intros [|[|b]]; reflexivity|].
    split; [first [exact E1 | reflexivity]|]. split; [first [exact E2 | reflexivity]|].
    assert (Hc : c = CNormal /\ val s2 (0%nat, [3]) = 11 /\ val s' (0%nat, [3]) = 12).
    { revert E3. inversion E2; subst prog. clear E2. inversion E1; subst s'. clear E1.
      vm_compute. intro H. inversion H; subst. repeat split. }
    destruct Hc as [-> [H2 H3]]. split; [first [exact E3 | reflexivity]|]. intro X. pose proof (eq_trans (eq_sym H2) (eq_trans X H3)) as Y. discriminate Y.
  - exfalso. inversion E2; subst prog. vm_compute in E3. discriminate.
  - exfalso. inversion E2; subst prog. vm_compute in E3. discriminate.
Qed.
