(* C06 (round 3) — declaration forms of dummy arguments and their EFFECTIVE bounds, the bound
   expressions built by matmul2code_trans.py::_get_array_bound for each form, and the faithful model of
   Matmul2CodeTrans._apply_matrix_matrix over them.  Definitions + the evaluation lemma for bounds. *)
From Coq Require Import List ZArith Bool Lia.
Import ListNotations.
From PV Require Import Fort.Syntax Fort.Sem Fort.Facts Base.Harness C06.Syntax C06.Model C06.Common.
Open Scope Z_scope.

(* one dimension of a declaration *)
Inductive dimform :=
| DExplicit (lb ub : Z)      (* a(lb:ub) *)
| DAssumedLb (lb : Z)        (* a(lb:)   assumed shape with explicit lower bound *)
| DAssumed                   (* a(:)     assumed shape *)
| DDeferred.                 (* allocatable: bounds of the actual argument *)

Definition zextent (b : Z * Z) : Z := Z.max 0 (snd b - fst b + 1).

(* bounds seen inside the routine, from the form and the bounds of the actual argument *)
Definition eff_dim (f : dimform) (actual : Z * Z) : Z * Z :=
  match f with
  | DExplicit lb ub => (lb, ub)
  | DAssumedLb lb => (lb, lb + zextent actual - 1)
  | DAssumed => (1, zextent actual)
  | DDeferred => actual
  end.

Fixpoint eff_dims (fs : list dimform) (acts : list (Z * Z)) : list (Z * Z) :=
  match fs, acts with
  | f :: fs', a :: acts' => eff_dim f a :: eff_dims fs' acts'
  | _, _ => []
  end.

Definition forms := name -> list dimform.
Definition eff_decls (fm : forms) (actuals : name -> list (Z * Z)) : decls :=
  fun a => eff_dims (fm a) (actuals a).

(* an assumed-shape dummy has the extent of its actual argument and the requested lower bound *)
Theorem eff_dim_spec f act :
  match f with
  | DExplicit lb ub => eff_dim f act = (lb, ub)
  | DAssumedLb lb => fst (eff_dim f act) = lb /\ zextent (eff_dim f act) = zextent act
  | DAssumed => fst (eff_dim f act) = 1 /\ zextent (eff_dim f act) = zextent act
  | DDeferred => eff_dim f act = act
  end.
Proof. destruct f; cbn [eff_dim fst snd]; unfold zextent; cbn [fst snd]; try split; try reflexivity; lia. Qed.

(* a form is consistent with effective bounds b *)
Definition form_ok (f : dimform) (b : Z * Z) : Prop :=
  match f with
  | DExplicit lb ub => b = (lb, ub)
  | DAssumedLb lb => fst b = lb
  | _ => True
  end.

Lemma eff_dim_form_ok f act : form_ok f (eff_dim f act).
Proof. destruct f; cbn; auto. Qed.

(* matmul2code_trans.py::_get_array_bound(array, k): (lower, upper) expressions of dimension k (0-based) *)
Definition lbound_of (a : name) (k : nat) : expr := EIntr ILbound [EVar a; ELit (Z.of_nat (S k))].
Definition ubound_of (a : name) (k : nat) : expr := EIntr IUbound [EVar a; ELit (Z.of_nat (S k))].

Definition mbound (fm : forms) (a : name) (k : nat) : expr * expr :=
  match nth_error (fm a) k with
  | Some (DExplicit lb ub) => (ELit lb, ELit ub)
  | Some (DAssumedLb lb) => (ELit lb, ubound_of a k)
  | _ => (lbound_of a k, ubound_of a k)
  end.

Lemma inquiry_eval s a k b :
  nth_error (bnd s a) k = Some b ->
  eval s (lbound_of a k) = Some (fst b) /\ eval s (ubound_of a k) = Some (snd b).
Proof.
  intro N. unfold lbound_of, ubound_of. cbn [eval is_inquiry map opt_all]. unfold eval_intr, dim_of.
  assert (Hq : (Z.of_nat (S k) <? 1) = false) by (apply Z.ltb_ge; lia). rewrite Hq.
  replace (Z.to_nat (Z.of_nat (S k) - 1)) with k by lia. rewrite N. split; reflexivity.
Qed.

(* in every store whose bounds are the effective bounds, the generated bound expressions evaluate to them *)
Lemma mbound_eval fm d s a k b :
  bnd s a = d a -> nth_error (d a) k = Some b ->
  (forall f, nth_error (fm a) k = Some f -> form_ok f b) ->
  eval s (fst (mbound fm a k)) = Some (fst b) /\ eval s (snd (mbound fm a k)) = Some (snd b).
Proof.
  intros Hb N Ok. rewrite <- Hb in N. destruct (inquiry_eval s a k b N) as [EL EU]. unfold mbound.
  destruct (nth_error (fm a) k) as [[lb ub|lb| |]|] eqn:F; cbn [fst snd]; try (split; assumption).
  - specialize (Ok _ eq_refl). cbn in Ok. subst b. split; reflexivity.
  - specialize (Ok _ eq_refl). cbn in Ok. subst lb. split; [reflexivity | assumption].
Qed.

(* ------------------------------------------------------------------ MATMUL, matrix * matrix *)
(* matmul2code_trans.py:377-497: r(i,j) = 0; r(i,j) += m1(i,ii) * m2(ii,j), loops j (bounds of m2 dim 2),
   i (m1 dim 1), ii (m1 dim 2) *)
Definition matmat_apply (fm : forms) (i j ii : name) (r m1 m2 : name) : list stmt :=
  let rij := [EVar i; EVar j] in
  [SDo j (fst (mbound fm m2 1)) (snd (mbound fm m2 1)) (ELit 1)
     [SDo i (fst (mbound fm m1 0)) (snd (mbound fm m1 0)) (ELit 1)
        [SAssign r rij (ELit 0);
         SDo ii (fst (mbound fm m1 1)) (snd (mbound fm m1 1)) (ELit 1)
           [SAssign r rij (EBin Add (EIdx r rij)
                                    (EBin Mul (EIdx m1 [EVar i; EVar ii]) (EIdx m2 [EVar ii; EVar j])))]]]].

(* matrix * vector with form-aware bounds (matmul2code_trans.py:318-375) *)
Definition matvecF_apply (fm : forms) (i j : name) (r m v : name) : list stmt :=
  [SDo i (fst (mbound fm m 0)) (snd (mbound fm m 0)) (ELit 1)
     [SAssign r [EVar i] (ELit 0);
      SDo j (fst (mbound fm v 0)) (snd (mbound fm v 0)) (ELit 1)
        [SAssign r [EVar i]
           (EBin Add (EIdx r [EVar i]) (EBin Mul (EIdx m [EVar i; EVar j]) (EIdx v [EVar j])))]]].

(* Fortran value: r(lbr1+a, lbr2+b) = sum_q m1(lb11+a, lb12+q) * m2(lb21+q, lb22+b) over effective bounds d *)
Definition matmat_elem (d : decls) (m1 m2 : name) (s : store) (a b : Z) : Z :=
  sum_upto (fun q => val s (m1, [fst (dim0 d m1) + a; fst (dim1 d m1) + q]) *
                     val s (m2, [fst (dim0 d m2) + q; fst (dim1 d m2) + b]))
           (extent (dim1 d m1)).

Definition matmat_col (d : decls) (r m1 m2 : name) (s : store) (b : Z) : list (loc * Z) :=
  map (fun a => ((r, [fst (dim0 d r) + a; fst (dim1 d r) + b]), matmat_elem d m1 m2 s a b))
      (zseq 0 (extent (dim0 d m1))).

Definition matmat_sem (d : decls) (r m1 m2 : name) (s : store) : store :=
  store_all s (flat_map (matmat_col d r m1 m2 s) (zseq 0 (extent (dim1 d m2)))).
