(* C13 — OpenACC data regions: clause classification and a two-memory semantics (DEFINITIONS ONLY).

   Faithful model of
     RegionDirective.create_data_movement_deep_copy_refs   (src/psyclone/psyir/nodes/directive.py:74-160)
     ACCDataDirective._update_data_movement_clauses        (src/psyclone/psyir/nodes/acc_directives.py:754-779)
     ACCDataTrans.apply                                    (src/psyclone/transformations.py)
   restricted to non-structure signatures: for every signature of VariablesAccessInfo(region) whose
   symbol is not of ScalarType:  has_read_write => copy;  read and written => (is_written_first ?
   copyout : copy);  read only => copyin;  otherwise => copyout.

   The access list is C12.InOut.accs false (= the C11 model, C12_accs_is_C11_projection), extended
   here with calls to user routines (Call.reference_accesses: every by-reference argument READWRITE)
   so that the READWRITE branch of the classification is exercised; the semantics of a call is supplied
   by the harness as an expansion, and the soundness theorem acc_sound_gen holds for ANY clause lists and ANY
   statement list as the region's semantics.

   Two-memory semantics: device copies of arrays are UNDEFINED on entry — an arbitrary function
   [junk : loc -> Z] — except for copyin/copy arrays; the region runs on device memory; on exit the
   in-bounds elements of copyout/copy arrays are copied back; scalars are outside the claim and are
   modelled as shared. *)
From Coq Require Import List ZArith Bool.
Import ListNotations.
From PV Require Import Fort.Syntax Fort.Sem C11.Access C12.InOut.
Open Scope Z_scope.

Inductive clause := CopyIn | CopyOut | Copy.

Definition clause_eqb (a b : clause) : bool :=
  match a, b with CopyIn, CopyIn | CopyOut, CopyOut | Copy, Copy => true | _, _ => false end.

(* create_data_movement_deep_copy_refs, per signature; [isarr] = "symbol datatype is not ScalarType" *)
Definition classify (isarr : name -> bool) (l : list acc) (x : name) : option clause :=
  if negb (isarr x) || negb (mem x (sigs l)) then None      (* only accessed, non-scalar signatures *)
  else if hasrw x l then Some Copy
  else if isread x l then
         (if written x l then (if wfirst x l then Some CopyOut else Some Copy) else Some CopyIn)
  else Some CopyOut.

Definition in_clause (isarr : name -> bool) (l : list acc) (c : clause) : list name :=
  filter (fun x => match classify isarr l x with Some c' => clause_eqb c c' | None => false end) (sigs l).

(* ---- regions with calls: the access list [xaccs false] of C12/InOut.v *)

(* ---- comparison with the implementation: (region, declared arrays, copyin, copyout, copy) *)
Definition acc_case := (list xstmt * list name * list name * list name * list name)%type.
Definition clauses_agree (c : acc_case) : bool :=
  match c with (xs, arrs, cin, cout, cpy) =>
    let l := xaccs false xs in let isarr := fun x => mem x arrs in
    set_eqb (in_clause isarr l CopyIn) cin && set_eqb (in_clause isarr l CopyOut) cout &&
    set_eqb (in_clause isarr l Copy) cpy
  end.

(* ---- ACCDataTrans.validate / RegionTrans.validate node-type check:
        excluded_node_types = (CodeBlock, Return, PSyDataNode)  — EXIT, CYCLE and PRINT are CodeBlocks *)
Fixpoint s_accept (s : stmt) : bool :=
  match s with
  | SAssign _ _ _ => true
  | SIf _ th el => forallb s_accept th && forallb s_accept el
  | SDo _ _ _ _ body => forallb s_accept body
  | SExit | SCycle | SReturn => false
  | SPrint _ => false
  | SRegion _ _ => false
  | SDir _ body => forallb s_accept body
  end.
Definition acc_accept (r : list stmt) : bool := forallb s_accept r.

(* ---- two-memory semantics *)
Definition cl_of (isarr : name -> bool) (r : list stmt) : name -> option clause :=
  classify isarr (accs false r).

Definition copied_in (cl : name -> option clause) (x : name) : bool :=
  match cl x with Some CopyIn | Some Copy => true | _ => false end.
Definition copied_out (cl : name -> option clause) (x : name) : bool :=
  match cl x with Some CopyOut | Some Copy => true | _ => false end.

Fixpoint inb (bs : list (Z * Z)) (idx : list Z) : bool :=
  match bs, idx with
  | [], [] => true
  | (lo, hi) :: bs', i :: idx' => (lo <=? i) && (i <=? hi) && inb bs' idx'
  | _, _ => false
  end.

Definition dev_init (isarr : name -> bool) (cl : name -> option clause) (junk : loc -> Z) (st : store) : store :=
  mkStore (fun l => if isarr (fst l) && negb (copied_in cl (fst l)) then junk l else val st l) (bnd st).

Definition copy_back (isarr : name -> bool) (cl : name -> option clause) (host dev : store) : store :=
  mkStore (fun l => if isarr (fst l)
                    then (if copied_out cl (fst l) && inb (bnd host (fst l)) (snd l) then val dev l else val host l)
                    else val dev l)
          (bnd host).

Definition exec_dev (f : nat) (isarr : name -> bool) (cl : name -> option clause) (junk : loc -> Z)
           (r : list stmt) (st : store) : outcome :=
  match exec f r (dev_init isarr cl junk st) with
  | Ok d tr c => Ok (copy_back isarr cl st d) tr c
  | other => other
  end.

(* ---- the run-time sufficient condition, as a boolean on one host run (st, tr):
   (1) no upward-exposed read of an array that is not copied in,
   (2) every array write is in bounds (what is copied back is the declared extent),
   (3) every in-bounds element of every copyout array is written. *)
Definition zrange (lo hi : Z) : list Z := map (fun k => lo + Z.of_nat k) (seq 0 (Z.to_nat (hi - lo + 1))).
Fixpoint all_idx (bs : list (Z * Z)) : list (list Z) :=
  match bs with
  | [] => [[]]
  | (lo, hi) :: bs' => flat_map (fun i => map (cons i) (all_idx bs')) (zrange lo hi)
  end.
Definition lmem (l : loc) (ls : list loc) : bool := existsb (loc_eqb l) ls.

Definition exposed_ok (isarr : name -> bool) (cl : name -> option clause) (tr : list event) : bool :=
  forallb (fun l => negb (isarr (fst l)) || copied_in cl (fst l)) (exposed tr).
Definition writes_inb (isarr : name -> bool) (st : store) (tr : list event) : bool :=
  forallb (fun l => negb (isarr (fst l)) || inb (bnd st (fst l)) (snd l)) (writes tr).
Definition copyout_fully_written (isarr : name -> bool) (r : list stmt) (st : store) (tr : list event) : bool :=
  forallb (fun x => forallb (fun idx => lmem (x, idx) (writes tr)) (all_idx (bnd st x)))
          (in_clause isarr (accs false r) CopyOut).
Definition acc_run_ok (isarr : name -> bool) (r : list stmt) (st : store) (tr : list event) : bool :=
  exposed_ok isarr (cl_of isarr r) tr && writes_inb isarr st tr && copyout_fully_written isarr r st tr.

(* static part of (1): every copyout array is write-only in the region *)
Definition copyout_write_only (isarr : name -> bool) (r : list stmt) : bool :=
  forallb (fun x => negb (isread x (accs false r))) (in_clause isarr (accs false r) CopyOut).

(* reason code of an array x for the harness: 0 = x is not in the model's copyout clause;
   1 = copyout, never read (write-only array);  2 = copyout, read after its first (written) access *)
Definition acc_reason (isarr : name -> bool) (r : list stmt) (x : name) : nat :=
  match cl_of isarr r x with
  | Some CopyOut => if isread x (accs false r) then 2%nat else 1%nat
  | _ => 0%nat
  end.

(* executable two-memory evaluation for cross-checking the harness' evaluator: constant junk *)
Definition dev_final (f : nat) (arrs : list name) (j : Z) (r : list stmt) (st : store) : option store :=
  let isarr := fun x => mem x arrs in
  match exec_dev f isarr (cl_of isarr r) (fun _ => j) r st with Ok s _ _ => Some s | _ => None end.

(* ---- arbitrary clause lists (what the implementation generated), arbitrary region semantics *)
Definition cl_from (cin cout cpy : list name) : name -> option clause :=
  fun x => if mem x cpy then Some Copy else if mem x cin then Some CopyIn
           else if mem x cout then Some CopyOut else None.
Definition writes_out (isarr : name -> bool) (cl : name -> option clause) (tr : list event) : bool :=
  forallb (fun l => negb (isarr (fst l)) || copied_out cl (fst l)) (writes tr).
Definition acc_run_ok_gen (isarr : name -> bool) (cin cout cpy : list name) (st : store) (tr : list event) : bool :=
  let cl := cl_from cin cout cpy in
  exposed_ok isarr cl tr && writes_inb isarr st tr && writes_out isarr cl tr &&
  forallb (fun x => copied_in cl x || forallb (fun idx => lmem (x, idx) (writes tr)) (all_idx (bnd st x))) cout.
Definition dev_final_cl (f : nat) (arrs cin cout cpy : list name) (j : Z) (r : list stmt) (st : store) : option store :=
  match exec_dev f (fun x => mem x arrs) (cl_from cin cout cpy) (fun _ => j) r st with Ok s _ _ => Some s | _ => None end.
(* reason code with calls: classification on the call-aware access list *)
Definition x_reason (isarr : name -> bool) (xs : list xstmt) (x : name) : nat :=
  match classify isarr (xaccs false xs) x with
  | Some CopyOut => if isread x (xaccs false xs) then 2%nat else 1%nat
  | _ => 0%nat
  end.
