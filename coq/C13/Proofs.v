(* C13 — proofs about the OpenACC data-region model (coq/C13/AccData.v).
     reads_covered        accepted regions: every location read by a run belongs to a variable with a READ access
     acc_sound_dyn        run-time condition acc_run_ok  => host result of the two-memory run = host run, for all junk
     acc_sound_partial    accepted region + static copyout_write_only + in-bounds writes + copyout arrays fully written
     refutations          a(1)=0 (copyout(a) clobbers a(2:)), a(1)=0; s=a(2), if (t>0) c(1)=1; n=c(1) *)
From Coq Require Import List ZArith Bool Lia.
Import ListNotations.
From PV Require Import Fort.Syntax Fort.Sem Fort.Facts C11.Access C12.InOut C12.BigStep C12.Proofs C13.AccData.
Open Scope Z_scope.

(* ------------------------------------------------------------------------------------------ *)
(** * read locations are covered by READ accesses (regions without code blocks) *)

Lemma in_rdl x xs : In (x, READ) (rdl xs) <-> In x xs.
Proof.
  unfold rdl. rewrite in_map_iff. split.
  - intros [y [E H]]. inversion E; subst. exact H.
  - intro H. exists x. split; [reflexivity | exact H].
Qed.

Lemma reads_rds_app R tr : reads (rds R ++ tr) = R ++ reads tr.
Proof. rewrite reads_app, reads_rds. reflexivity. Qed.

Lemma flat_ereads_vars sh s es l :
  In l (flat_map (ereads s) es) -> In (fst l) (flat_map (ereads_s sh) es).
Proof.
  intro H. apply in_flat_map in H as [e [He H]]. apply in_flat_map. exists e. split; [exact He|].
  apply (ereads_vars sh s e l H).
Qed.

Lemma acc_accept_cons st rest : acc_accept (st :: rest) = s_accept st && acc_accept rest.
Proof. reflexivity. Qed.

Lemma bs_reads_covered sh :
  (forall ss s s' tr c, bs ss s s' tr c -> acc_accept ss = true ->
     forall l, In l (reads tr) -> In (fst l, READ) (accs sh ss)) /\
  (forall st s s' tr c, bst st s s' tr c -> s_accept st = true ->
     forall l, In l (reads tr) -> In (fst l, READ) (saccs sh st)) /\
  (forall body x l t n k s s' tr c, bloop body x l t n k s s' tr c -> acc_accept body = true ->
     forall l0, In l0 (reads tr) -> In (fst l0, READ) (accs sh body)).
Proof.
  apply bs_mutind.
  - intros s _ l [].
  - intros st rest s s1 tr1 s2 tr2 c _ IH1 _ IH2 A l Hl. rewrite acc_accept_cons in A.
    apply andb_true_iff in A as [A1 A2]. rewrite reads_app in Hl. rewrite accs_cons.
    apply in_or_app. apply in_app_or in Hl as [Hl|Hl]; [left; apply IH1 | right; apply IH2]; assumption.
  - intros st rest s s1 tr1 c _ IH1 _ A l Hl. rewrite acc_accept_cons in A.
    apply andb_true_iff in A as [A1 A2]. rewrite accs_cons. apply in_or_app. left. apply IH1; assumption.
  - intros x ix e s vs v _ _ _ l Hl. rewrite reads_rds_app in Hl. cbn [reads] in Hl. rewrite app_nil_r in Hl.
    cbn [saccs]. apply in_app_or in Hl as [Hl|Hl].
    + apply in_or_app. left. apply in_rdl; eapply ereads_vars; exact Hl.
    + apply in_or_app. right. apply in_or_app. left. apply in_rdl. eapply flat_ereads_vars; exact Hl.
  - intros c th el s v s' tr k _ _ IH A l Hl. cbn [s_accept] in A. apply andb_true_iff in A as [A1 A2].
    rewrite reads_rds_app in Hl. cbn [saccs]. apply in_app_or in Hl as [Hl|Hl].
    + apply in_or_app. left. apply in_rdl; eapply ereads_vars; exact Hl.
    + apply in_or_app. right. apply in_or_app.
      destruct (Z.eqb v 0); [right; apply (IH A2 l Hl) | left; apply (IH A1 l Hl)].
  - intros x lo hi st body s l h t s' tr k _ _ _ _ _ IH A l0 Hl. cbn [s_accept] in A.
    rewrite reads_rds_app in Hl. cbn [saccs].
    right. right. apply in_or_app. apply in_app_or in Hl as [Hl|Hl].
    + left. apply in_rdl. apply in_app_or in Hl as [Hl|Hl]; [apply in_or_app; left; eapply ereads_vars; exact Hl|].
      apply in_or_app. right. apply in_app_or in Hl as [Hl|Hl]; apply in_or_app;
        [left | right]; eapply ereads_vars; exact Hl.
    + right. apply (IH A l0 Hl).
  - intros s A. discriminate.
  - intros s A. discriminate.
  - intros s A. discriminate.
  - intros es s vs _ A. discriminate.
  - intros r body s s' tr c _ _ A. discriminate.
  - intros d body s s' tr c _ IH A l Hl. cbn [s_accept] in A. cbn [saccs]. apply (IH A l Hl).
  - intros body x l t k s _ l0 [].
  - intros body x l t n k s s2 tr c s3 tr3 c3 _ IH1 _ _ IH2 A l0 Hl.
    rewrite reads_app in Hl. cbn [reads] in Hl. apply in_app_or in Hl as [Hl|Hl];
      [apply (IH1 A l0 Hl) | apply (IH2 A l0 Hl)].
  - intros body x l t n k s s2 tr _ IH A l0 Hl. cbn [reads] in Hl. apply (IH A l0 Hl).
  - intros body x l t n k s s2 tr _ IH A l0 Hl. cbn [reads] in Hl. apply (IH A l0 Hl).
Qed.

Theorem reads_covered f r s s' tr c :
  acc_accept r = true -> exec f r s = Ok s' tr c ->
  forall l, In l (reads tr) -> In (fst l, READ) (accs false r).
Proof.
  intros A H l Hl. apply exec_bs in H. exact (proj1 (bs_reads_covered false) _ _ _ _ _ H A l Hl).
Qed.

(* ------------------------------------------------------------------------------------------ *)
(** * facts about the classification *)

Lemma acc_in_sigs x k l : In (x, k) l -> mem x (sigs l) = true.
Proof. intro H. apply mem_In, in_sigs, in_map_iff. exists (x, k). split; [reflexivity | exact H]. Qed.

Lemma isread_of x l : In (x, READ) l -> isread x l = true.
Proof. intro H. unfold isread. apply existsb_exists. exists READ. split; [apply in_of_var; exact H | reflexivity]. Qed.

Lemma written_of x l : In (x, WRITE) l -> written x l = true.
Proof. intro H. unfold written. apply existsb_exists. exists WRITE. split; [apply in_of_var; exact H | reflexivity]. Qed.

Lemma written_copied_out isarr l x :
  isarr x = true -> In (x, WRITE) l -> copied_out (classify isarr l) x = true.
Proof.
  intros Ha Hw. unfold copied_out, classify. rewrite Ha, (acc_in_sigs x WRITE l Hw), (written_of x l Hw).
  cbn [negb orb]. destruct (hasrw x l); [reflexivity|]. destruct (isread x l); [|reflexivity].
  destruct (wfirst x l); reflexivity.
Qed.

Lemma in_clause_iff isarr l c x :
  In x (in_clause isarr l c) <-> classify isarr l x = Some c.
Proof.
  unfold in_clause. rewrite filter_In. split.
  - intros [_ H]. destruct (classify isarr l x) as [c'|]; [|discriminate].
    destruct c, c'; try discriminate; reflexivity.
  - intro H. split.
    + unfold classify in H. destruct (mem x (sigs l)) eqn:E; [apply mem_In; exact E|].
      rewrite orb_true_r in H. discriminate.
    + rewrite H. destruct c; reflexivity.
Qed.

Lemma read_copied_in isarr l x :
  isarr x = true -> In (x, READ) l ->
  forallb (fun y => negb (isread y l)) (in_clause isarr l CopyOut) = true ->
  copied_in (classify isarr l) x = true.
Proof.
  intros Ha Hr Hwo. unfold copied_in.
  destruct (classify isarr l x) as [[| |]|] eqn:E; try reflexivity.
  - rewrite forallb_forall in Hwo. specialize (Hwo x (proj2 (in_clause_iff isarr l CopyOut x) E)).
    rewrite (isread_of x l Hr) in Hwo. discriminate.
  - unfold classify in E. rewrite Ha, (acc_in_sigs x READ l Hr), (isread_of x l Hr) in E. cbn [negb orb] in E.
    destruct (hasrw x l); [discriminate|]. destruct (written x l); [|discriminate].
    destruct (wfirst x l); discriminate.
Qed.

(* ------------------------------------------------------------------------------------------ *)
(** * index enumeration *)

Lemma in_zrange lo hi i : lo <= i <= hi -> In i (zrange lo hi).
Proof.
  intro H. unfold zrange. apply in_map_iff. exists (Z.to_nat (i - lo)). split.
  - rewrite Z2Nat.id by lia. lia.
  - apply in_seq. split; [lia|]. cbn [plus]. apply Z2Nat.inj_lt; lia.
Qed.

Lemma in_all_idx : forall bs idx, inb bs idx = true -> In idx (all_idx bs).
Proof.
  induction bs as [|[lo hi] bs IH]; intros [|i idx] H; cbn [inb] in H; try discriminate.
  - left; reflexivity.
  - apply andb_true_iff in H as [H H3]. apply andb_true_iff in H as [H1 H2].
    apply Z.leb_le in H1, H2. cbn [all_idx]. apply in_flat_map. exists i. split.
    + apply in_zrange. lia.
    + apply in_map, IH, H3.
Qed.

Lemma lmem_In l ls : lmem l ls = true <-> In l ls.
Proof. unfold lmem. apply existsb_loc_eqb. Qed.

(* ------------------------------------------------------------------------------------------ *)
(** * the property *)

(* FULL STATEMENT (false of the faithful model, see the refutations):
     forall isarr r f st st' tr c junk, acc_accept r = true -> exec f r st = Ok st' tr c ->
       exists st'', exec_dev f isarr (cl_of isarr r) junk r st = Ok st'' tr c /\ forall l, val st'' l = val st' l.
   Proved for any single host run satisfying the run-time condition acc_run_ok, for ALL junk. *)
Theorem acc_sound_dyn isarr f r st st' tr c :
  exec f r st = Ok st' tr c ->
  acc_run_ok isarr r st tr = true ->
  forall junk, exists st'',
    exec_dev f isarr (cl_of isarr r) junk r st = Ok st'' tr c /\
    bnd st'' = bnd st' /\ forall l, val st'' l = val st' l.
Proof.
  intros H Hok junk. unfold acc_run_ok in Hok.
  apply andb_true_iff in Hok as [Hok H3]. apply andb_true_iff in Hok as [H1 H2].
  unfold exposed_ok in H1. unfold writes_inb in H2. unfold copyout_fully_written in H3.
  rewrite forallb_forall in H1, H2, H3.
  set (cl := cl_of isarr r) in *.
  destruct (exec_frame f r st st' tr c (dev_init isarr cl junk st) H eq_refl) as [d [R1 [R2 [R3 R4]]]].
  { intros l Hl. specialize (H1 l Hl). cbn [dev_init val].
    destruct (isarr (fst l)); cbn [negb orb andb] in *; [rewrite H1; reflexivity | reflexivity]. }
  exists (copy_back isarr cl st d). unfold exec_dev. rewrite R1.
  split; [reflexivity|]. split; [cbn [copy_back bnd]; symmetry; apply (exec_bnd _ _ _ _ _ _ H)|].
  intro l. cbn [copy_back val].
  destruct (in_dec loc_eq_dec l (writes tr)) as [I|N].
  - (* written on the device: same value as on the host; it must be copied back *)
    destruct (isarr (fst l)) eqn:Ea; [|apply R3, I].
    assert (Co : copied_out cl (fst l) = true).
    { apply written_copied_out; [exact Ea|].
      apply exec_bs in H. exact (proj1 (bs_writes_covered false) _ _ _ _ _ H l I). }
    specialize (H2 l I). rewrite Ea in H2. cbn [negb orb] in H2. rewrite Co, H2. cbn [andb]. apply R3, I.
  - (* not written: host value unchanged *)
    rewrite <- (exec_unchanged _ _ _ _ _ _ l H N) at 1.
    assert (U : val st' l = val st l) by (apply (exec_unchanged _ _ _ _ _ _ l H N)).
    destruct (isarr (fst l)) eqn:Ea.
    + destruct (copied_out cl (fst l) && inb (bnd st (fst l)) (snd l)) eqn:Eo; [|reflexivity].
      apply andb_true_iff in Eo as [Co Ib]. rewrite R4 by exact N. cbn [dev_init val]. rewrite Ea. cbn [andb].
      destruct (copied_in cl (fst l)) eqn:Ci; cbn [negb]; [symmetry; exact U|].
      (* copyout-only array element, in bounds, not written: excluded by copyout_fully_written *)
      exfalso. apply N.
      assert (Ec : cl (fst l) = Some CopyOut).
      { unfold copied_out in Co. unfold copied_in in Ci. destruct (cl (fst l)) as [[| |]|]; try discriminate; reflexivity. }
      apply in_clause_iff in Ec. specialize (H3 (fst l) Ec). rewrite forallb_forall in H3.
      specialize (H3 (snd l) (in_all_idx _ _ Ib)). apply lmem_In in H3. destruct l; exact H3.
    + rewrite R4 by exact N. cbn [dev_init val]. rewrite Ea. cbn [andb]. symmetry; exact U.
Qed.

(* Static part: for a region the transformation accepts in which every copyout array is write-only,
   no exposed read can be of an array that is not copied in; what remains is a condition on the run:
   array writes in bounds and every copyout array fully overwritten. *)
Theorem acc_sound_partial isarr f r st st' tr c :
  acc_accept r = true -> copyout_write_only isarr r = true ->
  exec f r st = Ok st' tr c ->
  writes_inb isarr st tr = true -> copyout_fully_written isarr r st tr = true ->
  forall junk, exists st'',
    exec_dev f isarr (cl_of isarr r) junk r st = Ok st'' tr c /\
    bnd st'' = bnd st' /\ forall l, val st'' l = val st' l.
Proof.
  intros A Hwo H H2 H3. apply (acc_sound_dyn isarr f r st st' tr c H).
  unfold acc_run_ok. rewrite H2, H3, !andb_true_r.
  unfold exposed_ok. apply forallb_forall. intros l Hl.
  destruct (isarr (fst l)) eqn:Ea; [|reflexivity]. cbn [negb orb].
  apply read_copied_in; [exact Ea | | exact Hwo].
  apply (reads_covered f r st st' tr c A H l). apply exposed_incl_reads, Hl.
Qed.

(* ------------------------------------------------------------------------------------------ *)
(** * arbitrary clause lists and region semantics (regions with calls: the semantics of a call is whatever
      statement list the callee amounts to; the clauses are whatever was generated) *)

Lemma cl_from_copyout cin cout cpy x :
  copied_out (cl_from cin cout cpy) x = true -> copied_in (cl_from cin cout cpy) x = false -> In x cout.
Proof.
  unfold copied_out, copied_in, cl_from. destruct (mem x cpy); [discriminate|].
  destruct (mem x cin); [discriminate|]. destruct (mem x cout) eqn:E; [intros _ _; apply mem_In; exact E | discriminate].
Qed.

Theorem acc_sound_gen isarr f r st st' tr c cin cout cpy :
  exec f r st = Ok st' tr c ->
  acc_run_ok_gen isarr cin cout cpy st tr = true ->
  forall junk, exists st'',
    exec_dev f isarr (cl_from cin cout cpy) junk r st = Ok st'' tr c /\
    bnd st'' = bnd st' /\ forall l, val st'' l = val st' l.
Proof.
  intros H Hok junk. unfold acc_run_ok_gen in Hok. set (cl := cl_from cin cout cpy) in *.
  apply andb_true_iff in Hok as [Hok H3]. apply andb_true_iff in Hok as [Hok H4].
  apply andb_true_iff in Hok as [H1 H2].
  unfold exposed_ok in H1. unfold writes_inb in H2. unfold writes_out in H4.
  rewrite forallb_forall in H1, H2, H3, H4.
  destruct (exec_frame f r st st' tr c (dev_init isarr cl junk st) H eq_refl) as [d [R1 [R2 [R3 R4]]]].
  { intros l Hl. specialize (H1 l Hl). cbn [dev_init val].
    destruct (isarr (fst l)); cbn [negb orb andb] in *; [rewrite H1; reflexivity | reflexivity]. }
  exists (copy_back isarr cl st d). unfold exec_dev. rewrite R1.
  split; [reflexivity|]. split; [cbn [copy_back bnd]; symmetry; apply (exec_bnd _ _ _ _ _ _ H)|].
  intro l. cbn [copy_back val].
  destruct (in_dec loc_eq_dec l (writes tr)) as [I|N].
  - destruct (isarr (fst l)) eqn:Ea; [|apply R3, I].
    specialize (H4 l I). rewrite Ea in H4. cbn [negb orb] in H4.
    specialize (H2 l I). rewrite Ea in H2. cbn [negb orb] in H2. rewrite H4, H2. cbn [andb]. apply R3, I.
  - assert (U : val st' l = val st l) by (apply (exec_unchanged _ _ _ _ _ _ l H N)).
    destruct (isarr (fst l)) eqn:Ea.
    + destruct (copied_out cl (fst l) && inb (bnd st (fst l)) (snd l)) eqn:Eo; [|symmetry; exact U].
      apply andb_true_iff in Eo as [Co Ib]. rewrite R4 by exact N. cbn [dev_init val]. rewrite Ea. cbn [andb].
      destruct (copied_in cl (fst l)) eqn:Ci; cbn [negb]; [symmetry; exact U|].
      exfalso. apply N. pose proof (cl_from_copyout cin cout cpy (fst l) Co Ci) as Ic.
      specialize (H3 (fst l) Ic). fold cl in H3. rewrite Ci in H3. cbn [orb] in H3. rewrite forallb_forall in H3.
      specialize (H3 (snd l) (in_all_idx _ _ Ib)). apply lmem_In in H3. destruct l; exact H3.
    + rewrite R4 by exact N. cbn [dev_init val]. rewrite Ea. cbn [andb]. symmetry; exact U.
Qed.

(* READWRITE (a by-reference argument of a non-pure call) => copy: copied in and out *)
Lemma hasrw_of x l : In (x, READWRITE) l -> hasrw x l = true.
Proof. intro H. unfold hasrw. apply existsb_exists. exists READWRITE. split; [apply in_of_var; exact H | reflexivity]. Qed.

Theorem readwrite_is_copy isarr l x :
  isarr x = true -> In (x, READWRITE) l -> classify isarr l x = Some Copy.
Proof.
  intros Ha Hr. unfold classify. rewrite Ha, (acc_in_sigs x READWRITE l Hr), (hasrw_of x l Hr). reflexivity.
Qed.

(* a(1) = 0 ; call inc(a)  with inc incrementing a(2): copy(a) is generated and the run is inside acc_run_ok_gen;
   with copyout(a) instead (what the seeded change produces) it is not, and the host values differ *)
Definition xs_call : list xstmt := [XCore (SAssign 0%nat [ELit 1] (ELit 0)); XCall [EVar 0%nat]].
Definition sem_call : list stmt :=
  [SAssign 0%nat [ELit 1] (ELit 0); SAssign 0%nat [ELit 2] (EBin Add (EIdx 0%nat [ELit 2]) (ELit 1))].
Example call_nonvacuous :
  let isarr := fun x => mem x [0%nat] in
  let st := store_of [((0%nat, [2]), 7)] [(0%nat, [(1, 3)])] in
  in_clause isarr (xaccs false xs_call) Copy = [0%nat] /\ in_clause isarr (xaccs false xs_call) CopyOut = [] /\
  exists st' tr, exec 20 sem_call st = Ok st' tr CNormal /\
    acc_run_ok_gen isarr [] [] [0%nat] st tr = true /\ acc_run_ok_gen isarr [] [0%nat] [] st tr = false /\
    exists st'' tr', exec_dev 20 isarr (cl_from [] [0%nat] []) (fun _ => 99) sem_call st = Ok st'' tr' CNormal /\
                     val st'' (0%nat, [2]) <> val st' (0%nat, [2]).
Proof.
  cbv zeta. split; [vm_compute; reflexivity|]. split; [vm_compute; reflexivity|].
  eexists. eexists. split; [vm_compute; reflexivity|]. split; [vm_compute; reflexivity|].
  split; [vm_compute; reflexivity|].
  eexists. eexists. split; [vm_compute; reflexivity|]. vm_compute. discriminate.
Qed.

(* ------------------------------------------------------------------------------------------ *)
(** * non-vacuity and refutations *)

Definition va : name := 0%nat.  Definition vb : name := 1%nat.  Definition vc : name := 2%nat.
Definition vs : name := 3%nat.  Definition vt : name := 4%nat.  Definition vn : name := 5%nat.
Definition vi : name := 6%nat.
Definition arrs (x : name) : bool := mem x [va; vb; vc].
Definition st_of (vals : list (loc * Z)) : store :=
  store_of vals [(va, [(1, 3)]); (vb, [(1, 3)]); (vc, [(1, 3)])].

(* do i = 1, 3 : a(i) = b(i) + c(i) ; c(i) = c(i) * 2     => copyin(b) copyout(a) copy(c) *)
Definition r_ok : list stmt :=
  [SDo vi (ELit 1) (ELit 3) (ELit 1)
     [SAssign va [EVar vi] (EBin Add (EIdx vb [EVar vi]) (EIdx vc [EVar vi]));
      SAssign vc [EVar vi] (EBin Mul (EIdx vc [EVar vi]) (ELit 2))]].

Example acc_nonvacuous :
  acc_accept r_ok = true /\ copyout_write_only arrs r_ok = true /\
  in_clause arrs (accs false r_ok) CopyIn = [vb] /\ in_clause arrs (accs false r_ok) CopyOut = [va] /\
  in_clause arrs (accs false r_ok) Copy = [vc] /\
  let st := st_of [((vb, [1]), 5); ((vc, [1]), 7); ((va, [2]), 9)] in
  exists st' tr, exec 20 r_ok st = Ok st' tr CNormal /\
    writes_inb arrs st tr = true /\ copyout_fully_written arrs r_ok st tr = true /\ acc_run_ok arrs r_ok st tr = true /\
    val st' (va, [1]) = 12 /\ val st' (vc, [1]) = 14.
Proof.
  split; [vm_compute; reflexivity|]. split; [vm_compute; reflexivity|]. split; [vm_compute; reflexivity|].
  split; [vm_compute; reflexivity|]. split; [vm_compute; reflexivity|].
  eexists. eexists. split; [vm_compute; reflexivity|].
  split; [vm_compute; reflexivity|]. split; [vm_compute; reflexivity|]. split; [vm_compute; reflexivity|].
  split; vm_compute; reflexivity.
Qed.

(* what a refutation is: an accepted region, a host store and a junk such that the two-memory run
   completes but some host location ends with a different value than after the host-only run *)
Definition acc_refutes (r : list stmt) (st : store) (junk : loc -> Z) (l : loc) : Prop :=
  acc_accept r = true /\
  exists st' tr st'' tr', exec 20 r st = Ok st' tr CNormal /\
    exec_dev 20 arrs (cl_of arrs r) junk r st = Ok st'' tr' CNormal /\ val st'' l <> val st' l.

(* a(1) = 0  =>  copyout(a): a(2), a(3) are overwritten with undefined device values *)
Definition r_partial : list stmt := [SAssign va [ELit 1] (ELit 0)].
Theorem acc_refuted_partial_write :
  in_clause arrs (accs false r_partial) CopyOut = [va] /\ in_clause arrs (accs false r_partial) CopyIn = [] /\
  in_clause arrs (accs false r_partial) Copy = [] /\
  acc_refutes r_partial (st_of [((va, [2]), 7)]) (fun _ => 99) (va, [2]).
Proof.
  split; [vm_compute; reflexivity|]. split; [vm_compute; reflexivity|]. split; [vm_compute; reflexivity|].
  split; [vm_compute; reflexivity|].
  eexists. eexists. eexists. eexists. split; [vm_compute; reflexivity|]. split; [vm_compute; reflexivity|].
  vm_compute. discriminate.
Qed.

(* a(1) = 0 ; s = a(2)  =>  copyout(a): the device reads an undefined a(2) *)
Definition r_read : list stmt := [SAssign va [ELit 1] (ELit 0); SAssign vs [] (EIdx va [ELit 2])].
Theorem acc_refuted_read_unwritten :
  in_clause arrs (accs false r_read) CopyOut = [va] /\ in_clause arrs (accs false r_read) CopyIn = [] /\
  acc_refutes r_read (st_of [((va, [2]), 7)]) (fun _ => 99) (vs, []).
Proof.
  split; [vm_compute; reflexivity|]. split; [vm_compute; reflexivity|].
  split; [vm_compute; reflexivity|].
  eexists. eexists. eexists. eexists. split; [vm_compute; reflexivity|]. split; [vm_compute; reflexivity|].
  vm_compute. discriminate.
Qed.

(* if (t > 0) c(1) = 1 ; n = c(1)  =>  copyout(c): when t <= 0 the device reads an undefined c(1) *)
Definition r_cond : list stmt :=
  [SIf (EBin Gt (EVar vt) (ELit 0)) [SAssign vc [ELit 1] (ELit 1)] []; SAssign vn [] (EIdx vc [ELit 1])].
Theorem acc_refuted_conditional_write :
  in_clause arrs (accs false r_cond) CopyOut = [vc] /\
  acc_refutes r_cond (st_of [((vc, [1]), 7)]) (fun _ => 99) (vn, []).
Proof.
  split; [vm_compute; reflexivity|].
  split; [vm_compute; reflexivity|].
  eexists. eexists. eexists. eexists. split; [vm_compute; reflexivity|]. split; [vm_compute; reflexivity|].
  vm_compute. discriminate.
Qed.
