(* C13 — two-memory soundness for regions that contain DO WHILE loops directly (semantics C12/While.v). *)
From Coq Require Import List ZArith Bool.
Import ListNotations.
From PV Require Import Fort.Syntax Fort.Sem Fort.Facts C11.Access C12.InOut C12.Proofs C12.While C13.AccData C13.Proofs.
Open Scope Z_scope.

Definition wexec_dev (f : nat) (isarr : name -> bool) (cl : name -> option clause) (junk : loc -> Z)
           (ws : list wstmt) (st : store) : outcome :=
  match wexec f ws (dev_init isarr cl junk st) with
  | Ok d tr c => Ok (copy_back isarr cl st d) tr c
  | other => other
  end.

(* for ANY clause lists, ANY junk: a host run satisfying acc_run_ok_gen is reproduced by the two-memory run, with the
   same trace (so every WHILE loop iterates equally often on the device) and the same host values *)
Theorem acc_sound_gen_while isarr f ws st st' tr c cin cout cpy :
  wexec f ws st = Ok st' tr c ->
  acc_run_ok_gen isarr cin cout cpy st tr = true ->
  forall junk, exists st'',
    wexec_dev f isarr (cl_from cin cout cpy) junk ws st = Ok st'' tr c /\
    bnd st'' = bnd st' /\ forall l, val st'' l = val st' l.
Proof.
  intros H Hok junk. unfold acc_run_ok_gen in Hok. set (cl := cl_from cin cout cpy) in *.
  apply andb_true_iff in Hok as [Hok H3]. apply andb_true_iff in Hok as [Hok H4].
  apply andb_true_iff in Hok as [H1 H2].
  unfold exposed_ok in H1. unfold writes_inb in H2. unfold writes_out in H4.
  rewrite forallb_forall in H1, H2, H3, H4.
  destruct (wexec_frame f ws st st' tr c (dev_init isarr cl junk st) H eq_refl) as [d [R1 [R2 [R3 R4]]]].
  { intros l Hl. specialize (H1 l Hl). cbn [dev_init val].
    destruct (isarr (fst l)); cbn [negb orb andb] in *; [rewrite H1; reflexivity | reflexivity]. }
  exists (copy_back isarr cl st d). unfold wexec_dev. rewrite R1.
  split; [reflexivity|]. split; [cbn [copy_back bnd]; symmetry; apply (wexec_bnd _ _ _ _ _ _ H)|].
  intro l. cbn [copy_back val].
  destruct (in_dec loc_eq_dec l (writes tr)) as [I|N].
  - destruct (isarr (fst l)) eqn:Ea; [|apply R3, I].
    specialize (H4 l I). rewrite Ea in H4. cbn [negb orb] in H4.
    specialize (H2 l I). rewrite Ea in H2. cbn [negb orb] in H2. rewrite H4, H2. cbn [andb]. apply R3, I.
  - assert (U : val st' l = val st l) by (apply (wexec_unchanged _ _ _ _ _ _ l H N)).
    destruct (isarr (fst l)) eqn:Ea.
    + destruct (copied_out cl (fst l) && inb (bnd st (fst l)) (snd l)) eqn:Eo; [|symmetry; exact U].
      apply andb_true_iff in Eo as [Co Ib]. rewrite R4 by exact N. cbn [dev_init val]. rewrite Ea. cbn [andb].
      destruct (copied_in cl (fst l)) eqn:Ci; cbn [negb]; [symmetry; exact U|].
      exfalso. apply N. pose proof (cl_from_copyout cin cout cpy (fst l) Co Ci) as Ic.
      specialize (H3 (fst l) Ic). fold cl in H3. rewrite Ci in H3. cbn [orb] in H3. rewrite forallb_forall in H3.
      specialize (H3 (snd l) (in_all_idx _ _ Ib)). apply lmem_In in H3. destruct l; exact H3.
    + rewrite R4 by exact N. cbn [dev_init val]. rewrite Ea. cbn [andb]. symmetry; exact U.
Qed.

(* do while (a(1) > 1 .and. t < 3): a(1) = a(1) - 1; t = t + 1   with copy(a): inside the condition, all junk *)
Example while_acc_nonvacuous :
  let c := EBin And (EBin Gt (EIdx 0%nat [ELit 1]) (ELit 1)) (EBin Lt (EVar 1%nat) (ELit 3)) in
  let body := [SAssign 0%nat [ELit 1] (EBin Sub (EIdx 0%nat [ELit 1]) (ELit 1)); SAssign 1%nat [] (EBin Add (EVar 1%nat) (ELit 1))] in
  let isarr := fun x => mem x [0%nat] in
  let st := store_of [((0%nat, [1]), 3)] [(0%nat, [(1, 2)])] in
  exists st' tr, wexec 10 [WWhile c body] st = Ok st' tr CNormal /\
    acc_run_ok_gen isarr [] [] [0%nat] st tr = true /\ acc_run_ok_gen isarr [] [0%nat] [] st tr = false.
Proof.
  cbv zeta. eexists. eexists. split; [vm_compute; reflexivity|]. split; vm_compute; reflexivity.
Qed.
