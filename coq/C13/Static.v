(* C13 — a STATIC sufficient condition with no run-time premise.

   Class (all at the top level of the region, none under an IF / WHILE):
     (L) assignments whose subscripts are all literals, in bounds of the declared extent [b] (or scalar targets);
     (F) full-extent loops   do i = lb, ub : a(i) = e   with literal bounds equal to the declared bounds of the 1-D array a.
   static_safe: every statement is (L) or (F), every copyout array is write-only in the region and has an (F) loop.
   Theorem acc_sound_static: for such a region, every store whose array bounds are the declared ones, every fuel and
   EVERY junk: the two-memory run leaves the host exactly as the host-only run. *)
From Coq Require Import List ZArith Bool Lia.
Import ListNotations.
From PV Require Import Fort.Syntax Fort.Sem Fort.Facts C11.Access C12.InOut C12.BigStep C12.Proofs C13.AccData C13.Proofs.
Open Scope Z_scope.

Fixpoint lits (ix : list expr) : option (list Z) :=
  match ix with
  | [] => Some []
  | ELit z :: r => match lits r with Some vs => Some (z :: vs) | None => None end
  | _ => None
  end.

Definition full_loop (isarr : name -> bool) (b : name -> list (Z * Z)) (a : name) (s : stmt) : bool :=
  match s with
  | SDo i (ELit l) (ELit h) (ELit 1) [SAssign a' [EVar i'] _] =>
      Nat.eqb a a' && Nat.eqb i i' && negb (isarr i) && isarr a &&
      match b a with [(l', h')] => (l' =? l) && (h' =? h) | _ => false end
  | _ => false
  end.

Definition ok_stmt (isarr : name -> bool) (b : name -> list (Z * Z)) (s : stmt) : bool :=
  match s with
  | SAssign x ix _ => match lits ix with Some vs => negb (isarr x) || inb (b x) vs | None => false end
  | SDo _ _ _ _ [SAssign a _ _] => full_loop isarr b a s
  | _ => false
  end.

Definition static_safe (isarr : name -> bool) (b : name -> list (Z * Z)) (r : list stmt) : bool :=
  forallb (ok_stmt isarr b) r && copyout_write_only isarr r &&
  forallb (fun a => existsb (full_loop isarr b a) r) (in_clause isarr (accs false r) CopyOut).

(* ---- facts about the two statement forms *)
Lemma lits_eval s ix vs : lits ix = Some vs -> opt_all (map (eval s) ix) = Some vs.
Proof.
  revert vs. induction ix as [|e ix IH]; intros vs H; cbn [lits] in H.
  - inversion H. reflexivity.
  - destruct e; try discriminate. destruct (lits ix) as [vs'|]; [|discriminate]. inversion H; subst.
    cbn [map eval opt_all]. rewrite (IH vs' eq_refl). reflexivity.
Qed.

Lemma bst_assign_inv x ix e s s1 tr c :
  bst (SAssign x ix e) s s1 tr c ->
  c = CNormal /\ exists vs, opt_all (map (eval s) ix) = Some vs /\ writes tr = [(x, vs)].
Proof.
  intro H. inversion H; subst. split; [reflexivity|]. eexists. split; [eassumption|]. apply writes_rds_wr.
Qed.

Lemma body_run a x e s0 s2 tr c :
  bs [SAssign a [EVar x] e] s0 s2 tr c -> c = CNormal /\ writes tr = [(a, [val s0 (x, [])])].
Proof.
  intro H. inversion H; subst.
  - match goal with Hs : bst _ _ _ _ CNormal |- _ => apply bst_assign_inv in Hs as [_ [vs [E W]]] end.
    match goal with Hr : bs [] _ _ _ _ |- _ => inversion Hr; subst end.
    cbn [map eval opt_all] in E. inversion E; subst. split; [reflexivity|].
    rewrite writes_app, W. reflexivity.
  - match goal with Hs : bst _ _ _ _ _ |- _ => apply bst_assign_inv in Hs as [Ec _] end. contradiction.
Qed.

Lemma loop_writes a x e l : forall n k s s' tr c,
  bloop [SAssign a [EVar x] e] x l 1 n k s s' tr c ->
  c = CNormal /\
  (forall l0, In l0 (writes tr) -> l0 = (x, []) \/ exists j, k <= j < k + Z.of_nat n /\ l0 = (a, [l + j])) /\
  (forall j, k <= j < k + Z.of_nat n -> In (a, [l + j]) (writes tr)).
Proof.
  induction n as [|n IH]; intros k s s' tr c H; inversion H; subst.
  - split; [reflexivity|]. split.
    + intros l0 [<-|[]]. left; reflexivity.
    + intros j Hj. lia.
  - match goal with Hb : bs _ (upd _ _ _) _ _ _ |- _ => apply body_run in Hb as [Ec W] end.
    match goal with Hl : bloop _ _ _ _ n _ _ _ _ _ |- _ => apply IH in Hl as [Ec3 [A3 B3]] end.
    rewrite val_upd_same in W. replace (l + k * 1) with (l + k) in W by lia.
    split; [exact Ec3|]. rewrite writes_app. cbn [writes]. rewrite W. split.
    + intros l0 Hl0. cbn [In app] in Hl0. destruct Hl0 as [<-|[<-|Hl0]].
      * left; reflexivity.
      * right. exists k. split; [lia | reflexivity].
      * destruct (A3 l0 Hl0) as [->|[j [Hj ->]]]; [left; reflexivity|].
        right. exists j. split; [lia | reflexivity].
    + intros j Hj. destruct (Z.eq_dec j k) as [->|Ne].
      * right. left. reflexivity.
      * right. right. apply B3. lia.
  - match goal with Hb : bs _ (upd _ _ _) _ _ CExit |- _ => apply body_run in Hb as [Ec _]; discriminate end.
  - match goal with Hb : bs _ (upd _ _ _) _ _ CReturn |- _ => apply body_run in Hb as [Ec _]; discriminate end.
Qed.

Lemma trip_unit l h : Z.of_nat (trip_count l h 1) = Z.max 0 (h - l + 1).
Proof. unfold trip_count. rewrite Z.quot_1_r. rewrite Z2Nat.id by lia. reflexivity. Qed.

(* what one statement of the class does: normal completion, array writes in bounds, and an (F) loop writes all of a *)
Lemma ok_stmt_run isarr b s st s1 tr c :
  ok_stmt isarr b s = true -> bst s st s1 tr c ->
  c = CNormal /\
  (forall l0, In l0 (writes tr) -> isarr (fst l0) = true -> inb (b (fst l0)) (snd l0) = true) /\
  (forall a, full_loop isarr b a s = true -> forall idx, inb (b a) idx = true -> In (a, idx) (writes tr)).
Proof.
  intros Hok H. destruct s as [x ix e|c0 th el|i lo hi stp body| | | |es|r0 body|d body]; try discriminate.
  - cbn [ok_stmt] in Hok. destruct (lits ix) as [vs|] eqn:El; [|discriminate].
    apply bst_assign_inv in H as [Ec [vs' [E W]]]. rewrite (lits_eval st ix vs El) in E. inversion E; subst vs'.
    split; [exact Ec|]. split.
    + intros l0 Hl0 Ha. rewrite W in Hl0. destruct Hl0 as [<-|[]]. cbn [fst snd] in *.
      rewrite Ha in Hok. exact Hok.
    + intros a F. discriminate.
  - (* loop *)
    cbn [ok_stmt] in Hok. destruct body as [|[a ix e| | | | | | | |] [|? ?]]; try discriminate.
    assert (F := Hok). unfold full_loop in Hok.
    destruct lo as [l| | | | |]; try discriminate. destruct hi as [h| | | | |]; try discriminate.
    destruct stp as [t| | | | |]; try discriminate. destruct t as [|[| |]|]; try discriminate.
    destruct ix as [|[|i'| | | |] [|? ?]]; try discriminate.
    apply andb_true_iff in Hok as [Hok Hb]. apply andb_true_iff in Hok as [Hok Ha].
    apply andb_true_iff in Hok as [Hok Hi]. apply andb_true_iff in Hok as [_ Eii].
    apply Nat.eqb_eq in Eii. subst i'. apply negb_true_iff in Hi.
    destruct (b a) as [|[l' h'] [|? ?]] eqn:Eb; try discriminate.
    apply andb_true_iff in Hb as [E1 E2]. apply Z.eqb_eq in E1, E2. subst l' h'.
    inversion H; subst.
    match goal with He : eval _ (ELit l) = Some _ |- _ => cbn [eval] in He; inversion He; subst end.
    match goal with He : eval _ (ELit h) = Some _ |- _ => cbn [eval] in He; inversion He; subst end.
    match goal with He : eval _ (ELit 1) = Some _ |- _ => cbn [eval] in He; inversion He; subst end.
    match goal with Hl : bloop _ _ _ _ _ _ _ _ _ _ |- _ => apply loop_writes in Hl as [Ec [A B]] end.
    rewrite trip_unit in A, B. split; [exact Ec|]. rewrite writes_rds_app. split.
    + intros w0 Hw0 Harr. destruct (A w0 Hw0) as [->|[j [Hj ->]]].
      * cbn [fst] in Harr. congruence.
      * cbn [fst snd]. rewrite Eb. cbn [inb]. apply andb_true_iff. split; [|reflexivity].
        apply andb_true_iff. split; apply Z.leb_le; lia.
    + intros a2 F2 idx Hin. unfold full_loop in F2.
      apply andb_true_iff in F2 as [F2 _]. apply andb_true_iff in F2 as [F2 _].
      apply andb_true_iff in F2 as [F2 _]. apply andb_true_iff in F2 as [F2 _].
      apply Nat.eqb_eq in F2. subst a2. rewrite Eb in Hin. destruct idx as [|i0 [|? ?]]; cbn [inb] in Hin; try discriminate.
      * apply andb_true_iff in Hin as [Hin _]. apply andb_true_iff in Hin as [H1 H2].
        apply Z.leb_le in H1, H2.
        match type of B with forall j, _ -> In (_, [?lo + j]) _ => replace i0 with (lo + (i0 - lo)) by lia end.
        apply B. lia.
      * apply andb_true_iff in Hin as [_ Hin]. discriminate.
Qed.

Lemma ok_block_run isarr b : forall r st s1 tr c,
  forallb (ok_stmt isarr b) r = true -> bs r st s1 tr c ->
  c = CNormal /\
  (forall l0, In l0 (writes tr) -> isarr (fst l0) = true -> inb (b (fst l0)) (snd l0) = true) /\
  (forall a, existsb (full_loop isarr b a) r = true -> forall idx, inb (b a) idx = true -> In (a, idx) (writes tr)).
Proof.
  induction r as [|s r IH]; intros st s1 tr c Hok H.
  - inversion H; subst. split; [reflexivity|]. split; [intros l0 []|intros a F; discriminate].
  - cbn [forallb] in Hok. apply andb_true_iff in Hok as [Hs Hr]. inversion H; subst.
    + match goal with Hb : bst s _ _ _ CNormal |- _ => destruct (ok_stmt_run isarr b s _ _ _ _ Hs Hb) as [_ [A1 B1]] end.
      match goal with Hb : bs r _ _ _ _ |- _ => destruct (IH _ _ _ _ Hr Hb) as [Ec [A2 B2]] end.
      split; [exact Ec|]. rewrite writes_app. split.
      * intros l0 Hl0. apply in_app_or in Hl0 as [Hl0|Hl0]; [apply A1 | apply A2]; exact Hl0.
      * intros a F idx Hin. cbn [existsb] in F. apply in_or_app. apply orb_true_iff in F as [F|F];
          [left; apply (B1 a F idx Hin) | right; apply (B2 a F idx Hin)].
    + match goal with Hb : bst s _ _ _ _ |- _ => destruct (ok_stmt_run isarr b s _ _ _ _ Hs Hb) as [Ec _] end. contradiction.
Qed.

Lemma ok_stmt_accept isarr b s : ok_stmt isarr b s = true -> s_accept s = true.
Proof.
  destruct s as [x ix e|c0 th el|i lo hi stp body| | | |es|r0 body|d body]; try discriminate; [reflexivity|].
  cbn [ok_stmt]. destruct body as [|[a ix e| | | | | | | |] [|? ?]]; try discriminate. reflexivity.
Qed.

(* FULL property for the static class: no run-time premise *)
Theorem acc_sound_static isarr b f r st st' tr c :
  static_safe isarr b r = true -> (forall a, bnd st a = b a) ->
  exec f r st = Ok st' tr c ->
  forall junk, exists st'',
    exec_dev f isarr (cl_of isarr r) junk r st = Ok st'' tr c /\
    bnd st'' = bnd st' /\ forall l, val st'' l = val st' l.
Proof.
  intros Hs Hb H. unfold static_safe in Hs. apply andb_true_iff in Hs as [Hs Hfull]. apply andb_true_iff in Hs as [Hok Hwo].
  destruct (ok_block_run isarr b r st st' tr c Hok (exec_bs _ _ _ _ _ _ H)) as [_ [A B]].
  apply (acc_sound_partial isarr f r st st' tr c).
  - apply forallb_forall. intros s Hin. rewrite forallb_forall in Hok. apply (ok_stmt_accept isarr b s (Hok s Hin)).
  - exact Hwo.
  - exact H.
  - unfold writes_inb. apply forallb_forall. intros l0 Hl0. destruct (isarr (fst l0)) eqn:Ea; [|reflexivity].
    cbn [negb orb]. rewrite Hb. apply (A l0 Hl0 Ea).
  - unfold copyout_fully_written. apply forallb_forall. intros a Ha. rewrite forallb_forall in Hfull.
    apply forallb_forall. intros idx Hidx. apply lmem_In. apply (B a (Hfull a Ha)). rewrite <- Hb.
    clear - Hidx. revert idx Hidx. generalize (bnd st a). induction l as [|[lo hi] l IH]; intros idx Hidx.
    + destruct Hidx as [<-|[]]. reflexivity.
    + cbn [all_idx] in Hidx. apply in_flat_map in Hidx as [i [Hi Hm]]. apply in_map_iff in Hm as [idx' [<- Hm]].
      cbn [inb]. rewrite (IH idx' Hm), andb_true_r. unfold zrange in Hi. apply in_map_iff in Hi as [k [<- Hk]].
      apply in_seq in Hk. apply andb_true_iff. split; apply Z.leb_le; lia.
Qed.

(* ---- non-vacuity and the partial-write witness *)
Definition b3 : name -> list (Z * Z) := bnd (st_of []).       (* a, b, c : (1:3) *)

(* do i = 1, 3 : a(i) = b(i) + 1 ;  s = 5     => copyin(b) copyout(a), a fully written *)
Definition r_static : list stmt :=
  [SDo vi (ELit 1) (ELit 3) (ELit 1) [SAssign va [EVar vi] (EBin Add (EIdx vb [EVar vi]) (ELit 1))];
   SAssign vs [] (ELit 5)].

Example static_nonvacuous :
  static_safe arrs b3 r_static = true /\
  in_clause arrs (accs false r_static) CopyOut = [va] /\ in_clause arrs (accs false r_static) CopyIn = [vb] /\
  (forall vals a, bnd (st_of vals) a = b3 a) /\
  exists st' tr, exec 20 r_static (st_of [((vb, [2]), 4); ((va, [3]), 9)]) = Ok st' tr CNormal /\ val st' (va, [2]) = 5.
Proof.
  split; [vm_compute; reflexivity|]. split; [vm_compute; reflexivity|]. split; [vm_compute; reflexivity|].
  split; [intros vals a; reflexivity|]. eexists. eexists. split; vm_compute; reflexivity.
Qed.

(* the refuted partial write  a(1) = 0  is outside the static class *)
Example static_excludes_partial_write :
  static_safe arrs b3 r_partial = false /\ static_safe arrs b3 r_read = false /\ static_safe arrs b3 r_cond = false.
Proof. split; [|split]; vm_compute; reflexivity. Qed.
