(* C02 — concrete witnesses (vm_compute): the full statement is false of the faithful model of
   the unchanged writer; literals; non-vacuity of the partial theorem. *)
From Coq Require Import List NArith Bool String Ascii Arith Lia.
Import ListNotations.
From PV Require Import C02.Syntax C02.Gen C02.Model C02.Facts C02.ParseProof C02.Shape.
Open Scope string_scope.

Definition refutes (R : rules) (e : expr) : Prop := wf e = true /\ parse (write R e) <> Some e.

Ltac refute := split; [vm_compute; reflexivity | vm_compute; discriminate].

(* (a**b)**c is written  a ** b ** c, which the grammar reads as a**(b**c) *)
Lemma refuted_pow : refutes rules_orig w_pow /\
  parse (write rules_orig w_pow) = Some (Bin Pow (v "a") (Bin Pow (v "b") (v "c"))).
Proof. split; [refute | vm_compute; reflexivity]. Qed.
(* (-a)*b is written  -a * b, read as -(a*b) *)
Lemma refuted_neg_mul : refutes rules_orig w_neg_mul /\
  parse (write rules_orig w_neg_mul) = Some (Un Neg (Bin Mul (v "a") (v "b"))).
Proof. split; [refute | vm_compute; reflexivity]. Qed.
(* ((.NOT.a)==b).EQV.c is written  .NOT.a == b .EQV. c, read as (.NOT.(a==b)).EQV.c *)
Lemma refuted_not_rel : refutes rules_orig w_not_rel /\
  parse (write rules_orig w_not_rel) = Some (Bin Eqv (Un Not (Bin Eq (v "a") (v "b"))) (v "c")).
Proof. split; [refute | vm_compute; reflexivity]. Qed.
(* (a<b)==c is written  a < b == c, which is not a Fortran expression *)
Lemma refuted_rel_chain : refutes rules_orig w_rel_chain /\ parse (write rules_orig w_rel_chain) = None.
Proof. split; [refute | vm_compute; reflexivity]. Qed.
(* a + ((-b)*c)*d is written  a + -b * c * d, which is not a Fortran expression *)
Lemma refuted_sign_deep : refutes rules_orig w_sign_deep /\ parse (write rules_orig w_sign_deep) = None.
Proof. split; [refute | vm_compute; reflexivity]. Qed.
(* a - (+b)*c is written  a - +b * c, which is not a Fortran expression *)
Lemma refuted_plus_mul : refutes rules_orig w_plus_mul /\ parse (write rules_orig w_plus_mul) = None.
Proof. split; [refute | vm_compute; reflexivity]. Qed.

(* props/C02/fix.patch: the sign shapes that were not Fortran are now read back; (-a)*b is still
   written -a * b (PSyclone's own test requires it) *)
Lemma patch_witnesses :
  forallb (fun e => match parse (write rules_patch e) with Some t => expr_eqb t e | None => false end)
          [w_pow; w_rel_chain; w_sign_deep; w_plus_mul] = true /\
  refutes rules_patch w_neg_mul /\ refutes rules_patch w_not_rel.
Proof. split; [vm_compute; reflexivity | split; refute]. Qed.

(* the same trees under the complete repair *)
Lemma fixed_witnesses :
  forallb (fun e => match parse (write rules_fixed e) with Some t => expr_eqb t e | None => false end)
          [w_pow; w_neg_mul; w_not_rel; w_rel_chain; w_sign_deep; w_plus_mul] = true.
Proof. vm_compute. reflexivity. Qed.

(* literals the reader does not give back (both rule sets: the repair does not touch literal_node) *)
Definition lit_refutes (l : lit) : Prop :=
  read_lit (write_lit l) <> l \/ toks (lit_doc l) <> [TLit (write_lit l)].
Lemma refuted_lit_double : lit_refutes (mkLit KReal "1.0" PDouble) /\
  read_lit (write_lit (mkLit KReal "1.0" PDouble)) = mkLit KReal "1.0" PUndef.
Proof. split; [left; vm_compute; discriminate | vm_compute; reflexivity]. Qed.
Lemma refuted_lit_real_int : read_lit (write_lit (mkLit KReal "3" PUndef)) = mkLit KInt "3" PUndef.
Proof. vm_compute. reflexivity. Qed.
Lemma refuted_lit_exp_default :
  read_lit (write_lit (mkLit KReal "1.5e3" PUndef)) = mkLit KReal "1.5e3" PSingle.
Proof. vm_compute. reflexivity. Qed.
Lemma refuted_lit_int_double : read_lit (write_lit (mkLit KInt "3" PDouble)) = mkLit KInt "3" PUndef.
Proof. vm_compute. reflexivity. Qed.
Lemma refuted_lit_signed : forall R,
  parse (write R w_lit_signed) = None /\
  parse (write R (Lit (mkLit KInt "-1" PUndef))) = Some (Un Neg (Lit (mkLit KInt "1" PUndef))).
Proof. intros [[] [] [] [] []]; split; vm_compute; reflexivity. Qed.
Lemma refuted_step_kind : forall R,
  parse (write R w_step_kind) = Some (Acc "v" [Rng (v "i") (v "n") one_lit] None).
Proof. intros [[] [] [] [] []]; vm_compute; reflexivity. Qed.

(* the current writer: either it makes the repaired decisions, or one of the witnesses refutes it *)
Lemma impl_status :
  (complete impl_rules = true /\ forall e, wf e = true -> parse (write impl_rules e) = Some e) \/
  exists e, In e [w_pow; w_neg_mul; w_not_rel; w_rel_chain] /\ refutes impl_rules e.
Proof.
  first
    [ left; split; [reflexivity | intros e; apply parse_write_complete; reflexivity]
    | right; exists w_pow; split; [cbn; tauto | refute]
    | right; exists w_neg_mul; split; [cbn; tauto | refute]
    | right; exists w_not_rel; split; [cbn; tauto | refute]
    | right; exists w_rel_chain; split; [cbn; tauto | refute] ].
Qed.

(* non-vacuity: a tree with every operator level, both unary positions that are safe, right-nested
   and bracketed operands, an intrinsic call with a named argument, a structure access with a
   range, and literals of every kind satisfies the hypotheses of the partial theorem for the
   unchanged rules, and is read back *)
Lemma nonvacuous :
  wf w_good = true /\ shape_ok rules_orig w_good = true /\ safe rules_orig w_good = true /\
  parse (write rules_orig w_good) = Some w_good /\
  write_text rules_orig w_good =
  "-a + b * c ** (d ** (-x)) < MAX(a, b - (c - d), dim=1) .OR. (.NOT.(f%vals(i:n + 1_8:2,1.5d3) .AND. (.true. .EQV. ck_""it's"" /= y)))".
Proof. repeat split; vm_compute; reflexivity. Qed.
