(* C02 — the parser reads back what the writer wrote, for every tree that satisfies the local
   side conditions `ok` (no size bound; induction on the tree, explicit fuel). *)
From Coq Require Import List NArith Bool String Ascii Arith Lia.
Import ListNotations.
From PV Require Import C02.Syntax C02.Gen C02.Model C02.Facts.

(* ------------------------------------------------------------------ induction principle *)
Definition oall (P : expr -> Prop) (o : option expr) : Prop :=
  match o with Some s => P s | None => True end.
Section ExprInd.
  Variable P : expr -> Prop.
  Hypothesis HLit : forall l, P (Lit l).
  Hypothesis HAcc : forall n ix sub, Forall P ix -> oall P sub -> P (Acc n ix sub).
  Hypothesis HCall : forall f args, Forall P args -> P (Call f args).
  Hypothesis HNamed : forall n e, P e -> P (Named n e).
  Hypothesis HRng : forall lo hi st, P lo -> P hi -> P st -> P (Rng lo hi st).
  Hypothesis HUn : forall u e, P e -> P (Un u e).
  Hypothesis HBin : forall o l r, P l -> P r -> P (Bin o l r).
  Fixpoint expr_ind2 (e : expr) : P e :=
    match e with
    | Lit l => HLit l
    | Acc n ix sub =>
        HAcc n ix sub
             ((fix go (l : list expr) : Forall P l :=
                 match l with [] => Forall_nil _ | x :: r => Forall_cons _ (expr_ind2 x) (go r) end) ix)
             (match sub as o return oall P o with Some s => expr_ind2 s | None => I end)
    | Call f args =>
        HCall f args
              ((fix go (l : list expr) : Forall P l :=
                  match l with [] => Forall_nil _ | x :: r => Forall_cons _ (expr_ind2 x) (go r) end) args)
    | Named n e => HNamed n e (expr_ind2 e)
    | Rng lo hi st => HRng lo hi st (expr_ind2 lo) (expr_ind2 hi) (expr_ind2 st)
    | Un u e => HUn u e (expr_ind2 e)
    | Bin o l r => HBin o l r (expr_ind2 l) (expr_ind2 r)
    end.
End ExprInd.

(* ------------------------------------------------------------------ fuel *)
Fixpoint need (e : expr) : nat :=
  match e with
  | Lit _ => 4
  | Acc _ ix sub =>
      6 + list_sum (map (fun x => 4 + need x) ix) + match sub with Some s => 2 + need s | None => 0 end
  | Call _ args => 6 + list_sum (map (fun x => 4 + need x) args)
  | Named _ x => 4 + need x
  | Rng lo hi st => 6 + need lo + need hi + need st
  | Un _ x => 8 + need x
  | Bin _ l r => 10 + need l + need r
  end.
Definition needs (xs : list expr) : nat := list_sum (map (fun x => 4 + need x) xs).

(* ------------------------------------------------------------------ what may follow *)
Definition rest_ok (rest : list token) : Prop :=
  match rest with
  | [] => True
  | (TOp _ | TRP | TComma | TColon) :: _ => True
  | _ => False
  end.
Definition follow (th : nat) (rest : list token) : Prop :=
  match rest with
  | TOp t :: _ => match bin_of t with Some o => lvl o < th | None => True end
  | _ => True
  end.
Definition stops (m mx : nat) (rest : list token) : Prop :=
  match rest with
  | TOp t :: _ => match bin_of t with Some o => ~ (m <= lvl o /\ lvl o <= mx) | None => True end
  | _ => True
  end.
Definition closes (rest : list token) : Prop :=
  match rest with (TRP | TComma) :: _ => True | _ => False end.

Lemma ploop_stop m mx lhs rest : stops m mx rest ->
  forall f, 1 <= f -> ploop f m mx lhs rest = Some (lhs, rest).
Proof.
  intros H f Hf. destruct f as [|f]; [lia|]. cbn [ploop].
  destruct rest as [|t r]; [reflexivity|]. destruct t; try reflexivity.
  cbn [stops] in H. destruct (bin_of o) as [b|]; [|reflexivity].
  destruct (m <=? lvl b) eqn:E1; [|reflexivity]. destruct (lvl b <=? mx) eqn:E2; [|reflexivity].
  apply Nat.leb_le in E1, E2. exfalso. apply H. split; assumption.
Qed.

Lemma follow_stops m mx rest : follow m rest -> stops m mx rest.
Proof.
  destruct rest as [|t r]; [exact (fun _ => I)|]. destruct t; try exact (fun _ => I). cbn [follow stops].
  destruct (bin_of o); [|exact (fun _ => I)]. intros H [H1 _]. lia.
Qed.
Lemma follow_mono a b rest : a <= b -> follow a rest -> follow b rest.
Proof.
  intros L. destruct rest as [|t r]; [exact (fun x => x)|]. destruct t; try exact (fun x => x). cbn [follow].
  destruct (bin_of o); [|exact (fun x => x)]. lia.
Qed.
Lemma follow_9 rest : follow 9 rest.
Proof.
  destruct rest as [|t r]; [exact I|]. destruct t; try exact I. cbn [follow].
  destruct (bin_of o) as [b|]; [|exact I]. pose proof (lvl_le8 b). lia.
Qed.
Lemma closes_rest_ok rest : closes rest -> rest_ok rest.
Proof. destruct rest as [|[] r]; cbn; tauto. Qed.
Lemma closes_follow th rest : closes rest -> follow th rest.
Proof. destruct rest as [|[] r]; cbn; tauto. Qed.

(* ok R m p e  ->  m is at most the absorption threshold of e *)
Lemma follow_theta R m p e rest : ok R m p e = true -> follow m rest -> follow (theta R p e) rest.
Proof.
  intros Hok Hf. destruct e; try apply follow_9.
  - (* Un *) cbn [theta]. cbn [ok] in Hok. destruct (un_paren R o p); [apply follow_9|].
    apply andb_true_iff in Hok as [H1 _]. apply Nat.leb_le in H1.
    eapply follow_mono; [|exact Hf]. rewrite pre_rbp_spec. lia.
  - (* Bin *) cbn [theta]. cbn [ok] in Hok. destruct (bin_paren R o p (Bin o e1 e2)); [apply follow_9|].
    repeat (apply andb_true_iff in Hok as [Hok ?]). apply Nat.leb_le in Hok.
    eapply follow_mono; [|exact Hf]. rewrite rbp_spec. destruct (lvl o =? 8) eqn:E.
    + apply Nat.eqb_eq in E. lia.
    + lia.
Qed.

(* ------------------------------------------------------------------ one step of each function *)
Lemma pexpr_prefix f m u r :
  pexpr (S f) m (TOp (utok u) :: r) =
  if m <=? pre_max u then
    match pexpr f (pre_rbp u) r with
    | Some (x, r') => ploop f m (pre_max u) (Un u x) r'
    | None => None
    end
  else None.
Proof. cbn [pexpr]. rewrite prefix_of_utok. reflexivity. Qed.

Definition not_op (ts : list token) : Prop := match ts with TOp _ :: _ => False | _ => True end.
Lemma pexpr_prim f m ts : not_op ts ->
  pexpr (S f) m ts = match pprim f ts with Some (x, r') => ploop f m 8 x r' | None => None end.
Proof. intros H. destruct ts as [|t r]; [reflexivity|]. destruct t; try reflexivity. destruct H. Qed.

Lemma ploop_step f m mx lhs o r : m <= lvl o -> lvl o <= mx ->
  ploop (S f) m mx lhs (TOp (btok o) :: r) =
  match pexpr f (rbp o) r with
  | Some (x, r') => ploop f m (mx_after o) (Bin o lhs x) r'
  | None => None
  end.
Proof.
  intros H1 H2. cbn [ploop]. rewrite bin_of_btok.
  apply Nat.leb_le in H1, H2. rewrite H1, H2. reflexivity.
Qed.

Definition no_assign (ts : list token) : Prop := forall n r, ts <> TName n :: TAssign :: r.
Lemma pitem_plain f ts : no_assign ts ->
  pitem (S f) ts =
  match pexpr f 0 ts with
  | Some (lo, TColon :: r1) =>
      match pexpr f 0 r1 with
      | Some (hi, TColon :: r2) =>
          match pexpr f 0 r2 with
          | Some (st, r3) => Some (Rng lo hi st, r3)
          | None => None
          end
      | Some (hi, r2) => Some (Rng lo hi one_lit, r2)
      | None => None
      end
  | Some (x, r1) => Some (x, r1)
  | None => None
  end.
Proof.
  intros H. destruct ts as [|t1 ts]; [reflexivity|]. destruct t1; try reflexivity.
  destruct ts as [|t2 ts]; [reflexivity|]. destruct t2; try reflexivity.
  exfalso. eapply H. reflexivity.
Qed.

(* ------------------------------------------------------------------ the text never starts  name =  *)
Lemma wr_nonempty_lit l : toks (lit_doc l) <> [].
Proof.
  unfold lit_doc. destruct (fc (write_lit l)); destruct (fbody (write_lit l)) as [|c r]; try discriminate;
    destruct (Ascii.eqb c "-"); try discriminate; destruct (Ascii.eqb c "+"); discriminate.
Qed.

Lemma no_assign_wr R : forall e m p rest, ok R m p e = true -> rest_ok rest -> no_assign (wr R p e ++ rest).
Proof.
  induction e as [l|n ix sub _ _|f args _|n e _|lo hi st _ _ _|u e _|o l r IHl _] using expr_ind2;
    intros m p rest Hok Hr k t E.
  - cbn [ok] in Hok. rewrite (wr_lit R p l Hok) in E. discriminate.
  - rewrite wr_acc in E. cbn [app] in E. injection E as _ E.
    destruct ix as [|x ix]; [|discriminate]. cbn [app] in E.
    destruct sub; [discriminate|]. cbn [app] in E. subst rest. exact Hr.
  - rewrite wr_call in E. discriminate.
  - discriminate Hok.
  - discriminate Hok.
  - rewrite wr_un in E. destruct (un_paren R u p); discriminate.
  - rewrite wr_bin in E. cbn [ok] in Hok. repeat (apply andb_true_iff in Hok as [Hok ?]).
    destruct (bin_paren R o p (Bin o l r)); [discriminate|]. cbn [tparens] in E.
    rewrite <- app_assoc in E. cbn [app] in E.
    eapply (IHl _ _ (TOp (btok o) :: wr R (PBinR o) r ++ rest)); [eassumption|exact I|exact E].
Qed.

(* ------------------------------------------------------------------ the statements proved together *)
Definition Pexpr (e : expr) : Prop := forall R p m rest K N,
  ok R m p e = true -> rest_ok rest -> follow (theta R p e) rest ->
  (forall f, N <= f -> ploop f m (after R p e) e rest = K) ->
  forall f, N + need e <= f -> pexpr f m (wr R p e ++ rest) = K.
Definition Pitem (e : expr) : Prop := forall R rest f,
  item_ok R e = true -> closes rest -> 3 + need e <= f ->
  pitem f (wr R PTop e ++ rest) = Some (e, rest).
Definition Pacc (e : expr) : Prop := forall R rest f,
  is_acc e = true -> ok R 0 PTop e = true -> rest_ok rest -> need e <= f + 2 ->
  pacc f (wr R PTop e ++ rest) = Some (e, rest).
Definition Pall (e : expr) : Prop := Pexpr e /\ Pitem e /\ Pacc e.

(* a complete expression followed by something that cannot continue it *)
Lemma Pexpr_stop e : Pexpr e -> forall R p m rest f,
  ok R m p e = true -> rest_ok rest -> follow m rest -> 1 + need e <= f ->
  pexpr f m (wr R p e ++ rest) = Some (e, rest).
Proof.
  intros HP R p m rest f Hok Hr Hf Hfuel.
  eapply (HP R p m rest _ 1); try eassumption.
  - eapply follow_theta; eassumption.
  - intros f0 Hf0. apply ploop_stop; [apply follow_stops; exact Hf | exact Hf0].
Qed.

Lemma Pitem_plain e : Pexpr e -> (forall R, item_ok R e = ok R 0 PTop e) -> Pitem e.
Proof.
  intros HP Hi R rest f Hok Hc Hfuel. rewrite Hi in Hok.
  destruct f as [|f]; [lia|]. rewrite pitem_plain.
  - rewrite (Pexpr_stop e HP R PTop 0 rest f Hok (closes_rest_ok _ Hc) (closes_follow _ _ Hc)) by lia.
    destruct rest as [|[] rest']; try destruct Hc; reflexivity.
  - eapply no_assign_wr; [exact Hok | apply closes_rest_ok, Hc].
Qed.

Lemma pitems_wr R xs : Forall Pitem xs -> forallb (item_ok R) xs = true -> xs <> [] ->
  forall rest f, needs xs <= f ->
  pitems f (sepcat [TComma] (wr R PTop) xs ++ TRP :: rest) = Some (xs, TRP :: rest).
Proof.
  induction 1 as [|x r Hx Hr IH]; intros Hok Hne rest f Hfuel; [congruence|].
  cbn [forallb] in Hok. apply andb_true_iff in Hok as [Hox Hor].
  unfold needs, list_sum in *. cbn [map fold_right] in Hfuel.
  destruct f as [|f]; [lia|]. cbn [pitems sepcat].
  destruct r as [|y r'].
  - rewrite app_nil_r. rewrite (Hx R (TRP :: rest) f Hox I) by lia. reflexivity.
  - rewrite <- app_assoc. cbn [app].
    rewrite (Hx R (TComma :: sepcat [TComma] (wr R PTop) (y :: r') ++ TRP :: rest) f Hox I) by lia.
    rewrite (IH Hor ltac:(discriminate) rest f) by lia. reflexivity.
Qed.

Lemma lit_eqb_eq a b : lit_eqb a b = true -> a = b.
Proof.
  destruct a as [k v p], b as [k' v' p']. unfold lit_eqb. cbn [lk lv lp]. intros H.
  apply andb_true_iff in H as [H Hp]. apply andb_true_iff in H as [Hk Hv].
  apply String.eqb_eq in Hv. subst v'.
  assert (k = k') by (destruct k, k'; try discriminate; reflexivity). subst k'.
  assert (p = p').
  { destruct p, p'; try discriminate; try reflexivity; cbn [lprec_eqb] in Hp.
    - apply N.eqb_eq in Hp. congruence.
    - apply String.eqb_eq in Hp. congruence. }
  congruence.
Qed.

(* ------------------------------------------------------------------ main induction *)
Lemma ok_acc R m p n ix sub :
  ok R m p (Acc n ix sub) =
  forallb (item_ok R) ix && negb (nonempty ix && is_intrinsic n) &&
  match sub with None => true | Some s => is_acc s && ok R 0 PTop s end.
Proof. reflexivity. Qed.
Lemma ok_call R m p f args :
  ok R m p (Call f args) = is_intrinsic f && nonempty args && forallb (item_ok R) args.
Proof. reflexivity. Qed.

Lemma pacc_of R n ix sub :
  Forall Pall ix -> oall Pall sub ->
  forall rest f, ok R 0 PTop (Acc n ix sub) = true -> rest_ok rest -> need (Acc n ix sub) <= f + 2 ->
  pacc f (wr R PTop (Acc n ix sub) ++ rest) = Some (Acc n ix sub, rest).
Proof.
  intros Hix Hsub rest f Hok Hr Hfuel. rewrite ok_acc in Hok.
  apply andb_true_iff in Hok as [Hok Hs]. apply andb_true_iff in Hok as [Hitems Hintr].
  assert (Hix' : Forall Pitem ix) by (eapply Forall_impl; [|exact Hix]; intros a [_ [Ha _]]; exact Ha).
  rewrite wr_acc. cbn [need] in Hfuel. fold (needs ix) in Hfuel.
  destruct f as [|f]; [lia|].
  destruct ix as [|x ix].
  - cbn [app]. destruct sub as [s|].
    + cbn [app pacc]. apply andb_true_iff in Hs as [Hacc Hoks]. destruct Hsub as [_ [_ Hps]].
      rewrite (Hps R rest f Hacc Hoks Hr) by lia. reflexivity.
    + cbn [app pacc]. destruct rest as [|[] rest']; try destruct Hr; reflexivity.
  - cbn [app]. rewrite <- !app_assoc. cbn [app pacc].
    destruct sub as [s|].
    + apply andb_true_iff in Hs as [Hacc Hoks]. destruct Hsub as [_ [_ Hps]]. cbn [app].
      rewrite (pitems_wr R (x :: ix) Hix' Hitems ltac:(discriminate)) by lia. cbv iota.
      rewrite (Hps R rest f Hacc Hoks Hr) by lia. reflexivity.
    + cbn [app]. rewrite (pitems_wr R (x :: ix) Hix' Hitems ltac:(discriminate)) by lia.
      destruct rest as [|[] rest']; try destruct Hr; reflexivity.
Qed.

Theorem all_exprs : forall e, Pall e.
Proof.
  induction e as [l|n ix sub Hix Hsub|fn args Hargs|n e IHe|lo hi st IHlo IHhi IHst|u e IHe|o l r IHl IHr]
    using expr_ind2.
  - (* Lit *)
    assert (HP : Pexpr (Lit l)).
    { intros R p m rest K N Hok Hr Hf HK f Hfuel. cbn [ok] in Hok. rewrite (wr_lit R p l Hok).
      cbn [need] in Hfuel. destruct f as [|f]; [lia|]. cbn [app]. rewrite pexpr_prim by exact I.
      destruct f as [|f]; [lia|]. cbn [pprim]. rewrite (lit_roundtrip l Hok).
      apply HK. lia. }
    split; [exact HP|]. split; [apply Pitem_plain; [exact HP | reflexivity]|].
    intros R rest f H. discriminate H.
  - (* Acc *)
    assert (HA : Pacc (Acc n ix sub)).
    { intros R rest f _ Hok Hr Hfuel. apply pacc_of; assumption. }
    assert (HP : Pexpr (Acc n ix sub)).
    { intros R p m rest K N Hok Hr Hf HK f Hfuel.
      assert (Hok0 : ok R 0 PTop (Acc n ix sub) = true) by exact Hok.
      assert (Hw : wr R p (Acc n ix sub) = wr R PTop (Acc n ix sub)) by reflexivity.
      pose proof (HA R rest) as HA'. rewrite Hw.
      destruct f as [|f]; [cbn [need] in Hfuel; lia|].
      rewrite pexpr_prim by (rewrite wr_acc; exact I).
      assert (Hprim : pprim f (wr R PTop (Acc n ix sub) ++ rest) = Some (Acc n ix sub, rest)).
      { destruct f as [|f]; [cbn [need] in Hfuel; lia|].
        assert (Hpa := HA' f eq_refl Hok0 Hr ltac:(cbn [need] in *; lia)).
        rewrite ok_acc in Hok0. apply andb_true_iff in Hok0 as [Hok1 _].
        apply andb_true_iff in Hok1 as [_ Hintr]. apply negb_true_iff in Hintr.
        revert Hpa. rewrite wr_acc. destruct ix as [|x ix'].
        - cbn [app]. destruct sub as [s|].
          + cbn [app pprim]. exact (fun H => H).
          + cbn [app pprim]. destruct rest as [|[] rest']; try destruct Hr; exact (fun H => H).
        - cbn [app pprim]. cbn [nonempty andb] in Hintr. rewrite Hintr. exact (fun H => H). }
      rewrite Hprim. apply HK. cbn [need] in Hfuel. lia. }
    split; [exact HP|]. split; [apply Pitem_plain; [exact HP | reflexivity]|exact HA].
  - (* Call *)
    assert (HP : Pexpr (Call fn args)).
    { intros R p m rest K N Hok Hr Hf HK f Hfuel. rewrite ok_call in Hok.
      apply andb_true_iff in Hok as [Hok Hitems]. apply andb_true_iff in Hok as [Hintr Hne].
      assert (Hargs' : Forall Pitem args) by (eapply Forall_impl; [|exact Hargs]; intros a [_ [Ha _]]; exact Ha).
      rewrite wr_call. cbn [need] in Hfuel. fold (needs args) in Hfuel.
      destruct f as [|f]; [lia|]. cbn [app]. rewrite pexpr_prim by exact I.
      destruct f as [|f]; [lia|]. cbn [pprim]. rewrite Hintr. rewrite <- app_assoc. cbn [app].
      assert (Hne' : args <> []) by (destruct args; [discriminate Hne|discriminate]).
      rewrite (pitems_wr R args Hargs' Hitems Hne') by lia.
      apply HK. lia. }
    split; [exact HP|]. split; [apply Pitem_plain; [exact HP | reflexivity]|].
    intros R rest f H. discriminate H.
  - (* Named *)
    split; [intros R p m rest K N Hok; discriminate Hok|].
    split; [|intros R rest f H; discriminate H].
    intros R rest f Hok Hc Hfuel. cbn [item_ok] in Hok. destruct IHe as [HPe _].
    rewrite wr_named. cbn [need] in Hfuel. destruct f as [|f]; [lia|]. cbn [app pitem].
    rewrite (Pexpr_stop e HPe R PTop 0 rest f Hok (closes_rest_ok _ Hc) (closes_follow _ _ Hc)) by lia.
    reflexivity.
  - (* Rng *)
    split; [intros R p m rest K N Hok; discriminate Hok|].
    split; [|intros R rest f H; discriminate H].
    intros R rest f Hok Hc Hfuel. cbn [item_ok] in Hok.
    apply andb_true_iff in Hok as [Hok Hstep]. apply andb_true_iff in Hok as [Hok Hst].
    apply andb_true_iff in Hok as [Hlo Hhi].
    destruct IHlo as [HPlo _], IHhi as [HPhi _], IHst as [HPst _].
    rewrite wr_rng. cbn [need] in Hfuel. destruct f as [|f]; [lia|].
    rewrite <- app_assoc. cbn [app]. rewrite <- app_assoc.
    rewrite pitem_plain by (exact (no_assign_wr R lo 0 PTop (TColon :: _) Hlo I)).
    rewrite (Pexpr_stop lo HPlo R PTop 0 (TColon :: _) f Hlo I I) by lia.
    destruct (unit_step st) eqn:Eu.
    + cbn [app].
      rewrite (Pexpr_stop hi HPhi R PTop 0 rest f Hhi (closes_rest_ok _ Hc) (closes_follow _ _ Hc)) by lia.
      assert (st = one_lit).
      { destruct st; try discriminate Eu. cbn [expr_eqb one_lit] in Hstep.
        apply lit_eqb_eq in Hstep. subst. reflexivity. }
      subst st. destruct rest as [|[] rest']; try destruct Hc; reflexivity.
    + cbn [app].
      rewrite (Pexpr_stop hi HPhi R PTop 0 (TColon :: _) f Hhi I I) by lia.
      rewrite (Pexpr_stop st HPst R PTop 0 rest f Hst (closes_rest_ok _ Hc) (closes_follow _ _ Hc)) by lia.
      reflexivity.
  - (* Un *)
    destruct IHe as [HPe _].
    assert (Hbody : forall R m' rest' K' N', m' <= pre_max u -> ok R (pre_rbp u) (PUn u) e = true ->
              rest_ok rest' -> follow (pre_rbp u) rest' ->
              (forall f, N' <= f -> ploop f m' (pre_max u) (Un u e) rest' = K') ->
              forall f, N' + need e + 3 <= f ->
              pexpr f m' (TOp (utok u) :: wr R (PUn u) e ++ rest') = K').
    { intros R m' rest' K' N' Hm Hoke Hr' Hf' HK' f Hfuel. destruct f as [|f]; [lia|].
      rewrite pexpr_prefix. apply Nat.leb_le in Hm. rewrite Hm.
      rewrite (Pexpr_stop e HPe R (PUn u) (pre_rbp u) rest' f Hoke Hr' Hf') by lia.
      apply HK'. lia. }
    assert (HP : Pexpr (Un u e)).
    { intros R p m rest K N Hok Hr Hf HK f Hfuel. cbn [ok] in Hok. cbn [theta] in Hf. cbn [after] in HK.
      apply andb_true_iff in Hok as [Hm Hoke]. apply Nat.leb_le in Hm.
      rewrite wr_un. cbn [need] in Hfuel. destruct (un_paren R u p); cbn [tparens].
      - destruct f as [|f]; [lia|]. cbn [app]. rewrite pexpr_prim by exact I.
        destruct f as [|f]; [lia|]. cbn [pprim]. rewrite <- app_assoc. cbn [app].
        rewrite (Hbody R 0 (TRP :: rest) (Some (Un u e, TRP :: rest)) 1) ; try assumption; try exact I; try lia.
        + apply HK. lia.
        + intros f0 Hf0. apply ploop_stop; [exact I | exact Hf0].
      - cbn [app]. eapply (Hbody R m rest K N); try eassumption. lia. }
    split; [exact HP|]. split; [apply Pitem_plain; [exact HP | reflexivity]|].
    intros R rest f H. discriminate H.
  - (* Bin *)
    destruct IHl as [HPl _], IHr as [HPr _].
    assert (Hbody : forall R g m' rest' K' N',
              m' <= lvl o -> ok R m' (PBinL o r g) l = true ->
              lvl o < theta R (PBinL o r g) l -> lvl o <= after R (PBinL o r g) l ->
              ok R (rbp o) (PBinR o) r = true ->
              rest_ok rest' -> follow (rbp o) rest' ->
              (forall f, N' <= f -> ploop f m' (mx_after o) (Bin o l r) rest' = K') ->
              forall f, N' + need l + need r + 4 <= f ->
              pexpr f m' ((wr R (PBinL o r g) l ++ TOp (btok o) :: wr R (PBinR o) r) ++ rest') = K').
    { intros R g m' rest' K' N' Hm Hokl Hth Haf Hokr Hr' Hf' HK' f Hfuel.
      rewrite <- app_assoc. cbn [app].
      eapply (HPl R (PBinL o r g) m' _ K' (N' + need r + 2)); try assumption.
      - exact I.
      - cbn [follow]. rewrite bin_of_btok. exact Hth.
      - intros f0 Hf0. destruct f0 as [|f0]; [lia|]. rewrite ploop_step by assumption.
        rewrite (Pexpr_stop r HPr R (PBinR o) (rbp o) rest' f0 Hokr Hr' Hf') by lia.
        apply HK'. lia.
      - lia. }
    assert (HP : Pexpr (Bin o l r)).
    { intros R p m rest K N Hok Hr Hf HK f Hfuel. cbn [ok] in Hok. cbn [theta] in Hf. cbn [after] in HK.
      repeat (apply andb_true_iff in Hok as [Hok ?]).
      apply Nat.leb_le in Hok. apply Nat.ltb_lt in H1. apply Nat.leb_le in H0.
      rewrite wr_bin. cbn [need] in Hfuel. destruct (bin_paren R o p (Bin o l r)); cbn [tparens].
      - destruct f as [|f]; [lia|]. cbn [app]. rewrite pexpr_prim by exact I.
        destruct f as [|f]; [lia|]. cbn [pprim]. rewrite <- app_assoc. cbn [app].
        rewrite (Hbody R (gleft R p o) 0 (TRP :: rest) (Some (Bin o l r, TRP :: rest)) 1);
          try assumption; try exact I; try lia.
        + apply HK. lia.
        + intros f0 Hf0. apply ploop_stop; [exact I | exact Hf0].
      - eapply (Hbody R (gleft R p o) m rest K N); try eassumption. lia. }
    split; [exact HP|]. split; [apply Pitem_plain; [exact HP | reflexivity]|].
    intros R rest f H. discriminate H.
Qed.

(* ------------------------------------------------------------------ enough fuel *)
Notation length := List.length.
Lemma sepcat_length R xs (sep : list token) :
  Forall (fun x => forall p, need x <= 12 * length (wr R p x)) xs -> length sep = 1 ->
  needs xs <= 12 * length (sepcat sep (wr R PTop) xs) + 4.
Proof.
  intros H Hs. unfold needs, list_sum. induction H as [|x r Hx Hr IH]; [cbn; lia|].
  cbn [map fold_right sepcat]. rewrite app_length. specialize (Hx PTop).
  destruct r as [|y r'].
  - cbn [map fold_right length]. lia.
  - rewrite app_length, Hs. lia.
Qed.

Lemma wr_length_pos R : forall e p, 1 <= length (wr R p e).
Proof.
  intros e p. destruct e.
  - unfold wr. cbn [wrd]. pose proof (wr_nonempty_lit l). destruct (toks (lit_doc l)); [congruence|cbn; lia].
  - rewrite wr_acc. cbn [length]. lia.
  - rewrite wr_call. cbn [length]. lia.
  - rewrite wr_named. cbn [length]. lia.
  - rewrite wr_rng, app_length. cbn [length]. lia.
  - rewrite wr_un. destruct (un_paren R o p); cbn [tparens length]; lia.
  - rewrite wr_bin. destruct (bin_paren R o p (Bin o e1 e2)); cbn [tparens length];
      rewrite ?app_length; cbn [length]; lia.
Qed.

Lemma need_le R : forall e p, need e <= 12 * length (wr R p e).
Proof.
  induction e as [l|n ix sub Hix Hsub|fn args Hargs|n e IHe|lo hi st IHlo IHhi IHst|u e IHe|o l r IHl IHr]
    using expr_ind2; intros p.
  - pose proof (wr_length_pos R (Lit l) p). cbn [need]. lia.
  - rewrite wr_acc. cbn [need]. fold (needs ix). cbn [length]. rewrite app_length.
    assert (Hs : match sub with Some s => 2 + need s | None => 0 end <=
                 12 * length (match sub with Some s => TPct :: wr R PTop s | None => [] end)).
    { destruct sub as [s|]; [specialize (Hsub PTop); cbn [length]; lia | cbn; lia]. }
    destruct ix as [|x ix'].
    + unfold needs. cbn [map list_sum fold_right length]. lia.
    + pose proof (sepcat_length R (x :: ix') [TComma] Hix eq_refl) as H2.
      cbn [length]. rewrite app_length. cbn [length]. lia.
  - rewrite wr_call. cbn [need]. fold (needs args). cbn [length]. rewrite app_length. cbn [length].
    pose proof (sepcat_length R args [TComma] Hargs eq_refl) as H1. lia.
  - rewrite wr_named. cbn [need length]. specialize (IHe PTop). lia.
  - rewrite wr_rng. cbn [need]. rewrite app_length. cbn [length]. rewrite app_length.
    specialize (IHlo PTop). specialize (IHhi PTop). specialize (IHst PTop).
    destruct (unit_step st) eqn:E.
    + destruct st; try discriminate E. cbn [need length]. lia.
    + cbn [length]. lia.
  - rewrite wr_un. specialize (IHe (PUn u)). cbn [need].
    destruct (un_paren R u p); cbn [tparens length]; rewrite ?app_length; cbn [length]; lia.
  - rewrite wr_bin. specialize (IHl (PBinL o r (gleft R p o))). specialize (IHr (PBinR o)). cbn [need].
    destruct (bin_paren R o p (Bin o l r)); cbn [tparens length]; rewrite ?app_length; cbn [length];
      rewrite ?app_length; cbn [length]; lia.
Qed.

(* ------------------------------------------------------------------ the theorem *)
Theorem parse_write_safe : forall R e, safe R e = true -> parse (write R e) = Some e.
Proof.
  intros R e Hs. unfold parse, write, safe in *.
  destruct (all_exprs e) as [HP _].
  pose proof (Pexpr_stop e HP R PTop 0 [] (fuel_of (wr R PTop e)) Hs I I) as H.
  rewrite app_nil_r in H. rewrite H; [reflexivity|].
  unfold fuel_of. pose proof (need_le R e PTop). lia.
Qed.
