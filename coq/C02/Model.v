(* C02 — model of the expression part of FortranWriter (src/psyclone/psyir/backend/fortran.py:
   binaryoperation_node, unaryoperation_node, literal_node, range_node, call_node/_gen_arguments;
   language_writer.py: arrayreference_node, structurereference_node, member_node,
   arrayofstructuresreference_node; visitor.py: reference_node) and of the Fortran 2008 expression
   grammar (R1002-R1022) as a fuelled precedence-climbing parser.  Definitions only. *)
From Coq Require Import List NArith Bool String Ascii Arith DecimalString.
Import ListNotations.
From PV Require Import C02.Syntax C02.Gen.
Open Scope string_scope.

(* ------------------------------------------------------------------ strings *)
Fixpoint contains (c : ascii) (s : string) : bool :=
  match s with EmptyString => false | String a r => Ascii.eqb a c || contains c r end.
Fixpoint replace_first (a b : ascii) (s : string) : string :=
  match s with
  | EmptyString => EmptyString
  | String c r => if Ascii.eqb c a then String b r else String c (replace_first a b r)
  end.
Fixpoint replace_all (a b : ascii) (s : string) : string :=
  match s with
  | EmptyString => EmptyString
  | String c r => String (if Ascii.eqb c a then b else c) (replace_all a b r)
  end.
Definition dec (n : N) : string := NilZero.string_of_uint (N.to_uint n).
Fixpoint concat_str (l : list string) : string :=
  match l with [] => EmptyString | s :: r => s ++ concat_str r end.

(* ------------------------------------------------------------------ literals *)
(* literal_node: DOUBLE reals get their first 'e' replaced by 'd'; everything else is the value *)
Definition body_of (l : lit) : string :=
  match lk l, lp l with
  | KReal, PDouble => replace_first "e" "d" (lv l)
  | _, _ => lv l
  end.
(* what the lexer makes of a numeric body: a '.', an 'e' or a 'd' makes it a real constant *)
Definition real_shape (s : string) : bool := contains "." s || contains "e" s || contains "d" s.
Definition cls_of (l : lit) : lcls :=
  match lk l with
  | KBool => CBool
  | KChar => CChar
  | _ => if real_shape (body_of l) then CReal else CInt
  end.
Definition ksuf_of (p : lprec) : ksuf :=
  match p with PKind n => KNum n | PSym s => KName s | _ => KNone end.
Definition write_lit (l : lit) : litform :=
  mkForm (cls_of l) (body_of l)
         (match lk l with KChar => contains "'" (lv l) | _ => false end)
         (ksuf_of (lp l)).

Definition ksuf_text (k : ksuf) : string :=
  match k with KNone => "" | KNum n => dec n | KName s => s end.
Definition render_lit (w : litform) : string :=
  match fc w with
  | CChar => let q := if fdq w then """" else "'" in
             (match fk w with KNone => "" | k => ksuf_text k ++ "_" end) ++ q ++ fbody w ++ q
  | CBool => "." ++ fbody w ++ "." ++ (match fk w with KNone => "" | k => "_" ++ ksuf_text k end)
  | _ => fbody w ++ (match fk w with KNone => "" | k => "_" ++ ksuf_text k end)
  end.

(* fparser2.py: _number_handler / _char_literal_handler / _bool_literal_handler with
   get_literal_precision: explicit kind, else (reals) 'd' => DOUBLE, 'e' => SINGLE, else default *)
Definition read_lit (w : litform) : lit :=
  let b := fbody w in
  let p := match fk w with
           | KNum n => PKind n
           | KName s => PSym s
           | KNone => match fc w with
                      | CReal => if contains "d" b then PDouble
                                 else if contains "e" b then PSingle else PUndef
                      | _ => PUndef
                      end
           end in
  match fc w with
  | CInt => mkLit KInt b p
  | CReal => mkLit KReal (replace_all "d" "e" b) p
  | CBool => mkLit KBool b p
  | CChar => mkLit KChar b p
  end.

(* a numeric value with a leading sign is two lexical tokens *)
Definition doc := list (option token * string).
Definition lit_doc (l : lit) : doc :=
  let w := write_lit l in
  match fc w, fbody w with
  | CChar, _ | CBool, _ => [(Some (TLit w), render_lit w)]
  | _, String c r =>
      let w' := mkForm (fc w) r (fdq w) (fk w) in
      if Ascii.eqb c "-" then [(Some (TOp OMinus), "-"); (Some (TLit w'), render_lit w')]
      else if Ascii.eqb c "+" then [(Some (TOp OPlus), "+"); (Some (TLit w'), render_lit w')]
      else [(Some (TLit w), render_lit w)]
  | _, _ => [(Some (TLit w), render_lit w)]
  end.

Close Scope string_scope.
Open Scope list_scope.
Open Scope nat_scope.

(* ------------------------------------------------------------------ operators *)
(* the lexer's view of an operator spelling (both spellings of the relational operators) *)
Definition lex_op (s : string) : option optok :=
  if String.eqb s "+" then Some OPlus else if String.eqb s "-" then Some OMinus
  else if String.eqb s "*" then Some OStar else if String.eqb s "/" then Some OSlash
  else if String.eqb s "**" then Some OPow
  else if String.eqb s "==" || String.eqb s ".EQ." then Some OEq
  else if String.eqb s "/=" || String.eqb s ".NE." then Some ONe
  else if String.eqb s "<" || String.eqb s ".LT." then Some OLt
  else if String.eqb s "<=" || String.eqb s ".LE." then Some OLe
  else if String.eqb s ">" || String.eqb s ".GT." then Some OGt
  else if String.eqb s ">=" || String.eqb s ".GE." then Some OGe
  else if String.eqb s ".NOT." then Some ONot else if String.eqb s ".AND." then Some OAnd
  else if String.eqb s ".OR." then Some OOr else if String.eqb s ".EQV." then Some OEqv
  else if String.eqb s ".NEQV." then Some ONeqv else None.
Definition op_tok (s : string) : token :=
  match lex_op s with Some t => TOp t | None => TBad end.

(* position of a node: what the writer looks at through node.parent / parent.parent *)
Inductive pos :=
| PTop                                             (* parent is not an Operation *)
| PUn (u : unop)                                   (* operand of a UnaryOperation *)
| PBinL (o : binop) (sib : expr) (g : bool)
    (* children[0] of a BinaryOperation o whose children[1] is sib; g: a sign written at the very
       left of that BinaryOperation would directly follow a binary operator (see gleft) *)
| PBinR (o : binop).                               (* children[1] of a BinaryOperation o *)

(* binaryoperation_node: brackets iff lower precedence than the parent operation, or equal
   precedence and (parent unary, or `parent.children[1] == node` -- structural equality, so also a
   left operand equal to its right sibling) *)
Definition bin_paren (R : rules) (o : binop) (p : pos) (self : expr) : bool :=
  match p with
  | PTop => false
  | PUn u => prec_bin o <=? prec_un u
  | PBinR po => prec_bin o <=? prec_bin po
  | PBinL po sib _ =>
      (prec_bin o <? prec_bin po) ||
      ((prec_bin o =? prec_bin po) &&
       (expr_eqb sib self
        || (r_pow_left R && (prec_bin o =? prec_bin Pow))
        || (r_rel_left R && (prec_bin o =? prec_bin Eq))))
  end.

(* unaryoperation_node *)
Definition un_paren (R : rules) (u : unop) (p : pos) : bool :=
  match p with
  | PTop => false
  | PUn _ => true
  | PBinR _ => true
  | PBinL po _ g =>
      (String.eqb (bin_str po) "**" && String.eqb (un_str u) "-")
      || (r_un_left R && (prec_un u <? prec_bin po))
      || (g && (String.eqb (un_str u) "-" || (r_plus R && String.eqb (un_str u) "+")))
  end.

(* the flag handed to the left operand of a BinaryOperation o at position p.
   Unchanged code: o is children[1] of a BinaryOperation po of lower precedence (so o is not
   bracketed).  r_deep: also when o is an unbracketed-looking left operand (precedence not below
   its parent's) of an operation that has the flag, or the unbracketed operand of a unary sign. *)
Definition gleft (R : rules) (p : pos) (o : binop) : bool :=
  match p with
  | PBinR po => prec_bin po <? prec_bin o
  | PBinL po _ g => r_deep R && g && (prec_bin po <=? prec_bin o)
  | PUn u => r_deep R && (String.eqb (un_str u) "-" || String.eqb (un_str u) "+") && (prec_un u <? prec_bin o)
  | PTop => false
  end.

Definition tk (t : token) (s : string) : option token * string := (Some t, s).
Definition sp : option token * string := (None, " "%string).
Definition parens (b : bool) (d : doc) : doc :=
  if b then tk TLP "(" :: d ++ [tk TRP ")"] else d.

(* items separated by sep *)
Definition sepcat {A} (sep : list A) (f : expr -> list A) : list expr -> list A :=
  fix go (xs : list expr) : list A :=
    match xs with
    | [] => []
    | x :: r => f x ++ match r with [] => [] | _ => sep ++ go r end
    end.

(* range_node: the step is left out when it is an INTEGER literal whose value is "1" *)
Definition unit_step (st : expr) : bool :=
  match st with
  | Lit l => match lk l with KInt => String.eqb (lv l) "1" | _ => false end
  | _ => false
  end.

Fixpoint wrd (R : rules) (p : pos) (e : expr) {struct e} : doc :=
  match e with
  | Lit l => lit_doc l
  | Acc n ix sub =>
      tk (TName n) n ::
      (match ix with
       | [] => []
       | _ => tk TLP "(" :: sepcat [tk TComma ","] (fun x => wrd R PTop x) ix ++ [tk TRP ")"]
       end) ++
      (match sub with None => [] | Some s => tk TPct "%" :: wrd R PTop s end)
  | Call f args =>
      tk (TName f) f :: tk TLP "(" :: sepcat [tk TComma ","; sp] (fun x => wrd R PTop x) args ++ [tk TRP ")"]
  | Named n x => tk (TName n) n :: tk TAssign "=" :: wrd R PTop x
  | Rng lo hi st =>
      wrd R PTop lo ++ tk TColon ":" :: wrd R PTop hi ++
      (if unit_step st then [] else tk TColon ":" :: wrd R PTop st)
  | Un u x =>
      parens (un_paren R u p) (tk (op_tok (un_str u)) (un_str u) :: wrd R (PUn u) x)
  | Bin o l r =>
      parens (bin_paren R o p e)
             (wrd R (PBinL o r (gleft R p o)) l ++ sp :: tk (op_tok (bin_str o)) (bin_str o) :: sp ::
              wrd R (PBinR o) r)
  end.

Definition toks (d : doc) : list token :=
  flat_map (fun it => match fst it with Some t => [t] | None => [] end) d.
Definition render (d : doc) : string := concat_str (map snd d).

Definition wr (R : rules) (p : pos) (e : expr) : list token := toks (wrd R p e).
Definition write (R : rules) (e : expr) : list token := wr R PTop e.
Definition write_text (R : rules) (e : expr) : string := render (wrd R PTop e).

(* ------------------------------------------------------------------ grammar *)
(* Fortran 2008 levels: .EQV./.NEQV. 0 < .OR. 1 < .AND. 2 < .NOT. 3 < relational 4 < // 5
   < binary/unary + - 6 < * / 7 < ** 8 *)
Definition lvl (o : binop) : nat :=
  match o with
  | Eqv | Neqv => 0 | Or => 1 | And => 2
  | Eq | Ne | Lt | Le | Gt | Ge => 4
  | Add | Sub => 6 | Mul | Div => 7 | Pow => 8
  end.
(* minimum level of the right operand: ** is right associative (R1004 mult-operand is
   level-1-expr [ ** mult-operand ]), everything else takes a strictly tighter right operand *)
Definition rbp (o : binop) : nat := match o with Pow => 8 | _ => S (lvl o) end.
(* highest level of an operator that may follow `l o r` in the same operand chain:
   relational operators do not chain (R1012 level-4-expr is [level-3-expr rel-op] level-3-expr) *)
Definition mx_after (o : binop) : nat :=
  match o with Eq | Ne | Lt | Le | Gt | Ge => 3 | _ => lvl o end.
(* a sign may only start a level-2 expression and applies to an add-operand (R1006);
   .NOT. may only start an and-operand and applies to a level-4 expression (R1014) *)
Definition pre_max (u : unop) : nat := match u with Not => 3 | _ => 6 end.
Definition pre_rbp (u : unop) : nat := match u with Not => 4 | _ => 7 end.

Definition bin_of (t : optok) : option binop :=
  match t with
  | OPlus => Some Add | OMinus => Some Sub | OStar => Some Mul | OSlash => Some Div
  | OPow => Some Pow | OEq => Some Eq | ONe => Some Ne | OLt => Some Lt | OLe => Some Le
  | OGt => Some Gt | OGe => Some Ge | OAnd => Some And | OOr => Some Or | OEqv => Some Eqv
  | ONeqv => Some Neqv | ONot => None
  end.
Definition prefix_of (t : optok) : option unop :=
  match t with OPlus => Some Pos | OMinus => Some Neg | ONot => Some Not | _ => None end.

(* names the frontend turns into IntrinsicCall nodes (the ones the generators use) *)
Definition intrinsics : list string :=
  ["ABS"; "SQRT"; "EXP"; "MAX"; "MIN"; "MOD"; "SIGN"; "REAL"; "INT"; "SUM"; "SIZE"; "NINT"]%string.
Definition is_intrinsic (n : string) : bool := existsb (String.eqb n) intrinsics.

Definition one_lit : expr := Lit (mkLit KInt "1"%string PUndef).

Fixpoint pexpr (f : nat) (m : nat) (ts : list token) {struct f} : option (expr * list token) :=
  match f with
  | 0 => None
  | S f' =>
      match ts with
      | TOp t :: r =>
          match prefix_of t with
          | Some u =>
              if m <=? pre_max u then
                match pexpr f' (pre_rbp u) r with
                | Some (x, r') => ploop f' m (pre_max u) (Un u x) r'
                | None => None
                end
              else None
          | None => None
          end
      | _ => match pprim f' ts with
             | Some (x, r') => ploop f' m 8 x r'
             | None => None
             end
      end
  end
with ploop (f : nat) (m mx : nat) (lhs : expr) (ts : list token) {struct f}
  : option (expr * list token) :=
  match f with
  | 0 => None
  | S f' =>
      match ts with
      | TOp t :: r =>
          match bin_of t with
          | Some o =>
              if (m <=? lvl o) && (lvl o <=? mx) then
                match pexpr f' (rbp o) r with
                | Some (x, r') => ploop f' m (mx_after o) (Bin o lhs x) r'
                | None => None
                end
              else Some (lhs, ts)
          | None => Some (lhs, ts)
          end
      | _ => Some (lhs, ts)
      end
  end
with pprim (f : nat) (ts : list token) {struct f} : option (expr * list token) :=
  match f with
  | 0 => None
  | S f' =>
      match ts with
      | TLit w :: r => Some (Lit (read_lit w), r)
      | TLP :: r =>
          match pexpr f' 0 r with
          | Some (x, TRP :: r') => Some (x, r')
          | _ => None
          end
      | TName n :: TLP :: r =>
          if is_intrinsic n then
            match pitems f' r with
            | Some (args, TRP :: r') => Some (Call n args, r')
            | _ => None
            end
          else pacc f' ts
      | TName _ :: _ => pacc f' ts
      | _ => None
      end
  end
with pacc (f : nat) (ts : list token) {struct f} : option (expr * list token) :=
  match f with
  | 0 => None
  | S f' =>
      match ts with
      | TName n :: TLP :: r =>
          match pitems f' r with
          | Some (ix, TRP :: TPct :: r') =>
              match pacc f' r' with
              | Some (s, r'') => Some (Acc n ix (Some s), r'')
              | None => None
              end
          | Some (ix, TRP :: r') => Some (Acc n ix None, r')
          | _ => None
          end
      | TName n :: TPct :: r =>
          match pacc f' r with
          | Some (s, r') => Some (Acc n [] (Some s), r')
          | None => None
          end
      | TName n :: r => Some (Acc n [] None, r)
      | _ => None
      end
  end
with pitems (f : nat) (ts : list token) {struct f} : option (list expr * list token) :=
  match f with
  | 0 => None
  | S f' =>
      match pitem f' ts with
      | Some (x, TComma :: r) =>
          match pitems f' r with
          | Some (xs, r') => Some (x :: xs, r')
          | None => None
          end
      | Some (x, r) => Some ([x], r)
      | None => None
      end
  end
with pitem (f : nat) (ts : list token) {struct f} : option (expr * list token) :=
  match f with
  | 0 => None
  | S f' =>
      match ts with
      | TName n :: TAssign :: r =>
          match pexpr f' 0 r with
          | Some (x, r') => Some (Named n x, r')
          | None => None
          end
      | _ =>
          match pexpr f' 0 ts with
          | Some (lo, TColon :: r1) =>
              match pexpr f' 0 r1 with
              | Some (hi, TColon :: r2) =>
                  match pexpr f' 0 r2 with
                  | Some (st, r3) => Some (Rng lo hi st, r3)
                  | None => None
                  end
              | Some (hi, r2) => Some (Rng lo hi one_lit, r2)
              | None => None
              end
          | Some (x, r1) => Some (x, r1)
          | None => None
          end
      end
  end.

Definition fuel_of (ts : list token) : nat := 12 * List.length ts + 12.
Definition parse (ts : list token) : option expr :=
  match pexpr (fuel_of ts) 0 ts with
  | Some (e, []) => Some e
  | _ => None
  end.

(* ------------------------------------------------------------------ side conditions *)
(* literals the reader gives back unchanged *)
Definition no_sign (s : string) : bool :=
  match s with String c _ => negb (Ascii.eqb c "-" || Ascii.eqb c "+") | EmptyString => true end.
Definition lit_ok (l : lit) : bool :=
  match lk l with
  | KInt => no_sign (lv l) && negb (real_shape (lv l)) &&
            (match lp l with PSingle | PDouble => false | _ => true end)
  | KReal => no_sign (lv l) && negb (contains "d" (lv l)) &&
             (contains "." (lv l) || contains "e" (lv l)) &&
             (match lp l with
              | PUndef => negb (contains "e" (lv l))
              | PSingle | PDouble => contains "e" (lv l)
              | _ => true
              end)
  | KBool | KChar => match lp l with PSingle | PDouble => false | _ => true end
  end.

(* the rest-of-input conditions of the parser, as local conditions on parent/child:
   theta  : an operator following the (unbracketed) text of e must have a level below it,
            else it is absorbed by a loop inside e;
   after  : highest level of an operator that the loop which parsed e still accepts *)
Definition theta (R : rules) (p : pos) (e : expr) : nat :=
  match e with
  | Bin o _ _ => if bin_paren R o p e then 9 else rbp o
  | Un u _ => if un_paren R u p then 9 else pre_rbp u
  | _ => 9
  end.
Definition after (R : rules) (p : pos) (e : expr) : nat :=
  match e with
  | Bin o _ _ => if bin_paren R o p e then 8 else mx_after o
  | Un u _ => if un_paren R u p then 8 else pre_max u
  | _ => 8
  end.
Definition is_acc (e : expr) : bool := match e with Acc _ _ _ => true | _ => false end.
Definition nonempty {A} (l : list A) : bool := match l with [] => false | _ => true end.

(* ok R m p e: the text of e written at position p is read back as e by `pexpr _ m`.
   Every condition is local to a node and its children. *)
Fixpoint ok (R : rules) (m : nat) (p : pos) (e : expr) {struct e} : bool :=
  let item (x : expr) : bool :=
    match x with
    | Named _ v => ok R 0 PTop v
    | Rng lo hi st =>
        ok R 0 PTop lo && ok R 0 PTop hi && ok R 0 PTop st &&
        (if unit_step st then expr_eqb st one_lit else true)
    | _ => ok R 0 PTop x
    end in
  match e with
  | Lit l => lit_ok l
  | Acc n ix sub =>
      forallb item ix &&
      negb (nonempty ix && is_intrinsic n) &&
      match sub with None => true | Some s => is_acc s && ok R 0 PTop s end
  | Call f args => is_intrinsic f && nonempty args && forallb item args
  | Named _ _ => false
  | Rng _ _ _ => false
  | Un u x =>
      let m' := if un_paren R u p then 0 else m in
      (m' <=? pre_max u) && ok R (pre_rbp u) (PUn u) x
  | Bin o l r =>
      let m' := if bin_paren R o p e then 0 else m in
      let g := gleft R p o in
      (m' <=? lvl o) &&
      ok R m' (PBinL o r g) l &&
      (lvl o <? theta R (PBinL o r g) l) && (lvl o <=? after R (PBinL o r g) l) &&
      ok R (rbp o) (PBinR o) r
  end.
Definition safe (R : rules) (e : expr) : bool := ok R 0 PTop e.
(* the condition `ok` puts on an element of an index / argument list *)
Definition item_ok (R : rules) (x : expr) : bool :=
  match x with
  | Named _ v => ok R 0 PTop v
  | Rng lo hi st =>
      ok R 0 PTop lo && ok R 0 PTop hi && ok R 0 PTop st &&
      (if unit_step st then expr_eqb st one_lit else true)
  | _ => ok R 0 PTop x
  end.

(* well-formed trees: the domain of the property (what the PSyIR constructors accept and the
   Fortran writer does not refuse), with literals in the form the reader gives back *)
Fixpoint wf (e : expr) {struct e} : bool :=
  let item (x : expr) : bool :=
    match x with
    | Named _ v => wf v
    | Rng lo hi st => wf lo && wf hi && wf st && (if unit_step st then expr_eqb st one_lit else true)
    | _ => wf x
    end in
  match e with
  | Lit l => lit_ok l
  | Acc n ix sub =>
      forallb item ix && negb (nonempty ix && is_intrinsic n) &&
      match sub with None => true | Some s => is_acc s && wf s end
  | Call f args => is_intrinsic f && nonempty args && forallb item args
  | Named _ _ => false
  | Rng _ _ _ => false
  | Un _ x => wf x
  | Bin _ l r => wf l && wf r
  end.

(* the three shapes for which the unchanged writer leaves out brackets that are needed *)
Definition item_wf (x : expr) : bool :=
  match x with
  | Named _ v => wf v
  | Rng lo hi st => wf lo && wf hi && wf st && (if unit_step st then expr_eqb st one_lit else true)
  | _ => wf x
  end.
Definition rel_level (o : binop) : bool := lvl o =? 4.
Fixpoint shape_ok (R : rules) (e : expr) {struct e} : bool :=
  match e with
  | Lit _ => true
  | Acc _ ix sub => forallb (shape_ok R) ix && match sub with None => true | Some s => shape_ok R s end
  | Call _ args => forallb (shape_ok R) args
  | Named _ x => shape_ok R x
  | Rng lo hi st => shape_ok R lo && shape_ok R hi && shape_ok R st
  | Un _ x => shape_ok R x
  | Bin o l r =>
      shape_ok R l && shape_ok R r &&
      match l with
      | Bin ol _ _ =>
          (* left-nested ** ; chained relational operators *)
          negb ((lvl ol =? lvl o) && (((lvl o =? 8) && negb (r_pow_left R)) ||
                                      (rel_level o && negb (r_rel_left R))))
      | Un u _ =>
          (* unary operator on the left of an operator that binds tighter than it *)
          (lvl o <=? pre_max u) || r_un_left R ||
          (match o, u with Pow, Neg => true | _, _ => false end)
      | _ => true
      end
  end.

(* ------------------------------------------------------------------ correspondence cases *)
(* (tree, text written by FortranWriter, tree re-read by FortranReader, whether re-read = tree) *)
Inductive rr := RSame | RNone | RTree (t : expr).   (* RNone: the reader raised / built a CodeBlock *)
Definition case := (expr * string * rr * bool)%type.
Definition model_rt (R : rules) (e : expr) : bool :=
  match parse (write R e) with Some t => expr_eqb t e | None => false end.
Definition agrees (R : rules) (c : case) : bool :=
  let '(e, text, reread, impl_ok) := c in
  let back := match reread with RSame => Some e | RNone => None | RTree t => Some t end in
  String.eqb (write_text R e) text &&
  (* when the text is in the standard grammar, the reader must see what the grammar says *)
  match parse (write R e) with
  | Some t => oexpr_eqb (Some t) back
  | None => true
  end &&
  (* ... and then the implementation's verdict is the model's; text outside the grammar may or
     may not be accepted by the (more permissive) reader: see std_text *)
  match parse (write R e) with
  | Some t => Bool.eqb (expr_eqb t e) impl_ok
  | None => true
  end &&
  (* the theorem's prediction: safe trees survive the round trip *)
  implb (safe R e) impl_ok &&
  implb (wf e && shape_ok R e) (safe R e).
Definition agrees_impl := agrees impl_rules.
(* the written text is in the standard grammar, or the round trip is already counted as failing *)
Definition std_text (R : rules) (c : case) : bool :=
  let '(e, _, _, impl_ok) := c in
  match parse (write R e) with Some _ => true | None => negb impl_ok end.
Definition agrees_strict_impl (c : case) : bool := agrees impl_rules c && std_text impl_rules c.

(* grammar cases: (tokens, tree the frontend built from the rendered text or None).
   One-directional: the frontend may accept more than the standard grammar. *)
Definition gcase := (list token * option expr)%type.
Definition gagrees (c : gcase) : bool :=
  match parse (fst c) with
  | Some t => oexpr_eqb (Some t) (snd c)
  | None => true
  end.
Definition gstrict (c : gcase) : bool :=
  match parse (fst c), snd c with
  | None, Some _ => false
  | _, _ => true
  end.
