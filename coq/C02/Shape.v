(* C02 — the writer's bracket decisions are sufficient except in three syntactic shapes;
   with the repaired decisions (rules_fixed) no shape is excluded.  Witnesses for the shapes. *)
From Coq Require Import List NArith Bool String Ascii Arith Lia.
Import ListNotations.
From PV Require Import C02.Syntax C02.Gen C02.Model C02.Facts C02.ParseProof.

(* the decisions, in terms of the grammar levels (uses the table facts proved by computation) *)
Lemma bin_paren_lvl R o p self :
  bin_paren R o p self =
  match p with
  | PTop => false
  | PUn u => lvl o <=? pre_max u
  | PBinR po => lvl o <=? lvl po
  | PBinL po sib _ =>
      (lvl o <? lvl po) ||
      ((lvl o =? lvl po) &&
       (expr_eqb sib self || (r_pow_left R && (lvl o =? 8)) || (r_rel_left R && (lvl o =? 4))))
  end.
Proof.
  unfold bin_paren. destruct p;
    [reflexivity | apply prec_bu_le
     | rewrite prec_bb_lt, prec_bb_eq, prec_pow, prec_rel; reflexivity | apply prec_bb_le].
Qed.
Lemma un_paren_lvl R u p :
  un_paren R u p =
  match p with
  | PTop => false
  | PUn _ => true
  | PBinR _ => true
  | PBinL po _ g =>
      ((lvl po =? 8) && is_neg u) || (r_un_left R && (pre_max u <? lvl po))
      || (g && (is_neg u || (r_plus R && is_pos u)))
  end.
Proof.
  unfold un_paren. destruct p; [reflexivity | reflexivity | | reflexivity].
  rewrite str_pow, str_neg, str_pos, prec_ub_lt. reflexivity.
Qed.

(* relation between the minimum level a node is parsed at and its position *)
Definition posinv (R : rules) (m : nat) (p : pos) (e : expr) : Prop :=
  match p with
  | PTop => m = 0
  | PUn u => m = pre_rbp u
  | PBinR po => m = rbp po
  | PBinL po _ _ => m <= lvl po /\ lvl po < theta R p e /\ lvl po <= after R p e
  end.

Definition Sexpr (R : rules) (e : expr) : Prop := forall m p,
  wf e = true -> shape_ok R e = true -> posinv R m p e -> ok R m p e = true.
Definition Sitem (R : rules) (e : expr) : Prop :=
  item_wf e = true -> shape_ok R e = true -> item_ok R e = true.

Lemma wf_acc n ix sub :
  wf (Acc n ix sub) = forallb item_wf ix && negb (nonempty ix && is_intrinsic n) &&
                      match sub with None => true | Some s => is_acc s && wf s end.
Proof. reflexivity. Qed.
Lemma wf_call f args : wf (Call f args) = is_intrinsic f && nonempty args && forallb item_wf args.
Proof. reflexivity. Qed.

Lemma items_ok R xs : Forall (fun x => Sexpr R x /\ Sitem R x) xs ->
  forallb item_wf xs = true -> forallb (shape_ok R) xs = true -> forallb (item_ok R) xs = true.
Proof.
  induction 1 as [|x r [_ Hx] _ IH]; intros Hw Hs; [reflexivity|].
  cbn [forallb] in *. apply andb_true_iff in Hw as [Hw1 Hw2]. apply andb_true_iff in Hs as [Hs1 Hs2].
  rewrite (Hx Hw1 Hs1), (IH Hw2 Hs2). reflexivity.
Qed.

Lemma plain_item R e : Sexpr R e -> (item_wf e = wf e) -> (item_ok R e = ok R 0 PTop e) -> Sitem R e.
Proof. intros H E1 E2 Hw Hs. rewrite E1 in Hw. rewrite E2. apply H; [exact Hw | exact Hs | reflexivity]. Qed.

Theorem shape_ok_ok R : forall e, Sexpr R e /\ Sitem R e.
Proof.
  induction e as [l|n ix sub Hix Hsub|fn args Hargs|n e IHe|lo hi st IHlo IHhi IHst|u e IHe|o l r IHl IHr]
    using expr_ind2.
  - assert (H : Sexpr R (Lit l)) by (intros m p Hw _ _; exact Hw).
    split; [exact H | apply plain_item; [exact H | reflexivity | reflexivity]].
  - assert (H : Sexpr R (Acc n ix sub)).
    { intros m p Hw Hs _. rewrite wf_acc in Hw. rewrite ok_acc. cbn [shape_ok] in Hs.
      apply andb_true_iff in Hw as [Hw Hwsub]. apply andb_true_iff in Hw as [Hwix Hintr].
      apply andb_true_iff in Hs as [Hsix Hssub].
      rewrite (items_ok R ix Hix Hwix Hsix), Hintr. cbn [andb].
      destruct sub as [s|]; [|reflexivity]. apply andb_true_iff in Hwsub as [Ha Hws].
      rewrite Ha. cbn [andb]. destruct Hsub as [Hsub _]. apply Hsub; [exact Hws | exact Hssub | reflexivity]. }
    split; [exact H | apply plain_item; [exact H | reflexivity | reflexivity]].
  - assert (H : Sexpr R (Call fn args)).
    { intros m p Hw Hs _. rewrite wf_call in Hw. rewrite ok_call. cbn [shape_ok] in Hs.
      apply andb_true_iff in Hw as [Hw Hwargs]. rewrite Hw. cbn [andb].
      apply (items_ok R args Hargs Hwargs Hs). }
    split; [exact H | apply plain_item; [exact H | reflexivity | reflexivity]].
  - split; [intros m p Hw; discriminate Hw|].
    intros Hw Hs. cbn [item_wf item_ok shape_ok] in *. destruct IHe as [He _]. apply He; [exact Hw|exact Hs|reflexivity].
  - split; [intros m p Hw; discriminate Hw|].
    intros Hw Hs. cbn [item_wf item_ok shape_ok] in *.
    apply andb_true_iff in Hw as [Hw Hstep]. apply andb_true_iff in Hw as [Hw Hwst].
    apply andb_true_iff in Hw as [Hwlo Hwhi].
    apply andb_true_iff in Hs as [Hs Hsst]. apply andb_true_iff in Hs as [Hslo Hshi].
    destruct IHlo as [Hlo _], IHhi as [Hhi _], IHst as [Hst _].
    rewrite (Hlo 0 PTop Hwlo Hslo eq_refl), (Hhi 0 PTop Hwhi Hshi eq_refl), (Hst 0 PTop Hwst Hsst eq_refl).
    exact Hstep.
  - (* Un *)
    assert (H : Sexpr R (Un u e)).
    { intros m p Hw Hs Hp. cbn [wf shape_ok] in Hw, Hs. cbn [ok]. destruct IHe as [He _].
      rewrite (He (pre_rbp u) (PUn u) Hw Hs eq_refl), andb_true_r. apply Nat.leb_le.
      destruct (un_paren R u p) eqn:Epar; [lia|].
      destruct p as [|u'|po sib g|po]; cbn [posinv] in Hp.
      - lia.
      - rewrite un_paren_lvl in Epar. discriminate.
      - destruct Hp as [H1 [_ H3]]. cbn [after] in H3. rewrite Epar in H3. lia.
      - rewrite un_paren_lvl in Epar. discriminate. }
    split; [exact H | apply plain_item; [exact H | reflexivity | reflexivity]].
  - (* Bin *)
    assert (H : Sexpr R (Bin o l r)).
    { intros m p Hw Hs Hp. cbn [wf] in Hw. apply andb_true_iff in Hw as [Hwl Hwr].
      cbn [shape_ok] in Hs. apply andb_true_iff in Hs as [Hs Hsh]. apply andb_true_iff in Hs as [Hsl Hsr].
      destruct IHl as [Hl _], IHr as [Hr _].
      cbn [ok].
      set (m' := if bin_paren R o p (Bin o l r) then 0 else m).
      (* C1 *)
      assert (C1 : m' <= lvl o).
      { subst m'. destruct (bin_paren R o p (Bin o l r)) eqn:Epar; [lia|].
        rewrite bin_paren_lvl in Epar.
        destruct p as [|u'|po sib g|po]; cbn [posinv] in Hp.
        - lia.
        - apply Nat.leb_gt in Epar. rewrite Hp, pre_rbp_spec. lia.
        - apply orb_false_iff in Epar as [E1 _]. apply Nat.ltb_ge in E1. lia.
        - apply Nat.leb_gt in Epar. rewrite Hp, rbp_spec. destruct (Nat.eqb_spec (lvl po) 8); lia. }
      (* C3 *)
      assert (C3 : lvl o < theta R (PBinL o r (gleft R p o)) l /\ lvl o <= after R (PBinL o r (gleft R p o)) l).
      { pose proof (lvl_le8 o) as L8.
        destruct l as [| | | | |u x|ol l1 l2]; cbn [theta after]; try lia.
        - (* unary left operand *)
          destruct (un_paren R u (PBinL o r (gleft R p o))) eqn:Epar; [lia|].
          rewrite un_paren_lvl in Epar. apply orb_false_iff in Epar as [Epar _].
          apply orb_false_iff in Epar as [Ep1 Ep2]. rewrite pow_neg_lvl in Hsh.
          rewrite Ep1, orb_false_r in Hsh. rewrite pre_rbp_spec.
          destruct (lvl o <=? pre_max u) eqn:Ele.
          + apply Nat.leb_le in Ele. lia.
          + cbn [orb] in Hsh. rewrite Hsh in Ep2. cbn [andb] in Ep2.
            apply Nat.ltb_ge in Ep2. apply Nat.leb_gt in Ele. lia.
        - (* binary left operand *)
          destruct (bin_paren R ol (PBinL o r (gleft R p o)) (Bin ol l1 l2)) eqn:Epar; [lia|].
          rewrite bin_paren_lvl in Epar. apply orb_false_iff in Epar as [E1 E2].
          apply Nat.ltb_ge in E1. rewrite rbp_spec, mx_after_spec.
          apply negb_true_iff in Hsh. unfold rel_level in Hsh.
          destruct (Nat.eqb_spec (lvl ol) (lvl o)) as [Eeq|Ene].
          + cbn [andb] in E2, Hsh. rewrite Eeq in *.
            apply orb_false_iff in E2 as [E2 E4]. apply orb_false_iff in E2 as [_ E3].
            apply orb_false_iff in Hsh as [S1 S2].
            destruct (Nat.eqb_spec (lvl o) 8) as [E8|N8].
            * exfalso. cbn [andb] in S1. apply negb_false_iff in S1. rewrite S1 in E3. discriminate.
            * destruct (Nat.eqb_spec (lvl o) 4) as [E44|N4].
              -- exfalso. cbn [andb] in S2. apply negb_false_iff in S2. rewrite S2 in E4. discriminate.
              -- lia.
          + destruct (Nat.eqb_spec (lvl ol) 8); destruct (Nat.eqb_spec (lvl ol) 4); lia. }
      destruct C3 as [C3a C3b].
      assert (Hokl : ok R m' (PBinL o r (gleft R p o)) l = true).
      { apply Hl; [exact Hwl | exact Hsl |]. cbn [posinv]. auto. }
      rewrite Hokl, (Hr (rbp o) (PBinR o) Hwr Hsr eq_refl).
      apply Nat.leb_le in C1, C3b. apply Nat.ltb_lt in C3a. rewrite C1, C3a, C3b. reflexivity. }
    split; [exact H | apply plain_item; [exact H | reflexivity | reflexivity]].
Qed.

Theorem wf_shape_safe R e : wf e = true -> shape_ok R e = true -> safe R e = true.
Proof. intros Hw Hs. destruct (shape_ok_ok R e) as [H _]. apply H; [exact Hw | exact Hs | reflexivity]. Qed.

(* with the three left-operand decisions repaired no shape is excluded *)
Definition complete (R : rules) : bool := r_pow_left R && r_rel_left R && r_un_left R.
Lemma shape_ok_complete R : complete R = true -> forall e, shape_ok R e = true.
Proof.
  intros HR. unfold complete in HR. apply andb_true_iff in HR as [HR Hu]. apply andb_true_iff in HR as [Hp Hr].
  induction e as [l|n ix sub Hix Hsub|fn args Hargs|n e IHe|lo hi st IHlo IHhi IHst|u e IHe|o l r IHl IHr]
    using expr_ind2; cbn [shape_ok].
  - reflexivity.
  - apply andb_true_iff. split.
    + apply forallb_forall. rewrite Forall_forall in Hix. exact Hix.
    + destruct sub; [exact Hsub | reflexivity].
  - apply forallb_forall. rewrite Forall_forall in Hargs. exact Hargs.
  - exact IHe.
  - rewrite IHlo, IHhi, IHst. reflexivity.
  - exact IHe.
  - rewrite IHl, IHr. cbn [andb]. destruct l; try reflexivity.
    + rewrite Hu, orb_true_r. reflexivity.
    + rewrite Hp, Hr. cbn [negb]. rewrite !andb_false_r. reflexivity.
Qed.

Theorem parse_write_shape R e : wf e = true -> shape_ok R e = true -> parse (write R e) = Some e.
Proof. intros Hw Hs. apply parse_write_safe, wf_shape_safe; assumption. Qed.

Theorem parse_write_complete R e : complete R = true -> wf e = true -> parse (write R e) = Some e.
Proof. intros HR Hw. apply parse_write_shape; [exact Hw | apply shape_ok_complete, HR]. Qed.

Theorem parse_write_fixed e : wf e = true -> parse (write rules_fixed e) = Some e.
Proof. apply parse_write_complete. reflexivity. Qed.

(* ------------------------------------------------------------------ witnesses *)
Open Scope string_scope.
Definition v (s : string) : expr := Acc s [] None.
Definition w_pow := Bin Pow (Bin Pow (v "a") (v "b")) (v "c").           (* (a**b)**c *)
Definition w_neg_mul := Bin Mul (Un Neg (v "a")) (v "b").                 (* (-a)*b *)
Definition w_not_rel := Bin Eqv (Bin Eq (Un Not (v "a")) (v "b")) (v "c").  (* ((.NOT.a)==b).EQV.c *)
Definition w_rel_chain := Bin Eq (Bin Lt (v "a") (v "b")) (v "c").        (* (a<b)==c *)
Definition w_sign_deep := Bin Add (v "a") (Bin Mul (Bin Mul (Un Neg (v "b")) (v "c")) (v "d")).
Definition w_plus_mul := Bin Sub (v "a") (Bin Mul (Un Pos (v "b")) (v "c")).  (* a - (+b)*c *)
Definition w_lit_double := Lit (mkLit KReal "1.0" PDouble).
Definition w_lit_signed := Bin Mul (v "a") (Lit (mkLit KReal "-1.0" PUndef)).
Definition w_lit_real_int := Lit (mkLit KReal "3" PUndef).
Definition w_step_kind := Acc "v" [Rng (v "i") (v "n") (Lit (mkLit KInt "1" (PKind 8)))] None.

(* a non-trivial tree satisfying every hypothesis of the partial theorem under the unchanged rules *)
Definition w_good :=
  Bin Or (Bin Lt (Bin Add (Un Neg (v "a")) (Bin Mul (v "b") (Bin Pow (v "c") (Bin Pow (v "d") (Un Neg (v "x"))))))
                 (Call "MAX" [v "a"; Bin Sub (v "b") (Bin Sub (v "c") (v "d")); Named "dim" (Lit (mkLit KInt "1" PUndef))]))
         (Un Not (Bin And (Acc "f" [] (Some (Acc "vals" [Rng (v "i") (Bin Add (v "n") (Lit (mkLit KInt "1" (PKind 8)))) (Lit (mkLit KInt "2" PUndef));
                                                           Lit (mkLit KReal "1.5e3" PDouble)] None)))
                          (Bin Eqv (Lit (mkLit KBool "true" PUndef)) (Bin Ne (Lit (mkLit KChar "it's" (PSym "ck"))) (v "y"))))).
