(* C02 — syntax shared by the generated tables (Gen.v), the model and the proofs.
   PSyIR expression trees (language level), the written form of literals and Fortran tokens. *)
From Coq Require Import List NArith Bool String Ascii.
Import ListNotations.

(* UnaryOperation.Operator / BinaryOperation.Operator (REM has no Fortran operator: the writer
   raises VisitorError for it, it is outside the domain) *)
Inductive unop := Neg | Pos | Not.
Inductive binop := Add | Sub | Mul | Div | Pow | Eq | Ne | Lt | Le | Gt | Ge | And | Or | Eqv | Neqv.

(* Literal: ScalarType.Intrinsic, value string, precision *)
Inductive lkind := KInt | KReal | KBool | KChar.
Inductive lprec := PUndef | PSingle | PDouble | PKind (n : N) | PSym (s : string).
Record lit := mkLit { lk : lkind; lv : string; lp : lprec }.

(* Expression trees.
   Acc n ix sub : Reference (ix=[], sub=None), ArrayReference (ix<>[]), StructureReference /
                  ArrayOfStructuresReference / (Array|Structure|ArrayOfStructures)Member chain:
                  n(ix)%sub, where sub is again an Acc.
   Call f args  : IntrinsicCall; an argument may be Named.
   Named, Rng   : only as direct elements of an argument / index list. *)
Inductive expr :=
| Lit (l : lit)
| Acc (n : string) (ix : list expr) (sub : option expr)
| Call (f : string) (args : list expr)
| Named (n : string) (e : expr)
| Rng (lo hi st : expr)
| Un (o : unop) (e : expr)
| Bin (o : binop) (l r : expr).

(* the text of a literal as the lexer sees it: lexical class, body, quote choice, kind *)
Inductive lcls := CInt | CReal | CBool | CChar.
Inductive ksuf := KNone | KNum (n : N) | KName (s : string).
Record litform := mkForm { fc : lcls; fbody : string; fdq : bool; fk : ksuf }.

Inductive optok := OPlus | OMinus | OStar | OSlash | OPow | OEq | ONe | OLt | OLe | OGt | OGe
                 | ONot | OAnd | OOr | OEqv | ONeqv.
Inductive token :=
| TLit (w : litform) | TName (s : string) | TOp (o : optok)
| TLP | TRP | TComma | TColon | TPct | TAssign | TBad.

(* the parenthesisation decisions in which the unchanged writer and the repaired writers differ
   (all false = fortran.py as it is in the snapshot) *)
Record rules := mkRules {
  r_pow_left : bool;   (* a '**' left operand of '**' is bracketed *)
  r_rel_left : bool;   (* a relational left operand of a relational operator is bracketed *)
  r_un_left  : bool;   (* a unary left operand of a higher-precedence binary operator is bracketed *)
  r_deep     : bool;   (* the "sign would follow a binary operator" rule looks up the whole
                          unbracketed left spine instead of one level *)
  r_plus     : bool    (* ... and applies to unary '+' as well as to unary '-' *)
}.
Definition rules_orig := mkRules false false false false false.
(* props/C02/fix.patch: everything except r_un_left, which PSyclone's own test
   test_fw_mixed_operator_precedence forbids ('(-a) * (-b + c)' must be written '-a * (-b + c)') *)
Definition rules_patch := mkRules true true false true true.
(* the complete repair *)
Definition rules_fixed := mkRules true true true true true.

(* ---- decidable equalities (structural; PSyIR Node.__eq__ is structural) ---- *)
Definition unop_eqb (a b : unop) : bool :=
  match a, b with Neg, Neg | Pos, Pos | Not, Not => true | _, _ => false end.
Definition binop_eqb (a b : binop) : bool :=
  match a, b with
  | Add, Add | Sub, Sub | Mul, Mul | Div, Div | Pow, Pow | Eq, Eq | Ne, Ne | Lt, Lt | Le, Le
  | Gt, Gt | Ge, Ge | And, And | Or, Or | Eqv, Eqv | Neqv, Neqv => true
  | _, _ => false end.
Definition lkind_eqb (a b : lkind) : bool :=
  match a, b with KInt, KInt | KReal, KReal | KBool, KBool | KChar, KChar => true | _, _ => false end.
Definition lprec_eqb (a b : lprec) : bool :=
  match a, b with
  | PUndef, PUndef | PSingle, PSingle | PDouble, PDouble => true
  | PKind n, PKind m => N.eqb n m
  | PSym s, PSym t => String.eqb s t
  | _, _ => false end.
Definition lit_eqb (a b : lit) : bool :=
  lkind_eqb (lk a) (lk b) && String.eqb (lv a) (lv b) && lprec_eqb (lp a) (lp b).

Fixpoint expr_eqb (a b : expr) {struct a} : bool :=
  let fix list_eqb (x y : list expr) {struct x} : bool :=
    match x, y with
    | [], [] => true
    | u :: x', v :: y' => expr_eqb u v && list_eqb x' y'
    | _, _ => false
    end in
  match a, b with
  | Lit l, Lit m => lit_eqb l m
  | Acc n ix s, Acc n' ix' s' =>
      String.eqb n n' && list_eqb ix ix' &&
      match s, s' with
      | None, None => true
      | Some u, Some v => expr_eqb u v
      | _, _ => false
      end
  | Call f x, Call g y => String.eqb f g && list_eqb x y
  | Named n e, Named n' e' => String.eqb n n' && expr_eqb e e'
  | Rng l h s, Rng l' h' s' => expr_eqb l l' && expr_eqb h h' && expr_eqb s s'
  | Un o e, Un o' e' => unop_eqb o o' && expr_eqb e e'
  | Bin o l r, Bin o' l' r' => binop_eqb o o' && expr_eqb l l' && expr_eqb r r'
  | _, _ => false
  end.

Definition oexpr_eqb (a b : option expr) : bool :=
  match a, b with
  | Some x, Some y => expr_eqb x y
  | None, None => true
  | _, _ => false
  end.
