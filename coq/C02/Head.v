(* C02 — the writer as it is on /repo HEAD (rules_patch = commits e6f4996 + e4d8bb1):
   a position-aware, computable predicate `nobad` that names the remaining failure classes
   exactly; `nobad -> round trip` for all well-formed trees of any size (induction), and
   `round trip <-> nobad` on a finite domain swept by vm_compute.  Plus the obligation that the
   generated precedence table is an order embedding into the Fortran 2008 levels. *)
From Coq Require Import List NArith Bool String Ascii Arith Lia.
Import ListNotations.
From PV Require Import C02.Syntax C02.Gen C02.Model C02.Facts C02.ParseProof C02.Shape.

Open Scope nat_scope.
(* ------------------------------------------------------------------ precedence table *)
(* precedence() as generated from fortran.py orders the operators exactly as the grammar levels
   of Model.v (R1002-R1022) do: same strict order, same ties.  A swapped / merged / split row
   changes one of these comparisons and breaks the proof. *)
Lemma prec_order_bin : forall a b, Nat.compare (prec_bin a) (prec_bin b) = Nat.compare (lvl a) (lvl b).
Proof. intros a b; destruct a, b; reflexivity. Qed.
Lemma prec_order_un_bin : forall u o, Nat.compare (prec_un u) (prec_bin o) = Nat.compare (pre_max u) (lvl o).
Proof. intros u o; destruct u, o; reflexivity. Qed.
Lemma prec_order_un : forall u w, Nat.compare (prec_un u) (prec_un w) = Nat.compare (pre_max u) (pre_max w).
Proof. intros u w; destruct u, w; reflexivity. Qed.
(* non-vacuity: the order is strict across the eight levels and ties inside a level *)
Example prec_order_example :
  prec_bin Eqv < prec_bin Or /\ prec_bin Or < prec_bin And /\ prec_bin And < prec_un Not /\
  prec_un Not < prec_bin Eq /\ prec_bin Ge < prec_bin Sub /\ prec_bin Add < prec_bin Div /\
  prec_bin Mul < prec_bin Pow /\ prec_bin Eqv = prec_bin Neqv /\ prec_bin Lt = prec_bin Ne /\
  prec_un Neg = prec_bin Add /\ prec_bin Mul = prec_bin Div.
Proof. vm_compute. repeat split; repeat constructor. Qed.

(* ------------------------------------------------------------------ the remaining bad shapes *)
(* nobad R p e: no sub-tree of e, written at the position it really has, is
   (a) a unary operator that is the UNBRACKETED left operand of a binary operator binding tighter
       than it (sign left of * / ** : the shape PSyclone's test pins; .NOT. left of a relational
       or arithmetic operator), or
   (b) an unbracketed equal-level left operand of ** or of a relational operator (not possible
       once r_pow_left / r_rel_left hold, kept so that the predicate is exact for every rule set). *)
Fixpoint nobad (R : rules) (p : pos) (e : expr) {struct e} : bool :=
  match e with
  | Lit _ => true
  | Acc _ ix sub =>
      forallb (nobad R PTop) ix && match sub with None => true | Some s => nobad R PTop s end
  | Call _ args => forallb (nobad R PTop) args
  | Named _ x => nobad R PTop x
  | Rng lo hi st => nobad R PTop lo && nobad R PTop hi && nobad R PTop st
  | Un u x => nobad R (PUn u) x
  | Bin o l r =>
      let g := gleft R p o in
      nobad R (PBinL o r g) l && nobad R (PBinR o) r &&
      match l with
      | Un u _ => un_paren R u (PBinL o r g) || (lvl o <=? pre_max u)
      | Bin ol _ _ =>
          negb ((lvl ol =? lvl o) && (((lvl o =? 8) && negb (r_pow_left R)) ||
                                      (rel_level o && negb (r_rel_left R))))
      | _ => true
      end
  end.
Definition no_bad_shape (R : rules) (e : expr) : bool := nobad R PTop e.
Definition R_head : rules := rules_patch.
Definition no_bad_shape_head (e : expr) : bool := no_bad_shape R_head e.

Definition Hexpr (R : rules) (e : expr) : Prop := forall m p,
  wf e = true -> nobad R p e = true -> posinv R m p e -> ok R m p e = true.
Definition Hitem (R : rules) (e : expr) : Prop :=
  item_wf e = true -> nobad R PTop e = true -> item_ok R e = true.

Lemma hitems_ok R xs : Forall (fun x => Hexpr R x /\ Hitem R x) xs ->
  forallb item_wf xs = true -> forallb (nobad R PTop) xs = true -> forallb (item_ok R) xs = true.
Proof.
  induction 1 as [|x r [_ Hx] _ IH]; intros Hw Hs; [reflexivity|].
  cbn [forallb] in *. apply andb_true_iff in Hw as [Hw1 Hw2]. apply andb_true_iff in Hs as [Hs1 Hs2].
  rewrite (Hx Hw1 Hs1), (IH Hw2 Hs2). reflexivity.
Qed.
Lemma hplain R e : Hexpr R e -> (item_wf e = wf e) -> (item_ok R e = ok R 0 PTop e) -> Hitem R e.
Proof. intros H E1 E2 Hw Hs. rewrite E1 in Hw. rewrite E2. apply H; [exact Hw | exact Hs | reflexivity]. Qed.

Theorem nobad_ok R : forall e, Hexpr R e /\ Hitem R e.
Proof.
  induction e as [l|n ix sub Hix Hsub|fn args Hargs|n e IHe|lo hi st IHlo IHhi IHst|u e IHe|o l r IHl IHr]
    using expr_ind2.
  - assert (H : Hexpr R (Lit l)) by (intros m p Hw _ _; exact Hw).
    split; [exact H | apply hplain; [exact H | reflexivity | reflexivity]].
  - assert (H : Hexpr R (Acc n ix sub)).
    { intros m p Hw Hs _. rewrite wf_acc in Hw. rewrite ok_acc. cbn [nobad] in Hs.
      apply andb_true_iff in Hw as [Hw Hwsub]. apply andb_true_iff in Hw as [Hwix Hintr].
      apply andb_true_iff in Hs as [Hsix Hssub].
      rewrite (hitems_ok R ix Hix Hwix Hsix), Hintr. cbn [andb].
      destruct sub as [s|]; [|reflexivity]. apply andb_true_iff in Hwsub as [Ha Hws].
      rewrite Ha. cbn [andb]. destruct Hsub as [Hsub _]. apply Hsub; [exact Hws | exact Hssub | reflexivity]. }
    split; [exact H | apply hplain; [exact H | reflexivity | reflexivity]].
  - assert (H : Hexpr R (Call fn args)).
    { intros m p Hw Hs _. rewrite wf_call in Hw. rewrite ok_call. cbn [nobad] in Hs.
      apply andb_true_iff in Hw as [Hw Hwargs]. rewrite Hw. cbn [andb].
      apply (hitems_ok R args Hargs Hwargs Hs). }
    split; [exact H | apply hplain; [exact H | reflexivity | reflexivity]].
  - split; [intros m p Hw; discriminate Hw|].
    intros Hw Hs. cbn [item_wf item_ok nobad] in *. destruct IHe as [He _]. apply He; [exact Hw|exact Hs|reflexivity].
  - split; [intros m p Hw; discriminate Hw|].
    intros Hw Hs. cbn [item_wf item_ok nobad] in *.
    apply andb_true_iff in Hw as [Hw Hstep]. apply andb_true_iff in Hw as [Hw Hwst].
    apply andb_true_iff in Hw as [Hwlo Hwhi].
    apply andb_true_iff in Hs as [Hs Hsst]. apply andb_true_iff in Hs as [Hslo Hshi].
    destruct IHlo as [Hlo _], IHhi as [Hhi _], IHst as [Hst _].
    rewrite (Hlo 0 PTop Hwlo Hslo eq_refl), (Hhi 0 PTop Hwhi Hshi eq_refl), (Hst 0 PTop Hwst Hsst eq_refl).
    exact Hstep.
  - (* Un *)
    assert (H : Hexpr R (Un u e)).
    { intros m p Hw Hs Hp. cbn [wf nobad] in Hw, Hs. cbn [ok]. destruct IHe as [He _].
      rewrite (He (pre_rbp u) (PUn u) Hw Hs eq_refl), andb_true_r. apply Nat.leb_le.
      destruct (un_paren R u p) eqn:Epar; [lia|].
      destruct p as [|u'|po sib g|po]; cbn [posinv] in Hp.
      - lia.
      - rewrite un_paren_lvl in Epar. discriminate.
      - destruct Hp as [H1 [_ H3]]. cbn [after] in H3. rewrite Epar in H3. lia.
      - rewrite un_paren_lvl in Epar. discriminate. }
    split; [exact H | apply hplain; [exact H | reflexivity | reflexivity]].
  - (* Bin *)
    assert (H : Hexpr R (Bin o l r)).
    { intros m p Hw Hs Hp. cbn [wf] in Hw. apply andb_true_iff in Hw as [Hwl Hwr].
      cbn [nobad] in Hs. apply andb_true_iff in Hs as [Hs Hsh]. apply andb_true_iff in Hs as [Hsl Hsr].
      destruct IHl as [Hl _], IHr as [Hr _].
      cbn [ok].
      set (m' := if bin_paren R o p (Bin o l r) then 0 else m).
      assert (C1 : m' <= lvl o).
      { subst m'. destruct (bin_paren R o p (Bin o l r)) eqn:Epar; [lia|].
        rewrite bin_paren_lvl in Epar.
        destruct p as [|u'|po sib g|po]; cbn [posinv] in Hp.
        - lia.
        - apply Nat.leb_gt in Epar. rewrite Hp, pre_rbp_spec. lia.
        - apply orb_false_iff in Epar as [E1 _]. apply Nat.ltb_ge in E1. lia.
        - apply Nat.leb_gt in Epar. rewrite Hp, rbp_spec. destruct (Nat.eqb_spec (lvl po) 8); lia. }
      assert (C3 : lvl o < theta R (PBinL o r (gleft R p o)) l /\ lvl o <= after R (PBinL o r (gleft R p o)) l).
      { pose proof (lvl_le8 o) as L8.
        destruct l as [| | | | |u x|ol l1 l2]; cbn [theta after]; try lia.
        - destruct (un_paren R u (PBinL o r (gleft R p o))) eqn:Epar; [lia|].
          cbn [orb] in Hsh. apply Nat.leb_le in Hsh. rewrite pre_rbp_spec. lia.
        - destruct (bin_paren R ol (PBinL o r (gleft R p o)) (Bin ol l1 l2)) eqn:Epar; [lia|].
          rewrite bin_paren_lvl in Epar. apply orb_false_iff in Epar as [E1 E2].
          apply Nat.ltb_ge in E1. rewrite rbp_spec, mx_after_spec.
          apply negb_true_iff in Hsh. unfold rel_level in Hsh.
          destruct (Nat.eqb_spec (lvl ol) (lvl o)) as [Eeq|Ene].
          + cbn [andb] in E2, Hsh. rewrite Eeq in *.
            apply orb_false_iff in E2 as [E2 E4]. apply orb_false_iff in E2 as [_ E3].
            apply orb_false_iff in Hsh as [S1 S2].
            destruct (Nat.eqb_spec (lvl o) 8) as [E8|N8].
            * exfalso. cbn [andb] in S1. apply negb_false_iff in S1. rewrite S1 in E3. discriminate.
            * destruct (Nat.eqb_spec (lvl o) 4) as [E44|N4].
              -- exfalso. cbn [andb] in S2. apply negb_false_iff in S2. rewrite S2 in E4. discriminate.
              -- lia.
          + destruct (Nat.eqb_spec (lvl ol) 8); destruct (Nat.eqb_spec (lvl ol) 4); lia. }
      destruct C3 as [C3a C3b].
      assert (Hokl : ok R m' (PBinL o r (gleft R p o)) l = true).
      { apply Hl; [exact Hwl | exact Hsl |]. cbn [posinv]. auto. }
      rewrite Hokl, (Hr (rbp o) (PBinR o) Hwr Hsr eq_refl).
      apply Nat.leb_le in C1, C3b. apply Nat.ltb_lt in C3a. rewrite C1, C3a, C3b. reflexivity. }
    split; [exact H | apply hplain; [exact H | reflexivity | reflexivity]].
Qed.

(* <- direction of the characterisation, every rule set, trees of any size *)
Theorem no_bad_shape_roundtrip R e :
  wf e = true -> no_bad_shape R e = true -> parse (write R e) = Some e.
Proof.
  intros Hw Hs. apply parse_write_safe. destruct (nobad_ok R e) as [H _].
  apply H; [exact Hw | exact Hs | reflexivity].
Qed.

(* ------------------------------------------------------------------ both directions, finite domain *)
Open Scope string_scope.
Definition unops : list unop := [Neg; Pos; Not].
Definition binops : list binop := [Add; Sub; Mul; Div; Pow; Eq; Ne; Lt; Le; Gt; Ge; And; Or; Eqv; Neqv].
Definition level1 (x y : string) : list expr :=
  v x :: map (fun u => Un u (v x)) unops ++ map (fun o => Bin o (v x) (v y)) binops.
(* every tree with at most two operator levels over all 18 operators (5472 trees) *)
Definition small_trees : list expr :=
  flat_map (fun u => map (Un u) (level1 "a" "b")) unops ++
  flat_map (fun o => flat_map (fun x => map (Bin o x) (level1 "c" "d")) (level1 "a" "b")) binops.
(* every operator chain of length 3: at each level a unary operator, or a binary operator whose
   other operand is a name (33^3 = 35937 trees, three operator levels) *)
Definition steps (n : string) : list (expr -> expr) :=
  map Un unops ++ map (fun o x => Bin o x (v n)) binops ++ map (fun o x => Bin o (v n) x) binops.
Definition chains3 : list expr :=
  flat_map (fun f1 => flat_map (fun f2 => map (fun f3 => f1 (f2 (f3 (v "a")))) (steps "d")) (steps "c")) (steps "b").

Definition exact_on (R : rules) (e : expr) : bool :=
  wf e && expr_eqb e e && Bool.eqb (model_rt R e) (no_bad_shape R e).
Lemma sweep_small : forallb (exact_on R_head) small_trees = true.
Proof. vm_compute. reflexivity. Qed.
Lemma sweep_chains : forallb (exact_on R_head) chains3 = true.
Proof. vm_compute. reflexivity. Qed.
Lemma sweep_sizes :
  N.of_nat (List.length small_trees) = 5472%N /\ N.of_nat (List.length chains3) = 35937%N.
Proof. split; vm_compute; reflexivity. Qed.

Lemma exact_iff R e : exact_on R e = true ->
  (parse (write R e) = Some e <-> no_bad_shape R e = true).
Proof.
  unfold exact_on, model_rt. intros H. apply andb_true_iff in H as [H Hex].
  apply andb_true_iff in H as [Hw Hrefl]. apply eqb_prop in Hex. split.
  - intros Hp. rewrite Hp, Hrefl in Hex. symmetry. exact Hex.
  - intros Hn. apply no_bad_shape_roundtrip; assumption.
Qed.

(* the exact characterisation on the swept domain (bound: the 5472 + 35937 trees above) *)
Theorem head_roundtrip_iff_bounded e : In e (small_trees ++ chains3) ->
  (parse (write R_head e) = Some e <-> no_bad_shape_head e = true).
Proof.
  intros Hin. apply exact_iff. apply in_app_or in Hin as [Hin|Hin].
  - exact (proj1 (forallb_forall _ _) sweep_small e Hin).
  - exact (proj1 (forallb_forall _ _) sweep_chains e Hin).
Qed.

(* -> direction, one witness per remaining class (the classes are not empty on HEAD) *)
Lemma head_bad_classes :
  no_bad_shape_head w_neg_mul = false /\ parse (write R_head w_neg_mul) <> Some w_neg_mul /\
  no_bad_shape_head (Bin Pow (Un Pos (v "a")) (v "b")) = false /\
  no_bad_shape_head w_not_rel = false /\ parse (write R_head w_not_rel) <> Some w_not_rel /\
  (* ... and the shapes repaired on HEAD are good *)
  no_bad_shape_head w_pow = true /\ no_bad_shape_head w_rel_chain = true /\
  no_bad_shape_head w_sign_deep = true /\ no_bad_shape_head w_plus_mul = true /\
  no_bad_shape_head (Un Neg (Bin Mul (Un Neg (v "a")) (v "b"))) = true /\
  no_bad_shape_head w_good = true.
Proof. repeat split; try (vm_compute; reflexivity); vm_compute; discriminate. Qed.
