(* C02 — facts about the generated tables, the token view of the writer, literals. *)
From Coq Require Import List NArith Bool String Ascii Arith Lia.
Import ListNotations.
From PV Require Import C02.Syntax C02.Gen C02.Model.

(* ------------------------------------------------------------------ generated tables
   Every use the writer makes of precedence() is a comparison; each comparison agrees with the
   Fortran 2008 level of the operators.  Proved by computation over all operator pairs, i.e.
   re-checked against whatever translate.py read from fortran.py. *)
Lemma prec_bb_lt a b : (prec_bin a <? prec_bin b) = (lvl a <? lvl b).
Proof. destruct a, b; reflexivity. Qed.
Lemma prec_bb_le a b : (prec_bin a <=? prec_bin b) = (lvl a <=? lvl b).
Proof. destruct a, b; reflexivity. Qed.
Lemma prec_bb_eq a b : (prec_bin a =? prec_bin b) = (lvl a =? lvl b).
Proof. destruct a, b; reflexivity. Qed.
Lemma prec_bu_le o u : (prec_bin o <=? prec_un u) = (lvl o <=? pre_max u).
Proof. destruct o, u; reflexivity. Qed.
Lemma prec_ub_lt u o : (prec_un u <? prec_bin o) = (pre_max u <? lvl o).
Proof. destruct o, u; reflexivity. Qed.
Lemma prec_pow o : (prec_bin o =? prec_bin Pow) = (lvl o =? 8).
Proof. destruct o; reflexivity. Qed.
Lemma prec_rel o : (prec_bin o =? prec_bin Eq) = (lvl o =? 4).
Proof. destruct o; reflexivity. Qed.
Lemma str_pow o : String.eqb (bin_str o) "**" = (lvl o =? 8).
Proof. destruct o; reflexivity. Qed.
Definition is_neg (u : unop) : bool := match u with Neg => true | _ => false end.
Lemma str_neg u : String.eqb (un_str u) "-" = is_neg u.
Proof. destruct u; reflexivity. Qed.
Definition is_pos (u : unop) : bool := match u with Pos => true | _ => false end.
Lemma str_pos u : String.eqb (un_str u) "+" = is_pos u.
Proof. destruct u; reflexivity. Qed.

(* operator spellings lex to the operator they denote in the standard *)
Definition btok (o : binop) : optok :=
  match o with
  | Add => OPlus | Sub => OMinus | Mul => OStar | Div => OSlash | Pow => OPow
  | Eq => OEq | Ne => ONe | Lt => OLt | Le => OLe | Gt => OGt | Ge => OGe
  | And => OAnd | Or => OOr | Eqv => OEqv | Neqv => ONeqv
  end.
Definition utok (u : unop) : optok := match u with Neg => OMinus | Pos => OPlus | Not => ONot end.
Lemma op_tok_bin o : op_tok (bin_str o) = TOp (btok o).
Proof. destruct o; reflexivity. Qed.
Lemma op_tok_un u : op_tok (un_str u) = TOp (utok u).
Proof. destruct u; reflexivity. Qed.
Lemma bin_of_btok o : bin_of (btok o) = Some o.
Proof. destruct o; reflexivity. Qed.
Lemma prefix_of_utok u : prefix_of (utok u) = Some u.
Proof. destruct u; reflexivity. Qed.

(* arithmetic of the grammar tables *)
Lemma lvl_le8 o : lvl o <= 8.
Proof. destruct o; cbn; lia. Qed.
Lemma rbp_spec o : rbp o = if lvl o =? 8 then 8 else S (lvl o).
Proof. destruct o; reflexivity. Qed.
Lemma mx_after_spec o : mx_after o = if lvl o =? 4 then 3 else lvl o.
Proof. destruct o; reflexivity. Qed.
Lemma pre_rbp_spec u : pre_rbp u = S (pre_max u).
Proof. destruct u; reflexivity. Qed.
Lemma pre_max_le u : pre_max u <= 6.
Proof. destruct u; cbn; lia. Qed.
Lemma pow_neg_lvl o u : match o, u with Pow, Neg => true | _, _ => false end = ((lvl o =? 8) && is_neg u).
Proof. destruct o, u; reflexivity. Qed.

(* ------------------------------------------------------------------ token view of the writer *)
Lemma toks_app a b : toks (a ++ b) = toks a ++ toks b.
Proof. unfold toks. apply flat_map_app. Qed.
Lemma toks_tk t s d : toks (tk t s :: d) = t :: toks d.
Proof. reflexivity. Qed.
Lemma toks_sp d : toks (sp :: d) = toks d.
Proof. reflexivity. Qed.
Lemma toks_nil : toks [] = [].
Proof. reflexivity. Qed.

Definition tparens (b : bool) (l : list token) : list token :=
  if b then TLP :: l ++ [TRP] else l.
Lemma toks_parens b d : toks (parens b d) = tparens b (toks d).
Proof. destruct b; cbn [parens tparens]; [|reflexivity]. rewrite toks_tk, toks_app. reflexivity. Qed.

Lemma toks_sepcat sep f xs :
  toks (sepcat sep f xs) = sepcat (toks sep) (fun x => toks (f x)) xs.
Proof.
  induction xs as [|x r IH]; [reflexivity|].
  cbn [sepcat]. rewrite toks_app. f_equal. destruct r as [|y r']; [reflexivity|].
  rewrite toks_app. f_equal. exact IH.
Qed.

Lemma wr_acc R p n ix sub :
  wr R p (Acc n ix sub) =
  TName n ::
  (match ix with [] => [] | _ => TLP :: sepcat [TComma] (wr R PTop) ix ++ [TRP] end) ++
  (match sub with None => [] | Some s => TPct :: wr R PTop s end).
Proof.
  unfold wr. cbn [wrd]. rewrite toks_tk, toks_app. f_equal. f_equal.
  - destruct ix as [|x r]; [reflexivity|]. rewrite toks_tk, toks_app, toks_sepcat. reflexivity.
  - destruct sub; [rewrite toks_tk|]; reflexivity.
Qed.
Lemma wr_call R p f args :
  wr R p (Call f args) = TName f :: TLP :: sepcat [TComma] (wr R PTop) args ++ [TRP].
Proof. unfold wr. cbn [wrd]. rewrite !toks_tk, toks_app, toks_sepcat. reflexivity. Qed.
Lemma wr_named R p n x : wr R p (Named n x) = TName n :: TAssign :: wr R PTop x.
Proof. reflexivity. Qed.
Lemma wr_rng R p lo hi st :
  wr R p (Rng lo hi st) =
  wr R PTop lo ++ TColon :: wr R PTop hi ++ (if unit_step st then [] else TColon :: wr R PTop st).
Proof.
  unfold wr. cbn [wrd]. rewrite toks_app, toks_tk, toks_app. destruct (unit_step st); reflexivity.
Qed.
Lemma wr_un R p u x :
  wr R p (Un u x) = tparens (un_paren R u p) (TOp (utok u) :: wr R (PUn u) x).
Proof. unfold wr. cbn [wrd]. rewrite toks_parens, toks_tk, op_tok_un. reflexivity. Qed.
Lemma wr_bin R p o l r :
  wr R p (Bin o l r) =
  tparens (bin_paren R o p (Bin o l r))
          (wr R (PBinL o r (gleft R p o)) l ++ TOp (btok o) :: wr R (PBinR o) r).
Proof.
  unfold wr. cbn [wrd]. rewrite toks_parens, toks_app, toks_sp, toks_tk, toks_sp, op_tok_bin.
  reflexivity.
Qed.

(* ------------------------------------------------------------------ literals *)
Lemma contains_replace_first a b s :
  a <> b -> contains b s = false -> contains b (replace_first a b s) = contains a s.
Proof.
  intros Hab. induction s as [|c r IH]; intros H; [reflexivity|].
  cbn [contains replace_first] in *. apply orb_false_iff in H as [H1 H2].
  destruct (Ascii.eqb c a) eqn:E.
  - cbn [contains]. rewrite Ascii.eqb_refl. reflexivity.
  - cbn [contains]. rewrite H1, IH by exact H2. reflexivity.
Qed.
Lemma contains_replace_first_other a b c s :
  c <> a -> c <> b -> contains c (replace_first a b s) = contains c s.
Proof.
  intros Ha Hb. induction s as [|x r IH]; [reflexivity|]. cbn [contains replace_first].
  destruct (Ascii.eqb x a) eqn:E.
  - cbn [contains]. apply Ascii.eqb_eq in E. subst x.
    assert (Ascii.eqb b c = false) by (apply Ascii.eqb_neq; congruence).
    assert (Ascii.eqb a c = false) by (apply Ascii.eqb_neq; congruence).
    rewrite H, H0. reflexivity.
  - cbn [contains]. rewrite IH. reflexivity.
Qed.
Lemma replace_all_first a b s :
  contains b s = false -> replace_all b a (replace_first a b s) = s.
Proof.
  induction s as [|c r IH]; intros H; [reflexivity|].
  cbn [contains] in H. apply orb_false_iff in H as [H1 H2]. cbn [replace_first].
  destruct (Ascii.eqb c a) eqn:E.
  - cbn [replace_all]. rewrite Ascii.eqb_refl. apply Ascii.eqb_eq in E. subst c. f_equal.
    clear IH H1. induction r as [|x r IHr]; [reflexivity|]. cbn [contains] in H2.
    apply orb_false_iff in H2 as [Hx Hr]. cbn [replace_all]. rewrite Hx, IHr by exact Hr. reflexivity.
  - cbn [replace_all]. rewrite H1, IH by exact H2. reflexivity.
Qed.
Lemma replace_all_none a b s : contains a s = false -> replace_all a b s = s.
Proof.
  induction s as [|c r IH]; intros H; [reflexivity|]. cbn [contains] in H.
  apply orb_false_iff in H as [H1 H2]. cbn [replace_all]. rewrite H1, IH by exact H2. reflexivity.
Qed.

Lemma no_sign_first s c r : no_sign s = true -> s = String c r ->
  Ascii.eqb c "-" = false /\ Ascii.eqb c "+" = false.
Proof.
  intros H E. subst s. cbn [no_sign] in H. apply negb_true_iff, orb_false_iff in H. exact H.
Qed.

(* the token(s) of a literal the reader gives back unchanged: one token, read back as the literal *)
Lemma lit_ok_tokens l : lit_ok l = true -> toks (lit_doc l) = [TLit (write_lit l)].
Proof.
  intros H. unfold lit_doc.
  destruct (fc (write_lit l)) eqn:Ec; try reflexivity;
    destruct (fbody (write_lit l)) as [|c r] eqn:Eb; try reflexivity.
  all: assert (Hs : no_sign (fbody (write_lit l)) = true).
  all: try (unfold lit_ok in H; unfold write_lit, cls_of in Ec; cbn [fbody write_lit]; unfold body_of;
            destruct (lk l) eqn:Ek; try discriminate Ec;
            repeat (apply andb_true_iff in H as [H ?]);
            destruct (lp l); try assumption; try discriminate;
            (* DOUBLE real: the first character is not changed by e->d unless it is 'e' *)
            destruct (lv l) as [|c0 r0]; [reflexivity|]; cbn [replace_first no_sign] in *;
            destruct (Ascii.eqb c0 "e") eqn:Ee; [reflexivity | assumption]).
  all: rewrite Eb in Hs; destruct (no_sign_first _ _ _ Hs eq_refl) as [H1 H2]; rewrite H1, H2; reflexivity.
Qed.

Lemma lit_roundtrip l : lit_ok l = true -> read_lit (write_lit l) = l.
Proof.
  destruct l as [k v p]. unfold lit_ok, read_lit, write_lit, cls_of, body_of, real_shape.
  cbn [lk lv lp fc fbody fk fdq]. intros H.
  destruct k.
  - (* integer *)
    apply andb_true_iff in H as [H Hp]. apply andb_true_iff in H as [_ Hr].
    apply negb_true_iff in Hr. unfold real_shape in Hr. rewrite Hr.
    destruct p; try discriminate; reflexivity.
  - (* real *)
    apply andb_true_iff in H as [H Hp]. apply andb_true_iff in H as [H Hde].
    apply andb_true_iff in H as [_ Hd]. apply negb_true_iff in Hd.
    destruct p.
    + (* default: no exponent *)
      apply negb_true_iff in Hp. rewrite Hde, Hd, Hp. cbn [orb ksuf_of].
      rewrite (replace_all_none _ _ _ Hd). reflexivity.
    + (* single: exponent e *)
      rewrite Hde, Hd, Hp. cbn [orb ksuf_of].
      rewrite (replace_all_none _ _ _ Hd). reflexivity.
    + (* double: e written as d *)
      assert (Hc : contains "d" (replace_first "e" "d" v) = true).
      { rewrite contains_replace_first; [exact Hp | discriminate | exact Hd]. }
      rewrite Hc. rewrite !orb_true_r. cbn [ksuf_of].
      rewrite (replace_all_first _ _ _ Hd). reflexivity.
    + rewrite Hde, Hd. cbn [orb ksuf_of]. rewrite (replace_all_none _ _ _ Hd). reflexivity.
    + rewrite Hde, Hd. cbn [orb ksuf_of]. rewrite (replace_all_none _ _ _ Hd). reflexivity.
  - destruct p; try discriminate; reflexivity.
  - destruct p; try discriminate; reflexivity.
Qed.

Lemma wr_lit R p l : lit_ok l = true -> wr R p (Lit l) = [TLit (write_lit l)].
Proof. intros H. unfold wr. cbn [wrd]. apply lit_ok_tokens, H. Qed.
