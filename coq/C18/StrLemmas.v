(* C18 — lemmas about lstrip / fnw / prefixb / rfind / find_break_point of Model.v *)
From Coq Require Import Ascii Arith Bool NArith List Lia.
Import ListNotations.
From PV Require Import C18.Types C18.Gen C18.Model.

(* ---------------------------------------------------------------- lstrip / fnw *)
Lemma lstrip_length : forall s, length (lstrip s) <= length s.
Proof.
  induction s as [|c r IH]; cbn [lstrip]; [lia|].
  destruct (is_ws c); cbn [length]; lia.
Qed.

Lemma lstrip_decomp : forall s, exists w, s = w ++ lstrip s /\ Forall (fun c => is_ws c = true) w /\ length w = fnw s.
Proof.
  induction s as [|c r IH].
  - exists []. cbn. repeat split; constructor.
  - unfold fnw. cbn [lstrip]. destruct (is_ws c) eqn:E.
    + destruct IH as [w [H1 [H2 H3]]]. exists (c :: w). repeat split.
      * cbn. f_equal. exact H1.
      * constructor; assumption.
      * cbn [length]. unfold fnw in H3. pose proof (lstrip_length r). lia.
    + exists []. repeat split; [constructor | cbn [length]; lia].
Qed.

Lemma lstrip_head_nonws : forall s c r, lstrip s = c :: r -> is_ws c = false.
Proof.
  induction s as [|a s IH]; cbn [lstrip]; intros c r H; [discriminate|].
  destruct (is_ws a) eqn:E; [eauto | congruence].
Qed.

Lemma lstrip_ws_app : forall w s, Forall (fun c => is_ws c = true) w -> lstrip (w ++ s) = lstrip s.
Proof.
  induction w as [|c w IH]; intros s H; [reflexivity|].
  inversion H; subst. cbn [app lstrip]. rewrite H2. apply IH; assumption.
Qed.

Lemma lstrip_nonws : forall c r, is_ws c = false -> lstrip (c :: r) = c :: r.
Proof. intros c r H. cbn [lstrip]. rewrite H. reflexivity. Qed.

Lemma lstrip_idem : forall s, lstrip (lstrip s) = lstrip s.
Proof.
  intros s. destruct (lstrip s) as [|c r] eqn:E; [reflexivity|].
  apply lstrip_nonws. eapply lstrip_head_nonws; eauto.
Qed.

Lemma lstrip_app_nonempty : forall a b, lstrip a <> [] -> lstrip (a ++ b) = lstrip a ++ b.
Proof.
  induction a as [|c a IH]; intros b H; [cbn in H; congruence|].
  cbn [app lstrip] in *. destruct (is_ws c); [apply IH; assumption | reflexivity].
Qed.

Lemma fnw_le : forall s, fnw s <= length s.
Proof. intros s. unfold fnw. lia. Qed.

Lemma fnw_lstrip_length : forall s, fnw s + length (lstrip s) = length s.
Proof. intros s. unfold fnw. pose proof (lstrip_length s). lia. Qed.

(* firstn past the leading white space *)
Lemma lstrip_firstn : forall s n, fnw s < n -> fnw s < length s ->
  lstrip (firstn n s) = firstn (n - fnw s) (lstrip s) /\ lstrip (firstn n s) <> [].
Proof.
  intros s n H Hl. destruct (lstrip_decomp s) as [w [H1 [H2 H3]]].
  pose proof (fnw_lstrip_length s) as F.
  remember (fnw s) as f eqn:Ef. clear Ef.
  destruct (lstrip s) as [|c r] eqn:E.
  - cbn in F. lia.
  - assert (Hc : is_ws c = false) by (eapply lstrip_head_nonws; eauto).
    clear E. subst s. rewrite firstn_app, H3, (firstn_all2 w) by lia.
    rewrite lstrip_ws_app by assumption.
    destruct (n - f) as [|m] eqn:En; [lia|].
    cbn [firstn]. rewrite lstrip_nonws by assumption. split; [reflexivity | discriminate].
Qed.

(* ---------------------------------------------------------------- prefixb *)
Lemma prefixb_length : forall p s, prefixb p s = true -> length p <= length s.
Proof.
  induction p as [|a p IH]; intros [|b s] H; cbn in *; try lia; try discriminate.
  apply andb_true_iff in H as [_ H]. apply IH in H. lia.
Qed.

Lemma prefixb_app : forall p s, prefixb p s = true -> exists r, s = p ++ r.
Proof.
  induction p as [|a p IH]; intros [|b s] H; cbn in *; try discriminate.
  - exists []. reflexivity.
  - exists (b :: s). reflexivity.
  - apply andb_true_iff in H as [H1 H2]. apply Ascii.eqb_eq in H1. subst.
    destruct (IH _ H2) as [r Hr]. exists r. rewrite Hr. reflexivity.
Qed.

Lemma prefixb_refl_app : forall p r, prefixb p (p ++ r) = true.
Proof.
  induction p as [|a p IH]; intros r; cbn; [reflexivity|].
  rewrite Ascii.eqb_refl. apply IH.
Qed.

Lemma iprefixb_firstn : forall p s n, iprefixb p (firstn n s) = true -> iprefixb p s = true.
Proof.
  induction p as [|a p IH]; intros s n H; [reflexivity|].
  destruct n as [|n]; [cbn in H; discriminate|].
  destruct s as [|b s]; [cbn in H; discriminate|].
  cbn in *. apply andb_true_iff in H as [H1 H2]. rewrite H1. eapply IH; eauto.
Qed.

(* ---------------------------------------------------------------- rfind *)
Definition occurs (key s : str) (i : nat) : Prop := i < length s /\ prefixb key (skipn i s) = true.

Lemma rfind_go_sound : forall key s pos lo hi best i, key <> [] ->
  rfind_go key s pos lo hi best = Some i ->
  best = Some i \/ exists k, i = pos + k /\ occurs key s k /\ lo <= k /\ k + length key <= hi.
Proof.
  intros key s. induction s as [|c r IH]; intros pos lo hi best i Hk H; cbn [rfind_go] in H.
  - left. exact H.
  - apply IH in H; [|assumption]. destruct H as [H | [k [Hi [[Hl Hp] [Hlo Hhi]]]]].
    + destruct (is_zero lo && (length key <=? hi) && prefixb key (c :: r)) eqn:E.
      * right. inversion H; subst. exists 0.
        apply andb_true_iff in E as [E E3]. apply andb_true_iff in E as [E1 E2].
        apply Nat.leb_le in E2. destruct lo; [|discriminate].
        repeat split; cbn [length skipn]; try lia. exact E3.
      * left. exact H.
    + right. exists (S k). repeat split; cbn [length skipn]; try lia. exact Hp.
      destruct key; [congruence|]. cbn [length] in *. lia.
Qed.

Lemma rfind_sound : forall key s lo hi i, key <> [] -> rfind key s lo hi = Some i ->
  occurs key s i /\ lo <= i /\ i + length key <= hi.
Proof.
  intros key s lo hi i Hk H. unfold rfind in H. apply rfind_go_sound in H; [|assumption].
  destruct H as [H | [k [Hi H]]]; [discriminate|]. cbn in Hi. subst. exact H.
Qed.

Lemma rfind_go_keep : forall key s pos lo hi best, best <> None -> rfind_go key s pos lo hi best <> None.
Proof.
  intros key s. induction s as [|c r IH]; intros pos lo hi best H; cbn [rfind_go]; [assumption|].
  apply IH. destruct (is_zero lo && (length key <=? hi) && prefixb key (c :: r)); [discriminate | assumption].
Qed.

Lemma rfind_go_complete : forall key s pos lo hi best k,
  occurs key s k -> lo <= k -> k + length key <= hi -> rfind_go key s pos lo hi best <> None.
Proof.
  intros key s. induction s as [|c r IH]; intros pos lo hi best k [Hl Hp] Hlo Hhi; cbn [length] in Hl; [lia|].
  cbn [rfind_go]. destruct k as [|k].
  - apply rfind_go_keep. cbn [skipn] in Hp. rewrite Hp.
    assert (E1 : is_zero lo = true) by (destruct lo; [reflexivity | lia]).
    assert (E2 : (length key <=? hi) = true) by (apply Nat.leb_le; lia).
    rewrite E1, E2. discriminate.
  - apply (IH _ _ _ _ k); [split; [lia | exact Hp] | lia | lia].
Qed.

Lemma rfind_complete : forall key s lo hi k,
  occurs key s k -> lo <= k -> k + length key <= hi -> rfind key s lo hi <> None.
Proof. intros. unfold rfind. eapply rfind_go_complete; eauto. Qed.

(* ---------------------------------------------------------------- find_break_point *)
Definition keys_ok (keys : list str) : Prop := Forall (fun k => k <> []) keys.

Lemma fbp_sound : forall line m keys bp, keys_ok keys -> find_break_point line m keys = Some bp ->
  exists key i, In key keys /\ key <> [] /\ bp = i + length key /\ occurs key line i /\ fnw line + 1 <= i /\ bp <= m.
Proof.
  intros line m keys. induction keys as [|k ks IH]; intros bp Hk H; cbn [find_break_point] in H; [discriminate|].
  inversion Hk as [|? ? Hk1 Hk2]; subst.
  destruct (rfind k line (fnw line + 1) m) as [i|] eqn:E.
  - inversion H; subst. apply rfind_sound in E; [|assumption]. destruct E as [Ho [Hlo Hhi]].
    exists k, i. repeat split; try assumption; try (left; reflexivity); apply Ho.
  - destruct (IH bp Hk2 H) as [key [i [Hin Hr]]]. exists key, i. split; [right; assumption | exact Hr].
Qed.

(* what the limiter's computations need: bounds of a break point *)
Lemma fbp_bounds : forall line m keys bp, keys_ok keys -> find_break_point line m keys = Some bp ->
  fnw line + 2 <= bp /\ bp <= m /\ bp <= length line /\ fnw line < length line.
Proof.
  intros line m keys bp Hk H. apply fbp_sound in H; [|assumption].
  destruct H as [key [i [_ [Hne [Hbp [[Hl Hp] [Hlo Hm]]]]]]].
  apply prefixb_length in Hp. rewrite skipn_length in Hp.
  destruct key; [congruence|]. cbn [length] in *. lia.
Qed.

Lemma fbp_complete : forall line m keys key i, In key keys -> occurs key line i -> fnw line + 1 <= i ->
  i + length key <= m -> find_break_point line m keys <> None.
Proof.
  intros line m keys. induction keys as [|k ks IH]; intros key i Hin Ho Hlo Hhi; [destruct Hin|].
  cbn [find_break_point]. destruct (rfind k line (fnw line + 1) m) eqn:E; [discriminate|].
  destruct Hin as [Hin | Hin].
  - subst. exfalso. eapply rfind_complete; eauto.
  - eapply IH; eauto.
Qed.

(* monotone in the window *)
Lemma fbp_mono : forall line m m' keys, keys_ok keys -> m <= m' ->
  find_break_point line m keys <> None -> find_break_point line m' keys <> None.
Proof.
  intros line m m' keys Hk Hm H. destruct (find_break_point line m keys) as [bp|] eqn:E; [|congruence].
  apply fbp_sound in E; [|assumption]. destruct E as [key [i [Hin [_ [Hbp [Ho [Hlo Hhi]]]]]]].
  eapply fbp_complete; eauto. lia.
Qed.
