(* C18 — non-vacuity of the text-level theorems: a text made of a directive already split over two
   lines whose `!$omp&` continuation line is itself longer than the limit, a long call and a long
   comment. *)
From Coq Require Import Ascii Arith Bool NArith List Lia.
From Coq Require String.
Import ListNotations.
From PV Require Import C18.Types C18.Gen C18.Model C18.Join C18.TextProofs.

Module TLits.
  Import String.
  Local Open Scope string_scope.
  Definition w (x : string) : str := list_ascii_of_string x.
  Definition d1 : str := w "  !$omp parallel do default(shared), &".
  Definition d2 : str := w "  !$omp& private(i, tmp_one, tmp_two, tmp_three, tmp_four, tmp_five), schedule(static), reduction(+:total)".
  Definition s1 : str := w "    call invoke_kernel(f1_proxy%data, f2_proxy%data, m1_proxy%data, ndf_w1, undf_w1, map_w1(:,cell))".
  Definition c1 : str := w "      ! Call the kernel for each cell, looping over the halo to depth 2. See eq. (3), a,b".
End TLits.
Export TLits.

Definition out_of (L : nat) (ls : list str) : list str :=
  match process_lines L ls with Ok o => o | _ => [] end.

(* groups: the split directive is ONE complete continuation group of two input lines *)
Definition ex_groups (L : nat) : list (list str * list str) :=
  [([d1; d2], out_of L [d1; d2]); ([s1], out_of L [s1]); ([c1], out_of L [c1])].

Lemma text_nonvacuous_ :
  forallb group_okb (ex_groups 60) = true /\
  process_lines 60 [d1; d2; s1; c1] = Ok (concat (map snd (ex_groups 60))) /\
  concat (map fst (ex_groups 60)) = [d1; d2; s1; c1] /\
  (60 <? length d2) = true /\ iprefixb sent_omp (lstrip d2) = true /\
  length (concat (map snd (ex_groups 60))) = 8.
Proof. repeat split; vm_compute; reflexivity. Qed.

Lemma text_allsafe_nonvacuous_ :
  forallb (fun l => safe l && no_marker l) [s1; c1; s1] = true /\
  forallb (fun l => starts_ok (out_of 60 [l])) [s1; c1] = true /\
  length (out_of 60 [s1; c1; s1]) = 6.
Proof. repeat split; vm_compute; reflexivity. Qed.
