(* C18 — shared types of the line-length model (imported by the generated Gen.v). *)
From Coq Require Import List Ascii.

(* a line / a text: list of Latin-1 code points (Coq `ascii` = 0..255) *)
Definition str := list ascii.

(* keys of FortLineLength._cont_start / _cont_end / _key_lists *)
Inductive ltype := Statement | Omp | Acc | CommentT | Unknown.

(* result of processing one line / a list of lines: Err = InternalError raised by find_break_point *)
Inductive result := Ok (ls : list str) | Err | OutOfFuel.
