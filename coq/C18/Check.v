(* C18 — executable checks used by the correspondence harness (definitions only). *)
From Coq Require Import Ascii Arith Bool NArith List.
From Coq Require String.
Import ListNotations.
From PV Require Import C18.Types C18.Gen C18.Model C18.Join.

(* string encodings used by the generated cases *)
Definition s (x : String.string) : str := String.list_ascii_of_string x.
Definition b (l : list nat) : str := map ascii_of_nat l.

Definition res_eqb (r : result) (o : option (list str)) : bool :=
  match r, o with
  | Ok ls, Some ls' => list_eqb str_eqb ls ls'
  | Err, None => true
  | _, _ => false
  end.

(* one line: (limit, line, implementation output lines or None = InternalError),
   (property code computed by the Python mirror of join on the implementation's output,
    safe computed by the Python mirror, line type index) *)
Definition ltype_idx (t : ltype) : N :=
  match t with Statement => 0 | Omp => 1 | Acc => 2 | CommentT => 3 | Unknown => 4 end%N.

Definition line_case := ((nat * str * option (list str)) * (nat * bool * nat))%type.

Definition model_agrees (c : line_case) : bool :=
  let '((L, l, o), _) := c in res_eqb (process_line L l) o.

Definition spec_agrees (c : line_case) : bool :=
  let '((L, l, o), (pp, ps, ty)) := c in
  Nat.eqb (N.to_nat (match o with Some out => prop_on l out | None => 3%N end)) pp
  && Bool.eqb (safe l) ps && Nat.eqb (N.to_nat (ltype_idx (line_type l))) ty.

(* the theorems' content, re-evaluated on the implementation's output: safe => property holds,
   every output line within the limit, output is a fixed point *)
Definition property_ok (c : line_case) : bool :=
  let '((L, l, o), _) := c in
  match o with
  | None => true
  | Some out =>
      forallb (fun x => length x <=? L) out
      && (if safe l then N.eqb (prop_on l out) 0 else true)
      && res_eqb (process_lines L out) (Some out)
  end.

Definition line_check (c : line_case) : bool := model_agrees c && spec_agrees c.

(* whole texts: (limit, text, implementation output text or None) *)
Definition text_case := (nat * str * option str)%type.
Definition text_check (c : text_case) : bool :=
  let '(L, t, o) := c in
  match process_text L t, o with
  | TOk x, Some y => str_eqb x y
  | TErr, None => true
  | _, _ => false
  end.
