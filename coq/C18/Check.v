(* C18 — executable checks used by the correspondence harness (definitions only). *)
From Coq Require Import Ascii Arith Bool NArith List.
From Coq Require Import Strings.Byte.
Import ListNotations.
From PV Require Import C18.Types C18.Gen C18.Model C18.Join.

(* string encodings used by the generated cases *)
(* cheap literals: a String Notation over `list byte` (2 term nodes per character) *)
Inductive bstr := B (l : list Init.Byte.byte).
Definition unB (x : bstr) : list Init.Byte.byte := match x with B l => l end.
Declare Scope bstr_scope.
Delimit Scope bstr_scope with bstr.
String Notation bstr B unB : bstr_scope.
Definition s (x : bstr) : str := map ascii_of_byte (unB x).
Arguments s x%bstr.
Definition b (l : list N) : str := map ascii_of_N l.

(* checksum of an output line: (length, polynomial hash of the code points) *)
Definition hash (x : str) : N :=
  fold_left (fun h c => N.land (h * 131 + N_of_ascii c + 1) 281474976710655) x 7%N.
Definition sums (ls : list str) : list (N * N) := map (fun x => (N.of_nat (length x), hash x)) ls.
Fixpoint sums_eqb (a b : list (N * N)) : bool :=
  match a, b with
  | [], [] => true
  | (n, h) :: a', (m, k) :: b' => N.eqb n m && N.eqb h k && sums_eqb a' b'
  | _, _ => false
  end.

Definition res_eqb (r : result) (o : option (list str)) : bool :=
  match r, o with
  | Ok ls, Some ls' => list_eqb str_eqb ls ls'
  | Err, None => true
  | _, _ => false
  end.
Definition res_sums_eqb (r : result) (o : option (list (N * N))) : bool :=
  match r, o with
  | Ok ls, Some cs => sums_eqb (sums ls) cs
  | Err, None => true
  | _, _ => false
  end.

Definition ltype_idx (t : ltype) : N :=
  match t with Statement => 0 | Omp => 1 | Acc => 2 | CommentT => 3 | Unknown => 4 end%N.

(* one line: limit, line, checksums of the implementation's output lines (None = InternalError),
   property code computed by the Python mirror of `join` on the implementation's output
   (0 holds / 1 fails / 2 input ill-formed / 3 exception), `safe` computed by the Python mirror,
   line type given by FortLineLength._get_line_type.  Numbers are N (binary) to keep the literals small. *)
Record line_case := mk { c_limit : N; c_line : str; c_out : option (list (N * N)); c_prop : N;
                         c_safe : bool; c_type : N }.

(* model = implementation *)
Definition model_agrees_ (r : result) (c : line_case) : bool := res_sums_eqb r (c_out c).
(* Coq spec (Join.v) vs its Python mirror, on the model's output (equal to the implementation's
   output whenever model_agrees holds) *)
Definition spec_agrees_ (r : result) (sf : bool) (pp : N) (c : line_case) : bool :=
  N.eqb pp (c_prop c) && Bool.eqb sf (c_safe c) && N.eqb (ltype_idx (line_type (c_line c))) (c_type c).
(* the theorems' content re-evaluated on the model's output: every line within the limit,
   safe => join preserved, output is a fixed point, breakable => no InternalError *)
Definition property_ok_ (L : nat) (l : str) (r : result) (sf : bool) (pp : N) : bool :=
  match r with
  | Ok out =>
      forallb (fun x => length x <=? L) out
      && (if sf then N.eqb pp 0 else true)
      && res_eqb (process_lines L out) (Some out)
  | Err => negb (breakable L l)          (* never_fails_partial *)
  | OutOfFuel => false                   (* process_total *)
  end.

Definition with_case {A} (c : line_case) (f : nat -> result -> bool -> N -> A) : A :=
  let L := N.to_nat (c_limit c) in
  let r := process_line L (c_line c) in
  let sf := safe (c_line c) in
  let pp := match r with Ok out => prop_on (c_line c) out | _ => 3%N end in
  f L r sf pp.

Definition model_agrees (c : line_case) : bool := with_case c (fun L r sf pp => model_agrees_ r c).
Definition spec_agrees (c : line_case) : bool := with_case c (fun L r sf pp => spec_agrees_ r sf pp c).
Definition property_ok (c : line_case) : bool := with_case c (fun L r sf pp => property_ok_ L (c_line c) r sf pp).
Definition line_check (c : line_case) : bool :=
  with_case c (fun L r sf pp => model_agrees_ r c && spec_agrees_ r sf pp c && property_ok_ L (c_line c) r sf pp).

(* whole texts: limit, text, checksums of the implementation's output lines (None = InternalError),
   property code computed by the Python mirror on the implementation's output *)
Definition text_case := (N * str * option (list (N * N)) * N)%type.
Definition text_model_agrees (c : text_case) : bool :=
  let '(L, t, o, _) := c in
  match process_text (N.to_nat L) t, o with
  | TOk x, Some y => sums_eqb (sums (split_nl x)) y
  | TErr, None => true
  | _, _ => false
  end.
(* join (model output) ~ join (input) evaluated by the Coq spec = value computed by the Python mirror;
   every output line within the limit; output is a fixed point *)
Definition text_spec_agrees (c : text_case) : bool :=
  let '(L, t, _, pp) := c in
  match process_text (N.to_nat L) t with
  | TOk x => N.eqb (prop_on_lines (split_nl t) (split_nl x)) pp
             && forallb (fun l => length l <=? N.to_nat L) (split_nl x)
             && match process_text (N.to_nat L) x with TOk y => str_eqb x y | _ => false end
  | TErr => N.eqb 3 pp
  | TFuel => false
  end.
Definition text_check (c : text_case) : bool := text_model_agrees c && text_spec_agrees c.
