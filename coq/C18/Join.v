(* C18 — specification side: what a list of free-form source lines MEANS once continuation lines
   are joined.  Independent of the limiter (own constants, not the generated tables), except that it
   shares the white-space class `is_ws`.  Definitions only.

   join : list str -> option (list (kind * str) * list str)
     = (statements / conditional-compilation statements / directives in order, comments in order),
       None when the lines are not a well-formed sequence (dangling continuation, character context
       not continued, a line consisting of a single `&`, directive continuation without directive).

   Rules (Fortran 2008 3.3.2, OpenMP 4.5 2.1.2, OpenACC 2.1): character context is tracked across
   lines; `!` outside character context starts a comment; `&` as last non-blank character (before an
   optional comment) continues the statement; a continuation line may start with `&`, and must in
   character context; `!$omp` / `!$acc` followed by white space (or `&`) is a directive, continued by
   a trailing `&` onto lines that begin with the sentinel, optionally followed by `&`; `!$ ` is the
   OpenMP conditional-compilation sentinel (the rest of the line is a statement); comments cannot be
   continued in Fortran: the limiter's convention `!& ` is read as "continues the comment of the
   previous line". *)
From Coq Require Import Ascii Arith Bool NArith List.
Import ListNotations.
From PV Require Import C18.Types C18.Gen C18.Model.

Inductive kind := KStmt | KCond | KOmp | KAcc.
Record pend := mkPend { pk : kind; pacc : str; pq : option ascii }.
Record jstate := mkJ { j_items : list (kind * str); j_cmts : list str; j_pend : option pend; j_merge : bool }.

Definition bang : ascii := ascii_of_N 33.
Definition amp : ascii := ascii_of_N 38.
Definition dollar : ascii := ascii_of_N 36.
Definition squote : ascii := ascii_of_N 39.
Definition dquote : ascii := ascii_of_N 34.
Definition blank : ascii := ascii_of_N 32.
Definition is_quote (c : ascii) : bool := Ascii.eqb c squote || Ascii.eqb c dquote.

Definition sent_omp : str := map ascii_of_N [33; 36; 79; 77; 80]%N.   (* !$OMP *)
Definition sent_acc : str := map ascii_of_N [33; 36; 65; 67; 67]%N.   (* !$ACC *)
Definition cmt_marker : str := [bang; amp; blank].                    (* "!& " *)

(* character-context step *)
Definition qnext (q : option ascii) (c : ascii) : option ascii :=
  match q with
  | None => if is_quote c then Some c else None
  | Some d => if Ascii.eqb c d then None else q
  end.

(* code part of a line (up to a comment-starting `!`), final character context, trailing comment *)
Fixpoint scan_code (q : option ascii) (s : str) : str :=
  match s with
  | [] => []
  | c :: r => match q with
              | None => if Ascii.eqb c bang then [] else c :: scan_code (qnext q c) r
              | Some _ => c :: scan_code (qnext q c) r
              end
  end.
Fixpoint scan_q (q : option ascii) (s : str) : option ascii :=
  match s with
  | [] => q
  | c :: r => match q with
              | None => if Ascii.eqb c bang then None else scan_q (qnext q c) r
              | Some _ => scan_q (qnext q c) r
              end
  end.
Fixpoint scan_cmt (q : option ascii) (s : str) : option str :=
  match s with
  | [] => None
  | c :: r => match q with
              | None => if Ascii.eqb c bang then Some s else scan_cmt (qnext q c) r
              | Some _ => scan_cmt (qnext q c) r
              end
  end.

Definition rstrip (s : str) : str := rev (lstrip (rev s)).
Definition strip (s : str) : str := lstrip (rstrip s).

Fixpoint str_eqb (a b : str) : bool :=
  match a, b with
  | [], [] => true
  | x :: a', y :: b' => Ascii.eqb x y && str_eqb a' b'
  | _, _ => false
  end.

(* "No line shall contain a single & as the only nonblank character [before a comment]" *)
Definition lone (q : option ascii) (body : str) : bool := str_eqb (strip (scan_code q body)) [amp].

Definition add_cmt (st : jstate) (c : option str) : jstate :=
  match c with
  | Some c => mkJ (j_items st) (c :: j_cmts st) (j_pend st) true
  | None => mkJ (j_items st) (j_cmts st) (j_pend st) false
  end.

(* scan `text` in context (k, acc, q): either the statement goes on (trailing `&`) or it is complete *)
Definition finish (st : jstate) (k : kind) (acc : str) (q : option ascii) (text : str) : option jstate :=
  let code := scan_code q text in
  let q' := scan_q q text in
  let st1 := add_cmt st (scan_cmt q text) in
  let complete :=
    match q' with
    | Some _ => None
    | None => Some (mkJ ((k, lstrip (acc ++ code)) :: j_items st1) (j_cmts st1) None (j_merge st1))
    end in
  match lstrip (rev code) with
  | a :: pre_rev =>
      if Ascii.eqb a amp
      then Some (mkJ (j_items st1) (j_cmts st1) (Some (mkPend k (acc ++ rev pre_rev) q')) (j_merge st1))
      else complete
  | [] => complete
  end.

Definition dir_start (sent body : str) : bool :=
  iprefixb sent body &&
  match skipn (length sent) body with
  | [] => true
  | c :: _ => is_ws c || Ascii.eqb c amp
  end.

Definition cond_start (body : str) : bool :=
  match body with
  | b :: d :: c :: _ => Ascii.eqb b bang && Ascii.eqb d dollar && is_ws c
  | _ => false
  end.

Definition first_is (c : ascii) (s : str) : bool :=
  match s with x :: _ => Ascii.eqb x c | [] => false end.

Definition is_none {A} (o : option A) : bool := match o with None => true | Some _ => false end.

(* a line met while nothing is pending *)
Definition step_idle (st : jstate) (line : str) : option jstate :=
  let body := lstrip line in
  match body with
  | [] => Some (mkJ (j_items st) (j_cmts st) None false)
  | c :: _ =>
      if Ascii.eqb c bang then
        if dir_start sent_omp body then finish st KOmp (firstn 5 body) None (skipn 5 body)
        else if dir_start sent_acc body then finish st KAcc (firstn 5 body) None (skipn 5 body)
        else if cond_start body then
          (if lone None (skipn 2 body) then None else finish st KCond [] None (skipn 2 body))
        else if prefixb cmt_marker body && j_merge st then
          match j_cmts st with
          | c0 :: r => Some (mkJ (j_items st) ((c0 ++ skipn 3 body) :: r) None true)
          | [] => None
          end
        else Some (mkJ (j_items st) (body :: j_cmts st) None true)
      else if lone None body then None
      else finish st KStmt [] None line
  end.

(* the text of a continuation line that continues pending (k, q):
   None = ill-formed, Some None = a comment line in between, Some (Some t) = continue with t *)
Definition cont_text (k : kind) (q : option ascii) (body line : str) : option (option str) :=
  match k with
  | KStmt =>
      if first_is bang body then Some None
      else if first_is amp body then (if lone q body then None else Some (Some (tl body)))
      else if is_none q then (if lone q body then None else Some (Some line)) else None
  | KCond =>
      if cond_start body then
        let b := skipn 2 body in
        if lone q b then None
        else if first_is amp (lstrip b) then Some (Some (tl (lstrip b)))
        else if is_none q then Some (Some b) else None
      else if first_is bang body then Some None else None
  | KOmp =>
      if iprefixb sent_omp body then
        let b := skipn 5 body in
        if first_is amp (lstrip b) then Some (Some (tl (lstrip b))) else Some (Some b)
      else None
  | KAcc =>
      if iprefixb sent_acc body then
        let b := skipn 5 body in
        if first_is amp (lstrip b) then Some (Some (tl (lstrip b))) else Some (Some b)
      else None
  end.

Definition step (st : jstate) (line : str) : option jstate :=
  match j_pend st with
  | None => step_idle st line
  | Some p =>
      let body := lstrip line in
      match body with
      | [] => Some st
      | _ :: _ =>
          match cont_text (pk p) (pq p) body line with
          | None => None
          | Some None =>
              (* a comment line between continuation lines; `!& ` continues the previous comment *)
              if prefixb cmt_marker body && j_merge st then
                match j_cmts st with
                | c0 :: r => Some (mkJ (j_items st) ((c0 ++ skipn 3 body) :: r) (j_pend st) true)
                | [] => None
                end
              else Some (mkJ (j_items st) (body :: j_cmts st) (j_pend st) true)
          | Some (Some t) => finish st (pk p) (pacc p) (pq p) t
          end
      end
  end.

Fixpoint run (st : jstate) (ls : list str) : option jstate :=
  match ls with
  | [] => Some st
  | l :: r => match step st l with Some st' => run st' r | None => None end
  end.

Definition jinit : jstate := mkJ [] [] None false.
Definition joined := (list (kind * str) * list str)%type.

Definition join (ls : list str) : option joined :=
  match run jinit ls with
  | Some st => match j_pend st with
               | None => Some (rev (j_items st), rev (j_cmts st))
               | Some _ => None
               end
  | None => None
  end.

(* ---- "equal modulo inter-token blanks" for directives ------------------------------------- *)
(* word characters: ASCII letters, digits, underscore; every other non-blank character is a
   delimiter next to which blanks are insignificant *)
Definition is_word (c : ascii) : bool :=
  let n := N_of_ascii c in
  ((N.leb 48 n && N.leb n 57) || (N.leb 65 n && N.leb n 90) || (N.leb 97 n && N.leb n 122) || N.eqb n 95)%bool.
Definition dir_delim (c : ascii) : bool := negb (is_ws c) && negb (is_word c).
Definition soft (c : ascii) : bool := is_ws c || dir_delim c.

(* drop every white-space character that follows white space or a delimiter (and leading blanks) *)
Fixpoint squeeze (prev_soft : bool) (s : str) : str :=
  match s with
  | [] => []
  | c :: r => if is_ws c then (if prev_soft then squeeze true r else c :: squeeze true r)
              else c :: squeeze (dir_delim c) r
  end.

(* canonical form: additionally drop white space that precedes a delimiter, and trailing blanks *)
Definition canon (s : str) : str := rev (squeeze true (rev (squeeze true s))).

Definition kind_eqb (a b : kind) : bool :=
  match a, b with KStmt, KStmt | KCond, KCond | KOmp, KOmp | KAcc, KAcc => true | _, _ => false end.
Definition is_dir (k : kind) : bool := match k with KOmp | KAcc => true | _ => false end.

Definition item_equiv (a b : kind * str) : bool :=
  kind_eqb (fst a) (fst b) &&
  (if is_dir (fst a) then str_eqb (canon (snd a)) (canon (snd b)) else str_eqb (snd a) (snd b)).

Fixpoint list_eqb {A} (e : A -> A -> bool) (a b : list A) : bool :=
  match a, b with
  | [], [] => true
  | x :: a', y :: b' => e x y && list_eqb e a' b'
  | _, _ => false
  end.

(* statements and comments exactly, directives modulo blanks next to blanks or delimiters *)
Definition jequiv (a b : joined) : bool :=
  list_eqb item_equiv (fst a) (fst b) && list_eqb str_eqb (snd a) (snd b).

(* ---- the sufficient condition of the theorems ------------------------------------------------
   read alone by the rules above, the line is exactly one statement without trailing comment and
   without trailing white space / one directive without trailing comment / one comment, and it is
   of the kind the limiter takes it for. *)
Definition last_nonws (l : str) : bool := match rev l with c :: _ => negb (is_ws c) | [] => false end.

Definition safe (l : str) : bool :=
  match join [l] with
  | Some ([(k, _)], []) =>
      match line_type l, k with
      | Statement, KStmt | Unknown, KStmt => last_nonws l
      | Omp, KOmp | Acc, KAcc => true
      | _, _ => false
      end
  | Some ([], [_]) => match line_type l with CommentT => true | _ => false end
  | _ => false
  end.

(* the property evaluated on an observed output: 0 = holds, 1 = fails, 2 = input itself ill-formed *)
Definition prop_on (l : str) (out : list str) : N :=
  match join [l] with
  | None => 2%N
  | Some r => match join out with
              | Some r' => if jequiv r' r then 0%N else 1%N
              | None => 1%N
              end
  end.

(* the same for a multi-line input (input lines may themselves be continued):
   join (output lines) ~ join (input lines) *)
Definition prop_on_lines (ins outs : list str) : N :=
  match join ins with
  | None => 2%N
  | Some r => match join outs with
              | Some r' => if jequiv r' r then 0%N else 1%N
              | None => 1%N
              end
  end.
