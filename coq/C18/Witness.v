(* C18 — concrete witnesses (vm_compute): refutations of the full-strength statements on the
   faithful model, and non-vacuity examples for the implications. *)
From Coq Require Import Ascii Arith Bool NArith List Lia.
From Coq Require String.
Import ListNotations.
From PV Require Import C18.Types C18.Gen C18.Model C18.Join.


Module Lits.
  Import String.
  Local Open Scope string_scope.
  Definition w (x : string) : str := list_ascii_of_string x.
  Definition wit_trailing : str := w "  x = y + 1 ! a long trailing comment that goes past the limit of forty".
  Definition wit_cond : str := w "  !$ x = y + 1 + 2 + 3 + 4 + 5 + 6 + 7 + 8 + 9 + 10 + 11 + 12".
  Definition wit_dircmt : str := w "  !$omp parallel do default(shared) private(i) ! comment on directive here".
  Definition wit_lone : str := w "  x = y + 1                                                            ".
  Definition wit_sentinel : str := w "  !$omp_note this is only a comment, it is not an OpenMP directive at all".
  Definition wit_nobreak : str := w "  s = 'aaaaaaaaaaaaaaaaaaaaaaaaaaaaaaaaaaaaaaaaaaaaaaaaaaaaaaaaaaaaaaaaaaaaaaaa'".
  Definition ex_stmt : str := w "    call invoke_kernel(f1_proxy%data, f2_proxy%data, m1_proxy%data, ndf_w1, undf_w1, map_w1(:,cell))".
  Definition ex_decl : str := w "  REAL(KIND=r_def), intent(in), dimension(undf_w1) :: field_one, field_two, 'it''s ! & ok'".
  Definition ex_omp : str := w "  !$omp parallel do default(shared), private(cell,df), schedule(static), reduction(+:asum)".
  Definition ex_acc : str := w "!$ACC parallel loop collapse(2) copyin(a,b,c) copyout(res) present(fld) vector_length(128)".
  Definition ex_cmt : str := w "      ! Call the kernel for each cell, looping over the halo to depth 2. See eq. (3), a,b".
  Definition out_trailing : list str := [w "  x = y + 1 ! a long trailing comment &"; w "&that goes past the limit of forty"].
  Definition out_omp : list str := [w "  !$omp parallel do default(shared), private(cell,df),  &"; w "!$omp& schedule(static), reduction(+:asum)"].
End Lits.
Export Lits.

(* the full-strength join statement fails on (L, l): the limiter succeeds, the input is well formed,
   the joined output is not equivalent to the joined input *)
Definition join_broken (L : nat) (l : str) : Prop :=
  exists ls r, process_line L l = Ok ls /\ join [l] = Some r /\
               match join ls with Some r' => jequiv r' r | None => false end = false.

Definition join_brokenb (L : nat) (l : str) : bool :=
  match process_line L l, join [l] with
  | Ok ls, Some r => negb (match join ls with Some r' => jequiv r' r | None => false end)
  | _, _ => false
  end.

Lemma join_brokenb_ok : forall L l, join_brokenb L l = true -> join_broken L l.
Proof.
  intros L l H. unfold join_brokenb in H. destruct (process_line L l) as [ls| |] eqn:P; try discriminate.
  destruct (join [l]) as [r|] eqn:J; try discriminate. exists ls, r. repeat split; try assumption.
  apply negb_true_iff in H. exact H.
Qed.


(* the model's output for the first witness, for the record *)
Lemma trailing_output : process_line 40 wit_trailing =
  Ok out_trailing.
Proof. vm_compute. reflexivity. Qed.

Lemma trailing_comment_refuted_ : exists L l, 40 <= L <= 132 /\ line_type l = Unknown /\ join_broken L l.
Proof. exists 40, wit_trailing. split; [lia|]. split; [vm_compute; reflexivity|]. apply join_brokenb_ok. vm_compute. reflexivity. Qed.

Lemma cond_comp_refuted_ : exists L l, 40 <= L <= 132 /\ line_type l = CommentT /\ join_broken L l.
Proof. exists 40, wit_cond. split; [lia|]. split; [vm_compute; reflexivity|]. apply join_brokenb_ok. vm_compute. reflexivity. Qed.

Lemma directive_comment_refuted_ : exists L l, 40 <= L <= 132 /\ line_type l = Omp /\ join_broken L l.
Proof. exists 40, wit_dircmt. split; [lia|]. split; [vm_compute; reflexivity|]. apply join_brokenb_ok. vm_compute. reflexivity. Qed.

Lemma lone_ampersand_refuted_ : exists L l, 40 <= L <= 132 /\ line_type l = Unknown /\ join_broken L l.
Proof. exists 40, wit_lone. split; [lia|]. split; [vm_compute; reflexivity|]. apply join_brokenb_ok. vm_compute. reflexivity. Qed.

Lemma sentinel_prefix_refuted_ : exists L l, 40 <= L <= 132 /\ line_type l = Omp /\ join [l] = Some ([], [lstrip l]) /\ join_broken L l.
Proof.
  exists 40, wit_sentinel. split; [lia|]. split; [vm_compute; reflexivity|]. split; [vm_compute; reflexivity|].
  apply join_brokenb_ok. vm_compute. reflexivity.
Qed.

Lemma never_fails_refuted_ : exists L l, 40 <= L <= 132 /\ L < length l /\ process_line L l = Err.
Proof. exists 40, wit_nobreak. split; [lia|]. split; [vm_compute; lia|]. vm_compute. reflexivity. Qed.

(* ---- non-vacuity ------------------------------------------------------------------------- *)

Definition nontrivial (L : nat) (l : str) : bool :=
  (L <? length l) && safe l && breakable L l &&
  match process_line L l, join [l] with
  | Ok ls, Some r => (1 <? length ls) && forallb (fun x => length x <=? L) ls
                     && match join ls with Some r' => jequiv r' r | None => false end
  | _, _ => false
  end.

Lemma nonvacuous_ : forallb (nontrivial 60) [ex_stmt; ex_decl; ex_omp; ex_acc; ex_cmt] = true
                   /\ map line_type [ex_stmt; ex_decl; ex_omp; ex_acc; ex_cmt] = [Statement; Statement; Omp; Acc; CommentT].
Proof. split; vm_compute; reflexivity. Qed.

(* an output that is really different from the input, and is a fixed point *)
Lemma example_output : process_line 60 ex_omp =
  Ok out_omp.
Proof. vm_compute. reflexivity. Qed.

Lemma example_text : exists t t', process_text 60 t = TOk t' /\ t <> t' /\ process_text 60 t' = TOk t'.
Proof.
  exists (ex_stmt ++ nl :: ex_cmt). eexists. split; [vm_compute; reflexivity|]. split; [|vm_compute; reflexivity].
  vm_compute. discriminate.
Qed.
