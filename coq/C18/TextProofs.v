(* C18 — text level: join is compositional over complete continuation groups, hence joining the
   concatenated per-line outputs of the limiter is equivalent to joining the input text. *)
From Coq Require Import Ascii Arith Bool NArith List Lia.
Import ListNotations.
From PV Require Import C18.Types C18.Gen C18.Model C18.Join C18.StrLemmas C18.LimitProofs C18.JoinLemmas
  C18.JoinStmt C18.JoinAll.

(* ---- frame: what was collected before does not influence what follows ---------------------- *)
Definition shift (I0 : list (kind * str)) (C0 : list str) (st : jstate) : jstate :=
  mkJ (j_items st ++ I0) (j_cmts st ++ C0) (j_pend st) (j_merge st).
(* the merge flag is only set when there is a comment to merge into *)
Definition inv (st : jstate) : Prop := j_merge st = true -> j_cmts st <> [].

Lemma finish_frame : forall I0 C0 st k acc q t,
  finish (shift I0 C0 st) k acc q t = option_map (shift I0 C0) (finish st k acc q t).
Proof.
  intros I0 C0 [I C P M] k acc q t. unfold finish, shift.
  destruct (scan_cmt q t); cbn [add_cmt j_items j_cmts j_pend j_merge];
    destruct (lstrip (rev (scan_code q t))) as [|a r]; try destruct (Ascii.eqb a amp);
    destruct (scan_q q t); reflexivity.
Qed.

Lemma finish_inv_pres : forall st k acc q t st', finish st k acc q t = Some st' -> inv st'.
Proof.
  intros [I C P M] k acc q t st' H. unfold finish in H.
  destruct (scan_cmt q t); cbn [add_cmt j_items j_cmts j_pend j_merge] in H;
    destruct (lstrip (rev (scan_code q t))) as [|a r]; try destruct (Ascii.eqb a amp);
    destruct (scan_q q t); try discriminate H; injection H as <-; unfold inv; cbn; intros; congruence.
Qed.

Lemma step_frame : forall I0 C0 st line, inv st ->
  step (shift I0 C0 st) line = option_map (shift I0 C0) (step st line).
Proof.
  intros I0 C0 [I C P M] line Hinv. unfold inv in Hinv. cbn [j_merge j_cmts] in Hinv.
  unfold step, shift. cbn [j_items j_cmts j_pend j_merge]. destruct P as [p|].
  - cbv zeta. destruct (lstrip line) as [|c r]; [reflexivity|].
    destruct (cont_text (pk p) (pq p) (c :: r) line) as [[t|]|]; [| |reflexivity].
    + apply (finish_frame I0 C0 (mkJ I C (Some p) M)).
    + cbn [j_items j_cmts j_pend j_merge].
      destruct (prefixb cmt_marker (c :: r)); destruct M; cbn [andb]; try reflexivity.
      destruct C as [|c0 rc]; [exfalso; apply Hinv; reflexivity | reflexivity].
  - unfold step_idle. cbv zeta. cbn [j_items j_cmts j_pend j_merge].
    destruct (lstrip line) as [|c r]; [reflexivity|].
    destruct (Ascii.eqb c bang).
    + destruct (dir_start sent_omp (c :: r)); [apply (finish_frame I0 C0 (mkJ I C None M))|].
      destruct (dir_start sent_acc (c :: r)); [apply (finish_frame I0 C0 (mkJ I C None M))|].
      destruct (cond_start (c :: r)).
      { destruct (lone None (skipn 2 (c :: r))); [reflexivity | apply (finish_frame I0 C0 (mkJ I C None M))]. }
      destruct (prefixb cmt_marker (c :: r)); destruct M; cbn [andb]; try reflexivity.
      destruct C as [|c0 rc]; [exfalso; apply Hinv; reflexivity | reflexivity].
    + destruct (lone None (c :: r)); [reflexivity | apply (finish_frame I0 C0 (mkJ I C None M))].
Qed.

Lemma step_inv_pres : forall st line st', inv st -> step st line = Some st' -> inv st'.
Proof.
  intros [I C P M] line st' Hinv H. unfold step in H. cbn [j_pend] in H. destruct P as [p|].
  - cbv zeta in H. destruct (lstrip line) as [|c r]; [injection H as <-; assumption|].
    destruct (cont_text (pk p) (pq p) (c :: r) line) as [[t|]|]; [| |discriminate].
    + eapply finish_inv_pres; eauto.
    + cbn [j_items j_cmts j_pend j_merge] in H.
      destruct (prefixb cmt_marker (c :: r) && M).
      * destruct C; [discriminate|]. injection H as <-. unfold inv. cbn. intros; congruence.
      * injection H as <-. unfold inv. cbn. intros; congruence.
  - unfold step_idle in H. cbv zeta in H. cbn [j_items j_cmts j_pend j_merge] in H.
    destruct (lstrip line) as [|c r]; [injection H as <-; unfold inv; cbn; intros; congruence|].
    destruct (Ascii.eqb c bang).
    + destruct (dir_start sent_omp (c :: r)); [eapply finish_inv_pres; eauto|].
      destruct (dir_start sent_acc (c :: r)); [eapply finish_inv_pres; eauto|].
      destruct (cond_start (c :: r)).
      { destruct (lone None (skipn 2 (c :: r))); [discriminate | eapply finish_inv_pres; eauto]. }
      destruct (prefixb cmt_marker (c :: r) && M).
      * destruct C; [discriminate|]. injection H as <-. unfold inv. cbn. intros; congruence.
      * injection H as <-. unfold inv. cbn. intros; congruence.
    + destruct (lone None (c :: r)); [discriminate | eapply finish_inv_pres; eauto].
Qed.

Lemma run_frame : forall I0 C0 ls st, inv st -> run (shift I0 C0 st) ls = option_map (shift I0 C0) (run st ls).
Proof.
  intros I0 C0 ls. induction ls as [|l r IH]; intros st Hinv; [reflexivity|].
  cbn [run]. rewrite step_frame by assumption. destruct (step st l) as [st'|] eqn:S; [|reflexivity].
  cbn [option_map]. apply IH. eapply step_inv_pres; eauto.
Qed.

Lemma run_app : forall a b st, run st (a ++ b) = match run st a with Some st' => run st' b | None => None end.
Proof.
  induction a as [|l a IH]; intros b st; [reflexivity|]. cbn [app run].
  destruct (step st l); [apply IH | reflexivity].
Qed.

(* ---- groups ------------------------------------------------------------------------------- *)
(* the line does not use the limiter's comment-continuation marker `!& ` *)
Definition no_marker (l : str) : bool := negb (prefixb cmt_marker (lstrip l)).
Definition starts_ok (g : list str) : bool := match g with [] => true | l :: _ => no_marker l end.

Lemma step_merge_irrelevant : forall I C m l, no_marker l = true ->
  step (mkJ I C None m) l = step (mkJ I C None false) l.
Proof.
  intros I C m l H. unfold no_marker in H. apply negb_true_iff in H.
  unfold step. cbn [j_pend]. unfold step_idle. cbv zeta. cbn [j_items j_cmts j_pend j_merge].
  destruct (lstrip l) as [|c r]; [reflexivity|]. rewrite H. cbn [andb]. reflexivity.
Qed.

Lemma inv_jinit : inv jinit.
Proof. unfold inv. cbn. discriminate. Qed.

Lemma run_idle : forall l r I C m, no_marker l = true ->
  run (mkJ I C None m) (l :: r) = option_map (shift I C) (run jinit (l :: r)).
Proof.
  intros l r I C m H. cbn [run]. rewrite step_merge_irrelevant by assumption.
  change (mkJ I C None false) with (shift I C jinit). rewrite step_frame by apply inv_jinit.
  destruct (step jinit l) as [st'|] eqn:S; [|reflexivity]. cbn [option_map].
  apply run_frame. eapply step_inv_pres; [apply inv_jinit | exact S].
Qed.

Definition jcat (a b : joined) : joined := (fst a ++ fst b, snd a ++ snd b).

(* join distributes over a complete group followed by further lines *)
Lemma join_app : forall g1 l r r1, join g1 = Some r1 -> no_marker l = true ->
  join (g1 ++ l :: r) = option_map (jcat r1) (join (l :: r)).
Proof.
  intros g1 l r r1 H Hm. unfold join in *. rewrite run_app.
  destruct (run jinit g1) as [[I C P M]|]; [|discriminate]. cbn [j_pend j_items j_cmts] in H.
  destruct P; [discriminate|]. injection H as <-.
  rewrite run_idle by assumption.
  destruct (run jinit (l :: r)) as [st2|]; [|reflexivity]. cbn [option_map].
  unfold shift. cbn [j_pend j_items j_cmts]. destruct (j_pend st2); [reflexivity|].
  cbn [option_map]. unfold jcat. cbn [fst snd]. rewrite !rev_app_distr. reflexivity.
Qed.

Lemma list_eqb_app : forall {A} (e : A -> A -> bool) a1 b1 a2 b2,
  list_eqb e a1 b1 = true -> list_eqb e a2 b2 = true -> list_eqb e (a1 ++ a2) (b1 ++ b2) = true.
Proof.
  intros A e a1. induction a1 as [|x a1 IH]; intros [|y b1] a2 b2 H1 H2; cbn in *; try discriminate; [assumption|].
  apply andb_true_iff in H1 as [E H1]. rewrite E. apply IH; assumption.
Qed.

Lemma jequiv_jcat : forall a1 b1 a2 b2, jequiv a1 b1 = true -> jequiv a2 b2 = true ->
  jequiv (jcat a1 a2) (jcat b1 b2) = true.
Proof.
  intros a1 b1 a2 b2 H1 H2. unfold jequiv, jcat in *. cbn [fst snd].
  apply andb_true_iff in H1 as [I1 C1]. apply andb_true_iff in H2 as [I2 C2].
  rewrite (list_eqb_app _ _ _ _ _ I1 I2), (list_eqb_app _ _ _ _ _ C1 C2). reflexivity.
Qed.

(* a complete continuation group of the input with the group of output lines produced for it:
   both non-empty, neither starts with the `!& ` marker, both join, with equivalent results *)
Definition group_okb (g : list str * list str) : bool :=
  match fst g, snd g with
  | l :: _, o :: _ =>
      no_marker l && no_marker o &&
      match join (fst g), join (snd g) with
      | Some r, Some r' => jequiv r' r
      | _, _ => false
      end
  | _, _ => false
  end.

Theorem join_groups_ : forall gs, forallb group_okb gs = true ->
  exists R R', join (concat (map fst gs)) = Some R /\ join (concat (map snd gs)) = Some R' /\ jequiv R' R = true.
Proof.
  induction gs as [|[gi go] gs IH]; intros H.
  - exists ([], []), ([], []). repeat split; reflexivity.
  - cbn [forallb] in H. apply andb_true_iff in H as [Hg Hr]. destruct (IH Hr) as [R [R' [J [J' E]]]].
    unfold group_okb in Hg. cbn [fst snd] in Hg.
    destruct gi as [|l gi']; [discriminate|]. destruct go as [|o go']; [discriminate|].
    apply andb_true_iff in Hg as [Hm Hj]. apply andb_true_iff in Hm as [Hml Hmo].
    destruct (join (l :: gi')) as [r|] eqn:Jr; [|discriminate].
    destruct (join (o :: go')) as [r'|] eqn:Jr'; [|discriminate].
    cbn [map concat fst snd].
    destruct gs as [|[gi2 go2] gs'].
    + cbn [map concat]. rewrite !app_nil_r. exists r, r'. repeat split; assumption.
    + cbn [forallb] in Hr. apply andb_true_iff in Hr as [Hg2 _].
      unfold group_okb in Hg2. cbn [fst snd] in Hg2.
      destruct gi2 as [|l2 gi2']; [discriminate|]. destruct go2 as [|o2 go2']; [discriminate|].
      apply andb_true_iff in Hg2 as [Hm2 _]. apply andb_true_iff in Hm2 as [Hml2 Hmo2].
      cbn [map concat fst snd] in *.
      set (X := concat (map fst gs')) in *. set (Y := concat (map snd gs')) in *.
      change ((l2 :: gi2') ++ X) with (l2 :: (gi2' ++ X)) in *.
      change ((o2 :: go2') ++ Y) with (o2 :: (go2' ++ Y)) in *.
      rewrite (join_app (l :: gi') l2 (gi2' ++ X) r Jr Hml2), (join_app (o :: go') o2 (go2' ++ Y) r' Jr' Hmo2).
      rewrite J, J'. cbn [option_map]. exists (jcat r R), (jcat r' R'). repeat split; try reflexivity.
      apply jequiv_jcat; assumption.
Qed.

(* ---- the limiter works line by line ------------------------------------------------------- *)
Lemma process_lines_concat : forall L ls out, process_lines L ls = Ok out ->
  exists outs, Forall2 (fun l o => process_line L l = Ok o) ls outs /\ out = concat outs.
Proof.
  intros L ls. induction ls as [|l r IH]; intros out H; cbn [process_lines] in H.
  - injection H as <-. exists []. split; [constructor | reflexivity].
  - destruct (process_line L l) as [o| |] eqn:P; try discriminate.
    destruct (process_lines L r) as [o'| |] eqn:R; try discriminate. injection H as <-.
    destruct (IH o' eq_refl) as [outs [F E]]. exists (o :: outs). split; [constructor; assumption | cbn; congruence].
Qed.

(* all-safe text: every line, read on its own, is safe and does not use the `!& ` marker; the
   first output line of each line does not start with the marker either (decidable on the output) *)
Theorem join_text_partial_ : forall L ls out,
  process_lines L ls = Ok out ->
  forallb (fun l => safe l && no_marker l) ls = true ->
  (forall l o, In l ls -> process_line L l = Ok o -> starts_ok o = true) ->
  exists R R', join ls = Some R /\ join out = Some R' /\ jequiv R' R = true.
Proof.
  intros L ls out H Hs Ho. destruct (process_lines_concat L ls out H) as [outs [F E]]. subst out.
  set (gs := combine (map (fun l : str => l :: nil) ls) outs).
  assert (G : (forallb group_okb gs = true) /\ (concat (map fst gs) = ls) /\ (concat (map snd gs) = concat outs)).
  { subst gs. clear H. induction F as [|l o ls' outs' P F IH]; [repeat split; reflexivity|].
    cbn [forallb] in Hs. apply andb_true_iff in Hs as [Hl Hs']. apply andb_true_iff in Hl as [Hsafe Hmark].
    destruct (IH Hs') as [G1 [G2 G3]]; [intros l0 o0 Hin; apply Ho; right; exact Hin|].
    cbn [map combine forallb concat fst snd app]. rewrite G1, G2, G3. repeat split; try reflexivity.
    rewrite andb_true_r. unfold group_okb. cbn [fst snd].
    pose proof (Ho l o (or_introl eq_refl) P) as So.
    assert (Hj : exists r, join [l] = Some r).
    { unfold safe in Hsafe. destruct (join [l]) as [r|]; [exists r; reflexivity | discriminate]. }
    destruct Hj as [r Hj].
    destruct (join_process_partial_ L l o r Hsafe Hj P) as [r' [Hj' Eq]].
    destruct o as [|o1 o']. 
    { exfalso. cbn in Hj'. injection Hj' as <-. unfold safe in Hsafe. rewrite Hj in Hsafe.
      destruct r as [[|[k t] [|? ?]] [|c [|? ?]]]; cbn in Eq; try discriminate; destruct k; discriminate. }
    cbn [starts_ok] in So. rewrite Hmark, So, Hj, Hj'. cbn [andb]. exact Eq. }
  destruct G as [G1 [G2 G3]]. destruct (join_groups_ _ G1) as [R [R' [J [J' Eq]]]].
  rewrite G2 in J. rewrite G3 in J'. exists R, R'. repeat split; assumption.
Qed.

Theorem limit_respected_lines_ : forall L ls out, process_lines L ls = Ok out -> Forall (fun x => length x <= L) out.
Proof. exact process_lines_limit. Qed.

Theorem idempotent_lines_ : forall L ls out, process_lines L ls = Ok out -> process_lines L out = Ok out.
Proof. intros L ls out H. apply process_lines_short. eapply process_lines_limit; eauto. Qed.
