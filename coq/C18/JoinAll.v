(* C18 — instantiation of the directive argument for !$omp / !$acc and the unified theorem
   safe l -> join (process_line L l) ~ join [l]. *)
From Coq Require Import Ascii Arith Bool NArith List Lia.
Import ListNotations.
From PV Require Import C18.Types C18.Gen C18.Model C18.Join C18.StrLemmas C18.LimitProofs C18.JoinLemmas
  C18.JoinStmt C18.JoinCmt C18.JoinDir.

Lemma ieqb_bang : forall c, ieqb bang c = true -> c = bang.
Proof.
  intros [b0 b1 b2 b3 b4 b5 b6 b7] H.
  destruct b0, b1, b2, b3, b4, b5, b6, b7; vm_compute in H; try discriminate H; reflexivity.
Qed.

Lemma ieqb_upper : forall a c, ieqb a c = true -> upper a = upper c.
Proof. intros a c H. apply Ascii.eqb_eq. exact H. Qed.

Lemma acc_not_omp : forall b, iprefixb sent_acc b = true -> iprefixb sent_omp b = false.
Proof.
  intros b H. destruct b as [|b0 [|b1 [|b2 r]]]; cbn [sent_acc sent_omp map iprefixb] in *; try discriminate H;
    try (rewrite ?andb_false_r; reflexivity).
  apply andb_true_iff in H as [_ H]. apply andb_true_iff in H as [_ H]. apply andb_true_iff in H as [H _].
  apply ieqb_upper in H.
  destruct (ieqb (ascii_of_N 79) b2) eqn:E; [|rewrite !andb_false_r; reflexivity].
  apply ieqb_upper in E. rewrite <- H in E. vm_compute in E. discriminate E.
Qed.

(* nothing pending, the line starts with a directive sentinel *)
Lemma idle_omp : forall st x, j_pend st = None -> dir_start sent_omp (lstrip x) = true ->
  step st x = finish st KOmp (firstn 5 (lstrip x)) None (skipn 5 (lstrip x)).
Proof.
  intros st x Hp Hd. unfold step. rewrite Hp. unfold step_idle. cbv zeta.
  destruct (lstrip x) as [|c r] eqn:Eb; [discriminate Hd|].
  assert (Hc : c = bang).
  { unfold dir_start in Hd. apply andb_true_iff in Hd as [Hd _]. cbn [sent_omp map iprefixb] in Hd.
    apply andb_true_iff in Hd as [Hd _]. apply ieqb_bang. exact Hd. }
  subst c. change (Ascii.eqb bang bang) with true. cbv iota. rewrite Hd. reflexivity.
Qed.

Lemma idle_acc : forall st x, j_pend st = None -> dir_start sent_acc (lstrip x) = true ->
  step st x = finish st KAcc (firstn 5 (lstrip x)) None (skipn 5 (lstrip x)).
Proof.
  intros st x Hp Hd. unfold step. rewrite Hp. unfold step_idle. cbv zeta.
  destruct (lstrip x) as [|c r] eqn:Eb; [discriminate Hd|].
  assert (Hi : iprefixb sent_acc (c :: r) = true) by (unfold dir_start in Hd; apply andb_true_iff in Hd as [Hd _]; exact Hd).
  assert (Hc : c = bang).
  { cbn [sent_acc map iprefixb] in Hi. apply andb_true_iff in Hi as [Hi _]. apply ieqb_bang. exact Hi. }
  subst c. change (Ascii.eqb bang bang) with true. cbv iota.
  rewrite (dir_start_false _ _ (acc_not_omp _ Hi)). rewrite Hd. reflexivity.
Qed.

(* the kind of the single item tells which branch of step_idle was taken *)
Lemma join1_kind : forall l k t, join [l] = Some ([(k, t)], []) ->
  match k with
  | KOmp => dir_start sent_omp (lstrip l) = true
  | KAcc => dir_start sent_acc (lstrip l) = true
  | _ => True
  end.
Proof.
  intros l k t H. destruct k; try exact I.
  - destruct (dir_start sent_omp (lstrip l)) eqn:D1; [reflexivity|]. exfalso.
    unfold join in H. rewrite run1 in H. unfold step in H. cbn [jinit j_pend] in H.
    unfold step_idle in H. cbv zeta in H. rewrite D1 in H.
    destruct (lstrip l) as [|c r] eqn:Eb; [cbn in H; discriminate|].
    destruct (Ascii.eqb c bang).
    + destruct (dir_start sent_acc (c :: r)).
      { destruct (finish jinit KAcc _ None _) as [st'|] eqn:F; [|discriminate].
        destruct (j_pend st') eqn:P; [discriminate|]. destruct (finish_inv _ _ _ _ _ _ F P) as [I0 _].
        rewrite I0 in H. cbn in H. discriminate. }
      destruct (cond_start (c :: r)).
      { destruct (lone None (skipn 2 (c :: r))); [discriminate|].
        destruct (finish jinit KCond _ None _) as [st'|] eqn:F; [|discriminate].
        destruct (j_pend st') eqn:P; [discriminate|]. destruct (finish_inv _ _ _ _ _ _ F P) as [I0 _].
        rewrite I0 in H. cbn in H. discriminate. }
      cbn [jinit j_merge] in H. rewrite andb_false_r in H. cbn in H. discriminate.
    + destruct (lone None (c :: r)); [discriminate|].
      destruct (finish jinit KStmt [] None l) as [st'|] eqn:F; [|discriminate].
      destruct (j_pend st') eqn:P; [discriminate|]. destruct (finish_inv _ _ _ _ _ _ F P) as [I0 _].
      rewrite I0 in H. cbn in H. discriminate.
  - destruct (dir_start sent_acc (lstrip l)) eqn:D2; [reflexivity|]. exfalso.
    unfold join in H. rewrite run1 in H. unfold step in H. cbn [jinit j_pend] in H.
    unfold step_idle in H. cbv zeta in H. rewrite D2 in H.
    destruct (lstrip l) as [|c r] eqn:Eb; [cbn in H; discriminate|].
    destruct (Ascii.eqb c bang).
    + destruct (dir_start sent_omp (c :: r)).
      { destruct (finish jinit KOmp _ None _) as [st'|] eqn:F; [|discriminate].
        destruct (j_pend st') eqn:P; [discriminate|]. destruct (finish_inv _ _ _ _ _ _ F P) as [I0 _].
        rewrite I0 in H. cbn in H. discriminate. }
      destruct (cond_start (c :: r)).
      { destruct (lone None (skipn 2 (c :: r))); [discriminate|].
        destruct (finish jinit KCond _ None _) as [st'|] eqn:F; [|discriminate].
        destruct (j_pend st') eqn:P; [discriminate|]. destruct (finish_inv _ _ _ _ _ _ F P) as [I0 _].
        rewrite I0 in H. cbn in H. discriminate. }
      cbn [jinit j_merge] in H. rewrite andb_false_r in H. cbn in H. discriminate.
    + destruct (lone None (c :: r)); [discriminate|].
      destruct (finish jinit KStmt [] None l) as [st'|] eqn:F; [|discriminate].
      destruct (j_pend st') eqn:P; [discriminate|]. destruct (finish_inv _ _ _ _ _ _ F P) as [I0 _].
      rewrite I0 in H. cbn in H. discriminate.
Qed.

(* no break key starts inside the sentinel (checked on the generated key lists) *)
Definition nokey_chk (sent : str) (keys : list str) : bool :=
  forallb (fun key => match key with [] => false | k0 :: _ => forallb (fun sc => negb (ieqb sc k0)) (tl sent) end) keys.

Lemma nokey_gen : forall sent keys, length sent = 5 -> nokey_chk sent keys = true ->
  forall body key j, iprefixb sent body = true -> In key keys -> 1 <= j <= 4 -> prefixb key (skipn j body) = false.
Proof.
  intros sent keys Hlen Hchk body key j Hip Hin Hj.
  unfold nokey_chk in Hchk. rewrite forallb_forall in Hchk. specialize (Hchk key Hin).
  destruct key as [|k0 kr]; [discriminate|].
  destruct sent as [|s0 [|s1 [|s2 [|s3 [|s4 [|? ?]]]]]]; try discriminate Hlen.
  cbn [tl forallb] in Hchk.
  apply andb_true_iff in Hchk as [N1 Hchk]. apply andb_true_iff in Hchk as [N2 Hchk].
  apply andb_true_iff in Hchk as [N3 Hchk]. apply andb_true_iff in Hchk as [N4 _].
  apply negb_true_iff in N1, N2, N3, N4.
  destruct body as [|b0 body]; [discriminate Hip|]. cbn [iprefixb] in Hip. apply andb_true_iff in Hip as [I0 Hip].
  destruct body as [|b1 body]; [discriminate Hip|]. cbn [iprefixb] in Hip. apply andb_true_iff in Hip as [I1 Hip].
  destruct body as [|b2 body]; [discriminate Hip|]. cbn [iprefixb] in Hip. apply andb_true_iff in Hip as [I2 Hip].
  destruct body as [|b3 body]; [discriminate Hip|]. cbn [iprefixb] in Hip. apply andb_true_iff in Hip as [I3 Hip].
  destruct body as [|b4 body]; [discriminate Hip|]. cbn [iprefixb] in Hip. apply andb_true_iff in Hip as [I4 _].
  assert (Hjj : j = 1 \/ j = 2 \/ j = 3 \/ j = 4) by lia.
  destruct Hjj as [-> | [-> | [-> | ->]]]; cbn [skipn prefixb].
  - destruct (Ascii.eqb k0 b1) eqn:E; [|reflexivity]. apply Ascii.eqb_eq in E. subst. congruence.
  - destruct (Ascii.eqb k0 b2) eqn:E; [|reflexivity]. apply Ascii.eqb_eq in E. subst. congruence.
  - destruct (Ascii.eqb k0 b3) eqn:E; [|reflexivity]. apply Ascii.eqb_eq in E. subst. congruence.
  - destruct (Ascii.eqb k0 b4) eqn:E; [|reflexivity]. apply Ascii.eqb_eq in E. subst. congruence.
Qed.

Definition c5t_omp : str := map ascii_of_N [36; 111; 109; 112]%N.   (* $omp *)
Definition c5t_acc : str := map ascii_of_N [36; 97; 99; 99]%N.      (* $acc *)

Theorem join_process_omp : forall L l ls t,
  line_type l = Omp -> join [l] = Some ([(KOmp, t)], []) -> process_line L l = Ok ls ->
  exists t', join ls = Some ([(KOmp, t')], []) /\ squeeze true t' = squeeze true t.
Proof.
  apply (join_process_dir_ KOmp sent_omp c5t_omp Omp).
  - reflexivity.
  - reflexivity.
  - reflexivity.
  - reflexivity.
  - reflexivity.
  - intros q body line. reflexivity.
  - exact idle_omp.
  - intros l t H. exact (join1_kind l KOmp t H).
  - apply nokey_gen; [reflexivity | vm_compute; reflexivity].
  - apply keys_softb_ok. vm_compute. reflexivity.
Qed.

Theorem join_process_acc : forall L l ls t,
  line_type l = Acc -> join [l] = Some ([(KAcc, t)], []) -> process_line L l = Ok ls ->
  exists t', join ls = Some ([(KAcc, t')], []) /\ squeeze true t' = squeeze true t.
Proof.
  apply (join_process_dir_ KAcc sent_acc c5t_acc Acc).
  - reflexivity.
  - reflexivity.
  - reflexivity.
  - reflexivity.
  - reflexivity.
  - intros q body line. reflexivity.
  - exact idle_acc.
  - intros l t H. exact (join1_kind l KAcc t H).
  - apply nokey_gen; [reflexivity | vm_compute; reflexivity].
  - apply keys_softb_ok. vm_compute. reflexivity.
Qed.

(* ---- the unified statement ------------------------------------------------------------------ *)
Lemma str_eqb_refl : forall s, str_eqb s s = true.
Proof. intros s. apply str_eqb_eq. reflexivity. Qed.

Lemma list_eqb_refl : forall {A} (e : A -> A -> bool), (forall x, e x x = true) -> forall l, list_eqb e l l = true.
Proof. intros A e He l. induction l as [|x l IH]; [reflexivity|]. cbn. rewrite He, IH. reflexivity. Qed.

Lemma item_equiv_refl : forall x, item_equiv x x = true.
Proof.
  intros [k t]. unfold item_equiv. cbn [fst snd]. destruct k; cbn; apply str_eqb_refl.
Qed.

Lemma jequiv_refl : forall r, jequiv r r = true.
Proof.
  intros [items cmts]. unfold jequiv. cbn [fst snd].
  rewrite (list_eqb_refl item_equiv item_equiv_refl), (list_eqb_refl str_eqb str_eqb_refl). reflexivity.
Qed.

Theorem join_process_partial_ : forall L l ls r,
  safe l = true -> join [l] = Some r -> process_line L l = Ok ls ->
  exists r', join ls = Some r' /\ jequiv r' r = true.
Proof.
  intros L l ls r Hs Hj H. unfold safe in Hs. rewrite Hj in Hs.
  destruct r as [items cmts].
  destruct items as [|[k t] [|? ?]]; destruct cmts as [|cm [|? ?]]; try discriminate Hs.
  - (* one comment *)
    destruct (line_type l) eqn:Ht; try discriminate Hs.
    exists ([], [cm]). split; [eapply join_process_cmt; eauto | apply jequiv_refl].
  - (* one statement or directive *)
    destruct (line_type l) eqn:Ht; destruct k; try discriminate Hs.
    + exists ([(KStmt, t)], []). split; [|apply jequiv_refl].
      eapply join_process_stmt; eauto.
    + destruct (join_process_omp L l ls t Ht Hj H) as [t' [J S]].
      exists ([(KOmp, t')], []). split; [assumption|].
      unfold jequiv, item_equiv, canon. cbn [fst snd is_dir kind_eqb list_eqb andb]. rewrite S, str_eqb_refl. reflexivity.
    + destruct (join_process_acc L l ls t Ht Hj H) as [t' [J S]].
      exists ([(KAcc, t')], []). split; [assumption|].
      unfold jequiv, item_equiv, canon. cbn [fst snd is_dir kind_eqb list_eqb andb]. rewrite S, str_eqb_refl. reflexivity.
    + exists ([(KStmt, t)], []). split; [|apply jequiv_refl].
      eapply join_process_stmt; eauto.
Qed.
