(* C18 — joining the limiter's output gives back the directive, modulo blanks inserted after a
   blank / `,` / `)` / `=` (line types openmp_directive / openacc_directive).  The argument is
   written once in a Section and instantiated for both sentinels. *)
From Coq Require Import Ascii Arith Bool NArith List Lia.
Import ListNotations.
From PV Require Import C18.Types C18.Gen C18.Model C18.Join C18.StrLemmas C18.LimitProofs C18.JoinLemmas C18.JoinStmt.

(* ---- squeeze ------------------------------------------------------------------------------ *)
Fixpoint sq_state (p : bool) (s : str) : bool :=
  match s with [] => p | c :: r => sq_state (if is_ws c then true else dir_delim c) r end.

Lemma squeeze_app : forall a b p, squeeze p (a ++ b) = squeeze p a ++ squeeze (sq_state p a) b.
Proof.
  induction a as [|c a IH]; intros b p; [reflexivity|].
  cbn [app squeeze sq_state]. destruct (is_ws c).
  - destruct p; rewrite IH; reflexivity.
  - rewrite IH. reflexivity.
Qed.

Lemma sq_state_app : forall a b p, sq_state p (a ++ b) = sq_state (sq_state p a) b.
Proof. induction a as [|c a IH]; intros b p; [reflexivity|]. cbn [app sq_state]. apply IH. Qed.

Lemma sq_state_snoc : forall s c p, sq_state p (s ++ [c]) = soft c.
Proof. intros s c p. rewrite sq_state_app. cbn [sq_state]. unfold soft. destruct (is_ws c); reflexivity. Qed.

Lemma squeeze_blank : forall s, squeeze true (blank :: s) = squeeze true s.
Proof. intros s. cbn [squeeze]. rewrite ws_blank. reflexivity. Qed.

(* every key ends with a soft character *)
Definition keys_soft (keys : list str) : Prop :=
  Forall (fun key => exists p c, key = p ++ [c] /\ soft c = true) keys.
Definition keys_softb (keys : list str) : bool :=
  forallb (fun key => match rev key with c :: _ => soft c | [] => false end) keys.
Lemma keys_softb_ok : forall keys, keys_softb keys = true -> keys_soft keys.
Proof.
  intros keys H. unfold keys_softb in H. rewrite forallb_forall in H. apply Forall_forall.
  intros key Hin. specialize (H key Hin). destruct (rev key) as [|c r] eqn:E; [discriminate|].
  exists (rev r), c. split; [|assumption]. rewrite <- (rev_involutive key), E. reflexivity.
Qed.

(* the segment cut at a break point ends with the key that was found *)
Lemma firstn_plus : forall {A} (l : list A) n m, firstn (n + m) l = firstn n l ++ firstn m (skipn n l).
Proof.
  intros A l. induction l as [|x l IH]; intros n m.
  - rewrite !firstn_nil, skipn_nil, firstn_nil. reflexivity.
  - destruct n as [|n]; [reflexivity|]. cbn [plus firstn skipn app]. rewrite IH. reflexivity.
Qed.

Lemma fbp_seg_end : forall line m keys bp, keys_ok keys -> find_break_point line m keys = Some bp ->
  exists p key i, In key keys /\ firstn bp line = p ++ key /\ occurs key line i /\ fnw line + 1 <= i /\ bp = i + length key.
Proof.
  intros line m keys bp Hk H. apply fbp_sound in H; [|assumption].
  destruct H as [key [i [Hin [Hne [Hbp [[Hl Hp] [Hlo Hm]]]]]]].
  exists (firstn i line), key, i. repeat split; try assumption.
  subst bp. rewrite firstn_plus. f_equal.
  destruct (prefixb_app _ _ Hp) as [r Hr]. rewrite Hr.
  rewrite firstn_app, Nat.sub_diag, firstn_O, app_nil_r. apply firstn_all.
Qed.

Lemma snoc_suffix : forall (a b p : str) c, a ++ b = p ++ [c] -> b <> [] -> exists p', b = p' ++ [c].
Proof.
  intros a b p c H Hb. apply (f_equal (@rev _)) in H. rewrite !rev_app_distr in H. cbn [rev app] in H.
  destruct (rev b) as [|d r] eqn:E.
  - exfalso. apply Hb. rewrite <- (rev_involutive b), E. reflexivity.
  - cbn [app] in H. inversion H; subst. exists (rev r). rewrite <- (rev_involutive b), E. reflexivity.
Qed.

Lemma amp_end_suffix : forall a b, amp_end (a ++ b) = false -> amp_end b = false.
Proof.
  intros a b H. unfold amp_end in *. rewrite rev_app_distr in H.
  destruct (lstrip (rev b)) as [|c r] eqn:E; [reflexivity|].
  rewrite lstrip_app_nonempty in H by (rewrite E; discriminate). rewrite E in H. exact H.
Qed.

Lemma amp_end_ws_cons : forall c s, is_ws c = true -> amp_end (c :: s) = amp_end s.
Proof.
  intros c s H. unfold amp_end. cbn [rev].
  destruct (lstrip (rev s)) as [|d r] eqn:E.
  - destruct (lstrip_decomp (rev s)) as [w [Ew [Hw _]]]. rewrite E, app_nil_r in Ew. rewrite Ew.
    rewrite lstrip_ws_app by assumption. cbn [lstrip]. rewrite H. reflexivity.
  - rewrite lstrip_app_nonempty by (rewrite E; discriminate). rewrite E. reflexivity.
Qed.

Lemma iprefixb_app_r : forall p a r, iprefixb p a = true -> iprefixb p (a ++ r) = true.
Proof.
  induction p as [|x p IH]; intros a r H; [reflexivity|].
  destruct a as [|y a]; [discriminate|]. cbn in *. apply andb_true_iff in H as [H1 H2].
  rewrite H1. apply IH. assumption.
Qed.

Lemma iprefixb_length : forall p a, iprefixb p a = true -> length p <= length a.
Proof.
  induction p as [|x p IH]; intros a H; [cbn; lia|].
  destruct a as [|y a]; [discriminate|]. cbn in *. apply andb_true_iff in H as [_ H]. apply IH in H. lia.
Qed.

Lemma iprefixb_firstn_ge : forall p s n, iprefixb p s = true -> length p <= n -> iprefixb p (firstn n s) = true.
Proof.
  induction p as [|x p IH]; intros s n H Hn; [reflexivity|].
  destruct s as [|y s]; [discriminate|]. destruct n as [|n]; [cbn in Hn; lia|].
  cbn in *. apply andb_true_iff in H as [H1 H2]. rewrite H1. apply IH; [assumption | lia].
Qed.

Section Dir.
  Variables (k : kind) (sent c5t : str) (ty : ltype).
  Let c5 : str := bang :: c5t.
  Hypothesis Hc5len : length c5t = 4.
  Hypothesis Hc5sent : iprefixb sent c5 = true.
  Hypothesis Hsentlen : length sent = 5.
  Hypothesis Hcs : cont_start ty = c5 ++ [amp; blank].
  Hypothesis Hce : cont_end ty = [blank; amp].
  Hypothesis Hct : forall q body line, cont_text k q body line =
    if iprefixb sent body
    then (if first_is amp (lstrip (skipn 5 body)) then Some (Some (tl (lstrip (skipn 5 body)))) else Some (Some (skipn 5 body)))
    else None.
  Hypothesis Hidle : forall st x, j_pend st = None -> dir_start sent (lstrip x) = true ->
    step st x = finish st k (firstn 5 (lstrip x)) None (skipn 5 (lstrip x)).
  Hypothesis Hinv : forall l t, join [l] = Some ([(k, t)], []) -> dir_start sent (lstrip l) = true.
  Hypothesis Hnokey : forall body key j, iprefixb sent body = true -> In key (key_list ty) -> 1 <= j <= 4 ->
    prefixb key (skipn j body) = false.
  Hypothesis Hsoft : keys_soft (key_list ty).

  Let cs : str := c5 ++ [amp; blank].
  Let ce : str := [blank; amp].

  Lemma blank_wrap_nocmt : forall q seg, qok q -> scan_cmt q seg = None ->
    scan_cmt q (blank :: seg ++ [blank]) = None /\ scan_q q (blank :: seg ++ [blank]) = scan_q q seg.
  Proof.
    intros q seg Hq H. pose proof (scan_q_ok seg q Hq) as Hq'.
    rewrite scan_cmt_cons, scan_q_cons by (assumption || apply neutral_blank).
    rewrite scan_cmt_app, scan_q_app by assumption.
    rewrite scan_cmt_cons, scan_q_cons by (assumption || apply neutral_blank).
    split; reflexivity.
  Qed.

  (* continuation text of a line  c5 & <blank> text *)
  Lemma cont_text_dir : forall q text line,
    cont_text k q (c5 ++ amp :: blank :: text) line = Some (Some (blank :: text)).
  Proof.
    intros q text line. rewrite Hct.
    rewrite (iprefixb_app_r sent c5 _ Hc5sent).
    assert (S5 : skipn 5 (c5 ++ amp :: blank :: text) = amp :: blank :: text).
    { assert (L5 : length c5 = 5) by (unfold c5; cbn [length]; rewrite Hc5len; reflexivity).
      rewrite skipn_app, L5, (skipn_all2 c5) by lia. reflexivity. }
    rewrite S5. rewrite (lstrip_nonws amp _ ws_amp). cbn [first_is tl].
    change (Ascii.eqb amp amp) with true. reflexivity.
  Qed.

  Lemma lstrip_cs : forall rest, lstrip (c5 ++ rest) = c5 ++ rest.
  Proof. intros rest. unfold c5. cbn [app]. apply lstrip_nonws. apply ws_bang. Qed.

  Lemma step_dir_mid : forall st acc q seg, qok q -> scan_cmt q seg = None ->
    j_pend st = Some (mkPend k acc q) ->
    step st (cs ++ seg ++ ce) =
    Some (mkJ (j_items st) (j_cmts st) (Some (mkPend k (acc ++ blank :: seg ++ [blank]) (scan_q q seg))) false).
  Proof.
    intros st acc q seg Hq Hc Hp. unfold step. rewrite Hp. cbv zeta. cbn [pk pq pacc].
    unfold cs, ce. rewrite <- app_assoc. cbn [app]. rewrite lstrip_cs.
    assert (E : c5 ++ amp :: blank :: seg ++ [blank; amp] = bang :: (c5t ++ amp :: blank :: seg ++ [blank; amp]))
      by reflexivity.
    rewrite E at 1. cbv iota. rewrite cont_text_dir.
    destruct (blank_wrap_nocmt q seg Hq Hc) as [W1 W2].
    replace (blank :: seg ++ [blank; amp]) with ((blank :: seg ++ [blank]) ++ [amp])
      by (cbn [app]; rewrite <- app_assoc; reflexivity).
    rewrite (finish_amp st k acc q _ Hq W1). rewrite W2. reflexivity.
  Qed.

  Lemma step_dir_last : forall st acc q rest, qok q -> scan_cmt q rest = None -> scan_q q rest = None ->
    amp_end rest = false -> j_pend st = Some (mkPend k acc q) ->
    step st (cs ++ rest) = Some (mkJ ((k, lstrip (acc ++ blank :: rest)) :: j_items st) (j_cmts st) None false).
  Proof.
    intros st acc q rest Hq Hc Hqf Ha Hp. unfold step. rewrite Hp. cbv zeta. cbn [pk pq pacc].
    unfold cs. rewrite <- app_assoc. cbn [app]. rewrite lstrip_cs.
    assert (E : c5 ++ amp :: blank :: rest = bang :: (c5t ++ amp :: blank :: rest)) by reflexivity.
    rewrite E at 1. cbv iota. rewrite cont_text_dir.
    apply finish_done.
    - rewrite scan_cmt_cons by (assumption || apply neutral_blank). assumption.
    - rewrite scan_q_cons by (assumption || apply neutral_blank). assumption.
    - rewrite amp_end_ws_cons by apply ws_blank. assumption.
  Qed.

  Lemma dir_loop_ : forall cs' ce', cs' = cs -> ce' = ce -> forall fuel L line ls st acc q, qok q ->
    j_pend st = Some (mkPend k acc q) -> line <> [] ->
    scan_cmt q line = None -> scan_q q line = None -> amp_end line = false ->
    cont_loop fuel L cs' ce' (key_list ty) line = Ok ls ->
    exists X, run st ls = Some (mkJ ((k, lstrip (acc ++ X)) :: j_items st) (j_cmts st) None false)
              /\ squeeze true X = squeeze true line.
  Proof.
    intros cs' ce' Ecs Ece.
    assert (Lcs : length cs' = 7) by (rewrite Ecs; unfold cs, c5; rewrite app_length; cbn [length]; rewrite Hc5len; reflexivity).
    assert (Lce : length ce' = 2) by (rewrite Ece; reflexivity).
    pose proof (keys_ok_all ty) as Hk.
    induction fuel as [|f IH]; intros L line ls st acc q Hq Hp Hne Hc Hqf Ha H; cbn [cont_loop] in H;
      destruct (length line + length cs' <=? L) eqn:E.
    - destruct line as [|c r]; [congruence|]. injection H as <-. exists (blank :: c :: r). cbn [run]. rewrite Ecs.
      rewrite (step_dir_last st acc q (c :: r)) by assumption. split; [reflexivity | apply squeeze_blank].
    - discriminate.
    - destruct line as [|c r]; [congruence|]. injection H as <-. exists (blank :: c :: r). cbn [run]. rewrite Ecs.
      rewrite (step_dir_last st acc q (c :: r)) by assumption. split; [reflexivity | apply squeeze_blank].
    - destruct (find_break_point line (L - length ce' - length cs') (key_list ty)) as [bp|] eqn:F; [|discriminate].
      destruct (cont_loop f L cs' ce' (key_list ty) (skipn bp line)) as [ls'| |] eqn:C; try discriminate.
      injection H as <-.
      apply Nat.leb_gt in E.
      destruct (fbp_bounds _ _ _ _ Hk F) as [B1 [B2 [B3 B4]]].
      assert (Hlt : bp < length line) by lia.
      assert (Hsplit : line = firstn bp line ++ skipn bp line) by (symmetry; apply firstn_skipn).
      assert (Hc1 : scan_cmt q (firstn bp line) = None).
      { apply (scan_cmt_app_none _ (skipn bp line)). rewrite <- Hsplit. assumption. }
      assert (Hc2 : scan_cmt (scan_q q (firstn bp line)) (skipn bp line) = None).
      { rewrite <- scan_cmt_app by assumption. rewrite <- Hsplit. assumption. }
      assert (Hq2 : scan_q (scan_q q (firstn bp line)) (skipn bp line) = None).
      { rewrite <- scan_q_app by assumption. rewrite <- Hsplit. assumption. }
      assert (Hne2 : skipn bp line <> []).
      { intro X. apply (f_equal (@length _)) in X. rewrite skipn_length in X. cbn in X. lia. }
      assert (Ha2 : amp_end (skipn bp line) = false).
      { apply (amp_end_suffix (firstn bp line)). rewrite <- Hsplit. assumption. }
      destruct (IH L (skipn bp line) ls'
                  (mkJ (j_items st) (j_cmts st)
                       (Some (mkPend k (acc ++ blank :: firstn bp line ++ [blank]) (scan_q q (firstn bp line)))) false)
                  (acc ++ blank :: firstn bp line ++ [blank]) (scan_q q (firstn bp line))
                  (scan_q_ok _ _ Hq) eq_refl Hne2 Hc2 Hq2 Ha2 C) as [X' [R' S']].
      exists (blank :: firstn bp line ++ blank :: X'). split.
      + cbn [run]. rewrite Ecs, Ece. rewrite (step_dir_mid st acc q (firstn bp line) Hq Hc1 Hp). rewrite R'.
        cbn [j_items j_cmts]. rewrite <- !app_assoc. cbn [app]. rewrite <- !app_assoc. reflexivity.
      + (* the segment ends with a soft character, so the inserted blanks are squeezed away *)
        destruct (fbp_seg_end _ _ _ _ Hk F) as [p [key [i [Hin [Hseg _]]]]].
        pose proof Hsoft as Hs. unfold keys_soft in Hs. rewrite Forall_forall in Hs.
        destruct (Hs key Hin) as [kp [kc [Hkey Hkc]]].
        assert (St : sq_state true (firstn bp line) = true).
        { rewrite Hseg, Hkey, app_assoc. rewrite sq_state_snoc. assumption. }
        rewrite squeeze_blank. rewrite squeeze_app, St, squeeze_blank, S'.
        rewrite Hsplit at 3. rewrite squeeze_app, St. reflexivity.
  Qed.

  Definition dir_loop := dir_loop_ cs ce eq_refl eq_refl.

  (* a directive line read on its own *)
  Definition dir_facts (x : str) : Prop :=
    dir_start sent (lstrip x) = true /\ scan_cmt None (skipn 5 (lstrip x)) = None /\
    scan_q None (skipn 5 (lstrip x)) = None /\ amp_end (skipn 5 (lstrip x)) = false.

  Lemma join1_dir_inv : forall l t, join [l] = Some ([(k, t)], []) -> dir_facts l /\ t = lstrip l.
  Proof.
    intros l t H. pose proof (Hinv l t H) as Hd.
    unfold join in H. rewrite run1 in H. rewrite (Hidle jinit l eq_refl Hd) in H.
    destruct (finish jinit k _ None _) as [st'|] eqn:F; [|discriminate].
    destruct (j_pend st') eqn:P; [discriminate|].
    destruct (finish_inv _ _ _ _ _ _ F P) as [I [Cm [Q A]]].
    rewrite I, Cm in H. cbn [jinit j_items j_cmts rev app] in H.
    destruct (scan_cmt None (skipn 5 (lstrip l))) eqn:Sc; [cbn in H; discriminate|].
    rewrite (scan_code_nocmt _ None Sc) in *. rewrite firstn_skipn, lstrip_idem in H.
    injection H as <-. repeat split; assumption.
  Qed.

  Lemma join1_dir_intro : forall x, dir_facts x -> join [x] = Some ([(k, lstrip x)], []).
  Proof.
    intros x [Hd [Sc [Sq Ae]]]. unfold join. rewrite run1. rewrite (Hidle jinit x eq_refl Hd).
    rewrite finish_done by assumption. cbn [j_pend j_items j_cmts jinit rev app].
    rewrite firstn_skipn, lstrip_idem. reflexivity.
  Qed.

  Lemma dir_facts_lstrip : forall x, dir_facts x -> dir_facts (lstrip x).
  Proof. intros x H. unfold dir_facts in *. rewrite lstrip_idem. exact H. Qed.

  Lemma dir_emit : forall L x bp ls m, dir_facts x ->
    find_break_point x m (key_list ty) = Some bp -> bp < length x ->
    emit L cs ce (key_list ty) x bp = Ok ls ->
    exists t', join ls = Some ([(k, t')], []) /\ squeeze true t' = squeeze true (lstrip x).
  Proof.
    intros L x bp ls m [Hd [Sc [Sq Ae]]] F Hlt H.
    pose proof (keys_ok_all ty) as Hk. unfold emit in H.
    destruct (cont_loop (length x) L cs ce (key_list ty) (skipn bp x)) as [ls'| |] eqn:C; try discriminate.
    injection H as <-.
    unfold dir_start in Hd. apply andb_true_iff in Hd as [Hip Hnext].
    destruct (lstrip_decomp x) as [w [Ex [Hw Hwl]]].
    destruct (fbp_bounds _ _ _ _ Hk F) as [B1 [_ [_ B4]]].
    (* the break point lies after the sentinel *)
    destruct (fbp_seg_end _ _ _ _ Hk F) as [p [key [i [Hin [Hseg [[Hil Hocc] [Hlo Hbp]]]]]]].
    assert (Hi : fnw x + 5 <= i).
    { destruct (le_lt_dec (fnw x + 5) i) as [|Hlt5]; [assumption|]. exfalso.
      assert (Hsk : skipn i x = skipn (i - fnw x) (lstrip x)).
      { rewrite Ex at 1. rewrite skipn_app, Hwl. rewrite (skipn_all2 w) by lia. reflexivity. }
      rewrite Hsk in Hocc. rewrite (Hnokey (lstrip x) key (i - fnw x) Hip Hin) in Hocc by lia. discriminate. }
    assert (Hkl : 1 <= length key).
    { pose proof Hk as Hk'. unfold keys_ok in Hk'. rewrite Forall_forall in Hk'. specialize (Hk' key Hin).
      destruct key; [congruence | cbn; lia]. }
    assert (Hb6 : fnw x + 6 <= bp) by lia.
    destruct (lstrip_firstn x bp ltac:(lia) B4) as [F1 F2].
    set (b1 := lstrip (firstn bp x)) in *.
    assert (Hb1len : length b1 = bp - fnw x).
    { rewrite F1. rewrite firstn_length. pose proof (fnw_lstrip_length x). lia. }
    assert (Hbody : lstrip x = b1 ++ skipn bp x).
    { unfold b1. rewrite <- lstrip_app_nonempty by assumption. rewrite firstn_skipn. reflexivity. }
    assert (Hsk5 : skipn 5 (lstrip x) = skipn 5 b1 ++ skipn bp x).
    { rewrite Hbody, skipn_app. replace (5 - length b1) with 0 by lia. reflexivity. }
    assert (Hf5 : firstn 5 (lstrip x) = firstn 5 b1).
    { rewrite Hbody, firstn_app. replace (5 - length b1) with 0 by lia. cbn [firstn]. apply app_nil_r. }
    assert (Hc1 : scan_cmt None (skipn 5 b1) = None).
    { apply (scan_cmt_app_none _ (skipn bp x)). rewrite <- Hsk5. assumption. }
    assert (Hc2 : scan_cmt (scan_q None (skipn 5 b1)) (skipn bp x) = None).
    { rewrite <- scan_cmt_app by assumption. rewrite <- Hsk5. assumption. }
    assert (Hq2 : scan_q (scan_q None (skipn 5 b1)) (skipn bp x) = None).
    { rewrite <- scan_q_app by assumption. rewrite <- Hsk5. assumption. }
    assert (Hne2 : skipn bp x <> []).
    { intro X. apply (f_equal (@length _)) in X. rewrite skipn_length in X. cbn in X. lia. }
    assert (Ha2 : amp_end (skipn bp x) = false).
    { apply (amp_end_suffix (skipn 5 b1)). rewrite <- Hsk5. assumption. }
    (* the first line  seg1 ++ " &" *)
    assert (Hd1 : dir_start sent (b1 ++ ce) = true).
    { unfold dir_start. rewrite iprefixb_app_r.
      - rewrite Hsentlen. rewrite skipn_app. replace (5 - length b1) with 0 by lia.
        destruct (skipn 5 b1) as [|c r] eqn:E5.
        + apply (f_equal (@length _)) in E5. rewrite skipn_length in E5. cbn in E5. lia.
        + rewrite Hsentlen, Hsk5 in Hnext. cbn [app] in *. exact Hnext.
      - rewrite F1. apply iprefixb_firstn_ge; [assumption | lia]. }
    assert (S1 : step jinit (firstn bp x ++ ce) =
                 Some (mkJ [] [] (Some (mkPend k (b1 ++ [blank]) (scan_q None (skipn 5 b1)))) false)).
    { assert (El : lstrip (firstn bp x ++ ce) = b1 ++ ce) by (apply lstrip_app_nonempty; assumption).
      rewrite (Hidle jinit _ eq_refl); rewrite El; [|assumption].
      rewrite firstn_app, skipn_app. replace (5 - length b1) with 0 by lia. rewrite firstn_O, skipn_O, app_nil_r.
      unfold ce. replace (skipn 5 b1 ++ [blank; amp]) with ((skipn 5 b1 ++ [blank]) ++ [amp])
        by (rewrite <- app_assoc; reflexivity).
      rewrite finish_amp; [| apply qok_none |].
      - rewrite app_assoc, firstn_skipn.
        rewrite scan_q_app by assumption.
        rewrite scan_q_cons by (apply scan_q_ok, qok_none) || apply neutral_blank. reflexivity.
      - rewrite scan_cmt_app by assumption.
        rewrite scan_cmt_cons by (apply scan_q_ok, qok_none) || apply neutral_blank. reflexivity. }
    destruct (dir_loop _ L (skipn bp x) ls'
                (mkJ [] [] (Some (mkPend k (b1 ++ [blank]) (scan_q None (skipn 5 b1)))) false)
                (b1 ++ [blank]) (scan_q None (skipn 5 b1)) (scan_q_ok _ _ qok_none) eq_refl Hne2 Hc2 Hq2 Ha2 C)
      as [X [R S]].
    exists (lstrip ((b1 ++ [blank]) ++ X)). split.
    - unfold join. cbn [run]. rewrite S1, R. reflexivity.
    - destruct b1 as [|c0 r0] eqn:Eb1; [congruence|].
      assert (W0 : is_ws c0 = false) by (eapply (lstrip_head_nonws (firstn bp x)); eauto).
      cbn [app]. rewrite lstrip_nonws by assumption.
      change (c0 :: (r0 ++ [blank]) ++ X) with (((c0 :: r0) ++ [blank]) ++ X). rewrite <- app_assoc. cbn [app].
      pose proof Hsoft as Hs. unfold keys_soft in Hs. rewrite Forall_forall in Hs.
      destruct (Hs key Hin) as [kp [kc [Hkey Hkc]]].
      destruct (lstrip_decomp (firstn bp x)) as [w1 [Ex1 _]].
      assert (Hend : exists p', c0 :: r0 = p' ++ [kc]).
      { apply (snoc_suffix w1 _ (p ++ kp)); [|discriminate].
        unfold b1 in Eb1. rewrite Eb1 in Ex1. rewrite <- Ex1, Hseg, Hkey, app_assoc. reflexivity. }
      destruct Hend as [p' Hp'].
      assert (St : sq_state true (c0 :: r0) = true) by (rewrite Hp', sq_state_snoc; assumption).
      change (c0 :: r0 ++ blank :: X) with ((c0 :: r0) ++ blank :: X).
      rewrite squeeze_app, St, squeeze_blank, S. rewrite Hbody.
      change (c0 :: r0 ++ skipn bp x) with ((c0 :: r0) ++ skipn bp x) || idtac.
      rewrite squeeze_app, St. reflexivity.
  Qed.

  Theorem join_process_dir_ : forall L l ls t,
    line_type l = ty -> join [l] = Some ([(k, t)], []) -> process_line L l = Ok ls ->
    exists t', join ls = Some ([(k, t')], []) /\ squeeze true t' = squeeze true t.
  Proof.
    intros L l ls t Ht Hj H.
    destruct (join1_dir_inv l t Hj) as [Fx Et]. subst t.
    pose proof (keys_ok_all ty) as Hk.
    unfold process_line in H. rewrite Ht in H. rewrite Hcs, Hce in H. fold cs ce in H.
    destruct (length l <=? L) eqn:E.
    - injection H as <-. exists (lstrip l). split; [assumption | reflexivity].
    - apply Nat.leb_gt in E.
      destruct (find_break_point l (L - length ce) (key_list ty)) as [bp|] eqn:F.
      + destruct (fbp_bounds _ _ _ _ Hk F) as [B1 [B2 [B3 B4]]].
        apply (dir_emit L l bp ls _ Fx F); [lia | assumption].
      + destruct (length (lstrip l) <? L) eqn:E2.
        * injection H as <-. exists (lstrip l). split; [|reflexivity].
          rewrite <- (lstrip_idem l) at 2. apply join1_dir_intro. apply dir_facts_lstrip. assumption.
        * apply Nat.ltb_ge in E2.
          destruct (find_break_point (lstrip l) (L - length ce) (key_list ty)) as [bp|] eqn:F2; [|discriminate].
          destruct (fbp_bounds _ _ _ _ Hk F2) as [B1 [B2 [B3 B4]]].
          rewrite <- (lstrip_idem l).
          apply (dir_emit L (lstrip l) bp ls _ (dir_facts_lstrip l Fx) F2); [cbn [ce length] in B2; lia | assumption].
  Qed.
End Dir.
