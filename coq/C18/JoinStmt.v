(* C18 — joining the limiter's output gives back the statement (line types statement / unknown) *)
From Coq Require Import Ascii Arith Bool NArith List Lia.
Import ListNotations.
From PV Require Import C18.Types C18.Gen C18.Model C18.Join C18.StrLemmas C18.LimitProofs C18.JoinLemmas.

(* the generated continuation strings of the two statement kinds *)
Lemma cs_statement : cont_start Statement = [amp] /\ cont_end Statement = [amp]. Proof. split; reflexivity. Qed.
Lemma cs_unknown : cont_start Unknown = [amp] /\ cont_end Unknown = [amp]. Proof. split; reflexivity. Qed.

Lemma scan_cmt_wrap : forall q seg, qok q -> scan_cmt q seg = None -> scan_cmt q (amp :: seg ++ [amp]) = None.
Proof.
  intros q seg Hq H. rewrite scan_cmt_cons by (assumption || apply neutral_amp).
  rewrite scan_cmt_app by assumption.
  rewrite scan_cmt_cons by (apply scan_q_ok; assumption) || apply neutral_amp.
  reflexivity.
Qed.

(* a middle line  &seg&  met while a statement is pending *)
Lemma step_stmt_mid : forall st acc q seg, qok q -> scan_cmt q seg = None ->
  j_pend st = Some (mkPend KStmt acc q) ->
  step st (amp :: seg ++ [amp]) =
  Some (mkJ (j_items st) (j_cmts st) (Some (mkPend KStmt (acc ++ seg) (scan_q q seg))) false).
Proof.
  intros st acc q seg Hq Hc Hp. unfold step. rewrite Hp. cbv zeta. cbn [pk pq pacc].
  rewrite (lstrip_nonws amp _ ws_amp). cbv iota.
  unfold cont_text. cbn [first_is].
  change (Ascii.eqb amp bang) with false. change (Ascii.eqb amp amp) with true. cbv iota.
  rewrite (not_lone q amp seg amp Hq (scan_cmt_wrap q seg Hq Hc) ws_amp ws_amp).
  cbn [tl]. apply finish_amp; assumption.
Qed.

(* the last line  &rest *)
Lemma step_stmt_last : forall st acc q rest, qok q -> scan_cmt q rest = None -> scan_q q rest = None ->
  good_end rest = true -> j_pend st = Some (mkPend KStmt acc q) ->
  step st (amp :: rest) = Some (mkJ ((KStmt, lstrip (acc ++ rest)) :: j_items st) (j_cmts st) None false).
Proof.
  intros st acc q rest Hq Hc Hqf Hg Hp. unfold step. rewrite Hp. cbv zeta. cbn [pk pq pacc].
  rewrite (lstrip_nonws amp _ ws_amp). cbv iota.
  unfold cont_text. cbn [first_is].
  change (Ascii.eqb amp bang) with false. change (Ascii.eqb amp amp) with true. cbv iota.
  destruct (good_end_snoc rest Hg) as [p [c [E [W A]]]].
  assert (L0 : lone q (amp :: rest) = false).
  { rewrite E. apply not_lone; try assumption; [|apply ws_amp].
    rewrite <- E. rewrite scan_cmt_cons by (assumption || apply neutral_amp). assumption. }
  rewrite L0. cbn [tl]. apply finish_done; try assumption. apply good_end_amp_end. assumption.
Qed.

(* the continuation loop, run from a pending statement *)
Lemma stmt_loop : forall fuel L keys line ls st acc q, keys_ok keys -> qok q ->
  j_pend st = Some (mkPend KStmt acc q) ->
  scan_cmt q line = None -> scan_q q line = None -> good_end line = true ->
  cont_loop fuel L [amp] [amp] keys line = Ok ls ->
  run st ls = Some (mkJ ((KStmt, lstrip (acc ++ line)) :: j_items st) (j_cmts st) None false).
Proof.
  induction fuel as [|f IH]; intros L keys line ls st acc q Hk Hq Hp Hc Hqf Hg H; cbn [cont_loop] in H;
    destruct (length line + length [amp] <=? L) eqn:E.
  - destruct line as [|c r]; [discriminate Hg|]. inversion H; subst. cbn [run app].
    rewrite (step_stmt_last st acc q (c :: r)) by assumption. reflexivity.
  - discriminate.
  - destruct line as [|c r]; [discriminate Hg|]. inversion H; subst. cbn [run app].
    rewrite (step_stmt_last st acc q (c :: r)) by assumption. reflexivity.
  - destruct (find_break_point line (L - length [amp] - length [amp]) keys) as [bp|] eqn:F; [|discriminate].
    destruct (cont_loop f L [amp] [amp] keys (skipn bp line)) as [ls'| |] eqn:C; try discriminate.
    inversion H; subst. clear H.
    apply Nat.leb_gt in E. cbn [length] in E.
    destruct (fbp_bounds _ _ _ _ Hk F) as [B1 [B2 [B3 B4]]]. cbn [length] in B2.
    assert (Hlt : bp < length line) by lia.
    assert (Hsplit : line = firstn bp line ++ skipn bp line) by (symmetry; apply firstn_skipn).
    assert (Hc1 : scan_cmt q (firstn bp line) = None).
    { apply (scan_cmt_app_none _ (skipn bp line)). rewrite <- Hsplit. assumption. }
    assert (Hc2 : scan_cmt (scan_q q (firstn bp line)) (skipn bp line) = None).
    { rewrite <- scan_cmt_app by assumption. rewrite <- Hsplit. assumption. }
    assert (Hq2 : scan_q (scan_q q (firstn bp line)) (skipn bp line) = None).
    { rewrite <- scan_q_app by assumption. rewrite <- Hsplit. assumption. }
    assert (Hne : skipn bp line <> []).
    { intro X. apply (f_equal (@length _)) in X. rewrite skipn_length in X. cbn in X. lia. }
    assert (Hg2 : good_end (skipn bp line) = true).
    { rewrite <- (good_end_app (firstn bp line)) by assumption. rewrite <- Hsplit. assumption. }
    cbn [run app]. rewrite (step_stmt_mid st acc q (firstn bp line) Hq Hc1 Hp).
    rewrite (IH L keys (skipn bp line) ls'
               (mkJ (j_items st) (j_cmts st) (Some (mkPend KStmt (acc ++ firstn bp line) (scan_q q (firstn bp line)))) false)
               (acc ++ firstn bp line) (scan_q q (firstn bp line)) Hk
               (scan_q_ok _ _ Hq) eq_refl Hc2 Hq2 Hg2 C).
    cbn [j_items j_cmts]. rewrite <- app_assoc, <- Hsplit. reflexivity.
Qed.

(* what `join [x] = one statement, no comment` says about x, and conversely *)
Definition stmt_facts (x : str) : Prop :=
  (exists c r, lstrip x = c :: r /\ Ascii.eqb c bang = false) /\
  scan_cmt None x = None /\ scan_q None x = None /\ good_end x = true.

Lemma run1 : forall st l, run st [l] = step st l.
Proof. intros st l. cbn [run]. destruct (step st l); reflexivity. Qed.

Lemma join1_stmt_inv : forall l t, join [l] = Some ([(KStmt, t)], []) -> last_nonws l = true ->
  stmt_facts l /\ t = lstrip l.
Proof.
  intros l t H Hl. unfold join in H. rewrite run1 in H. unfold step in H. cbn [jinit j_pend] in H.
  unfold step_idle in H. cbv zeta in H.
  destruct (lstrip l) as [|c r] eqn:Eb.
  - cbn in H. discriminate.
  - destruct (Ascii.eqb c bang) eqn:Ec.
    + exfalso.
      destruct (dir_start sent_omp (c :: r)).
      { destruct (finish jinit KOmp _ None _) as [st'|] eqn:F; [|discriminate].
        destruct (j_pend st') eqn:P; [discriminate|]. destruct (finish_inv _ _ _ _ _ _ F P) as [I _].
        rewrite I in H. cbn in H. discriminate. }
      destruct (dir_start sent_acc (c :: r)).
      { destruct (finish jinit KAcc _ None _) as [st'|] eqn:F; [|discriminate].
        destruct (j_pend st') eqn:P; [discriminate|]. destruct (finish_inv _ _ _ _ _ _ F P) as [I _].
        rewrite I in H. cbn in H. discriminate. }
      destruct (cond_start (c :: r)).
      { destruct (lone None (skipn 2 (c :: r))); [discriminate|].
        destruct (finish jinit KCond _ None _) as [st'|] eqn:F; [|discriminate].
        destruct (j_pend st') eqn:P; [discriminate|]. destruct (finish_inv _ _ _ _ _ _ F P) as [I _].
        rewrite I in H. cbn in H. discriminate. }
      cbn [jinit j_merge andb] in H. rewrite andb_false_r in H. cbn in H. discriminate.
    + destruct (lone None (c :: r)); [discriminate|].
      destruct (finish jinit KStmt [] None l) as [st'|] eqn:F; [|discriminate].
      destruct (j_pend st') eqn:P; [discriminate|].
      destruct (finish_inv _ _ _ _ _ _ F P) as [I [Cm [Q A]]].
      rewrite I, Cm in H. cbn [jinit j_items j_cmts rev app] in H.
      destruct (scan_cmt None l) eqn:Sc; [cbn in H; discriminate|].
      rewrite (scan_code_nocmt l None Sc) in *. cbn [app] in H. inversion H; subst.
      split; [|exact Eb]. split; [exists c, r; split; [exact Eb | assumption]|].
      repeat split; try assumption. apply last_nonws_good; assumption.
Qed.

Lemma join1_stmt_intro : forall x, stmt_facts x -> join [x] = Some ([(KStmt, lstrip x)], []).
Proof.
  intros x [[c [r [Eb Ec]]] [Sc [Sq G]]]. unfold join. rewrite run1. unfold step. cbn [jinit j_pend].
  unfold step_idle. cbv zeta. rewrite Eb, Ec.
  destruct (lstrip_decomp x) as [w [Ex [Hw _]]].
  destruct (scan_ws_prefix w (lstrip x) None qok_none Hw) as [A1 [A2 A3]]. rewrite <- Ex in A1, A2, A3.
  assert (G' : good_end (lstrip x) = true).
  { rewrite <- (good_end_app w) by (rewrite Eb; discriminate). rewrite <- Ex. assumption. }
  assert (L0 : lone None (c :: r) = false).
  { rewrite <- Eb. destruct (good_end_snoc _ G') as [p [d [E [W A]]]].
    unfold lone. rewrite scan_code_nocmt by (rewrite <- A1; assumption).
    unfold strip. rewrite E, rstrip_snoc by assumption. rewrite <- E, lstrip_idem.
    destruct (str_eqb (lstrip x) [amp]) eqn:S; [|reflexivity].
    apply str_eqb_eq in S. rewrite S in E. destruct p as [|? [|? ?]]; inversion E; subst. discriminate A. }
  rewrite L0. rewrite finish_done; try assumption; [|apply good_end_amp_end; assumption].
  cbn [j_pend j_items j_cmts jinit rev app]. rewrite Eb. reflexivity.
Qed.

Lemma stmt_facts_lstrip : forall x, stmt_facts x -> stmt_facts (lstrip x).
Proof.
  intros x [[c [r [Eb Ec]]] [Sc [Sq G]]].
  destruct (lstrip_decomp x) as [w [Ex [Hw _]]].
  destruct (scan_ws_prefix w (lstrip x) None qok_none Hw) as [A1 [A2 _]]. rewrite <- Ex in A1, A2.
  split; [exists c, r; rewrite lstrip_idem; split; assumption|].
  repeat split; try congruence.
  rewrite <- (good_end_app w) by (rewrite Eb; discriminate). rewrite <- Ex. assumption.
Qed.

(* first segment + loop *)
Lemma stmt_emit : forall L keys x bp ls, keys_ok keys -> stmt_facts x ->
  fnw x < bp -> bp < length x ->
  emit L [amp] [amp] keys x bp = Ok ls -> join ls = Some ([(KStmt, lstrip x)], []).
Proof.
  intros L keys x bp ls Hk [[c [r [Eb Ec]]] [Sc [Sq G]]] B1 B2 H. unfold emit in H.
  destruct (cont_loop (length x) L [amp] [amp] keys (skipn bp x)) as [ls'| |] eqn:C; try discriminate.
  inversion H; subst. clear H.
  assert (Hsplit : x = firstn bp x ++ skipn bp x) by (symmetry; apply firstn_skipn).
  assert (Hc1 : scan_cmt None (firstn bp x) = None).
  { apply (scan_cmt_app_none _ (skipn bp x)). rewrite <- Hsplit. assumption. }
  assert (Hc2 : scan_cmt (scan_q None (firstn bp x)) (skipn bp x) = None).
  { rewrite <- scan_cmt_app by assumption. rewrite <- Hsplit. assumption. }
  assert (Hq2 : scan_q (scan_q None (firstn bp x)) (skipn bp x) = None).
  { rewrite <- scan_q_app by assumption. rewrite <- Hsplit. assumption. }
  assert (Hne : skipn bp x <> []).
  { intro X. apply (f_equal (@length _)) in X. rewrite skipn_length in X. cbn in X. lia. }
  assert (Hg2 : good_end (skipn bp x) = true).
  { rewrite <- (good_end_app (firstn bp x)) by assumption. rewrite <- Hsplit. assumption. }
  (* the first line *)
  destruct (lstrip_firstn x bp B1 ltac:(lia)) as [F1 F2]. rewrite Eb in F1.
  destruct (bp - fnw x) as [|m] eqn:Em; [lia|]. cbn [firstn] in F1.
  destruct (lstrip_decomp (firstn bp x)) as [w [Ex [Hw _]]]. rewrite F1 in Ex.
  destruct (scan_ws_prefix w (c :: firstn m r) None qok_none Hw) as [A1 _]. rewrite <- Ex in A1.
  assert (S1 : step jinit (firstn bp x ++ [amp]) =
               Some (mkJ [] [] (Some (mkPend KStmt (firstn bp x) (scan_q None (firstn bp x)))) false)).
  { unfold step. cbn [jinit j_pend]. unfold step_idle. cbv zeta.
    rewrite lstrip_app_nonempty by assumption. rewrite F1. cbn [app]. rewrite Ec.
    assert (W : is_ws c = false) by (eapply lstrip_head_nonws; eauto).
    rewrite (not_lone None c (firstn m r) amp qok_none); [| |assumption|apply ws_amp].
    - rewrite (finish_amp jinit KStmt [] None (firstn bp x) qok_none Hc1). reflexivity.
    - change (c :: firstn m r ++ [amp]) with ((c :: firstn m r) ++ [amp]).
      rewrite scan_cmt_app by (rewrite <- A1; assumption).
      rewrite scan_cmt_cons by (apply scan_q_ok, qok_none) || apply neutral_amp. reflexivity. }
  unfold join. cbn [run]. rewrite S1.
  rewrite (stmt_loop _ _ _ _ _
             (mkJ [] [] (Some (mkPend KStmt (firstn bp x) (scan_q None (firstn bp x)))) false)
             (firstn bp x) (scan_q None (firstn bp x)) Hk (scan_q_ok _ _ qok_none) eq_refl
             Hc2 Hq2 Hg2 C).
  cbn [j_pend j_items j_cmts rev app]. rewrite <- Hsplit. reflexivity.
Qed.

Theorem join_process_stmt : forall L l ls t,
  line_type l = Statement \/ line_type l = Unknown ->
  join [l] = Some ([(KStmt, t)], []) -> last_nonws l = true ->
  process_line L l = Ok ls -> join ls = Some ([(KStmt, t)], []).
Proof.
  intros L l ls t Ht Hj Hl H.
  destruct (join1_stmt_inv l t Hj Hl) as [Fx Et]. subst t.
  assert (Hcs : cont_start (line_type l) = [amp] /\ cont_end (line_type l) = [amp])
    by (destruct Ht as [Ht | Ht]; rewrite Ht; [apply cs_statement | apply cs_unknown]).
  destruct Hcs as [Hcs Hce].
  pose proof (keys_ok_all (line_type l)) as Hk.
  unfold process_line in H. rewrite Hcs, Hce in H.
  destruct (length l <=? L) eqn:E.
  - inversion H; subst. assumption.
  - apply Nat.leb_gt in E. cbn [length] in H.
    destruct (find_break_point l (L - 1) (key_list (line_type l))) as [bp|] eqn:F.
    + destruct (fbp_bounds _ _ _ _ Hk F) as [B1 [B2 [B3 B4]]].
      apply (stmt_emit L _ l bp ls Hk Fx); [lia | lia | assumption].
    + destruct (length (lstrip l) <? L) eqn:E2.
      * inversion H; subst. rewrite <- (lstrip_idem l) at 2. apply join1_stmt_intro. apply stmt_facts_lstrip. assumption.
      * apply Nat.ltb_ge in E2.
        destruct (find_break_point (lstrip l) (L - 1) (key_list (line_type l))) as [bp|] eqn:F2; [|discriminate].
        destruct (fbp_bounds _ _ _ _ Hk F2) as [B1 [B2 [B3 B4]]].
        rewrite <- (lstrip_idem l).
        apply (stmt_emit L _ (lstrip l) bp ls Hk (stmt_facts_lstrip l Fx)); [lia | lia | assumption].
Qed.
