(* C18 — joining the limiter's output gives back the comment (line type comment) *)
From Coq Require Import Ascii Arith Bool NArith List Lia.
Import ListNotations.
From PV Require Import C18.Types C18.Gen C18.Model C18.Join C18.StrLemmas C18.LimitProofs C18.JoinLemmas C18.JoinStmt.

Lemma cs_comment : cont_start CommentT = cmt_marker /\ cont_end CommentT = []. Proof. split; reflexivity. Qed.

Lemma line_type_comment : forall l, line_type l = CommentT ->
  iprefixb sent_omp (lstrip l) = false /\ iprefixb sent_acc (lstrip l) = false.
Proof.
  intros l H. unfold line_type in H.
  destruct (re_ws_then stat_keywords true l); [discriminate|].
  destruct (re_ws_then [omp_sentinel] true l) eqn:E1; [discriminate|].
  destruct (re_ws_then [acc_sentinel] true l) eqn:E2; [discriminate|].
  unfold re_ws_then in E1, E2. cbn [existsb] in E1, E2. rewrite orb_false_r in E1, E2.
  split; assumption.
Qed.

Lemma cond_start_firstn : forall n b, cond_start (firstn n b) = true -> cond_start b = true.
Proof.
  intros n b H. destruct n as [|[|[|n]]]; destruct b as [|x [|y [|z b]]]; cbn in *; try discriminate; assumption.
Qed.

Lemma dir_start_marker : forall sent s, sent = sent_omp \/ sent = sent_acc -> dir_start sent (bang :: amp :: s) = false.
Proof. intros sent s [H | H]; subst; reflexivity. Qed.

(* a continuation line  "!& seg"  after a comment *)
Lemma step_cmt_cont : forall items c0 r seg,
  step (mkJ items (c0 :: r) None true) (bang :: amp :: blank :: seg) = Some (mkJ items ((c0 ++ seg) :: r) None true).
Proof.
  intros items c0 r seg. unfold step. cbn [j_pend]. unfold step_idle. cbv zeta.
  rewrite (lstrip_nonws bang _ ws_bang). cbv iota.
  change (Ascii.eqb bang bang) with true. cbv iota.
  rewrite (dir_start_marker sent_omp) by (left; reflexivity).
  rewrite (dir_start_marker sent_acc) by (right; reflexivity).
  change (cond_start (bang :: amp :: blank :: seg)) with false.
  change (prefixb cmt_marker (bang :: amp :: blank :: seg)) with true.
  cbn [j_merge andb j_cmts j_items skipn]. reflexivity.
Qed.

Lemma cmt_loop : forall fuel L keys line ls items c0 r,
  cont_loop fuel L cmt_marker [] keys line = Ok ls ->
  run (mkJ items (c0 :: r) None true) ls = Some (mkJ items ((c0 ++ line) :: r) None true).
Proof.
  induction fuel as [|f IH]; intros L keys line ls items c0 r H; cbn [cont_loop] in H;
    destruct (length line + length cmt_marker <=? L).
  - destruct line as [|c l]; injection H as <-; cbn [run].
    + rewrite app_nil_r. reflexivity.
    + rewrite step_cmt_cont. reflexivity.
  - discriminate.
  - destruct line as [|c l]; injection H as <-; cbn [run].
    + rewrite app_nil_r. reflexivity.
    + rewrite step_cmt_cont. reflexivity.
  - destruct (find_break_point line _ keys) as [bp|]; [|discriminate].
    destruct (cont_loop f L cmt_marker [] keys (skipn bp line)) as [ls'| |] eqn:C; try discriminate.
    injection H as <-. cbn [run]. rewrite app_nil_r, step_cmt_cont.
    rewrite (IH _ _ _ _ _ _ _ C). rewrite <- app_assoc, firstn_skipn. reflexivity.
Qed.

Definition cmt_facts (x : str) : Prop :=
  (exists r, lstrip x = bang :: r) /\ iprefixb sent_omp (lstrip x) = false /\
  iprefixb sent_acc (lstrip x) = false /\ cond_start (lstrip x) = false.

Lemma dir_start_false : forall sent b, iprefixb sent b = false -> dir_start sent b = false.
Proof. intros sent b H. unfold dir_start. rewrite H. reflexivity. Qed.

(* a first comment line read from the initial state *)
Lemma step_cmt_first : forall b r, b = bang :: r -> iprefixb sent_omp b = false -> iprefixb sent_acc b = false ->
  cond_start b = false -> forall x, lstrip x = b -> step jinit x = Some (mkJ [] [b] None true).
Proof.
  intros b r Eb H1 H2 H3 x Hx. unfold step. cbn [jinit j_pend]. unfold step_idle. cbv zeta.
  rewrite Hx. subst b. cbv iota. change (Ascii.eqb bang bang) with true. cbv iota.
  rewrite (dir_start_false _ _ H1), (dir_start_false _ _ H2), H3.
  cbn [j_merge]. rewrite andb_false_r. reflexivity.
Qed.

Lemma join1_cmt_intro : forall x, cmt_facts x -> join [x] = Some ([], [lstrip x]).
Proof.
  intros x [[r Eb] [H1 [H2 H3]]]. unfold join. rewrite run1.
  rewrite (step_cmt_first (lstrip x) r Eb H1 H2 H3 x eq_refl). reflexivity.
Qed.

Lemma join1_cmt_inv : forall l cm, join [l] = Some ([], [cm]) -> line_type l = CommentT ->
  cmt_facts l /\ cm = lstrip l.
Proof.
  intros l cm H Ht. destruct (line_type_comment l Ht) as [T1 T2].
  unfold join in H. rewrite run1 in H. unfold step in H. cbn [jinit j_pend] in H.
  unfold step_idle in H. cbv zeta in H. unfold cmt_facts.
  rewrite (dir_start_false _ _ T1), (dir_start_false _ _ T2) in H.
  destruct (lstrip l) as [|c r] eqn:Eb.
  - cbn in H. discriminate.
  - destruct (Ascii.eqb c bang) eqn:Ec.
    + apply Ascii.eqb_eq in Ec. subst c.
      destruct (cond_start (bang :: r)) eqn:Cs.
      { exfalso. destruct (lone None (skipn 2 (bang :: r))); [discriminate|].
        destruct (finish jinit KCond _ None _) as [st'|] eqn:F; [|discriminate].
        destruct (j_pend st') eqn:P; [discriminate|]. destruct (finish_inv _ _ _ _ _ _ F P) as [I _].
        rewrite I in H. cbn in H. discriminate. }
      cbn [jinit j_merge] in H. rewrite andb_false_r in H. cbn in H. inversion H; subst.
      repeat split; try assumption; try reflexivity. exists r. reflexivity.
    + exfalso. destruct (lone None (c :: r)); [discriminate|].
      destruct (finish jinit KStmt [] None l) as [st'|] eqn:F; [|discriminate].
      destruct (j_pend st') eqn:P; [discriminate|]. destruct (finish_inv _ _ _ _ _ _ F P) as [I _].
      rewrite I in H. cbn in H. discriminate.
Qed.

Lemma cmt_facts_lstrip : forall x, cmt_facts x -> cmt_facts (lstrip x).
Proof. intros x H. unfold cmt_facts in *. rewrite lstrip_idem. exact H. Qed.

Lemma cmt_emit : forall L keys x bp ls, cmt_facts x -> fnw x < bp ->
  emit L cmt_marker [] keys x bp = Ok ls -> join ls = Some ([], [lstrip x]).
Proof.
  intros L keys x bp ls [[r Eb] [H1 [H2 H3]]] B1 H. unfold emit in H.
  destruct (cont_loop (length x) L cmt_marker [] keys (skipn bp x)) as [ls'| |] eqn:C; try discriminate.
  inversion H; subst. clear H.
  assert (Hlen : fnw x < length x).
  { pose proof (fnw_lstrip_length x) as F. rewrite Eb in F. cbn [length] in F. lia. }
  destruct (lstrip_firstn x bp B1 Hlen) as [F1 F2]. rewrite Eb in F1.
  destruct (bp - fnw x) as [|m] eqn:Em; [lia|]. cbn [firstn] in F1.
  assert (S1 : step jinit (firstn bp x ++ []) = Some (mkJ [] [bang :: firstn m r] None true)).
  { rewrite app_nil_r. apply (step_cmt_first _ (firstn m r) eq_refl); try assumption.
    - destruct (iprefixb sent_omp (bang :: firstn m r)) eqn:E; [|reflexivity].
      change (bang :: firstn m r) with (firstn (S m) (bang :: r)) in E.
      apply iprefixb_firstn in E. rewrite <- Eb in E. congruence.
    - destruct (iprefixb sent_acc (bang :: firstn m r)) eqn:E; [|reflexivity].
      change (bang :: firstn m r) with (firstn (S m) (bang :: r)) in E.
      apply iprefixb_firstn in E. rewrite <- Eb in E. congruence.
    - destruct (cond_start (bang :: firstn m r)) eqn:E; [|reflexivity].
      change (bang :: firstn m r) with (firstn (S m) (bang :: r)) in E.
      apply cond_start_firstn in E. rewrite <- Eb in E. congruence. }
  unfold join. cbn [run]. rewrite S1. rewrite (cmt_loop _ _ _ _ _ _ _ _ C).
  rewrite <- F1, <- lstrip_app_nonempty by assumption.
  rewrite firstn_skipn. reflexivity.
Qed.

Theorem join_process_cmt : forall L l ls cm,
  line_type l = CommentT -> join [l] = Some ([], [cm]) ->
  process_line L l = Ok ls -> join ls = Some ([], [cm]).
Proof.
  intros L l ls cm Ht Hj H.
  destruct (join1_cmt_inv l cm Hj Ht) as [Fx Ec]. subst cm.
  destruct cs_comment as [Hcs Hce].
  pose proof (keys_ok_all (line_type l)) as Hk.
  unfold process_line in H. rewrite Ht in *. rewrite Hcs, Hce in H.
  destruct (length l <=? L) eqn:E.
  - inversion H; subst. assumption.
  - destruct (find_break_point l _ (key_list CommentT)) as [bp|] eqn:F.
    + destruct (fbp_bounds _ _ _ _ Hk F) as [B1 _].
      apply (cmt_emit L (key_list CommentT) l bp ls Fx); [lia | assumption].
    + destruct (length (lstrip l) <? L) eqn:E2.
      * inversion H; subst. rewrite <- (lstrip_idem l) at 2. apply join1_cmt_intro. apply cmt_facts_lstrip. assumption.
      * destruct (find_break_point (lstrip l) _ (key_list CommentT)) as [bp|] eqn:F2; [|discriminate].
        destruct (fbp_bounds _ _ _ _ Hk F2) as [B1 _].
        rewrite <- (lstrip_idem l).
        apply (cmt_emit L (key_list CommentT) (lstrip l) bp ls (cmt_facts_lstrip l Fx)); [lia | assumption].
Qed.
