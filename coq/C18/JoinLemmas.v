(* C18 — lemmas about the join specification (Join.v): scanner compositionality, finish, strip *)
From Coq Require Import Ascii Arith Bool NArith List Lia.
Import ListNotations.
From PV Require Import C18.Types C18.Gen C18.Model C18.Join C18.StrLemmas.

(* ---- characters ------------------------------------------------------------------------- *)
Lemma ws_amp : is_ws amp = false. Proof. reflexivity. Qed.
Lemma ws_bang : is_ws bang = false. Proof. reflexivity. Qed.
Lemma ws_blank : is_ws blank = true. Proof. reflexivity. Qed.

Definition neutral (c : ascii) : Prop := Ascii.eqb c bang = false /\ is_quote c = false.
Lemma neutral_amp : neutral amp. Proof. split; reflexivity. Qed.
Lemma neutral_blank : neutral blank. Proof. split; reflexivity. Qed.

Lemma ws_neutral : forall c, is_ws c = true -> neutral c.
Proof.
  intros [b0 b1 b2 b3 b4 b5 b6 b7] H.
  destruct b0, b1, b2, b3, b4, b5, b6, b7; vm_compute in H; try discriminate H; split; reflexivity.
Qed.

Definition qok (q : option ascii) : Prop := q = None \/ q = Some squote \/ q = Some dquote.
Lemma qok_none : qok None. Proof. left. reflexivity. Qed.

Lemma qnext_ok : forall q c, qok q -> qok (qnext q c).
Proof.
  intros q c [H | [H | H]]; subst; cbn [qnext].
  - unfold is_quote. destruct (Ascii.eqb c squote) eqn:E1.
    + apply Ascii.eqb_eq in E1. subst. right. left. reflexivity.
    + destruct (Ascii.eqb c dquote) eqn:E2; cbn [orb].
      * apply Ascii.eqb_eq in E2. subst. right. right. reflexivity.
      * left. reflexivity.
  - destruct (Ascii.eqb c squote); [left | right; left]; reflexivity.
  - destruct (Ascii.eqb c dquote); [left | right; right]; reflexivity.
Qed.

Lemma qnext_neutral : forall q c, qok q -> neutral c -> qnext q c = q.
Proof.
  intros q c Hq [Hb Hn]. unfold is_quote in Hn. apply orb_false_iff in Hn as [N1 N2].
  destruct Hq as [H | [H | H]]; subst; cbn [qnext]; unfold is_quote.
  - rewrite N1, N2. reflexivity.
  - rewrite N1. reflexivity.
  - rewrite N2. reflexivity.
Qed.

(* ---- one scanning step ------------------------------------------------------------------ *)
Lemma scan_code_cons : forall q c r, qok q -> neutral c -> scan_code q (c :: r) = c :: scan_code q r.
Proof.
  intros q c r Hq Hn. pose proof (qnext_neutral q c Hq Hn) as E. destruct Hn as [Hb _].
  cbn [scan_code]. rewrite E. destruct q; [reflexivity | rewrite Hb; reflexivity].
Qed.
Lemma scan_q_cons : forall q c r, qok q -> neutral c -> scan_q q (c :: r) = scan_q q r.
Proof.
  intros q c r Hq Hn. pose proof (qnext_neutral q c Hq Hn) as E. destruct Hn as [Hb _].
  cbn [scan_q]. rewrite E. destruct q; [reflexivity | rewrite Hb; reflexivity].
Qed.
Lemma scan_cmt_cons : forall q c r, qok q -> neutral c -> scan_cmt q (c :: r) = scan_cmt q r.
Proof.
  intros q c r Hq Hn. pose proof (qnext_neutral q c Hq Hn) as E. destruct Hn as [Hb _].
  cbn [scan_cmt]. rewrite E. destruct q; [reflexivity | rewrite Hb; reflexivity].
Qed.

Lemma scan_q_ok : forall s q, qok q -> qok (scan_q q s).
Proof.
  induction s as [|c r IH]; intros q Hq; cbn [scan_q]; [assumption|].
  destruct q.
  - apply IH. apply qnext_ok. assumption.
  - destruct (Ascii.eqb c bang); [apply qok_none | apply IH; apply qnext_ok; assumption].
Qed.

(* ---- compositionality (no comment start in the first part) -------------------------------- *)
Lemma scan_cmt_app : forall a b q, scan_cmt q a = None -> scan_cmt q (a ++ b) = scan_cmt (scan_q q a) b.
Proof.
  induction a as [|c r IH]; intros b q H; [reflexivity|].
  cbn [app scan_cmt scan_q] in *. destruct q.
  - apply IH. assumption.
  - destruct (Ascii.eqb c bang); [discriminate | apply IH; assumption].
Qed.
Lemma scan_q_app : forall a b q, scan_cmt q a = None -> scan_q q (a ++ b) = scan_q (scan_q q a) b.
Proof.
  induction a as [|c r IH]; intros b q H; [reflexivity|].
  cbn [app scan_cmt scan_q] in *. destruct q.
  - apply IH. assumption.
  - destruct (Ascii.eqb c bang); [discriminate | apply IH; assumption].
Qed.
Lemma scan_code_app : forall a b q, scan_cmt q a = None -> scan_code q (a ++ b) = a ++ scan_code (scan_q q a) b.
Proof.
  induction a as [|c r IH]; intros b q H; [reflexivity|].
  cbn [app scan_cmt scan_q scan_code] in *. destruct q.
  - f_equal. apply IH. assumption.
  - destruct (Ascii.eqb c bang); [discriminate | f_equal; apply IH; assumption].
Qed.
Lemma scan_code_nocmt : forall a q, scan_cmt q a = None -> scan_code q a = a.
Proof.
  intros a q H. rewrite <- (app_nil_r a) at 1. rewrite scan_code_app by assumption. cbn. apply app_nil_r.
Qed.
Lemma scan_cmt_app_none : forall a b q, scan_cmt q (a ++ b) = None -> scan_cmt q a = None.
Proof.
  induction a as [|c r IH]; intros b q H; [reflexivity|].
  cbn [app scan_cmt] in *. destruct q.
  - eapply IH; eauto.
  - destruct (Ascii.eqb c bang); [discriminate | eapply IH; eauto].
Qed.

(* leading white space is transparent *)
Lemma scan_ws_prefix : forall w s q, qok q -> Forall (fun c => is_ws c = true) w ->
  scan_cmt q (w ++ s) = scan_cmt q s /\ scan_q q (w ++ s) = scan_q q s /\ scan_code q (w ++ s) = w ++ scan_code q s.
Proof.
  induction w as [|c w IH]; intros s q Hq H; [repeat split; reflexivity|].
  inversion H as [|? ? Hc Hw]; subst. apply ws_neutral in Hc. cbn [app].
  rewrite scan_cmt_cons, scan_q_cons, scan_code_cons by assumption.
  destruct (IH s q Hq Hw) as [A [B C]]. rewrite A, B, C. repeat split; reflexivity.
Qed.

(* ---- ends of lines ---------------------------------------------------------------------- *)
(* last character is neither white space nor `&` *)
Definition good_end (s : str) : bool :=
  match rev s with c :: _ => negb (is_ws c) && negb (Ascii.eqb c amp) | [] => false end.
(* the last non-blank character is `&` *)
Definition amp_end (s : str) : bool :=
  match lstrip (rev s) with a :: _ => Ascii.eqb a amp | [] => false end.

Lemma good_end_app : forall a b, b <> [] -> good_end (a ++ b) = good_end b.
Proof.
  intros a b Hb. unfold good_end. rewrite rev_app_distr.
  destruct (rev b) as [|c r] eqn:E; [|reflexivity].
  exfalso. apply Hb. rewrite <- (rev_involutive b), E. reflexivity.
Qed.

Lemma good_end_snoc : forall s, good_end s = true -> exists p c, s = p ++ [c] /\ is_ws c = false /\ Ascii.eqb c amp = false.
Proof.
  intros s H. unfold good_end in H. destruct (rev s) as [|c r] eqn:E; [discriminate|].
  apply andb_true_iff in H as [H1 H2]. apply negb_true_iff in H1, H2.
  exists (rev r), c. repeat split; try assumption.
  rewrite <- (rev_involutive s), E. reflexivity.
Qed.

Lemma good_end_amp_end : forall s, good_end s = true -> amp_end s = false.
Proof.
  intros s H. destruct (good_end_snoc s H) as [p [c [E [H1 H2]]]]. subst.
  unfold amp_end. rewrite rev_app_distr. cbn [rev app]. rewrite lstrip_nonws by assumption. exact H2.
Qed.

Lemma last_nonws_good : forall s, last_nonws s = true -> amp_end s = false -> good_end s = true.
Proof.
  intros s H A. unfold last_nonws, good_end, amp_end in *. destruct (rev s) as [|c r]; [discriminate|].
  apply negb_true_iff in H. rewrite lstrip_nonws in A by assumption. rewrite H, A. reflexivity.
Qed.

Lemma rstrip_snoc : forall s c, is_ws c = false -> rstrip (s ++ [c]) = s ++ [c].
Proof.
  intros s c H. unfold rstrip. rewrite rev_app_distr. cbn [rev app].
  rewrite lstrip_nonws by assumption. cbn [rev]. rewrite rev_involutive. reflexivity.
Qed.

Lemma str_eqb_eq : forall a b, str_eqb a b = true <-> a = b.
Proof.
  induction a as [|x a IH]; intros [|y b]; cbn; split; intro H; try discriminate; try reflexivity.
  - apply andb_true_iff in H as [H1 H2]. apply Ascii.eqb_eq in H1. apply IH in H2. congruence.
  - inversion H; subst. rewrite Ascii.eqb_refl. apply IH. reflexivity.
Qed.

(* a text that starts and ends with non-blank characters and has at least two characters is
   not a lone `&` *)
Lemma not_lone : forall q c mid d, qok q -> scan_cmt q (c :: mid ++ [d]) = None ->
  is_ws c = false -> is_ws d = false -> lone q (c :: mid ++ [d]) = false.
Proof.
  intros q c mid d Hq Hc H1 H2. unfold lone. rewrite scan_code_nocmt by assumption.
  unfold strip. change (c :: mid ++ [d]) with ((c :: mid) ++ [d]). rewrite rstrip_snoc by assumption.
  cbn [app]. rewrite lstrip_nonws by assumption. cbn [str_eqb].
  destruct (mid ++ [d]) eqn:E; [destruct mid; discriminate|]. apply andb_false_r.
Qed.

(* ---- finish ----------------------------------------------------------------------------- *)
Lemma finish_amp : forall st k acc q t, qok q -> scan_cmt q t = None ->
  finish st k acc q (t ++ [amp]) =
  Some (mkJ (j_items st) (j_cmts st) (Some (mkPend k (acc ++ t) (scan_q q t))) false).
Proof.
  intros st k acc q t Hq H. unfold finish.
  pose proof (scan_q_ok t q Hq) as Hq'.
  rewrite scan_code_app, scan_q_app, scan_cmt_app by assumption.
  rewrite scan_code_cons, scan_q_cons, scan_cmt_cons by (assumption || apply neutral_amp).
  cbn [scan_code scan_q scan_cmt add_cmt j_items j_cmts j_merge].
  rewrite rev_app_distr. cbn [rev app]. rewrite lstrip_nonws by apply ws_amp.
  rewrite Ascii.eqb_refl. rewrite rev_involutive. reflexivity.
Qed.

Lemma finish_done : forall st k acc q t, scan_cmt q t = None -> scan_q q t = None -> amp_end t = false ->
  finish st k acc q t = Some (mkJ ((k, lstrip (acc ++ t)) :: j_items st) (j_cmts st) None false).
Proof.
  intros st k acc q t H1 H2 H3. unfold finish. rewrite (scan_code_nocmt t q H1), H1, H2.
  cbn [add_cmt j_items j_cmts j_merge]. unfold amp_end in H3.
  destruct (lstrip (rev t)) as [|a r]; [reflexivity|]. rewrite H3. reflexivity.
Qed.

(* inversion: what a completed `finish` tells *)
Lemma finish_inv : forall st k acc q t st', finish st k acc q t = Some st' -> j_pend st' = None ->
  j_items st' = (k, lstrip (acc ++ scan_code q t)) :: j_items st /\
  j_cmts st' = match scan_cmt q t with Some c => c :: j_cmts st | None => j_cmts st end /\
  scan_q q t = None /\ amp_end (scan_code q t) = false.
Proof.
  intros st k acc q t st' H Hp. unfold finish in H. unfold amp_end.
  destruct (lstrip (rev (scan_code q t))) as [|a r] eqn:E.
  - destruct (scan_q q t); [discriminate|]. inversion H; subst. cbn.
    destruct (scan_cmt q t); cbn; repeat split; reflexivity.
  - destruct (Ascii.eqb a amp) eqn:Ea.
    + inversion H; subst. cbn in Hp. discriminate.
    + destruct (scan_q q t); [discriminate|]. inversion H; subst. cbn.
      destruct (scan_cmt q t); cbn; repeat split; reflexivity.
Qed.
