(* C18 — the limit is respected, processing is total (fuel suffices), output is a fixed point,
   no InternalError when a break point exists. *)
From Coq Require Import Ascii Arith Bool NArith List Lia.
Import ListNotations.
From PV Require Import C18.Types C18.Gen C18.Model C18.StrLemmas.

(* ---- facts about the generated tables (re-checked whenever Gen.v changes) ---------------- *)
Lemma keys_ok_all : forall t, keys_ok (key_list t).
Proof. intros []; repeat constructor; intro H; vm_compute in H; discriminate H. Qed.

Definition no_nl (s : str) : Prop := ~ In nl s.

Lemma tables_no_nl : forall t, no_nl (cont_start t) /\ no_nl (cont_end t).
Proof.
  intros []; split; intro H; vm_compute in H;
    repeat (destruct H as [H | H]; [discriminate H|]); exact H.
Qed.

(* ---- limit ------------------------------------------------------------------------------ *)
Lemma cont_loop_limit : forall fuel L cs ce keys line ls, keys_ok keys ->
  cont_loop fuel L cs ce keys line = Ok ls -> Forall (fun x => length x <= L) ls.
Proof.
  induction fuel as [|f IH]; intros L cs ce keys line ls Hk H; cbn [cont_loop] in H;
    destruct (length line + length cs <=? L) eqn:E.
  - apply Nat.leb_le in E. destruct line; inversion H; subst; repeat constructor.
    rewrite app_length. lia.
  - discriminate.
  - apply Nat.leb_le in E. destruct line; inversion H; subst; repeat constructor.
    rewrite app_length. lia.
  - destruct (find_break_point line (L - length ce - length cs) keys) as [bp|] eqn:F; [|discriminate].
    destruct (cont_loop f L cs ce keys (skipn bp line)) as [ls'| |] eqn:C; try discriminate.
    inversion H; subst. apply fbp_bounds in F; [|assumption]. constructor.
    + rewrite !app_length. pose proof (firstn_le_length bp line). lia.
    + eapply IH; eauto.
Qed.

Lemma emit_limit : forall L cs ce keys line bp ls, keys_ok keys ->
  fnw line + 2 <= bp -> bp <= L - length ce ->
  emit L cs ce keys line bp = Ok ls -> Forall (fun x => length x <= L) ls.
Proof.
  intros L cs ce keys line bp ls Hk H1 H2 H. unfold emit in H.
  destruct (cont_loop (length line) L cs ce keys (skipn bp line)) as [ls'| |] eqn:C; try discriminate.
  inversion H; subst. constructor.
  - rewrite app_length. pose proof (firstn_le_length bp line). lia.
  - eapply cont_loop_limit; eauto.
Qed.

Lemma process_line_limit : forall L l ls, process_line L l = Ok ls -> Forall (fun x => length x <= L) ls.
Proof.
  intros L l ls H. unfold process_line in H.
  destruct (length l <=? L) eqn:E.
  - apply Nat.leb_le in E. inversion H; subst. repeat constructor. exact E.
  - pose proof (keys_ok_all (line_type l)) as Hk.
    destruct (find_break_point l (L - length (cont_end (line_type l))) (key_list (line_type l))) as [bp|] eqn:F.
    + destruct (fbp_bounds _ _ _ _ Hk F) as [B1 [B2 _]]. exact (emit_limit _ _ _ _ _ _ _ Hk B1 B2 H).
    + destruct (length (lstrip l) <? L) eqn:E2.
      * apply Nat.ltb_lt in E2. inversion H; subst. repeat constructor. lia.
      * destruct (find_break_point (lstrip l) (L - length (cont_end (line_type l))) (key_list (line_type l)))
          as [bp|] eqn:F2; [|discriminate].
        destruct (fbp_bounds _ _ _ _ Hk F2) as [B1 [B2 _]]. exact (emit_limit _ _ _ _ _ _ _ Hk B1 B2 H).
Qed.

Lemma process_lines_limit : forall L ls out, process_lines L ls = Ok out -> Forall (fun x => length x <= L) out.
Proof.
  intros L ls. induction ls as [|l r IH]; intros out H; cbn [process_lines] in H.
  - inversion H. constructor.
  - destruct (process_line L l) as [o| |] eqn:P; try discriminate.
    destruct (process_lines L r) as [o'| |] eqn:R; try discriminate.
    inversion H; subst. apply Forall_app. split; [eapply process_line_limit; eauto | eapply IH; eauto].
Qed.

(* ---- totality: the fuel is never exhausted ------------------------------------------------ *)
Lemma cont_loop_fuel : forall fuel L cs ce keys line, keys_ok keys -> length line < fuel ->
  cont_loop fuel L cs ce keys line <> OutOfFuel.
Proof.
  induction fuel as [|f IH]; intros L cs ce keys line Hk Hl; [lia|].
  cbn [cont_loop]. destruct (length line + length cs <=? L); [destruct line; discriminate|].
  destruct (find_break_point line (L - length ce - length cs) keys) as [bp|] eqn:F; [|discriminate].
  apply fbp_bounds in F; [|assumption].
  assert (Hs : length (skipn bp line) < f) by (rewrite skipn_length; lia).
  specialize (IH L cs ce keys (skipn bp line) Hk Hs).
  destruct (cont_loop f L cs ce keys (skipn bp line)); congruence.
Qed.

Lemma emit_fuel : forall L cs ce keys line bp, keys_ok keys -> 2 <= bp -> bp <= length line ->
  emit L cs ce keys line bp <> OutOfFuel.
Proof.
  intros L cs ce keys line bp Hk H1 H2. unfold emit.
  assert (Hs : length (skipn bp line) < length line) by (rewrite skipn_length; lia).
  pose proof (cont_loop_fuel (length line) L cs ce keys (skipn bp line) Hk Hs).
  destruct (cont_loop (length line) L cs ce keys (skipn bp line)); congruence.
Qed.

Lemma process_line_total : forall L l, process_line L l <> OutOfFuel.
Proof.
  intros L l. unfold process_line. destruct (length l <=? L); [discriminate|].
  pose proof (keys_ok_all (line_type l)) as Hk.
  destruct (find_break_point l _ _) as [bp|] eqn:F.
  - pose proof (fbp_bounds _ _ _ _ Hk F). apply emit_fuel; [assumption | lia | lia].
  - destruct (length (lstrip l) <? L); [discriminate|].
    destruct (find_break_point (lstrip l) _ _) as [bp|] eqn:F2; [|discriminate].
    pose proof (fbp_bounds _ _ _ _ Hk F2). apply emit_fuel; [assumption | lia | lia].
Qed.

(* ---- split / join of lines ------------------------------------------------------------------ *)
Lemma split_nl_nonempty : forall s, split_nl s <> [].
Proof.
  induction s as [|c r IH]; cbn [split_nl]; [discriminate|].
  destruct (Ascii.eqb c nl); [discriminate|]. destruct (split_nl r); discriminate.
Qed.

Lemma split_nl_no_nl : forall s, Forall no_nl (split_nl s).
Proof.
  induction s as [|c r IH]; cbn [split_nl].
  - constructor; [intros []|constructor].
  - destruct (Ascii.eqb c nl) eqn:E.
    + constructor; [intros []|assumption].
    + pose proof (split_nl_nonempty r) as Hne. destruct (split_nl r) as [|h t]; [congruence|]. inversion IH; subst. constructor; [|assumption].
      intros [H|H]; [subst; rewrite Ascii.eqb_refl in E; discriminate | contradiction].
Qed.

Lemma split_nl_line : forall l, no_nl l -> split_nl l = [l].
Proof.
  induction l as [|c r IH]; intros H; cbn [split_nl]; [reflexivity|].
  destruct (Ascii.eqb c nl) eqn:E.
  - apply Ascii.eqb_eq in E. subst. exfalso. apply H. left. reflexivity.
  - rewrite IH; [reflexivity|]. intro X. apply H. right. exact X.
Qed.

Lemma split_nl_app : forall l rest, no_nl l -> split_nl (l ++ nl :: rest) = l :: split_nl rest.
Proof.
  induction l as [|c r IH]; intros rest H; cbn [app split_nl].
  - rewrite Ascii.eqb_refl. reflexivity.
  - destruct (Ascii.eqb c nl) eqn:E.
    + apply Ascii.eqb_eq in E. subst. exfalso. apply H. left. reflexivity.
    + rewrite IH; [reflexivity|]. intro X. apply H. right. exact X.
Qed.

Lemma split_join_nl : forall ls, ls <> [] -> Forall no_nl ls -> split_nl (join_nl ls) = ls.
Proof.
  induction ls as [|l r IH]; intros Hne H; [congruence|].
  inversion H; subst. destruct r as [|l2 r2].
  - cbn [join_nl]. apply split_nl_line. assumption.
  - change (join_nl (l :: l2 :: r2)) with (l ++ nl :: join_nl (l2 :: r2)).
    rewrite split_nl_app by assumption. f_equal. apply IH; [discriminate | assumption].
Qed.

(* ---- no newline is introduced ------------------------------------------------------------- *)
Lemma no_nl_app : forall a b, no_nl a -> no_nl b -> no_nl (a ++ b).
Proof. unfold no_nl. intros a b Ha Hb H. apply in_app_or in H. tauto. Qed.
Lemma no_nl_firstn : forall n a, no_nl a -> no_nl (firstn n a).
Proof. unfold no_nl. intros n a Ha H. apply Ha. rewrite <- (firstn_skipn n a). apply in_or_app. tauto. Qed.
Lemma no_nl_skipn : forall n a, no_nl a -> no_nl (skipn n a).
Proof. unfold no_nl. intros n a Ha H. apply Ha. rewrite <- (firstn_skipn n a). apply in_or_app. tauto. Qed.
Lemma no_nl_lstrip : forall a, no_nl a -> no_nl (lstrip a).
Proof.
  unfold no_nl. intros a Ha H. apply Ha. destruct (lstrip_decomp a) as [w [E _]]. rewrite E. apply in_or_app. tauto.
Qed.

Lemma cont_loop_no_nl : forall fuel L cs ce keys line ls, no_nl cs -> no_nl ce -> no_nl line ->
  cont_loop fuel L cs ce keys line = Ok ls -> Forall no_nl ls.
Proof.
  induction fuel as [|f IH]; intros L cs ce keys line ls Hcs Hce Hl H; cbn [cont_loop] in H;
    destruct (length line + length cs <=? L).
  - destruct line; inversion H; subst; repeat constructor. apply no_nl_app; assumption.
  - discriminate.
  - destruct line; inversion H; subst; repeat constructor. apply no_nl_app; assumption.
  - destruct (find_break_point line _ keys) as [bp|]; [|discriminate].
    destruct (cont_loop f L cs ce keys (skipn bp line)) as [ls'| |] eqn:C; try discriminate.
    inversion H; subst. constructor.
    + apply no_nl_app; [assumption|]. apply no_nl_app; [apply no_nl_firstn|]; assumption.
    + apply (IH L cs ce keys (skipn bp line) ls' Hcs Hce (no_nl_skipn _ _ Hl) C).
Qed.

Lemma emit_no_nl : forall L cs ce keys line bp ls, no_nl cs -> no_nl ce -> no_nl line ->
  emit L cs ce keys line bp = Ok ls -> Forall no_nl ls /\ ls <> [].
Proof.
  intros L cs ce keys line bp ls Hcs Hce Hl H. unfold emit in H.
  destruct (cont_loop (length line) L cs ce keys (skipn bp line)) as [ls'| |] eqn:C; try discriminate.
  inversion H; subst. split; [|discriminate]. constructor.
  - apply no_nl_app; [apply no_nl_firstn|]; assumption.
  - apply (cont_loop_no_nl _ _ _ _ _ _ _ Hcs Hce (no_nl_skipn _ _ Hl) C).
Qed.

Lemma process_line_no_nl : forall L l ls, no_nl l -> process_line L l = Ok ls -> Forall no_nl ls /\ ls <> [].
Proof.
  intros L l ls Hl H. unfold process_line in H.
  destruct (tables_no_nl (line_type l)) as [Hcs Hce].
  destruct (length l <=? L).
  - inversion H; subst. split; [repeat constructor; assumption | discriminate].
  - destruct (find_break_point l _ _) as [bp|].
    + exact (emit_no_nl _ _ _ _ _ _ _ Hcs Hce Hl H).
    + destruct (length (lstrip l) <? L).
      * inversion H; subst. split; [repeat constructor; apply no_nl_lstrip; assumption | discriminate].
      * destruct (find_break_point (lstrip l) _ _) as [bp|]; [|discriminate].
        exact (emit_no_nl _ _ _ _ _ _ _ Hcs Hce (no_nl_lstrip _ Hl) H).
Qed.

Lemma process_lines_no_nl : forall L ls out, ls <> [] -> Forall no_nl ls -> process_lines L ls = Ok out ->
  Forall no_nl out /\ out <> [].
Proof.
  intros L ls. induction ls as [|l r IH]; intros out Hne Hl H; [congruence|].
  cbn [process_lines] in H. inversion Hl as [|? ? H1 H2]; subst.
  destruct (process_line L l) as [o| |] eqn:P; try discriminate.
  destruct (process_lines L r) as [o'| |] eqn:R; try discriminate.
  inversion H; subst. destruct (process_line_no_nl _ _ _ H1 P) as [A B]. split.
  - apply Forall_app. split; [assumption|]. destruct r as [|l2 r2].
    + cbn in R. inversion R. constructor.
    + apply (IH o'); [discriminate | assumption | reflexivity].
  - destruct o; [congruence | discriminate].
Qed.

(* ---- short lines are left alone; idempotence ---------------------------------------------- *)
Lemma process_lines_short : forall L ls, Forall (fun x => length x <= L) ls -> process_lines L ls = Ok ls.
Proof.
  intros L ls H. induction H as [|l r Hl Hr IH]; [reflexivity|].
  cbn [process_lines]. unfold process_line. apply Nat.leb_le in Hl. rewrite Hl, IH. reflexivity.
Qed.

Theorem limit_respected_line : forall L l ls,
  process_line L l = Ok ls -> Forall (fun x => length x <= L) ls.
Proof. exact process_line_limit. Qed.

Theorem limit_respected_text : forall L t t',
  process_text L t = TOk t' -> Forall (fun x => length x <= L) (split_nl t').
Proof.
  intros L t t' H. unfold process_text in H.
  destruct (process_lines L (split_nl t)) as [out| |] eqn:P; try discriminate. inversion H; subst.
  destruct (process_lines_no_nl _ _ _ (split_nl_nonempty t) (split_nl_no_nl t) P) as [A B].
  rewrite split_join_nl by assumption. eapply process_lines_limit; eauto.
Qed.

Theorem idempotent_text : forall L t t', process_text L t = TOk t' -> process_text L t' = TOk t'.
Proof.
  intros L t t' H. pose proof (limit_respected_text _ _ _ H) as Hlim. unfold process_text in *.
  destruct (process_lines L (split_nl t)) as [out| |] eqn:P; try discriminate. inversion H; subst.
  destruct (process_lines_no_nl _ _ _ (split_nl_nonempty t) (split_nl_no_nl t) P) as [A B].
  rewrite split_join_nl in * by assumption. rewrite process_lines_short by assumption. reflexivity.
Qed.

Theorem idempotent_lines : forall L l ls, process_line L l = Ok ls -> process_lines L ls = Ok ls.
Proof. intros L l ls H. apply process_lines_short. eapply process_line_limit; eauto. Qed.

Theorem long_lines_false_after : forall L t t', process_text L t = TOk t' -> long_lines L t' = false.
Proof.
  intros L t t' H. apply limit_respected_text in H. unfold long_lines.
  induction H as [|x r Hx Hr IH]; [reflexivity|]. cbn [existsb].
  rewrite IH. assert (E : (L <? length x) = false) by (apply Nat.ltb_ge; exact Hx). rewrite E. reflexivity.
Qed.

(* ---- never fails when a break point exists ---------------------------------------------- *)
Lemma suffixes_in : forall p s, In s (suffixes (p ++ s)).
Proof.
  induction p as [|c p IH]; intros s; cbn [app].
  - destruct s; left; reflexivity.
  - cbn [suffixes]. right. apply IH.
Qed.

Lemma cont_loop_never_fails : forall fuel L cs ce keys line,
  (forall s, (exists p, line = p ++ s) ->
             (length s + length cs <=? L) || has_bp (find_break_point s (L - length ce - length cs) keys) = true) ->
  cont_loop fuel L cs ce keys line <> Err.
Proof.
  induction fuel as [|f IH]; intros L cs ce keys line H; cbn [cont_loop].
  - destruct (length line + length cs <=? L); [destruct line|]; discriminate.
  - specialize (H line (ex_intro _ [] eq_refl)) as H0.
    destruct (length line + length cs <=? L); [destruct line; discriminate|]. cbn [orb] in H0.
    destruct (find_break_point line (L - length ce - length cs) keys) as [bp|]; [|discriminate].
    assert (IH' : cont_loop f L cs ce keys (skipn bp line) <> Err).
    { apply IH. intros s [p Hp]. apply H. exists (firstn bp line ++ p).
      rewrite <- app_assoc, <- Hp. symmetry. apply firstn_skipn. }
    destruct (cont_loop f L cs ce keys (skipn bp line)); congruence.
Qed.

Theorem never_fails_partial_ : forall L l, breakable L l = true -> process_line L l <> Err.
Proof.
  intros L l H. unfold breakable in H. rewrite forallb_forall in H. unfold process_line.
  destruct (length l <=? L) eqn:E; [discriminate|]. apply Nat.leb_gt in E.
  pose proof (keys_ok_all (line_type l)) as Hk.
  set (t := line_type l) in *.
  assert (H0 := H l (suffixes_in [] l)). cbn beta in H0.
  assert (E1 : (length l + length (cont_start t) <=? L) = false) by (apply Nat.leb_gt; lia).
  rewrite E1 in H0. cbn [orb] in H0.
  assert (F : find_break_point l (L - length (cont_end t)) (key_list t) <> None).
  { apply (fbp_mono l (L - length (cont_end t) - length (cont_start t))); [assumption | lia |].
    destruct (find_break_point l (L - length (cont_end t) - length (cont_start t)) (key_list t)); [discriminate|].
    cbn in H0. discriminate. }
  destruct (find_break_point l (L - length (cont_end t)) (key_list t)) as [bp|]; [|congruence].
  unfold emit.
  assert (C : cont_loop (length l) L (cont_start t) (cont_end t) (key_list t) (skipn bp l) <> Err).
  { apply cont_loop_never_fails. intros s [p Hp]. apply H.
    replace l with ((firstn bp l ++ p) ++ s); [apply suffixes_in|].
    rewrite <- app_assoc, <- Hp. apply firstn_skipn. }
  destruct (cont_loop (length l) L (cont_start t) (cont_end t) (key_list t) (skipn bp l)); congruence.
Qed.
