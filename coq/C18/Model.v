(* C18 — faithful model of src/psyclone/line_length.py (find_break_point, FortLineLength.process,
   _get_line_type, long_lines).  Definitions only; the tables come from the generated Gen.v.
   Domain of fidelity: texts over Latin-1 code points, limits L with
   L >= len(c_start)+len(c_end) (all `max_index` arguments non-negative in Python). *)
From Coq Require Import Ascii Arith Bool NArith List.
Import ListNotations.
From PV Require Import C18.Types C18.Gen.

(* white space of str.lstrip() and of the regex class \s (generated table) *)
Definition is_ws (c : ascii) : bool := existsb (N.eqb (N_of_ascii c)) ws_codes.

Fixpoint lstrip (s : str) : str :=
  match s with
  | [] => []
  | c :: r => if is_ws c then lstrip r else s
  end.

(* first_non_whitespace = len(line) - len(line.lstrip()) *)
Definition fnw (s : str) : nat := length s - length (lstrip s).

(* re.I on Latin-1 text: an ASCII letter matches exactly its two cases *)
Definition upper (c : ascii) : ascii :=
  let n := N_of_ascii c in
  if (N.leb 97 n && N.leb n 122)%bool then ascii_of_N (n - 32) else c.
Definition ieqb (a b : ascii) : bool := Ascii.eqb (upper a) (upper b).

Fixpoint prefixb (p s : str) : bool :=
  match p, s with
  | [], _ => true
  | a :: p', b :: s' => Ascii.eqb a b && prefixb p' s'
  | _ :: _, [] => false
  end.

Fixpoint iprefixb (p s : str) : bool :=
  match p, s with
  | [], _ => true
  | a :: p', b :: s' => ieqb a b && iprefixb p' s'
  | _ :: _, [] => false
  end.

(* line.rfind(key, lo, hi): highest i with lo <= i, i+len(key) <= min(hi,len(line)), line[i:i+len(key)] = key
   (key non-empty).  Forward scan keeping the last admissible match; `lo_rem`/`hi_rem` are the
   distances lo-pos and hi-pos (truncated at 0), so each position costs O(len key). *)
Definition is_zero (n : nat) : bool := match n with 0 => true | S _ => false end.
Fixpoint rfind_go (key s : str) (pos lo_rem hi_rem : nat) (best : option nat) : option nat :=
  match s with
  | [] => best
  | _ :: r =>
      let best' := if is_zero lo_rem && (length key <=? hi_rem) && prefixb key s then Some pos else best in
      rfind_go key r (S pos) (pred lo_rem) (pred hi_rem) best'
  end.
Definition rfind (key s : str) (lo hi : nat) : option nat := rfind_go key s 0 lo hi None.

(* find_break_point(line, max_index, key_list); None = InternalError *)
Fixpoint find_break_point (line : str) (max_index : nat) (keys : list str) : option nat :=
  match keys with
  | [] => None
  | k :: ks =>
      match rfind k line (fnw line + 1) max_index with
      | Some i => Some (i + length k)
      | None => find_break_point line max_index ks
      end
  end.

(* the four regexes  ^\s*(K1|K2|...)  : skip white space, then a (case-insensitive) literal prefix *)
Definition re_ws_then (alts : list str) (ci : bool) (line : str) : bool :=
  existsb (fun a => (if ci then iprefixb else prefixb) a (lstrip line)) alts.

(* _get_line_type *)
Definition line_type (line : str) : ltype :=
  if re_ws_then stat_keywords true line then Statement
  else if re_ws_then [omp_sentinel] true line then Omp
  else if re_ws_then [acc_sentinel] true line then Acc
  else if re_ws_then [comment_sentinel] false line then CommentT
  else Unknown.

(* `while len(line) + len(c_start) > L: ...` followed by `if line: out += c_start + line` *)
Fixpoint cont_loop (fuel L : nat) (cs ce : str) (keys : list str) (line : str) : result :=
  if length line + length cs <=? L then
    match line with [] => Ok [] | _ => Ok [cs ++ line] end
  else
    match fuel with
    | 0 => OutOfFuel
    | S f =>
        match find_break_point line (L - length ce - length cs) keys with
        | None => Err
        | Some bp =>
            match cont_loop f L cs ce keys (skipn bp line) with
            | Ok ls => Ok ((cs ++ firstn bp line ++ ce) :: ls)
            | e => e
            end
        end
    end.

(* first segment + continuation loop, for a line already known to have a first break point *)
Definition emit (L : nat) (cs ce : str) (keys : list str) (line : str) (bp : nat) : result :=
  match cont_loop (length line) L cs ce keys (skipn bp line) with
  | Ok ls => Ok ((firstn bp line ++ ce) :: ls)
  | e => e
  end.

(* body of the `for line in fortran_in.split('\n')` loop: output lines of one input line *)
Definition process_line (L : nat) (line : str) : result :=
  if length line <=? L then Ok [line]
  else
    let t := line_type line in
    let cs := cont_start t in
    let ce := cont_end t in
    let keys := key_list t in
    match find_break_point line (L - length ce) keys with
    | Some bp => emit L cs ce keys line bp
    | None =>
        let line' := lstrip line in
        if length line' <? L then Ok [line']
        else match find_break_point line' (L - length ce) keys with
             | Some bp => emit L cs ce keys line' bp
             | None => Err
             end
    end.

Fixpoint process_lines (L : nat) (ls : list str) : result :=
  match ls with
  | [] => Ok []
  | l :: r =>
      match process_line L l with
      | Ok o => match process_lines L r with Ok o' => Ok (o ++ o') | e => e end
      | e => e
      end
  end.

(* str.split('\n') and '\n'.join *)
Definition nl : ascii := ascii_of_N 10.
Fixpoint split_nl (s : str) : list str :=
  match s with
  | [] => [[]]
  | c :: r =>
      if Ascii.eqb c nl then [] :: split_nl r
      else match split_nl r with
           | h :: t => (c :: h) :: t
           | [] => [[c]]
           end
  end.
Fixpoint join_nl (ls : list str) : str :=
  match ls with
  | [] => []
  | [l] => l
  | l :: r => l ++ nl :: join_nl r
  end.

Inductive tresult := TOk (s : str) | TErr | TFuel.

(* FortLineLength(L).process(text) *)
Definition process_text (L : nat) (t : str) : tresult :=
  match process_lines L (split_nl t) with
  | Ok ls => TOk (join_nl ls)
  | Err => TErr
  | OutOfFuel => TFuel
  end.

(* FortLineLength(L).long_lines(text) *)
Definition long_lines (L : nat) (t : str) : bool :=
  existsb (fun l => L <? length l) (split_nl t).

(* smallest limit for which every max_index is non-negative (domain of fidelity) *)
Definition all_types : list ltype := [Statement; Omp; Acc; CommentT; Unknown].
Definition min_limit : nat :=
  fold_right Nat.max 0 (map (fun t => length (cont_start t) + length (cont_end t)) all_types).

(* "a break point exists": every remainder of the line that is still too long has a key
   occurrence inside the continuation window (decidable; premise of never_fails_partial) *)
Fixpoint suffixes (l : str) : list str :=
  l :: match l with [] => [] | _ :: r => suffixes r end.
Definition has_bp (o : option nat) : bool := match o with Some _ => true | None => false end.
Definition breakable (L : nat) (l : str) : bool :=
  let t := line_type l in
  forallb (fun s => (length s + length (cont_start t) <=? L)
                    || has_bp (find_break_point s (L - length (cont_end t) - length (cont_start t)) (key_list t)))
          (suffixes l).
