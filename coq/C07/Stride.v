(* C07 — section actuals a(lo:hi:st): by-reference meaning and what it implies for InlineTrans.
   The callee's x(k) (x declared with lower bound lb) IS the element a(lo + (k - lb) * st), with lo and
   st evaluated once, at the call.  The semantics is obtained compositionally: re-index every access to
   the formal (k |-> lb + (k - lb) * s) and run the existing by-reference call semantics [exec_call] on
   the CONTIGUOUS view a(lo:) — [strided_view_index] proves that the location reached is the stated one.
   * unit stride: the index shifting of [inline_apply] is exactly this mapping, so the soundness theorem
     covers section actuals ([section_unit_stride_sound_]);
   * non-unit stride: apply() ignores the stride, i.e. uses the contiguous mapping; concrete witnesses
     (stride n = 2, stride -1) show it differs from the call — validate must refuse, and [accept_impl]
     refuses every section whose stride is not the literal 1.  No axioms. *)
From Coq Require Import List ZArith Bool Lia.
Import ListNotations.
From PV Require Import Fort.Syntax Fort.Sem Fort.Facts Fort.Facts3 C07.Model C07.Sim C07.Proofs C07.Refuted.
Open Scope Z_scope.

(** * the by-reference meaning *)
Definition sec_index (lo st lb k : Z) : Z := lo + (k - lb) * st.

Definition restride_idx (lb s : Z) (k : expr) : expr :=
  if s =? 1 then k else EBin Add (ELit lb) (EBin Mul (EBin Sub k (ELit lb)) (ELit s)).

Fixpoint restride_e (x : name) (lb s : Z) (e : expr) : expr :=
  match e with
  | ELit z => ELit z
  | EVar y => EVar y
  | EIdx y ks =>
      let ks' := map (restride_e x lb s) ks in
      if Nat.eqb y x then match ks' with [k] => EIdx y [restride_idx lb s k] | _ => EIdx y ks' end
      else EIdx y ks'
  | EUn o e1 => EUn o (restride_e x lb s e1)
  | EBin o l r => EBin o (restride_e x lb s l) (restride_e x lb s r)
  | EIntr f args => EIntr f (map (restride_e x lb s) args)
  end.

Definition restride_tgt (x : name) (lb s : Z) (y : name) (ks : list expr) : name * list expr :=
  if Nat.eqb y x then match ks with [k] => (y, [restride_idx lb s k]) | _ => (y, ks) end else (y, ks).

Definition restride_s (x : name) (lb s : Z) : stmt -> stmt :=
  map_stmt (restride_e x lb s) (restride_tgt x lb s) (fun v => v).

Definition with_body (c : callsite) (b : list stmt) : callsite :=
  mkCS (cs_formals c) (cs_locals c) b (cs_actuals c) (cs_own c) (cs_outer c).

(* a 1-D section actual with a stride: which formal it is associated with, the lower bound that formal is
   declared with, and the stride expression; its base is the [DFrom lo] / [DFull lb] dimension of the
   corresponding [AArr] actual of the call site *)
Record ssec := mkSS { ss_formal : name; ss_lb : Z; ss_stride : expr }.

(* how the harness sets the [unit] flag of [AArr] (InlineTrans: `rge.step != _ONE`) *)
Definition stride_unit (e : expr) : bool := match e with ELit 1 => true | _ => false end.

Definition exec_call_strided (fuel : nat) (c : callsite) (ss : ssec) (ren : list (name * name)) (st : store) : outcome :=
  match eval st (ss_stride ss) with
  | Some s => if s =? 0 then Fault
              else exec_call fuel (with_body c (map (restride_s (ss_formal ss) (ss_lb ss) s) (cs_body c))) ren st
  | None => Fault
  end.

(* the location reached: contiguous view with base v (frozen as [SOff (v - lb)]) after re-indexing *)
Lemma strided_view_index st k kv v s lb :
  eval st k = Some kv ->
  map (eval st) (merge_sem [SOff (v - lb)] [restride_idx lb s k]) = [Some (sec_index v s lb kv)].
Proof.
  intro H. cbn [merge_sem map]. unfold restride_idx, sec_index. destruct (s =? 1) eqn:E.
  - apply Z.eqb_eq in E. subst s. cbn [eval]. rewrite H. cbn [eval_bin]. do 2 f_equal. ring.
  - cbn [eval]. rewrite H. cbn [eval_bin]. do 2 f_equal. ring.
Qed.

(* at unit stride the by-reference meaning is the offset view used by [exec_call] *)
Lemma sec_index_unit v lb k : sec_index v 1 lb k = k + (v - lb).
Proof. unfold sec_index. ring. Qed.

(** * unit stride: nothing changes *)
Lemma map_fix_id {A} (f : A -> A) l : Forall (fun x => f x = x) l -> map f l = l.
Proof. induction 1 as [|x l Hx _ IH]; [reflexivity|]. cbn [map]. rewrite Hx, IH. reflexivity. Qed.

Lemma restride_e_unit x lb e : restride_e x lb 1 e = e.
Proof.
  induction e as [z|y|y ks IH|o e IH|o l r IHl IHr|f args IH] using expr_ind'; cbn [restride_e]; try reflexivity.
  - rewrite (map_fix_id _ _ IH). destruct (Nat.eqb y x); [|reflexivity].
    destruct ks as [|k [|k2 ks]]; reflexivity.
  - rewrite IH. reflexivity.
  - rewrite IHl, IHr. reflexivity.
  - rewrite (map_fix_id _ _ IH). reflexivity.
Qed.

Lemma restride_tgt_unit x lb y ks : restride_tgt x lb 1 y ks = (y, ks).
Proof. unfold restride_tgt. destruct (Nat.eqb y x); [|reflexivity]. destruct ks as [|k [|k2 ks]]; reflexivity. Qed.

Lemma map_stmt_id te tt tv :
  (forall e, te e = e) -> (forall x ks, tt x ks = (x, ks)) -> (forall v, tv v = v) ->
  forall s, map_stmt te tt tv s = s.
Proof.
  intros He Ht Hv.
  assert (Hm : forall l, map te l = l) by (intro l; apply map_fix_id, Forall_forall; intros; apply He).
  induction s using stmt_ind'; cbn [map_stmt]; rewrite ?He, ?Hm, ?Hv, ?Ht; cbn [fst snd];
    rewrite ?(map_fix_id _ _ H), ?(map_fix_id _ _ H0); reflexivity.
Qed.

Lemma restride_s_unit x lb ss : map (restride_s x lb 1) ss = ss.
Proof.
  apply map_fix_id, Forall_forall. intros s _. unfold restride_s.
  apply map_stmt_id; [apply restride_e_unit|apply restride_tgt_unit|reflexivity].
Qed.

Lemma with_body_id c : with_body c (cs_body c) = c.
Proof. destruct c. reflexivity. Qed.

Theorem section_unit_stride_sound_ c ren ss :
  accept_impl c = true -> in_fragment c = true -> actual_indices_invariant c ren = true ->
  forall fuel st, eval st (ss_stride ss) = Some 1 ->
  bind_all st (cs_formals c) (cs_actuals c) <> None ->
  obs_eq (exec fuel (inline_apply c ren) st) (exec_call_strided fuel c ss ren st).
Proof.
  intros H1 H2 H3 fuel st Hs Hb. unfold exec_call_strided. rewrite Hs. cbn [Z.eqb].
  rewrite restride_s_unit, with_body_id. apply inline_sound_partial_; assumption.
Qed.

(** * non-unit stride: validate must refuse *)
Lemma arg_ok_nonunit f a dims : snd f <> [] -> arg_ok f (AArr a dims false) = false.
Proof. unfold arg_ok. destruct (snd f); [congruence|]. intros _. apply andb_false_r. Qed.

(* names: x=0 | a=2 n=3 | local k=5.   s(x(:)): do k = 1, 3; x(k) = 10 + k; end do *)
Definition body_fill : list stmt :=
  [SDo 5%nat (ELit 1) (ELit 3) (ELit 1) [SAssign 0%nat [EVar 5%nat] (EBin Add (ELit 10) (EVar 5%nat))]].
(* call s(a(1:8:n)), n = 2 *)
Definition c_stride_var : callsite :=
  mkCS [(0%nat, [1])] [(5%nat, false)] body_fill [AArr 2%nat [DFrom (ELit 1)] (stride_unit (EVar 3%nat))] [2%nat; 3%nat] [].
Definition ss_var : ssec := mkSS 0%nat 1 (EVar 3%nat).
Definition st_n2 : store := store_of [((3%nat, []), 2)] [].
(* call s(a(8:1:-1)) *)
Definition c_stride_rev : callsite :=
  mkCS [(0%nat, [1])] [(5%nat, false)] body_fill [AArr 2%nat [DFrom (ELit 8)] (stride_unit (EUn Neg (ELit 1)))] [2%nat; 3%nat] [].
Definition ss_rev : ssec := mkSS 0%nat 1 (EUn Neg (ELit 1)).
(* call s(a(i:8:1)), i = 2 : unit stride, accepted *)
Definition c_stride_one : callsite :=
  mkCS [(0%nat, [1])] [(5%nat, false)] body_fill [AArr 2%nat [DFrom (EVar 3%nat)] (stride_unit (ELit 1))] [2%nat; 3%nat] [].
Definition ss_one : ssec := mkSS 0%nat 1 (ELit 1).
Definition ren_k : list (name * name) := [(5%nat, 5%nat)].

Lemma nonunit_stride_must_be_refused_ :
  (forall f a dims, snd f <> [] -> arg_ok f (AArr a dims false) = false) /\
  (stride_unit (ELit 2) = false /\ stride_unit (EVar 3%nat) = false /\ stride_unit (EUn Neg (ELit 1)) = false /\
   stride_unit (EUn Neg (EVar 3%nat)) = false /\ stride_unit (EBin Add (EVar 3%nat) (ELit 0)) = false /\
   stride_unit (ELit 1) = true) /\
  accept_impl c_stride_var = false /\ accept_impl c_stride_rev = false /\
  (* what apply() would produce (the stride is ignored) is not the call *)
  ~ obs_eq (exec 20 (inline_apply c_stride_var ren_k) st_n2) (exec_call_strided 20 c_stride_var ss_var ren_k st_n2) /\
  ~ obs_eq (exec 20 (inline_apply c_stride_rev ren_k) st_n2) (exec_call_strided 20 c_stride_rev ss_rev ren_k st_n2) /\
  (* the strided call writes a(1), a(3), a(5) = 11, 12, 13 ; the reversed one a(8), a(7), a(6) *)
  (exists s' tr, exec_call_strided 20 c_stride_var ss_var ren_k st_n2 = Ok s' tr CNormal /\
     val s' (2%nat, [1]) = 11 /\ val s' (2%nat, [3]) = 12 /\ val s' (2%nat, [5]) = 13 /\ val s' (2%nat, [2]) = 0) /\
  (exists s' tr, exec_call_strided 20 c_stride_rev ss_rev ren_k st_n2 = Ok s' tr CNormal /\
     val s' (2%nat, [8]) = 11 /\ val s' (2%nat, [7]) = 12 /\ val s' (2%nat, [6]) = 13 /\ val s' (2%nat, [9]) = 0).
Proof.
  split; [exact arg_ok_nonunit|]. split; [repeat split; reflexivity|].
  split; [vm_compute; reflexivity|]. split; [vm_compute; reflexivity|].
  split; [apply (differs_not_obs (2%nat, [3])); vm_compute; reflexivity|].
  split; [apply (differs_not_obs (2%nat, [7])); vm_compute; reflexivity|].
  split; eexists; eexists; (split; [vm_compute; reflexivity|repeat split; vm_compute; reflexivity]).
Qed.

Example section_unit_nonvacuous :
  accept_impl c_stride_one = true /\ in_fragment c_stride_one = true /\
  actual_indices_invariant c_stride_one ren_k = true /\ eval st_n2 (ss_stride ss_one) = Some 1 /\
  bind_all st_n2 (cs_formals c_stride_one) (cs_actuals c_stride_one) <> None /\
  inline_apply c_stride_one ren_k =
    [SDo 5%nat (ELit 1) (ELit 3) (ELit 1)
       [SAssign 2%nat [EBin Add (EBin Sub (EVar 5%nat) (ELit 1)) (EVar 3%nat)] (EBin Add (ELit 10) (EVar 5%nat))]] /\
  (exists s' tr, exec_call_strided 20 c_stride_one ss_one ren_k st_n2 = Ok s' tr CNormal /\
     val s' (2%nat, [2]) = 11 /\ val s' (2%nat, [3]) = 12 /\ val s' (2%nat, [4]) = 13 /\
     val s' (2%nat, [sec_index 2 1 1 3]) = 13).
Proof.
  repeat split; try (vm_compute; reflexivity); try (vm_compute; discriminate).
  eexists. eexists. split; [vm_compute; reflexivity|repeat split; vm_compute; reflexivity].
Qed.

(* executable glue check: [exec_call_strided] vs the harness interpreter on strided calls *)
Definition ssem_case := (callsite * ssec * list (name * name) * store * option (list (loc * Z)))%type.
Definition ssem_check (k : ssem_case) : bool :=
  match k with
  | (c, ss, ren, st, exp) =>
      match exec_call_strided 400 c ss ren st, exp with
      | Ok s' _ CNormal, Some fin => forallb (fun lv => Z.eqb (val s' (fst lv)) (snd lv)) fin
      | Fault, None => true
      | _, _ => false
      end
  end.
