(* C07 — lock-step simulation of two translations of the same statement list.
   If, in every store satisfying an invariant [P], corresponding expressions evaluate alike and
   corresponding assignment targets denote the same location, and [P] survives every write to a name
   the translated code can assign, then for every fuel the two translations end in the same store
   with the same control state (or both fault / both run out of fuel).  No axioms. *)
From Coq Require Import List ZArith Bool Lia.
Import ListNotations.
From PV Require Import Fort.Syntax Fort.Sem Fort.Facts Fort.Facts3 C07.Model.
Open Scope Z_scope.

Definition osim (P : store -> Prop) (o1 o2 : outcome) : Prop :=
  match o1, o2 with
  | Ok s1 _ c1, Ok s2 _ c2 => s1 = s2 /\ c1 = c2 /\ P s1
  | Fault, Fault => True
  | OutOfFuel, OutOfFuel => True
  | _, _ => False
  end.

Lemma osim_prepend P t1 t2 o1 o2 : osim P o1 o2 -> osim P (prepend t1 o1) (prepend t2 o2).
Proof. destruct o1, o2; cbn [osim prepend]; auto. Qed.

Lemma osim_then P o1 o2 (K1 K2 : runner) :
  osim P o1 o2 -> (forall s, P s -> osim P (K1 s) (K2 s)) -> osim P (then_run o1 K1) (then_run o2 K2).
Proof.
  intros H HK. destruct o1 as [s1 t1 c1| |], o2 as [s2 t2 c2| |]; cbn [osim] in H; try contradiction; auto.
  destruct H as [-> [-> HP]]. unfold then_run. destruct c2; cbn [bind_run osim]; auto.
  apply osim_prepend, HK, HP.
Qed.

Lemma incl_app_l {A} (a b c : list A) : incl (a ++ b) c -> incl a c.
Proof. intros H x Hx. apply H, in_or_app. auto. Qed.
Lemma incl_app_r {A} (a b c : list A) : incl (a ++ b) c -> incl b c.
Proof. intros H x Hx. apply H, in_or_app. auto. Qed.

Section Sim.
  Variable P : store -> Prop.
  Variable W : list name.
  Hypothesis P_upd : forall st l v, P st -> In (fst l) W -> P (upd st l v).
  Variable formals : list name.
  Variables te1 te2 : expr -> expr.
  Variables tt1 tt2 : name -> list expr -> name * list expr.
  Variables tv1 tv2 : name -> name.
  Hypothesis He : forall e st, inq_free_e e = true -> P st -> eval st (te1 e) = eval st (te2 e).
  Hypothesis Ht : forall x ks1 ks2 st, P st -> map (eval st) ks1 = map (eval st) ks2 ->
      fst (tt1 x ks1) = fst (tt2 x ks2) /\
      map (eval st) (snd (tt1 x ks1)) = map (eval st) (snd (tt2 x ks2)).
  Hypothesis Hv : forall x, mem x formals = false -> tv1 x = tv2 x.

  Local Notation tr1 := (map_stmt te1 tt1 tv1).
  Local Notation tr2 := (map_stmt te2 tt2 tv2).

  Lemma map_eval_sim ks st :
    forallb inq_free_e ks = true -> P st -> map (eval st) (map te1 ks) = map (eval st) (map te2 ks).
  Proof.
    intros H HP. induction ks as [|k ks IH]; [reflexivity|].
    cbn [forallb] in H. apply andb_true_iff in H as [H1 H2]. cbn [map].
    rewrite (He k st H1 HP), (IH H2). reflexivity.
  Qed.

  Lemma do_loop_sim (run1 run2 : runner) x l t :
    In x W -> (forall s, P s -> osim P (run1 s) (run2 s)) ->
    forall n k s, P s -> osim P (do_loop run1 x l t n k s) (do_loop run2 x l t n k s).
  Proof.
    intros Hx Hr. induction n as [|n IH]; intros k s HP.
    - cbn [do_loop osim]. repeat split. apply P_upd; [exact HP|exact Hx].
    - cbn [do_loop].
      assert (HP1 : P (upd s (x, []) (l + k * t))) by (apply P_upd; [exact HP|exact Hx]).
      specialize (Hr _ HP1).
      destruct (run1 (upd s (x, []) (l + k * t))) as [s1 t1 c1| |],
               (run2 (upd s (x, []) (l + k * t))) as [s2 t2 c2| |]; cbn [osim] in Hr; try contradiction; auto.
      destruct Hr as [-> [-> HP2]].
      destruct c2; cbn [osim]; auto; apply osim_prepend, IH, HP2.
  Qed.

  Definition IHf (f : nat) : Prop :=
    forall ss, forallb (okS formals) ss = true -> incl (wnames (map tr1 ss)) W ->
    forall st, P st -> osim P (exec f (map tr1 ss) st) (exec f (map tr2 ss) st).

  Lemma stmt_sim f s st :
    IHf f -> okS formals s = true -> incl (wnames_stmt (tr1 s)) W -> P st ->
    osim P (exec_stmt (exec f) (tr1 s) st) (exec_stmt (exec f) (tr2 s) st).
  Proof.
    intros IH Hok Hw HP. destruct s as [x ks e|c th el|x lo hi stp body| | | |es|r body|d body].
    - (* assignment *)
      cbn [okS] in Hok. apply andb_true_iff in Hok as [Hk Hee].
      cbn [map_stmt exec_stmt] in *.
      destruct (Ht x (map te1 ks) (map te2 ks) st HP (map_eval_sim ks st Hk HP)) as [Hf Hs].
      rewrite Hs, (He e st Hee HP), Hf.
      destruct (opt_all (map (eval st) (snd (tt2 x (map te2 ks))))) as [vs|]; [|exact I].
      destruct (eval st (te2 e)) as [v|]; [|exact I].
      cbn [osim]. repeat split. apply P_upd; [exact HP|].
      cbn [fst]. rewrite <- Hf. apply Hw. cbn [wnames_stmt]. left. reflexivity.
    - (* if *)
      cbn [okS] in Hok. apply andb_true_iff in Hok as [Hok He2]. apply andb_true_iff in Hok as [Hc Hth].
      cbn [map_stmt exec_stmt wnames_stmt] in *.
      rewrite (He c st Hc HP). destruct (eval st (te2 c)) as [v|]; [|exact I].
      apply osim_prepend. destruct (v =? 0).
      + apply IH; [exact He2| |exact HP]. eapply incl_app_r, Hw.
      + apply IH; [exact Hth| |exact HP]. eapply incl_app_l, Hw.
    - (* do *)
      cbn [okS] in Hok. repeat (apply andb_true_iff in Hok as [Hok ?]).
      apply negb_true_iff in Hok.
      cbn [map_stmt exec_stmt wnames_stmt] in *.
      rewrite (He lo st), (He hi st), (He stp st) by assumption.
      rewrite (Hv x Hok) in *.
      destruct (eval st (te2 lo)) as [l|]; [|exact I].
      destruct (eval st (te2 hi)) as [h|]; [|exact I].
      destruct (eval st (te2 stp)) as [t|]; [|exact I].
      destruct (t =? 0); [exact I|]. apply osim_prepend.
      apply do_loop_sim; [apply Hw; left; reflexivity| |exact HP].
      intros s0 HP0. apply IH; [assumption| |exact HP0].
      intros y Hy. apply Hw. right. exact Hy.
    - cbn [map_stmt exec_stmt osim]. auto.
    - cbn [map_stmt exec_stmt osim]. auto.
    - cbn [map_stmt exec_stmt osim]. auto.
    - (* print *)
      cbn [okS] in Hok. cbn [map_stmt exec_stmt].
      rewrite (map_eval_sim es st Hok HP).
      destruct (opt_all (map (eval st) (map te2 es))); cbn [osim]; auto.
    - (* region *)
      cbn [okS] in Hok. cbn [map_stmt exec_stmt wnames_stmt] in *.
      specialize (IH body Hok Hw st HP).
      destruct (exec f (map (map_stmt te1 tt1 tv1) body) st) as [s1 t1 c1| |],
               (exec f (map (map_stmt te2 tt2 tv2) body) st) as [s2 t2 c2| |]; cbn [osim] in IH |- *; auto.
    - (* directive *)
      cbn [okS] in Hok. cbn [map_stmt exec_stmt wnames_stmt] in *.
      apply IH; assumption.
  Qed.

  Theorem sim_exec f : IHf f.
  Proof.
    induction f as [|f IH]; intros ss Hok Hw st HP.
    - cbn [exec osim]. exact I.
    - destruct ss as [|s rest].
      + cbn [map]. rewrite !exec_nil. cbn [osim]. auto.
      + cbn [map]. rewrite !exec_cons.
        cbn [forallb] in Hok. apply andb_true_iff in Hok as [Hs Hr].
        cbn [map] in Hw. rewrite wnames_cons in Hw.
        apply osim_then.
        * apply stmt_sim; [exact IH|exact Hs|eapply incl_app_l, Hw|exact HP].
        * intros s0 HP0. apply IH; [exact Hr|eapply incl_app_r, Hw|exact HP0].
  Qed.
End Sim.
