(* C07 — non-vacuity: a concrete call site satisfying every hypothesis of the partial theorems, with
   a clashing local (renamed), a shifted lower bound x(0:) on a(1:), a trailing RETURN, and a callee
   that modifies a scalar argument before writing the array. *)
From Coq Require Import List ZArith Bool Lia.
Import ListNotations.
From PV Require Import Fort.Syntax Fort.Sem Fort.Facts3 C07.Model C07.Proofs C07.Fresh.
Open Scope Z_scope.

(* caller: a=2 i=3 t=4 k=5 ; callee s(x(0:), j) with local k:  k = 2; j = j + k; x(k) = j; return
   call s(a, t);  merge renames the local k to 7 *)
Definition c_ok : callsite :=
  mkCS [(0%nat, [0]); (1%nat, [])] [(5%nat, false)]
       [SAssign 5%nat [] (ELit 2); SAssign 1%nat [] (EBin Add (EVar 1%nat) (EVar 5%nat));
        SAssign 0%nat [EVar 5%nat] (EVar 1%nat); SReturn]
       [AArr 2%nat [DFull 1] true; AVar 4%nat] [2%nat; 3%nat; 4%nat; 5%nat] [6%nat].
Definition ren_okx : list (name * name) := [(5%nat, 7%nat)].
Definition st_ok : store := store_of [((4%nat, []), 10); ((5%nat, []), 99)] [].

Example sound_nonvacuous :
  accept_impl c_ok = true /\ in_fragment c_ok = true /\ actual_indices_invariant c_ok ren_okx = true /\
  ren_ok c_ok ren_okx = true /\ locals_disjoint_outer c_ok = true /\ expr_formals_readonly c_ok = true /\
  bind_all st_ok (cs_formals c_ok) (cs_actuals c_ok) <> None /\
  inline_apply c_ok ren_okx =
    [SAssign 7%nat [] (ELit 2); SAssign 4%nat [] (EBin Add (EVar 4%nat) (EVar 7%nat));
     SAssign 2%nat [EBin Add (EBin Sub (EVar 7%nat) (ELit 0)) (ELit 1)] (EVar 4%nat)] /\
  (exists s' tr, exec 9 (inline_apply c_ok ren_okx) st_ok = Ok s' tr CNormal /\
                 val s' (2%nat, [3]) = 12 /\ val s' (4%nat, []) = 12 /\ val s' (5%nat, []) = 99) /\
  In 5%nat (cs_own c_ok ++ cs_outer c_ok) /\ ~ In 5%nat (flat_map actual_names (cs_actuals c_ok)).
Proof.
  repeat split; try (vm_compute; reflexivity); try (vm_compute; discriminate).
  - eexists. eexists. repeat split; vm_compute; reflexivity.
  - vm_compute. tauto.
  - vm_compute. intuition discriminate.
Qed.
